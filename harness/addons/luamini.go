package main

// A script whose text is NOT one of the pinned texts (somebody edited it in the repository) is
// executed by the mini Lua interpreter harness/luamini against the same in-memory store (keyspace,
// tracking table, invalidation queue) the Go transcriptions in fake.go work on; its redis.call()s are
// served by scriptCall below from the same primitives. Known scripts never take this path.
//
// The interpreter (and scriptCall) are trusted for that purpose only after luaminiSelfCheck: at the
// start of every suite each KNOWN script is run through BOTH its Go transcription (validated against
// the Lean script model by the `s.*` lines) and luamini on a few hundred random states / argument
// lists, and any difference in the reply, the keyspace, the tracking table or the queued
// invalidations fails the run.

import (
	"encoding/json"
	"fmt"
	"math/rand/v2"
	"sort"
	"strconv"
	"strings"
	"sync"
	"sync/atomic"

	"github.com/redis/rueidis/zzverif/luamini"
)

var (
	scriptTexts     sync.Map // sha1 hex -> script text, as seen in EVAL / SCRIPT LOAD
	luaPrograms     sync.Map // sha1 hex -> *luamini.Program or error
	luaUnknownRuns  atomic.Int64
	luaUnknownAs    sync.Map // label -> *atomic.Int64
	luaRefusals     atomic.Int64
	luaSelfCheckRun = map[string]int{}
)

const errNotInt = "ERR value is not an integer or out of range"

func fromLua(r luamini.Reply) reply {
	switch r.Kind {
	case ':':
		return rInt(r.Int)
	case '$':
		return rStr(r.Str)
	case '+':
		return reply{typ: '+', s: r.Str}
	case '-':
		return rErr(r.Str)
	case '*':
		out := make([]reply, len(r.Arr))
		for i, e := range r.Arr {
			out[i] = fromLua(e)
		}
		return rArr(out...)
	}
	return rNil()
}

// scriptCall serves one redis.call of an interpreted script issued on connection cl (caller holds mu;
// now = frozen script time). Reads make an OPTOUT connection track the key, writes invalidate it,
// exactly through the primitives the transcriptions use. Only the forms of the commands the keyspace
// model can represent are accepted; anything else is an error reply the script sees, never a silent
// approximation.
func (f *fakeServer) scriptCall(cl *fakeClient, now int64, a []string) luamini.Reply {
	wrong := luamini.Error(errWrong)
	op := strings.ToUpper(a[0])
	arity := func(ok bool) *luamini.Reply {
		if ok {
			return nil
		}
		r := luamini.Error("ERR wrong number of arguments for '" + strings.ToLower(op) + "' command")
		return &r
	}
	readTrack := func(key string) {
		if cl != nil && cl.optout {
			f.remember(key, cl)
		}
	}
	switch op {
	case "GET":
		if r := arity(len(a) == 2); r != nil {
			return *r
		}
		s, have, typ := f.getString(a[1], now)
		readTrack(a[1])
		switch {
		case !typ:
			return wrong
		case !have:
			return luamini.Nil()
		}
		return luamini.Bulk(s)
	case "SET":
		// SET key value [NX] [PX ms | PXAT at]
		if r := arity(len(a) >= 3); r != nil {
			return *r
		}
		nx, exp := false, int64(0)
		for i := 3; i < len(a); i++ {
			switch o := strings.ToUpper(a[i]); o {
			case "NX":
				nx = true
			case "PX", "PXAT":
				if i+1 >= len(a) || exp != 0 {
					return luamini.Error("ERR syntax error")
				}
				t, ok := parseI(a[i+1])
				if !ok {
					return luamini.Error(errNotInt)
				}
				if t <= 0 {
					return luamini.Error(errExpire)
				}
				exp = t
				if o == "PX" {
					exp = now + t
				}
				i++
			default:
				return luamini.Error("ERR luamini fake: unsupported SET option " + a[i])
			}
		}
		if v := f.look(a[1], now); v != nil && v.kind != 's' {
			return wrong // the keyspace model of the lock / cache-aside keys holds strings only
		}
		if !f.setString(a[1], a[2], nx, exp, now, cl) {
			return luamini.Nil()
		}
		return luamini.Status("OK")
	case "DEL", "EXISTS":
		n := int64(0)
		for _, k := range a[1:] {
			if op == "DEL" {
				if f.del(k, now, cl) {
					n++
				}
			} else if f.look(k, now) != nil {
				n++
			}
		}
		return luamini.Int(n)
	case "PEXPIREAT", "PEXPIRE":
		if r := arity(len(a) == 3); r != nil {
			return *r
		}
		t, ok := parseI(a[2])
		if !ok {
			return luamini.Error(errNotInt)
		}
		if f.look(a[1], now) == nil {
			return luamini.Int(0)
		}
		if op == "PEXPIRE" {
			t += now
		}
		if t <= now {
			f.del(a[1], now, cl)
		} else {
			f.keys[a[1]].exp = t
			f.touched(a[1], cl)
		}
		return luamini.Int(1)
	case "PTTL":
		if r := arity(len(a) == 2); r != nil {
			return *r
		}
		v := f.look(a[1], now)
		readTrack(a[1])
		switch {
		case v == nil:
			return luamini.Int(-2)
		case v.exp == 0:
			return luamini.Int(-1)
		}
		return luamini.Int(v.exp - now)
	case "HSET":
		if r := arity(len(a) >= 4 && len(a)%2 == 0); r != nil {
			return *r
		}
		v := f.look(a[1], now)
		if v != nil && v.kind != 'h' {
			return wrong
		}
		if v == nil {
			v = &fval{kind: 'h', h: map[string]string{}}
		}
		n := int64(0)
		for i := 2; i+1 < len(a); i += 2 {
			if _, had := v.h[a[i]]; !had {
				n++
			}
			v.h[a[i]] = a[i+1]
		}
		f.put(a[1], v, cl)
		return luamini.Int(n)
	case "HGET":
		if r := arity(len(a) == 3); r != nil {
			return *r
		}
		v := f.look(a[1], now)
		readTrack(a[1])
		if v != nil && v.kind != 'h' {
			return wrong
		}
		if v != nil {
			if s, ok := v.h[a[2]]; ok {
				return luamini.Bulk(s)
			}
		}
		return luamini.Nil()
	case "JSON.SET":
		if r := arity(len(a) == 4); r != nil {
			return *r
		}
		if a[2] != "$" {
			return luamini.Error("ERR luamini fake: JSON.SET is modelled for the root path $ only")
		}
		if v := f.look(a[1], now); v != nil && v.kind != 'j' {
			return wrong
		}
		var doc map[string]json.RawMessage
		if err := json.Unmarshal([]byte(a[3]), &doc); err != nil || doc == nil {
			return luamini.Error(errDomain) // only JSON objects are modelled
		}
		f.put(a[1], &fval{kind: 'j', s: a[3]}, cl)
		return luamini.Status("OK")
	case "JSON.GET":
		if r := arity(len(a) == 3); r != nil {
			return *r
		}
		v := f.look(a[1], now)
		readTrack(a[1])
		if v != nil && v.kind != 'j' {
			return wrong
		}
		if v == nil {
			return luamini.Nil()
		}
		if a[2] == "." {
			return luamini.Bulk(v.s)
		}
		if strings.ContainsAny(a[2], "$.[") {
			return luamini.Error("ERR luamini fake: JSON.GET is modelled for a top-level field name or . only")
		}
		var doc map[string]json.RawMessage
		_ = json.Unmarshal([]byte(v.s), &doc)
		raw, ok := doc[a[2]]
		if !ok {
			return luamini.Error("ERR Path '$." + a[2] + "' does not exist")
		}
		return luamini.Bulk(string(raw))
	case "JSON.NUMINCRBY":
		if r := arity(len(a) == 4); r != nil {
			return *r
		}
		v := f.look(a[1], now)
		if v != nil && v.kind != 'j' {
			return wrong
		}
		if v == nil {
			return luamini.Error("ERR could not perform this operation on a key that doesn't exist")
		}
		if strings.ContainsAny(a[2], "$.[") {
			return luamini.Error("ERR luamini fake: JSON.NUMINCRBY is modelled for a top-level field name only")
		}
		var doc map[string]json.RawMessage
		_ = json.Unmarshal([]byte(v.s), &doc)
		raw, ok := doc[a[2]]
		if !ok {
			return luamini.Error("ERR Path '$." + a[2] + "' does not exist")
		}
		n, ok1 := canonDec(string(raw))
		d, ok2 := canonDec(a[3])
		if !ok1 || !ok2 || n+d >= 1<<53 || n+d <= -(1<<53) {
			return luamini.Error(errDomain)
		}
		doc[a[2]] = json.RawMessage(strconv.FormatInt(n+d, 10))
		bs, _ := json.Marshal(doc)
		f.put(a[1], &fval{kind: 'j', s: string(bs), exp: v.exp}, cl)
		return luamini.Bulk(strconv.FormatInt(n+d, 10))
	case "TIME":
		return luamini.Array(luamini.Bulk(strconv.FormatInt(now/1000, 10)), luamini.Bulk(strconv.FormatInt(now%1000*1000, 10)))
	}
	return luamini.Error("ERR luamini fake: command " + a[0] + " is not available to interpreted scripts")
}

// runLua executes a script text through luamini on this server's state (caller holds mu).
func (f *fakeServer) runLua(cl *fakeClient, sha, text string, keys, args []string) reply {
	var prog *luamini.Program
	if p, ok := luaPrograms.Load(sha); ok {
		if e, bad := p.(error); bad {
			return rErr("ERR " + e.Error())
		}
		prog = p.(*luamini.Program)
	} else {
		p, err := luamini.Compile(text)
		if err != nil {
			luaPrograms.Store(sha, err)
			luaRefusals.Add(1)
			return rErr("ERR " + err.Error())
		}
		luaPrograms.Store(sha, p)
		prog = p
	}
	now := f.clock()
	r, st := prog.Run(keys, args, func(a []string) luamini.Reply { return f.scriptCall(cl, now, a) }, nil)
	if st.Unsupported {
		luaRefusals.Add(1)
	}
	return fromLua(r)
}

// ---- labelling a script of unknown text with the known script it is an edit of

func luaTokens(s string) map[string]int {
	out := map[string]int{}
	i := 0
	for i < len(s) {
		c := s[i]
		switch {
		case c == ' ' || c == '\t' || c == '\n' || c == '\r':
			i++
		case c == '_' || (c >= '0' && c <= '9') || (c >= 'a' && c <= 'z') || (c >= 'A' && c <= 'Z'):
			j := i
			for j < len(s) && (s[j] == '_' || (s[j] >= '0' && s[j] <= '9') || (s[j] >= 'a' && s[j] <= 'z') || (s[j] >= 'A' && s[j] <= 'Z')) {
				j++
			}
			out[s[i:j]]++
			i = j
		default:
			out[string(c)]++
			i++
		}
	}
	return out
}

// labelOf: the transcription name of the pinned script whose token multiset is closest (Dice
// coefficient) to the text, or "lua:<sha8>" when nothing is close. The package that sent it is not
// known to the server, so scripts of different packages with near-identical texts (the delkey scripts
// of rueidislock and rueidisaside) are told apart by the exact tokens only. Only a label for the
// fake's log (so that the suites' oracles keep recognising the call); it never selects how the script runs.
func labelOf(sha, text string) string {
	tk := luaTokens(text)
	nt := 0
	for _, n := range tk {
		nt += n
	}
	best, bestScore := "", 0.0
	for _, p := range pinnedScripts {
		pk := luaTokens(p.text)
		np, common := 0, 0
		for w, n := range pk {
			np += n
			common += min(n, tk[w])
		}
		if np+nt == 0 {
			continue
		}
		if sc := 2 * float64(common) / float64(np+nt); sc > bestScore {
			best, bestScore = scriptBySha[p.sha], sc
		}
	}
	if bestScore < 0.6 {
		return "lua:" + sha[:8]
	}
	return best
}

func luaminiHits(c *Ctx) {
	if n := luaUnknownRuns.Load(); n > 0 {
		c.Dist["luamini:executed-unknown-script"] += int(n)
	}
	luaUnknownAs.Range(func(k, v any) bool {
		c.Dist["luamini:executed-unknown-script:as:"+k.(string)] += int(v.(*atomic.Int64).Load())
		return true
	})
	if n := luaRefusals.Load(); n > 0 {
		c.Dist["luamini:refused-unsupported"] += int(n)
	}
	for k, v := range luaSelfCheckRun {
		c.Dist[k] += v
	}
}

// ---- differential validation of luamini against the Go transcriptions

// canonical text of the server state at time now: keyspace (lazily expired keys are not there),
// tracking table, queued invalidations
func (f *fakeServer) dump(now int64) string {
	ks := make([]string, 0, len(f.keys))
	for k, v := range f.keys {
		if v.exp != 0 && now > v.exp {
			continue
		}
		ks = append(ks, k)
	}
	sort.Strings(ks)
	var b strings.Builder
	for _, k := range ks {
		v := f.keys[k]
		fmt.Fprintf(&b, "%s=%c%q", k, v.kind, v.s)
		if v.kind == 'h' {
			fs := make([]string, 0, len(v.h))
			for fld, x := range v.h {
				fs = append(fs, fmt.Sprintf("%q:%q", fld, x))
			}
			sort.Strings(fs)
			b.WriteString("{" + strings.Join(fs, ",") + "}")
		}
		fmt.Fprintf(&b, "@%d ", v.exp)
	}
	b.WriteString("| track:")
	tk := make([]string, 0, len(f.track))
	for k := range f.track {
		tk = append(tk, k)
	}
	sort.Strings(tk)
	for _, k := range tk {
		ids := []int{}
		for c := range f.track[k] {
			ids = append(ids, c.id)
		}
		sort.Ints(ids)
		fmt.Fprintf(&b, " %s%v", k, ids)
	}
	b.WriteString(" | pending:")
	for _, iv := range f.pending {
		fmt.Fprintf(&b, " %d<-%s", iv.to.id, iv.key)
	}
	return b.String()
}

type diffCase struct {
	setup      func(f *fakeServer) *fakeClient // populates a fresh server, returns the calling connection
	now        int64
	keys, args []string
	desc       string
}

// genDiffCase draws a random state, calling connection and argument list for one known script, inside
// the domain on which its transcription is a faithful rendering of the Lua text (canonical decimal
// numerals, the argument counts the packages use, the connection modes the packages use: OPTOUT /
// NOLOOP tracking only for rueidislock), including the error paths both sides must take at the same
// point (keys of the wrong type, invalid expiry, a version field missing from the stored document).
func genDiffCase(r *rand.Rand, name string) diffCase {
	type kv struct {
		key  string
		kind byte
		s    string
		h    map[string]string
		exp  int64
	}
	var st []kv
	now := []int64{1000, 5000, 1_700_000_000_000 + r.Int64N(1_000_000)}[r.IntN(3)]
	expiry := func() int64 {
		switch r.IntN(6) {
		case 0:
			return now + 1 + r.Int64N(2000)
		case 1:
			return now
		case 2:
			return max(1, now-1-r.Int64N(5))
		}
		return 0
	}
	key := "k:" + []string{"a", "b:c"}[r.IntN(2)]
	vals := []string{"v1", "v2", ""}
	optout, noloop := false, false
	selfTracks, otherTracks := r.IntN(3) == 0, r.IntN(2) == 0
	d := diffCase{now: now, keys: []string{key}}
	str := func() {
		switch x := r.IntN(16); {
		case x < 4: // absent
		case x == 4:
			st = append(st, kv{key: key, kind: 'h', h: map[string]string{"f": "1"}})
		default:
			st = append(st, kv{key: key, kind: 's', s: vals[r.IntN(len(vals))], exp: expiry()})
		}
	}
	ms := func() string { return fmt.Sprint([]int64{-5, 0, 1, 50, 1000, 60000}[r.IntN(6)]) }
	at := func() string {
		return fmt.Sprint([]int64{-1, 0, now - 5, now, now + 1, now + 50, now + 60000}[r.IntN(7)])
	}
	switch {
	case strings.HasPrefix(name, "lk."):
		optout, noloop = r.IntN(4) != 0, r.IntN(2) == 0
		str()
		switch name {
		case "lk.acqms", "lk.fcqms":
			d.args = []string{vals[r.IntN(2)], ms()}
		case "lk.acqat", "lk.fcqat", "lk.extend":
			d.args = []string{vals[r.IntN(2)], at()}
		case "lk.delkey":
			d.args = []string{vals[r.IntN(2)]}
		}
	case strings.HasPrefix(name, "as."):
		str()
		switch name {
		case "as.acquire":
			d.args = []string{vals[r.IntN(2)], ms()}
		case "as.delkey":
			d.args = []string{vals[r.IntN(2)]}
		case "as.setkey":
			d.args = []string{vals[r.IntN(2)], "data" + fmt.Sprint(r.IntN(3)), ms()}
		}
	case name == "om.hashsave":
		ver := []int64{0, 1, 2, 7, -1, 99999999999998, 41}[r.IntN(7)]
		verName := []string{"ver", "ver", "ver", ""}[r.IntN(4)]
		switch x := r.IntN(16); {
		case x < 4:
		case x == 4:
			st = append(st, kv{key: key, kind: 's', s: "x"})
		default:
			h := map[string]string{"f1": "old"}
			switch r.IntN(4) {
			case 0: // no version field
			case 1:
				h["ver"] = fmt.Sprint(ver + 1)
			default:
				h["ver"] = fmt.Sprint(ver)
			}
			st = append(st, kv{key: key, kind: 'h', h: h, exp: expiry()})
		}
		d.args = []string{verName, fmt.Sprint(ver)}
		for i := r.IntN(4); i > 0; i-- {
			d.args = append(d.args, "f"+fmt.Sprint(r.IntN(3)), "val"+fmt.Sprint(r.IntN(9)))
		}
		if r.IntN(3) == 0 {
			d.args = append(d.args, at())
		}
	case name == "om.jsonsave":
		ver := []int64{0, 1, 2, 7, -1, 1<<53 - 2, 41}[r.IntN(7)]
		verName := []string{"ver", "ver", "ver", ""}[r.IntN(4)]
		switch x := r.IntN(16); {
		case x < 4:
		case x == 4:
			st = append(st, kv{key: key, kind: 's', s: "x"})
		default:
			doc := fmt.Sprintf(`{"id":"a","ver":%d,"n":1}`, ver)
			switch r.IntN(5) {
			case 0:
				doc = `{"id":"a","n":1}` // no version field
			case 1:
				doc = fmt.Sprintf(`{"ver":%d,"id":"a"}`, ver+1)
			}
			st = append(st, kv{key: key, kind: 'j', s: doc, exp: expiry()})
		}
		d.args = []string{verName, fmt.Sprint(ver), fmt.Sprintf(`{"id":"a","ver":%d,"n":%d,"s":"x y"}`, ver, r.IntN(5))}
		if r.IntN(3) == 0 {
			d.args = append(d.args, at())
		}
	default:
		panic("genDiffCase: no generator for " + name)
	}
	d.setup = func(f *fakeServer) *fakeClient {
		for _, e := range st {
			v := &fval{kind: e.kind, s: e.s, exp: e.exp}
			if e.kind == 'h' {
				v.h = map[string]string{}
				for k, x := range e.h {
					v.h[k] = x
				}
			}
			f.keys[e.key] = v
		}
		cl := &fakeClient{srv: f, id: 1, optout: optout, noloop: noloop, cache: map[string]centry{}}
		other := &fakeClient{srv: f, id: 2, optout: true, cache: map[string]centry{}}
		if selfTracks {
			f.remember(key, cl)
		}
		if otherTracks {
			f.remember(key, other)
		}
		return cl
	}
	f := newFakeServer(func() int64 { return now })
	d.setup(f)
	d.desc = fmt.Sprintf("now=%d optout=%v noloop=%v state=[%s] KEYS=%v ARGV=%q", now, optout, noloop, f.dump(0), d.keys, d.args)
	return d
}

// luaminiSelfCheck: every known script, transcription vs luamini, on random cases. Its own PRNG
// stream (derived from the seed) so that the suites' generators are not disturbed.
func luaminiSelfCheck(c *Ctx, seed uint64) {
	r := rand.New(rand.NewPCG(seed, 0x6c75616d696e69))
	per := 300
	if c.Tier == "thorough" {
		per = 1500
	}
	done := map[string]bool{}
	for _, p := range pinnedScripts {
		name := scriptBySha[p.sha]
		if done[name] {
			continue
		}
		done[name] = true
		prog, err := luamini.Compile(p.text)
		if err != nil {
			c.Fail("luamini:disagrees-with-transcription:"+name, "selfcheck "+name, "the pinned text does not compile: "+err.Error())
			continue
		}
		bad := 0
		for i := 0; i < per && bad < 3; i++ {
			d := genDiffCase(r, name)
			a := newFakeServer(func() int64 { return d.now })
			b := newFakeServer(func() int64 { return d.now })
			ca := d.setup(a)
			cb := d.setup(b)
			ra := a.runScript(ca, name, d.keys, d.args)
			lr, st := prog.Run(d.keys, d.args, func(x []string) luamini.Reply { return b.scriptCall(cb, d.now, x) }, nil)
			rb := fromLua(lr)
			da, db := a.dump(d.now), b.dump(d.now)
			luaSelfCheckRun["luamini:selfcheck:"+name+":"+string(ra.typ)]++
			if st.Unsupported || ra.String() != rb.String() || da != db {
				bad++
				c.Hit("luamini:selfcheck:DISAGREE")
				c.Fail("luamini:disagrees-with-transcription:"+name, "selfcheck "+name+" "+d.desc,
					fmt.Sprintf("transcription answers %s leaving [%s]; luamini answers %s (%s) leaving [%s]", ra.String(), da, rb.String(), lr.String(), db))
			}
		}
	}
	luaSelfCheckRun["luamini:selfcheck:scripts"] += len(done)
}
