package main

import (
	"context"
	"fmt"
	"strconv"
	"strings"
	"sync"
	"time"

	"github.com/redis/rueidis"
	"github.com/redis/rueidis/mock"
	"github.com/redis/rueidis/rueidislock"
)

func init() {
	suites["lock"] = suite{
		rule: "C34: (1) script-level: acqms/acqat/fcqms/fcqat/extend/delkey on the fake's registers with own, foreign and missing values vs the Lean register scripts; (2) end-to-end: real rueidislock Lockers (KeyMajority 1..3, NoLoopTracking, FallbackSETPX on/off, one fake connection per Locker with OPTOUT tracking and invalidation pushes) driven one event at a time to quiescence: TryWithContext, WithContext waiters (goroutines), ForceWithContext, release (cancel func), third-party deletion and expiry of single keys, one fixed gated schedule with two waiters of ONE Locker under NoLoopTracking (known finding lock:lost-wakeup:noloop-sibling-failed-attempt) and its control without NOLOOP, lock names containing ':' (one, several, leading, trailing, empty segments), the prefix itself, other separators and non-ASCII bytes, raw invalidation pushes (`inval`: well-formed keys, foreign names, non-numeric / out-of-range / negative indexes, the bare prefix - panics are answers), keys deleted by a third party between the server's execution of the acquire script and the client's receipt of its reply (`try-raced`, ordered by a reply hook; no timer fires, so the loss must be noticed through the invalidation), injected failures of one acquisition (bare-majority holders) and of one extend, third-party writes; the anonymous state (live contexts, waiters, every live holder owns a majority, all keys free when idle) is compared with the Lean model run to quiescence on a canonical schedule; the harness itself flags two live contexts in episodes without force/expiry/deletion/faults and a key deleted by its holder's delkey while that holder's context is still live; after a waiter took the lock over, episodes destroy no further keys (how many spare keys the new holder got is a scheduler race); non-trivial = distinct op within its episode prefix",
		run:  runLock,
		replay: func(c *Ctx, lines []string) {
			ep := &lkEp{}
			for _, l := range lines {
				ep.op(c, l)
			}
			ep.close()
		},
	}
}

type lkHolder struct {
	ctx    context.Context
	cancel context.CancelFunc
	val    string
	locker int
}

type lkEp struct {
	m       int
	n       int
	srv     *fakeServer
	admin   *fakeClient
	lockers map[int]rueidislock.Locker
	mu      sync.Mutex
	holders []*lkHolder
	waiting int
	cancels []context.CancelFunc
	dirty   bool // force / expiry / deletion / fault happened: the mutual-exclusion hypothesis is off
	early   []string
	failKey string
	noloop  bool
	name    string // the lock name of the episode (names with ':' etc. exercise the key-name parsing of onInvalidations)
	fcs     map[int]*fakeClient
	acqCalls int
	gmu     sync.Mutex
	gates   map[string]chan struct{} // "<conn>:<key index>" -> gate that holds that connection's delkey of that key
	gated   map[int]int              // conn -> goroutines waiting at a gate
	lastVal map[int]string // connection id -> value of its last successful acquire/force script
	waitL   map[int]int // Locker index -> pending WithContext calls
	skip    bool        // the episode ended early (a scheduler-dependent known finding struck): ignore ops until reset
	atHook  int    // goroutines of the real code currently held inside a hook/gate of the harness
	failAcq string // one injected failure of the next acquire script on this key
	dead    bool
}

func (e *lkEp) key(i int) string { return fmt.Sprintf("rueidislock:%d:%s", i, e.name) }

func (e *lkEp) close() {
	if e.srv == nil || e.dead {
		return
	}
	for _, c := range e.cancels {
		c()
	}
	e.mu.Lock()
	hs := append([]*lkHolder{}, e.holders...)
	e.mu.Unlock()
	for _, h := range hs {
		go h.cancel()
	}
	settle()
}

func (e *lkEp) locker(i int, px bool) rueidislock.Locker {
	if l, ok := e.lockers[i]; ok {
		return l
	}
	l, err := rueidislock.NewLocker(rueidislock.LockerOption{
		ClientBuilder: func(opt rueidis.ClientOption) (rueidis.Client, error) {
			fc := newFakeClient(e.srv, i+1, opt)
			e.fcs[i] = fc
			return fc, nil
		},
		KeyMajority: int32(e.m), KeyValidity: time.Hour, ExtendInterval: 30 * time.Minute, TryNextAfter: time.Minute,
		NoLoopTracking: e.noloop, FallbackSETPX: px,
	})
	if err != nil {
		panic(err)
	}
	e.lockers[i] = l
	return l
}

func (e *lkEp) got(ctx context.Context, cancel context.CancelFunc, conn int) {
	e.srv.mu.Lock()
	val := e.lastVal[conn]
	e.srv.mu.Unlock()
	e.mu.Lock()
	e.holders = append(e.holders, &lkHolder{ctx: ctx, cancel: cancel, val: val, locker: conn - 1})
	e.mu.Unlock()
}

func (e *lkEp) state(c *Ctx, line string) string {
	e.mu.Lock()
	defer e.mu.Unlock()
	e.srv.mu.Lock()
	defer e.srv.mu.Unlock()
	live, maj, held := 0, true, 0
	for i := 0; i < e.n; i++ {
		if e.srv.keys[e.key(i)] != nil {
			held++
		}
	}
	for _, h := range e.holders {
		if h.ctx.Err() != nil {
			continue
		}
		live++
		own := 0
		for i := 0; i < e.n; i++ {
			if v := e.srv.keys[e.key(i)]; v != nil && v.s == h.val {
				own++
			}
		}
		if own < e.m {
			maj = false
		}
	}
	if live == 0 && e.waiting > 0 && held == 0 {
		c.Fail("lock:lost-wakeup:waiter-parked-on-free-lock", line, fmt.Sprintf("%d WithContext caller(s) stay parked although every key of the lock is free and nobody holds it; last server calls:%s", e.waiting, e.logTail(14)))
	}
	if !maj {
		c.Fail("lock:loss-not-noticed", line, "a lock context is still live although its holder owns fewer than KeyMajority keys and every goroutine is at rest")
	}
	if live > 1 && !e.dirty {
		c.Fail("lock:two-live-contexts", line, fmt.Sprintf("%d lock contexts are live at once without force/expiry/deletion/fault", live))
	}
	for _, x := range e.early {
		c.Fail("lock:key-deleted-before-ctx-cancel:extend-error", line, x)
	}
	e.early = nil
	free := "-"
	if live == 0 && e.waiting == 0 {
		free = b01(held == 0)
	}
	return fmt.Sprintf("live=%d waiting=%d maj=%s idle-free=%s", live, e.waiting, b01(maj), free)
}

func (e *lkEp) op(c *Ctx, line string) {
	if e.dead {
		return // the real code hung earlier in this run: nothing after that is meaningful
	}
	w := strings.Fields(line)
	if e.skip && w[0] != "reset" {
		return
	}
	emit := func() {
		if !settle() {
			e.dead = true
			c.Emit(line, "not-quiescent", true)
			return
		}
		if e.orphans(c, line) {
			return // nothing after the accident is comparable, this op's answer included
		}
		c.Emit(line, e.state(c, line), true)
	}
	bg := context.Background()
	switch w[0] {
	case "reset": // reset m px
		e.close()
		e.m, _ = strconv.Atoi(w[1])
		e.n = 2*e.m - 1
		e.srv = newFakeServer(func() int64 { return time.Now().UnixMilli() })
		e.admin = newFakeClient(e.srv, 99, rueidis.ClientOption{})
		e.waitL, e.skip = map[int]int{}, false
		e.lockers, e.holders, e.waiting, e.cancels, e.dirty, e.early, e.failKey, e.failAcq = map[int]rueidislock.Locker{}, nil, 0, nil, false, nil, "", ""
		e.srv.failCmd = func(cmd []string) string {
			// one injected failure of the extend script on e.failKey
			if e.failKey != "" && len(cmd) > 3 && strings.HasPrefix(strings.ToUpper(cmd[0]), "EVAL") && cmd[3] == e.failKey &&
				(cmd[1] == "852ba6ec6104340ced36643283c856d4698569e4" || strings.Contains(cmd[1], "PEXPIREAT")) {
				e.failKey = ""
				return "ERR injected failure"
			}
			// one injected failure (a timeout as the client sees it) of the acquire / force script on e.failAcq
			if e.failAcq != "" && len(cmd) > 3 && strings.HasPrefix(strings.ToUpper(cmd[0]), "EVAL") && cmd[3] == e.failAcq &&
				(acqShas[cmd[1]] || strings.HasPrefix(cmd[1], "local r = redis.call(\"SET\"")) {
				e.failAcq = ""
				return "ERR injected timeout"
			}
			return ""
		}
		e.noloop, e.name, e.fcs, e.acqCalls = true, "L", map[int]*fakeClient{}, 0
		for _, x := range w[2:] {
			if x == "noloop=0" {
				e.noloop = false
			}
			if strings.HasPrefix(x, "name=") {
				e.name = unhx(x[5:])
			}
		}
		e.gates, e.gated = map[string]chan struct{}{}, map[int]int{}
		e.srv.beforeExec = func(cl *fakeClient, cmd []string) {
			// gates on delkey script calls (EVALSHA by sha or EVAL by text), per connection and key
			if cl == nil || len(cmd) < 4 || !strings.HasPrefix(strings.ToUpper(cmd[0]), "EVAL") ||
				!(cmd[1] == "9eb62214c9af87ae5f9a9f12bb4520281c0d2ae1" || strings.Contains(cmd[1], `redis.call("DEL"`)) {
				return
			}
			for i := 0; i < e.n; i++ {
				if cmd[3] != e.key(i) {
					continue
				}
				k := fmt.Sprintf("%d:%d", cl.id, i)
				e.gmu.Lock()
				ch := e.gates[k]
				if ch != nil {
					e.gated[cl.id]++
				}
				e.gmu.Unlock()
				if ch != nil {
					<-ch
					e.gmu.Lock()
					e.gated[cl.id]--
					e.gmu.Unlock()
				}
			}
		}
		e.lastVal = map[int]string{}
		e.srv.onExec = func(l *logged) {
			if strings.HasPrefix(l.name, "lk.acq") || strings.HasPrefix(l.name, "lk.fcq") {
				e.acqCalls++
			}
			if (strings.HasPrefix(l.name, "lk.acq") || strings.HasPrefix(l.name, "lk.fcq")) && l.rep.typ == '+' && l.cl != nil {
				e.lastVal[l.cl.id] = l.args[0]
			}
			if l.name == "lk.delkey" && l.rep.typ == ':' && l.rep.n == 1 {
				// the holder's own delkey removed a key (called under the server mutex, after the deletion):
				// its context must be done unless it still owns a majority (then this was a single key lost
				// through an error, which the holder survives - a loss, not a release)
				own := 0
				for i := 0; i < e.n; i++ {
					if v := e.srv.keys[e.key(i)]; v != nil && v.s == l.args[0] {
						own++
					}
				}
				e.mu.Lock()
				for _, h := range e.holders {
					if h.val == l.args[0] && h.ctx.Err() == nil && own < e.m {
						e.early = append(e.early, fmt.Sprintf("delkey removed %s, leaving the holder %d of %d keys (majority %d), while its lock context was still live (DEL precedes cancel())", l.keys[0], own, e.n, e.m))
					}
				}
				e.mu.Unlock()
			}
		}
		c.Emit(line, "ok", false)
	case "s.acq", "s.fcq", "s.ext", "s.del": // script level: s.acq px v i
		px := w[1] == "1"
		name := map[string]string{"s.acq": "lk.acq", "s.fcq": "lk.fcq"}[w[0]]
		arg := "3600000"
		if name != "" {
			if px {
				name += "ms"
			} else {
				name += "at"
				arg = strconv.FormatInt(time.Now().UnixMilli()+3600000, 10)
			}
		} else if w[0] == "s.ext" {
			name, arg = "lk.extend", strconv.FormatInt(time.Now().UnixMilli()+3600000, 10)
		} else {
			name = "lk.delkey"
		}
		i, _ := strconv.Atoi(w[3])
		e.srv.mu.Lock()
		r := e.srv.runScript(e.admin, name, []string{e.key(i)}, []string{"v" + w[2], arg})
		owners := make([]string, e.n)
		for k := 0; k < e.n; k++ {
			owners[k] = "-"
			if v := e.srv.keys[e.key(k)]; v != nil {
				owners[k] = strings.TrimPrefix(v.s, "v")
			}
		}
		e.srv.mu.Unlock()
		e.srv.flush()
		c.Hit(w[0] + ":" + string(r.typ))
		c.Emit(line, r.String()+" "+strings.Join(owners, ","), true)
	case "try", "force":
		l := e.locker(int(w[1][0]-'0'), len(w) > 2 && w[2] == "px")
		var ctx context.Context
		var cancel context.CancelFunc
		var err error
		force := w[0] == "force"
		if force {
			e.dirty = true
		}
		if !watchdog(func() {
			if force {
				ctx, cancel, err = l.ForceWithContext(bg, e.name)
			} else {
				ctx, cancel, err = l.TryWithContext(bg, e.name)
			}
		}) {
			e.dead = true
			c.Emit(line, e.stuckVerdict(), true)
			return
		}
		if err == nil {
			e.got(ctx, cancel, int(w[1][0]-'0')+1)
		}
		c.Hit(w[0] + ":" + errClassLock(err))
		emit()
	case "try-raced": // try-raced L j…: TryWithContext on Locker L; for every listed key, right after its acquire script
		// ran on the server and BEFORE the reply gets back to the client, a third party deletes the key (the
		// invalidation push precedes the reply on the connection)
		e.dirty = true
		li := int(w[1][0] - '0')
		l := e.locker(li, false)
		fc := e.fcs[li]
		want := map[string]bool{}
		for _, x := range w[2:] {
			j, _ := strconv.Atoi(x)
			want[e.key(j)] = true
		}
		reached, resume := make(chan string), make(chan struct{})
		var hmu sync.Mutex
		armed := true
		e.srv.afterReply = func(cl *fakeClient, cmd []string, r reply) {
			if cl != fc || len(cmd) <= 3 || !strings.HasPrefix(strings.ToUpper(cmd[0]), "EVAL") || r.typ != '+' ||
				!(acqShas[cmd[1]] || strings.HasPrefix(cmd[1], "local r = redis.call(\"SET\"")) {
				return
			}
			hmu.Lock()
			hit := armed && want[cmd[3]]
			if hit {
				delete(want, cmd[3])
			}
			hmu.Unlock()
			if hit {
				e.gmu.Lock()
				e.atHook++
				e.gmu.Unlock()
				reached <- cmd[3]
				<-resume
				e.gmu.Lock()
				e.atHook--
				e.gmu.Unlock()
			}
		}
		var ctx context.Context
		var cancel context.CancelFunc
		var err error
		ret := make(chan struct{})
		go func() {
			ctx, cancel, err = l.TryWithContext(bg, e.name)
			close(ret)
		}()
		// TryWithContext returns as soon as it has its majority; the remaining keys are acquired by a goroutine
		// of try(): keep serving the reply hook until everything is at rest and no acquire reply is waiting
		returned, verdict := false, ""
		for verdict == "" {
			if !settle() {
				verdict = "not-quiescent"
				break
			}
			select {
			case k := <-reached:
				e.srv.mu.Lock()
				if e.srv.keys[k] != nil {
					delete(e.srv.keys, k)
					e.srv.touched(k, nil)
				}
				e.srv.mu.Unlock()
				e.srv.flush()
				resume <- struct{}{}
				continue
			default:
			}
			select {
			case <-ret:
				returned = true
			default:
			}
			if returned {
				verdict = "done"
			} else {
				verdict = "hang" // at rest, nobody at the hook, and TryWithContext has not returned: the real code is stuck
			}
		}
		hmu.Lock()
		armed = false // a reply that comes later (a key that was not attempted in this call) passes through
		hmu.Unlock()
		e.srv.afterReply = nil
		if verdict != "done" {
			e.dead = true
			c.Emit(line, verdict, true)
			return
		}
		if err == nil {
			e.got(ctx, cancel, li+1)
		}
		c.Hit("try-raced:" + errClassLock(err))
		emit()
	case "with":
		conn := int(w[1][0]-'0') + 1
		l := e.locker(int(w[1][0]-'0'), len(w) > 2 && w[2] == "px")
		src, stop := context.WithCancel(bg)
		e.cancels = append(e.cancels, stop)
		e.mu.Lock()
		e.waiting++
		e.waitL[conn-1]++
		e.mu.Unlock()
		go func() {
			ctx, cancel, err := l.WithContext(src, e.name)
			if err == nil {
				e.got(ctx, cancel, conn)
			}
			e.mu.Lock()
			e.waiting--
			e.waitL[conn-1]--
			e.mu.Unlock()
		}()
		c.Hit("with")
		emit()
	case "release":
		e.mu.Lock()
		var h *lkHolder
		for _, x := range e.holders {
			if x.ctx.Err() == nil {
				h = x
				break
			}
		}
		e.mu.Unlock()
		if h == nil {
			c.Emit(line, "no-holder", false)
			return
		}
		if !watchdog(h.cancel) {
			e.dead = true
			c.Emit(line, e.stuckVerdict(), true)
			return
		}
		c.Hit("release")
		emit()
	case "extdel", "expire":
		e.dirty = true
		i, _ := strconv.Atoi(w[1])
		e.srv.mu.Lock()
		if e.srv.keys[e.key(i)] != nil {
			delete(e.srv.keys, e.key(i))
			e.srv.touched(e.key(i), nil)
		}
		e.srv.mu.Unlock()
		e.srv.flush()
		c.Hit(w[0])
		emit()
	case "sib.setup": // H = Locker 0 holds the lock, two WithContext waiters on Locker 1 (ONE connection); gates on
		// H's three delkeys and on Locker 1's delkey of key 0; then H's cancel() starts (and waits at the gates)
		if e.m != 2 {
			c.Emit(line, "bad-op", false)
			return
		}
		lh, lw := e.locker(0, false), e.locker(1, false)
		ctx, cancel, err := lh.TryWithContext(bg, e.name)
		if err != nil {
			c.Emit(line, "setup-failed", true)
			return
		}
		e.got(ctx, cancel, 1)
		for k := 0; k < 2; k++ {
			src, stop := context.WithCancel(bg)
			e.cancels = append(e.cancels, stop)
			e.mu.Lock()
			e.waiting++
			e.waitL[1]++
			e.mu.Unlock()
			go func() {
				ctx, cancel, err := lw.WithContext(src, e.name)
				if err == nil {
					e.got(ctx, cancel, 2)
				}
				e.mu.Lock()
				e.waiting--
				e.waitL[1]--
				e.mu.Unlock()
			}()
			settle()
		}
		e.gmu.Lock()
		for _, k := range []string{"1:0", "1:1", "1:2", "2:0"} {
			e.gates[k] = make(chan struct{})
		}
		e.gmu.Unlock()
		go cancel()
		c.Hit("sib.setup")
		settle()
		if e.orphans(c, line) {
			return
		}
		c.Emit(line, e.sibState(), true)
	case "sib.hdel", "sib.adel": // open one gate: H's delkey of key i / the waiters' connection's delkey of key 0
		k := "2:0"
		if w[0] == "sib.hdel" {
			k = "1:" + w[1]
		}
		e.gmu.Lock()
		if ch := e.gates[k]; ch != nil {
			close(ch)
			delete(e.gates, k)
		}
		e.gmu.Unlock()
		if !settle() {
			e.dead = true
			c.Emit(line, "not-quiescent", true)
			return
		}
		if e.orphans(c, line) {
			return
		}
		if w[0] == "sib.adel" {
			time.Sleep(300 * time.Millisecond) // bounded wait: nothing is pending that could still wake a waiter
			settle()
			st := e.sibState()
			if st == "held=0 parked=2 live=0" {
				c.Fail("lock:lost-wakeup:noloop-sibling-failed-attempt", line,
					"every key is free and two WithContext waiters of one Locker stay parked with an empty gate channel: one waiter's failing attempt held key 0 for a moment and refused its sibling; deleting key 0 again was the connection's own write (no invalidation under NOLOOP) and a failed attempt sends no gate token")
			}
			c.Hit("sib.adel:" + st)
			c.Emit(line, st, true)
			return
		}
		c.Hit(w[0])
		c.Emit(line, e.sibState(), true)
	case "inval": // inval <key>: the invalidation push for <key> reaches every Locker's connection (its
		// OnInvalidations callback); observable: a parked waiter whose gate is signalled tries again
		key := unhx(w[1])
		before := e.acqCalls
		ans := ""
		// only the waiters' Locker (index 1) is told: the holder's own monitors would extend and thereby
		// invalidate the key for real
		if fc := e.fcs[1]; fc != nil && fc.onInval != nil {
			func() {
				defer func() {
					if r := recover(); r != nil {
						ans = "panic"
					}
				}()
				fc.onInval([]rueidis.RedisMessage{mock.RedisBlobString(key)})
			}()
		}
		if !settle() {
			e.dead = true
			c.Emit(line, "not-quiescent", true)
			return
		}
		if e.orphans(c, line) {
			return
		}
		if ans == "" {
			ans = fmt.Sprintf("retries=%d", e.acqCalls-before)
		}
		c.Hit("inval:" + ans)
		c.Emit(line, ans, true)
	case "failacq": // the next acquire script on key i fails with a server error (the caller sees a timeout)
		i, _ := strconv.Atoi(w[1])
		e.failAcq = e.key(i)
		c.Hit("failacq")
		emit()
	case "extset": // another program writes key i
		e.dirty = true
		i, _ := strconv.Atoi(w[1])
		_ = e.admin.Do(bg, e.admin.B().Set().Key(e.key(i)).Value("foreign").Build())
		c.Hit("extset")
		emit()
	case "failext": // the next extend of key i fails with a server error; an invalidation makes the monitor try
		e.dirty = true
		i, _ := strconv.Atoi(w[1])
		e.srv.mu.Lock()
		if e.srv.keys[e.key(i)] != nil {
			e.failKey = e.key(i)
			e.srv.touched(e.key(i), nil)
		}
		e.srv.mu.Unlock()
		e.srv.flush()
		c.Hit("failext")
		emit()
		e.failKey = "" // nobody extended that key (foreign value, no monitor): the fault is not kept for later
	default:
		c.Emit(line, "bad-op", false)
	}
}

// watchdog runs a call of the real code that must return without outside help
func watchdog(f func()) bool {
	done := make(chan struct{})
	go func() { f(); close(done) }()
	select {
	case <-done:
		return true
	case <-time.After(15 * time.Second):
		return false
	}
}

var acqShas = map[string]bool{
	"3875d208d9e377969d2022550302cc83ad17b584": true, "fa3d1aaa7e4145457755016a3d5daf72fa7a11bf": true,
	"c10e8119872659b926e8e28002d9b7fccbf15617": true, "4384ed08baff4dd7071b6c78c516a2fded4ee3e7": true,
}

// orphans: a WithContext caller is pending on Locker L but L has no gate registered under the lock name any
// more, so no invalidation can wake it (known finding, scheduler dependent: the monitor goroutine of the
// caller's failed attempt ran before try() counted the failure and released the gate as if the lock had been
// held). The episode ends here: what follows would depend on that accident.
func (e *lkEp) orphans(c *Ctx, line string) bool {
	e.mu.Lock()
	exp := map[int]int{}
	for l, n := range e.waitL {
		exp[l] += n
	}
	for _, h := range e.holders {
		if h.ctx.Err() == nil {
			exp[h.locker]++
		}
	}
	e.mu.Unlock()
	for l, want := range exp {
		lk := e.lockers[l]
		if lk == nil || want == 0 {
			continue
		}
		// every pending WithContext call and every held lock of a Locker is one user of its gate
		if reg, users := rueidislock.VerifGateUsers(lk, e.name); !reg || users != want {
			c.Fail("lock:waiter-orphaned:failed-attempt-monitor-before-failure-count", line,
				fmt.Sprintf("Locker %d has %d pending WithContext calls / held locks but its gate is registered=%v with %d users: a refused attempt's monitor released the gate as if a lock had been held; onInvalidations can no longer reach its users", l, want, reg, users))
			e.skip = true
		}
	}
	return e.skip
}

// logTail: the last n server calls (caller holds srv.mu): connection, script/command, key, reply
func (e *lkEp) logTail(n int) string {
	l := e.srv.log
	if len(l) > n {
		l = l[len(l)-n:]
	}
	var b strings.Builder
	for _, x := range l {
		id := 0
		if x.cl != nil {
			id = x.cl.id
		}
		k := ""
		if len(x.keys) > 0 {
			k = x.keys[0]
		}
		fmt.Fprintf(&b, " [c%d %s %s %s]", id, x.name, k, x.rep.String())
	}
	return b.String()
}

// stuckVerdict: a call of the real code did not return. If the harness itself still holds one of its goroutines
// at a gate or reply hook the harness is to blame ("harness-gate-armed"), otherwise the real code hangs.
func (e *lkEp) stuckVerdict() string {
	e.gmu.Lock()
	n := e.atHook
	for _, k := range e.gated {
		n += k
	}
	e.gmu.Unlock()
	if n > 0 {
		return "harness-gate-armed"
	}
	return "hang"
}

func (e *lkEp) sibState() string {
	e.mu.Lock()
	defer e.mu.Unlock()
	e.srv.mu.Lock()
	held := 0
	for i := 0; i < e.n; i++ {
		if e.srv.keys[e.key(i)] != nil {
			held++
		}
	}
	e.srv.mu.Unlock()
	live := 0
	for _, h := range e.holders {
		if h.ctx.Err() == nil {
			live++
		}
	}
	e.gmu.Lock()
	atGate := e.gated[2]
	e.gmu.Unlock()
	return fmt.Sprintf("held=%d parked=%d live=%d", held, e.waiting-atGate, live)
}

func errClassLock(err error) string {
	if err == nil {
		return "ok"
	}
	return "notlocked"
}

func runLock(c *Ctx) {
	r := c.Rng
	ep := &lkEp{}
	// (1) script level
	for i := 0; i < 3+c.N/40; i++ {
		ep.op(c, "reset 2")
		for j := 0; j < 12; j++ {
			op := []string{"s.acq", "s.acq", "s.fcq", "s.ext", "s.del", "s.del"}[r.IntN(6)]
			ep.op(c, fmt.Sprintf("%s %d %d %d", op, r.IntN(2), 1+r.IntN(3), r.IntN(3)))
		}
	}
	// (2) fixed scenarios
	fixed := [][]string{
		{"reset 2", "try 0", "try 1", "with 1", "with 2", "release", "release", "release"},
		{"reset 1", "try 0 px", "with 1 px", "failext 0", "release"},
		{"reset 2", "try 0", "with 1", "extdel 0", "extdel 1", "release"},
		{"reset 2", "try 0", "force 1", "try 2", "release", "try 2"},
		{"reset 3", "try 0", "with 0", "expire 0", "expire 3", "expire 1", "release"},
		{"reset 2", "try 0", "failext 2", "try 1", "release", "try 1"},
		{"reset 1", "with 0", "with 0", "with 1", "release", "release", "release"},
		// bare majority: one acquisition fails (timeout / key held by another program), later an extend fails
		{"reset 2", "failacq 2", "try 0", "with 1", "failext 0", "release"},
		{"reset 2", "extset 2", "try 0 px", "with 1 px", "failext 1", "release"},
		{"reset 3", "failacq 3", "try 0", "failacq 4", "try 1", "extset 4", "failext 2", "with 2", "failext 0", "release"},
		{"reset 2", "failacq 1", "try 0", "try 1", "failext 0", "try 1"},
		// a key is deleted between the server's execution of the acquire script and the client's receipt of the reply
		{"reset 1", "try-raced 0 0", "try 1"},
		{"reset 2", "try-raced 0 0 1", "try 1", "release"},
		{"reset 2", "try-raced 0 2", "with 1", "release"},
		{"reset 3", "with 1", "try-raced 0 1 2 4", "release", "release"},
		{"reset 2 name=" + hx("job:42"), "try-raced 1 0 1 2", "try 0", "release"},
		// two waiters of ONE Locker, the holder's and one waiter's delkeys ordered by gates: the lost wake-up of
		// NoLoopTracking (known finding) and the same schedule without NOLOOP as the passing control
		{"reset 2 noloop=1", "sib.setup", "sib.hdel 0", "sib.hdel 1", "sib.hdel 2", "sib.adel"},
		{"reset 2 noloop=0", "sib.setup", "sib.hdel 0", "sib.hdel 1", "sib.hdel 2", "sib.adel"},
	}
	for _, sc := range fixed {
		for _, l := range sc {
			ep.op(c, l)
		}
	}
	// (2b) lock names that stress the key-name parsing of onInvalidations: waiter wake-up after release, loss
	// noticed after a third-party deletion, and raw invalidation pushes for well-formed and odd key texts
	names := []string{"job:42", ":", "a::b", ":lead", "trail:", "rueidislock", "rueidislock:0:x", "0", "1:2:3", "sp ace", "dé:ü", "a/b|c", "L"}
	for ni, nm := range names {
		m := 1 + ni%2
		if m == 1 && ni%4 == 0 {
			m = 2
		}
		ep.op(c, fmt.Sprintf("reset %d name=%s", m, hx(nm)))
		for _, l := range []string{"try 0", "with 1"} {
			ep.op(c, l)
		}
		n := 2*m - 1
		for _, k := range []string{
			fmt.Sprintf("rueidislock:%d:%s", n-1, nm), "rueidislock:0:" + nm + ":x", "rueidislock:0:other", "rueidislock:x:" + nm,
			"rueidislock::" + nm, "rueidislockX0:" + nm, "rueidislock:000:" + nm, "rueidislock:0", "other:0:" + nm,
			"rueidislock:+0:" + nm, "rueidislock:-0:" + nm, "rueidislock:0x0:" + nm,
		} {
			ep.op(c, "inval "+hx(k))
		}
		ep.op(c, "extdel 0")
		if m == 2 {
			ep.op(c, "extdel 1")
		}
		ep.op(c, "release")
		ep.op(c, "release")
		// key texts on which onInvalidations panics (index out of range, negative, slice bounds): the panic leaves
		// the Locker's RWMutex read-locked, so each gets an episode of its own that ends right there
		if ni < 4 {
			pk := []string{fmt.Sprintf("rueidislock:%d:%s", n, nm), "rueidislock:-1:" + nm, "rueidislock", "rueidislock:007:" + nm}[ni]
			ep.op(c, fmt.Sprintf("reset %d name=%s", m, hx(nm)))
			ep.op(c, "try 0")
			ep.op(c, "with 1")
			ep.op(c, "inval "+hx(pk))
		}
	}
	// (3) random episodes
	for i := 0; i < 3+c.N/10; i++ {
		m := 1 + r.IntN(3)
		ep.op(c, fmt.Sprintf("reset %d name=%s", m, hx(names[r.IntN(len(names))])))
		px := ""
		if r.IntN(2) == 0 {
			px = " px"
		}
		// once a waiter has taken the lock over, how many of the spare keys it got depends on a race with
		// the previous holder's monitors: no third-party key destruction afterwards (see the suite rule)
		handover := false
		waitOn := map[int]bool{}
		for j := 0; j < 6+r.IntN(8); j++ {
			if ep.waiting == 0 {
				waitOn = map[int]bool{}
			}
			before := ep.waiting
			x := r.IntN(16)
			if handover && x >= 12 && x <= 14 {
				x = 8
			}
			switch {
			case x < 4:
				ep.op(c, fmt.Sprintf("try %d%s", r.IntN(3), px))
			case x < 7:
				// at most one waiter per Locker when m >= 2: two waiters of ONE Locker (one NOLOOP connection) can
				// refuse each other with the keys a failing attempt holds for a moment, and nothing wakes them
				// afterwards (see props/C34.json `partial`) - whether that happens is up to the scheduler
				l := r.IntN(3)
				if ep.waiting < 3 && (m == 1 || !waitOn[l]) {
					waitOn[l] = true
					ep.op(c, fmt.Sprintf("with %d%s", l, px))
				}
			case x < 11:
				ep.op(c, "release")
			case x == 11:
				ep.op(c, fmt.Sprintf("force %d%s", r.IntN(3), px))
			case x == 12:
				ep.op(c, fmt.Sprintf("extdel %d", r.IntN(2*m-1)))
			case x == 13:
				ep.op(c, fmt.Sprintf("expire %d", r.IntN(2*m-1)))
			case x == 14:
				switch (i + j) % 3 {
				case 0:
					ep.op(c, fmt.Sprintf("failext %d", r.IntN(2*m-1)))
				case 1:
					ep.op(c, fmt.Sprintf("failacq %d", r.IntN(2*m-1)))
					ep.op(c, fmt.Sprintf("try %d%s", r.IntN(3), px))
				default:
					ep.op(c, fmt.Sprintf("extset %d", r.IntN(2*m-1)))
				}
			default:
				ep.op(c, fmt.Sprintf("try %d%s", r.IntN(3), px))
			}
			if ep.waiting < before {
				handover = true
			}
		}
	}
	ep.close()
}
