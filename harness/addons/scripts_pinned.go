package main

// The pinned texts of the known scripts: copies of the literals in lean/Rv/Gen/LuaScripts.lean (which the
// extractor regenerates from the repository on every run and Rv/Props pin). They are only used (1) to
// validate luamini differentially against the Go transcriptions in fake.go and (2) to label a script of
// unknown text with the known script it resembles most. init() checks every text against scriptBySha.

import (
	"crypto/sha1"
	"encoding/hex"
)

type pinnedScript struct {
	pkg, holder, sha, text string
}

var pinnedScripts = []pinnedScript{
	{"rueidislock", "acqat", "3875d208d9e377969d2022550302cc83ad17b584", `local r = redis.call("SET",KEYS[1],ARGV[1],"NX","PXAT",ARGV[2]);redis.call("GET",KEYS[1]);return r`},
	{"rueidislock", "acqms", "fa3d1aaa7e4145457755016a3d5daf72fa7a11bf", `local r = redis.call("SET",KEYS[1],ARGV[1],"NX","PX",ARGV[2]);redis.call("GET",KEYS[1]);return r`},
	{"rueidislock", "delkey", "9eb62214c9af87ae5f9a9f12bb4520281c0d2ae1", `if redis.call("GET",KEYS[1]) == ARGV[1] then return redis.call("DEL",KEYS[1]) end;return 0`},
	{"rueidislock", "extend", "852ba6ec6104340ced36643283c856d4698569e4", `if redis.call("GET",KEYS[1]) == ARGV[1] then local r = redis.call("PEXPIREAT",KEYS[1],ARGV[2]);redis.call("GET",KEYS[1]);return r end;return 0`},
	{"rueidislock", "fcqat", "c10e8119872659b926e8e28002d9b7fccbf15617", `local r = redis.call("SET",KEYS[1],ARGV[1],"PXAT",ARGV[2]);redis.call("GET",KEYS[1]);return r`},
	{"rueidislock", "fcqms", "4384ed08baff4dd7071b6c78c516a2fded4ee3e7", `local r = redis.call("SET",KEYS[1],ARGV[1],"PX",ARGV[2]);redis.call("GET",KEYS[1]);return r`},
	{"rueidisaside", "acquireLock", "fb80ce0e2c4327e6b8b4818dcf4591eec0ebbc2c", `if redis.call("SET", KEYS[1], ARGV[1], "NX", "PX", ARGV[2]) then return nil else return redis.call("GET", KEYS[1]) end`},
	{"rueidisaside", "delkey", "7726c7be95e2a0ed082ec1da1e26b562f5c8903f", `if redis.call("GET",KEYS[1]) == ARGV[1] then return redis.call("DEL",KEYS[1]) else return 0 end`},
	{"rueidisaside", "setkey", "3913f9de2aab2b98021c6f9b04f7293af86e2c61", `if redis.call("GET",KEYS[1]) == ARGV[1] then return redis.call("SET",KEYS[1],ARGV[2],"PX",ARGV[3]) else return 0 end`},
	{"om", "hashSaveScript", "57cb87169b4f86f0e1b751c3c0d250a94f5f152a", `
if (ARGV[1] == '')
then
  local e = (#ARGV % 2 == 1) and table.remove(ARGV) or nil
  if redis.call('HSET',KEYS[1],unpack(ARGV))
  then
    if e then redis.call('PEXPIREAT',KEYS[1],e) end
  end
  return ARGV[2]
end
local v = redis.call('HGET',KEYS[1],ARGV[1])
if (not v or v == ARGV[2])
then
  ARGV[2] = tostring(tonumber(ARGV[2])+1)
  local e = (#ARGV % 2 == 1) and table.remove(ARGV) or nil
  if redis.call('HSET',KEYS[1],unpack(ARGV))
  then
    if e then redis.call('PEXPIREAT',KEYS[1],e) end
    return ARGV[2]
  end
end
return nil
`},
	{"om", "jsonSaveScript", "c98f8d514faf6338abeccc9e18fc6bd19c75577b", `
if (ARGV[1] == '')
then
  redis.call('JSON.SET',KEYS[1],'$',ARGV[3])
  if #ARGV == 4 then redis.call('PEXPIREAT',KEYS[1],ARGV[4]) end
  return ARGV[2]
end
local v = redis.call('JSON.GET',KEYS[1],ARGV[1])
if (not v or v == ARGV[2])
then
  redis.call('JSON.SET',KEYS[1],'$',ARGV[3])
  local v = redis.call('JSON.NUMINCRBY',KEYS[1],ARGV[1],1)
  if #ARGV == 4 then redis.call('PEXPIREAT',KEYS[1],ARGV[4]) end
  return v
end
return nil
`},
}

func init() {
	seen := map[string]bool{}
	for _, p := range pinnedScripts {
		sum := sha1.Sum([]byte(p.text))
		if hex.EncodeToString(sum[:]) != p.sha {
			panic("scripts_pinned.go: text of " + p.holder + " does not have the SHA-1 it is filed under")
		}
		if _, ok := scriptBySha[p.sha]; !ok {
			panic("scripts_pinned.go: " + p.holder + " has no transcription in scriptBySha")
		}
		seen[p.sha] = true
	}
	for sha, name := range scriptBySha {
		if !seen[sha] {
			panic("scripts_pinned.go: no pinned text for the transcription " + name)
		}
	}
}
