package main

import (
	"context"
	"encoding/json"
	"errors"
	"fmt"
	"sort"
	"strconv"
	"strings"
	"sync"
	"time"

	"github.com/redis/rueidis"
	"github.com/redis/rueidis/om"
)

func init() {
	suites["om"] = suite{
		rule: "C40: episodes over a fake server with a virtual clock. (1) script-level: hashSaveScript / jsonSaveScript with arbitrary ARGV (matching, stale and missing versions, verless, odd/even lengths = with/without PEXPIREAT, past/future expiry, non-canonical numerals, versions at the 10^14 printing limit) vs the Lean script models; (2) end-to-end: the real om.NewHashRepository / NewJSONRepository Save, Fetch, FetchCache (client-side cache with invalidation pushes), Remove on entities covering every converter of om/conv.go (int64, string, bool, *int64, *string, *bool, []byte, []float32, []float64, struct, *struct, []struct, time.Time exat) and a verless schema; every successful Save is followed by a Fetch and a '!fetch-after-save' oracle line answered by the specification (the saved entity with version+1); (2a) Saves whose reply is lost after the server ran the script (`save-lost`: the fake client re-sends commands marked retryable, as singleClient.Do does; the save script must run once and Save must report the transport error); (2b) SaveMulti of 3 and 4 versioned entities in every pattern of fresh/stale members for both repositories ('!sm' oracle per member: ErrVersionMismatch iff the member was stale, a saved member's in-memory version is the stored one); (3) races: n goroutines Save the same version concurrently ('!race' oracle: exactly one wins, the rest ErrVersionMismatch, version+1, the stored entity is the winner's); non-trivial = distinct op",
		run:  runOm,
		replay: func(c *Ctx, lines []string) {
			ep := &omEp{}
			for _, l := range lines {
				ep.op(c, l)
			}
		},
	}
}

type omInner struct {
	A int64  `json:"a"`
	B string `json:"b"`
}

// every converter kind of om/conv.go
type omEnt struct {
	ID  string    `json:"id" redis:",key"`
	Ver int64     `json:"ver" redis:",ver"`
	I   int64     `json:"i"`
	S   string    `json:"s"`
	B   bool      `json:"b"`
	PI  *int64    `json:"pi"`
	PS  *string   `json:"ps"`
	PB  *bool     `json:"pb"`
	BS  []byte    `json:"bs"`
	V32 []float32 `json:"v32"`
	V64 []float64 `json:"v64"`
	ST  omInner   `json:"st"`
	PST *omInner  `json:"pst"`
	SST []omInner `json:"sst"`
	EX  time.Time `json:"ex" redis:",exat"`
}

type omNoVer struct {
	ID string `json:"id" redis:",key"`
	S  string `json:"s"`
	PI *int64 `json:"pi"`
}

type omJSON struct {
	ID  string   `json:"id" redis:",key"`
	Ver int64    `json:"ver" redis:",ver"`
	S   string   `json:"s"`
	N   int64    `json:"n"`
	P   *string  `json:"p"`
	Arr []string `json:"arr"`
	In  omInner  `json:"in"`
}

type omEp struct {
	now   int64
	srv   *fakeServer
	cl    *fakeClient
	hrepo om.Repository[omEnt]
	nrepo om.Repository[omNoVer]
	jrepo om.Repository[omJSON]

	lastSaveOK bool
}

func jsonImg(v any) string {
	bs, err := json.Marshal(v)
	if err != nil {
		panic(err)
	}
	return string(bs)
}

// field list of an entity in schema order: name:kind:payload
func optI(p *int64) string {
	if p == nil {
		return "nil"
	}
	return strconv.FormatInt(*p, 10)
}
func optS(p *string) string {
	if p == nil {
		return "nil"
	}
	return hx(*p)
}
func optB(p *bool) string {
	if p == nil {
		return "nil"
	}
	if *p {
		return "1"
	}
	return "0"
}
func b01(b bool) string {
	if b {
		return "1"
	}
	return "0"
}

func entFields(e *omEnt) string {
	return strings.Join([]string{
		"i:int:" + strconv.FormatInt(e.I, 10), "s:str:" + hx(e.S), "b:bool:" + b01(e.B),
		"pi:pint:" + optI(e.PI), "ps:pstr:" + optS(e.PS), "pb:pbool:" + optB(e.PB),
		"bs:raw:" + hx(string(e.BS)), "v32:raw:" + hx(rueidis.VectorString32(e.V32)), "v64:raw:" + hx(rueidis.VectorString64(e.V64)),
		"st:json:" + hx(jsonImg(e.ST)), "pst:json:" + hx(jsonImg(e.PST)), "sst:json:" + hx(jsonImg(e.SST)), "ex:json:" + hx(jsonImg(e.EX)),
	}, " ")
}

func nvFields(e *omNoVer) string {
	return "s:str:" + hx(e.S) + " pi:pint:" + optI(e.PI)
}

func parseOptI(s string) *int64 {
	if s == "nil" {
		return nil
	}
	v, _ := strconv.ParseInt(s, 10, 64)
	return &v
}

func entFrom(key string, ver int64, exat int64, fs []string) *omEnt {
	e := &omEnt{ID: key, Ver: ver}
	if exat != 0 {
		e.EX = time.UnixMilli(exat).UTC()
	}
	for _, f := range fs {
		p := strings.SplitN(f, ":", 3)
		if len(p) != 3 {
			continue
		}
		switch p[0] {
		case "i":
			e.I, _ = strconv.ParseInt(p[2], 10, 64)
		case "s":
			e.S = unhx(p[2])
		case "b":
			e.B = p[2] == "1"
		case "pi":
			e.PI = parseOptI(p[2])
		case "ps":
			if p[2] != "nil" {
				s := unhx(p[2])
				e.PS = &s
			}
		case "pb":
			if p[2] != "nil" {
				b := p[2] == "1"
				e.PB = &b
			}
		case "bs":
			e.BS = []byte(unhx(p[2]))
		case "v32":
			e.V32 = rueidis.ToVector32(unhx(p[2]))
		case "v64":
			e.V64 = rueidis.ToVector64(unhx(p[2]))
		case "st":
			_ = json.Unmarshal([]byte(unhx(p[2])), &e.ST)
		case "pst":
			_ = json.Unmarshal([]byte(unhx(p[2])), &e.PST)
		case "sst":
			_ = json.Unmarshal([]byte(unhx(p[2])), &e.SST)
		}
	}
	return e
}

func (e *omEp) dump(key string) string {
	e.srv.mu.Lock()
	defer e.srv.mu.Unlock()
	v := e.srv.look(key, e.srv.clock())
	if v == nil {
		return "absent"
	}
	exp := "-"
	if v.exp != 0 {
		exp = strconv.FormatInt(v.exp, 10)
	}
	if v.kind == 'j' {
		ver, body := splitDoc(v.s, "ver")
		return "json " + ver + " " + hx(body) + " exp=" + exp
	}
	ks := make([]string, 0, len(v.h))
	for k := range v.h {
		ks = append(ks, k)
	}
	sort.Strings(ks)
	parts := make([]string, len(ks))
	for i, k := range ks {
		parts[i] = hx(k) + "=" + hx(v.h[k])
	}
	return "hash " + strings.Join(parts, ",") + " exp=" + exp
}

// splitDoc: the version field's JSON text and the rest of the object with sorted keys
func splitDoc(doc, vname string) (string, string) {
	var m map[string]json.RawMessage
	if err := json.Unmarshal([]byte(doc), &m); err != nil {
		return "?", doc
	}
	ver := "-"
	if v, ok := m[vname]; ok {
		ver = string(v)
		delete(m, vname)
	}
	bs, _ := json.Marshal(m)
	return ver, string(bs)
}

// version stored for a key right now ("-": no key / no version)
func (e *omEp) storedVer(rkey string) string {
	e.srv.mu.Lock()
	defer e.srv.mu.Unlock()
	v := e.srv.look(rkey, e.srv.clock())
	if v == nil {
		return "-"
	}
	if v.kind == 'j' {
		ver, _ := splitDoc(v.s, "ver")
		return ver
	}
	if s, ok := v.h["ver"]; ok {
		return s
	}
	return "-"
}

func saveAns(err error, ver int64) string {
	switch {
	case err == nil:
		return "ok " + strconv.FormatInt(ver, 10)
	case errors.Is(err, om.ErrVersionMismatch):
		return "mismatch"
	}
	return "err"
}

const omSchemaE = "schema e id ver i:int:0 s:str:- b:bool:0 pi:pint:nil ps:pstr:nil pb:pbool:nil bs:raw:- v32:raw:- v64:raw:- st:json:7b2261223a302c2262223a22227d pst:json:6e756c6c sst:json:6e756c6c ex:json:22303030312d30312d30315430303a30303a30305a22"
const omSchemaN = "schema n id - s:str:- pi:pint:nil"

func (e *omEp) op(c *Ctx, line string) {
	w := strings.Fields(line)
	ctx := context.Background()
	switch w[0] {
	case "reset":
		e.now, _ = strconv.ParseInt(w[1], 10, 64)
		e.srv = newFakeServer(func() int64 { return e.now })
		e.cl = newFakeClient(e.srv, 1, rueidis.ClientOption{})
		e.hrepo = om.NewHashRepository("e", omEnt{}, e.cl)
		e.nrepo = om.NewHashRepository("n", omNoVer{}, e.cl)
		e.jrepo = om.NewJSONRepository("j", omJSON{}, e.cl)
		c.Emit(line, "ok", false)
	case "schema":
		c.Emit(line, "ok", false)
	case "tick":
		d, _ := strconv.ParseInt(w[1], 10, 64)
		e.now += d
		e.srv.expireDue()
		c.Emit(line, "ok", false)
	case "s.hs": // s.hs key argv…
		args := make([]string, len(w)-2)
		for i, a := range w[2:] {
			args[i] = unhx(a)
		}
		e.srv.mu.Lock()
		r := e.srv.runScript(nil, "om.hashsave", []string{w[1]}, args)
		e.srv.mu.Unlock()
		e.srv.flush()
		c.Hit("s.hs:" + string(r.typ))
		c.Emit(line, r.String()+" "+e.dump(w[1]), true)
	case "s.js": // s.js key vname verStr docver body [exat]
		ver, _ := strconv.ParseInt(w[4], 10, 64)
		var m map[string]json.RawMessage
		_ = json.Unmarshal([]byte(unhx(w[5])), &m)
		m["ver"] = json.RawMessage(strconv.FormatInt(ver, 10))
		doc, _ := json.Marshal(m)
		vname := unhx(w[2])
		args := []string{vname, unhx(w[3]), string(doc)}
		if len(w) > 6 {
			args = append(args, w[6])
		}
		e.srv.mu.Lock()
		r := e.srv.runScript(nil, "om.jsonsave", []string{w[1]}, args)
		e.srv.mu.Unlock()
		e.srv.flush()
		c.Hit("s.js:" + string(r.typ))
		c.Emit(line, r.String()+" "+e.dump(w[1]), true)
	case "save": // save e key ver exat fields…
		ver, _ := strconv.ParseInt(w[3], 10, 64)
		exat, _ := strconv.ParseInt(w[4], 10, 64)
		key := unhx(w[2])
		var err error
		var nv int64
		var rkey string
		switch w[1] {
		case "e":
			ent := entFrom(key, ver, exat, w[5:])
			err = e.hrepo.Save(ctx, ent)
			nv, rkey = ent.Ver, "e:"+key
		case "n":
			ent := &omNoVer{ID: key}
			for _, f := range w[5:] {
				p := strings.SplitN(f, ":", 3)
				switch p[0] {
				case "s":
					ent.S = unhx(p[2])
				case "pi":
					ent.PI = parseOptI(p[2])
				}
			}
			err = e.nrepo.Save(ctx, ent)
			nv, rkey = 0, "n:"+key
		}
		e.lastSaveOK = err == nil
		c.Hit("save:" + strings.Fields(saveAns(err, nv))[0])
		c.Emit(line, saveAns(err, nv)+" "+e.dump(rkey), true)
	case "save-lost": // save-lost e key ver exat fields…: the server runs the save script, the reply is lost on the way back
		ver, _ := strconv.ParseInt(w[3], 10, 64)
		exat, _ := strconv.ParseInt(w[4], 10, 64)
		key := unhx(w[2])
		ent := entFrom(key, ver, exat, w[5:])
		armed := true
		e.srv.fault = func(cl *fakeClient, cmd []string) int {
			if armed && len(cmd) > 3 && strings.HasPrefix(strings.ToUpper(cmd[0]), "EVAL") &&
				(cmd[1] == "57cb87169b4f86f0e1b751c3c0d250a94f5f152a" || strings.Contains(cmd[1], "HSET")) {
				if strings.ToUpper(cmd[0]) == "EVALSHA" && !e.srv.loaded[cmd[1]] {
					return 0 // the NOSCRIPT round comes first
				}
				armed = false
				return 2
			}
			return 0
		}
		e.srv.takeLog()
		err := e.hrepo.Save(ctx, ent)
		e.srv.fault = nil
		execs := 0
		for _, l := range e.srv.takeLog() {
			if l.name == "om.hashsave" {
				execs++
			}
		}
		if execs > 1 {
			c.Fail("om:save-script-executed-twice", line, fmt.Sprintf("one Save executed the save script %d times on the server (a retry after a lost reply); Save reported %q, entity version %d", execs, saveAns(err, ent.Ver), ent.Ver))
		}
		e.lastSaveOK = false
		c.Hit("save-lost:" + strings.Fields(saveAns(err, ent.Ver))[0])
		c.Emit(line, fmt.Sprintf("%s %s execs=%d", strings.Fields(saveAns(err, ent.Ver))[0], e.dump("e:"+key), execs), true)
	case "fetch", "fetchc", "!fetch-after-save":
		key := unhx(w[2])
		ans := ""
		fetchE := e.hrepo.Fetch
		fetchN := e.nrepo.Fetch
		if w[0] == "fetchc" {
			fetchE = func(ctx context.Context, id string) (*omEnt, error) { return e.hrepo.FetchCache(ctx, id, time.Hour) }
			fetchN = func(ctx context.Context, id string) (*omNoVer, error) { return e.nrepo.FetchCache(ctx, id, time.Hour) }
		}
		switch w[1] {
		case "e":
			ent, err := fetchE(ctx, key)
			switch {
			case err == nil:
				ans = fmt.Sprintf("ok %s %d %s", hx(ent.ID), ent.Ver, entFields(ent))
			case om.IsRecordNotFound(err):
				ans = "notfound"
			default:
				ans = "err"
			}
		case "n":
			ent, err := fetchN(ctx, key)
			switch {
			case err == nil:
				ans = fmt.Sprintf("ok %s 0 %s", hx(ent.ID), nvFields(ent))
			case om.IsRecordNotFound(err):
				ans = "notfound"
			default:
				ans = "err"
			}
		}
		c.Hit(w[0] + ":" + strings.Fields(ans)[0])
		if w[0] == "!fetch-after-save" {
			// the saved entity is on the line; the defect of nil pointer fields keeping their old stored
			// value is reported under its stable witness key, everything else is judged by the oracle
			want := "ok " + strings.Join(w[2:4], " ") + " " + strings.Join(w[5:], " ")
			if ans != want && (onlyNilPointerDiffers(want, ans) || (ans == "err" && e.staleNilField("e:"+key, w[5:]))) {
				c.Fail("om:hash:nil-pointer-field-not-cleared", line,
					"Save of an entity whose pointer field is nil leaves the previously stored value of that field in the hash; Fetch afterwards returns the OLD value: saved "+want+" fetched "+ans)
				c.Emit(strings.TrimPrefix(line, "!"), ans, true)
				return
			}
		}
		c.Emit(line, ans, true)
	case "remove":
		key := unhx(w[2])
		var err error
		if w[1] == "e" {
			err = e.hrepo.Remove(ctx, key)
		} else {
			err = e.nrepo.Remove(ctx, key)
		}
		c.Emit(line, errClass(err), true)
	case "rawhset": // another program writes one field
		e.srv.mu.Lock()
		v := e.srv.look(w[1], e.now)
		if v == nil {
			v = &fval{kind: 'h', h: map[string]string{}}
		}
		v.h[unhx(w[2])] = unhx(w[3])
		e.srv.put(w[1], v, nil)
		e.srv.mu.Unlock()
		e.srv.flush()
		c.Emit(line, e.dump(w[1]), true)
	case "hsavemulti", "jsavemulti": // SaveMulti of entities key:ver[:body], entity i has S = "m<i>" and I/N = i
		var parts []string
		var before []string
		if w[0] == "hsavemulti" {
			ents := make([]*omEnt, len(w)-1)
			for i, x := range w[1:] {
				p := strings.SplitN(x, ":", 2)
				ver, _ := strconv.ParseInt(p[1], 10, 64)
				ents[i] = &omEnt{ID: unhx(p[0]), Ver: ver, S: fmt.Sprintf("m%d", i), I: int64(i)}
				before = append(before, e.storedVer("e:"+ents[i].ID))
			}
			errs := e.hrepo.SaveMulti(ctx, ents...)
			for i, en := range ents {
				parts = append(parts, fmt.Sprintf("%s:%d", strings.Fields(saveAns(errs[i], 0))[0], en.Ver))
			}
		} else {
			ents := make([]*omJSON, len(w)-1)
			for i, x := range w[1:] {
				p := strings.SplitN(x, ":", 3)
				ver, _ := strconv.ParseInt(p[1], 10, 64)
				ents[i] = &omJSON{}
				_ = json.Unmarshal([]byte(unhx(p[2])), ents[i])
				ents[i].ID, ents[i].Ver = unhx(p[0]), ver
				before = append(before, e.storedVer("j:"+ents[i].ID))
			}
			errs := e.jrepo.SaveMulti(ctx, ents...)
			for i, en := range ents {
				parts = append(parts, fmt.Sprintf("%s:%d", strings.Fields(saveAns(errs[i], 0))[0], en.Ver))
			}
		}
		c.Hit(w[0])
		c.Emit(line, strings.Join(parts, ","), true)
		// per entity, judged by the specification from what was stored before the batch (keys of a batch are distinct)
		for i, x := range w[1:] {
			p := strings.SplitN(x, ":", 3)
			c.Emit(fmt.Sprintf("!sm %s %s", p[1], before[i]), parts[i], true)
		}
	case "race", "!race": // race key ver n: n goroutines save entities based on the same version
		key := unhx(w[1])
		ver, _ := strconv.ParseInt(w[2], 10, 64)
		n, _ := strconv.Atoi(w[3])
		ents := make([]*omEnt, n)
		errs := make([]error, n)
		var wg sync.WaitGroup
		start := make(chan struct{})
		for i := 0; i < n; i++ {
			ents[i] = &omEnt{ID: key, Ver: ver, S: fmt.Sprintf("w%d", i), I: int64(i)}
			wg.Add(1)
			go func(i int) {
				defer wg.Done()
				<-start
				errs[i] = e.hrepo.Save(ctx, ents[i])
			}(i)
		}
		close(start)
		wg.Wait()
		wins, mism, other, winner := 0, 0, 0, -1
		for i, err := range errs {
			switch {
			case err == nil:
				wins++
				winner = i
			case errors.Is(err, om.ErrVersionMismatch):
				mism++
			default:
				other++
			}
		}
		stored, nv := false, int64(-1)
		if got, err := e.hrepo.Fetch(ctx, key); err == nil && winner >= 0 {
			stored = got.S == ents[winner].S && got.I == ents[winner].I && ents[winner].Ver == got.Ver
			nv = got.Ver
		}
		c.Hit(fmt.Sprintf("race:wins=%d", wins))
		c.Emit(line, fmt.Sprintf("wins=%d mismatch=%d other=%d ver=%d stored-is-winner=%v", wins, mism, other, nv, stored), true)
	case "jsave": // jsave key ver body
		ver, _ := strconv.ParseInt(w[2], 10, 64)
		ent := &omJSON{}
		_ = json.Unmarshal([]byte(unhx(w[3])), ent)
		ent.ID, ent.Ver = unhx(w[1]), ver
		err := e.jrepo.Save(ctx, ent)
		e.lastSaveOK = err == nil
		c.Hit("jsave:" + strings.Fields(saveAns(err, ent.Ver))[0])
		c.Emit(line, saveAns(err, ent.Ver)+" "+e.dump("j:"+ent.ID), true)
	case "jfetch", "jfetchc", "!jfetch-after-save":
		var ent *omJSON
		var err error
		if w[0] == "jfetchc" {
			ent, err = e.jrepo.FetchCache(ctx, unhx(w[1]), time.Hour)
		} else {
			ent, err = e.jrepo.Fetch(ctx, unhx(w[1]))
		}
		ans := "err"
		switch {
		case err == nil:
			ver, body := splitDoc(jsonImg(ent), "ver")
			ans = "ok " + ver + " " + hx(body)
		case om.IsRecordNotFound(err):
			ans = "notfound"
		}
		c.Hit(w[0] + ":" + strings.Fields(ans)[0])
		c.Emit(line, ans, true)
	default:
		c.Emit(line, "bad-op", false)
	}
}

// a pointer field that is nil in the saved entity still has a (stale) value in the stored hash
func (e *omEp) staleNilField(rkey string, fs []string) bool {
	e.srv.mu.Lock()
	defer e.srv.mu.Unlock()
	v := e.srv.keys[rkey]
	if v == nil || v.kind != 'h' {
		return false
	}
	for _, f := range fs {
		p := strings.SplitN(f, ":", 3)
		if len(p) == 3 && p[2] == "nil" {
			if _, ok := v.h[p[0]]; ok {
				return true
			}
		}
	}
	return false
}

// both are "ok key ver f…": true when the two differ only in pointer fields that are nil in want
func onlyNilPointerDiffers(want, got string) bool {
	a, b := strings.Fields(want), strings.Fields(got)
	if len(a) != len(b) || len(a) < 3 {
		return false
	}
	diff := false
	for i := range a {
		if a[i] == b[i] {
			continue
		}
		if !strings.HasSuffix(a[i], ":nil") {
			return false
		}
		diff = true
	}
	return diff
}

// ---- generators

func runOm(c *Ctx) {
	ep := &omEp{}
	r := c.Rng
	strs := []string{"", "a", "t", "f", "0", "-1", "rueidisid:x", "\x00\xff", "héllo", "null", "1e+14"}
	ints := []int64{0, 1, -1, 7, 42, -9223372036854775808, 9223372036854775807, 99999999999998, 99999999999999, 100000000000000}
	pick := func(xs []string) string { return xs[r.IntN(len(xs))] }
	pickI := func() int64 { return ints[r.IntN(len(ints))] }
	vecs32 := [][]float32{nil, {1}, {0, -1.5, 3.25}}
	vecs64 := [][]float64{nil, {2}, {1e300, -0.0}}
	jstrs := []string{"", "a", "t", "null", "héllo", "q\"uote", "<&>", "rueidisid:x"} // valid UTF-8: encoding/json replaces invalid bytes
	inner := func() omInner { return omInner{A: pickI(), B: pick(jstrs)} }
	randEnt := func(key string, ver int64) *omEnt {
		e := &omEnt{ID: key, Ver: ver, I: pickI(), S: pick(strs), B: r.IntN(2) == 0, BS: []byte(pick(strs)),
			V32: vecs32[r.IntN(len(vecs32))], V64: vecs64[r.IntN(len(vecs64))], ST: inner()}
		if r.IntN(3) > 0 {
			v := pickI()
			e.PI = &v
		}
		if r.IntN(3) > 0 {
			v := pick(strs)
			e.PS = &v
		}
		if r.IntN(3) > 0 {
			v := r.IntN(2) == 0
			e.PB = &v
		}
		if r.IntN(2) == 0 {
			v := inner()
			e.PST = &v
		}
		if r.IntN(2) == 0 {
			e.SST = []omInner{inner(), inner()}
		}
		return e
	}
	saveLine := func(e *omEnt, exat int64) string {
		if exat != 0 {
			e.EX = time.UnixMilli(exat).UTC()
		}
		return fmt.Sprintf("save e %s %d %d %s", hx(e.ID), e.Ver, exat, entFields(e))
	}
	afterSave := func(e *omEnt, exat int64) string {
		return fmt.Sprintf("!fetch-after-save e %s %d %d %s", hx(e.ID), e.Ver+1, exat, entFields(e))
	}
	start := func() {
		ep.op(c, "reset 1000000")
		ep.op(c, omSchemaE)
		ep.op(c, omSchemaN)
	}

	// (0) the witness of the nil-pointer defect, first and deterministic
	start()
	{
		v, s, b := int64(7), "old", true
		e1 := &omEnt{ID: "w", Ver: 0, PI: &v, PS: &s, PB: &b}
		ep.op(c, saveLine(e1, 0))
		ep.op(c, afterSave(e1, 0))
		e2 := &omEnt{ID: "w", Ver: 1} // all pointers reset to nil
		ep.op(c, saveLine(e2, 0))
		ep.op(c, afterSave(e2, 0))
	}

	// (0b) a save whose reply is lost: the script ran once, Save reports the transport error, the next Save on the
	// stored version goes through
	start()
	{
		e0 := &omEnt{ID: "lost", Ver: 0, S: "first"}
		ep.op(c, saveLine(e0, 0))
		e1 := &omEnt{ID: "lost", Ver: 1, S: "second"}
		ep.op(c, "save-lost"+strings.TrimPrefix(saveLine(e1, 0), "save"))
		ep.op(c, "fetch e "+hx("lost"))
		e2 := &omEnt{ID: "lost", Ver: 2, S: "third"}
		ep.op(c, saveLine(e2, 0))
		ep.op(c, afterSave(e2, 0))
	}

	// (1) script level
	hsArgs := func() []string {
		vn := []string{"ver", "ver", "ver", "", "v2"}[r.IntN(5)]
		vv := []string{"0", "1", "2", "5", "-1", "99999999999998", "99999999999999", "100000000000000", "x", "007", ""}[r.IntN(11)]
		if r.IntN(2) == 0 {
			vv = []string{"0", "1", "2"}[r.IntN(3)]
		}
		a := []string{vn, vv}
		for i, n := 0, r.IntN(4); i < n; i++ {
			a = append(a, []string{"a", "b", "ver", "id"}[r.IntN(4)], pick(strs))
		}
		switch r.IntN(5) {
		case 0:
			a = append(a, strconv.FormatInt(ep.now+int64(r.IntN(2000))-500, 10))
		case 1:
			a = append(a, []string{"0", "x", "-5"}[r.IntN(3)])
		}
		return a
	}
	for ep0 := 0; ep0 < 2+c.N/40; ep0++ {
		start()
		for i := 0; i < 12; i++ {
			switch r.IntN(8) {
			case 0:
				ep.op(c, fmt.Sprintf("tick %d", r.IntN(800)))
			case 1:
				body := jsonImg(map[string]any{"s": pick(jstrs), "n": r.IntN(5)})
				dv := []int64{0, 1, 2, 9007199254740991}[r.IntN(4)]
				vs := []string{"0", "1", "2", "x"}[r.IntN(4)]
				l := fmt.Sprintf("s.js jk%d %s %s %d %s", r.IntN(2), hx([]string{"ver", "ver", ""}[r.IntN(3)]), hx(vs), dv, hx(body))
				if r.IntN(4) == 0 {
					l += " " + strconv.FormatInt(ep.now+int64(r.IntN(2000))-500, 10)
				}
				ep.op(c, l)
			default:
				l := fmt.Sprintf("s.hs hk%d", r.IntN(2))
				for _, a := range hsArgs() {
					l += " " + hx(a)
				}
				ep.op(c, l)
			}
		}
	}

	// (2) end to end
	for ep0 := 0; ep0 < 2+c.N/25; ep0++ {
		start()
		vers := map[string]int64{}
		for i := 0; i < 14; i++ {
			key := []string{"k1", "k2", "a:b"}[r.IntN(3)]
			switch x := r.IntN(12); {
			case x < 5:
				ver := vers[key]
				if r.IntN(5) == 0 {
					ver = ver + int64(r.IntN(3)) - 1 // stale / future version
				}
				e := randEnt(key, ver)
				exat := int64(0)
				if r.IntN(5) == 0 {
					exat = ep.now + int64(r.IntN(1500)) - 300
				}
				ep.op(c, saveLine(e, exat))
				if ep.lastSaveOK {
					if exat == 0 || exat > ep.now {
						vers[key] = ver + 1
						ep.op(c, afterSave(e, exat))
					} else {
						delete(vers, key)
					}
				}
			case x == 5 && r.IntN(2) == 0:
				ver := vers[key]
				e := randEnt(key, ver)
				ep.op(c, "save-lost"+strings.TrimPrefix(saveLine(e, 0), "save"))
				if got, err := ep.hrepo.Fetch(context.Background(), key); err == nil {
					vers[key] = got.Ver
				}
			case x == 5:
				ep.op(c, fmt.Sprintf("fetch e %s", hx(key)))
			case x == 6:
				ep.op(c, fmt.Sprintf("fetchc e %s", hx(key)))
			case x == 7:
				ep.op(c, fmt.Sprintf("remove e %s", hx(key)))
				delete(vers, key)
			case x == 8:
				ep.op(c, fmt.Sprintf("tick %d", r.IntN(600)))
				// a key may have expired: resynchronise the generator's idea of versions
				for k := range vers {
					if got, err := ep.hrepo.Fetch(context.Background(), k); err != nil {
						delete(vers, k)
					} else {
						vers[k] = got.Ver
					}
				}
			case x == 9:
				var pi *int64
				if r.IntN(2) == 0 {
					v := pickI()
					pi = &v
				}
				ne := &omNoVer{ID: key, S: pick(strs), PI: pi}
				ep.op(c, fmt.Sprintf("save n %s 0 0 %s", hx(key), nvFields(ne)))
				ep.op(c, fmt.Sprintf("fetch n %s", hx(key)))
			case x == 10:
				ep.op(c, fmt.Sprintf("rawhset e:%s %s %s", key, hx([]string{"i", "pi", "ver", "b", "zz"}[r.IntN(5)]), hx([]string{"5", "x", "t", "", "99999999999999999999"}[r.IntN(5)])))
				if got, err := ep.hrepo.Fetch(context.Background(), key); err == nil {
					vers[key] = got.Ver
				}
			default:
				ver := vers["j"+key]
				if r.IntN(5) == 0 {
					ver++
				}
				p := pick(jstrs)
				je := &omJSON{S: pick(jstrs), N: pickI() % 1000, Arr: []string{pick(jstrs)}, In: inner()}
				if r.IntN(2) == 0 {
					je.P = &p
				}
				je.ID = key
				_, body := splitDoc(jsonImg(je), "ver")
				ep.op(c, fmt.Sprintf("jsave %s %d %s", hx(key), ver, hx(body)))
				if ep.lastSaveOK {
					vers["j"+key] = ver + 1
					ep.op(c, fmt.Sprintf("!jfetch-after-save %s %d %s", hx(key), ver+1, hx(body)))
				}
				if r.IntN(2) == 0 {
					ep.op(c, fmt.Sprintf("jfetchc %s", hx(key)))
				}
			}
		}
	}

	// (2a) Saves whose reply is lost after the server ran the script (`save-lost`: the fake client re-sends commands marked retryable, as singleClient.Do does; the save script must run once and Save must report the transport error); (2b) SaveMulti: batches of 3 and 4 versioned entities on distinct keys, every pattern of fresh / stale members
	// (stale = the stored version was advanced by another Save), hash and JSON repositories
	batch := 0
	for _, n := range []int{3, 4} {
		for mask := 0; mask < 1<<n; mask++ {
			if c.Tier == "quick" && n == 4 && mask%3 != 1 {
				continue
			}
			for _, kind := range []string{"h", "j"} {
				if batch%6 == 0 {
					start()
				}
				batch++
				var items []string
				for i := 0; i < n; i++ {
					key := fmt.Sprintf("sm%d_%d", batch, i)
					stale := mask&(1<<i) != 0
					given := int64(0)
					body := ""
					if kind == "j" {
						_, body = splitDoc(jsonImg(&omJSON{ID: key, S: fmt.Sprintf("m%d", i), N: int64(i)}), "ver")
					}
					switch {
					case stale: // somebody else saved version 0 -> stored 1; the batch member is still based on 0
						if kind == "h" {
							ep.op(c, fmt.Sprintf("save e %s 0 0 %s", hx(key), entFields(&omEnt{ID: key})))
						} else {
							ep.op(c, fmt.Sprintf("jsave %s 0 %s", hx(key), hx(body)))
						}
					case i%2 == 1: // an existing entity saved once, the member is based on the stored version 1
						if kind == "h" {
							ep.op(c, fmt.Sprintf("save e %s 0 0 %s", hx(key), entFields(&omEnt{ID: key})))
						} else {
							ep.op(c, fmt.Sprintf("jsave %s 0 %s", hx(key), hx(body)))
						}
						given = 1
					}
					if kind == "h" {
						items = append(items, fmt.Sprintf("%s:%d", hx(key), given))
					} else {
						items = append(items, fmt.Sprintf("%s:%d:%s", hx(key), given, hx(body)))
					}
				}
				ep.op(c, kind+"savemulti "+strings.Join(items, " "))
				// the saved members equal what Fetch returns and can be saved again
				ep.op(c, fmt.Sprintf("%s %s", map[string]string{"h": "fetch e", "j": "jfetch"}[kind], strings.SplitN(items[n-1], ":", 2)[0]))
			}
		}
	}
	// (3) races
	for ep0 := 0; ep0 < 2+c.N/100; ep0++ {
		start()
		ver := int64(0)
		for i := 0; i < 4; i++ {
			n := 2 + r.IntN(6)
			ep.op(c, fmt.Sprintf("race %s %d %d", hx("rk"), ver, n))
			ep.op(c, fmt.Sprintf("!race %s %d %d", hx("rk2"), ver, n))
			ver++
		}
	}
}
