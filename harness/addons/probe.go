package main

import (
	_ "github.com/redis/rueidis/mock"
	_ "github.com/redis/rueidis/om"
	_ "github.com/redis/rueidis/rueidisaside"
	_ "github.com/redis/rueidis/rueidislock"
)
