module github.com/redis/rueidis/zzverif/addons

go 1.25.0

require (
	github.com/redis/rueidis v1.0.76
	github.com/redis/rueidis/mock v1.0.76
	github.com/redis/rueidis/om v0.0.0
	github.com/redis/rueidis/rueidisaside v0.0.0
	github.com/redis/rueidis/zzverif/luamini v0.0.0
)

require (
	github.com/oklog/ulid/v2 v2.1.1 // indirect
	go.uber.org/mock v0.6.0 // indirect
	golang.org/x/sys v0.43.0 // indirect
)

replace github.com/redis/rueidis => /repo

replace github.com/redis/rueidis/mock => /repo/mock

replace github.com/redis/rueidis/om => /repo/om

replace github.com/redis/rueidis/rueidisaside => /repo/rueidisaside

replace github.com/redis/rueidis/zzverif/luamini => /verif/harness/luamini
