package main

import (
	"bufio"
	"bytes"
	"errors"
	"fmt"
	"io"
	"os"
	"os/exec"
	"runtime"
	"strconv"
	"strings"
	"testing/iotest"

	"github.com/redis/rueidis"
)

// ---- wire trees: what a server may send, with its expected decoded value -----------------

type wire struct {
	kind  string // blob chunked nullblob line int null bool arr arrS nullarr map attr end
	t     byte
	s     []byte
	cs    [][]byte
	v     int64
	b     bool
	xs    []*wire
	a, w  *wire
	ilen  int64 // expected intlen
	leadz int   // leading zeros on the length / integer line (readI accepts them)
}

func num(n int64, leadz int) string {
	s := strconv.FormatInt(n, 10)
	if leadz > 0 {
		if n < 0 {
			return "-" + strings.Repeat("0", leadz) + s[1:]
		}
		return strings.Repeat("0", leadz) + s
	}
	return s
}

func (w *wire) enc(o *bytes.Buffer) {
	switch w.kind {
	case "blob":
		fmt.Fprintf(o, "%c%s\r\n", w.t, num(int64(len(w.s)), w.leadz))
		o.Write(w.s)
		o.WriteString("\r\n")
	case "chunked":
		fmt.Fprintf(o, "%c?\r\n", w.t)
		for _, c := range w.cs {
			fmt.Fprintf(o, ";%d\r\n", len(c))
			o.Write(c)
			o.WriteString("\r\n")
		}
		o.WriteString(";0\r\n")
	case "nullblob", "nullarr":
		fmt.Fprintf(o, "%c-1\r\n", w.t)
	case "line":
		o.WriteByte(w.t)
		o.Write(w.s)
		o.WriteString("\r\n")
	case "int":
		fmt.Fprintf(o, ":%s\r\n", num(w.v, w.leadz))
	case "null":
		o.WriteString("_\r\n")
	case "bool":
		if w.b {
			o.WriteString("#t\r\n")
		} else {
			o.WriteString("#f\r\n")
		}
	case "arr":
		fmt.Fprintf(o, "%c%s\r\n", w.t, num(int64(len(w.xs)), w.leadz))
		for _, x := range w.xs {
			x.enc(o)
		}
	case "map":
		fmt.Fprintf(o, "%c%s\r\n", w.t, num(int64(len(w.xs)/2), w.leadz))
		for _, x := range w.xs {
			x.enc(o)
		}
	case "arrS":
		fmt.Fprintf(o, "%c?\r\n", w.t)
		for _, x := range w.xs {
			x.enc(o)
		}
		o.WriteString(".\r\n")
	case "attr":
		w.a.enc(o)
		w.w.enc(o)
	}
}

// value renders the expected decoded message in VerifDump's format.
func (w *wire) value(attrs string) string {
	leaf := func(t byte, s []byte, n int64) string {
		return fmt.Sprintf("%d:%s:%d:[]:%s", t, hx(string(s)), n, attrs)
	}
	switch w.kind {
	case "blob", "line":
		return leaf(w.t, w.s, int64(len(w.s)))
	case "chunked":
		all := bytes.Join(w.cs, nil)
		return leaf(w.t, all, int64(len(all)))
	case "nullblob", "nullarr":
		return "95:-:0:[]:-"
	case "int":
		return leaf(':', nil, w.v)
	case "null":
		return leaf('_', nil, 0)
	case "bool":
		if w.b {
			return leaf('#', nil, 1)
		}
		return leaf('#', nil, 0)
	case "arr", "map", "arrS":
		parts := make([]string, len(w.xs))
		for i, x := range w.xs {
			parts[i] = x.value("-")
		}
		return fmt.Sprintf("%d:-:%d:[%s]:%s", w.t, len(w.xs), strings.Join(parts, ","), attrs)
	case "attr":
		return w.w.value("{" + w.a.value("-") + "}")
	}
	panic("kind")
}

func (c *Ctx) payload() []byte {
	n := c.Rng.IntN(9)
	switch c.Rng.IntN(12) {
	case 0:
		n = 0
	case 1:
		n = 20 + c.Rng.IntN(100)
	case 2:
		n = 9 + c.Rng.IntN(3)*91 // 9, 100, 191: digit-count boundaries
	}
	b := make([]byte, n)
	for i := range b {
		switch c.Rng.IntN(6) {
		case 0:
			b[i] = '\r'
		case 1:
			b[i] = '\n'
		case 2:
			b[i] = byte(c.Rng.IntN(256))
		default:
			b[i] = byte('a' + c.Rng.IntN(26))
		}
	}
	return b
}

func (c *Ctx) lineText() []byte {
	b := c.payload()
	for i := range b {
		if b[i] == '\n' {
			b[i] = 'n'
		}
	}
	if c.Rng.IntN(5) == 0 {
		return []byte("OK")
	}
	return b
}

func (c *Ctx) genWire(depth int, inStream bool) *wire {
	leadz := 0
	if c.Rng.IntN(10) == 0 {
		leadz = 1 + c.Rng.IntN(2)
	}
	k := c.Rng.IntN(16)
	if depth <= 0 && k >= 9 && k <= 13 {
		k = c.Rng.IntN(9)
	}
	pick := func(s string) byte { return s[c.Rng.IntN(len(s))] }
	switch k {
	case 0, 1:
		return &wire{kind: "blob", t: pick("$!="), s: c.payload(), leadz: leadz}
	case 2:
		n := c.Rng.IntN(4)
		cs := make([][]byte, 0, n)
		for i := 0; i < n; i++ {
			p := c.payload()
			if len(p) > 0 {
				cs = append(cs, p)
			}
		}
		return &wire{kind: "chunked", t: pick("$!="), cs: cs}
	case 3:
		return &wire{kind: "nullblob", t: pick("$!=")}
	case 4, 5:
		return &wire{kind: "line", t: pick("+-,("), s: c.lineText()}
	case 6:
		v := int64(c.Rng.IntN(2000)) - 1000
		switch c.Rng.IntN(6) {
		case 0:
			v = 9223372036854775807
		case 1:
			v = -9223372036854775807
			if c.Rng.IntN(2) == 0 {
				v = -9223372036854775808 // MinInt64 is a well-formed integer reply too
			}
		case 2:
			v = int64(c.Rng.Uint64() >> 1)
		}
		return &wire{kind: "int", v: v, leadz: leadz}
	case 7:
		return &wire{kind: "null"}
	case 8:
		return &wire{kind: "bool", b: c.Rng.IntN(2) == 0}
	case 9, 10:
		n := c.Rng.IntN(5)
		w := &wire{kind: "arr", t: pick("*~>"), leadz: leadz}
		for i := 0; i < n; i++ {
			w.xs = append(w.xs, c.genWire(depth-1, false))
		}
		return w
	case 11:
		n := c.Rng.IntN(4)
		w := &wire{kind: "arrS", t: pick("*~>%")}
		for i := 0; i < n; i++ {
			w.xs = append(w.xs, c.genWire(depth-1, true))
		}
		return w
	case 12:
		n := 2 * c.Rng.IntN(3)
		w := &wire{kind: "map", t: '%', leadz: leadz}
		for i := 0; i < n; i++ {
			w.xs = append(w.xs, c.genWire(depth-1, false))
		}
		return w
	case 13:
		n := 2 * c.Rng.IntN(3)
		a := &wire{kind: "map", t: '|'}
		if c.Rng.IntN(3) == 0 {
			a.kind = "arrS"
		}
		for i := 0; i < n; i++ {
			a.xs = append(a.xs, c.genWire(depth-2, a.kind == "arrS"))
		}
		return &wire{kind: "attr", a: a, w: c.genWire(depth-1, inStream)}
	case 14:
		return &wire{kind: "nullarr", t: pick("*~>")}
	default:
		return &wire{kind: "line", t: '+', s: []byte("OK")}
	}
}

// ---- running the real reader ---------------------------------------------------------------

type countReader struct {
	r io.Reader
	n int
}

func (c *countReader) Read(p []byte) (int, error) { n, err := c.r.Read(p); c.n += n; return n, err }

func classify(err error) string {
	s := err.Error()
	switch {
	case strings.HasPrefix(s, "received unexpected number byte: "):
		return "err:numbyte:" + strings.TrimPrefix(s, "received unexpected number byte: ")
	case strings.HasPrefix(s, "received unknown message type: "):
		return "err:unknowntype:" + strings.TrimPrefix(s, "received unknown message type: ")
	case s == "received unexpected simple string message ending without CRLF":
		return "err:nocrlf"
	case s == "received unexpected negative length":
		return "err:neglen"
	case s == "unbounded redis message":
		return "err:chunked"
	case errors.Is(err, io.EOF), errors.Is(err, io.ErrUnexpectedEOF), errors.Is(err, bufio.ErrBufferFull), errors.Is(err, bufio.ErrNegativeCount):
		return "err:io"
	}
	return "err:other:" + hx(s)
}

// decodeReal runs readNextMessage over data with a bufio.Reader of size bufSize and the given split mode.
func decodeReal(data []byte, bufSize int, mode int, rng func(int) int) (ans string) {
	defer func() {
		if r := recover(); r != nil {
			ans = "panic"
		}
	}()
	var src io.Reader = bytes.NewReader(data)
	switch mode {
	case 1:
		src = iotest.OneByteReader(src)
	case 2:
		src = iotest.HalfReader(src)
	case 3:
		src = &randSplit{r: src, rng: rng}
	}
	cr := &countReader{r: src}
	br := bufio.NewReaderSize(cr, bufSize)
	m, err := rueidis.VerifReadNextMessage(br)
	if err != nil {
		return classify(err)
	}
	return "ok " + rueidis.VerifDump(&m) + " " + strconv.Itoa(cr.n-br.Buffered())
}

type randSplit struct {
	r   io.Reader
	rng func(int) int
}

func (s *randSplit) Read(p []byte) (int, error) {
	if len(p) > 1 {
		p = p[:1+s.rng(len(p))]
	}
	return s.r.Read(p)
}

// decodeIsolated runs one input in a child process with a memory limit (inputs that may exhaust memory).
func decodeIsolated(data []byte, bufSize int) string {
	ans, _ := decodeIsolatedAlloc(data, bufSize)
	return ans
}

// decodeIsolatedAlloc also reports the bytes the decoder allocated (Go runtime TotalAlloc delta) in the child.
func decodeIsolatedAlloc(data []byte, bufSize int) (string, uint64) {
	cmd := exec.Command(os.Args[0], "-child-resp", "-", strconv.Itoa(bufSize))
	cmd.Env = append(os.Environ(), "GOMEMLIMIT=512MiB")
	cmd.Stdin = bytes.NewReader(data) // raw bytes on stdin (argv is limited to 128 KiB per argument)
	out, err := cmd.Output()
	if err != nil {
		return "crash", 0
	}
	parts := strings.SplitN(strings.TrimSpace(string(out)), "\talloc=", 2)
	var a uint64
	if len(parts) == 2 {
		a, _ = strconv.ParseUint(parts[1], 10, 64)
	}
	return parts[0], a
}

func init() {
	childHooks = append(childHooks, func(args []string) bool {
		if len(args) == 3 && args[0] == "-child-resp" {
			bs, _ := strconv.Atoi(args[2])
			// a hard address-space limit: an allocation sized from a declared length dies here
			setMemLimit(3 << 30)
			data, _ := io.ReadAll(os.Stdin)
			var m0, m1 runtime.MemStats
			runtime.ReadMemStats(&m0)
			ans := decodeReal(data, bs, 0, nil)
			runtime.ReadMemStats(&m1)
			fmt.Printf("%s\talloc=%d\n", ans, m1.TotalAlloc-m0.TotalAlloc)
			return true
		}
		return false
	})
	suites["resp"] = suite{
		rule: "well-formed stream: large string replies (64 KiB-300 KB blob/error/verbatim, alone and nested, `!big` judged by the specification); random wire trees (all 16 type bytes, attrs, RESP2 nulls, streamed strings/aggregates, binary payloads with CR/LF, leading zeros, depth<=4) encoded by the harness and decoded by the real reader through bufio sizes {32,33,64,4096} x {whole,one-byte,half,random-split} readers, expected value computed from the tree (oracle); malformed stream: byte-level mutations of valid frames (sign flips, length inflation/deflation, truncation at every point, type-byte swaps, digit garbage) plus fixed hostile frames; huge declared lengths run in a child process under a 1GiB address-space limit; non-trivial = distinct input with an aggregate, attribute, chunk or malformed byte",
		run:  runResp,
		replay: func(c *Ctx, lines []string) {
			for _, l := range lines {
				w := strings.Fields(l)
				if w[0] == "!big" && len(w) == 5 {
					t, _ := strconv.Atoi(w[1])
					n, _ := strconv.Atoi(w[2])
					seed, _ := strconv.Atoi(w[3])
					nested, _ := strconv.Atoi(w[4])
					bigCase(c, byte(t), n, seed, nested, 4096, 3)
					continue
				}
				bs, _ := strconv.Atoi(w[1])
				data := []byte(unhx(w[2]))
				if strings.HasPrefix(w[0], "!") {
					w[0] = w[0][1:]
				}
				c.Emit(l, decodeIsolated(data, bs), true)
			}
		},
	}
}

var bufSizes = []int{32, 33, 64, 4096}

func respCase(c *Ctx, data []byte, expect string, nontriv bool, isolate bool) {
	bs := bufSizes[c.Rng.IntN(len(bufSizes))]
	op := fmt.Sprintf("dec %d %s", bs, hx(string(data)))
	var ans string
	if isolate {
		var alloc uint64
		ans, alloc = decodeIsolatedAlloc(data, bs)
		// "never allocates memory far beyond the bytes actually received": generous bound 16x received + 4 MiB
		if limit := uint64(16*len(data) + 4<<20); ans != "crash" && alloc > limit {
			c.Fail("resp:overalloc:"+hx(string(data[:min(len(data), 24)])), op, fmt.Sprintf("decoder allocated %d bytes for %d received bytes (limit %d)", alloc, len(data), limit))
		}
	} else {
		ans = decodeReal(data, bs, 0, nil)
		// read-boundary independence: every split mode must give the same answer
		for mode := 1; mode <= 3; mode++ {
			if a2 := decodeReal(data, bs, mode, c.Rng.IntN); a2 != ans {
				c.Fail("resp:split-dependence", op, fmt.Sprintf("whole-read answer %q, split mode %d answer %q", ans, mode, a2))
			}
		}
	}
	if ans == "panic" || ans == "crash" {
		c.Fail("resp:crash:"+hx(string(data[:min(len(data), 24)])), op, "decoder "+ans+"ed on this input")
	}
	c.Hit(strings.SplitN(strings.SplitN(ans, " ", 2)[0], ":", 3)[0] + func() string {
		if strings.HasPrefix(ans, "err:") {
			return ":" + strings.SplitN(ans, ":", 3)[1]
		}
		return ""
	}())
	if expect != "" {
		want := fmt.Sprintf("ok %s %d", expect, len(data))
		if ans != want {
			c.Fail("resp:wellformed:"+hx(string(data[:min(len(data), 24)])), op, fmt.Sprintf("well-formed reply decoded to %q, the encoded value is %q", ans, want))
		}
	}
	c.Emit(op, ans, nontriv)
}

// bigPayload is reproduced by the Lean driver: byte i = (7*i + seed) mod 251
func bigPayload(n, seed int) []byte {
	b := make([]byte, n)
	for i := range b {
		b[i] = byte((7*i + seed) % 251)
	}
	return b
}

func bigSum(b []byte) uint32 {
	var s uint32
	for i, x := range b {
		s += uint32(i+1) * uint32(x)
	}
	return s
}

// bigCase: one large well-formed string reply followed by `:42`, optionally both inside `*2`; the answer is a
// digest "ok <typ> <len> <weighted-sum> <second-int> <consumed>" that the Lean side computes from the specification
func bigCase(c *Ctx, t byte, n, seed, nested, bufSize, mode int) {
	pl := bigPayload(n, seed)
	var o bytes.Buffer
	if nested == 1 {
		o.WriteString("*2\r\n")
	}
	o.WriteByte(t)
	o.WriteString(strconv.Itoa(n))
	o.WriteString("\r\n")
	o.Write(pl)
	o.WriteString("\r\n:42\r\n")
	frame := o.Len()
	if nested == 0 {
		frame -= 5 // the `:42` frame is the next reply and must stay unread
	}
	data := o.Bytes()
	ans := func() (ans string) {
		defer func() {
			if r := recover(); r != nil {
				ans = "panic"
			}
		}()
		var src io.Reader = bytes.NewReader(data)
		if mode == 3 {
			src = &randSplit{r: src, rng: c.Rng.IntN}
		}
		cr := &countReader{r: src}
		br := bufio.NewReaderSize(cr, bufSize)
		m, err := rueidis.VerifReadNextMessage(br)
		if err != nil {
			return classify(err)
		}
		first, second := &m, int64(42)
		if nested == 1 {
			vs := rueidis.VerifValues(&m)
			if len(vs) != 2 {
				return "ok wrong-arity " + strconv.Itoa(len(vs))
			}
			first = &vs[0]
			second, _ = vs[1].AsInt64()
		} else {
			m2, err := rueidis.VerifReadNextMessage(br)
			if err != nil {
				return "next:" + classify(err)
			}
			second, _ = m2.AsInt64()
		}
		str, _ := rueidis.VerifStr(first), error(nil)
		return fmt.Sprintf("ok %d %d %d %d %d", rueidis.VerifTyp(first), len(str), bigSum([]byte(str)), second, frame)
	}()
	c.Hit("big:" + string(t))
	c.Emit(fmt.Sprintf("!big %d %d %d %d", t, n, seed, nested), ans, true)
}

func runResp(c *Ctx) {
	hostile := []string{
		"$-2\r\n", "*-2\r\n", "%-1\r\n", "~-5\r\n", ">-3\r\n", "|-1\r\n+a\r\n", "=-2\r\n", "!-2\r\n", "$?\r\n;-2\r\n",
		"$-0\r\n\r\n", "*-0\r\n", ":-\r\n", ":\r\n", ":?\r\n", "$?\r\n;?\r\n", "+\n", "+a\n", "_", "_\r", "#", "#t", "#x\r\n", ".\r\n",
		"*1\r\n.\r\n", "*?\r\n.\r\n", "*?\r\n", "%?\r\n+a\r\n.\r\n", "%1\r\n+a\r\n", "\x00", "X\r\n", ":12a\r\n", ":1\r\r\n", ":99999999999999999999\r\n",
		":9223372036854775808\r\n", ":-9223372036854775808\r\n", "$18446744073709551615\r\n", "*4611686018427387904\r\n", "%4611686018427387904\r\n",
		"|1\r\n+k\r\n+v\r\n$-1\r\n", "|1\r\n+k\r\n+v\r\n|1\r\n+k2\r\n+v2\r\n:1\r\n", "$1\r\nab\r\n", "$3\r\nab\r\n", "$1\r\na", "$1\r\na\r",
		":0000000000000000000000000000001\r\n", ":1234567890123456789012345678\r\n", "$00000000000000000000000000000000001\r\na\r\n",
	}
	for _, h := range hostile {
		respCase(c, []byte(h), "", true, false)
	}
	for _, h := range []string{"$9223372036854775807\r\n", "*99999999999\r\n", "%99999999999\r\n", "$?\r\n;9223372036854775807\r\n", "*2147483648\r\n", "$4294967296\r\nabc", ">1000000000000\r\n+a\r\n", "*99999999999\r\n*99999999999\r\n*99999999999\r\n"} {
		respCase(c, []byte(h), "", true, true)
	}
	// declared lengths far beyond what arrives, WITH a first block of real payload (65536 = the reserve)
	for _, decl := range []string{"268435456", "2147483648", "4611686018427387904"} {
		for _, got := range []int{65535, 65536, 65537, 131072, 200000} {
			for _, t := range []string{"$", "!", "="} {
				if c.Tier == "quick" && (t != "$" && got != 65536) {
					continue
				}
				respCase(c, []byte(t+decl+"\r\n"+strings.Repeat("a", got)), "", true, true)
			}
		}
	}
	// well-formed LARGE payloads (beyond the 64 KiB first reservation of readB): blob / error / verbatim, alone with a
	// trailing frame and nested in an array, whole and randomly split reads; judged by the specification (`!big`)
	for _, n := range []int{65535, 65536, 65537, 70000, 131072, 131073, 300001} {
		for ti, t := range []byte("$!=") {
			if c.Tier == "quick" && ti != 0 && n != 65537 {
				continue
			}
			for _, nested := range []int{0, 1} {
				for _, mode := range []int{0, 3} {
					bigCase(c, t, n, 1+c.Rng.IntN(200), nested, []int{4096, 1 << 19}[c.Rng.IntN(2)], mode)
				}
			}
		}
	}
	for _, v := range []int64{-9223372036854775808, -9223372036854775807, 9223372036854775807, 0, -1} {
		for _, w := range []*wire{{kind: "int", v: v}, {kind: "arr", t: '*', xs: []*wire{{kind: "int", v: v}, {kind: "int", v: 7}}}} {
			var o bytes.Buffer
			w.enc(&o)
			respCase(c, o.Bytes(), w.value("-"), true, false)
		}
	}
	respCase(c, []byte("$?\r\n;268435456\r\n"+strings.Repeat("a", 70000)), "", true, true)
	respCase(c, []byte("*268435456\r\n"+strings.Repeat("+a\r\n", 3000)), "", true, true)
	for i := 0; i < c.N; i++ {
		w := c.genWire(1+c.Rng.IntN(4), false)
		var o bytes.Buffer
		w.enc(&o)
		if c.Rng.IntN(3) == 0 {
			o.Write(c.payload()) // trailing bytes of the next frame must stay unread
			respCase(c, o.Bytes(), "", true, false)
			continue
		}
		data := o.Bytes()
		nontriv := w.kind == "arr" || w.kind == "arrS" || w.kind == "map" || w.kind == "attr" || w.kind == "chunked"
		respCase(c, data, w.value("-"), nontriv, false)
		// malformed stream derived from this frame
		for k := 0; k < 2; k++ {
			m := append([]byte{}, data...)
			if len(m) == 0 {
				continue
			}
			switch c.Rng.IntN(7) {
			case 0:
				m = m[:c.Rng.IntN(len(m))] // truncation
			case 1:
				m[c.Rng.IntN(len(m))] = "$+-:_.,#!=(*%~|>;?0123456789\r\n"[c.Rng.IntN(30)]
			case 2: // sign flip / inflate a length
				if j := bytes.IndexAny(m, "0123456789"); j >= 0 {
					if c.Rng.IntN(2) == 0 {
						m = append(m[:j], append([]byte("-"), m[j:]...)...)
					} else {
						m = append(m[:j], append([]byte("9"), m[j:]...)...)
					}
				}
			case 3:
				m[c.Rng.IntN(len(m))] = byte(c.Rng.IntN(256))
			case 4: // delete a byte
				j := c.Rng.IntN(len(m))
				m = append(m[:j], m[j+1:]...)
			case 5: // duplicate a byte
				j := c.Rng.IntN(len(m))
				m = append(m[:j+1], m[j:]...)
			case 6:
				m = bytes.Replace(m, []byte("\r\n"), []byte("\n"), 1)
			}
			if len(m) > 0 {
				respCase(c, m, "", true, false)
			}
		}
	}
}
