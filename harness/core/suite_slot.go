package main

import (
	"fmt"
	"strings"

	"github.com/redis/rueidis/internal/cmds"
)

func init() {
	suites["slot"] = suite{
		rule: "keys over an alphabet biased to '{' '}' 0x00 0xff and letters: exhaustive up to length 3 over 6 symbols, then random lengths 0-40; non-trivial = key contains '{' (hash-tag logic exercised) and is distinct; keys ops fold real builder Key methods from InitSlot/NoSlot",
		run:  runSlot,
		replay: func(c *Ctx, lines []string) {
			for _, l := range lines {
				slotOp(c, l)
			}
		},
	}
}

func slotOp(c *Ctx, line string) {
	w := strings.Fields(line)
	switch w[0] {
	case "slot", "!slot":
		k := unhx(w[1])
		c.Emit(line, fmt.Sprint(cmds.Slot(k)), strings.Contains(k, "{"))
	case "keys", "!keys":
		// keys <init|noslot> k1 k2 ... : Arbitrary().Keys(k1).Keys(k2)... on a cluster / non-cluster builder
		// (!keys: judged by the specification: a cluster builder accepts iff all keys share one slot, and then the
		// command carries that slot; a non-cluster builder always accepts)
		init := cmds.InitSlot
		if w[1] == "noslot" {
			init = cmds.NoSlot
		}
		ans := func() (ans string) {
			defer func() {
				if r := recover(); r != nil {
					ans = "panic"
				}
			}()
			b := cmds.NewBuilder(init).Arbitrary("X")
			for _, k := range w[2:] {
				b = b.Keys(unhx(k))
			}
			cc := b.Build()
			return fmt.Sprint(cc.Slot())
		}()
		c.Hit("keys:" + w[1] + ":" + map[bool]string{true: "panic", false: "ok"}[ans == "panic"])
		if w[0] == "!keys" && ans != "panic" {
			if w[1] == "noslot" {
				ans = "accept"
			} else {
				ans = "accept " + ans
			}
		}
		c.Emit(line, ans, len(w) > 3)
	}
}

func runSlot(c *Ctx) {
	alpha := []byte{'{', '}', 'a', 'b', 0x00, 0xff}
	// exhaustive small keys
	var rec func(prefix []byte, depth int)
	rec = func(prefix []byte, depth int) {
		slotOp(c, "slot "+hx(string(prefix)))
		slotOp(c, "!slot "+hx(string(prefix)))
		if depth == 0 {
			return
		}
		for _, a := range alpha {
			rec(append(append([]byte{}, prefix...), a), depth-1)
		}
	}
	rec(nil, 3)
	randKey := func() string {
		n := c.Rng.IntN(12)
		if c.Rng.IntN(8) == 0 {
			n = c.Rng.IntN(41)
		}
		b := make([]byte, n)
		for i := range b {
			switch c.Rng.IntN(6) {
			case 0:
				b[i] = '{'
			case 1:
				b[i] = '}'
			case 2:
				b[i] = byte(c.Rng.IntN(256))
			default:
				b[i] = byte('a' + c.Rng.IntN(3))
			}
		}
		return string(b)
	}
	for i := 0; i < c.N; i++ {
		k := hx(randKey())
		slotOp(c, "slot "+k)
		slotOp(c, "!slot "+k)
	}
	// multi-key folds: mostly same-tag keys (accepted), some different (panic)
	for i := 0; i < c.N/4; i++ {
		nk := 1 + c.Rng.IntN(4)
		tag := string(rune('a' + c.Rng.IntN(3)))
		ks := make([]string, nk)
		for j := range ks {
			if c.Rng.IntN(5) == 0 {
				ks[j] = hx(randKey())
			} else {
				ks[j] = hx("{" + tag + "}" + randKey())
			}
		}
		init := "init"
		if c.Rng.IntN(3) == 0 {
			init = "noslot"
		}
		slotOp(c, "keys "+init+" "+strings.Join(ks, " "))
		slotOp(c, "!keys "+init+" "+strings.Join(ks, " "))
	}
	// slot 0 is a slot like any other: keys that hash to 0 combined with keys of other slots, in both orders
	var zero []string
	for i := 0; len(zero) < 3 && i < 1<<20; i++ {
		if k := fmt.Sprintf("z%d", i); cmds.Slot(k) == 0 {
			zero = append(zero, hx(k))
		}
	}
	for _, z := range zero {
		other := hx(randKey() + "x")
		for _, init := range []string{"init", "noslot"} {
			for _, ks := range [][]string{{z, other}, {other, z}, {z, z}, {z, zero[0], other}, {z}} {
				slotOp(c, "keys "+init+" "+strings.Join(ks, " "))
				slotOp(c, "!keys "+init+" "+strings.Join(ks, " "))
			}
		}
	}
}
