module github.com/redis/rueidis/zzverif/core

go 1.25.0

require github.com/redis/rueidis v0.0.0

replace github.com/redis/rueidis => /repo
