package main

import "syscall"

// setMemLimit caps the address space of this (child) process.
func setMemLimit(bytes uint64) {
	_ = syscall.Setrlimit(syscall.RLIMIT_AS, &syscall.Rlimit{Cur: bytes, Max: bytes})
}
