package main

import (
	"context"
	"crypto/sha1"
	"encoding/hex"
	"fmt"
	"strconv"
	"strings"
	"sync"

	"github.com/redis/rueidis"
	"github.com/redis/rueidis/internal/cmds"
)

// Suite luaexec (C30): real Lua.Exec / Lua.ExecMulti against the recording fake client.
//
//	reset ro=<0|1> nosha=<0|1> load=<0|1> retry=<0|1> script=<hex> sha=<hex of sha1 hex>
//	exec k=<hex,..|_> a=<hex,..|_> srv=<reply;reply;..|_>      answers of successive c.Do calls
//	     [sim=<known 0|1>:<fault,fault,..>:<resend>]           the answers came from the simulated script
//	         cache (srv= then lists what each c.Do finally returned); fault per server-side command:
//	         0 none, 1 lost before the server saw it, 2 executed but the reply was lost; resend > 0:
//	         the client re-sends retryable-tagged commands after a transport error (retries enabled)
//	!exec runs=<n> resend=<r>                                  oracle: body executions of one Exec
//	multi nodes=<reply;..|_> m=<k,k/a,a|k/a|..|_> srv=<reply;..|_>
//	conc n=<n> fail=<k>                                        n concurrent first calls
//	!trace log=<KIND.class,..|_> runs=<n|->                    oracle: spec on the observed log
//	!multilen n=<len(multi)>                                   oracle: one result per LuaExec
//	!multifail n=<len(multi)>                                  oracle: failed SCRIPT LOAD => n errors, nothing sent
func init() {
	suites["luaexec"] = suite{
		rule: "episodes = one *Lua (every public constructor x WithLoadSHA1) followed by Exec/ExecMulti calls; exhaustive: 9 constructors x 7^3 reply scripts x 2 calls; random: scripted replies (strings, ints, nil, NOSCRIPT / ERR NOSCRIPT / other errors, transport errors, empty/foreign SHA) a simulated script cache (counts body executions) with every 4-step schedule of lost requests / lost replies x cache state x client retries on/off (re-sending retryable-tagged commands), random longer schedules and cache flushes; non-trivial = distinct exec/multi line that sent at least one command",
		run:  runLua,
		replay: func(c *Ctx, lines []string) {
			ep := &luaEp{}
			for _, l := range lines {
				if strings.HasPrefix(l, "!") {
					continue // oracle lines are re-derived from the real run
				}
				ep.op(c, l)
			}
		},
	}
}

type luaEp struct {
	simKnown               bool // script-cache state of the simulated server after the last sim exec
	lua                    *rueidis.Lua
	ro, nosha, load, retry bool
	script, sha            string
}

func b2s(b bool) string {
	if b {
		return "1"
	}
	return "0"
}

func sha1hex(s string) string {
	sum := sha1.Sum([]byte(s))
	return hex.EncodeToString(sum[:])
}

func (e *luaEp) resetLine() string {
	return fmt.Sprintf("reset ro=%s nosha=%s load=%s retry=%s script=%s sha=%s",
		b2s(e.ro), b2s(e.nosha), b2s(e.load), b2s(e.retry), hx(e.script), hx(sha1hex(e.script)))
}

// build creates the *Lua through the public constructors only.
func (e *luaEp) build() bool {
	var opts []rueidis.LuaOption
	if e.load {
		opts = append(opts, rueidis.WithLoadSHA1(true))
	}
	switch {
	case e.nosha && e.load, e.ro && e.retry:
		return false // no public constructor
	case e.nosha && e.ro:
		e.lua = rueidis.NewLuaScriptReadOnlyNoSha(e.script)
	case e.nosha && e.retry:
		e.lua = rueidis.NewLuaScriptNoShaRetryable(e.script)
	case e.nosha:
		e.lua = rueidis.NewLuaScriptNoSha(e.script)
	case e.ro:
		e.lua = rueidis.NewLuaScriptReadOnly(e.script, opts...)
	case e.retry:
		e.lua = rueidis.NewLuaScriptRetryable(e.script, opts...)
	default:
		e.lua = rueidis.NewLuaScript(e.script, opts...)
	}
	return true
}

func newFake(answer func(argv []string) reply) *fake {
	return &fake{builder: cmds.NewBuilder(cmds.NoSlot), mode: rueidis.ClientModeStandalone, answer: answer}
}

// scriptedAnswer answers successive commands from rs, then x:"eof"; given records the answers.
func scriptedAnswer(rs []reply, given *[]reply) func([]string) reply {
	i := 0
	return func([]string) reply {
		r := reply{kind: 'x', text: "eof"}
		if i < len(rs) {
			r = rs[i]
		}
		i++
		*given = append(*given, r)
		return r
	}
}

func kindOf(argv []string) string {
	if len(argv) >= 2 && argv[0] == "SCRIPT" && argv[1] == "LOAD" {
		return "SCRIPTLOAD"
	}
	return argv[0]
}

// clsOf classifies an answer the way the specification needs it.
func clsOf(kind string, r reply) string {
	if kind == "SCRIPTLOAD" {
		switch {
		case r.kind == 's' && r.text == "":
			return "empty"
		case r.kind == 's':
			return "ok"
		}
		return "other"
	}
	if r.kind == 'e' && strings.HasPrefix(strings.TrimPrefix(r.text, "ERR "), "NOSCRIPT") {
		return "noscript"
	}
	return "ok"
}

func repliesString(rs []reply) string {
	ss := make([]string, len(rs))
	for i, r := range rs {
		ss[i] = r.String()
	}
	return joinList(ss, ";")
}

func parseReplies(s string) []reply {
	var rs []reply
	for _, w := range splitList(s, ";") {
		rs = append(rs, parseReply(w))
	}
	return rs
}

// op executes one ordinary op line. sim != nil: answers come from the simulated server and the
// srv= field of the emitted line is filled in with the answers it actually gave.
func (e *luaEp) op(c *Ctx, line string) {
	ws := strings.Fields(line)
	var sim *luaSim
	resend := 0
	simField := optField(ws, "sim", "")
	if simField != "" {
		parts := strings.Split(simField, ":")
		sim = &luaSim{sha: sha1hex(e.script), known: parts[0] == "1"}
		for _, w := range splitList(parts[1], ",") {
			n, _ := strconv.Atoi(w)
			sim.faults = append(sim.faults, n)
		}
		resend, _ = strconv.Atoi(parts[2])
	}
	switch ws[0] {
	case "reset":
		e.ro, e.nosha, e.load, e.retry = field(ws, "ro") == "1", field(ws, "nosha") == "1", field(ws, "load") == "1", field(ws, "retry") == "1"
		e.script = unhx(field(ws, "script"))
		if !e.build() {
			panic("no constructor for " + line)
		}
		c.Emit(e.resetLine(), "ok", false)
	case "exec":
		keys, args := unhxList(field(ws, "k")), unhxList(field(ws, "a"))
		var scripted []reply
		var f *fake
		runs0 := 0
		if sim != nil {
			runs0 = sim.runs
			f = newFake(sim.answer)
			f.resend = resend
		} else {
			f = newFake(scriptedAnswer(parseReplies(field(ws, "srv")), &scripted))
		}
		ans := func() (ans string) {
			defer func() {
				if r := recover(); r != nil {
					ans = "panic"
				}
			}()
			res := e.lua.Exec(context.Background(), f, keys, args)
			return "log=" + logString(f.log) + " res=" + canonRes(res)
		}()
		given := f.final // what each c.Do finally returned
		srv := field(ws, "srv")
		if sim != nil {
			srv = repliesString(given)
		}
		op := fmt.Sprintf("exec k=%s a=%s srv=%s", hxList(keys), hxList(args), srv)
		if sim != nil {
			op += " sim=" + simField
			e.simKnown = sim.known
		}
		c.Emit(op, ans, len(f.log) > 0)
		// oracle line: the observed log, classified
		evs, bodies := []string{}, 0
		gi := 0
		for _, cl := range f.log {
			for _, sc := range cl.cmds {
				k := kindOf(sc.argv)
				cls := clsOf(k, given[gi])
				gi++
				evs = append(evs, k+"."+cls)
				c.Hit("exec:" + k + "." + cls)
			}
		}
		runs := "-"
		if sim != nil {
			bodies = sim.runs - runs0
			c.Hit(fmt.Sprintf("sim-runs:%d:resend=%d", bodies, min(resend, 1)))
			if f.wire > len(given) {
				c.Hit("sim-resent-commands")
			}
			if resend == 0 {
				runs = strconv.Itoa(bodies)
			}
		}
		tl := fmt.Sprintf("!trace log=%s runs=%s", joinList(evs, ","), runs)
		c.Emit(tl, "ok", false)
		if sim != nil {
			// oracle: the server ran the body at most once for this Exec; with a re-sending client
			// more than once is acceptable only for read-only scripts and the *Retryable constructors
			c.Emit(fmt.Sprintf("!exec runs=%d resend=%d", bodies, resend), "ok", false)
			if bodies > 1 && !(resend > 0 && (e.ro || e.retry)) {
				c.Fail("lua:body-executed-twice", op, fmt.Sprintf("the simulated server ran the script body %d times during one Exec of a script that is neither read-only nor retryable (resend=%d)", bodies, resend))
			}
		}
	case "multi":
		nodeReplies := parseReplies(field(ws, "nodes"))
		var multi []rueidis.LuaExec
		for _, m := range splitList(field(ws, "m"), "|") {
			ka := strings.Split(m, "/")
			multi = append(multi, rueidis.LuaExec{Keys: unhxList(ka[0]), Args: unhxList(ka[1])})
		}
		var given []reply
		f := newFake(scriptedAnswer(parseReplies(field(ws, "srv")), &given))
		f.nodes = map[string]rueidis.Client{}
		nodes := make([]*fake, len(nodeReplies))
		for i, r := range nodeReplies {
			r := r
			nodes[i] = newFake(func([]string) reply { return r })
			f.nodes[fmt.Sprintf("node%03d", i)] = nodes[i]
		}
		nres, nerr := 0, 0
		ans := func() (ans string) {
			defer func() {
				if r := recover(); r != nil {
					ans = "panic"
				}
			}()
			res := e.lua.ExecMulti(context.Background(), f, multi...)
			nres = len(res)
			var ns []string // what each node received (nodes that received nothing are left out)
			for _, n := range nodes {
				if len(n.log) > 0 {
					ns = append(ns, strings.TrimPrefix(logString(n.log), "D"))
				}
			}
			rs := make([]string, len(res))
			for i, r := range res {
				rs[i] = canonRes(r)
				if r.Error() != nil {
					nerr++
				}
			}
			return "nodes=" + joinList(ns, "|") + " log=" + logString(f.log) + " res=" + joinList(rs, ";")
		}()
		c.Hit(fmt.Sprintf("multi:nodes=%d", min(len(nodes), 3)))
		if strings.Contains(ans, "log=_") {
			c.Hit("multi:load-failed")
		}
		c.Emit(line, ans, true)
		c.Emit(fmt.Sprintf("!multilen n=%d", len(multi)), strconv.Itoa(nres), false)
		loadFailed := false
		for _, r := range nodeReplies {
			loadFailed = loadFailed || r.kind == 'e' || r.kind == 'x' || r.kind == 'n'
		}
		if loadFailed && !e.nosha {
			// oracle: a failed SCRIPT LOAD fails every LuaExec (and nothing is executed)
			c.Emit(fmt.Sprintf("!multifail n=%d", len(multi)), fmt.Sprintf("%d sent=%d", nerr, len(f.log)), false)
		}
	case "conc":
		n, _ := strconv.Atoi(field(ws, "n"))
		fail, _ := strconv.Atoi(field(ws, "fail"))
		script := "return 'conc'"
		lua := rueidis.NewLuaScript(script, rueidis.WithLoadSHA1(true))
		loads := 0
		f := newFake(nil)
		f.answer = func(argv []string) reply { // called under f.mu
			if kindOf(argv) == "SCRIPTLOAD" {
				loads++
				if loads <= fail {
					return reply{kind: 'e', text: "ERR busy"}
				}
				return reply{kind: 's', text: sha1hex(script)}
			}
			return reply{kind: 's', text: "v"}
		}
		var wg sync.WaitGroup
		start := make(chan struct{})
		errs := make([]bool, n)
		for i := 0; i < n; i++ {
			wg.Add(1)
			go func(i int) {
				defer wg.Done()
				<-start
				errs[i] = lua.Exec(context.Background(), f, []string{"k"}, nil).Error() != nil
			}(i)
		}
		close(start)
		wg.Wait()
		ne := 0
		for _, b := range errs {
			if b {
				ne++
			}
		}
		c.Emit(line, fmt.Sprintf("loads=%d errs=%d oks=%d", loads, ne, n-ne), n > 1)
	default:
		panic("bad op " + line)
	}
}

// luaSim is a faithful script cache: EVALSHA runs the body only for a known SHA-1, EVAL runs it
// and caches the script, SCRIPT LOAD caches it. faults: per command 0 none, 1 lost before the
// server saw it, 2 reply lost after the server processed it.
type luaSim struct {
	sha    string
	known  bool
	runs   int
	faults []int
}

func (s *luaSim) answer(argv []string) reply {
	fault := 0
	if len(s.faults) > 0 {
		fault, s.faults = s.faults[0], s.faults[1:]
	}
	if fault == 1 {
		return reply{kind: 'x', text: "write: broken pipe"}
	}
	var r reply
	switch kindOf(argv) {
	case "SCRIPTLOAD":
		s.known = true
		r = reply{kind: 's', text: s.sha}
	case "EVALSHA", "EVALSHA_RO":
		if s.known && argv[1] == s.sha {
			s.runs++
			r = reply{kind: 's', text: "v" + strconv.Itoa(s.runs)}
		} else {
			r = reply{kind: 'e', text: "NOSCRIPT No matching script. Please use EVAL."}
		}
	case "EVAL", "EVAL_RO":
		s.runs++
		s.known = true
		r = reply{kind: 's', text: "v" + strconv.Itoa(s.runs)}
	default:
		r = reply{kind: 'e', text: "ERR unknown command"}
	}
	if fault == 2 {
		return reply{kind: 'x', text: "read: i/o timeout"}
	}
	return r
}

var luaConfigs = [][4]bool{ // ro nosha load retry — every public constructor
	{false, false, false, false}, {false, false, true, false},
	{true, false, false, false}, {true, false, true, false},
	{false, false, false, true}, {false, false, true, true},
	{false, true, false, false}, {true, true, false, false}, {false, true, false, true},
}

func runLua(c *Ctx) {
	scripts := []string{"return 1", "return redis.call('GET', KEYS[1])", "", "return {KEYS[1],ARGV[1]} -- \x00\xff"}
	start := func(cfg [4]bool, script string) *luaEp {
		e := &luaEp{ro: cfg[0], nosha: cfg[1], load: cfg[2], retry: cfg[3], script: script}
		e.op(c, e.resetLine())
		return e
	}
	// ---- exhaustive: constructor x three scripted answers x two calls
	sha0 := sha1hex(scripts[0])
	alpha := []reply{
		{kind: 's', text: sha0}, {kind: 's', text: ""}, {kind: 'i', num: 7}, {kind: 'n'},
		{kind: 'e', text: "NOSCRIPT No matching script."}, {kind: 'e', text: "ERR wrong"}, {kind: 'x', text: "timeout"},
	}
	for _, cfg := range luaConfigs {
		for _, r0 := range alpha {
			for _, r1 := range alpha {
				for _, r2 := range alpha {
					e := start(cfg, scripts[0])
					srv := repliesString([]reply{r0, r1, r2})
					e.op(c, "exec k=6b a=61 srv="+srv)
					e.op(c, "exec k=_ a=_ srv="+srv)
				}
			}
		}
	}
	// ---- simulated script cache, every fault schedule of length 4 x cache state x client retries
	for _, cfg := range luaConfigs {
		for known := 0; known < 2; known++ {
			for _, rs := range []int{0, 2} {
				for fsq := 0; fsq < 81; fsq++ {
					e := start(cfg, scripts[1])
					fs := fmt.Sprintf("%d,%d,%d,%d", fsq/27%3, fsq/9%3, fsq/3%3, fsq%3)
					e.op(c, fmt.Sprintf("exec k=6b a=_ srv=_ sim=%d:%s:%d", known, fs, rs))
				}
			}
		}
	}
	// ---- random episodes
	randBytes := func() string {
		n := c.Rng.IntN(4)
		b := make([]byte, n)
		for i := range b {
			if c.Rng.IntN(4) == 0 {
				b[i] = byte(c.Rng.IntN(256))
			} else {
				b[i] = byte('a' + c.Rng.IntN(3))
			}
		}
		return string(b)
	}
	randList := func(max int) []string {
		n := c.Rng.IntN(max + 1)
		l := make([]string, n)
		for i := range l {
			l[i] = randBytes()
		}
		return l
	}
	randReply := func(script string) reply {
		switch c.Rng.IntN(12) {
		case 0:
			return reply{kind: 's', text: sha1hex(script)}
		case 1:
			return reply{kind: 's', text: ""}
		case 2:
			return reply{kind: 's', text: randBytes() + "x"}
		case 3:
			return reply{kind: 'i', num: int64(c.Rng.IntN(5)) - 2}
		case 4:
			return reply{kind: 'n'}
		case 5, 6:
			return reply{kind: 'e', text: "NOSCRIPT No matching script. Please use EVAL."}
		case 7:
			return reply{kind: 'e', text: "ERR NOSCRIPT via proxy"}
		case 8:
			return reply{kind: 'e', text: []string{"ERR NOSCRIP", "NOSCRIP", "ERR ERR NOSCRIPT", "BUSY NOSCRIPT", "ERR ", ""}[c.Rng.IntN(6)]}
		case 9:
			return reply{kind: 'x', text: "i/o timeout"}
		default:
			return reply{kind: 's', text: "val" + randBytes()}
		}
	}
	for i := 0; i < c.N; i++ {
		cfg := luaConfigs[c.Rng.IntN(len(luaConfigs))]
		script := scripts[c.Rng.IntN(len(scripts))]
		e := start(cfg, script)
		useSim := c.Rng.IntN(2) == 0
		e.simKnown = c.Rng.IntN(2) == 0
		simResend := 0
		if c.Rng.IntN(2) == 0 {
			simResend = 1 + c.Rng.IntN(2)
		}
		nops := 1 + c.Rng.IntN(5)
		for j := 0; j < nops; j++ {
			if useSim && c.Rng.IntN(4) == 0 {
				e.simKnown = false // SCRIPT FLUSH / failover between calls
			}
			if c.Rng.IntN(4) == 0 {
				// ExecMulti
				nn := c.Rng.IntN(4)
				bad, good := randReply(script), randReply(script)
				for bad.kind != 'e' && bad.kind != 'x' && bad.kind != 'n' {
					bad = randReply(script)
				}
				for good.kind != 's' && good.kind != 'i' {
					good = randReply(script)
				}
				if good.kind == 's' && c.Rng.IntN(2) == 0 {
					good.text = sha1hex(script)
				}
				nrs := make([]reply, nn)
				for k := range nrs {
					switch c.Rng.IntN(6) {
					case 0:
						nrs[k] = bad
					case 1:
						nrs[k] = reply{kind: 'i', num: 3}
					default:
						nrs[k] = good
					}
				}
				nm := c.Rng.IntN(4)
				ms := make([]string, nm)
				rs := make([]reply, nm)
				for k := range ms {
					ms[k] = hxList(randList(2)) + "/" + hxList(randList(2))
					rs[k] = randReply(script)
				}
				if nm > 0 && c.Rng.IntN(8) == 0 {
					rs = rs[:nm-1]
				}
				e.op(c, fmt.Sprintf("multi nodes=%s m=%s srv=%s", repliesString(nrs), joinList(ms, "|"), repliesString(rs)))
				continue
			}
			keys, args := randList(3), randList(3)
			if useSim {
				fs := make([]string, 9)
				for q := range fs {
					fs[q] = strconv.Itoa(c.Rng.IntN(6) / 4 * (1 + c.Rng.IntN(2)))
				}
				e.op(c, fmt.Sprintf("exec k=%s a=%s srv=_ sim=%s:%s:%d", hxList(keys), hxList(args), b2s(e.simKnown), strings.Join(fs, ","), simResend))
			} else {
				rs := []reply{randReply(script), randReply(script), randReply(script)}
				if cfg[2] && j == 0 && c.Rng.IntN(2) == 0 {
					rs[0] = reply{kind: 's', text: sha1hex(script)}
				}
				e.op(c, fmt.Sprintf("exec k=%s a=%s srv=%s", hxList(keys), hxList(args), repliesString(rs[:c.Rng.IntN(4)])))
			}
		}
	}
	// ---- concurrent first calls on a WithLoadSHA1 script
	e := &luaEp{}
	ns := []int{1, 2, 3, 8, 32}
	for _, n := range ns {
		for _, fail := range []int{0, 1, 2, 5, 40} {
			e.op(c, fmt.Sprintf("conc n=%d fail=%d", n, fail))
		}
	}
}
