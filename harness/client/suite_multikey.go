package main

import (
	"context"
	"fmt"
	"sort"
	"strconv"
	"strings"
	"time"

	"github.com/redis/rueidis"
	"github.com/redis/rueidis/internal/cmds"
)

// Suite multikey (C31): the real multi-key helpers of helper.go on real *singleClient /
// *standalone / *sentinelClient values (over the recording fake as connection) and on the fake
// itself as a cluster-type client; plus the per-slot builders of internal/cmds.
//
//	<fn> mode=<single|standalone|sentinel|cluster> [nocache=<0|1>] keys=<hex,..|_> | kv=<k:v,..|_>
//	     [path=<hex>] st=<k:v,..|_> bad=<k:e<hex>|k:x<hex>,..|_> an=<none|long|short|str>
//	   fn: mget jsonmget mgetcache jsonmgetcache mset msetnx jsonmset mdel
//	   server: st = store; a command touching a bad key fails as a whole with that error;
//	   an = anomaly applied to array replies (one element too many / too few / not an array)
//	!<fn> ...   oracle: every distinct input key, mapped to the store's value / its own error
//	!mk cmds=<argv;argv;..>   oracle (cluster client): every command sent addresses one slot only
//	grp fn=<mgets|mdels|jsonmgets|msets|msetnxs|jsonmsets> keys=|kv= [path=]
func init() {
	suites["multikey"] = suite{
		rule: "key lists with duplicates, hash tags forcing 1..many slots, empty and binary keys x 4 client kinds x 8 helpers x scripted server (store, failing keys with redis/transport errors, array replies of wrong length/type); interleaved slot patterns (ABAA, AABA, ABCAB, ... with and without duplicates) x 7 helpers on the cluster-type client whose nodes refuse cross-slot commands; exhaustive: all key lists up to length 3 over {a,b,{t}a,{t}b} x {single,cluster} x {mget,mgetcache,mdel}; non-trivial = distinct op with at least 2 keys",
		run:  runMultiKey,
		replay: func(c *Ctx, lines []string) {
			for _, l := range lines {
				if strings.HasPrefix(l, "!") {
					continue
				}
				mkOp(c, l)
			}
		},
	}
}

type mkSrv struct {
	store   map[string]string
	bad     map[string]reply
	an      string
	cluster bool // cluster node: a command whose keys hash to different slots is refused
}

const crossSlotText = "CROSSSLOT Keys in request don't hash to the same slot"

// cmdKeys returns the keys of a command the helpers can send (by command name).
func cmdKeys(argv []string) []string {
	if len(argv) == 0 {
		return nil
	}
	rest := argv[1:]
	switch argv[0] {
	case "MGET", "DEL":
		return rest
	case "JSON.MGET":
		return rest[:max(len(rest)-1, 0)]
	case "GET", "JSON.GET", "SET", "JSON.SET":
		if len(rest) > 0 {
			return rest[:1]
		}
		return nil
	case "MSET", "MSETNX":
		return everyNth(2, rest)
	case "JSON.MSET":
		return everyNth(3, rest)
	}
	return nil
}

func mixesSlots(argv []string) bool {
	ks := cmdKeys(argv)
	for _, k := range ks {
		if cmds.Slot(k) != cmds.Slot(ks[0]) {
			return true
		}
	}
	return false
}

func parsePairs(s string) [][2]string {
	var out [][2]string
	for _, w := range splitList(s, ",") {
		kv := strings.SplitN(w, ":", 2)
		out = append(out, [2]string{unhx(kv[0]), kv[1]})
	}
	return out
}

func parseMkSrv(ws []string) *mkSrv {
	sv := &mkSrv{store: map[string]string{}, bad: map[string]reply{}, an: field(ws, "an")}
	for _, p := range parsePairs(field(ws, "st")) {
		if _, dup := sv.store[p[0]]; !dup { // first entry wins, as List.lookup does
			sv.store[p[0]] = unhx(p[1])
		}
	}
	for _, p := range parsePairs(field(ws, "bad")) {
		if _, dup := sv.bad[p[0]]; !dup {
			sv.bad[p[0]] = reply{kind: p[1][0], text: unhx(p[1][1:])}
		}
	}
	return sv
}

func (sv *mkSrv) get(k string) reply {
	if v, ok := sv.store[k]; ok {
		return reply{kind: 's', text: v}
	}
	return reply{kind: 'n'}
}

// firstBad: the failing key with the smallest hex form (independent of argument order, which
// is Go map order for the MSET family).
func (sv *mkSrv) firstBad(keys []string) (reply, bool) {
	keys = append([]string(nil), keys...)
	sort.Slice(keys, func(a, b int) bool { return hx(keys[a]) < hx(keys[b]) })
	for _, k := range keys {
		if r, ok := sv.bad[k]; ok {
			return r, true
		}
	}
	return reply{}, false
}

func everyNth(n int, l []string) []string {
	var out []string
	for i := 0; i < len(l); i += n {
		out = append(out, l[i])
	}
	return out
}

// answer mirrors Srv.answer of lean/Rv/Drv/MultiKey.lean.
func (sv *mkSrv) answer(argv []string) reply {
	name, rest := argv[0], argv[1:]
	ok := reply{kind: 's', text: "OK"}
	if sv.cluster && mixesSlots(argv) {
		return reply{kind: 'e', text: crossSlotText}
	}
	arrReply := func(keys []string) reply {
		if r, bad := sv.firstBad(keys); bad {
			return r
		}
		arr := make([]reply, len(keys))
		for i, k := range keys {
			arr[i] = sv.get(k)
		}
		switch sv.an {
		case "long":
			arr = append(arr, reply{kind: 's', text: "extra"})
		case "short":
			if len(arr) > 0 {
				arr = arr[:len(arr)-1]
			}
		case "str":
			return reply{kind: 's', text: "notarray"}
		}
		return reply{kind: 'a', arr: arr}
	}
	first := func() []string {
		if len(rest) > 0 {
			return rest[:1]
		}
		return nil
	}
	switch name {
	case "MGET":
		return arrReply(rest)
	case "JSON.MGET":
		return arrReply(rest[:max(len(rest)-1, 0)])
	case "GET", "JSON.GET":
		if r, bad := sv.firstBad(first()); bad {
			return r
		}
		return sv.get(rest[0])
	case "SET":
		if r, bad := sv.firstBad(first()); bad {
			return r
		}
		if _, exists := sv.store[rest[0]]; len(rest) == 3 && exists {
			return reply{kind: 'n'}
		}
		return ok
	case "JSON.SET":
		if r, bad := sv.firstBad(first()); bad {
			return r
		}
		return ok
	case "DEL":
		if r, bad := sv.firstBad(rest); bad {
			return r
		}
		n := 0
		for _, k := range rest {
			if _, exists := sv.store[k]; exists {
				n++
			}
		}
		return reply{kind: 'i', num: int64(n)}
	case "MSET", "MSETNX":
		keys := everyNth(2, rest)
		if r, bad := sv.firstBad(keys); bad {
			return r
		}
		if name == "MSET" {
			return ok
		}
		for _, k := range keys {
			if _, exists := sv.store[k]; exists {
				return reply{kind: 'i', num: 0}
			}
		}
		return reply{kind: 'i', num: 1}
	case "JSON.MSET":
		if r, bad := sv.firstBad(everyNth(3, rest)); bad {
			return r
		}
		return ok
	}
	return reply{kind: 'e', text: "ERR unknown command"}
}

func mkClient(mode string, nocache bool, f *fake) rueidis.Client {
	switch mode {
	case "single":
		return rueidis.VerifSingleClient(f, nocache)
	case "standalone":
		return rueidis.VerifStandaloneClient(f, nocache)
	case "sentinel":
		return rueidis.VerifSentinelClient(f, nocache)
	case "cluster":
		f.builder = cmds.NewBuilder(cmds.InitSlot)
		f.mode = rueidis.ClientModeCluster
		return f
	}
	panic("bad mode " + mode)
}

func renderMsgMap(m map[string]rueidis.RedisMessage) string {
	es := make([]string, 0, len(m))
	for k, v := range m {
		cv := canonMsg(v)
		if strings.HasPrefix(cv, "a:") {
			vs, _ := v.ToArray()
			cv = "a#" + strconv.Itoa(len(vs))
		}
		es = append(es, hx(k)+"="+cv)
	}
	sortByKey(es)
	return "ok:" + joinList(es, ",")
}

// sortByKey sorts "hexkey=value" entries by the hex key.
func sortByKey(es []string) {
	sort.Slice(es, func(a, b int) bool {
		return strings.SplitN(es[a], "=", 2)[0] < strings.SplitN(es[b], "=", 2)[0]
	})
}

func renderErrMap(m map[string]error) string {
	es := make([]string, 0, len(m))
	for k, v := range m {
		es = append(es, hx(k)+"="+canonErr(v))
	}
	sortByKey(es)
	return "ok:" + joinList(es, ",")
}

// canonical rendering of the calls: no flags; for the map-driven helpers the order of the
// commands in a batch and of the pairs inside MSET/MSETNX/JSON.MSET is Go map order → sorted.
func renderCalls(log []call, kvFamily bool, width int) string {
	ss := make([]string, len(log))
	for i, cl := range log {
		cs := make([]string, len(cl.cmds))
		for j, sc := range cl.cmds {
			argv := sc.argv
			if kvFamily && cl.kind == 'D' && width > 0 {
				var groups [][]string
				for p := 1; p+width <= len(argv); p += width {
					groups = append(groups, argv[p:p+width])
				}
				sort.Slice(groups, func(a, b int) bool { return hx(groups[a][0]) < hx(groups[b][0]) })
				na := []string{argv[0]}
				for _, g := range groups {
					na = append(na, g...)
				}
				argv = na
			}
			cs[j] = hxList(argv)
		}
		switch cl.kind {
		case 'D':
			ss[i] = "D:" + cs[0]
		case 'M':
			if kvFamily {
				sort.Strings(cs)
			}
			ss[i] = "M[" + joinList(cs, "+") + "]"
		case 'C':
			ss[i] = "C[" + joinList(cs, "+") + "]"
		default:
			ss[i] = "?" + string(cl.kind)
		}
	}
	return joinList(ss, ";")
}

func optField(ws []string, name, def string) string {
	for _, w := range ws {
		if strings.HasPrefix(w, name+"=") {
			return w[len(name)+1:]
		}
	}
	return def
}

func mkOp(c *Ctx, line string) {
	ws := strings.Fields(line)
	op := ws[0]
	if op == "grp" {
		grpOp(c, line, ws)
		return
	}
	mode := field(ws, "mode")
	nocache := optField(ws, "nocache", "0") == "1"
	keys := unhxList(optField(ws, "keys", "_"))
	kvs := map[string]string{}
	var kvKeys []string
	for _, p := range parsePairs(optField(ws, "kv", "_")) {
		kvs[p[0]] = unhx(p[1])
		kvKeys = append(kvKeys, p[0])
	}
	path := unhx(optField(ws, "path", "-"))
	sv := parseMkSrv(ws)
	sv.cluster = mode == "cluster"
	f := newFake(sv.answer)
	client := mkClient(mode, nocache, f)
	ctx := context.Background()
	kvFamily, width := false, 0
	var out string
	func() {
		defer func() {
			if r := recover(); r != nil {
				out = "panic"
			}
		}()
		msgs := func(m map[string]rueidis.RedisMessage, err error) string {
			if err != nil {
				return "err:" + canonErr(err)
			}
			return renderMsgMap(m)
		}
		switch op {
		case "mget":
			out = msgs(rueidis.MGet(client, ctx, keys))
		case "jsonmget":
			out = msgs(rueidis.JsonMGet(client, ctx, keys, path))
		case "mgetcache":
			out = msgs(rueidis.MGetCache(client, ctx, time.Minute, keys))
		case "jsonmgetcache":
			out = msgs(rueidis.JsonMGetCache(client, ctx, time.Minute, keys, path))
		case "mset":
			kvFamily, width = true, 2
			out = renderErrMap(rueidis.MSet(client, ctx, kvs))
		case "msetnx":
			kvFamily, width = true, 2
			out = renderErrMap(rueidis.MSetNX(client, ctx, kvs))
		case "jsonmset":
			kvFamily, width = true, 3
			out = renderErrMap(rueidis.JsonMSet(client, ctx, kvs, path))
		case "mdel":
			out = renderErrMap(rueidis.MDel(client, ctx, keys))
		default:
			panic("bad op " + line)
		}
	}()
	c.Hit(op + ":" + mode + ":" + strings.SplitN(out, ":", 2)[0])
	nk := len(keys) + len(kvKeys)
	c.Emit(line, "sent="+renderCalls(f.log, kvFamily, width)+" out="+out, nk >= 2)

	if mode == "cluster" {
		// oracle: every command handed to the cluster client addresses one slot only (else a key
		// travels with another slot's command and a real node answers CROSSSLOT / MOVED)
		var all []string
		for _, cl := range f.log {
			for _, sc := range cl.cmds {
				all = append(all, hxList(sc.argv))
				if mixesSlots(sc.argv) {
					c.Fail("multikey:key-mapped-to-foreign-reply", line, "command "+hxList(sc.argv)+" mixes keys of different slots")
				}
			}
		}
		if kvFamily {
			sort.Strings(all)
		}
		c.Emit("!mk cmds="+joinList(all, ";"), "ok", false)
	}
	// oracle: on a well-behaved server every distinct input key maps to the store's value
	// (get family) / to its own error (set family on a cluster-type client, where every key has
	// its own command; on the other clients only when nothing fails)
	getFamily := op == "mget" || op == "jsonmget" || op == "mgetcache" || op == "jsonmgetcache"
	oracle := false
	switch {
	case getFamily:
		oracle = len(sv.bad) == 0 && sv.an == "none"
	case op == "msetnx":
		oracle = mode == "cluster"
	default:
		oracle = mode == "cluster" || len(sv.bad) == 0
	}
	if oracle {
		c.Emit("!"+line, out, false)
		// the same judgement in Go, with a stable witness key
		if getFamily && strings.HasPrefix(out, "ok:") {
			want := map[string]string{}
			for _, k := range keys {
				want[hx(k)] = sv.get(k).String()
			}
			got := map[string]string{}
			for _, e := range splitList(out[3:], ",") {
				kv := strings.SplitN(e, "=", 2)
				got[kv[0]] = kv[1]
			}
			if fmt.Sprint(want) != fmt.Sprint(got) {
				key := "multikey:" + op + ":" + mode + ":wrong-entry"
				if mode == "cluster" {
					key = "multikey:key-mapped-to-foreign-reply"
				}
				c.Fail(key, line, "returned map "+out+" differs from the store")
			}
		} else if getFamily {
			key := "multikey:" + op + ":" + mode + ":no-map"
			if mode == "cluster" {
				key = "multikey:key-mapped-to-foreign-reply"
			}
			c.Fail(key, line, "well-behaved server and valid key set but the helper returned "+out)
		}
	}
}

func grpOp(c *Ctx, line string, ws []string) {
	fn := field(ws, "fn")
	keys := unhxList(optField(ws, "keys", "_"))
	kvs := map[string]string{}
	for _, p := range parsePairs(optField(ws, "kv", "_")) {
		kvs[p[0]] = unhx(p[1])
	}
	path := unhx(optField(ws, "path", "-"))
	var m map[uint16]rueidis.Completed
	width := 0
	switch fn {
	case "mgets":
		m = cmds.MGets(keys)
	case "mdels":
		m = cmds.MDels(keys)
	case "jsonmgets":
		m = cmds.JsonMGets(keys, path)
	case "msets":
		m, width = cmds.MSets(kvs), 2
	case "msetnxs":
		m, width = cmds.MSetNXs(kvs), 2
	case "jsonmsets":
		m, width = cmds.JsonMSets(kvs, path), 3
	default:
		panic("bad grp fn " + line)
	}
	slots := make([]int, 0, len(m))
	for s := range m {
		slots = append(slots, int(s))
	}
	sort.Ints(slots)
	es := make([]string, len(slots))
	for i, s := range slots {
		cm := m[uint16(s)]
		argv := cp(cm.Commands())
		if width > 0 {
			var groups [][]string
			for p := 1; p+width <= len(argv); p += width {
				groups = append(groups, argv[p:p+width])
			}
			sort.Slice(groups, func(a, b int) bool { return hx(groups[a][0]) < hx(groups[b][0]) })
			na := []string{argv[0]}
			for _, g := range groups {
				na = append(na, g...)
			}
			argv = na
		}
		rw := "w"
		if cm.IsReadOnly() {
			rw = "r"
		}
		if int(cm.Slot()) != s {
			c.Fail("multikey:grp:slot-field", line, fmt.Sprintf("command under slot %d carries slot %d", s, cm.Slot()))
		}
		es[i] = fmt.Sprintf("%d:%s:%s", s, rw, hxList(argv))
	}
	c.Hit(fmt.Sprintf("grp:%s:slots=%d", fn, min(len(slots), 4)))
	c.Emit(line, joinList(es, "|"), len(slots) >= 2)
	c.Emit("!"+line, joinList(es, "|"), false) // oracle: the specification of the grouping
}

func runMultiKey(c *Ctx) {
	modes := []string{"single", "standalone", "sentinel", "cluster"}
	pairsStr := func(ps [][2]string) string {
		ss := make([]string, len(ps))
		for i, p := range ps {
			ss[i] = hx(p[0]) + ":" + p[1]
		}
		return joinList(ss, ",")
	}
	// ---- exhaustive small scope
	alpha := []string{"a", "b", "{t}a", "{t}b"}
	var lists [][]string
	var rec func(prefix []string, depth int)
	rec = func(prefix []string, depth int) {
		lists = append(lists, append([]string(nil), prefix...))
		if depth == 0 {
			return
		}
		for _, a := range alpha {
			rec(append(append([]string(nil), prefix...), a), depth-1)
		}
	}
	rec(nil, 3)
	st := pairsStr([][2]string{{"a", hx("va")}, {"{t}a", hx("vta")}})
	for _, l := range lists {
		for _, mode := range []string{"single", "cluster"} {
			for _, fn := range []string{"mget", "mgetcache", "mdel"} {
				mkOp(c, fmt.Sprintf("%s mode=%s keys=%s st=%s bad=_ an=none", fn, mode, hxList(l), st))
			}
		}
		mkOp(c, fmt.Sprintf("grp fn=mgets keys=%s", hxList(l)))
	}
	// ---- interleaved slot patterns on the cluster client (a slot re-appears after another one)
	slotTags := []string{"{a}", "{b}", "{c}"}
	for _, pat := range []string{"ABAA", "AABA", "ABCAB", "ABAB", "ABBA", "ABACA", "AABB", "ABCABC", "ABAAB", "BAABA"} {
		for variant := 0; variant < 2; variant++ {
			keys := make([]string, len(pat))
			for i, ch := range pat {
				keys[i] = slotTags[ch-'A'] + string(rune('a'+i))
				if variant == 1 && i >= 2 && pat[i] == pat[i-2] {
					keys[i] = keys[i-2] // duplicate of the same slot
				}
			}
			var stp, kv [][2]string
			seen := map[string]bool{}
			for i, k := range keys {
				if !seen[k] {
					kv = append(kv, [2]string{k, hx("n" + strconv.Itoa(i))})
					if i%3 != 1 {
						stp = append(stp, [2]string{k, hx("val:" + k)})
					}
				}
				seen[k] = true
			}
			srv := fmt.Sprintf("st=%s bad=_ an=none", pairsStr(stp))
			mkOp(c, fmt.Sprintf("mget mode=cluster keys=%s %s", hxList(keys), srv))
			mkOp(c, fmt.Sprintf("jsonmget mode=cluster keys=%s path=%s %s", hxList(keys), hx("$"), srv))
			mkOp(c, fmt.Sprintf("mgetcache mode=cluster nocache=0 keys=%s %s", hxList(keys), srv))
			mkOp(c, fmt.Sprintf("jsonmgetcache mode=cluster keys=%s path=%s %s", hxList(keys), hx("$"), srv))
			mkOp(c, fmt.Sprintf("mdel mode=cluster keys=%s %s", hxList(keys), srv))
			mkOp(c, fmt.Sprintf("mset mode=cluster kv=%s %s", pairsStr(kv), srv))
			mkOp(c, fmt.Sprintf("jsonmset mode=cluster kv=%s path=%s %s", pairsStr(kv), hx("$"), srv))
			mkOp(c, fmt.Sprintf("grp fn=mgets keys=%s", hxList(keys)))
		}
	}
	// ---- random
	tags := []string{"{a}", "{b}", "{c}", "{06S}", "{Qi}", ""} // {06S} and {Qi} share a slot
	randKey := func() string {
		switch c.Rng.IntN(10) {
		case 0:
			return ""
		case 1:
			return string([]byte{byte(c.Rng.IntN(256)), byte(c.Rng.IntN(256))})
		}
		return tags[c.Rng.IntN(len(tags))] + string(rune('k'+c.Rng.IntN(4)))
	}
	for i := 0; i < c.N; i++ {
		nk := c.Rng.IntN(7)
		if c.Rng.IntN(10) == 0 {
			nk = c.Rng.IntN(30)
		}
		keys := make([]string, nk)
		for j := range keys {
			if j > 0 && c.Rng.IntN(4) == 0 {
				keys[j] = keys[c.Rng.IntN(j)] // duplicate
			} else {
				keys[j] = randKey()
			}
		}
		// store over a subset of the keys (+ sometimes an unrelated key)
		var store [][2]string
		seen := map[string]bool{}
		for _, k := range keys {
			if !seen[k] && c.Rng.IntN(3) > 0 {
				store = append(store, [2]string{k, hx("v" + k + strconv.Itoa(c.Rng.IntN(3)))})
			}
			seen[k] = true
		}
		if c.Rng.IntN(5) == 0 {
			store = append(store, [2]string{"other", hx("x")})
		}
		var bad [][2]string
		if nk > 0 && c.Rng.IntN(4) == 0 {
			for b := 0; b < 1+c.Rng.IntN(2); b++ {
				kind := []string{"e" + hx("ERR boom"), "e" + hx("MOVED 1 x:1"), "x" + hx("i/o timeout")}[c.Rng.IntN(3)]
				bk := keys[c.Rng.IntN(nk)]
				dup := false
				for _, p := range bad {
					dup = dup || p[0] == bk
				}
				if !dup {
					bad = append(bad, [2]string{bk, kind})
				}
			}
		}
		an := "none"
		if c.Rng.IntN(8) == 0 {
			an = []string{"long", "short", "str"}[c.Rng.IntN(3)]
		}
		mode := modes[c.Rng.IntN(len(modes))]
		if c.Rng.IntN(2) == 0 {
			mode = "cluster"
		}
		path := []string{"$", "$.a", ""}[c.Rng.IntN(3)]
		srv := fmt.Sprintf("st=%s bad=%s an=%s", pairsStr(store), pairsStr(bad), an)
		// kv list: distinct keys
		var kv [][2]string
		seen = map[string]bool{}
		for _, k := range keys {
			if !seen[k] {
				kv = append(kv, [2]string{k, hx("n" + strconv.Itoa(c.Rng.IntN(9)))})
			}
			seen[k] = true
		}
		switch c.Rng.IntN(10) {
		case 0, 1:
			mkOp(c, fmt.Sprintf("mget mode=%s keys=%s %s", mode, hxList(keys), srv))
		case 2:
			mkOp(c, fmt.Sprintf("jsonmget mode=%s keys=%s path=%s %s", mode, hxList(keys), hx(path), srv))
		case 3:
			nc := "0"
			if mode != "cluster" && c.Rng.IntN(2) == 0 {
				nc = "1"
			}
			mkOp(c, fmt.Sprintf("mgetcache mode=%s nocache=%s keys=%s %s", mode, nc, hxList(keys), srv))
		case 4:
			mkOp(c, fmt.Sprintf("jsonmgetcache mode=%s keys=%s path=%s %s", mode, hxList(keys), hx(path), srv))
		case 5:
			mkOp(c, fmt.Sprintf("mset mode=%s kv=%s %s", mode, pairsStr(kv), srv))
		case 6:
			mkOp(c, fmt.Sprintf("msetnx mode=%s kv=%s %s", mode, pairsStr(kv), srv))
		case 7:
			mkOp(c, fmt.Sprintf("jsonmset mode=%s kv=%s path=%s %s", mode, pairsStr(kv), hx(path), srv))
		case 8:
			mkOp(c, fmt.Sprintf("mdel mode=%s keys=%s %s", mode, hxList(keys), srv))
		case 9:
			fn := []string{"mgets", "mdels", "jsonmgets", "msets", "msetnxs", "jsonmsets"}[c.Rng.IntN(6)]
			if strings.HasSuffix(fn, "sets") || fn == "msetnxs" {
				mkOp(c, fmt.Sprintf("grp fn=%s kv=%s path=%s", fn, pairsStr(kv), hx(path)))
			} else {
				mkOp(c, fmt.Sprintf("grp fn=%s keys=%s path=%s", fn, hxList(keys), hx(path)))
			}
		}
	}
}
