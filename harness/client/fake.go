package main

import (
	"context"
	"errors"
	"strconv"
	"strings"
	"sync"
	"time"

	"github.com/redis/rueidis"
)

// ---- replies in line-protocol form ---------------------------------------------------
//
//	s:<hex>  string reply        i:<n>  integer       n  redis nil
//	e:<hex>  redis error text    x:<hex> transport (non-redis) error
//	a:<r+r+...> / a:_  array reply (elements are scalar replies)
type reply struct {
	kind byte // s i n e x a
	text string
	num  int64
	arr  []reply
}

func parseReply(w string) reply {
	switch {
	case w == "n":
		return reply{kind: 'n'}
	case strings.HasPrefix(w, "s:"):
		return reply{kind: 's', text: unhx(w[2:])}
	case strings.HasPrefix(w, "e:"):
		return reply{kind: 'e', text: unhx(w[2:])}
	case strings.HasPrefix(w, "x:"):
		return reply{kind: 'x', text: unhx(w[2:])}
	case strings.HasPrefix(w, "i:"):
		n, err := strconv.ParseInt(w[2:], 10, 64)
		if err != nil {
			panic(err)
		}
		return reply{kind: 'i', num: n}
	case strings.HasPrefix(w, "a:"):
		r := reply{kind: 'a'}
		for _, e := range splitList(w[2:], "+") {
			r.arr = append(r.arr, parseReply(e))
		}
		return r
	}
	panic("bad reply " + w)
}

func (r reply) String() string {
	switch r.kind {
	case 'n':
		return "n"
	case 's', 'e', 'x':
		return string(r.kind) + ":" + hx(r.text)
	case 'i':
		return "i:" + strconv.FormatInt(r.num, 10)
	case 'a':
		es := make([]string, len(r.arr))
		for i, e := range r.arr {
			es[i] = e.String()
		}
		return "a:" + joinList(es, "+")
	}
	panic("bad reply kind")
}

func (r reply) msg() rueidis.RedisMessage {
	switch r.kind {
	case 'n':
		return rueidis.VerifNil()
	case 's':
		if len(r.text)%2 == 0 {
			return rueidis.VerifBlobString(r.text)
		}
		return rueidis.VerifSimpleString(r.text)
	case 'e':
		return rueidis.VerifErrMsg(r.text)
	case 'i':
		return rueidis.VerifInt(r.num)
	case 'a':
		vs := make([]rueidis.RedisMessage, len(r.arr))
		for i, e := range r.arr {
			vs[i] = e.msg()
		}
		return rueidis.VerifArray(vs...)
	}
	panic("no message for reply kind " + string(r.kind))
}

func (r reply) result() rueidis.RedisResult {
	if r.kind == 'x' {
		return rueidis.NewErrorResult(errors.New(r.text))
	}
	return rueidis.NewResult(r.msg(), nil)
}

// splitList: "_" is the empty list.
func splitList(s, sep string) []string {
	if s == "_" || s == "" {
		return nil
	}
	return strings.Split(s, sep)
}

func joinList(xs []string, sep string) string {
	if len(xs) == 0 {
		return "_"
	}
	return strings.Join(xs, sep)
}

func hxList(xs []string) string {
	hs := make([]string, len(xs))
	for i, x := range xs {
		hs[i] = hx(x)
	}
	return joinList(hs, ",")
}

func unhxList(s string) []string {
	ws := splitList(s, ",")
	out := make([]string, len(ws))
	for i, w := range ws {
		out[i] = unhx(w)
	}
	return out
}

// field returns the value of "name=value" among the words.
func field(ws []string, name string) string {
	for _, w := range ws {
		if strings.HasPrefix(w, name+"=") {
			return w[len(name)+1:]
		}
	}
	panic("missing field " + name + " in " + strings.Join(ws, " "))
}

// ---- canonical rendering of what the real code returned ------------------------------

// canonMsg renders a RedisMessage: s:<hex> i:<n> n e:<hex> a:<..> z (zero message)
func canonMsg(m rueidis.RedisMessage) string {
	if err := m.Error(); err != nil {
		if rueidis.IsRedisNil(err) {
			return "n"
		}
		return "e:" + hx(err.Error())
	}
	switch {
	case m.IsString():
		s, _ := m.ToString()
		return "s:" + hx(s)
	case m.IsInt64():
		n, _ := m.ToInt64()
		return "i:" + strconv.FormatInt(n, 10)
	case m.IsArray():
		vs, _ := m.ToArray()
		es := make([]string, len(vs))
		for i, v := range vs {
			es[i] = canonMsg(v)
		}
		return "a:" + joinList(es, "+")
	}
	return "z"
}

// canonErr renders an error value: ok n e:<hex> nx parse x:<hex>
func canonErr(err error) string {
	if err == nil {
		return "ok"
	}
	if rueidis.IsRedisNil(err) {
		return "n"
	}
	if re, ok := rueidis.IsRedisErr(err); ok {
		return "e:" + hx(re.Error())
	}
	if err == rueidis.ErrMSetNXNotSet {
		return "nx"
	}
	if rueidis.IsParseErr(err) {
		return "parse"
	}
	return "x:" + hx(err.Error())
}

// canonRes renders a RedisResult; an error sitting in the result's err field (not a reply)
// is rendered E<...> when it is a redis error / nil, x:<hex> when it is a transport error.
func canonRes(r rueidis.RedisResult) string {
	if err := r.NonRedisError(); err != nil {
		if rueidis.IsRedisNil(err) {
			return "EN"
		}
		if re, ok := rueidis.IsRedisErr(err); ok {
			return "E:" + hx(re.Error())
		}
		return "x:" + hx(err.Error())
	}
	m, _ := r.ToMessage()
	return canonMsg(m)
}

// ---- the fake client ------------------------------------------------------------------

type sentCmd struct {
	argv  []string
	retry bool
}

func (s sentCmd) String() string {
	f := "-"
	if s.retry {
		f = "R"
	}
	return f + ":" + hxList(s.argv)
}

type call struct {
	kind byte // D Do, M DoMulti, c DoCache, C DoMultiCache
	cmds []sentCmd
}

func (c call) String() string {
	ss := make([]string, len(c.cmds))
	for i, s := range c.cmds {
		ss[i] = s.String()
	}
	if c.kind == 'D' || c.kind == 'c' {
		return string(c.kind) + ss[0]
	}
	return string(c.kind) + "[" + joinList(ss, "+") + "]"
}

func logString(cs []call) string {
	ss := make([]string, len(cs))
	for i, c := range cs {
		ss[i] = c.String()
	}
	return joinList(ss, ";")
}

// fake is a hand-written rueidis.Client (and rueidis.VerifBackend) that records every
// command and answers each one with answer(argv).
type fake struct {
	mu      sync.Mutex
	builder rueidis.Builder
	mode    rueidis.ClientMode
	answer  func(argv []string) reply
	log     []call
	nodes   map[string]rueidis.Client
	// resend > 0: behave like a rueidis client with retries enabled — a command tagged retryable
	// that fails with a transport error is silently sent again (at most resend times). log holds
	// the caller-level commands only; wire counts everything that reached the server side.
	resend int
	wire   int
	final  []reply // per caller-level command: the reply the caller finally saw
}

var (
	_ rueidis.Client       = (*fake)(nil)
	_ rueidis.VerifBackend = (*fake)(nil)
)

func (f *fake) rec(kind byte, cs []sentCmd) []reply {
	f.mu.Lock()
	defer f.mu.Unlock()
	f.log = append(f.log, call{kind: kind, cmds: cs})
	rs := make([]reply, len(cs))
	for i, c := range cs {
		rs[i] = f.answer(c.argv)
		f.wire++
		for try := 0; try < f.resend && c.retry && rs[i].kind == 'x'; try++ {
			rs[i] = f.answer(c.argv)
			f.wire++
		}
		f.final = append(f.final, rs[i])
	}
	return rs
}

func cp(ss []string) []string { return append([]string(nil), ss...) }

func (f *fake) B() rueidis.Builder { return f.builder }
func (f *fake) Do(_ context.Context, cmd rueidis.Completed) rueidis.RedisResult {
	return f.rec('D', []sentCmd{{argv: cp(cmd.Commands()), retry: cmd.IsRetryable()}})[0].result()
}
func (f *fake) DoMulti(_ context.Context, multi ...rueidis.Completed) []rueidis.RedisResult {
	cs := make([]sentCmd, len(multi))
	for i, m := range multi {
		cs[i] = sentCmd{argv: cp(m.Commands()), retry: m.IsRetryable()}
	}
	rs := f.rec('M', cs)
	out := make([]rueidis.RedisResult, len(rs))
	for i, r := range rs {
		out[i] = r.result()
	}
	return out
}
func (f *fake) DoCache(_ context.Context, cmd rueidis.Cacheable, _ time.Duration) rueidis.RedisResult {
	return f.rec('c', []sentCmd{{argv: cp(cmd.Commands())}})[0].result()
}
func (f *fake) DoMultiCache(_ context.Context, multi ...rueidis.CacheableTTL) []rueidis.RedisResult {
	cs := make([]sentCmd, len(multi))
	for i, m := range multi {
		cs[i] = sentCmd{argv: cp(m.Cmd.Commands())}
	}
	rs := f.rec('C', cs)
	out := make([]rueidis.RedisResult, len(rs))
	for i, r := range rs {
		out[i] = r.result()
	}
	return out
}
func (f *fake) DoStream(context.Context, rueidis.Completed) rueidis.RedisResultStream {
	panic("fake: DoStream not expected")
}
func (f *fake) DoMultiStream(context.Context, ...rueidis.Completed) rueidis.MultiRedisResultStream {
	panic("fake: DoMultiStream not expected")
}
func (f *fake) Dedicated(func(rueidis.DedicatedClient) error) error {
	panic("fake: Dedicated not expected")
}
func (f *fake) Dedicate() (rueidis.DedicatedClient, func()) { panic("fake: Dedicate not expected") }
func (f *fake) Receive(context.Context, rueidis.Completed, func(rueidis.PubSubMessage)) error {
	panic("fake: Receive not expected")
}
func (f *fake) Nodes() map[string]rueidis.Client {
	if f.nodes == nil {
		return map[string]rueidis.Client{"self": f}
	}
	return f.nodes
}
func (f *fake) Mode() rueidis.ClientMode { return f.mode }
func (f *fake) Close()                   {}
