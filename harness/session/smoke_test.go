package main

import (
	"context"
	"testing"
	"time"

	"github.com/redis/rueidis"
	"github.com/redis/rueidis/zzverif/fakeredis"
)

func TestSmoke(t *testing.T) {
	for _, reject := range []bool{false, true} {
		s := fakeredis.New(fakeredis.Options{RejectHello: reject, Users: map[string]string{"default": "pw"}})
		c, err := rueidis.NewClient(rueidis.ClientOption{InitAddress: []string{"fake:1"}, DialCtxFn: s.Dial, ForceSingleClient: true,
			Password: "pw", ClientName: "nm", SelectDB: 2, DisableCache: reject})
		if err != nil {
			t.Fatal(err)
		}
		ctx, cancel := context.WithTimeout(context.Background(), 3*time.Second)
		if err := c.Do(ctx, c.B().Set().Key("k").Value("v").Build()).Error(); err != nil {
			t.Fatal(err)
		}
		if !reject {
			v, err := c.DoCache(ctx, c.B().Get().Key("k").Cache(), time.Minute).ToString()
			if err != nil || v != "v" {
				t.Fatal(v, err)
			}
		}
		cancel()
		c.Close()
		for _, e := range s.Log() {
			t.Log(e.Conn, e.ID, e.Argv)
		}
		s.Close()
	}
}
