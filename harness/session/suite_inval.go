package main

// Suites for C27 (invalidation callbacks):
//   invpush  — differential: the real handlePush on a bare pipe (option-level callback and hook
//              callback) against Rv.Inval.step, on well-formed and malformed push frames.
//   invale2e — end to end: real clients over fakeredis; the callback log is compared with the
//              model run over the frames the server wrote on that connection (model line) and
//              with the server's push log ++ [nil] (oracle line); dedicated SetOnInvalidations
//              sessions incl. CLIENT TRACKING OFF before the connection is reused.

import (
	"bufio"
	"context"
	"encoding/hex"
	"encoding/json"
	"fmt"
	"os"
	"os/exec"
	"strconv"
	"strings"
	"sync"
	"time"

	"github.com/redis/rueidis"
	"github.com/redis/rueidis/zzverif/fakeredis"
)

// ---- push value syntax shared with the Lean drivers: s<hex> | i<int> | n | a<hex>,<hex>
type pv struct {
	kind byte
	s    string
	n    int64
	arr  []string
}

func hx0(s string) string { return hex.EncodeToString([]byte(s)) }

func (v pv) word() string {
	switch v.kind {
	case 's':
		return "s" + hx0(v.s)
	case 'i':
		return fmt.Sprintf("i%d", v.n)
	case 'a':
		hs := make([]string, len(v.arr))
		for i, a := range v.arr {
			hs[i] = hx0(a)
		}
		return "a" + strings.Join(hs, ",")
	}
	return "n"
}

func (v pv) msg() rueidis.RedisMessage {
	switch v.kind {
	case 's':
		return rueidis.VerifBlobString(v.s)
	case 'i':
		return rueidis.VerifInt(v.n)
	case 'a':
		if len(v.arr) == 0 { // as the reader builds `*0`: an empty but non-nil slice
			m, _ := rueidis.VerifReadNextMessage(bufio.NewReader(strings.NewReader("*0\r\n")))
			return m
		}
		ms := make([]rueidis.RedisMessage, len(v.arr))
		for i, a := range v.arr {
			ms[i] = rueidis.VerifBlobString(a)
		}
		return rueidis.VerifArray(ms...)
	}
	return rueidis.VerifNil()
}

func pushWord(vs []pv) string {
	ws := make([]string, len(vs))
	for i, v := range vs {
		ws[i] = v.word()
	}
	return strings.Join(ws, "/")
}

func pushMsgs(vs []pv) []rueidis.RedisMessage {
	ms := make([]rueidis.RedisMessage, len(vs))
	for i, v := range vs {
		ms[i] = v.msg()
	}
	return ms
}

func invArgText(ms []rueidis.RedisMessage) string {
	if ms == nil {
		return "nil"
	}
	hs := make([]string, len(ms))
	for i := range ms {
		s, _ := ms[i].ToString()
		hs[i] = hx0(s)
	}
	return "[" + strings.Join(hs, ",") + "]"
}

func sv(s string) pv       { return pv{kind: 's', s: s} }
func av(a ...string) pv    { return pv{kind: 'a', arr: a} }
func iv(n int64) pv        { return pv{kind: 'i', n: n} }
func nv() pv               { return pv{kind: 'n'} }
func (c *Ctx) key() string { return []string{"k", "k2", "", "a:1", "\x00\xff"}[c.Rng.IntN(5)] }

func (c *Ctx) randInvPush() []pv {
	switch c.Rng.IntN(12) {
	case 0:
		return []pv{sv("invalidate"), nv()} // flush
	case 1:
		return []pv{sv("invalidate")} // too short: ignored
	case 2:
		return nil
	case 3:
		return []pv{sv("invalidate"), sv("k")} // not an aggregate: values() is nil
	case 4:
		return []pv{sv("invalidate"), iv(3)}
	case 5:
		return []pv{sv("invalidate"), av()} // empty, non-nil
	case 6:
		return []pv{sv("message"), sv("ch"), sv("m")} // other kind: no invalidation callback
	case 7:
		return []pv{sv("INVALIDATE"), av("k")} // case matters
	case 8:
		return []pv{sv("invalidate"), av(c.key(), c.key(), c.key()), sv("extra")}
	}
	n := 1 + c.Rng.IntN(3)
	ks := make([]string, n)
	for i := range ks {
		ks[i] = c.key()
	}
	return []pv{sv("invalidate"), av(ks...)}
}

func init() {
	suites["invpush"] = suite{
		rule: "a case counts when the push reaches at least one callback",
		run: func(c *Ctx) {
			for ep := 0; ep < c.N; ep++ {
				opt := c.Rng.IntN(4) != 0
				var calls []string
				var cb func([]rueidis.RedisMessage)
				if opt {
					cb = func(ms []rueidis.RedisMessage) { calls = append(calls, "opt:"+invArgText(ms)) }
				}
				p := rueidis.VerifBarePipe(cb)
				hookInv := false
				c.Emit(fmt.Sprintf("reset ver6=0 opt=%s", b01(opt)), "ok", false)
				for i := 0; i < 12; i++ {
					switch c.Rng.IntN(8) {
					case 0:
						inv := c.Rng.IntN(3) != 0
						h := rueidis.PubSubHooks{OnMessage: func(rueidis.PubSubMessage) {}}
						if inv {
							h = rueidis.VerifHooksWithInvalidations(h, func(ms []rueidis.RedisMessage) { calls = append(calls, "hook:"+invArgText(ms)) })
						}
						p.SetPubSubHooks(h)
						hookInv = inv
						c.Emit("hook inv="+b01(inv), "ok", false)
					case 1:
						p.SetPubSubHooks(rueidis.PubSubHooks{})
						hookInv = false
						c.Emit("clear", "ok", false)
					default:
						vs := c.randInvPush()
						calls = nil
						p.HandlePush(pushMsgs(vs))
						ans := "-"
						if len(calls) > 0 {
							ans = strings.Join(calls, " ")
						}
						op := "push"
						if len(vs) > 0 {
							op += " " + pushWord(vs)
						}
						c.Hit(fmt.Sprintf("push:calls=%d", len(calls)))
						c.Emit(op, ans, len(calls) > 0)
						c.Emit("!"+op, ans, false)
						if valid := len(vs) >= 2 && vs[0].kind == 's' && vs[0].s == "invalidate"; valid && opt && hookInv {
							c.Hit("push:both-installed")
							if len(calls) != 2 || strings.TrimPrefix(calls[0], "opt:") != strings.TrimPrefix(calls[1], "hook:") {
								c.Fail("inval:callback-missed-push:both-installed", op, "OnInvalidations and the SetOnInvalidations hook are both installed but the push reached: "+ans)
							}
						}
					}
				}
			}
		},
	}
	suites["invale2e"] = suite{
		rule:   "every episode has per-key, multi-key and flush invalidations interleaved with replies and ends with a disconnect",
		run:    func(c *Ctx) { c.invalE2E() },
		replay: nil,
	}
}

type invLog struct {
	mu  sync.Mutex
	got []string
}

func (l *invLog) add(ms []rueidis.RedisMessage) {
	l.mu.Lock()
	l.got = append(l.got, invArgText(ms))
	l.mu.Unlock()
}
func (l *invLog) snap() []string {
	l.mu.Lock()
	defer l.mu.Unlock()
	return append([]string(nil), l.got...)
}
func (l *invLog) waitLen(n int) {
	for dl := time.Now().Add(3 * time.Second); time.Now().Before(dl); time.Sleep(100 * time.Microsecond) {
		if len(l.snap()) >= n {
			return
		}
	}
}

// frames written by the server on a connection, as tokens for the Lean side
func frameTokens(outs []fakeredis.Out) (toks []string, invs int) {
	for _, o := range outs {
		switch {
		case !o.IsPush:
			toks = append(toks, "r")
		case o.Kind == "invalidate" && o.Flush:
			toks = append(toks, "p:"+pushWord([]pv{sv("invalidate"), nv()}))
			invs++
		case o.Kind == "invalidate":
			toks = append(toks, "p:"+pushWord([]pv{sv("invalidate"), av(o.Args...)}))
			invs++
		default:
			vs := []pv{sv(o.Kind)}
			for _, a := range o.Args {
				vs = append(vs, sv(a))
			}
			toks = append(toks, "p:"+pushWord(vs))
		}
	}
	return toks, invs
}

func orDash(ss []string) string {
	if len(ss) == 0 {
		return "-"
	}
	return strings.Join(ss, " ")
}

// finalNil: a pipe that had client-side caching and ended, for whatever reason, delivered exactly
// one trailing nil after its last key callback
func (c *Ctx) finalNil(key, op string, got []string, invs int) {
	if len(got) != invs+1 || got[len(got)-1] != "nil" {
		c.Fail(key, op, fmt.Sprintf("the pipe ended after %d invalidation pushes but the callback log is %v: want them followed by exactly one nil", invs, got))
	}
}

// lifetimeEpisodes: pipes retired by ClientOption.ConnLifetime (lftmTimer -> pipe.expired, exit error
// errConnExpired) with OnInvalidations, and with a dedicated client's SetOnInvalidations on a freshly
// dialled pool wire (its lifetime timer runs while it is held).
func (c *Ctx) lifetimeEpisodes() {
	ctx := context.Background()
	for ep := 0; ep < 3; ep++ {
		srv := fakeredis.New(fakeredis.Options{})
		mk := func(o rueidis.ClientOption) rueidis.Client {
			o.InitAddress, o.DialCtxFn, o.ForceSingleClient, o.PipelineMultiplex, o.DisableRetry = []string{"fake:1"}, srv.Dial, true, -1, true
			cl, err := rueidis.NewClient(o)
			if err != nil {
				panic(err)
			}
			return cl
		}
		var optLog, hookLog invLog
		life := time.Duration(80+40*ep) * time.Millisecond
		w := mk(rueidis.ClientOption{DisableCache: true})                              // connection 1: the writer
		a := mk(rueidis.ClientOption{OnInvalidations: optLog.add, ConnLifetime: life}) // connection 2
		a.DoCache(ctx, a.B().Get().Key("lk").Cache(), time.Minute)
		a.DoCache(ctx, a.B().Get().Key("lk2").Cache(), time.Minute)
		w.Do(ctx, w.B().Set().Key("lk").Value("1").Build())
		if ep == 1 {
			w.Do(ctx, w.B().Flushall().Build())
		}
		if !srv.WaitFor(3*time.Second, func() bool { ci, _ := srv.Conn(2); return ci.Closed }) {
			c.Fail("inval:conn-lifetime-not-applied", "lifetime", "the connection was not retired after ConnLifetime")
		}
		toks, invs := frameTokens(srv.ConnOuts(2))
		optLog.waitLen(invs + 1)
		time.Sleep(500 * time.Microsecond)
		got := optLog.snap()
		line := "opt=1 " + strings.Join(append(toks, "x:lifetime"), " ")
		c.Emit("e2e "+line, orDash(got), true)
		c.Emit("!e2e "+line, orDash(got), false)
		c.finalNil("inval:missing-final-nil:conn-lifetime", line, got, invs)
		// entries cached on the retired pipe are not served afterwards. Judged only when every connection
		// that ever fetched lk2 is closed by now (under load the lifetime can pass between the two initial
		// DoCache calls, so that lk2 is legitimately cached on a younger, live pipe)
		allClosed := true
		for _, e := range srv.Log() {
			if len(e.Argv) == 2 && e.Argv[0] == "GET" && e.Argv[1] == "lk2" {
				if ci, _ := srv.Conn(e.Conn); !ci.Closed {
					allClosed = false
				}
			}
		}
		if allClosed {
			if res := a.DoCache(ctx, a.B().Get().Key("lk2").Cache(), time.Minute); res.IsCacheHit() {
				c.Fail("inval:cache-served-after-teardown", line, "DoCache answered from the cache of a pipe that was retired")
			}
		} else {
			c.Hit("cache-after-teardown:not-judged")
		}
		c.Hit("exit:conn-lifetime")

		// dedicated SetOnInvalidations on a pool wire of a client with ConnLifetime: the pool stops the
		// lifetime timer while a wire is acquired (pool.Acquire -> StopTimer), so a held wire is not
		// retired; release clears the hook, the idle wire is then retired in the pool and the cleared
		// hook must not be called any more
		d := mk(rueidis.ClientOption{DisableCache: true, ConnLifetime: life})
		dc, release := d.Dedicate()
		dc.Do(ctx, dc.B().ClientTracking().On().Build())
		conn := srv.NumConns()
		start := len(srv.ConnOuts(conn))
		errCh := dc.SetOnInvalidations(hookLog.add)
		dc.Do(ctx, dc.B().Get().Key("hk").Build())
		w.Do(ctx, w.B().Set().Key("hk").Value("1").Build())
		dc.Do(ctx, dc.B().Ping().Build())
		outs := srv.ConnOuts(conn)
		pre, _ := frameTokens(outs[:start])
		post, invs2 := frameTokens(outs[start:])
		hookLog.waitLen(invs2)
		release()
		if !srv.WaitFor(3*time.Second, func() bool { ci, _ := srv.Conn(conn); return ci.Closed }) {
			c.Fail("inval:conn-lifetime-not-applied", "lifetime dedicated", "the released wire was not retired after ConnLifetime in the pool")
		}
		time.Sleep(500 * time.Microsecond)
		hline := strings.Join(append(append(append(pre, "hook1"), post...), "clear", "x:lifetime"), " ")
		c.Emit("e2ehook "+hline, orDash(hookLog.snap()), true)
		select {
		case <-errCh:
		case <-time.After(time.Second):
			c.Fail("inval:hook-channel-not-closed", "e2ehook lifetime", "error channel of SetOnInvalidations not closed after release")
		}
		release()
		d.Close()
		a.Close()
		w.Close()
		srv.Close()
	}
}

// bothEpisodes: a dedicated wire of a client with ClientOption.OnInvalidations (pool wires inherit the
// option) on which SetOnInvalidations is installed, removed and installed again between pushes; both
// callbacks must see the server's pushes of that connection (the hook while installed), then one nil.
func (c *Ctx) bothEpisodes() {
	ctx := context.Background()
	for ep := 0; ep < 3; ep++ {
		srv := fakeredis.New(fakeredis.Options{InvalidateAfterReply: ep == 1})
		mk := func(o rueidis.ClientOption) rueidis.Client {
			o.InitAddress, o.DialCtxFn, o.ForceSingleClient, o.PipelineMultiplex, o.DisableRetry = []string{"fake:1"}, srv.Dial, true, -1, true
			cl, err := rueidis.NewClient(o)
			if err != nil {
				panic(err)
			}
			return cl
		}
		var optLog, hookLog invLog
		w := mk(rueidis.ClientOption{DisableCache: true})          // connection 1: the writer
		a := mk(rueidis.ClientOption{OnInvalidations: optLog.add}) // connection 2 (unused pipeline)
		dc, release := a.Dedicate()
		dc.Do(ctx, dc.B().ClientTracking().On().Build()) // connection 3: plain tracking instead of OPTIN
		conn := srv.NumConns()
		var toks []string
		var want []string
		mark := 0
		flushToks := func(installed bool) {
			outs := srv.ConnOuts(conn)
			t, _ := frameTokens(outs[mark:])
			for _, o := range outs[mark:] {
				if o.IsPush && o.Kind == "invalidate" && installed {
					if o.Flush {
						want = append(want, "nil")
					} else {
						hs := make([]string, len(o.Args))
						for i, k := range o.Args {
							hs[i] = hx0(k)
						}
						want = append(want, "["+strings.Join(hs, ",")+"]")
					}
				}
			}
			toks = append(toks, t...)
			mark = len(outs)
		}
		flushToks(false)
		dc.SetOnInvalidations(hookLog.add)
		toks = append(toks, "hook1")
		dc.Do(ctx, dc.B().Get().Key("b1").Build())
		dc.Do(ctx, dc.B().Mget().Key("b2", "b3").Build())
		w.Do(ctx, w.B().Set().Key("b1").Value("1").Build())
		if ep != 2 {
			// a flush on this connection only (FLUSHALL would also notify the client's other tracking
			// connection, whose pushes go to the same client-wide OnInvalidations callback)
			srv.Inject(conn, fakeredis.Push{"invalidate", nil})
		}
		dc.Do(ctx, dc.B().Ping().Build())
		flushToks(true)
		dc.SetOnInvalidations(nil) // removed: only the option-level callback sees the next push
		toks = append(toks, "clear")
		dc.Do(ctx, dc.B().Get().Key("b4").Build())
		w.Do(ctx, w.B().Set().Key("b4").Value("1").Build())
		dc.Do(ctx, dc.B().Ping().Build())
		flushToks(false)
		dc.SetOnInvalidations(hookLog.add)
		toks = append(toks, "hook1")
		dc.Do(ctx, dc.B().Get().Key("b5").Build())
		w.Do(ctx, w.B().Del().Key("b5", "b2").Build())
		srv.Inject(conn, fakeredis.Push{"invalidate", []any{"m1", "m2"}})
		dc.Do(ctx, dc.B().Ping().Build())
		flushToks(true)
		srv.Kill(conn)
		toks = append(toks, "x")
		want = append(want, "nil")
		_, invs := frameTokens(srv.ConnOuts(conn))
		optLog.waitLen(invs + 1)
		hookLog.waitLen(len(want))
		time.Sleep(500 * time.Microsecond)
		ans := "opt=" + orDash(optLog.snap()) + " hook=" + orDash(hookLog.snap())
		line := strings.Join(toks, " ")
		c.Emit("e2eboth "+line, ans, true)
		c.Emit("!e2eboth "+line, ans, false)
		if got := strings.Join(hookLog.snap(), " "); got != strings.Join(want, " ") {
			c.Fail("inval:callback-missed-push:both-installed", "e2eboth "+line, "the dedicated callback saw ["+got+"], the server pushed ["+strings.Join(want, " ")+"] while it was installed (OnInvalidations is configured on the same wire)")
		}
		c.Hit("both-installed-e2e")
		release()
		a.Close()
		w.Close()
		srv.Close()
	}
}

// redis6Episodes: a Redis 6 server sends invalidation pushes in the MIDDLE of a multi-element reply
// (redis/redis#8935): the array header counts the pushes, the displaced elements follow the array.
// Replies with 0, 1, 2 and 3 embedded pushes; every embedded push must reach the callback, in order,
// and the reply must be repaired.
type redis6Result struct {
	Line string
	Got  []string
	Vals []string
	Err  string
}

// redis6Episodes runs every episode in a child process: a reader that loses its place in the reply
// stream ends in the library's protocol-bug panic, which would take the whole harness down.
func (c *Ctx) redis6Episodes() {
	for nPush := 0; nPush <= 3; nPush++ {
		op := fmt.Sprintf("redis6 embedded-pushes=%d", nPush)
		out, err := exec.Command(os.Args[0], "-child-redis6", fmt.Sprint(nPush)).Output()
		var r redis6Result
		if err != nil || json.Unmarshal(out, &r) != nil {
			crash := ""
			if ee, ok := err.(*exec.ExitError); ok {
				crash = firstLine(string(ee.Stderr))
			}
			c.Emit("!"+op, "crashed", true)
			c.Fail("inval:redis6-embedded-push-missed", op, fmt.Sprintf("a reply with %d embedded invalidation pushes crashed the client: %s", nPush, crash))
			continue
		}
		if r.Err != "" || strings.Join(r.Vals, ",") != "ve1,ve2,ve3" {
			c.Fail("inval:redis6-embedded-push-corrupted-reply", op, fmt.Sprintf("MGET answered %v (%s), want [ve1 ve2 ve3]", r.Vals, r.Err))
		}
		c.Emit("e2e6 "+r.Line, orDash(r.Got), nPush > 0)
		c.Emit("!e2e6 "+r.Line, orDash(r.Got), false)
		if len(r.Got) != nPush+1 {
			c.Fail("inval:redis6-embedded-push-missed", "e2e6 "+r.Line, fmt.Sprintf("the reply carried %d embedded invalidation pushes, the callback log is %v (want every push, then one nil)", nPush, r.Got))
		}
		c.Hit(fmt.Sprintf("redis6-embedded:%d", nPush))
	}
}

func firstLine(s string) string {
	if i := strings.IndexByte(s, '\n'); i >= 0 {
		return s[:i]
	}
	return s
}

func init() {
	childHooks = append(childHooks, func(args []string) bool {
		if args[0] != "-child-redis6" || len(args) < 2 {
			return false
		}
		n, _ := strconv.Atoi(args[1])
		out, _ := json.Marshal(redis6Run(n))
		os.Stdout.Write(out)
		return true
	})
}

func redis6Run(nPush int) (res redis6Result) {
	bg := context.Background()
	{
		srv := fakeredis.New(fakeredis.Options{Version: "6.0.9"})
		var optLog invLog
		a, err := rueidis.NewClient(rueidis.ClientOption{InitAddress: []string{"fake:1"}, DialCtxFn: srv.Dial, ForceSingleClient: true,
			PipelineMultiplex: -1, DisableRetry: true, OnInvalidations: optLog.add})
		if err != nil {
			panic(err)
		}
		ctx, cancel := context.WithTimeout(bg, 2*time.Second) // a reader that lost its place must not hang the suite
		// MGET e1 e2 e3 answered as Redis 6 does when it finds tracked keys expired while building the reply
		keys := []string{"e1", "e2", "e3"}
		var frame []byte
		frame = append(frame, "*3\r\n"...)
		var nested []string
		emitted, displaced := 0, 0
		for i, k := range keys {
			if i < nPush {
				frame = append(frame, fakeredis.Encode(3, fakeredis.Push{"invalidate", []any{k}})...)
				nested = append(nested, pushWord([]pv{sv("invalidate"), av(k)}))
			}
		}
		for i := range keys { // the array holds 3 slots: pushes first took nPush of them
			if emitted+nPush < 3 {
				frame = append(frame, fakeredis.Encode(3, "v"+keys[i])...)
				emitted++
			} else {
				displaced++
			}
		}
		for i := emitted; i < 3; i++ { // the displaced elements follow the array
			frame = append(frame, fakeredis.Encode(3, "v"+keys[i])...)
		}
		srv.AddRule(fakeredis.Rule{Match: fakeredis.Cmd("MGET", "e1"), Reply: frame, Times: 1})
		a.Do(ctx, a.B().Ping().Build())
		vals, err := a.Do(ctx, a.B().Mget().Key(keys...).Build()).AsStrSlice()
		res.Vals = vals
		if err != nil {
			res.Err = err.Error()
		}
		a.Do(ctx, a.B().Ping().Build())
		srv.Kill(1)
		var toks []string
		for _, o := range srv.ConnOuts(1) {
			switch {
			case o.IsPush:
			case o.Reply == "*3" && nPush > 0:
				toks = append(toks, "r:"+strings.Join(nested, ";"))
			default:
				toks = append(toks, "r")
			}
		}
		optLog.waitLen(nPush + 1)
		time.Sleep(300 * time.Microsecond)
		got := optLog.snap()
		line := strings.Join(append(toks, "x"), " ")
		res.Line, res.Got = line, got
		cancel()
		go func() { a.Close(); srv.Close() }()
	}
	return res
}

func (c *Ctx) invalE2E() {
	c.redis6Episodes()
	c.lifetimeEpisodes()
	c.bothEpisodes()
	ctx := context.Background()
	for ep := 0; ep < c.N; ep++ {
		srv := fakeredis.New(fakeredis.Options{InvalidateAfterReply: c.Rng.IntN(2) == 0})
		var optLog invLog
		mk := func(o rueidis.ClientOption) rueidis.Client {
			o.InitAddress, o.DialCtxFn, o.ForceSingleClient, o.PipelineMultiplex, o.DisableRetry = []string{"fake:1"}, srv.Dial, true, -1, true
			cl, err := rueidis.NewClient(o)
			if err != nil {
				panic(err)
			}
			return cl
		}
		a := mk(rueidis.ClientOption{OnInvalidations: optLog.add}) // connection 1
		b := mk(rueidis.ClientOption{DisableCache: true})          // connection 2: the writer
		keys := []string{"k0", "k1", "k2", "k3"}
		steps := 8 + c.Rng.IntN(12)
		for i := 0; i < steps; i++ {
			k := keys[c.Rng.IntN(len(keys))]
			switch c.Rng.IntN(8) {
			case 0, 1:
				a.DoCache(ctx, a.B().Get().Key(k).Cache(), time.Minute)
			case 2:
				a.Do(ctx, a.B().Get().Key(k).Build()) // untracked reply (no CACHING YES)
			case 3, 4:
				b.Do(ctx, b.B().Set().Key(k).Value(fmt.Sprint(i)).Build()) // per-key push to connection 1 if tracked
			case 5:
				a.Do(ctx, a.B().Set().Key(k).Value("own").Build()) // the tracked writer invalidates itself
			case 6:
				srv.Inject(1, fakeredis.Push{"invalidate", []any{"m1", k, "m3"}}) // multi-key push
			case 7:
				b.Do(ctx, b.B().Flushall().Build()) // flush: null
				c.Hit("flush")
			}
		}
		a.Do(ctx, a.B().Ping().Build())
		// the pipe ends because the server kills the connection, or because the client is closed
		exit := "x"
		if c.Rng.IntN(2) == 0 {
			srv.Kill(1)
		} else {
			exit = "x:close"
			a.Close()
			c.Hit("exit:client-close")
		}
		srv.WaitFor(3*time.Second, func() bool { ci, _ := srv.Conn(1); return ci.Closed })
		toks, invs := frameTokens(srv.ConnOuts(1))
		optLog.waitLen(invs + 1)
		time.Sleep(200 * time.Microsecond)
		got := optLog.snap()
		line := "opt=1 " + strings.Join(append(toks, exit), " ")
		c.Emit("e2e "+line, orDash(got), invs > 0)
		c.Emit("!e2e "+line, orDash(got), false)
		c.finalNil("inval:missing-final-nil:"+map[string]string{"x": "server-kill", "x:close": "client-close"}[exit], line, got, invs)
		a.Close()

		// dedicated session with SetOnInvalidations on connection 3, then release: tracking must be off before reuse
		var hookLog invLog
		dc, release := b.Dedicate()
		before := srv.NumConns()
		dc.Do(ctx, dc.B().ClientTracking().On().Build())
		conn := srv.NumConns()
		_ = before
		start := len(srv.ConnOuts(conn))
		errCh := dc.SetOnInvalidations(hookLog.add)
		dc.Do(ctx, dc.B().Get().Key("hk").Build())
		dc.Do(ctx, dc.B().Get().Key("hk2").Build())
		b.Do(ctx, b.B().Set().Key("hk").Value("1").Build())
		b.Do(ctx, b.B().Flushall().Build())
		dc.Do(ctx, dc.B().Ping().Build()) // barrier: everything queued before is on the wire
		kill := c.Rng.IntN(2) == 0
		outs := srv.ConnOuts(conn)
		pre, _ := frameTokens(outs[:start])
		post, invs2 := frameTokens(outs[start:])
		want := invs2
		if kill {
			srv.Kill(conn)
			want++
		}
		hookLog.waitLen(want)
		release()
		tail := "clear"
		if kill {
			tail = "x"
			c.Hit("dedicated-kill")
		}
		c.Emit("e2ehook "+strings.Join(append(append(append(pre, "hook1"), post...), tail), " "), orDash(hookLog.snap()), true)
		select {
		case <-errCh:
		case <-time.After(time.Second):
			c.Fail("inval:hook-channel-not-closed", "e2ehook", "error channel of SetOnInvalidations not closed after release/disconnect")
		}
		if !kill {
			// the cleanup commands of mux.Store on that connection, in order, before anything else uses it
			var after []string
			seen := false
			for _, e := range srv.ConnLog(conn) {
				if seen || (e.Argv[0] == "UNSUBSCRIBE") {
					seen = true
					if e.Argv[0] != "PING" { // the pipe follows every unsubscribe command with a PING (pipe.go, PR 691)
						after = append(after, strings.Join(e.Argv, "_"))
					}
				}
			}
			want := "UNSUBSCRIBE PUNSUBSCRIBE SUNSUBSCRIBE DISCARD CLIENT_TRACKING_OFF"
			if got := strings.Join(after, " "); got != want {
				c.Fail("inval:tracking-not-off-before-reuse", "e2ehook", "cleanup on release was ["+got+"], want ["+want+"]")
			}
			if ci, _ := srv.Conn(conn); ci.Tracking {
				c.Fail("inval:tracking-not-off-before-reuse", "e2ehook", "server still tracks the released connection")
			}
			c.Hit("dedicated-release")
		}
		b.Close()
		srv.Close()
	}
}
