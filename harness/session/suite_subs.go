package main

// Suites for C26 (Pub/Sub):
//   subs   — differential: the real `subs` tables and the real handlePush (bare pipe, real
//            SetPubSubHooks) against Rv.Subs, on random op sequences incl. malformed pushes;
//            plus the SetPubSubHooks channel life cycle.
//   pubsub — end to end over fakeredis: overlapping Receive calls (same channel twice, pattern
//            overlapping channel, shard channels), interleaved regular commands whose replies must
//            stay correct, unsubscribe, context cancellation, Close and disconnect.

import (
	"context"
	"errors"
	"fmt"
	"sort"
	"strings"
	"sync"
	"time"

	"github.com/redis/rueidis"
	"github.com/redis/rueidis/zzverif/fakeredis"
)

type subH struct {
	id     int
	chans  []string
	ch     chan rueidis.PubSubMessage
	cancel func()
	closes int
	msgs   []string // since the last op
	notes  []string // since the last op
	// specification side (judged by the harness itself, independent of the Lean model)
	live      bool // subscribed and not yet ended by an unsubscribe of one of ITS channels / its cancel / Close
	gotN      int  // messages observed for the last op
	closedNow bool // channel found closed after the last op
	expN      int  // messages the last op must deliver
	expClose  bool // the last op must end it
}

type tableH struct {
	cnt  int
	dead bool
	subs []*subH
}

func msgText(m rueidis.PubSubMessage) string {
	return hx0(m.Pattern) + "," + hx0(m.Channel) + "," + hx0(m.Message)
}
func noteText(s rueidis.PubSubSubscription) string {
	return hx0(s.Kind) + "," + hx0(s.Channel) + "," + fmt.Sprint(s.Count)
}

// drain collects what arrived in every subscription channel since the last op.
func (t *tableH) drain() string {
	var parts []string
	for _, s := range t.subs {
		s.closedNow, s.gotN = false, 0
		for s.ch != nil && s.closes == 0 {
			select {
			case m, ok := <-s.ch:
				if !ok {
					s.closes, s.closedNow = 1, true
				} else {
					s.msgs = append(s.msgs, msgText(m))
					continue
				}
			default:
			}
			break
		}
		s.gotN = len(s.msgs)
		if len(s.msgs) > 0 || len(s.notes) > 0 || s.closedNow {
			parts = append(parts, fmt.Sprintf("%d:%s:%d:%s", s.id, strings.Join(s.msgs, "+"), s.closes, strings.Join(s.notes, "+")))
		}
		s.msgs, s.notes = nil, nil
	}
	return "{" + strings.Join(parts, " ") + "}"
}

// expectPublish / expectEnd state what the property demands of the next op on this table.
func (t *tableH) expectPublish(ch string) {
	for _, s := range t.subs {
		if s.live && contains(s.chans, ch) {
			s.expN = 1
		}
	}
}
func (t *tableH) expectEnd(pred func(*subH) bool) {
	for _, s := range t.subs {
		if s.live && pred(s) {
			s.expClose = true
		}
	}
}

// judge compares what the op did with what the property demands, subscription by subscription.
func (c *Ctx) judge(tabs *[3]tableH, op string) {
	for k := range tabs {
		for _, s := range tabs[k].subs {
			what := fmt.Sprintf("table %d subscription %d %q", k, s.id, s.chans)
			switch {
			case s.gotN != s.expN:
				c.Fail("pubsub:message-lost-or-misdelivered", op, fmt.Sprintf("%s received %d message(s), the property demands %d", what, s.gotN, s.expN))
			case s.closedNow && !s.expClose:
				c.Fail("pubsub:receive-ended-without-unsubscribe", op, what+" was ended by an operation on another subscription / channel")
			case s.expClose && !s.closedNow && s.live:
				c.Fail("pubsub:receive-not-ended-after-unsubscribe", op, what+" is still open although it was unsubscribed / cancelled / closed")
			}
			if s.expClose || s.closedNow {
				s.live = false
			}
			s.expN, s.expClose = 0, false
		}
	}
}

var psKinds = [3][3]string{{"message", "subscribe", "unsubscribe"}, {"pmessage", "psubscribe", "punsubscribe"}, {"smessage", "ssubscribe", "sunsubscribe"}}

func (c *Ctx) chanName() string { return []string{"a", "b", "c*", "", "\xff"}[c.Rng.IntN(5)] }

func (c *Ctx) subsDifferential() {
	for ep := 0; ep < c.N; ep++ {
		p := rueidis.VerifBarePipe(nil)
		var tabs [3]tableH
		var hookCalls []string
		c.Emit("reset", "ok", false)
		all := func() string {
			return "T0" + tabs[0].drain() + " T1" + tabs[1].drain() + " T2" + tabs[2].drain()
		}
		guard := func(f func()) (panicked bool) {
			defer func() {
				if recover() != nil {
					panicked = true
				}
			}()
			f()
			return false
		}
		finish := func(op string, pk bool, nontrivial func(string) bool) {
			ans := all()
			if pk {
				ans = "panic"
				c.Fail("pubsub:panic", op, "the subscription table panicked")
			}
			c.Emit(op, ans, nontrivial(ans))
			c.judge(&tabs, op)
		}
		hasColon := func(a string) bool { return strings.Contains(a, ":") }
		always := func(string) bool { return true }
		doSub := func(k int, chans []string, hasFn bool) {
			t := &tabs[k]
			t.cnt++
			s := &subH{id: t.cnt, chans: chans}
			var fn func(rueidis.PubSubSubscription)
			if hasFn {
				fn = func(n rueidis.PubSubSubscription) { s.notes = append(s.notes, noteText(n)) }
			}
			s.ch, s.cancel = p.Subs(k).Subscribe(chans, fn)
			hs := make([]string, len(chans))
			for j, ch := range chans {
				hs[j] = dash(hx0(ch))
			}
			ans := "dead"
			if s.ch != nil {
				s.live = true
				t.subs = append(t.subs, s)
				ans = fmt.Sprintf("id=%d", s.id)
			} else if !t.dead {
				c.Fail("pubsub:subscribe-refused", "sub", "Subscribe returned no channel on a live table")
			}
			c.Emit(fmt.Sprintf("sub %d %s %s", k, b01(hasFn), strings.Join(hs, ",")), ans, false)
		}
		doPub := func(k int, ch string, i int) {
			m := rueidis.PubSubMessage{Channel: ch, Message: fmt.Sprint("m", i)}
			tabs[k].expectPublish(ch)
			pk := guard(func() { p.Subs(k).Publish(ch, m) })
			finish(fmt.Sprintf("pub %d %s %s", k, dash(hx0(ch)), msgText(m)), pk, hasColon)
		}
		doNote := func(k int, un bool, ch string, count int64) {
			n := rueidis.PubSubSubscription{Kind: psKinds[k][1], Channel: ch, Count: count}
			verb, f := "confirm", func() { p.Subs(k).Confirm(n) }
			if un {
				n.Kind = psKinds[k][2]
				verb, f = "unsub", func() { p.Subs(k).Unsubscribe(n) }
				tabs[k].expectEnd(func(s *subH) bool { return contains(s.chans, ch) })
			}
			pk := guard(f)
			finish(fmt.Sprintf("%s %d %s %s %d", verb, k, hx0(n.Kind), dash(hx0(n.Channel)), n.Count), pk, hasColon)
		}
		doCancel := func(k int, s *subH) {
			if !tabs[k].dead {
				tabs[k].expectEnd(func(x *subH) bool { return x == s })
			}
			pk := guard(s.cancel)
			finish(fmt.Sprintf("cancel %d %d", k, s.id), pk, always)
		}
		// directed prefix: an OLDER subscription ends while a newer one runs, then a NEW one starts
		// (optionally sharing a channel with the survivor); then the survivor's channel is unsubscribed
		directed := ep%3 == 0
		if directed {
			k := c.Rng.IntN(3)
			doSub(k, []string{"a"}, c.Rng.IntN(2) == 0)
			doSub(k, []string{"b"}, c.Rng.IntN(2) == 0)
			if c.Rng.IntN(2) == 0 {
				doCancel(k, tabs[k].subs[0])
			} else {
				doNote(k, true, "a", 1)
			}
			third := []string{"c"}
			if c.Rng.IntN(2) == 0 {
				third = []string{"c", "b"}
			}
			doSub(k, third, c.Rng.IntN(2) == 0)
			doPub(k, "b", 100)
			doPub(k, "c", 101)
			switch c.Rng.IntN(3) {
			case 0:
				doNote(k, true, "b", 1)
			case 1:
				doCancel(k, tabs[k].subs[1])
			default:
				doCancel(k, tabs[k].subs[2])
			}
			doPub(k, "c", 102)
			doPub(k, "b", 103)
			c.Hit("directed:older-ends-then-new")
		}
		for i := 0; i < 25; i++ {
			k := c.Rng.IntN(3)
			t := &tabs[k]
			switch r := c.Rng.IntN(20); {
			case r < 5:
				n := 1 + c.Rng.IntN(2)
				chans := make([]string, n)
				for j := range chans {
					chans[j] = c.chanName()
				}
				doSub(k, chans, c.Rng.IntN(2) == 0)
			case r < 8:
				doPub(k, c.chanName(), i)
			case r < 10:
				doNote(k, c.Rng.IntN(2) == 0, c.chanName(), int64(c.Rng.IntN(3)))
			case r < 12:
				if len(t.subs) == 0 {
					continue
				}
				doCancel(k, t.subs[c.Rng.IntN(len(t.subs))])
			case r < 13:
				t.expectEnd(func(*subH) bool { return true })
				t.dead = true
				pk := guard(func() { p.Subs(k).Close() })
				finish(fmt.Sprintf("close %d", k), pk, always)
			case r < 14:
				om, os := c.Rng.IntN(2) == 0, c.Rng.IntN(2) == 0
				h := rueidis.PubSubHooks{}
				if om {
					h.OnMessage = func(m rueidis.PubSubMessage) { hookCalls = append(hookCalls, "m"+msgText(m)) }
				}
				if os {
					h.OnSubscription = func(n rueidis.PubSubSubscription) { hookCalls = append(hookCalls, "n"+noteText(n)) }
				}
				p.SetPubSubHooks(h)
				c.Emit(fmt.Sprintf("hooks %s %s", b01(om), b01(os)), "ok", false)
			default:
				vs := c.randPubSubPush()
				// what the property demands of this push (string elements only count as names)
				str := func(i int) string {
					if i < len(vs) && vs[i].kind == 's' {
						return vs[i].s
					}
					return ""
				}
				if len(vs) >= 2 && vs[0].kind == 's' {
					for tk := 0; tk < 3; tk++ {
						need := 3
						if tk == 1 {
							need = 4
						}
						switch vs[0].s {
						case psKinds[tk][0]:
							if len(vs) >= need {
								tabs[tk].expectPublish(str(1))
							}
						case psKinds[tk][2]:
							if len(vs) >= 3 {
								ch := str(1)
								tabs[tk].expectEnd(func(s *subH) bool { return contains(s.chans, ch) })
							}
						}
					}
				}
				hookCalls = nil
				var reply, unsub bool
				pk := guard(func() { reply, unsub = p.HandlePush(pushMsgs(vs)) })
				hk := "-"
				if len(hookCalls) > 0 {
					hk = strings.Join(hookCalls, "+")
				}
				op := "push"
				if len(vs) > 0 {
					op += " " + pushWord(vs)
				}
				c.Hit("push:" + vs0(vs))
				prefix := fmt.Sprintf("r=%s u=%s hooks=%s ", b01(reply), b01(unsub), hk)
				ans := prefix + all()
				if pk {
					ans = "panic"
					c.Fail("pubsub:panic", op, "handlePush panicked")
				}
				c.Emit(op, ans, strings.Contains(ans, ":") || hk != "-")
				c.judge(&tabs, op)
			}
		}
	}
	// the channel handed out by SetPubSubHooks: closed exactly once, at most one error
	for ep := 0; ep < c.N/4+1; ep++ {
		p := rueidis.VerifBarePipe(nil)
		c.Emit("hreset", "ok", false)
		var chs []<-chan error
		seenErrs := map[int][]string{} // errors read so far, per channel (a read consumes them)
		state := func() string {
			parts := make([]string, len(chs))
			for i, ch := range chs {
				errs := seenErrs[i]
				closes := 0
				for done := false; !done; {
					select {
					case e, ok := <-ch:
						if !ok {
							closes, done = 1, true
						} else {
							errs = append(errs, e.Error())
						}
					default:
						done = true
					}
				}
				seenErrs[i] = errs
				parts[i] = fmt.Sprintf("[%s|%d|0]", strings.Join(errs, ","), closes)
			}
			return strings.Join(parts, " ")
		}
		dead := false
		verdict := "ok"
		safely := func(op string, f func()) {
			defer func() {
				if r := recover(); r != nil {
					verdict = fmt.Sprint("panic:", r)
					c.Fail("pubsub:hook-channel-closed-twice", op, fmt.Sprintf("SetPubSubHooks panicked (%v): a channel it handed out was closed or sent to after its close", r))
				}
			}()
			f()
		}
		errName := func(s string) string { return strings.ReplaceAll(s, rueidis.ErrClosing.Error(), "closing") }
		for i := 0; i < 7 && verdict == "ok"; i++ {
			switch r := c.Rng.IntN(8); {
			case r == 0 && !dead:
				p.Close() // the connection fails: p.Error() != nil from now on
				dead = true
				c.Hit("hooks:pipe-failed")
				continue
			case r < 6:
				op := "hswap"
				if dead {
					op = "hswapdead closing"
				}
				safely(op, func() {
					chs = append(chs, p.SetPubSubHooks(rueidis.PubSubHooks{OnMessage: func(rueidis.PubSubMessage) {}}))
				})
				if verdict == "ok" {
					c.Emit(op, errName(state()), true)
				}
			default:
				safely("hempty -", func() { p.SetPubSubHooks(rueidis.PubSubHooks{}) })
				if verdict == "ok" {
					c.Emit("hempty -", errName(state()), true)
				}
			}
		}
		c.Emit("!hooks-invariant", verdict, false)
	}
}

func vs0(vs []pv) string {
	if len(vs) == 0 {
		return "empty"
	}
	return vs[0].s
}

func (c *Ctx) randPubSubPush() []pv {
	k := c.Rng.IntN(3)
	ch := c.chanName()
	switch c.Rng.IntN(10) {
	case 0, 1, 2:
		if k == 1 {
			return []pv{sv("pmessage"), sv(ch), sv("a"), sv("payload")}
		}
		return []pv{sv(psKinds[k][0]), sv(ch), sv("payload")}
	case 3, 4:
		return []pv{sv(psKinds[k][1]), sv(ch), iv(int64(c.Rng.IntN(3)))}
	case 5, 6:
		return []pv{sv(psKinds[k][2]), sv(ch), iv(int64(c.Rng.IntN(3)))}
	case 7:
		return []pv{sv(psKinds[k][2]), nv(), iv(0)} // wildcard unsubscribe with nothing subscribed
	case 8:
		// too short for its kind
		return [][]pv{{sv("pmessage"), sv(ch), sv("x")}, {sv("message"), sv(ch)}, {sv("unsubscribe"), sv(ch)}, {sv("subscribe")}, nil}[c.Rng.IntN(5)]
	}
	return [][]pv{{sv("pong"), sv("")}, {sv("MESSAGE"), sv(ch), sv("x")}, {sv("message"), av("a"), sv("x")}, {sv("subscribe"), sv(ch), sv("notint")}}[c.Rng.IntN(4)]
}

// ---------------------------------------------------------------- end to end

type recvH struct {
	k     int
	chans []string
	mu    sync.Mutex
	got   []string
	conf  int
	err   error
	done  chan struct{}
	stop  context.CancelFunc
}

func globPrefix(p, s string) bool { return fakeredis.Glob(p, s) }

// startRecv starts a Receive on client a and waits until the server confirmed all its channels.
func startRecv(a rueidis.Client, kind int, chans []string) *recvH {
	r := &recvH{k: kind, chans: chans, done: make(chan struct{})}
	ctx, cancel := context.WithCancel(context.Background())
	r.stop = cancel
	ctx = rueidis.WithOnSubscriptionHook(ctx, func(s rueidis.PubSubSubscription) {
		r.mu.Lock()
		if strings.HasSuffix(s.Kind, "subscribe") && !strings.Contains(s.Kind, "un") {
			r.conf++
		}
		r.mu.Unlock()
	})
	var cmd rueidis.Completed
	switch kind {
	case 0:
		cmd = a.B().Subscribe().Channel(chans...).Build()
	case 1:
		cmd = a.B().Psubscribe().Pattern(chans...).Build()
	default:
		cmd = a.B().Ssubscribe().Channel(chans...).Build()
	}
	go func() {
		r.err = a.Receive(ctx, cmd, func(m rueidis.PubSubMessage) {
			r.mu.Lock()
			r.got = append(r.got, m.Message)
			r.mu.Unlock()
		})
		close(r.done)
	}()
	for dl := time.Now().Add(3 * time.Second); time.Now().Before(dl); time.Sleep(50 * time.Microsecond) {
		r.mu.Lock()
		ok := r.conf >= len(chans)
		r.mu.Unlock()
		if ok {
			break
		}
	}
	return r
}

func (r *recvH) payloads() string {
	r.mu.Lock()
	defer r.mu.Unlock()
	return strings.Join(r.got, ",")
}

func (r *recvH) returned(wait time.Duration) bool {
	select {
	case <-r.done:
		return true
	case <-time.After(wait):
		return false
	}
}

// pubsubChurn: on one connection an OLDER Receive ends (context or unsubscribe) while a newer one of
// the same kind is running, then a NEW Receive starts (optionally sharing a channel with the
// survivor); then the survivor's own channel is unsubscribed. Each Receive must get exactly the
// messages of its own channels published while it is subscribed, return iff ITS channels were
// unsubscribed, and never be affected by another Receive ending.
func (c *Ctx) pubsubChurn(kind int, endByCtx, share bool) {
	bg := context.Background()
	srv := fakeredis.New(fakeredis.Options{})
	defer srv.Close()
	mk := func(o rueidis.ClientOption) rueidis.Client {
		o.InitAddress, o.DialCtxFn, o.ForceSingleClient, o.PipelineMultiplex, o.DisableRetry = []string{"fake:1"}, srv.Dial, true, -1, true
		cl, err := rueidis.NewClient(o)
		if err != nil {
			panic(err)
		}
		return cl
	}
	a, b := mk(rueidis.ClientOption{}), mk(rueidis.ClientOption{DisableCache: true})
	defer b.Close()
	defer a.Close()
	// names: for patterns the subscription name is "x1*" and messages go to "x1a"
	name := func(x string) string {
		if kind == 1 {
			return x + "*"
		}
		return x
	}
	target := func(x string) string {
		if kind == 1 {
			return x + "a"
		}
		return x
	}
	pub := func(x, payload string) {
		if kind == 2 {
			b.Do(bg, b.B().Spublish().Channel(target(x)).Message(payload).Build())
		} else {
			b.Do(bg, b.B().Publish().Channel(target(x)).Message(payload).Build())
		}
	}
	unsub := func(x string) {
		switch kind {
		case 0:
			a.Do(bg, a.B().Unsubscribe().Channel(name(x)).Build())
		case 1:
			a.Do(bg, a.B().Punsubscribe().Pattern(name(x)).Build())
		default:
			a.Do(bg, a.B().Sunsubscribe().Channel(name(x)).Build())
		}
	}
	barrier := func() { a.Do(bg, a.B().Ping().Build()); time.Sleep(300 * time.Microsecond) }
	op := fmt.Sprintf("churn kind=%d endByCtx=%v share=%v", kind, endByCtx, share)
	ra := startRecv(a, kind, []string{name("x1")})
	rb := startRecv(a, kind, []string{name("x2")})
	pub("x1", "p1")
	pub("x2", "p2")
	barrier()
	if endByCtx {
		ra.stop()
	} else {
		unsub("x1")
	}
	if !ra.returned(2 * time.Second) {
		c.Fail("pubsub:receive-not-ended-after-unsubscribe", op, "the older Receive did not return after its context ended / its channel was unsubscribed")
	}
	cChans := []string{name("x3")}
	if share {
		cChans = []string{name("x3"), name("x2")}
	}
	rc := startRecv(a, kind, cChans)
	pub("x2", "p3")
	pub("x3", "p4")
	barrier()
	unsub("x2") // ends the survivor B (and C only if it shares x2)
	if !rb.returned(2 * time.Second) {
		c.Fail("pubsub:receive-not-ended-after-unsubscribe", op, "Receive B did not return after ITS channel was unsubscribed (an older Receive had ended and a new one had started meanwhile)")
	} else if rb.err != nil {
		c.Fail("pubsub:receive-not-ended-after-unsubscribe", op, fmt.Sprintf("Receive B returned %v instead of nil after its channel was unsubscribed", rb.err))
	}
	barrier()
	if !share && rc.returned(20*time.Millisecond) {
		c.Fail("pubsub:receive-ended-without-unsubscribe", op, fmt.Sprintf("the new Receive C returned %v although none of its channels was unsubscribed (B's channel was)", rc.err))
	}
	if share && !rc.returned(2*time.Second) {
		c.Fail("pubsub:receive-not-ended-after-unsubscribe", op, "Receive C shares the unsubscribed channel with B but did not return")
	}
	pub("x3", "p5")
	barrier()
	wantA, wantB, wantC := "p1", "p2,p3", "p4,p5"
	if share {
		wantC = "p3,p4" // ended together with B by the unsubscribe of the shared channel
	}
	for dl := time.Now().Add(time.Second); time.Now().Before(dl) && rc.payloads() != wantC; time.Sleep(100 * time.Microsecond) {
	}
	for _, x := range []struct {
		n    string
		r    *recvH
		want string
	}{{"A", ra, wantA}, {"B", rb, wantB}, {"C", rc, wantC}} {
		if got := x.r.payloads(); got != x.want {
			c.Fail("pubsub:message-lost-or-misdelivered", op, fmt.Sprintf("Receive %s got [%s], the messages of its channels published while it was subscribed are [%s]", x.n, got, x.want))
		}
	}
	c.Emit("!"+op, fmt.Sprintf("A=%s B=%s C=%s", ra.payloads(), rb.payloads(), rc.payloads()), true)
	c.Hit("churn")
	rc.stop()
}

// pubsubOrphan: a Receive whose (P|S)SUBSCRIBE fails while the connection stays usable (error reply
// from the server, or a context that is already done) must leave nothing registered: afterwards more
// messages than a subscription buffer holds (16) are published on that channel for another, live
// Receive; the connection must keep serving: the live Receive gets them all, a regular command
// returns, a new Receive can subscribe.
func (c *Ctx) pubsubOrphan(kind int, how string) {
	bg := context.Background()
	srv := fakeredis.New(fakeredis.Options{})
	mk := func(o rueidis.ClientOption) rueidis.Client {
		o.InitAddress, o.DialCtxFn, o.ForceSingleClient, o.PipelineMultiplex, o.DisableRetry = []string{"fake:1"}, srv.Dial, true, -1, true
		cl, err := rueidis.NewClient(o)
		if err != nil {
			panic(err)
		}
		return cl
	}
	a, b := mk(rueidis.ClientOption{}), mk(rueidis.ClientOption{DisableCache: true})
	name, target := "orph", "orph"
	if kind == 1 {
		name, target = "orph*", "orpha"
	}
	verb := []string{"SUBSCRIBE", "PSUBSCRIBE", "SSUBSCRIBE"}[kind]
	sub := func(ch string) rueidis.Completed {
		switch kind {
		case 0:
			return a.B().Subscribe().Channel(ch).Build()
		case 1:
			return a.B().Psubscribe().Pattern(ch).Build()
		}
		return a.B().Ssubscribe().Channel(ch).Build()
	}
	op := fmt.Sprintf("orphan kind=%d how=%s", kind, how)
	a.Do(bg, a.B().Ping().Build())
	var ferr error
	switch how {
	case "errreply":
		srv.AddRule(fakeredis.Rule{Match: fakeredis.Cmd(verb, name), Times: 1, Err: "NOPERM this user has no permissions to access one of the channels used as arguments"})
		ferr = a.Receive(bg, sub(name), func(rueidis.PubSubMessage) {})
	case "ctxdone":
		ctx, cancel := context.WithCancel(bg)
		cancel()
		ferr = a.Receive(ctx, sub(name), func(rueidis.PubSubMessage) {})
	}
	if ferr == nil {
		c.Fail("pubsub:failed-subscribe-returned-nil", op, "Receive returned nil although its subscribe command failed")
	}
	live := startRecv(a, kind, []string{name})
	const n = 24
	for i := 0; i < n; i++ {
		if kind == 2 {
			b.Do(bg, b.B().Spublish().Channel(target).Message(fmt.Sprint("o", i)).Build())
		} else {
			b.Do(bg, b.B().Publish().Channel(target).Message(fmt.Sprint("o", i)).Build())
		}
	}
	tctx, cancel := context.WithTimeout(bg, 2*time.Second)
	_, cerr := a.Do(tctx, a.B().Incr().Key("after").Build()).AsInt64()
	cancel()
	cmd := "ok"
	if cerr != nil {
		cmd = "hangs(" + cerr.Error() + ")"
	}
	for dl := time.Now().Add(2 * time.Second); time.Now().Before(dl) && cerr == nil; time.Sleep(100 * time.Microsecond) {
		live.mu.Lock()
		k := len(live.got)
		live.mu.Unlock()
		if k >= n {
			break
		}
	}
	live.mu.Lock()
	got := len(live.got)
	live.mu.Unlock()
	newrecv := "ok"
	if cerr == nil {
		nr := startRecv(a, kind, []string{"other" + name})
		nr.mu.Lock()
		if nr.conf < 1 {
			newrecv = "not-confirmed"
		}
		nr.mu.Unlock()
		nr.stop()
	} else {
		newrecv = "skipped"
	}
	ans := fmt.Sprintf("cmd=%s msgs=%d newrecv=%s", cmd, got, newrecv)
	c.Emit("!"+op, ans, true)
	if cmd != "ok" || got != n || newrecv != "ok" {
		c.Fail("pubsub:orphan-subscription-after-failed-receive", op, fmt.Sprintf("after a Receive whose %s failed (%v) and %d messages on that channel: %s (the live Receive must get all %d, a regular command must return, a new Receive must subscribe)", verb, ferr, n, ans, n))
	}
	c.Hit("orphan:" + how)
	live.stop()
	go func() { a.Close(); b.Close(); srv.Close() }() // Close may block behind a stuck reader: do not wait for it
}

// hooksAfterDisconnect: SetPubSubHooks on a real pipe whose connection already failed, called
// repeatedly (replace, replace, clear): every returned channel carries exactly one error and is then
// closed, nothing panics.
func (c *Ctx) hooksAfterDisconnect() {
	bg := context.Background()
	srv := fakeredis.New(fakeredis.Options{})
	defer srv.Close()
	cl, err := rueidis.NewClient(rueidis.ClientOption{InitAddress: []string{"fake:1"}, DialCtxFn: srv.Dial, ForceSingleClient: true, PipelineMultiplex: -1, DisableRetry: true})
	if err != nil {
		panic(err)
	}
	defer cl.Close()
	dc, release := cl.Dedicate()
	defer release()
	first := dc.SetPubSubHooks(rueidis.PubSubHooks{OnMessage: func(rueidis.PubSubMessage) {}}) // starts the reader
	dc.Do(bg, dc.B().Ping().Build())
	conn := srv.NumConns()
	srv.Kill(conn)
	select { // the clean-up after the disconnect reports to the installed hooks
	case e := <-first:
		if e == nil {
			c.Fail("pubsub:hook-channel-closed-twice", "hooks-after-disconnect", "the channel of the hooks installed before the disconnect was closed without an error")
		}
	case <-time.After(2 * time.Second):
		c.Fail("pubsub:hook-channel-not-closed", "hooks-after-disconnect", "no error on the hook channel 2 s after the disconnect")
	}
	verdict := "ok"
	for i := 0; i < 3 && verdict == "ok"; i++ {
		func() {
			defer func() {
				if r := recover(); r != nil {
					verdict = fmt.Sprint("panic:", r)
				}
			}()
			h := rueidis.PubSubHooks{OnMessage: func(rueidis.PubSubMessage) {}}
			if i == 2 {
				h = rueidis.PubSubHooks{}
			}
			ch := dc.SetPubSubHooks(h)
			if ch == nil {
				return
			}
			n := 0
			for e := range ch {
				if e != nil {
					n++
				}
			}
			if n != 1 {
				verdict = fmt.Sprintf("errors=%d", n)
			}
		}()
	}
	c.Emit("!hooks-invariant", verdict, true)
	if verdict != "ok" {
		c.Fail("pubsub:hook-channel-closed-twice", "hooks-after-disconnect", "SetPubSubHooks on a failed connection, called again: "+verdict)
	}
	c.Hit("hooks-after-disconnect")
}

func (c *Ctx) pubsubE2E() {
	c.hooksAfterDisconnect()
	for kind := 0; kind < 3; kind++ {
		for _, how := range []string{"errreply", "ctxdone"} {
			c.pubsubOrphan(kind, how)
		}
	}
	for kind := 0; kind < 3; kind++ {
		for _, endByCtx := range []bool{true, false} {
			for _, share := range []bool{false, true} {
				c.pubsubChurn(kind, endByCtx, share)
			}
		}
	}
	bg := context.Background()
	for ep := 0; ep < c.N; ep++ {
		srv := fakeredis.New(fakeredis.Options{})
		mk := func(o rueidis.ClientOption) rueidis.Client {
			o.InitAddress, o.DialCtxFn, o.ForceSingleClient, o.PipelineMultiplex, o.DisableRetry = []string{"fake:1"}, srv.Dial, true, -1, true
			cl, err := rueidis.NewClient(o)
			if err != nil {
				panic(err)
			}
			return cl
		}
		a := mk(rueidis.ClientOption{})                   // connection 1: all Receive calls and the regular commands
		b := mk(rueidis.ClientOption{DisableCache: true}) // connection 2: the publisher
		c.Emit("reset", "ok", false)
		shapes := []struct {
			k     int
			chans []string
		}{{0, []string{"c1"}}, {0, []string{"c1", "c2"}}, {0, []string{"c2"}}, {0, []string{"c1"}}, {1, []string{"c*"}}, {1, []string{"c1*", "c*"}}, {2, []string{"s1"}}, {0, []string{"zz"}}}
		var recvs []*recvH
		n := 3 + c.Rng.IntN(4)
		for i := 0; i < n; i++ {
			sh := shapes[c.Rng.IntN(len(shapes))]
			r := &recvH{k: sh.k, chans: sh.chans, done: make(chan struct{})}
			ctx, cancel := context.WithCancel(bg)
			r.stop = cancel
			ctx = rueidis.WithOnSubscriptionHook(ctx, func(s rueidis.PubSubSubscription) {
				r.mu.Lock()
				if strings.HasSuffix(s.Kind, "subscribe") && !strings.Contains(s.Kind, "un") {
					r.conf++
				}
				r.mu.Unlock()
			})
			var cmd rueidis.Completed
			switch sh.k {
			case 0:
				cmd = a.B().Subscribe().Channel(sh.chans...).Build()
			case 1:
				cmd = a.B().Psubscribe().Pattern(sh.chans...).Build()
			default:
				cmd = a.B().Ssubscribe().Channel(sh.chans...).Build()
			}
			go func() {
				r.err = a.Receive(ctx, cmd, func(m rueidis.PubSubMessage) {
					r.mu.Lock()
					r.got = append(r.got, msgText(m))
					r.mu.Unlock()
				})
				close(r.done)
			}()
			for dl := time.Now().Add(3 * time.Second); time.Now().Before(dl); time.Sleep(50 * time.Microsecond) {
				r.mu.Lock()
				ok := r.conf >= len(sh.chans)
				r.mu.Unlock()
				if ok {
					break
				}
			}
			hs := make([]string, len(sh.chans))
			for j, ch := range sh.chans {
				hs[j] = hx0(ch)
			}
			c.Emit(fmt.Sprintf("sub %d 1 %s", sh.k, strings.Join(hs, ",")), fmt.Sprintf("id=%d", idOf(recvs, sh.k)+1), false)
			recvs = append(recvs, r)
		}
		// publish phase, interleaved with regular commands on the subscribing connection
		var publog []string
		ctr := int64(0)
		for i := 0; i < 12+c.Rng.IntN(12); i++ {
			switch c.Rng.IntN(5) {
			case 0:
				v, err := a.Do(bg, a.B().Incr().Key("ctr").Build()).AsInt64()
				if ctr++; err != nil || v != ctr {
					c.Fail("pubsub:reply-mixed-up", "INCR ctr", fmt.Sprintf("got %d (%v), want %d while Pub/Sub traffic is on the connection", v, err, ctr))
				}
			case 1:
				u := fmt.Sprintf("u%d-%d", ep, i)
				if v, err := a.Do(bg, a.B().Echo().Message(u).Build()).ToString(); err != nil || v != u {
					c.Fail("pubsub:reply-mixed-up", "ECHO "+u, fmt.Sprintf("got %q (%v)", v, err))
				}
			default:
				ch := []string{"c1", "c2", "c1", "zz", "other"}[c.Rng.IntN(5)]
				payload := fmt.Sprintf("p%d", i)
				if c.Rng.IntN(5) == 0 {
					b.Do(bg, b.B().Spublish().Channel("s1").Message(payload).Build())
					publog = append(publog, "S:"+hx0("s1")+":"+hx0(payload))
				} else {
					b.Do(bg, b.B().Publish().Channel(ch).Message(payload).Build())
					publog = append(publog, "P:"+hx0(ch)+":"+hx0(payload))
				}
			}
		}
		a.Do(bg, a.B().Ping().Build()) // barrier: all pushes queued before are read and dispatched
		// replay the Pub/Sub frames the server wrote on connection 1 into the model
		for _, o := range srv.ConnOuts(1) {
			if o.IsPush && strings.HasSuffix(o.Kind, "message") {
				vs := []pv{sv(o.Kind)}
				for _, x := range o.Args {
					vs = append(vs, sv(x))
				}
				c.Emit("wire "+pushWord(vs), "ok", false)
			}
		}
		// wait until the callbacks consumed what the model says they get; then report the logs
		time.Sleep(300 * time.Microsecond)
		expectTotal := 0
		for _, l := range publog {
			f := strings.Split(l, ":")
			ch := unhexs(f[1])
			for _, r := range recvs {
				switch {
				case f[0] == "S" && r.k == 2 && contains(r.chans, ch), f[0] == "P" && r.k == 0 && contains(r.chans, ch):
					expectTotal++
				case f[0] == "P" && r.k == 1:
					for _, p := range r.chans {
						if globPrefix(p, ch) {
							expectTotal++
						}
					}
				}
			}
		}
		for dl := time.Now().Add(3 * time.Second); time.Now().Before(dl); time.Sleep(100 * time.Microsecond) {
			tot := 0
			for _, r := range recvs {
				r.mu.Lock()
				tot += len(r.got)
				r.mu.Unlock()
			}
			if tot >= expectTotal {
				break
			}
		}
		ids := map[int]int{}
		for _, r := range recvs {
			ids[r.k]++
			r.mu.Lock()
			got := strings.Join(r.got, "+")
			r.mu.Unlock()
			hs := make([]string, len(r.chans))
			for j, ch := range r.chans {
				hs[j] = hx0(ch)
			}
			c.Emit(fmt.Sprintf("log %d %d", r.k, ids[r.k]), dash(got), got != "")
			c.Emit(fmt.Sprintf("!log %d %s %s", r.k, strings.Join(hs, ","), orDash(publog)), dash(got), false)
		}
		// termination: unsubscribe c1 (nil), cancel one context (ctx error), then Close (ErrClosing) or disconnect
		a.Do(bg, a.B().Unsubscribe().Channel("c1").Build())
		var ctxVictim *recvH
		for _, r := range recvs {
			if !(r.k == 0 && contains(r.chans, "c1")) {
				ctxVictim = r
				r.stop()
				break
			}
		}
		kill := c.Rng.IntN(2) == 0
		for _, r := range recvs {
			how, perr := "closed", "-"
			switch {
			case r.k == 0 && contains(r.chans, "c1"):
			case r == ctxVictim:
				how = "ctx"
			default:
				select {
				case <-r.done: // must not have returned yet
					c.Fail("pubsub:receive-returned-early", "recv", fmt.Sprintf("Receive(%v) returned %v before its subscription ended", r.chans, r.err))
				default:
				}
				continue
			}
			select {
			case <-r.done:
			case <-time.After(3 * time.Second):
				c.Fail("pubsub:receive-stuck", "recv "+how, fmt.Sprintf("Receive(%v) did not return", r.chans))
				continue
			}
			c.Emit(fmt.Sprintf("recv %s %s", how, perr), errClass(r.err), true)
			c.Emit(fmt.Sprintf("!recv %s %s", how, perr), errClass(r.err), false)
		}
		if kill {
			srv.Kill(1)
			c.Hit("end:kill")
		} else {
			a.Close()
			c.Hit("end:close")
		}
		for _, r := range recvs {
			if (r.k == 0 && contains(r.chans, "c1")) || r == ctxVictim {
				continue
			}
			select {
			case <-r.done:
			case <-time.After(3 * time.Second):
				c.Fail("pubsub:receive-stuck", "recv closed", fmt.Sprintf("Receive(%v) did not return after Close/disconnect", r.chans))
				continue
			}
			if kill {
				// the pipe's error is the transport error: any non-nil, non-closing error
				if r.err == nil || errors.Is(r.err, context.Canceled) {
					c.Fail("pubsub:disconnect-returned-nil", "recv closed io", fmt.Sprintf("Receive(%v) returned %v after the connection was lost", r.chans, r.err))
				}
				c.Emit("recv closed io", "pipe:io", true)
			} else {
				c.Emit("recv closed closing", errClass(r.err), true)
				c.Emit("!recv closed closing", errClass(r.err), false)
			}
		}
		if kill {
			a.Close()
		}
		b.Close()
		srv.Close()
	}
}

func errClass(err error) string {
	switch {
	case err == nil:
		return "nil"
	case errors.Is(err, context.Canceled):
		return "ctx"
	case errors.Is(err, rueidis.ErrClosing):
		return "pipe:closing"
	}
	return "pipe:io"
}

func idOf(rs []*recvH, k int) int {
	n := 0
	for _, r := range rs {
		if r.k == k {
			n++
		}
	}
	return n
}

func contains(ss []string, s string) bool {
	for _, x := range ss {
		if x == s {
			return true
		}
	}
	return false
}

func unhexs(h string) string { return unhx(dash(h)) }

var _ = sort.Strings

func init() {
	suites["subs"] = suite{
		rule: "a case counts when the op delivers a message / notification to at least one subscription or hook, or ends a subscription",
		run:  func(c *Ctx) { c.subsDifferential() },
	}
	suites["pubsub"] = suite{
		rule: "every episode has overlapping subscriptions on one connection, publishes interleaved with regular commands, and ends by unsubscribe + cancellation + Close or disconnect",
		run:  func(c *Ctx) { c.pubsubE2E() },
	}
}
