package main

// Suites for C26 (Pub/Sub):
//   subs   — differential: the real `subs` tables and the real handlePush (bare pipe, real
//            SetPubSubHooks) against Rv.Subs, on random op sequences incl. malformed pushes;
//            plus the SetPubSubHooks channel life cycle.
//   pubsub — end to end over fakeredis: overlapping Receive calls (same channel twice, pattern
//            overlapping channel, shard channels), interleaved regular commands whose replies must
//            stay correct, unsubscribe, context cancellation, Close and disconnect.

import (
	"context"
	"errors"
	"fmt"
	"sort"
	"strings"
	"sync"
	"time"

	"github.com/redis/rueidis"
	"github.com/redis/rueidis/zzverif/fakeredis"
)

type subH struct {
	id     int
	ch     chan rueidis.PubSubMessage
	cancel func()
	closes int
	msgs   []string // since the last op
	notes  []string // since the last op
}

type tableH struct {
	cnt  int
	subs []*subH
}

func msgText(m rueidis.PubSubMessage) string {
	return hx0(m.Pattern) + "," + hx0(m.Channel) + "," + hx0(m.Message)
}
func noteText(s rueidis.PubSubSubscription) string {
	return hx0(s.Kind) + "," + hx0(s.Channel) + "," + fmt.Sprint(s.Count)
}

// drain collects what arrived in every subscription channel since the last op.
func (t *tableH) drain() string {
	var parts []string
	for _, s := range t.subs {
		closedNow := false
		for s.ch != nil && s.closes == 0 {
			select {
			case m, ok := <-s.ch:
				if !ok {
					s.closes, closedNow = 1, true
				} else {
					s.msgs = append(s.msgs, msgText(m))
					continue
				}
			default:
			}
			break
		}
		if len(s.msgs) > 0 || len(s.notes) > 0 || closedNow {
			parts = append(parts, fmt.Sprintf("%d:%s:%d:%s", s.id, strings.Join(s.msgs, "+"), s.closes, strings.Join(s.notes, "+")))
		}
		s.msgs, s.notes = nil, nil
	}
	return "{" + strings.Join(parts, " ") + "}"
}

var psKinds = [3][3]string{{"message", "subscribe", "unsubscribe"}, {"pmessage", "psubscribe", "punsubscribe"}, {"smessage", "ssubscribe", "sunsubscribe"}}

func (c *Ctx) chanName() string { return []string{"a", "b", "c*", "", "\xff"}[c.Rng.IntN(5)] }

func (c *Ctx) subsDifferential() {
	for ep := 0; ep < c.N; ep++ {
		p := rueidis.VerifBarePipe(nil)
		var tabs [3]tableH
		var hookCalls []string
		c.Emit("reset", "ok", false)
		all := func() string {
			return "T0" + tabs[0].drain() + " T1" + tabs[1].drain() + " T2" + tabs[2].drain()
		}
		guard := func(f func()) (panicked bool) {
			defer func() {
				if recover() != nil {
					panicked = true
				}
			}()
			f()
			return false
		}
		for i := 0; i < 25; i++ {
			k := c.Rng.IntN(3)
			t := &tabs[k]
			switch r := c.Rng.IntN(20); {
			case r < 5:
				n := 1 + c.Rng.IntN(2)
				chans := make([]string, n)
				for j := range chans {
					chans[j] = c.chanName()
				}
				hasFn := c.Rng.IntN(2) == 0
				t.cnt++
				s := &subH{id: t.cnt}
				var fn func(rueidis.PubSubSubscription)
				if hasFn {
					fn = func(n rueidis.PubSubSubscription) { s.notes = append(s.notes, noteText(n)) }
				}
				s.ch, s.cancel = p.Subs(k).Subscribe(chans, fn)
				hs := make([]string, n)
				for j, ch := range chans {
					hs[j] = dash(hx0(ch))
				}
				ans := "dead"
				if s.ch != nil {
					t.subs = append(t.subs, s)
					ans = fmt.Sprintf("id=%d", s.id)
				}
				c.Emit(fmt.Sprintf("sub %d %s %s", k, b01(hasFn), strings.Join(hs, ",")), ans, false)
			case r < 8:
				ch := c.chanName()
				m := rueidis.PubSubMessage{Channel: ch, Message: fmt.Sprint("m", i)}
				pk := guard(func() { p.Subs(k).Publish(ch, m) })
				ans := all()
				if pk {
					ans = "panic"
				}
				c.Emit(fmt.Sprintf("pub %d %s %s", k, dash(hx0(ch)), msgText(m)), ans, strings.Contains(ans, ":"))
			case r < 10:
				n := rueidis.PubSubSubscription{Kind: psKinds[k][1+c.Rng.IntN(2)], Channel: c.chanName(), Count: int64(c.Rng.IntN(3))}
				verb := "confirm"
				f := func() { p.Subs(k).Confirm(n) }
				if c.Rng.IntN(2) == 0 {
					verb, f = "unsub", func() { p.Subs(k).Unsubscribe(n) }
				}
				pk := guard(f)
				ans := all()
				if pk {
					ans = "panic"
				}
				c.Emit(fmt.Sprintf("%s %d %s %s %d", verb, k, hx0(n.Kind), dash(hx0(n.Channel)), n.Count), ans, strings.Contains(ans, ":"))
			case r < 12:
				if len(t.subs) == 0 {
					continue
				}
				s := t.subs[c.Rng.IntN(len(t.subs))]
				pk := guard(s.cancel)
				ans := all()
				if pk {
					ans = "panic"
				}
				c.Emit(fmt.Sprintf("cancel %d %d", k, s.id), ans, true)
			case r < 13:
				pk := guard(func() { p.Subs(k).Close() })
				ans := all()
				if pk {
					ans = "panic"
				}
				c.Emit(fmt.Sprintf("close %d", k), ans, true)
			case r < 14:
				om, os := c.Rng.IntN(2) == 0, c.Rng.IntN(2) == 0
				h := rueidis.PubSubHooks{}
				if om {
					h.OnMessage = func(m rueidis.PubSubMessage) { hookCalls = append(hookCalls, "m"+msgText(m)) }
				}
				if os {
					h.OnSubscription = func(n rueidis.PubSubSubscription) { hookCalls = append(hookCalls, "n"+noteText(n)) }
				}
				p.SetPubSubHooks(h)
				c.Emit(fmt.Sprintf("hooks %s %s", b01(om), b01(os)), "ok", false)
			default:
				vs := c.randPubSubPush()
				hookCalls = nil
				var reply, unsub bool
				pk := guard(func() { reply, unsub = p.HandlePush(pushMsgs(vs)) })
				hk := "-"
				if len(hookCalls) > 0 {
					hk = strings.Join(hookCalls, "+")
				}
				ans := fmt.Sprintf("r=%s u=%s hooks=%s %s", b01(reply), b01(unsub), hk, all())
				if pk {
					ans = "panic"
				}
				op := "push"
				if len(vs) > 0 {
					op += " " + pushWord(vs)
				}
				c.Hit("push:" + vs0(vs))
				c.Emit(op, ans, strings.Contains(ans, ":") || hk != "-")
			}
		}
	}
	// the channel handed out by SetPubSubHooks: closed exactly once, at most one error
	for ep := 0; ep < c.N/4+1; ep++ {
		p := rueidis.VerifBarePipe(nil)
		c.Emit("hreset", "ok", false)
		var chs []<-chan error
		state := func() string {
			parts := make([]string, len(chs))
			for i, ch := range chs {
				var errs []string
				closes := 0
				for done := false; !done; {
					select {
					case e, ok := <-ch:
						if !ok {
							closes, done = 1, true
						} else {
							errs = append(errs, e.Error())
						}
					default:
						done = true
					}
				}
				parts[i] = fmt.Sprintf("[%s|%d|0]", strings.Join(errs, ","), closes)
			}
			return strings.Join(parts, " ")
		}
		for i := 0; i < 6; i++ {
			if c.Rng.IntN(3) != 0 {
				chs = append(chs, p.SetPubSubHooks(rueidis.PubSubHooks{OnMessage: func(rueidis.PubSubMessage) {}}))
				c.Emit("hswap", state(), true)
			} else {
				p.SetPubSubHooks(rueidis.PubSubHooks{})
				c.Emit("hempty -", state(), true)
			}
		}
	}
}

func vs0(vs []pv) string {
	if len(vs) == 0 {
		return "empty"
	}
	return vs[0].s
}

func (c *Ctx) randPubSubPush() []pv {
	k := c.Rng.IntN(3)
	ch := c.chanName()
	switch c.Rng.IntN(10) {
	case 0, 1, 2:
		if k == 1 {
			return []pv{sv("pmessage"), sv(ch), sv("a"), sv("payload")}
		}
		return []pv{sv(psKinds[k][0]), sv(ch), sv("payload")}
	case 3, 4:
		return []pv{sv(psKinds[k][1]), sv(ch), iv(int64(c.Rng.IntN(3)))}
	case 5, 6:
		return []pv{sv(psKinds[k][2]), sv(ch), iv(int64(c.Rng.IntN(3)))}
	case 7:
		return []pv{sv(psKinds[k][2]), nv(), iv(0)} // wildcard unsubscribe with nothing subscribed
	case 8:
		// too short for its kind
		return [][]pv{{sv("pmessage"), sv(ch), sv("x")}, {sv("message"), sv(ch)}, {sv("unsubscribe"), sv(ch)}, {sv("subscribe")}, nil}[c.Rng.IntN(5)]
	}
	return [][]pv{{sv("pong"), sv("")}, {sv("MESSAGE"), sv(ch), sv("x")}, {sv("message"), av("a"), sv("x")}, {sv("subscribe"), sv(ch), sv("notint")}}[c.Rng.IntN(4)]
}

// ---------------------------------------------------------------- end to end

type recvH struct {
	k     int
	chans []string
	mu    sync.Mutex
	got   []string
	conf  int
	err   error
	done  chan struct{}
	stop  context.CancelFunc
}

func globPrefix(p, s string) bool { return fakeredis.Glob(p, s) }

func (c *Ctx) pubsubE2E() {
	bg := context.Background()
	for ep := 0; ep < c.N; ep++ {
		srv := fakeredis.New(fakeredis.Options{})
		mk := func(o rueidis.ClientOption) rueidis.Client {
			o.InitAddress, o.DialCtxFn, o.ForceSingleClient, o.PipelineMultiplex, o.DisableRetry = []string{"fake:1"}, srv.Dial, true, -1, true
			cl, err := rueidis.NewClient(o)
			if err != nil {
				panic(err)
			}
			return cl
		}
		a := mk(rueidis.ClientOption{})                   // connection 1: all Receive calls and the regular commands
		b := mk(rueidis.ClientOption{DisableCache: true}) // connection 2: the publisher
		c.Emit("reset", "ok", false)
		shapes := []struct {
			k     int
			chans []string
		}{{0, []string{"c1"}}, {0, []string{"c1", "c2"}}, {0, []string{"c2"}}, {0, []string{"c1"}}, {1, []string{"c*"}}, {1, []string{"c1*", "c*"}}, {2, []string{"s1"}}, {0, []string{"zz"}}}
		var recvs []*recvH
		n := 3 + c.Rng.IntN(4)
		for i := 0; i < n; i++ {
			sh := shapes[c.Rng.IntN(len(shapes))]
			r := &recvH{k: sh.k, chans: sh.chans, done: make(chan struct{})}
			ctx, cancel := context.WithCancel(bg)
			r.stop = cancel
			ctx = rueidis.WithOnSubscriptionHook(ctx, func(s rueidis.PubSubSubscription) {
				r.mu.Lock()
				if strings.HasSuffix(s.Kind, "subscribe") && !strings.Contains(s.Kind, "un") {
					r.conf++
				}
				r.mu.Unlock()
			})
			var cmd rueidis.Completed
			switch sh.k {
			case 0:
				cmd = a.B().Subscribe().Channel(sh.chans...).Build()
			case 1:
				cmd = a.B().Psubscribe().Pattern(sh.chans...).Build()
			default:
				cmd = a.B().Ssubscribe().Channel(sh.chans...).Build()
			}
			go func() {
				r.err = a.Receive(ctx, cmd, func(m rueidis.PubSubMessage) {
					r.mu.Lock()
					r.got = append(r.got, msgText(m))
					r.mu.Unlock()
				})
				close(r.done)
			}()
			for dl := time.Now().Add(3 * time.Second); time.Now().Before(dl); time.Sleep(50 * time.Microsecond) {
				r.mu.Lock()
				ok := r.conf >= len(sh.chans)
				r.mu.Unlock()
				if ok {
					break
				}
			}
			hs := make([]string, len(sh.chans))
			for j, ch := range sh.chans {
				hs[j] = hx0(ch)
			}
			c.Emit(fmt.Sprintf("sub %d 1 %s", sh.k, strings.Join(hs, ",")), fmt.Sprintf("id=%d", idOf(recvs, sh.k)+1), false)
			recvs = append(recvs, r)
		}
		// publish phase, interleaved with regular commands on the subscribing connection
		var publog []string
		ctr := int64(0)
		for i := 0; i < 12+c.Rng.IntN(12); i++ {
			switch c.Rng.IntN(5) {
			case 0:
				v, err := a.Do(bg, a.B().Incr().Key("ctr").Build()).AsInt64()
				if ctr++; err != nil || v != ctr {
					c.Fail("pubsub:reply-mixed-up", "INCR ctr", fmt.Sprintf("got %d (%v), want %d while Pub/Sub traffic is on the connection", v, err, ctr))
				}
			case 1:
				u := fmt.Sprintf("u%d-%d", ep, i)
				if v, err := a.Do(bg, a.B().Echo().Message(u).Build()).ToString(); err != nil || v != u {
					c.Fail("pubsub:reply-mixed-up", "ECHO "+u, fmt.Sprintf("got %q (%v)", v, err))
				}
			default:
				ch := []string{"c1", "c2", "c1", "zz", "other"}[c.Rng.IntN(5)]
				payload := fmt.Sprintf("p%d", i)
				if c.Rng.IntN(5) == 0 {
					b.Do(bg, b.B().Spublish().Channel("s1").Message(payload).Build())
					publog = append(publog, "S:"+hx0("s1")+":"+hx0(payload))
				} else {
					b.Do(bg, b.B().Publish().Channel(ch).Message(payload).Build())
					publog = append(publog, "P:"+hx0(ch)+":"+hx0(payload))
				}
			}
		}
		a.Do(bg, a.B().Ping().Build()) // barrier: all pushes queued before are read and dispatched
		// replay the Pub/Sub frames the server wrote on connection 1 into the model
		for _, o := range srv.ConnOuts(1) {
			if o.IsPush && strings.HasSuffix(o.Kind, "message") {
				vs := []pv{sv(o.Kind)}
				for _, x := range o.Args {
					vs = append(vs, sv(x))
				}
				c.Emit("wire "+pushWord(vs), "ok", false)
			}
		}
		// wait until the callbacks consumed what the model says they get; then report the logs
		time.Sleep(300 * time.Microsecond)
		expectTotal := 0
		for _, l := range publog {
			f := strings.Split(l, ":")
			ch := unhexs(f[1])
			for _, r := range recvs {
				switch {
				case f[0] == "S" && r.k == 2 && contains(r.chans, ch), f[0] == "P" && r.k == 0 && contains(r.chans, ch):
					expectTotal++
				case f[0] == "P" && r.k == 1:
					for _, p := range r.chans {
						if globPrefix(p, ch) {
							expectTotal++
						}
					}
				}
			}
		}
		for dl := time.Now().Add(3 * time.Second); time.Now().Before(dl); time.Sleep(100 * time.Microsecond) {
			tot := 0
			for _, r := range recvs {
				r.mu.Lock()
				tot += len(r.got)
				r.mu.Unlock()
			}
			if tot >= expectTotal {
				break
			}
		}
		ids := map[int]int{}
		for _, r := range recvs {
			ids[r.k]++
			r.mu.Lock()
			got := strings.Join(r.got, "+")
			r.mu.Unlock()
			hs := make([]string, len(r.chans))
			for j, ch := range r.chans {
				hs[j] = hx0(ch)
			}
			c.Emit(fmt.Sprintf("log %d %d", r.k, ids[r.k]), dash(got), got != "")
			c.Emit(fmt.Sprintf("!log %d %s %s", r.k, strings.Join(hs, ","), orDash(publog)), dash(got), false)
		}
		// termination: unsubscribe c1 (nil), cancel one context (ctx error), then Close (ErrClosing) or disconnect
		a.Do(bg, a.B().Unsubscribe().Channel("c1").Build())
		var ctxVictim *recvH
		for _, r := range recvs {
			if !(r.k == 0 && contains(r.chans, "c1")) {
				ctxVictim = r
				r.stop()
				break
			}
		}
		kill := c.Rng.IntN(2) == 0
		for _, r := range recvs {
			how, perr := "closed", "-"
			switch {
			case r.k == 0 && contains(r.chans, "c1"):
			case r == ctxVictim:
				how = "ctx"
			default:
				select {
				case <-r.done: // must not have returned yet
					c.Fail("pubsub:receive-returned-early", "recv", fmt.Sprintf("Receive(%v) returned %v before its subscription ended", r.chans, r.err))
				default:
				}
				continue
			}
			select {
			case <-r.done:
			case <-time.After(3 * time.Second):
				c.Fail("pubsub:receive-stuck", "recv "+how, fmt.Sprintf("Receive(%v) did not return", r.chans))
				continue
			}
			c.Emit(fmt.Sprintf("recv %s %s", how, perr), errClass(r.err), true)
			c.Emit(fmt.Sprintf("!recv %s %s", how, perr), errClass(r.err), false)
		}
		if kill {
			srv.Kill(1)
			c.Hit("end:kill")
		} else {
			a.Close()
			c.Hit("end:close")
		}
		for _, r := range recvs {
			if (r.k == 0 && contains(r.chans, "c1")) || r == ctxVictim {
				continue
			}
			select {
			case <-r.done:
			case <-time.After(3 * time.Second):
				c.Fail("pubsub:receive-stuck", "recv closed", fmt.Sprintf("Receive(%v) did not return after Close/disconnect", r.chans))
				continue
			}
			if kill {
				// the pipe's error is the transport error: any non-nil, non-closing error
				if r.err == nil || errors.Is(r.err, context.Canceled) {
					c.Fail("pubsub:disconnect-returned-nil", "recv closed io", fmt.Sprintf("Receive(%v) returned %v after the connection was lost", r.chans, r.err))
				}
				c.Emit("recv closed io", "pipe:io", true)
			} else {
				c.Emit("recv closed closing", errClass(r.err), true)
				c.Emit("!recv closed closing", errClass(r.err), false)
			}
		}
		if kill {
			a.Close()
		}
		b.Close()
		srv.Close()
	}
}

func errClass(err error) string {
	switch {
	case err == nil:
		return "nil"
	case errors.Is(err, context.Canceled):
		return "ctx"
	case errors.Is(err, rueidis.ErrClosing):
		return "pipe:closing"
	}
	return "pipe:io"
}

func idOf(rs []*recvH, k int) int {
	n := 0
	for _, r := range rs {
		if r.k == k {
			n++
		}
	}
	return n
}

func contains(ss []string, s string) bool {
	for _, x := range ss {
		if x == s {
			return true
		}
	}
	return false
}

func unhexs(h string) string { return unhx(dash(h)) }

var _ = sort.Strings

func init() {
	suites["subs"] = suite{
		rule: "a case counts when the op delivers a message / notification to at least one subscription or hook, or ends a subscription",
		run:  func(c *Ctx) { c.subsDifferential() },
	}
	suites["pubsub"] = suite{
		rule: "every episode has overlapping subscriptions on one connection, publishes interleaved with regular commands, and ends by unsubscribe + cancellation + Close or disconnect",
		run:  func(c *Ctx) { c.pubsubE2E() },
	}
}
