package main

// Suite initplan (C47): the real _newPipe (VerifNewPipe) and the real public client
// (NewClient + DialCtxFn) against fakeredis, for every combination of the option
// dimensions x protocol (HELLO accepted / rejected) x every setup step failing.
// Per connection the suite reports the setup commands the server logged, the outcome and
// the reply classes the server produced; the Lean model (Rv.InitPlan.connect) predicts
// outcome and command list from the option record and those reply classes.

import (
	"context"
	"errors"
	"fmt"
	"net"
	"regexp"
	"strconv"
	"strings"
	"time"

	"github.com/redis/rueidis"
	"github.com/redis/rueidis/internal/cmds"
	"github.com/redis/rueidis/zzverif/fakeredis"
)

type ipOpt struct {
	U, P       string
	Fn         string // none | err | ok
	FnU, FnP   string
	Name       string
	DB         int
	RO         bool
	MS         string
	NT, NE, RD bool
	AZ, DC, R2 bool
	TR         string // nil | empty | comma list
	SI         string // dflt | off | pair
	R2PS       bool
}

func dash(s string) string {
	if s == "" {
		return "-"
	}
	return s
}
func undash(s string) string {
	if s == "-" {
		return ""
	}
	return s
}
func b01(b bool) string {
	if b {
		return "1"
	}
	return "0"
}

func (o ipOpt) words() string {
	fn := o.Fn
	if fn == "ok" {
		fn = "ok:" + dash(o.FnU) + ":" + dash(o.FnP)
	}
	return strings.Join([]string{dash(o.U), dash(o.P), fn, dash(o.Name), strconv.Itoa(o.DB), b01(o.RO), dash(o.MS), b01(o.NT), b01(o.NE),
		b01(o.RD), b01(o.AZ), b01(o.DC), b01(o.R2), o.TR, o.SI, b01(o.R2PS)}, " ")
}

func parseIPOpt(w []string) (o ipOpt) {
	o.U, o.P, o.Fn, o.Name = undash(w[0]), undash(w[1]), w[2], undash(w[3])
	if strings.HasPrefix(o.Fn, "ok:") {
		parts := strings.Split(o.Fn, ":")
		o.Fn, o.FnU, o.FnP = "ok", undash(parts[1]), undash(parts[2])
	}
	o.DB, _ = strconv.Atoi(w[4])
	o.RO, o.MS, o.NT, o.NE, o.RD, o.AZ, o.DC, o.R2 = w[5] == "1", undash(w[6]), w[7] == "1", w[8] == "1", w[9] == "1", w[10] == "1", w[11] == "1", w[12] == "1"
	o.TR, o.SI, o.R2PS = w[13], w[14], w[15] == "1"
	return o
}

var errCred = errors.New("verif: credentials callback failed")

func (o ipOpt) clientOption(srv *fakeredis.Server) rueidis.ClientOption {
	co := rueidis.ClientOption{
		InitAddress: []string{"fake:1"}, DialCtxFn: srv.Dial, Username: o.U, Password: o.P, ClientName: o.Name, SelectDB: o.DB,
		ReplicaOnly: o.RO, ClientNoTouch: o.NT, ClientNoEvict: o.NE, DisableCache: o.DC, AlwaysRESP2: o.R2,
		EnableReplicaAZInfo: o.AZ, AZFromInfo: o.AZ, ReadBufferEachConn: 4096, WriteBufferEachConn: 4096, RingScaleEachConn: 4,
		CacheSizeEachConn: 1 << 16, DisableRetry: true,
	}
	co.Sentinel.MasterSet = o.MS
	co.Standalone.EnableRedirect = o.RD
	co.Dialer.Timeout = 2 * time.Second
	switch o.Fn {
	case "err":
		co.AuthCredentialsFn = func(rueidis.AuthCredentialsContext) (rueidis.AuthCredentials, error) {
			return rueidis.AuthCredentials{}, errCred
		}
	case "ok":
		co.AuthCredentialsFn = func(rueidis.AuthCredentialsContext) (rueidis.AuthCredentials, error) {
			return rueidis.AuthCredentials{Username: o.FnU, Password: o.FnP}, nil
		}
	}
	switch o.TR {
	case "nil":
	case "empty":
		co.ClientTrackingOptions = []string{}
	default:
		co.ClientTrackingOptions = strings.Split(o.TR, ",")
	}
	switch o.SI {
	case "off":
		co.ClientSetInfo = rueidis.DisableClientSetInfo
	case "pair":
		co.ClientSetInfo = []string{"mylib", "9.9"}
	}
	return co
}

// effective credentials (what the server is configured to demand)
func (o ipOpt) creds() (u, p string) {
	if o.Fn == "ok" {
		return o.FnU, o.FnP
	}
	return o.U, o.P
}

var noHelloRe = regexp.MustCompile("unknown command .?(HELLO|hello).?")

type ipFault struct {
	at   int    // index of the command on the connection, -1: none
	kind string // e: -ERR injected | h: unknown command 'HELLO' | x: drop before executing
}

type ipRun struct {
	state     string // the server's view of the session after setup (ConnInfo of connection 1, taken before closing)
	pubProto  int
	user      string
	res       string
	setup     [][]string // setup commands logged on the connection, in order
	classes   []byte     // reply class per setup command
	firstUser int        // index in the connection log of the first user command, -1
	served    bool
	proto     int
}

func isSetup(argv []string) bool {
	return argv[0] != "ECHO" && argv[0] != "PING"
}

// runConn performs one connection attempt on a fresh server.
// openDefault: the server's default user needs no password (ACL users exist next to an open default
// user), so a connection that does not authenticate is served as `default`
func runConn(o ipOpt, reject bool, f ipFault, public bool) ipRun {
	return runConnOn(o, reject, f, public, false)
}

func runConnOn(o ipOpt, reject bool, f ipFault, public, openDefault bool) ipRun {
	u, p := o.creds()
	users := map[string]string{}
	if u != "" || p != "" {
		if !openDefault {
			users["default"] = "srvpw"
		}
		if u == "" {
			users["default"] = p
		} else {
			users[u] = p
		}
	}
	srv := fakeredis.New(fakeredis.Options{RejectHello: reject, Users: users, AZ: "az1"})
	defer srv.Close()
	if f.at >= 0 {
		n := -1
		r := fakeredis.Rule{Match: func(conn int, argv []string) bool { n++; return conn == 1 && n == f.at }, Times: 1}
		switch f.kind {
		case "e":
			r.Err = "ERR injected"
		case "h":
			r.Err = "ERR unknown command 'HELLO', with args beginning with: "
		case "x":
			r.Fault = fakeredis.DropBefore
		}
		srv.AddRule(r)
	}
	co := o.clientOption(srv)
	ctx, cancel := context.WithTimeout(context.Background(), 5*time.Second)
	defer cancel()
	echo := cmds.NewBuilder(cmds.NoSlot).Echo().Message("user").Build()
	var err error
	run := ipRun{firstUser: -1}
	panicked := false
	func() {
		defer func() {
			if r := recover(); r != nil {
				panicked = true
			}
		}()
		run.connect(o, srv, co, ctx, echo, public, &err)
	}()
	switch {
	case panicked:
		run.res = "panic"
	case err == nil:
		run.res = "ok"
	case errors.Is(err, errCred):
		run.res = "fail:cred"
	case errors.Is(err, rueidis.ErrNoCache):
		run.res = "fail:nocache"
	default:
		run.res = "fail:err"
	}
	run.collect(srv, public)
	return run
}

func (run *ipRun) connect(o ipOpt, srv *fakeredis.Server, co rueidis.ClientOption, ctx context.Context, echo rueidis.Completed, public bool, perr *error) {
	var err error
	defer func() { *perr = err }()
	if public {
		co.ForceSingleClient = true
		var c rueidis.Client
		if c, err = rueidis.NewClient(co); err == nil {
			v, e := c.Do(ctx, echo).ToString()
			run.served = e == nil && v == "user"
			run.snapshot(srv)
		}
		if c != nil {
			c.Close()
		}
	} else {
		var vp *rueidis.VerifPipe
		vp, err = rueidis.VerifNewPipe(ctx, func(ctx context.Context) (net.Conn, error) { return srv.Dial(ctx, "fake:1", nil, nil) }, &co, o.R2PS)
		if err == nil {
			v, e := vp.Do(ctx, echo).ToString()
			run.served = e == nil && v == "user"
			run.snapshot(srv)
			if vp.IsRESP2() {
				run.proto = 2
			} else {
				run.proto = 3
			}
			vp.Close()
		}
	}
}

// snapshot reads the server's view of connection 1 while it is still open.
func (run *ipRun) snapshot(srv *fakeredis.Server) {
	if ci, ok := srv.Conn(1); ok {
		run.pubProto, run.user = ci.Proto, ci.User
		run.state = fmt.Sprintf("user=%s db=%d name=%s trk=%s optin=%s ro=%s nt=%s ne=%s lib=%s ver=%s", ci.User, ci.DB, dash(ci.Name),
			b01(ci.Tracking), b01(ci.Tracking && ci.OptIn), b01(ci.ReadOnly), b01(ci.NoTouch), b01(ci.NoEvict), dash(ci.LibName), dash(ci.LibVer))
	}
}

func (run *ipRun) collect(srv *fakeredis.Server, public bool) {
	replies := map[uint64]string{}
	for _, out := range srv.ConnOuts(1) {
		if !out.IsPush {
			replies[out.ID] = out.Reply
		}
	}
	for i, e := range srv.ConnLog(1) {
		if !isSetup(e.Argv) {
			if run.firstUser < 0 && e.Argv[0] == "ECHO" {
				run.firstUser = i
			}
			continue
		}
		if run.firstUser >= 0 {
			run.res = "setup-after-user" // a setup command after a user command: reported through the sent list
		}
		run.setup = append(run.setup, e.Argv)
		cl := byte('x')
		if r, ok := replies[e.ID]; ok {
			switch {
			case r[0] == '-' && noHelloRe.MatchString(r):
				cl = 'h'
			case r[0] == '-':
				cl = 'e'
			case e.Argv[0] == "HELLO" && len(e.Argv) > 1:
				cl = e.Argv[1][0]
			case e.Argv[0] == "INFO":
				cl = 'z' // the fake's INFO text always carries availability_zone
			default:
				cl = 's'
			}
		}
		run.classes = append(run.classes, cl)
	}
	if public && run.res == "ok" {
		run.proto = run.pubProto
	}
	if run.res == "ok" {
		run.res = fmt.Sprintf("ok%d", run.proto)
	}
}

func cmdsText(cs [][]string) string {
	if len(cs) == 0 {
		return "-"
	}
	parts := make([]string, len(cs))
	for i, c := range cs {
		parts[i] = strings.Join(c, ",")
	}
	return strings.Join(parts, ";")
}

// split the setup log into the RESP3 attempt and the RESP2 sequence (source-independent rule:
// a RESP3 attempt exists iff the first command is HELLO 3; the RESP2 sequence starts at the first
// later AUTH or HELLO 2)
func splitAttempts(setup [][]string) int {
	if len(setup) == 0 || setup[0][0] != "HELLO" || len(setup[0]) < 2 || setup[0][1] != "3" {
		return 0
	}
	for i := 1; i < len(setup); i++ {
		if setup[i][0] == "AUTH" || (setup[i][0] == "HELLO" && len(setup[i]) > 1 && setup[i][1] == "2") {
			return i
		}
	}
	return len(setup)
}

func (c *Ctx) ipCase(o ipOpt, reject bool, f ipFault, public bool) {
	c.ipCaseOn(o, reject, f, public, false)
	if u, _ := o.creds(); u != "" && f.at < 0 && o.Fn != "err" {
		c.ipCaseOn(o, reject, f, public, true) // same options against a server whose default user is open
	}
}

func (c *Ctx) ipCaseOn(o ipOpt, reject bool, f ipFault, public, openDefault bool) {
	run := runConnOn(o, reject, f, public, openDefault)
	k := splitAttempts(run.setup)
	if f.kind == "x" && f.at >= 0 && f.at < len(run.setup) { // the drop hit a setup command (not the user command after them)
		// a dropped connection: DoMulti's abort path hands the SAME transport error to every member of
		// the pipelined batch, also to those whose replies had arrived (pipe.go syncDoMulti `abort:`)
		lo, hi := 0, k
		if f.at >= k {
			lo, hi = k, len(run.setup)
		}
		for i := lo; i < hi; i++ {
			run.classes[i] = 'x'
		}
	}
	verb := "conn"
	if public {
		verb = "client"
	}
	op := fmt.Sprintf("%s %s %s %s %d", verb, o.words(), dash(string(run.classes[:k])), dash(string(run.classes[k:])), len(run.setup))
	c.Emit(op, run.res+" "+cmdsText(run.setup), f.at >= 0 || reject)
	c.Hit(run.res)
	if f.at >= 0 {
		c.Hit("fault:" + f.kind)
	}
	// oracle: judged by the specification from the observed log
	// (assumption: a server answers "unknown command 'HELLO'" only to HELLO; the injected look-alike
	// error on other steps is tolerated by the RESP2 loop as coded and is exercised on model lines only)
	realistic := true
	for i, cl := range run.classes {
		if cl == 'h' && run.setup[i][0] != "HELLO" {
			realistic = false
		}
	}
	if realistic {
		orc := fmt.Sprintf("!sess %s served=%s proto=%d log=%s rep=%s", o.words(), b01(run.served), run.proto, cmdsText(run.setup), dash(string(run.classes)))
		c.Emit(orc, "ok", false)
	}
	if run.served && f.at < 0 {
		// the session the server sees must be the one the options demand (judged on the server's state)
		c.Emit("!state "+o.words(), run.state, false)
		if u, _ := o.creds(); u != "" && run.user != u {
			key := "init:credentials-not-applied"
			if _, p := o.creds(); p == "" {
				key += ":username-without-password"
			}
			c.Fail(key, op, fmt.Sprintf("Username %q is configured but the served connection is authenticated as %q", u, run.user))
		}
		if openDefault {
			c.Hit("open-default-server")
		}
	}
	if run.res == "panic" {
		c.Fail("initplan:panic:az-info-on-nil-map", op, "_newPipe panics (assignment to entry in nil map, p.info) when HELLO is rejected and INFO SERVER reports availability_zone")
	}
	if run.served && run.firstUser >= 0 && run.firstUser < len(run.setup) {
		c.Fail("initplan:user-before-setup", op, fmt.Sprintf("user command at position %d of the connection precedes setup commands (%d setup commands logged)", run.firstUser, len(run.setup)))
	}
}

func (c *Ctx) ipReplay(lines []string) {
	for _, l := range lines {
		w := strings.Fields(l)
		if len(w) < 17 || (w[0] != "conn" && w[0] != "client") {
			continue // oracle lines are re-emitted by ipCase; sopt lines below
		}
		o := parseIPOpt(w[1:17])
		// the fault is not part of the op line (the model sees only reply classes): re-derive it from the classes
		reject, f := false, ipFault{at: -1}
		cls := strings.ReplaceAll(undash(w[17])+undash(w[18]), "-", "")
		for i := 0; i < len(cls); i++ {
			switch cls[i] {
			case 'h':
				if i == 0 || strings.Contains(l, "HELLO,2") {
					reject = true
				} else {
					f = ipFault{i, "h"}
				}
			case 'e':
				if f.at < 0 {
					f = ipFault{i, "e"}
				}
			case 'x':
				if f.at < 0 {
					f = ipFault{i, "x"}
				}
			}
		}
		c.ipCase(o, reject, f, w[0] == "client")
	}
}

// ipSentinel: the options of connections to the sentinels are derived by the real newSentinelOpt
// for every combination of data-node credentials x sentinel credentials (x client names); the real
// _newPipe then sets such a connection up against a fake sentinel that shares the ACL users of the
// data nodes, and the session the fake sees is judged: the authenticated user is Sentinel.Username
// (the default user, without any AUTH, when both sentinel credential fields are empty) and NEVER the
// data-node user; the data-node password never appears on the sentinel connection.
func (c *Ctx) ipSentinel() {
	ctx := context.Background()
	for m := 0; m < 64; m++ {
		bit := func(i int, v string) string {
			if m&(1<<i) != 0 {
				return v
			}
			return ""
		}
		o := rueidis.ClientOption{Username: bit(0, "app"), Password: bit(1, "nodepw"), ClientName: bit(4, "n1"), SelectDB: m % 3}
		o.Sentinel.Username, o.Sentinel.Password, o.Sentinel.ClientName = bit(2, "sen"), bit(3, "senpw"), bit(5, "sn")
		o.Sentinel.MasterSet = "ms"
		so := rueidis.VerifSentinelOpt(o)
		op := fmt.Sprintf("sopt %s %s %s %d %s %s %s", dash(o.Username), dash(o.Password), dash(o.ClientName), o.SelectDB,
			dash(o.Sentinel.Username), dash(o.Sentinel.Password), dash(o.Sentinel.ClientName))
		ans := fmt.Sprintf("%s %s %s %d %v", dash(so.Username), dash(so.Password), dash(so.ClientName), so.SelectDB, so.AuthCredentialsFn == nil)
		c.Emit(op, ans, true)
		c.Emit("!"+op, ans, false)
		usedNode := (so.Username != o.Sentinel.Username && so.Username == o.Username) || (so.Password != o.Sentinel.Password && so.Password == o.Password)
		if usedNode {
			c.Fail("init:sentinel-connection-used-node-credentials", op, fmt.Sprintf("newSentinelOpt gave the sentinel connection user %q / password %q: the data-node credentials instead of the sentinel ones (%q / %q)", so.Username, so.Password, o.Sentinel.Username, o.Sentinel.Password))
		}
		// end to end: set the sentinel connection up against a fake sentinel
		users := map[string]string{}
		if o.Username != "" {
			users[o.Username] = o.Password // the sentinel shares the ACL of the data nodes
		}
		if o.Sentinel.Username != "" {
			users[o.Sentinel.Username] = o.Sentinel.Password
		} else if o.Sentinel.Password != "" {
			users["default"] = o.Sentinel.Password
		}
		srv := fakeredis.New(fakeredis.Options{Users: users, Role: "sentinel"})
		so.DialCtxFn, so.ReadBufferEachConn, so.WriteBufferEachConn, so.RingScaleEachConn, so.DisableCache = srv.Dial, 4096, 4096, 4, true
		so.Dialer.Timeout = 2 * time.Second
		state := "failed"
		vp, err := rueidis.VerifNewPipe(ctx, func(ctx context.Context) (net.Conn, error) { return srv.Dial(ctx, "sentinel:1", nil, nil) }, &so, false)
		if err == nil {
			if ci, ok := srv.Conn(1); ok {
				state = fmt.Sprintf("user=%s db=%d name=%s", ci.User, ci.DB, dash(ci.Name))
			}
			vp.Close()
		}
		leaked := false
		for _, e := range srv.ConnLog(1) {
			for _, w := range e.Argv {
				if o.Password != "" && w == o.Password {
					leaked = true
				}
			}
		}
		c.Emit("!sstate "+strings.TrimPrefix(op, "sopt "), fmt.Sprintf("%s leaked=%s", state, b01(leaked)), false)
		want := o.Sentinel.Username
		if want == "" {
			want = "default"
		}
		if leaked || (err == nil && state != fmt.Sprintf("user=%s db=0 name=%s", want, dash(o.Sentinel.ClientName))) || err != nil {
			c.Fail("init:sentinel-connection-used-node-credentials", op, fmt.Sprintf("sentinel connection: %s, node password on the wire: %v (want user=%s, db 0, the sentinel client name)", state, leaked, want))
		}
		srv.Close()
	}
}

func init() {
	suites["initplan"] = suite{
		rule: "a case counts as non-trivial when HELLO is rejected or a setup step is made to fail (error reply, noHello-looking error, connection drop)",
		run: func(c *Ctx) {
			c.ipSentinel()
			type cred struct{ u, p, fn, fu, fp string }
			creds := []cred{{}, {p: "pw"}, {u: "u1", p: "pw"}, {u: "u1"}, {u: "junk", p: "junk", fn: "ok", fu: "u2", fp: "pw2"}, {fn: "ok", fp: "pw3"}, {u: "u1", p: "pw", fn: "err"}}
			var all []ipOpt
			for _, cr := range creds {
				for m := 0; m < 1<<7; m++ {
					for _, ro := range []int{0, 1, 2} {
						for _, si := range []string{"dflt", "off", "pair"} {
							o := ipOpt{U: cr.u, P: cr.p, Fn: cr.fn, FnU: cr.fu, FnP: cr.fp, SI: si, TR: "nil"}
							if o.Fn == "" {
								o.Fn = "none"
							}
							if m&1 != 0 {
								o.Name = "nm"
							}
							if m&2 != 0 {
								o.DB = 5
							}
							o.NT, o.NE, o.DC, o.R2 = m&4 != 0, m&8 != 0, m&16 != 0, m&32 != 0
							if m&64 != 0 {
								o.TR = []string{"empty", "NOLOOP", "OPTOUT", "BCAST,PREFIX,a:"}[c.Rng.IntN(4)]
							}
							o.RO = ro > 0
							if ro == 2 {
								o.MS = "ms"
							}
							// remaining dimensions are sampled
							o.RD, o.AZ, o.R2PS = c.Rng.IntN(4) == 0, c.Rng.IntN(4) == 0, c.Rng.IntN(8) == 0
							all = append(all, o)
						}
					}
				}
			}
			// 1. every combination x protocol, no fault
			for _, o := range all {
				c.ipCase(o, false, ipFault{at: -1}, false)
				c.ipCase(o, true, ipFault{at: -1}, false)
			}
			// 2. every setup step failing, on sampled combinations
			n := c.N
			for i := 0; i < n; i++ {
				o := all[c.Rng.IntN(len(all))]
				reject := c.Rng.IntN(2) == 0
				base := runConn(o, reject, ipFault{at: -1}, false)
				for at := 0; at < len(base.setup); at++ {
					for _, kind := range []string{"e", "h", "x"} {
						c.ipCase(o, reject, ipFault{at, kind}, false)
					}
				}
			}
			// 3. the public client (NewClient + DialCtxFn): ReplicaOnly is refused by the single client
			for i := 0; i < n; i++ {
				o := all[c.Rng.IntN(len(all))]
				o.RO, o.R2PS, o.RD, o.MS = false, false, false, ""
				reject := c.Rng.IntN(2) == 0
				f := ipFault{at: -1}
				if c.Rng.IntN(2) == 0 {
					f = ipFault{c.Rng.IntN(6), []string{"e", "h", "x"}[c.Rng.IntN(3)]}
				}
				c.ipCase(o, reject, f, true)
			}
		},
		replay: func(c *Ctx, lines []string) { c.ipReplay(lines) },
	}
}
