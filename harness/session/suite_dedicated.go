package main

// Suites for C25 (dedicated clients):
//   dedicated — differential: real dedicatedSingleClient over the real mux and pool with logging
//               wires (VerifDedicatedRig) against Rv.Dedicated.step on random method sequences
//               (use after release, double release, Close after release, hooks, invalidation hooks).
//   dedicatede2e — end to end over fakeredis: concurrent dedicated WATCH/MULTI/EXEC sessions (some
//               with Pub/Sub hooks or invalidation hooks) while shared-pipeline and blocking-pool
//               traffic runs; per-connection command logs are judged by the isolation oracle.

import (
	"context"
	"errors"
	"fmt"
	"os"
	"os/exec"
	"strings"
	"sync"
	"time"

	"github.com/redis/rueidis"
	"github.com/redis/rueidis/zzverif/fakeredis"
)

func canonCalls(log []string) string {
	var out []string
	for _, l := range log {
		f := strings.SplitN(l, " ", 3) // "w1 do CMD"
		switch f[1] {
		case "do":
			if len(f) > 2 && f[2] == "CLIENT_TRACKING_OFF" {
				out = append(out, "trackingoff")
			} else {
				out = append(out, "do")
			}
		case "multi":
			out = append(out, fmt.Sprintf("multi:%d", len(strings.Split(f[2], ","))))
		case "receive":
			out = append(out, "receive")
		case "sethooks":
			var m, s, i bool
			fmt.Sscanf(f[2], "msg=%t sub=%t inv=%t", &m, &s, &i)
			out = append(out, "sethooks:"+b01(m)+","+b01(s)+","+b01(i))
		case "clean", "close":
			out = append(out, f[1])
		}
	}
	if len(out) == 0 {
		return "-"
	}
	return strings.Join(out, " ")
}

func recycledErr(err error) string {
	if errors.Is(err, rueidis.ErrDedicatedClientRecycled) {
		return "recycled"
	}
	return "ok"
}

func chanErr(ch <-chan error) string {
	select {
	case err := <-ch:
		return recycledErr(err)
	default:
		return "ok"
	}
}

func (c *Ctx) dedicatedDifferential() {
	ctx := context.Background()
	for ep := 0; ep < c.N; ep++ {
		rig := rueidis.VerifNewDedicatedRig()
		cl := rig.Client()
		for sess := 0; sess < 2; sess++ {
			dc, release := cl.Dedicate()
			rig.Log()
			c.Emit("reset", "ok", false)
			released := false
			for i := 0; i < 10; i++ {
				var op, ret string
				switch r := c.Rng.IntN(16); {
				case r < 3:
					op, ret = "do", recycledErr(dc.Do(ctx, dc.B().Ping().Build()).Error())
				case r < 5:
					n := c.Rng.IntN(3)
					cmds := make(rueidis.Commands, n)
					for j := range cmds {
						cmds[j] = dc.B().Ping().Build()
					}
					res := dc.DoMulti(ctx, cmds...)
					op, ret = fmt.Sprintf("multi %d", n), "nilempty"
					if n > 0 {
						ret = recycledErr(res[0].Error())
					}
				case r < 6:
					op, ret = "receive", recycledErr(dc.Receive(ctx, dc.B().Subscribe().Channel("x").Build(), func(rueidis.PubSubMessage) {}))
				case r < 8:
					m, s := c.Rng.IntN(2) == 0, c.Rng.IntN(2) == 0
					h := rueidis.PubSubHooks{}
					if m {
						h.OnMessage = func(rueidis.PubSubMessage) {}
					}
					if s {
						h.OnSubscription = func(rueidis.PubSubSubscription) {}
					}
					ch := dc.SetPubSubHooks(h)
					op, ret = "sethooks "+b01(m)+" "+b01(s), "ok"
					if ch != nil {
						ret = chanErr(ch)
					}
				case r < 10:
					on := c.Rng.IntN(3) != 0
					var fn func([]rueidis.RedisMessage)
					if on {
						fn = func([]rueidis.RedisMessage) {}
					}
					ch := dc.SetOnInvalidations(fn)
					op, ret = "setinv "+b01(on), "ok"
					if ch != nil {
						ret = chanErr(ch)
					}
				case r < 12:
					dc.Close()
					op, ret = "close", "void"
					if released {
						c.Hit("close-after-release")
					}
					released = true
				default:
					release()
					op, ret = "release", "void"
					released = true
				}
				calls := canonCalls(rig.Log())
				if released && op != "release" && op != "close" && calls != "-" {
					c.Fail("dedicated:call-after-release-reaches-wire", op, "a recycled client still called the wire: "+calls)
				}
				c.Emit(op, ret+" "+calls, released)
			}
			release()
		}
	}
}

type dsess struct {
	id    int
	kind  int // 0 plain tx, 1 pubsub hooks, 2 invalidation hook
	needs bool
}

func (c *Ctx) dedicatedE2E() {
	bg := context.Background()
	for ep := 0; ep < c.N; ep++ {
		srv := fakeredis.New(fakeredis.Options{})
		cl, err := rueidis.NewClient(rueidis.ClientOption{InitAddress: []string{"fake:1"}, DialCtxFn: srv.Dial, ForceSingleClient: true,
			PipelineMultiplex: -1, DisableRetry: true, BlockingPoolSize: 3})
		if err != nil {
			panic(err)
		}
		var wg sync.WaitGroup
		stop := make(chan struct{})
		// shared pipeline traffic (connection 1) and blocking-pool traffic (pool wires)
		for g := 0; g < 2; g++ {
			wg.Add(1)
			go func(g int) {
				defer wg.Done()
				for n := 0; ; n++ {
					select {
					case <-stop:
						return
					default:
					}
					if g == 0 {
						cl.Do(bg, cl.B().Set().Key(fmt.Sprintf("shared:%d", n)).Value("v").Build())
					} else {
						cl.Do(bg, cl.B().Blpop().Key(fmt.Sprintf("blk:%d", n)).Timeout(1).Build()) // unknown to the fake: an error reply, still a pool round trip
					}
				}
			}(g)
		}
		var mu sync.Mutex
		var sessions []dsess
		var swg sync.WaitGroup
		nextID := 0
		for w := 0; w < 3; w++ {
			swg.Add(1)
			kinds := []int{c.Rng.IntN(3), c.Rng.IntN(3), c.Rng.IntN(3)}
			go func(kinds []int) {
				defer swg.Done()
				for _, kind := range kinds {
					mu.Lock()
					nextID++
					s := dsess{id: nextID, kind: kind, needs: kind != 0}
					sessions = append(sessions, s)
					mu.Unlock()
					tag := fmt.Sprintf("s%d:", s.id)
					err := cl.Dedicated(func(dc rueidis.DedicatedClient) error {
						switch kind {
						case 1:
							dc.SetPubSubHooks(rueidis.PubSubHooks{OnMessage: func(rueidis.PubSubMessage) {}})
							dc.Do(bg, dc.B().Subscribe().Channel(tag+"ch").Build())
						case 2:
							dc.Do(bg, dc.B().ClientTracking().On().Build())
							dc.SetOnInvalidations(func([]rueidis.RedisMessage) {})
							dc.Do(bg, dc.B().Get().Key(tag+"t").Build())
						}
						for round := 1; round <= 2; round++ {
							if err := dc.Do(bg, dc.B().Watch().Key(tag+"k").Build()).Error(); err != nil {
								return err
							}
							dc.Do(bg, dc.B().Get().Key(tag+"k").Build())
							res := dc.DoMulti(bg, dc.B().Multi().Build(), dc.B().Set().Key(tag+"k").Value("v").Build(), dc.B().Incr().Key(tag+"ctr").Build(), dc.B().Exec().Build())
							vals, err := res[3].ToArray()
							if err != nil || len(vals) != 2 {
								return fmt.Errorf("EXEC of session %d answered %v (%v): the transaction was disturbed", s.id, vals, err)
							}
							if n, _ := vals[1].AsInt64(); n != int64(round) {
								return fmt.Errorf("INCR of session %d answered %d, want %d", s.id, n, round)
							}
						}
						return nil
					})
					if err != nil {
						mu.Lock()
						c.Fail("dedicated:transaction-disturbed", fmt.Sprintf("session kind=%d", kind), err.Error())
						mu.Unlock()
					}
				}
			}(kinds)
		}
		swg.Wait()
		close(stop)
		wg.Wait()

		// per-connection judgement
		log := srv.Log()
		byConn := map[int][]fakeredis.Entry{}
		for _, e := range log {
			byConn[e.Conn] = append(byConn[e.Conn], e)
		}
		for _, s := range sessions {
			tag := fmt.Sprintf("s%d:", s.id)
			conn := 0
			for _, e := range log {
				if len(e.Argv) > 1 && strings.HasPrefix(e.Argv[1], tag) {
					if conn != 0 && conn != e.Conn {
						c.Fail("dedicated:session-on-two-connections", tag, fmt.Sprintf("commands of one dedicated session on connections %d and %d", conn, e.Conn))
					}
					conn = e.Conn
				}
			}
			var toks, cleanup []string
			seenMine, lastMine := false, -1
			entries := byConn[conn]
			for i, e := range entries {
				if len(e.Argv) > 1 && strings.HasPrefix(e.Argv[1], tag) {
					lastMine = i
				}
			}
			for i, e := range entries {
				name := strings.ToUpper(e.Argv[0])
				t := "o"
				switch {
				case len(e.Argv) > 1 && strings.HasPrefix(e.Argv[1], tag):
					t, seenMine = "m", true
				case !seenMine:
					continue // setup and earlier users
				case name == "MULTI" || name == "EXEC":
					t = "t"
				case name == "UNSUBSCRIBE" || name == "PUNSUBSCRIBE" || name == "SUNSUBSCRIBE" || name == "DISCARD" || name == "PING" ||
					(name == "CLIENT" && len(e.Argv) == 3 && e.Argv[1] == "TRACKING" && e.Argv[2] == "OFF"):
					t = "c"
				case name == "CLIENT" && s.kind == 2 && i < lastMine:
					t = "m" // the session's own CLIENT TRACKING ON
				}
				if name == "CLIENT" && s.kind == 2 && !seenMine {
					continue
				}
				toks = append(toks, t)
				if i > lastMine && t == "c" && name != "PING" && len(cleanup) < 5 && (len(toks) < 2 || true) {
					cleanup = append(cleanup, strings.Join(e.Argv, "_"))
				}
				if i > lastMine && t == "o" {
					break
				}
			}
			c.Emit(fmt.Sprintf("!iso needs=%s %s", b01(s.needs), strings.Join(toks, " ")), "ok", true)
			if s.needs {
				// the wire is in background mode for sure: the clean-up commands are those of the model
				want := 4
				if s.kind == 2 {
					want = 5
				}
				if len(cleanup) > want {
					cleanup = cleanup[:want]
				}
				c.Emit(fmt.Sprintf("clean 0 1 7 %s", b01(s.kind == 2)), strings.Join(cleanup, " "), true)
			}
			c.Hit(fmt.Sprintf("session-kind-%d", s.kind))
		}
		// nothing the sessions set up survives on the server
		for id := 2; id <= srv.NumConns(); id++ {
			if ci, ok := srv.Conn(id); ok && !ci.Closed && (ci.Tracking && id != 1 && hasTrackingOff(byConn[id]) || len(ci.Subs) > 0) {
				c.Fail("dedicated:leftover-after-release", fmt.Sprintf("conn %d", id), fmt.Sprintf("tracking=%v subs=%v after all sessions were released", ci.Tracking, ci.Subs))
			}
		}
		// Close after release must not touch the wire of the next holder (fix d3f54a6)
		dc1, rel1 := cl.Dedicate()
		dc1.Do(bg, dc1.B().Ping().Build())
		rel1()
		if !errors.Is(dc1.Do(bg, dc1.B().Ping().Build()).Error(), rueidis.ErrDedicatedClientRecycled) {
			c.Fail("dedicated:call-after-release-reaches-wire", "do", "Do after release did not answer ErrDedicatedClientRecycled")
		}
		dc2, rel2 := cl.Dedicate()
		dc1.Close()
		if err := dc2.Do(bg, dc2.B().Ping().Build()).Error(); err != nil {
			c.Fail("dedicated:close-after-release-closes-recycled-wire", "release; Dedicate; old.Close()", "the new holder's command failed with: "+err.Error())
		}
		rel2()
		cl.Close()
		srv.Close()
	}
	c.multiLeakObservations()
	c.retryReleaseEpisodes()
	c.clusterStaleEpisodes()
	c.abandonedBlockingEpisodes()
}

// abandonedBlockingEpisodes: a blocking command issued through the SHARED client is abandoned by its
// caller (context cancelled) while the server has not answered (the fake withholds the reply behind a
// gate, like a BLPOP that is still blocked); the pipe itself is healthy. The next Dedicate() must get
// a connection on which nobody's command is pending, and its own command must be served.
func (c *Ctx) abandonedBlockingEpisodes() {
	bg := context.Background()
	for _, variant := range []string{"do", "multi", "answered"} {
		srv := fakeredis.New(fakeredis.Options{})
		gate := make(chan struct{})
		if variant == "answered" {
			close(gate) // control: the blocking command is answered, its wire may be reused
		}
		srv.AddRule(fakeredis.Rule{Match: fakeredis.Cmd("BLPOP"), Reply: []byte("*-1\r\n"), Gate: gate})
		cl, err := rueidis.NewClient(rueidis.ClientOption{InitAddress: []string{"fake:1"}, DialCtxFn: srv.Dial, ForceSingleClient: true,
			PipelineMultiplex: -1, DisableRetry: true})
		if err != nil {
			panic(err)
		}
		ctx, cancel := context.WithCancel(bg)
		done := make(chan error, 1)
		go func() {
			if variant == "multi" {
				done <- cl.DoMulti(ctx, cl.B().Blpop().Key("blk").Timeout(0).Build(), cl.B().Blpop().Key("blk").Timeout(0).Build())[0].NonRedisError()
			} else {
				done <- cl.Do(ctx, cl.B().Blpop().Key("blk").Timeout(0).Build()).NonRedisError()
			}
		}()
		blocked := func() bool {
			for _, e := range srv.Log() {
				if e.Argv[0] == "BLPOP" {
					return true
				}
			}
			return false
		}
		if !srv.WaitFor(2*time.Second, blocked) {
			panic("BLPOP did not reach the fake")
		}
		early := variant != "answered"
		if early {
			cancel()
		}
		var rerr error
		select {
		case rerr = <-done:
		case <-time.After(2 * time.Second):
			c.Fail("dedicated:blocking-call-stuck", "blocking "+variant, "the abandoned blocking call did not return")
		}
		cancel()
		// model line: what happens to the wire
		dc, rel := cl.Dedicate()
		tctx, tcancel := context.WithTimeout(bg, 500*time.Millisecond)
		derr := dc.Do(tctx, dc.B().Get().Key("dk").Build()).NonRedisError()
		tcancel()
		conn, pending, blockConn := 0, 0, 0
		answered := map[uint64]bool{}
		for _, o := range srv.Outs() {
			if !o.IsPush {
				answered[o.ID] = true
			}
		}
		// a gated reply is queued (logged in Outs) but not written: treat the gated BLPOP as pending while the gate is shut
		for _, e := range srv.Log() {
			if e.Argv[0] == "BLPOP" {
				blockConn = e.Conn
			}
			if len(e.Argv) == 2 && e.Argv[0] == "GET" && e.Argv[1] == "dk" {
				conn = e.Conn
			}
		}
		if early && conn != 0 && conn == blockConn {
			for _, e := range srv.ConnLog(conn) {
				if e.Argv[0] == "BLPOP" {
					pending++
				}
			}
		}
		kept := "discarded"
		if conn != 0 && conn == blockConn {
			kept = "kept"
		}
		c.Emit(fmt.Sprintf("blocking early=%s", b01(early)), kept, true)
		served := "ok"
		if derr != nil {
			served = "err"
		}
		ans := fmt.Sprintf("pending=%d served=%s", pending, served)
		c.Emit("!fresh "+variant, ans, false)
		if pending != 0 || derr != nil {
			c.Fail("dedicated:wire-with-pending-foreign-command", "blocking "+variant, fmt.Sprintf("after a shared-client blocking command was abandoned (%v) the next Dedicate() got connection %d with %d command(s) of another caller still pending; its own GET: %v", rerr, conn, pending, derr))
		}
		c.Hit("abandoned-blocking:" + variant)
		if early {
			close(gate)
		}
		rel()
		cl.Close()
		srv.Close()
	}
}

// clusterStaleEpisodes: the CLUSTER client's DedicatedClient (cluster.go dedicatedClusterClient, which
// keeps its wire pointer after release). Session A runs a command (so a wire is acquired) and is
// released / closed / ends as Dedicated(fn); session B gets a wire of the same node (the same one
// unless A closed it), installs hooks and subscribes; then the stale handle A calls one method.
// Every method of a released handle must answer the recycled error (Close: nothing), nothing of A may
// reach the server, B keeps its hooks and still receives its messages.
func (c *Ctx) clusterStaleEpisodes() {
	bg := context.Background()
	for _, end := range []string{"release", "close", "fn"} {
		for _, meth := range []string{"do", "multi", "receive", "sethooks", "setinv", "close"} {
			srv := fakeredis.New(fakeredis.Options{Cluster: true})
			cl, err := rueidis.NewClient(rueidis.ClientOption{InitAddress: []string{"127.0.0.1:6379"}, DialCtxFn: srv.Dial, DisableRetry: true, PipelineMultiplex: -1})
			if err != nil || cl.Mode() != rueidis.ClientModeCluster {
				panic(fmt.Sprint("no cluster client over the fake: ", err))
			}
			pub, err := rueidis.NewClient(rueidis.ClientOption{InitAddress: []string{"127.0.0.1:6379"}, DialCtxFn: srv.Dial, ForceSingleClient: true, DisableCache: true, DisableRetry: true})
			if err != nil {
				panic(err)
			}
			c.Emit("creset", "ok", false)
			var a rueidis.DedicatedClient
			switch end {
			case "fn":
				cl.Dedicated(func(dc rueidis.DedicatedClient) error {
					a = dc
					return dc.Do(bg, dc.B().Get().Key("{t}a").Build()).NonRedisError()
				})
				c.Emit("cret cdo", "ok", false)
				c.Emit("cret crelease", "void", false)
			default:
				var rel func()
				a, rel = cl.Dedicate()
				a.Do(bg, a.B().Get().Key("{t}a").Build())
				c.Emit("cret cdo", "ok", false)
				if end == "release" {
					rel()
					c.Emit("cret crelease", "void", false)
				} else {
					a.Close()
					c.Emit("cret cclose", "void", false)
				}
			}
			// the next session on that node
			b, relB := cl.Dedicate()
			b.Do(bg, b.B().Get().Key("{t}b").Build())
			var mu sync.Mutex
			var gotB, gotA []string
			chB := b.SetPubSubHooks(rueidis.PubSubHooks{OnMessage: func(m rueidis.PubSubMessage) { mu.Lock(); gotB = append(gotB, m.Message); mu.Unlock() }})
			b.Do(bg, b.B().Subscribe().Channel("{t}ch").Build())
			mark := len(srv.Log())
			staleHooks := rueidis.PubSubHooks{OnMessage: func(m rueidis.PubSubMessage) { mu.Lock(); gotA = append(gotA, m.Message); mu.Unlock() }}
			ret, op := "", ""
			switch meth {
			case "do":
				op, ret = "cdo", recycledErr(a.Do(bg, a.B().Get().Key("{t}stale").Build()).Error())
			case "multi":
				op, ret = "cmulti 2", recycledErr(a.DoMulti(bg, a.B().Get().Key("{t}stale").Build(), a.B().Get().Key("{t}stale").Build())[0].Error())
			case "receive":
				rctx, cancel := context.WithTimeout(bg, 300*time.Millisecond) // a wrongly accepted Receive would block
				op, ret = "creceive", recycledErr(a.Receive(rctx, a.B().Subscribe().Channel("{t}stale").Build(), func(rueidis.PubSubMessage) {}))
				cancel()
			case "sethooks":
				op, ret = "csethooks 1 0", "ok"
				if ch := a.SetPubSubHooks(staleHooks); ch != nil {
					ret = chanErr(ch)
				}
			case "setinv":
				op, ret = "csetinv 1", "ok"
				if ch := a.SetOnInvalidations(func([]rueidis.RedisMessage) {}); ch != nil {
					ret = chanErr(ch)
				}
			case "close":
				a.Close()
				op, ret = "cclose", "void"
			}
			c.Emit("cret "+op, ret, true)
			// judgement
			what := fmt.Sprintf("cluster dedicated client ended by %s, then %s", end, meth)
			if meth != "close" && ret != "recycled" {
				c.Fail("dedicated:cluster-released-client-accepted", "cret "+op, what+": the released handle was accepted instead of answering ErrDedicatedClientRecycled")
			}
			for _, e := range srv.Log()[mark:] {
				if len(e.Argv) > 1 && strings.Contains(e.Argv[1], "stale") {
					c.Fail("dedicated:cluster-released-client-accepted", "cret "+op, what+": a command of the released handle reached the server: "+strings.Join(e.Argv, " "))
				}
			}
			intact := "intact"
			select {
			case err, open := <-chB:
				intact = fmt.Sprintf("hook-channel-ended(%v,%v)", err, open)
			default:
			}
			pub.Do(bg, pub.B().Publish().Channel("{t}ch").Message("m1").Build())
			b.Do(bg, b.B().Ping().Build())
			for dl := time.Now().Add(time.Second); time.Now().Before(dl); time.Sleep(100 * time.Microsecond) {
				mu.Lock()
				n := len(gotB)
				mu.Unlock()
				if n > 0 {
					break
				}
			}
			mu.Lock()
			if intact == "intact" && strings.Join(gotB, ",") != "m1" {
				intact = fmt.Sprintf("message-lost(next session got [%s], stale handle got [%s])", strings.Join(gotB, ","), strings.Join(gotA, ","))
			}
			mu.Unlock()
			ans := ret + " next-session=" + intact
			c.Emit(fmt.Sprintf("!cstale %s %s", meth, end), ans, false)
			if intact != "intact" {
				c.Fail("dedicated:cluster-stale-call-disturbed-next-session", "cret "+op, what+": "+intact)
			}
			c.Hit("cluster-stale:" + meth)
			relB()
			pub.Close()
			cl.Close()
			srv.Close()
		}
	}
}

// retryReleaseEpisodes: a dedicated Do / DoMulti / Receive sits in its retry loop (the server answers
// LOADING, resp. the RESP2 Pub/Sub helper connection cannot be dialled, while the wire stays healthy);
// during a retry delay the client is released or closed, optionally the next Dedicate() takes the same
// wire and opens MULTI; then the delay ends. Nothing issued through the released handle may reach the
// server any more and the call must return ErrDedicatedClientRecycled.
func (c *Ctx) retryReleaseEpisodes() {
	bg := context.Background()
	for _, meth := range []string{"do", "multi", "receive"} {
		for _, how := range []string{"r", "c"} {
			for k := 0; k < 2; k++ {
				for _, other := range []bool{false, true} {
					c.retryReleaseEpisode(bg, meth, how, k, other)
				}
			}
		}
	}
}

func (c *Ctx) retryReleaseEpisode(bg context.Context, meth, how string, k int, other bool) {
	fails := k + 2 // retryable answers: one more than needed, so that a pass after the release would loop again
	var mu sync.Mutex
	dials, helperDials := 0, 0
	srv := fakeredis.New(fakeredis.Options{RejectHello: meth == "receive", OnDial: func(string) error {
		mu.Lock()
		defer mu.Unlock()
		if dials++; meth == "receive" && dials >= 3 { // 1: pipeline, 2: dedicated wire, 3..: the RESP2 Pub/Sub helper
			if helperDials++; helperDials <= fails {
				return errors.New("verif: helper connection refused")
			}
		}
		return nil
	}})
	defer srv.Close()
	srv.AddRule(fakeredis.Rule{Match: fakeredis.Cmd("GET", "rk1"), Err: "LOADING Redis is loading the dataset in memory", Times: fails})
	entered, proceed := make(chan int, 8), make(chan struct{})
	cl, err := rueidis.NewClient(rueidis.ClientOption{InitAddress: []string{"fake:1"}, DialCtxFn: srv.Dial, ForceSingleClient: true,
		PipelineMultiplex: -1, DisableCache: true, BlockingPoolSize: 1,
		RetryDelay: func(attempts int, _ rueidis.Completed, _ error) time.Duration {
			entered <- attempts
			<-proceed
			return 0
		}})
	if err != nil {
		panic(err)
	}
	defer cl.Close()
	dc, release := cl.Dedicate()
	dc.Do(bg, dc.B().Ping().Build()) // the dedicated wire exists (dial 2) before the call under test
	var ret error
	done := make(chan struct{})
	go func() {
		defer close(done)
		switch meth {
		case "do":
			ret = dc.Do(bg, dc.B().Get().Key("rk1").Build()).Error()
		case "multi":
			ret = dc.DoMulti(bg, dc.B().Get().Key("rk1").Build(), dc.B().Get().Key("rk2").Build())[0].Error()
		case "receive":
			ret = dc.Receive(bg, dc.B().Subscribe().Channel("rch").Build(), func(rueidis.PubSubMessage) {})
		}
	}()
	passes := func() int {
		if meth == "receive" {
			mu.Lock()
			defer mu.Unlock()
			return helperDials
		}
		n := 0
		for _, e := range srv.Log() {
			if len(e.Argv) == 2 && e.Argv[0] == "GET" && e.Argv[1] == "rk1" {
				n++
			}
		}
		return n
	}
	var rel2 func()
	var dc2 rueidis.DedicatedClient
	atRelease, byRelease, result := -1, 0, "" // byRelease: helper dials made by the hand-back itself (mux.Store reads and resets the hooks through the helper pipe)
	for i := 0; result == ""; i++ {
		select {
		case <-entered:
			if i == k {
				before := passes()
				if how == "r" {
					release()
				} else {
					dc.Close()
				}
				if other {
					dc2, rel2 = cl.Dedicate()
					dc2.Do(bg, dc2.B().Multi().Build()) // whatever the old handle still sends lands in here
				}
				atRelease = passes()
				byRelease = atRelease - before
			}
			proceed <- struct{}{}
		case <-done:
			result = "ok"
			if errors.Is(ret, rueidis.ErrDedicatedClientRecycled) {
				result = "recycled"
			}
		case <-time.After(2 * time.Second):
			result = "stuck"
		}
	}
	total := passes() - byRelease
	atRelease -= byRelease
	delays := make([]string, fails)
	for i := range delays {
		delays[i] = "n"
	}
	delays[k] = how
	op := fmt.Sprintf("%s %s", meth, strings.Join(delays, " "))
	ans := fmt.Sprintf("%s passes=%d", result, total)
	c.Emit("retry "+op, ans, true)
	c.Emit("!retry "+op, ans, false)
	if total > atRelease || result != "recycled" {
		c.Fail("dedicated:used-after-release:retry-loop", "retry "+op, fmt.Sprintf("%s through a dedicated client released during retry delay %d: %d pass(es) reached the server after the release returned, the call returned %q (want 0 and the recycled error)", meth, k, total-atRelease, result))
	}
	c.Hit("retry-release:" + meth)
	if dc2 != nil {
		dc2.Do(bg, dc2.B().Discard().Build())
		rel2()
	}
	release()
	if result == "stuck" { // unblock the caller (a Receive that subscribed on a wire it does not own)
		cl.Close()
		close(proceed)
		<-done
	}
}

// Observations outside the property text (reported, not failed): a dedicated session that returns
// with MULTI open. On a wire still in synchronous mode nothing is cleaned, so the next user of the
// connection is inside the transaction; on a wire in background mode the clean-up's UNSUBSCRIBE is
// answered QUEUED and the pipe's reader goroutine panics (run in a child process).
func (c *Ctx) multiLeakObservations() {
	bg := context.Background()
	srv := fakeredis.New(fakeredis.Options{})
	defer srv.Close()
	cl, err := rueidis.NewClient(rueidis.ClientOption{InitAddress: []string{"fake:1"}, DialCtxFn: srv.Dial, ForceSingleClient: true, PipelineMultiplex: -1, DisableRetry: true})
	if err != nil {
		panic(err)
	}
	defer cl.Close()
	cl.Dedicated(func(dc rueidis.DedicatedClient) error {
		dc.Do(bg, dc.B().Multi().Build())
		return nil
	})
	cl.Dedicated(func(dc rueidis.DedicatedClient) error {
		if v, _ := dc.Do(bg, dc.B().Get().Key("leak").Build()).ToString(); v == "QUEUED" {
			c.Hit("observation:open-multi-leaks-to-next-user")
			dc.Do(bg, dc.B().Discard().Build())
		}
		return nil
	})
	out, err := exec.Command(os.Args[0], "-child-multipanic").CombinedOutput()
	if err != nil && strings.Contains(string(out), "MULTI/EXEC") {
		c.Hit("observation:open-multi-release-panics-reader")
	}
}

func init() {
	childHooks = append(childHooks, func(args []string) bool {
		if args[0] != "-child-multipanic" {
			return false
		}
		bg := context.Background()
		srv := fakeredis.New(fakeredis.Options{})
		cl, err := rueidis.NewClient(rueidis.ClientOption{InitAddress: []string{"fake:1"}, DialCtxFn: srv.Dial, ForceSingleClient: true, PipelineMultiplex: -1, DisableRetry: true})
		if err != nil {
			panic(err)
		}
		cl.Dedicated(func(dc rueidis.DedicatedClient) error {
			dc.SetPubSubHooks(rueidis.PubSubHooks{OnMessage: func(rueidis.PubSubMessage) {}}) // background mode
			dc.Do(bg, dc.B().Multi().Build())
			return nil // returns with MULTI open: release cleans up inside the transaction
		})
		time.Sleep(200 * time.Millisecond)
		return true
	})
}

func hasTrackingOff(es []fakeredis.Entry) bool {
	for _, e := range es {
		if len(e.Argv) == 3 && e.Argv[0] == "CLIENT" && e.Argv[1] == "TRACKING" && e.Argv[2] == "OFF" {
			return true
		}
	}
	return false
}

func init() {
	suites["dedicated"] = suite{
		rule: "a case counts when the op happens after the client was released or closed",
		run:  func(c *Ctx) { c.dedicatedDifferential() },
	}
	suites["dedicatede2e"] = suite{
		rule: "every dedicated session is judged on the command log of its connection while shared-pipeline and blocking-pool traffic runs",
		run:  func(c *Ctx) { c.dedicatedE2E() },
		replay: func(c *Ctx, lines []string) { // retry-loop episodes are replayable from their op line
			for _, l := range lines {
				w := strings.Fields(l)
				if len(w) < 3 || w[0] != "retry" {
					continue
				}
				for k, d := range w[2:] {
					if d != "n" {
						c.retryReleaseEpisode(context.Background(), w[1], d, k, true)
					}
				}
			}
		},
	}
}
