package main

import (
	"context"
	"fmt"
	"os"
	"sort"
	"strconv"
	"strings"
	"sync/atomic"
	"time"

	"github.com/redis/rueidis"
)

func init() {
	suites["route"] = suite{
		rule: "episodes on a real clusterClient over scripted nodes, single-command paths: topology (1-4 shards, replicas, holes, CLUSTER SLOTS v7 / CLUSTER SHARDS v8, plain / SendToReplicas modes, MaxMovedRedirections 0-3, retry budget 0-2, seed outside the topology), table/rslots/conns dumps after every refresh, Do/DoCache with redirect chains up to depth 4 (MOVED/ASK to known, unknown and the same node, TRYAGAIN/LOADING/CLUSTERDOWN/transport/ERR/nil), key-less commands, unowned slots (ErrNoSlot after a refresh), topology change + refresh, DoMulti/DoMultiCache batches whose commands on one source node are answered MOVED→X and ASK→X in the same round (also next to a MULTI…EXEC block); '!sticky' lines judge where the next command on a slot starts after an ASK / MOVED met by the previous one (ASK to new and known nodes leaves the slot with its owner, MOVED to a new node moves it), '!route' lines compare the real _pick of boundary/random slots with the specification's owner computed from the topology description, '!trace' lines judge the observed per-node logs; non-trivial = op with at least one consumed injection or a table dump",
		run:  runRoute,
		replay: func(c *Ctx, lines []string) {
			runEpisodeLines(c, lines)
		},
	}
	suites["cluster"] = suite{
		rule: "episodes on a real clusterClient over scripted nodes: topology (1-5 shards, replicas, holes, CLUSTER SLOTS v7 / CLUSTER SHARDS v8, plain / SendToReplicas modes, MaxMovedRedirections 0-3, retry budget 0-2), table/rtable/conns dumps, _pickMulti/_pickMultiCache differentials, Do/DoCache/DoMulti/DoMultiCache with injected MOVED/ASK/TRYAGAIN/LOADING/CLUSTERDOWN/transport/ERR/nil replies on chosen (node, command) pairs (chains up to depth 4, unknown and self targets), MULTI…EXEC blocks, topology changes + refresh, abandoned batches (DoMulti/DoMultiCache with a done context: the connection answers the queued commands with the context error, keeps the caller's slice and compares its argv with what it was given when it consumes it after other callers' batches — 'consume' / '!consume'), hole-fill episodes (the cached table lacks a shard the cluster serves: the batch's first pick fails, refreshes and picks again, then a member / block member / EXEC is redirected); '!trace' lines evaluate the specification predicates on the real per-node logs; non-trivial = op whose script had at least one consumed injection or a batch split over 2+ nodes",
		run:  runCluster,
		replay: func(c *Ctx, lines []string) {
			runEpisodeLines(c, lines)
		},
	}
}

// ---- episode execution ---------------------------------------------------------------------------

type sfState struct {
	call     rueidis.VerifCall
	runs     int32
	release  chan struct{}
	returned chan int
	blocked  int // callers inside Do (leader or waiters)
	inflight bool
}

// stickyInfo: what the previous single command on a slot met (at most one redirect), see the '!sticky' line
type stickyInfo struct {
	valid     bool
	slot      int
	prev      string // none ask mv
	fresh     bool
	prevFirst string
	target    string
}

type episode struct {
	fired  bool // the client's delayed background refresh ran inside the episode
	sticky stickyInfo
	sf    *sfState
	s     *sim
	vc    *rueidis.VerifCluster
	opt   map[string]string
	out   [][2]string // (op line, answer)
	nt    []bool
	fails [][3]string
}

func (e *episode) emit(op, ans string, nontrivial bool) {
	e.out = append(e.out, [2]string{op, ans})
	e.nt = append(e.nt, nontrivial)
}

func selFixture(slot uint16, n int) int { return int(slot)%(n+2) - 1 }

func (e *episode) newClient() string {
	o := e.opt
	maxRedir, _ := strconv.Atoi(o["maxredir"])
	budget, _ := strconv.Atoi(o["budget"])
	var inits []string
	for _, h := range strings.Split(o["init"], ",") {
		inits = append(inits, unhx(h))
	}
	opt := &rueidis.ClientOption{
		InitAddress:  inits,
		DisableRetry: o["retry"] != "1",
		ClusterOption: rueidis.ClusterOption{
			MaxMovedRedirections: maxRedir,
		},
	}
	switch o["mode"] {
	case "ro":
		opt.ReplicaOnly = true
	case "rs":
		opt.SendToReplicas = func(cmd rueidis.Completed) bool { return cmd.IsReadOnly() }
		opt.ReplicaSelector = func(slot uint16, replicas []rueidis.NodeInfo) int { return selFixture(slot, len(replicas)) }
	case "rn":
		opt.SendToReplicas = func(cmd rueidis.Completed) bool { return cmd.IsReadOnly() }
		opt.ReadNodeSelector = func(slot uint16, nodes []rueidis.NodeInfo) int { return selFixture(slot, len(nodes)) }
	}
	delay := func(attempts int, _ rueidis.Completed, _ error) time.Duration {
		if attempts <= budget {
			return 0
		}
		return -1
	}
	vc, err := rueidis.VerifNewCluster(opt, e.s.mk, delay)
	e.vc = vc
	if err != nil {
		if vc == nil {
			return "fatal " + hx(err.Error())
		}
		return "err " + showResult(rueidis.NewErrorResult(err))
	}
	return "ok"
}

func runLength(addrs []string) string {
	var segs []string
	lo := -1
	for i := 0; i <= len(addrs); i++ {
		if lo >= 0 && (i == len(addrs) || addrs[i] != addrs[lo]) {
			segs = append(segs, fmt.Sprintf("%d-%d:%s", lo, i-1, addrs[lo]))
			lo = -1
		}
		if i < len(addrs) && lo < 0 && addrs[i] != "" {
			lo = i
		}
	}
	if len(segs) == 0 {
		return "empty"
	}
	return strings.Join(segs, " ")
}

// exec runs one op line against the real client and records the answer(s).
func (e *episode) exec(line string) {
	w := strings.Fields(line)
	if w[0] != "do" && w[0] != "cache" {
		e.sticky = stickyInfo{} // a refresh, a batch … may legitimately change where the slot routes
	}
	ctx := context.Background()
	switch w[0] {
	case "reset":
		e.opt = map[string]string{}
		for _, kv := range w[1:] {
			p := strings.SplitN(kv, "=", 2)
			e.opt[p[0]] = p[1]
		}
		ver, _ := strconv.Atoi(e.opt["ver"])
		e.s = newSim(ver)
		e.emit(line, "ok", false)
	case "serve":
		m, _ := parseTokens(w[1:])
		e.s.mu.Lock()
		e.s.topo = m
		e.s.mu.Unlock()
		e.emit(line, "ok", false)
	case "new":
		e.emit(line, e.newClient(), false)
	case "refresh":
		// twice: the first call may only have waited for a pending lazy refresh that started before `serve`
		e.s.mu.Lock()
		e.s.inRefresh = true
		e.s.mu.Unlock()
		err := e.vc.Refresh(ctx)
		if err == nil {
			err = e.vc.Refresh(ctx)
		}
		e.s.mu.Lock()
		e.s.armed, e.s.inRefresh = false, false
		e.s.mu.Unlock()
		if err != nil {
			e.emit(line, "err "+showResult(rueidis.NewErrorResult(err)), false)
		} else {
			e.emit(line, "ok", false)
		}
	case "table":
		addrs, _ := e.vc.WSlots()
		for i := range addrs {
			if addrs[i] != "" {
				addrs[i] = hx(addrs[i])
			}
		}
		e.emit(line, runLength(addrs), true)
	case "rslots":
		if !e.vc.HasRSlots() {
			e.emit(line, "nil", true)
			break
		}
		var out []string
		for _, sw := range w[1:] {
			slot, _ := strconv.Atoi(sw)
			var hs []string
			for _, a := range e.vc.RSlots(slot) {
				hs = append(hs, hx(a))
			}
			if len(hs) == 0 {
				hs = []string{"-"}
			}
			out = append(out, strings.Join(hs, ","))
		}
		e.emit(line, strings.Join(out, " "), true)
	case "conns":
		addrs, _, hidden := e.vc.Conns()
		var out []string
		for i, a := range addrs {
			out = append(out, hx(a)+map[bool]string{true: ":h", false: ":v"}[hidden[i]])
		}
		sort.Strings(out)
		if len(out) == 0 {
			out = []string{"-"}
		}
		e.emit(line, strings.Join(out, " "), false)
	case "do", "cache":
		// do <cmd> h=<hint> ; <inj>…   (the hint is filled in after the run: the node a key-less command went to)
		semi := indexOf(w, ";")
		spec := parseCmdSpec(w[1])
		e.loadScript(w[semi+1:])
		cl := e.vc.Client()
		cmd := spec.build(cl.B())
		e.register([]cmdSpec{spec}, []rueidis.Completed{cmd})
		knownBefore := map[string]bool{}
		{
			addrs, _, _ := e.vc.Conns()
			for _, a := range addrs {
				knownBefore[a] = true
			}
		}
		var res rueidis.RedisResult
		if w[0] == "cache" {
			res = cl.DoCache(ctx, rueidis.Cacheable(cmd), time.Minute)
		} else {
			res = cl.Do(ctx, cmd)
		}
		ans := showResult(res)
		hint := "-"
		e.s.mu.Lock()
		if len(e.s.events) > 0 {
			hint = hx(e.s.events[0].addr)
		}
		used := len(e.s.events) > 1
		e.s.mu.Unlock()
		canon, raw := e.s.drainLogs()
		w[2] = "h=" + hint
		e.emit(strings.Join(w, " "), ans+" | "+canon, used)
		e.oracle([]cmdSpec{spec}, []string{ans}, raw)
		// what did the previous command on this slot teach the client? (ASK: nothing; MOVED to a new node: the slot moved)
		e.s.mu.Lock()
		evs := append([]replyEvent(nil), e.s.events...)
		e.s.mu.Unlock()
		if st := e.sticky; st.valid && st.slot == spec.slot && spec.slot != 16384 && len(evs) > 0 && e.opt["mode"] == "plain" {
			nowFirst := hx(evs[0].addr)
			tg := "-"
			if st.target != "" {
				tg = hx(st.target)
			}
			e.emit(fmt.Sprintf("!sticky %s %d %s %s %s", st.prev, map[bool]int{true: 1}[st.fresh], hx(st.prevFirst), tg, nowFirst), "ok", true)
			if st.prev == "ask" && evs[0].addr == st.target && st.target != st.prevFirst {
				e.fails = append(e.fails, [3]string{"cluster:ask-rewrote-slot-table", strings.Join(w, " "),
					fmt.Sprintf("after an ASK from %s to %s the next command on slot %d was sent to %s first (the slot table was rewritten by a one-shot redirect)", st.prevFirst, st.target, spec.slot, st.target)})
			}
		}
		e.sticky = stickyInfo{}
		if spec.slot != 16384 && len(evs) >= 1 && len(evs) <= 2 {
			st := stickyInfo{valid: true, slot: spec.slot, prev: "none", prevFirst: evs[0].addr}
			mvPre, askPre := "e:"+hx("MOVED 1 "), "e:"+hx("ASK 1 ")
			cls := func(r string) string {
				switch {
				case strings.HasPrefix(r, mvPre):
					return "mv"
				case strings.HasPrefix(r, askPre):
					return "ask"
				case strings.HasPrefix(r, "x:"), strings.HasPrefix(r, "e:"+hx("TRYAGAIN")), strings.HasPrefix(r, "e:"+hx("LOADING")), strings.HasPrefix(r, "e:"+hx("CLUSTERDOWN")):
					return "retry"
				}
				return "none"
			}
			first, last := cls(evs[0].reply), cls(evs[len(evs)-1].reply)
			switch {
			case len(evs) == 1 && first == "none":
			case len(evs) == 2 && (first == "mv" || first == "ask") && last == "none":
				pre := mvPre
				if first == "ask" {
					pre = askPre
				}
				st.prev, st.target = first, unhx(evs[0].reply[len(pre):])
				st.fresh = !knownBefore[st.target]
				st.valid = evs[1].addr == st.target && st.target != st.prevFirst
			default:
				st.valid = false
			}
			e.sticky = st
		}
	case "consume", "!consume":
		v, detail := e.s.consume()
		e.emit(line, v, true)
		if v != "intact" && w[0] == "consume" {
			e.fails = append(e.fails, [3]string{"cluster:batch-recycled-before-written", line, detail})
		}
	case "multi", "mcache", "multix", "mcachex":
		if strings.HasSuffix(w[0], "x") { // the caller's context is done: the connection answers its queued commands with ctx.Err()
			cctx, cancel := context.WithCancel(ctx)
			cancel()
			ctx = cctx
		}
		semi := indexOf(w, ";")
		var specs []cmdSpec
		for _, cw := range w[1:semi] {
			specs = append(specs, parseCmdSpec(cw))
		}
		e.loadScript(w[semi+1:])
		cl := e.vc.Client()
		built := make([]rueidis.Completed, len(specs))
		for i, sp := range specs {
			built[i] = sp.build(cl.B())
		}
		e.register(specs, built)
		var rs []rueidis.RedisResult
		ans := recoverStr(func() string {
			if strings.HasPrefix(w[0], "mcache") {
				cts := make([]rueidis.CacheableTTL, len(built))
				for i, b := range built {
					cts[i] = rueidis.CT(rueidis.Cacheable(b), time.Minute)
				}
				rs = cl.DoMultiCache(ctx, cts...)
			} else {
				rs = cl.DoMulti(ctx, built...)
			}
			if len(rs) == 0 {
				return "none"
			}
			out := make([]string, len(rs))
			for i, r := range rs {
				out[i] = showResult(r)
			}
			return strings.Join(out, " ")
		})
		canon, raw := e.s.drainLogs()
		e.s.mu.Lock()
		used := len(e.s.events) > len(specs) || strings.Count(canon, "=") > 1
		e.s.mu.Unlock()
		if ans == "panic" {
			e.emit(line, "panic", true)
			break
		}
		e.emit(line, ans+" | "+canon, used)
		e.oracle(specs, strings.Fields(ans), raw)
	case "!route":
		// !route <ver> <tls> <desc…> ; <slot>… : where the real client routes a write to each slot
		semi := indexOf(w, ";")
		var out []string
		for _, sw := range w[semi+1:] {
			slot, _ := strconv.Atoi(sw)
			a := e.vc.PickAddr(uint16(slot), false)
			if a == "" {
				out = append(out, "-")
			} else {
				out = append(out, hx(a))
			}
		}
		e.emit(line, strings.Join(out, " "), true)
	case "sf-enter", "sf-delay":
		if e.sf == nil {
			e.sf = &sfState{release: make(chan struct{}), returned: make(chan int, 64)}
		}
		sf := e.sf
		fn := func() error {
			atomic.AddInt32(&sf.runs, 1)
			<-sf.release
			return nil
		}
		// No decision here depends on elapsed time: who leads is read off the call's own state changes, which happen
		// synchronously in the locked prefix of Do / DelayDo (cn++ ; ch set), and is confirmed by events (fn started,
		// callers released at sf-finish). The polls below only wait for an event that must come; their guard
		// reports "stuck" instead of guessing.
		waitFor := func(cond func() bool) bool {
			for dl := time.Now().Add(60 * time.Second); !cond(); time.Sleep(50 * time.Microsecond) {
				if time.Now().After(dl) {
					return false
				}
			}
			return true
		}
		runs0, cn0 := atomic.LoadInt32(&sf.runs), sf.call.Suppressing()
		lead, stuck := false, false
		if w[0] == "sf-enter" {
			id, _ := strconv.Atoi(w[1])
			flying := sf.call.InFlight() // the harness is the only source of callers: nobody else can start a flight now
			go func() {
				sf.call.Do(context.Background(), fn)
				sf.returned <- id
			}()
			stuck = !waitFor(func() bool { return sf.call.Suppressing() == cn0+1 }) // the locked prefix of Do has run
			sf.blocked++
			lead = !flying
			if lead { // a leader runs fn
				stuck = stuck || !waitFor(func() bool { return atomic.LoadInt32(&sf.runs) > runs0 })
			}
		} else {
			sf.call.DelayDo(0, fn)
			lead = sf.call.Suppressing() == cn0+1 // DelayDo counts itself only when it starts a flight
		}
		switch {
		case stuck:
			e.emit(line, "stuck", true)
		case lead:
			sf.inflight = true
			e.emit(line, "leader", true)
		case w[0] == "sf-enter":
			e.emit(line, "wait", true)
		default:
			e.emit(line, "skip", true)
		}
	case "sf-finish":
		if e.sf == nil {
			e.sf = &sfState{release: make(chan struct{}), returned: make(chan int, 64)}
		}
		sf := e.sf
		var rel []int
		if sf.inflight {
			sf.release <- struct{}{}
			for i := 0; i < sf.blocked; i++ {
				rel = append(rel, <-sf.returned)
			}
			for sf.call.InFlight() { // DelayDo's goroutine finishes on its own
				time.Sleep(50 * time.Microsecond)
			}
			sf.blocked, sf.inflight = 0, false
		}
		sort.Ints(rel)
		rs := "-"
		if len(rel) > 0 {
			ss := make([]string, len(rel))
			for i, r := range rel {
				ss[i] = strconv.Itoa(r)
			}
			rs = strings.Join(ss, ",")
		}
		e.emit(line, fmt.Sprintf("released=%s runs=%d cn=%d", rs, atomic.LoadInt32(&sf.runs), sf.call.Suppressing()), true)
	case "pickmulti", "pickmcache":
		var specs []cmdSpec
		for _, cw := range w[1:] {
			specs = append(specs, parseCmdSpec(cw))
		}
		cl := e.vc.Client()
		built := make([]rueidis.Completed, len(specs))
		for i, sp := range specs {
			built[i] = sp.build(cl.B())
		}
		ans := recoverStr(func() string {
			var picks []rueidis.VerifPick
			var init, ok bool
			if w[0] == "pickmcache" {
				cts := make([]rueidis.CacheableTTL, len(built))
				for i, b := range built {
					cts[i] = rueidis.CT(rueidis.Cacheable(b), time.Minute)
				}
				picks, ok = e.vc.PickMultiCache(cts)
			} else {
				picks, init, ok = e.vc.PickMulti(built)
			}
			if !ok {
				return "nil"
			}
			var out []string
			for _, p := range picks {
				idx := make([]string, len(p.Indexes))
				for i, x := range p.Indexes {
					idx[i] = strconv.Itoa(x)
					// the sub-batch must hold the very commands of those positions
					if &p.Cmds[i].Commands()[0] != &built[x].Commands()[0] {
						e.fails = append(e.fails, [3]string{"pickmulti:index-command-mismatch", line, fmt.Sprintf("sub-batch of %s pairs index %d with a different command", p.Addr, x)})
					}
				}
				out = append(out, hx(p.Addr)+"="+strings.Join(idx, ","))
			}
			sort.Strings(out)
			return "init=" + map[bool]string{true: "1", false: "0"}[init] + " " + strings.Join(out, " ")
		})
		e.emit(line, ans, strings.Count(ans, "=") > 2)
	default:
		panic("bad cluster op " + line)
	}
}

func indexOf(w []string, s string) int {
	for i, x := range w {
		if x == s {
			return i
		}
	}
	panic("no " + s + " in " + strings.Join(w, " "))
}

func (e *episode) loadScript(ws []string) {
	e.s.mu.Lock()
	defer e.s.mu.Unlock()
	e.s.script = nil
	e.s.events = nil
	e.s.redirTargets = map[string]bool{}
	e.s.last = map[int]execInfo{}
	for _, w := range ws {
		e.s.script = append(e.s.script, parseInjSpec(w))
	}
}

func (e *episode) register(specs []cmdSpec, built []rueidis.Completed) {
	e.s.mu.Lock()
	defer e.s.mu.Unlock()
	e.s.ids = map[*string]int{}
	for i, b := range built {
		e.s.ids[&b.Commands()[0]] = specs[i].id
	}
}

// oracle emits the '!trace' line: the real run as observed at the nodes, judged by the specification.
//
//	!trace <n> <cmd>… ; <result>… ; <raw per-node logs> ; <reply events id@addr=reply …>
func (e *episode) oracle(specs []cmdSpec, results []string, raw string) {
	e.s.mu.Lock()
	evs := make([]string, len(e.s.events))
	for i, ev := range e.s.events {
		evs[i] = fmt.Sprintf("%d@%s=%s", ev.id, hx(ev.addr), ev.reply)
	}
	e.s.mu.Unlock()
	cs := make([]string, len(specs))
	for i, s := range specs {
		cs[i] = s.String()
	}
	if len(evs) == 0 {
		evs = []string{"-"}
	}
	// stable witness: an EXEC of an accepted MULTI…EXEC block travelling without its block
	// (cluster.go doresultfn when the redirect arrives on the EXEC itself)
	open := -1
	for _, sp := range specs {
		switch sp.flags {
		case "M":
			open = sp.id
		case "E":
			if open >= 0 {
				m, x := open, sp.id
				accepted := true
				e.s.mu.Lock()
				for _, ev := range e.s.events {
					if ev.id == m && ev.reply != "s:"+hx("OK") {
						accepted = false
					}
				}
				e.s.mu.Unlock()
				for _, nodeLog := range strings.Fields(raw) {
					if !accepted {
						break
					}
					if nodeLog == "-" {
						continue
					}
					for _, call := range strings.Split(nodeLog[strings.Index(nodeLog, "=")+1:], ";") {
						items := strings.Split(call[strings.Index(call, ":")+1:], ",")
						hasE, hasM := false, false
						for _, it := range items {
							hasE = hasE || it == strconv.Itoa(x)
							hasM = hasM || it == strconv.Itoa(m)
						}
						if hasE && !hasM {
							e.fails = append(e.fails, [3]string{"multi:exec-redirect-resent-alone", strings.Join(cs, " "),
								fmt.Sprintf("EXEC (command %d) was sent to a node without its MULTI…EXEC block (MULTI is command %d): %s", x, m, nodeLog)})
						}
					}
				}
			}
			open = -1
		}
	}
	// stable witness: a command whose final reply is the raw ASK error although redirects are unbounded —
	// the ASK re-send was dropped (doretry / doretrycache must send cAskings even when the same entry has commands)
	if e.opt["maxredir"] == "0" {
		firstMulti := len(specs)
		for i, sp := range specs {
			if sp.flags == "M" && i < firstMulti {
				firstMulti = i
			}
		}
		askPre := "e:" + hx("ASK 1 ")
		e.s.mu.Lock()
		for i, sp := range specs {
			if i >= firstMulti || i >= len(results) || !strings.HasPrefix(results[i], askPre) {
				continue
			}
			target := results[i][len(askPre):]
			src := ""
			for _, ev := range e.s.events {
				if ev.id == sp.id {
					src = ev.addr
				}
			}
			key := "cluster:ask-dropped"
			for _, ev := range e.s.events {
				if ev.id != sp.id && ev.addr == src && ev.reply == "e:"+hx("MOVED 1 ")+target {
					key = "cluster:ask-dropped:mixed-moved-ask-same-node"
				}
			}
			e.fails = append(e.fails, [3]string{key, strings.Join(cs, " "),
				fmt.Sprintf("command %d was answered ASK by %s and never sent on with ASKING: the caller got the ASK error as its final reply", sp.id, src)})
		}
		e.s.mu.Unlock()
	}
	maxRedir := e.opt["maxredir"]
	e.emit(fmt.Sprintf("!trace maxredir=%s %s ; %s ; %s ; %s", maxRedir, strings.Join(cs, " "), strings.Join(results, " "), raw, strings.Join(evs, " ")), "ok", false)
}

// runEpisodeLines executes op lines grouped into episodes (each starts with `reset`); an episode in
// which the client's delayed background refresh fired is executed again (its effect is timing dependent).
func runEpisodeLines(c *Ctx, lines []string) {
	var cur []string
	flush := func() {
		if len(cur) == 0 {
			return
		}
		var e *episode
		for try := 0; try < 6; try++ {
			e = &episode{}
			for _, l := range cur {
				if strings.HasPrefix(l, "!trace") || strings.HasPrefix(l, "!sticky") {
					continue // trace oracle lines are regenerated from the run
				}
				e.exec(l)
				// between two ops: a scheduled background refresh that is no longer pending has run
				if e.vc != nil && e.s != nil {
					e.s.mu.Lock()
					armed := e.s.armed
					e.s.mu.Unlock()
					if armed && !e.vc.RefreshPending() {
						e.fired = true
					}
				}
			}
			fired := e.fired
			if e.vc != nil {
				e.s.mu.Lock()
				armed := e.s.armed
				fired = fired || e.s.lazyFired
				e.s.mu.Unlock()
				fired = fired || (armed && !e.vc.RefreshPending())
			}
			if !fired {
				break
			}
			c.Hit("episode:rerun-lazy-refresh-fired")
			if os.Getenv("VERIF_DEBUG_RERUN") != "" {
				fmt.Fprintf(os.Stderr, "rerun try=%d lazyFired=%v efired=%v: %s\n", try, e.s.lazyFired, e.fired, strings.Join(cur, " || ")[:min(900, len(strings.Join(cur, " || ")))])
			}
		}
		for i, o := range e.out {
			c.Emit(o[0], o[1], e.nt[i])
		}
		for _, f := range e.fails {
			c.Fail(f[0], f[1], f[2])
		}
		for k, v := range e.s.used {
			c.Dist["inj-consumed:"+k] += v
		}
		cur = nil
	}
	for _, l := range lines {
		if strings.HasPrefix(l, "reset") {
			flush()
		}
		cur = append(cur, l)
	}
	flush()
}

// ---- generation -----------------------------------------------------------------------------------

type genTopo struct {
	ds     []shardD
	addrs  []string // every node address
	owners map[int]string
}

func nodeAddrOf(n nodeD) string { return n.host + ":" + strconv.FormatInt(n.port, 10) }

func genClusterTopo(c *Ctx, holes bool) genTopo {
	k := 1 + c.Rng.IntN(4)
	cuts := []int64{0}
	for i := 1; i < k; i++ {
		cuts = append(cuts, int64(1+c.Rng.IntN(16383)))
	}
	cuts = append(cuts, 16384)
	sort.Slice(cuts, func(i, j int) bool { return cuts[i] < cuts[j] })
	var t genTopo
	t.owners = map[int]string{}
	h := 1
	for i := 0; i < k; i++ {
		lo, hi := cuts[i], cuts[i+1]-1
		if lo > hi {
			continue
		}
		var d shardD
		if holes && c.Rng.IntN(2) == 0 && hi-lo > 10 {
			d.ranges = [][2]int64{{lo, lo + (hi-lo)/3}, {hi - (hi-lo)/3, hi}}
		} else {
			d.ranges = [][2]int64{{lo, hi}}
		}
		nn := 1 + c.Rng.IntN(3)
		for j := 0; j < nn; j++ {
			n := nodeD{host: fmt.Sprintf("10.0.0.%d", h), port: 7000, master: j == 0, health: "online"}
			h++
			d.nodes = append(d.nodes, n)
			t.addrs = append(t.addrs, nodeAddrOf(n))
		}
		t.ds = append(t.ds, d)
	}
	return t
}

func (t genTopo) ownerOf(slot int) string {
	for _, d := range t.ds {
		for _, r := range d.ranges {
			if int64(slot) >= r[0] && int64(slot) <= r[1] {
				return nodeAddrOf(d.nodes[0])
			}
		}
	}
	return ""
}

func (t genTopo) interestingSlot(c *Ctx) int {
	if c.Rng.IntN(3) == 0 {
		return c.Rng.IntN(16384)
	}
	d := t.ds[c.Rng.IntN(len(t.ds))]
	r := d.ranges[c.Rng.IntN(len(d.ranges))]
	switch c.Rng.IntN(4) {
	case 0:
		return int(r[0])
	case 1:
		return int(r[1])
	case 2:
		return int(min(r[1]+1, 16383))
	}
	return int(r[0] + int64(c.Rng.IntN(int(r[1]-r[0]+1))))
}

func (t genTopo) msg(ver int, resp3 bool) *mt {
	if ver < 8 {
		return slotsMsg(t.ds)
	}
	return shardsMsg(t.ds, resp3)
}

var injKinds = []string{"mv", "mv", "mv", "ask", "ask", "ask", "try", "load", "down", "xerr", "err", "nil"}

// genChain: injections that follow one command around: at `start`, then at every redirect target.
func genChain(c *Ctx, t genTopo, id int, start string, depth int, allowSelf bool) []inj {
	var out []inj
	cur := start
	for d := 0; d < depth; d++ {
		k := injKinds[c.Rng.IntN(len(injKinds))]
		in := inj{addr: cur, id: id, kind: k}
		if k == "mv" || k == "ask" {
			in.arg = t.addrs[c.Rng.IntN(len(t.addrs))]
			if c.Rng.IntN(8) == 0 {
				in.arg = fmt.Sprintf("10.0.9.%d:7000", 1+c.Rng.IntN(2)) // a node the client has never heard of
			}
			if in.arg == cur && !allowSelf {
				continue
			}
			out = append(out, in)
			cur = in.arg
		} else {
			out = append(out, in)
			if k == "err" || k == "nil" {
				break
			}
		}
	}
	return out
}

// oneSourcePerFreshTarget: within one batch the per-connection workers run concurrently; which of two redirects
// naming the same not-yet-connected address creates the connection (and, for MOVED, patches its slot) depends on
// their interleaving. Keep the redirects to such an address that come from one source node only.
func oneSourcePerFreshTarget(is []inj) []inj {
	src := map[string]string{}
	var out []inj
	for _, in := range is {
		if (in.kind == "mv" || in.kind == "ask") && strings.HasPrefix(in.arg, "10.0.9.") {
			if s0, ok := src[in.arg]; ok && s0 != in.addr {
				continue
			}
			src[in.arg] = in.addr
		}
		out = append(out, in)
	}
	return out
}

func joinInj(is []inj) string {
	s := make([]string, len(is))
	for i, in := range is {
		s[i] = in.String()
	}
	return strings.Join(s, " ")
}

func genEpisode(c *Ctx, idx int, flavor string) []string {
	ver := 7
	if c.Rng.IntN(2) == 0 {
		ver = 8
	}
	mode := "plain"
	switch c.Rng.IntN(6) {
	case 0:
		mode = "rs"
	case 1:
		mode = "rn"
	}
	holes := c.Rng.IntN(5) == 0
	t := genClusterTopo(c, holes)
	maxRedir := []int{0, 0, 1, 2, 3}[c.Rng.IntN(5)]
	budget := c.Rng.IntN(3)
	retry := 1
	if c.Rng.IntN(6) == 0 {
		retry = 0
	}
	init := t.addrs[c.Rng.IntN(len(t.addrs))]
	if c.Rng.IntN(8) == 0 {
		init = "10.0.8.8:7000" // a seed that is not part of the topology: stays as a hidden connection
	}
	lines := []string{
		fmt.Sprintf("reset ver=%d tls=0 mode=%s maxredir=%d retry=%d budget=%d init=%s", ver, mode, maxRedir, retry, budget, hx(init)),
		"serve " + t.msg(ver, c.Rng.IntN(2) == 0).String(),
		"new", "table", "conns",
	}
	{
		slots := []string{"0", "16383"}
		for _, d := range t.ds {
			for _, r := range d.ranges {
				slots = append(slots, fmt.Sprint(r[0]), fmt.Sprint(r[1]), fmt.Sprint(min(r[1]+1, 16383)))
			}
		}
		for i := 0; i < 4; i++ {
			slots = append(slots, fmt.Sprint(c.Rng.IntN(16384)))
		}
		lines = append(lines, fmt.Sprintf("!route %d 0 %s ; %s", ver, descTokens(t.ds), strings.Join(slots, " ")))
	}
	if mode != "plain" {
		rs := []string{"0", "1", "2", "3", "4", "5", "16383"}
		for i := 0; i < 12; i++ {
			rs = append(rs, strconv.Itoa(t.interestingSlot(c)))
		}
		lines = append(lines, "rslots "+strings.Join(rs, " "))
	}
	flagsOf := func() string {
		switch c.Rng.IntN(4) {
		case 0:
			return "r"
		case 1:
			return "t"
		}
		return "-"
	}
	nops := 1 + c.Rng.IntN(4)
	injected := false
	for op := 0; op < nops; op++ {
		kind := c.Rng.IntN(10)
		if flavor == "route" && kind >= 3 && kind < 8 {
			kind = c.Rng.IntN(3)
		}
		if flavor == "batch" && kind < 3 && c.Rng.IntN(4) != 0 {
			kind = 3 + c.Rng.IntN(5)
		}
		switch {
		case kind < 3: // single command
			slot := t.interestingSlot(c)
			if c.Rng.IntN(10) == 0 {
				slot = 16384
			}
			spec := cmdSpec{0, slot, flagsOf()}
			var is []inj
			owner := t.ownerOf(slot)
			if slot != 16384 && owner != "" && c.Rng.IntN(4) != 0 {
				is = genChain(c, t, 0, owner, 1+c.Rng.IntN(4), true)
			}
			if holes && injected && owner == "" {
				continue // an unowned slot makes pick refresh synchronously: only before any lazy refresh is armed
			}
			injected = injected || len(is) > 0
			verb := "do"
			if slot != 16384 && c.Rng.IntN(4) == 0 {
				verb, spec.flags = "cache", "r"
			}
			lines = append(lines, fmt.Sprintf("%s %s h=- ; %s", verb, spec, joinInj(is)))
		case kind < 8: // batch
			n := 1 + c.Rng.IntN(7)
			var specs []cmdSpec
			var is []inj
			tx := c.Rng.IntN(3) == 0
			cache := !tx && c.Rng.IntN(5) == 0
			if tx {
				// pre… MULTI members… EXEC post…, one slot (or key-less) throughout
				slot := t.interestingSlot(c)
				shape := []string{}
				for i, k := 0, c.Rng.IntN(2); i < k; i++ {
					shape = append(shape, "p")
				}
				shape = append(shape, "M")
				for i, k := 0, 1+c.Rng.IntN(3); i < k; i++ {
					shape = append(shape, "m")
				}
				shape = append(shape, "E")
				for i, k := 0, c.Rng.IntN(2); i < k; i++ {
					shape = append(shape, "p")
				}
				if c.Rng.IntN(5) == 0 { // a second block
					shape = append(shape, "M", "m", "E")
				}
				if c.Rng.IntN(12) == 0 && len(shape) > 2 { // malformed: drop MULTI or EXEC
					i := c.Rng.IntN(len(shape))
					shape = append(shape[:i:i], shape[i+1:]...)
				}
				for i, sh := range shape {
					switch sh {
					case "M":
						specs = append(specs, cmdSpec{i, 16384, "M"})
					case "E":
						specs = append(specs, cmdSpec{i, 16384, "E"})
					default:
						s := slot
						if c.Rng.IntN(6) == 0 {
							s = 16384
						}
						specs = append(specs, cmdSpec{i, s, flagsOf()})
					}
				}
				owner := t.ownerOf(slot)
				if owner == "" && holes && injected {
					continue
				}
				if owner == "" {
					owner = t.addrs[0]
				}
				// one redirected member (all go to one target keeps the run free of merges), EXEC aborted at the source
				if c.Rng.IntN(4) != 0 {
					victim := c.Rng.IntN(len(specs))
					chain := genChain(c, t, victim, owner, 1+c.Rng.IntN(2), false)
					is = append(is, chain...)
					if c.Rng.IntN(2) == 0 {
						for i, sp := range specs {
							if sp.flags == "E" && i > victim {
								is = append(is, inj{addr: owner, id: i, kind: "raw", arg: "EXECABORT Transaction discarded because of previous errors."})
								break
							}
						}
					}
					// a second victim — never the EXEC together with a member: a server that redirected a member at
					// queue time answers EXEC with EXECABORT (the client would send such an EXEC a second time on its own)
					if c.Rng.IntN(3) == 0 && specs[victim].flags != "E" {
						v2 := c.Rng.IntN(len(specs))
						if v2 != victim && specs[v2].flags != "E" {
							is = append(is, genChain(c, t, v2, owner, 1, false)...)
						}
					}
				}
			} else {
				for i := 0; i < n; i++ {
					slot := t.interestingSlot(c)
					fl := flagsOf()
					if cache {
						fl = "r"
					}
					specs = append(specs, cmdSpec{i, slot, fl})
					owner := t.ownerOf(slot)
					if owner != "" && c.Rng.IntN(3) == 0 {
						is = append(is, genChain(c, t, i, owner, 1+c.Rng.IntN(3), false)...)
					}
				}
				if !cache && c.Rng.IntN(10) == 0 { // key-less commands mixed in (legal only when the keyed ones share a slot)
					specs[c.Rng.IntN(len(specs))].slot = 16384
				}
			}
			unowned := false
			for _, sp := range specs {
				if sp.slot != 16384 && t.ownerOf(sp.slot) == "" {
					unowned = true
				}
			}
			if unowned && injected {
				continue
			}
			injected = injected || len(is) > 0
			ss := make([]string, len(specs))
			for i, sp := range specs {
				ss[i] = sp.String()
			}
			is = oneSourcePerFreshTarget(is)
			verb, pverb := "multi", "pickmulti"
			if cache {
				verb, pverb = "mcache", "pickmcache"
			}
			if !unowned {
				lines = append(lines, pverb+" "+strings.Join(ss, " "))
			}
			lines = append(lines, fmt.Sprintf("%s %s ; %s", verb, strings.Join(ss, " "), joinInj(is)))
		case kind == 8 && idx%6 == 0: // topology change + explicit refresh (slow when a lazy refresh is pending: rationed)
			t = genClusterTopo(c, false)
			lines = append(lines, "serve "+t.msg(ver, true).String(), "refresh", "table", "conns")
			injected = false
		default:
			lines = append(lines, "table")
		}
	}
	for i := range lines {
		lines[i] = strings.TrimSpace(lines[i])
	}
	return lines
}

// genHoleFill: the cached slot table lacks a shard that the cluster meanwhile serves. The first batch on a
// slot of that shard makes pickMulti / pickMultiCache / pick fail, refresh and pick again; a member of the
// batch (of its MULTI…EXEC block) is then redirected. No redirect-class reply precedes the refreshing op, so
// no background refresh is pending when it runs.
func genHoleFill(c *Ctx) []string {
	ver := 7 + c.Rng.IntN(2)
	var t genTopo
	for {
		t = genClusterTopo(c, false)
		if len(t.ds) >= 2 {
			break
		}
	}
	gone := c.Rng.IntN(len(t.ds))
	partial := genTopo{}
	for i, d := range t.ds {
		if i != gone {
			partial.ds = append(partial.ds, d)
		}
	}
	// the seed must be a node of the partial topology or a foreign one
	init := nodeAddrOf(partial.ds[0].nodes[0])
	maxRedir := []int{0, 0, 2, 3}[c.Rng.IntN(4)]
	lines := []string{
		fmt.Sprintf("reset ver=%d tls=0 mode=plain maxredir=%d retry=1 budget=%d init=%s", ver, maxRedir, c.Rng.IntN(3), hx(init)),
		"serve " + partial.msg(ver, true).String(),
		"new", "table",
		"serve " + t.msg(ver, true).String(), // not refreshed: the client still holds the partial table
	}
	r := t.ds[gone].ranges[0]
	slot := int(r[0] + int64(c.Rng.IntN(int(r[1]-r[0]+1))))
	owner := nodeAddrOf(t.ds[gone].nodes[0])
	other := nodeAddrOf(partial.ds[c.Rng.IntN(len(partial.ds))].nodes[0])
	kind := []string{"mv", "ask"}[c.Rng.IntN(2)]
	switch c.Rng.IntN(4) {
	case 0: // single command
		lines = append(lines, fmt.Sprintf("do 0/%d/- h=- ; %s", slot, inj{addr: owner, id: 0, kind: kind, arg: other}))
	case 1: // plain batch, one command on the missing shard
		s2 := partial.interestingSlot(c)
		lines = append(lines, fmt.Sprintf("multi 0/%d/- 1/%d/t 2/%d/r ; %s", s2, slot, slot, inj{addr: owner, id: 1, kind: kind, arg: other}))
	default: // transaction block on the missing shard, a member (or the EXEC) redirected
		shape := []string{}
		if c.Rng.IntN(2) == 0 {
			shape = append(shape, "p")
		}
		shape = append(shape, "M")
		for i, k := 0, 1+c.Rng.IntN(3); i < k; i++ {
			shape = append(shape, "m")
		}
		shape = append(shape, "E")
		if c.Rng.IntN(2) == 0 {
			shape = append(shape, "p")
		}
		var specs []string
		var members []int
		for i, sh := range shape {
			switch sh {
			case "M":
				specs = append(specs, cmdSpec{i, 16384, "M"}.String())
			case "E":
				specs = append(specs, cmdSpec{i, 16384, "E"}.String())
				if c.Rng.IntN(4) == 0 {
					members = append(members, i)
				}
			case "m":
				specs = append(specs, cmdSpec{i, slot, []string{"-", "t", "r"}[c.Rng.IntN(3)]}.String())
				members = append(members, i)
			default:
				specs = append(specs, cmdSpec{i, slot, "-"}.String())
			}
		}
		victim := members[c.Rng.IntN(len(members))]
		is := []inj{{addr: owner, id: victim, kind: kind, arg: other}}
		if shape[victim] == "m" && c.Rng.IntN(2) == 0 { // what a server does after a queue-time redirect
			for i, sh := range shape {
				if sh == "E" {
					is = append(is, inj{addr: owner, id: i, kind: "raw", arg: "EXECABORT Transaction discarded because of previous errors."})
				}
			}
		}
		lines = append(lines, fmt.Sprintf("multi %s ; %s", strings.Join(specs, " "), joinInj(is)))
	}
	lines = append(lines, "table", "conns")
	for i := range lines {
		lines[i] = strings.TrimSpace(lines[i])
	}
	return lines
}

// genMixedRedirect: one batch whose commands sit on (different) slots of ONE source node and are answered, in the
// same round, MOVED→X by some and ASK→X by others (X one node, known or new), optionally next to a MULTI…EXEC
// block, optionally through DoMultiCache. Both lists of X's retry entry are non-empty in the next round.
func genMixedRedirect(c *Ctx) []string {
	ver := 7 + c.Rng.IntN(2)
	var t genTopo
	for {
		t = genClusterTopo(c, false)
		if len(t.ds) >= 2 {
			break
		}
	}
	si := c.Rng.IntN(len(t.ds))
	src := nodeAddrOf(t.ds[si].nodes[0])
	var target string
	for {
		target = t.addrs[c.Rng.IntN(len(t.addrs))]
		if c.Rng.IntN(6) == 0 {
			target = "10.0.9.1:7000"
		}
		if target != src {
			break
		}
	}
	maxRedir := []int{0, 0, 0, 3}[c.Rng.IntN(4)]
	lines := []string{
		fmt.Sprintf("reset ver=%d tls=0 mode=plain maxredir=%d retry=1 budget=%d init=%s", ver, maxRedir, c.Rng.IntN(2), hx(src)),
		"serve " + t.msg(ver, true).String(),
		"new",
	}
	slotOf := func() int {
		r := t.ds[si].ranges[c.Rng.IntN(len(t.ds[si].ranges))]
		return int(r[0] + int64(c.Rng.IntN(int(r[1]-r[0]+1))))
	}
	var specs []cmdSpec
	var is []inj
	verb := "multi"
	switch c.Rng.IntN(5) {
	case 0: // with a transaction block: one slot throughout
		slot := slotOf()
		shape := []string{"p", "M", "m", "m", "E", "p"}
		if c.Rng.IntN(2) == 0 {
			shape = []string{"p", "p", "M", "m", "E"}
		}
		var outside, members []int
		for i, sh := range shape {
			switch sh {
			case "M":
				specs = append(specs, cmdSpec{i, 16384, "M"})
			case "E":
				specs = append(specs, cmdSpec{i, 16384, "E"})
			case "m":
				specs = append(specs, cmdSpec{i, slot, "-"})
				members = append(members, i)
			default:
				specs = append(specs, cmdSpec{i, slot, "-"})
				outside = append(outside, i)
			}
		}
		// one outside command and one member get the two kinds (either way round); a second outside one may join
		kinds := []string{"mv", "ask"}
		if c.Rng.IntN(2) == 0 {
			kinds = []string{"ask", "mv"}
		}
		is = append(is, inj{addr: src, id: outside[0], kind: kinds[0], arg: target})
		is = append(is, inj{addr: src, id: members[c.Rng.IntN(len(members))], kind: kinds[1], arg: target})
		if len(outside) > 1 && c.Rng.IntN(2) == 0 {
			is = append(is, inj{addr: src, id: outside[1], kind: kinds[c.Rng.IntN(2)], arg: target})
		}
	default:
		n := 2 + c.Rng.IntN(5)
		cache := c.Rng.IntN(4) == 0
		if cache {
			verb = "mcache"
		}
		for i := 0; i < n; i++ {
			fl := []string{"-", "t", "r"}[c.Rng.IntN(3)]
			if cache {
				fl = "r"
			}
			specs = append(specs, cmdSpec{i, slotOf(), fl})
		}
		if c.Rng.IntN(3) == 0 { // one command elsewhere, untouched
			oi := (si + 1) % len(t.ds)
			r := t.ds[oi].ranges[0]
			specs[c.Rng.IntN(n)].slot = int(r[0])
		}
		// at least one MOVED and one ASK to the target among the commands that start at the source
		var atSrc []int
		for i, sp := range specs {
			if t.ownerOf(sp.slot) == src {
				atSrc = append(atSrc, i)
			}
		}
		for len(atSrc) < 2 {
			i := c.Rng.IntN(n)
			specs[i].slot = slotOf()
			atSrc = atSrc[:0]
			for j, sp := range specs {
				if t.ownerOf(sp.slot) == src {
					atSrc = append(atSrc, j)
				}
			}
		}
		c.Rng.Shuffle(len(atSrc), func(i, j int) { atSrc[i], atSrc[j] = atSrc[j], atSrc[i] })
		is = append(is, inj{addr: src, id: atSrc[0], kind: "mv", arg: target}, inj{addr: src, id: atSrc[1], kind: "ask", arg: target})
		for _, i := range atSrc[2:] {
			switch c.Rng.IntN(4) {
			case 0:
				is = append(is, inj{addr: src, id: i, kind: "mv", arg: target})
			case 1:
				is = append(is, inj{addr: src, id: i, kind: "ask", arg: target})
			}
		}
		if c.Rng.IntN(3) == 0 { // the target sends one of them on once more
			v := atSrc[c.Rng.IntN(2)]
			is = append(is, inj{addr: target, id: v, kind: []string{"mv", "ask", "try"}[c.Rng.IntN(3)], arg: src})
		}
	}
	ss := make([]string, len(specs))
	for i, sp := range specs {
		ss[i] = sp.String()
	}
	lines = append(lines, fmt.Sprintf("%s %s ; %s", verb, strings.Join(ss, " "), joinInj(is)), "table")
	for i := range lines {
		lines[i] = strings.TrimSpace(lines[i])
	}
	return lines
}

// genSticky: a redirect met by one command, then more commands on the same slot before any refresh: ASK (to a
// node new to the client or a known one) must leave the slot with its owner, MOVED to a new node moves it.
func genSticky(c *Ctx) []string {
	ver := 7 + c.Rng.IntN(2)
	var t genTopo
	for {
		t = genClusterTopo(c, false)
		if len(t.ds) >= 2 {
			break
		}
	}
	si := c.Rng.IntN(len(t.ds))
	owner := nodeAddrOf(t.ds[si].nodes[0])
	r := t.ds[si].ranges[c.Rng.IntN(len(t.ds[si].ranges))]
	slot := int(r[0] + int64(c.Rng.IntN(int(r[1]-r[0]+1))))
	target := fmt.Sprintf("10.0.9.%d:7000", 1+c.Rng.IntN(2)) // new to the client
	if c.Rng.IntN(3) == 0 {
		for {
			target = t.addrs[c.Rng.IntN(len(t.addrs))]
			if target != owner {
				break
			}
		}
	}
	kind := []string{"ask", "ask", "mv"}[c.Rng.IntN(3)]
	lines := []string{
		fmt.Sprintf("reset ver=%d tls=0 mode=plain maxredir=%d retry=1 budget=%d init=%s", ver, c.Rng.IntN(3), c.Rng.IntN(2), hx(owner)),
		"serve " + t.msg(ver, true).String(),
		"new",
	}
	verb := func() string {
		if c.Rng.IntN(4) == 0 {
			return "cache"
		}
		return "do"
	}
	fl := func(v string) string {
		if v == "cache" {
			return "r"
		}
		return []string{"-", "t", "r"}[c.Rng.IntN(3)]
	}
	v := verb()
	lines = append(lines, fmt.Sprintf("%s 0/%d/%s h=- ; %s", v, slot, fl(v), inj{addr: owner, id: 0, kind: kind, arg: target}))
	for i, n := 0, 1+c.Rng.IntN(3); i < n; i++ {
		v = verb()
		var is []inj
		switch c.Rng.IntN(4) {
		case 0: // the importing node would send a stray command back to the owner
			is = append(is, inj{addr: target, id: 0, kind: "mv", arg: owner})
		case 1: // another one-shot redirect
			is = append(is, inj{addr: owner, id: 0, kind: "ask", arg: target})
		}
		lines = append(lines, fmt.Sprintf("%s 0/%d/%s h=- ; %s", v, slot, fl(v), joinInj(is)))
	}
	lines = append(lines, "table", "conns")
	for i := range lines {
		lines[i] = strings.TrimSpace(lines[i])
	}
	return lines
}

// genAbandon: a batch whose caller's context ends while (part of) it is queued on a connection and not yet
// written: the connection answers those commands with the context error and keeps the caller's slice. Other
// callers' batches follow (a pooled per-connection batch would be reused by them); then the connection consumes
// what it holds.
func genAbandon(c *Ctx) []string {
	ver := 7 + c.Rng.IntN(2)
	t := genClusterTopo(c, false)
	init := t.addrs[0]
	lines := []string{
		fmt.Sprintf("reset ver=%d tls=0 mode=plain maxredir=0 retry=%d budget=%d init=%s", ver, c.Rng.IntN(2), c.Rng.IntN(2), hx(init)),
		"serve " + t.msg(ver, true).String(),
		"new",
	}
	batch := func(abandon bool) string {
		var specs []cmdSpec
		var is []inj
		cache := c.Rng.IntN(5) == 0
		tx := !cache && c.Rng.IntN(4) == 0
		if tx {
			slot := t.interestingSlot(c)
			for t.ownerOf(slot) == "" {
				slot = t.interestingSlot(c)
			}
			for i, sh := range []string{"p", "M", "m", "m", "E"} {
				switch sh {
				case "M":
					specs = append(specs, cmdSpec{i, 16384, "M"})
				case "E":
					specs = append(specs, cmdSpec{i, 16384, "E"})
				default:
					specs = append(specs, cmdSpec{i, slot, []string{"-", "t", "r"}[c.Rng.IntN(3)]})
				}
			}
		} else {
			for i, n := 0, 1+c.Rng.IntN(6); i < n; i++ {
				slot := t.interestingSlot(c)
				for t.ownerOf(slot) == "" {
					slot = t.interestingSlot(c)
				}
				fl := []string{"-", "t", "r"}[c.Rng.IntN(3)]
				if cache {
					fl = "r"
				}
				specs = append(specs, cmdSpec{i, slot, fl})
			}
		}
		if abandon {
			// every command queued on one (or every) node stays unwritten; sometimes only the tail of a sub-batch
			victimNode := ""
			if c.Rng.IntN(3) != 0 {
				s0 := specs[c.Rng.IntN(len(specs))]
				if s0.slot != 16384 {
					victimNode = t.ownerOf(s0.slot)
				} else {
					victimNode = t.ownerOf(specs[0].slot)
				}
			}
			tail := c.Rng.IntN(4) == 0
			seen := 0
			for _, sp := range specs {
				owner := t.ownerOf(sp.slot)
				if sp.slot == 16384 {
					owner = t.ownerOf(specs[0].slot)
				}
				if victimNode != "" && owner != victimNode {
					continue
				}
				seen++
				if tail && seen == 1 {
					continue
				}
				is = append(is, inj{addr: owner, id: sp.id, kind: "ctx"})
			}
			if len(is) == 0 {
				sp := specs[0]
				is = append(is, inj{addr: t.ownerOf(sp.slot), id: sp.id, kind: "ctx"})
			}
		} else if c.Rng.IntN(3) == 0 {
			sp := specs[c.Rng.IntN(len(specs))]
			if sp.slot != 16384 {
				is = append(is, genChain(c, t, sp.id, t.ownerOf(sp.slot), 1, false)...)
			}
		}
		ss := make([]string, len(specs))
		for i, sp := range specs {
			ss[i] = sp.String()
		}
		verb := "multi"
		if cache {
			verb = "mcache"
		}
		if abandon {
			verb += "x"
		}
		return fmt.Sprintf("%s %s ; %s", verb, strings.Join(ss, " "), joinInj(is))
	}
	for i, n := 0, c.Rng.IntN(2); i < n; i++ {
		lines = append(lines, batch(false))
	}
	lines = append(lines, batch(true), "consume", "!consume")
	for i, n := 0, 1+c.Rng.IntN(3); i < n; i++ {
		lines = append(lines, batch(false))
	}
	lines = append(lines, "consume", "!consume")
	for i := range lines {
		lines[i] = strings.TrimSpace(lines[i])
	}
	return lines
}

func runCluster(c *Ctx) {
	for i := 0; i < c.N; i++ {
		runEpisodeLines(c, genEpisode(c, i, "batch"))
		if i%6 == 0 {
			runEpisodeLines(c, genHoleFill(c))
		}
		if i%5 == 0 {
			runEpisodeLines(c, genMixedRedirect(c))
		}
		if i%10 == 3 {
			runEpisodeLines(c, genSticky(c))
		}
		if i%4 == 2 { // abandoned batches: queued but unwritten when the caller's context ends
			runEpisodeLines(c, genAbandon(c))
		}
	}
}

// genSF: one single-flight episode: callers entering during and between flights, DelayDo, completions.
func genSF(c *Ctx) []string {
	lines := []string{"reset ver=7 tls=0 mode=plain maxredir=0 retry=1 budget=0 init=31"}
	id := 0
	waits := 0
	for i, n := 0, 3+c.Rng.IntN(8); i < n; i++ {
		switch c.Rng.IntN(5) {
		case 0, 1:
			if waits < 4 { // a waiter costs the observation window
				lines = append(lines, fmt.Sprintf("sf-enter %d", id))
				id++
				waits++
			}
		case 2:
			lines = append(lines, "sf-delay")
		default:
			lines = append(lines, "sf-finish")
		}
	}
	lines = append(lines, "sf-finish", fmt.Sprintf("sf-enter %d", id), "sf-finish")
	return lines
}

func runRoute(c *Ctx) {
	for i := 0; i < c.N; i++ {
		runEpisodeLines(c, genEpisode(c, i, "route"))
		if i%5 == 0 { // redirects inside a batch round: MOVED and ASK naming one node in the same round
			runEpisodeLines(c, genMixedRedirect(c))
		}
		if i%4 == 1 { // what a redirect teaches: ASK nothing, MOVED to a new node the slot
			runEpisodeLines(c, genSticky(c))
		}
		if i%12 == 0 {
			runEpisodeLines(c, genHoleFill(c))
		}
		if i%40 == 0 {
			runEpisodeLines(c, genSF(c))
		}
	}
}
