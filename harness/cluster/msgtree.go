package main

import (
	"fmt"
	"sort"
	"strconv"
	"strings"

	"github.com/redis/rueidis"
)

// ---- message trees in line-protocol form ------------------------------------------------
//
//	S <typ> <hex>   string-bearing leaf      I <typ> <n>   integer-bearing leaf
//	A <typ> <n> …   aggregate with n children (prefix order)
type mt struct {
	kind byte // 'S' 'I' 'A'
	typ  byte
	str  string
	num  int64
	kids []*mt
}

func mS(typ byte, s string) *mt   { return &mt{kind: 'S', typ: typ, str: s} }
func mI(typ byte, n int64) *mt    { return &mt{kind: 'I', typ: typ, num: n} }
func mA(typ byte, kids ...*mt) *mt { return &mt{kind: 'A', typ: typ, kids: kids} }
func bulk(s string) *mt           { return mS('$', s) }
func integer(n int64) *mt         { return mI(':', n) }

func (m *mt) tokens(sb *strings.Builder) {
	switch m.kind {
	case 'S':
		fmt.Fprintf(sb, " S %d %s", m.typ, hx(m.str))
	case 'I':
		fmt.Fprintf(sb, " I %d %d", m.typ, m.num)
	case 'A':
		fmt.Fprintf(sb, " A %d %d", m.typ, len(m.kids))
		for _, k := range m.kids {
			k.tokens(sb)
		}
	}
}

func (m *mt) String() string {
	var sb strings.Builder
	m.tokens(&sb)
	return strings.TrimPrefix(sb.String(), " ")
}

func (m *mt) msg() rueidis.RedisMessage {
	switch m.kind {
	case 'S':
		return rueidis.VerifMsg(m.typ, m.str, 0, nil, nil)
	case 'I':
		return rueidis.VerifMsg(m.typ, "", m.num, nil, nil)
	default:
		kids := make([]rueidis.RedisMessage, len(m.kids))
		for i, k := range m.kids {
			kids[i] = k.msg()
		}
		return rueidis.VerifMsg(m.typ, "", 0, kids, nil)
	}
}

func (m *mt) clone() *mt {
	c := *m
	c.kids = make([]*mt, len(m.kids))
	for i, k := range m.kids {
		c.kids[i] = k.clone()
	}
	return &c
}

func (m *mt) all(acc *[]*mt) {
	*acc = append(*acc, m)
	for _, k := range m.kids {
		k.all(acc)
	}
}

func parseTokens(w []string) (*mt, []string) {
	if len(w) < 3 {
		panic("short message tokens")
	}
	t, err := strconv.Atoi(w[1])
	if err != nil {
		panic(err)
	}
	switch w[0] {
	case "S":
		return mS(byte(t), unhx(w[2])), w[3:]
	case "I":
		n, err := strconv.ParseInt(w[2], 10, 64)
		if err != nil {
			panic(err)
		}
		return mI(byte(t), n), w[3:]
	case "A":
		n, err := strconv.Atoi(w[2])
		if err != nil {
			panic(err)
		}
		m := mA(byte(t))
		m.kids = []*mt{}
		rest := w[3:]
		for i := 0; i < n; i++ {
			var k *mt
			k, rest = parseTokens(rest)
			m.kids = append(m.kids, k)
		}
		return m, rest
	}
	panic("bad message token " + w[0])
}

// ---- structured topology descriptions -----------------------------------------------------

type nodeD struct {
	host    string // "" = unknown (server sends empty), "?" = unknown endpoint
	port    int64
	tlsPort int64
	master  bool
	health  string // online fail loading
}

type shardD struct {
	ranges [][2]int64
	nodes  []nodeD
}

// slotsMsg renders the CLUSTER SLOTS reply a server would give for the description:
// one entry per range, [lo, hi, [host, port, id], …] with the master first.
func slotsMsg(ds []shardD) *mt {
	top := mA('*')
	top.kids = []*mt{}
	for si, d := range ds {
		ns := append([]nodeD(nil), d.nodes...)
		sort.SliceStable(ns, func(i, j int) bool { return ns[i].master && !ns[j].master })
		for _, r := range d.ranges {
			e := mA('*', integer(r[0]), integer(r[1]))
			for ni, n := range ns {
				e.kids = append(e.kids, mA('*', bulk(n.host), integer(n.port), bulk(fmt.Sprintf("id-%d-%d", si, ni))))
			}
			top.kids = append(top.kids, e)
		}
	}
	return top
}

// shardsMsg renders the CLUSTER SHARDS reply (RESP3 maps when resp3, flat arrays otherwise).
func shardsMsg(ds []shardD, resp3 bool) *mt {
	agg := byte('*')
	if resp3 {
		agg = '%'
	}
	top := mA('*')
	top.kids = []*mt{}
	for si, d := range ds {
		slots := mA('*')
		slots.kids = []*mt{}
		for _, r := range d.ranges {
			slots.kids = append(slots.kids, integer(r[0]), integer(r[1]))
		}
		nodes := mA('*')
		nodes.kids = []*mt{}
		for ni, n := range d.nodes {
			role := "replica"
			if n.master {
				role = "master"
			}
			kv := []*mt{bulk("id"), bulk(fmt.Sprintf("id-%d-%d", si, ni)), bulk("port"), integer(n.port)}
			if n.tlsPort != 0 {
				kv = append(kv, bulk("tls-port"), integer(n.tlsPort))
			}
			kv = append(kv, bulk("ip"), bulk("10.9.9.9"), bulk("endpoint"), bulk(n.host), bulk("role"), bulk(role),
				bulk("replication-offset"), integer(12345), bulk("health"), bulk(n.health))
			nodes.kids = append(nodes.kids, mA(agg, kv...))
		}
		top.kids = append(top.kids, mA(agg, bulk("slots"), slots, bulk("nodes"), nodes))
	}
	return top
}

func descTokens(ds []shardD) string {
	var sb strings.Builder
	fmt.Fprintf(&sb, "%d", len(ds))
	for _, d := range ds {
		fmt.Fprintf(&sb, " %d", len(d.ranges))
		for _, r := range d.ranges {
			fmt.Fprintf(&sb, " %d %d", r[0], r[1])
		}
		fmt.Fprintf(&sb, " %d", len(d.nodes))
		for _, n := range d.nodes {
			m := "r"
			if n.master {
				m = "m"
			}
			fmt.Fprintf(&sb, " %s %d %d %s %s", hx(n.host), n.port, n.tlsPort, m, n.health[:1])
		}
	}
	return sb.String()
}

func parseDesc(w []string) ([]shardD, []string) {
	next := func() string { s := w[0]; w = w[1:]; return s }
	num := func() int64 {
		n, err := strconv.ParseInt(next(), 10, 64)
		if err != nil {
			panic(err)
		}
		return n
	}
	var ds []shardD
	for i, k := 0, int(num()); i < k; i++ {
		var d shardD
		for j, nr := 0, int(num()); j < nr; j++ {
			lo := num()
			d.ranges = append(d.ranges, [2]int64{lo, num()})
		}
		for j, nn := 0, int(num()); j < nn; j++ {
			var n nodeD
			n.host = unhx(next())
			n.port = num()
			n.tlsPort = num()
			n.master = next() == "m"
			n.health = map[string]string{"o": "online", "f": "fail", "l": "loading"}[next()]
			d.nodes = append(d.nodes, n)
		}
		ds = append(ds, d)
	}
	return ds, w
}

func dumpGroups(gs []rueidis.VerifGroup) string {
	if len(gs) == 0 {
		return "empty"
	}
	out := make([]string, len(gs))
	for i, g := range gs {
		ns := make([]string, len(g.Nodes))
		for j, n := range g.Nodes {
			ns[j] = hx(n)
		}
		ss := make([]string, len(g.Slots))
		for j, s := range g.Slots {
			ss[j] = fmt.Sprintf("%d:%d", s[0], s[1])
		}
		out[i] = "g " + hx(g.Master) + " n=" + strings.Join(ns, ",") + " s=" + strings.Join(ss, ",")
	}
	return strings.Join(out, " | ")
}
