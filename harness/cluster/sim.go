package main

import (
	"context"
	"errors"
	"fmt"
	"sort"
	"strconv"
	"strings"
	"sync"
	"time"

	"github.com/redis/rueidis"
	"github.com/redis/rueidis/internal/cmds"
)

// ---- a scripted cluster ------------------------------------------------------------------------
//
// Every connection the real cluster client creates is a nodeBackend bound to an address of the
// sim. A node answers CLUSTER SLOTS/SHARDS with the served topology, every other command from
// the script (first matching injection is consumed) or with the default tagged reply.

type inj struct {
	addr string
	id   int
	kind string
	arg  string
}

type callRec struct {
	serial int    // identity of the connection (creation order)
	kind  string   // d m c mc
	items []string // canonical order (see canonical())
	raw   []string // order as received
}

var ctxReplyText = "x:" + hx(context.Canceled.Error())

// heldCmd: a command the connection still has to write although its caller gave up (the real pipe keeps the
// caller's slice in its ring): peek reads the live slice element, want is its argv when it was queued.
type heldCmd struct {
	id   int
	addr string
	peek func() []string
	want []string
}

type execInfo struct {
	addr   string
	serial int
	phase  int
	idx    int
}

type replyEvent struct {
	id    int
	addr  string
	reply string
}

type sim struct {
	mu      sync.Mutex
	ver     int
	topo    *mt
	script  []inj
	ids     map[*string]int // &cmd.Commands()[0] -> id of the caller's command
	logs    map[string][]callRec
	last    map[int]execInfo
	events  []replyEvent
	serial  int
	armed   bool // a redirect-class reply was handed out: the client scheduled a lazy refresh
	used    map[string]int
	topoReq int
	held    []heldCmd
	// detection of the client's delayed background refresh (not modelled: such an episode is run again):
	// once a redirect-class reply armed it, a connection made for an address that no reply of the current op
	// named as a redirect target can only come from _refresh
	redirTargets map[string]bool
	lazyFired    bool
	inRefresh    bool
	// reply texts / ids of the batch being answered (index = position in the received slice)
	lastTexts []string
	lastIDs   []int
}

func newSim(ver int) *sim {
	return &sim{ver: ver, ids: map[*string]int{}, logs: map[string][]callRec{}, last: map[int]execInfo{}, used: map[string]int{}}
}

type nodeBackend struct {
	s      *sim
	addr   string
	serial int
}

func (s *sim) mk(addr string, replicaOnly bool) rueidis.VerifNodeBackend {
	s.mu.Lock()
	defer s.mu.Unlock()
	s.serial++
	if s.armed && !s.inRefresh && !s.redirTargets[addr] {
		s.lazyFired = true
	}
	return &nodeBackend{s: s, addr: addr, serial: s.serial}
}

func (n *nodeBackend) Version() int { return n.s.ver }

func replyResult(kind, arg string, slot int) (rueidis.RedisResult, string) {
	switch kind {
	case "mv":
		t := fmt.Sprintf("MOVED %d %s", 1, arg)
		return rueidis.NewResult(rueidis.VerifErrMsg(t), nil), "e:" + hx(t)
	case "ask":
		t := fmt.Sprintf("ASK %d %s", 1, arg)
		return rueidis.NewResult(rueidis.VerifErrMsg(t), nil), "e:" + hx(t)
	case "try":
		return rueidis.NewResult(rueidis.VerifErrMsg("TRYAGAIN wait"), nil), "e:" + hx("TRYAGAIN wait")
	case "load":
		return rueidis.NewResult(rueidis.VerifErrMsg("LOADING wait"), nil), "e:" + hx("LOADING wait")
	case "down":
		return rueidis.NewResult(rueidis.VerifErrMsg("CLUSTERDOWN wait"), nil), "e:" + hx("CLUSTERDOWN wait")
	case "xerr":
		return rueidis.NewErrorResult(errors.New("boom")), "x:" + hx("boom")
	case "ctx": // what pipe.DoMulti answers when the caller's context ends while the batch is queued, unwritten
		return rueidis.NewErrorResult(context.Canceled), ctxReplyText
	case "err":
		return rueidis.NewResult(rueidis.VerifErrMsg("ERR boom"), nil), "e:" + hx("boom")
	case "nil":
		return rueidis.NewResult(rueidis.VerifNil(), nil), "n"
	case "OK":
		return rueidis.NewResult(rueidis.VerifSimpleString("OK"), nil), "s:" + hx("OK")
	case "val":
		return rueidis.NewResult(rueidis.VerifBlobString(arg), nil), "s:" + hx(arg)
	case "raw":
		return rueidis.NewResult(rueidis.VerifErrMsg(arg), nil), "e:" + hx(strings.TrimPrefix(arg, "ERR "))
	}
	panic("bad injection kind " + kind)
}

func redirectClass(kind, arg string) bool {
	switch kind {
	case "mv", "ask", "try", "load", "down", "xerr":
		return true
	case "raw":
		t := strings.TrimPrefix(arg, "ERR ")
		for _, p := range []string{"MOVED", "ASK", "TRYAGAIN", "LOADING", "CLUSTERDOWN"} {
			if strings.HasPrefix(t, p) {
				return true
			}
		}
	}
	return false
}

// answer (caller holds s.mu): consume the first injection for (addr, id) or give the default.
func (s *sim) answer(addr string, id int, isMulti bool) (rueidis.RedisResult, string) {
	for i, in := range s.script {
		if in.addr == addr && in.id == id {
			s.script = append(s.script[:i:i], s.script[i+1:]...)
			s.used[in.kind]++
			if redirectClass(in.kind, in.arg) {
				s.armed = true
			}
			if in.kind == "mv" || in.kind == "ask" {
				if s.redirTargets == nil {
					s.redirTargets = map[string]bool{}
				}
				s.redirTargets[in.arg] = true
			}
			r, txt := replyResult(in.kind, in.arg, 0)
			s.events = append(s.events, replyEvent{id, addr, txt})
			return r, txt
		}
	}
	var r rueidis.RedisResult
	var txt string
	if isMulti {
		r, txt = replyResult("OK", "", 0)
	} else {
		r, txt = replyResult("val", fmt.Sprintf("r%d@%s", id, addr), 0)
	}
	s.events = append(s.events, replyEvent{id, addr, txt})
	return r, txt
}

type recvItem struct {
	text   string // log text: id, A, O:<tag>
	id     int    // -1 for non-user commands
	multi  bool
	prefix []string // ASKING / wrapper items attached in front
}

// classify (caller holds s.mu) one received command.
func (s *sim) classify(c rueidis.Completed) recvItem {
	cs := c.Commands()
	if len(cs) > 0 {
		if id, ok := s.ids[&cs[0]]; ok {
			return recvItem{text: strconv.Itoa(id), id: id, multi: len(cs) == 1 && cs[0] == "MULTI"}
		}
	}
	switch {
	case len(cs) == 1 && cs[0] == "ASKING":
		return recvItem{text: "A", id: -1}
	case len(cs) == 3 && cs[0] == "CLIENT" && cs[1] == "CACHING":
		return recvItem{text: "O:optin", id: -1}
	case len(cs) == 1 && cs[0] == "MULTI":
		return recvItem{text: "O:multi", id: -1}
	case len(cs) == 1 && cs[0] == "EXEC":
		return recvItem{text: "O:exec", id: -1}
	case len(cs) == 2 && cs[0] == "PTTL":
		return recvItem{text: "O:pttl", id: -1}
	}
	return recvItem{text: "O:" + hx(strings.Join(cs, " ")), id: -1}
}

func isTopoCmd(c rueidis.Completed) bool {
	cs := c.Commands()
	return len(cs) == 2 && cs[0] == "CLUSTER" && (cs[1] == "SLOTS" || cs[1] == "SHARDS")
}

func (n *nodeBackend) Do(ctx context.Context, cmd rueidis.Completed) rueidis.RedisResult {
	s := n.s
	s.mu.Lock()
	defer s.mu.Unlock()
	if isTopoCmd(cmd) {
		s.topoReq++
		return rueidis.NewResult(s.topo.msg(), nil)
	}
	it := s.classify(cmd)
	s.logs[n.addr] = append(s.logs[n.addr], callRec{serial: n.serial, kind: "d", items: []string{it.text}, raw: []string{it.text}})
	if it.id < 0 {
		return rueidis.NewResult(rueidis.VerifSimpleString("OK"), nil)
	}
	s.last[it.id] = execInfo{n.addr, n.serial, 0, 0}
	r, _ := s.answer(n.addr, it.id, it.multi)
	return r
}

func (n *nodeBackend) DoCache(ctx context.Context, cmd rueidis.Cacheable, ttl time.Duration) rueidis.RedisResult {
	s := n.s
	s.mu.Lock()
	defer s.mu.Unlock()
	it := s.classify(rueidis.Completed(cmd))
	s.logs[n.addr] = append(s.logs[n.addr], callRec{serial: n.serial, kind: "c", items: []string{it.text}, raw: []string{it.text}})
	s.last[it.id] = execInfo{n.addr, n.serial, 0, 0}
	r, _ := s.answer(n.addr, it.id, false)
	return r
}

// batch handles DoMulti / DoMultiCache: replies in received order, log in canonical order.
func (n *nodeBackend) batch(kind string, multi []rueidis.Completed, peek func(i int) []string) []rueidis.RedisResult {
	s := n.s
	s.mu.Lock()
	defer s.mu.Unlock()
	defer func() {
		// commands answered with the context error stay "queued": remember the caller's slice elements
		for i := range multi {
			if i < len(s.lastTexts) && s.lastTexts[i] == ctxReplyText {
				i := i
				s.held = append(s.held, heldCmd{id: s.lastIDs[i], addr: n.addr, peek: func() []string { return peek(i) }, want: append([]string(nil), peek(i)...)})
			}
		}
		s.lastTexts, s.lastIDs = nil, nil
	}()
	items := make([]recvItem, len(multi))
	raw := make([]string, len(multi))
	phase := 0
	for i, c := range multi {
		items[i] = s.classify(c)
		raw[i] = items[i].text
		if items[i].text == "A" {
			phase = 1
		}
	}
	out := make([]rueidis.RedisResult, len(multi))
	// the wrapped cache form [optin, asking, multi, pttl, cmd, exec]: the command's reply travels inside EXEC
	wrapped := map[int]bool{}
	for i := 0; i+5 < len(items); i++ {
		if items[i].text == "O:optin" && items[i+1].text == "A" && items[i+2].text == "O:multi" && items[i+3].text == "O:pttl" && items[i+4].id >= 0 && items[i+5].text == "O:exec" {
			wrapped[i+4] = true
		}
	}
	for i, it := range items {
		switch {
		case it.id >= 0 && wrapped[i]:
			r, _ := s.answer(n.addr, it.id, false)
			if err := r.Error(); err != nil && r.NonRedisError() == nil && !rueidis.IsRedisNil(err) { // redis error at queue time
				out[i] = r
				out[i+1] = rueidis.NewResult(rueidis.VerifErrMsg("EXECABORT Transaction discarded because of previous errors."), nil)
			} else if r.NonRedisError() != nil {
				out[i] = r
				out[i+1] = r
			} else {
				m, _ := r.ToMessage()
				out[i] = rueidis.NewResult(rueidis.VerifSimpleString("QUEUED"), nil)
				out[i+1] = rueidis.NewResult(rueidis.VerifArray(rueidis.VerifInt(-1), m), nil)
			}
		case it.id >= 0:
			var txt string
			out[i], txt = s.answer(n.addr, it.id, it.multi)
			for len(s.lastTexts) <= i {
				s.lastTexts = append(s.lastTexts, "")
				s.lastIDs = append(s.lastIDs, -1)
			}
			s.lastTexts[i], s.lastIDs[i] = txt, it.id
		case it.text == "O:exec" && i > 0 && wrapped[i-1]:
			// filled with the wrapped command
		case it.text == "O:pttl":
			out[i] = rueidis.NewResult(rueidis.VerifSimpleString("QUEUED"), nil)
		default:
			out[i] = rueidis.NewResult(rueidis.VerifSimpleString("OK"), nil)
		}
	}
	// canonical order: user commands (with the non-user items in front of them attached) sorted by
	// where they were executed before (source node, sub-batch, position), first-time commands by id
	type unit struct {
		it     recvItem
		suffix []string
		key    [4]string
	}
	var units []unit
	var pre []string
	for i, it := range items {
		if it.id < 0 {
			if it.text == "O:exec" && i > 0 && wrapped[i-1] && len(units) > 0 {
				units[len(units)-1].suffix = append(units[len(units)-1].suffix, it.text)
				continue
			}
			pre = append(pre, it.text)
			continue
		}
		it.prefix = pre
		pre = nil
		le, ok := s.last[it.id]
		k := [4]string{"", "", "", fmt.Sprintf("%09d", it.id)}
		if ok {
			k = [4]string{hx(le.addr), fmt.Sprintf("%09d", le.serial), fmt.Sprint(le.phase), fmt.Sprintf("%09d", le.idx)}
		}
		units = append(units, unit{it: it, key: k})
	}
	trailing := pre
	sort.SliceStable(units, func(i, j int) bool {
		for x := 0; x < 4; x++ {
			if units[i].key[x] != units[j].key[x] {
				return units[i].key[x] < units[j].key[x]
			}
		}
		return false
	})
	var canon []string
	for i, u := range units {
		canon = append(canon, u.it.prefix...)
		canon = append(canon, u.it.text)
		canon = append(canon, u.suffix...)
		s.last[u.it.id] = execInfo{n.addr, n.serial, phase, i}
	}
	canon = append(canon, trailing...)
	s.logs[n.addr] = append(s.logs[n.addr], callRec{serial: n.serial, kind: kind, items: canon, raw: raw})
	return out
}

func argvOf(c rueidis.Completed) []string {
	if c.IsEmpty() {
		return nil
	}
	return c.Commands()
}

func (n *nodeBackend) DoMulti(ctx context.Context, multi ...rueidis.Completed) []rueidis.RedisResult {
	return n.batch("m", multi, func(i int) []string { return argvOf(multi[i]) })
}

func (n *nodeBackend) DoMultiCache(ctx context.Context, multi ...rueidis.CacheableTTL) []rueidis.RedisResult {
	cs := make([]rueidis.Completed, len(multi))
	for i, m := range multi {
		cs[i] = rueidis.Completed(m.Cmd)
	}
	return n.batch("mc", cs, func(i int) []string { return argvOf(rueidis.Completed(multi[i].Cmd)) })
}

// consume: what the connection finds when it gets round to writing the abandoned commands
func (s *sim) consume() (verdict string, detail string) {
	s.mu.Lock()
	defer s.mu.Unlock()
	verdict = "intact"
	for _, h := range s.held {
		cur, bad := func() (cur []string, bad string) {
			defer func() {
				if r := recover(); r != nil {
					bad = fmt.Sprint("panic: ", r)
				}
			}()
			return h.peek(), ""
		}()
		switch {
		case bad != "":
			verdict, detail = "changed", fmt.Sprintf("command %d queued on %s: %s", h.id, h.addr, bad)
		case len(cur) == 0:
			verdict, detail = "changed", fmt.Sprintf("command %d queued on %s was wiped (want %q)", h.id, h.addr, h.want)
		case strings.Join(cur, "\x00") != strings.Join(h.want, "\x00"):
			verdict, detail = "changed", fmt.Sprintf("command %d queued on %s now reads %q (another caller's), want %q", h.id, h.addr, cur, h.want)
		}
	}
	return
}

// drainLogs returns the canonical and raw per-node logs since the last call.
func (s *sim) drainLogs() (canon, raw string) {
	s.mu.Lock()
	defer s.mu.Unlock()
	if len(s.logs) == 0 {
		return "-", "-"
	}
	addrs := make([]string, 0, len(s.logs))
	for a := range s.logs {
		addrs = append(addrs, a)
	}
	sort.Slice(addrs, func(i, j int) bool { return hx(addrs[i]) < hx(addrs[j]) })
	var cs, rs []string
	for _, a := range addrs {
		// canonical log: one entry per connection (a second connection to the same address is `addr#1`);
		// raw log (oracle lines): per address, in arrival order
		var serials []int
		for _, c := range s.logs[a] {
			seen := false
			for _, x := range serials {
				seen = seen || x == c.serial
			}
			if !seen {
				serials = append(serials, c.serial)
			}
		}
		sort.Ints(serials)
		for ord, ser := range serials {
			var cc []string
			for _, c := range s.logs[a] {
				if c.serial == ser {
					cc = append(cc, c.kind+":"+strings.Join(c.items, ","))
				}
			}
			label := hx(a)
			if ord > 0 {
				label += "#" + strconv.Itoa(ord)
			}
			cs = append(cs, label+"="+strings.Join(cc, ";"))
		}
		var rr []string
		for _, c := range s.logs[a] {
			rr = append(rr, c.kind+":"+strings.Join(c.raw, ","))
		}
		rs = append(rs, hx(a)+"="+strings.Join(rr, ";"))
	}
	s.logs = map[string][]callRec{}
	return strings.Join(cs, " "), strings.Join(rs, " ")
}

// ---- commands ---------------------------------------------------------------------------------

var keyForSlot [16384]string

func init() {
	found := 0
	for i := 0; found < 16384; i++ {
		k := "k" + strconv.Itoa(i)
		s := cmds.Slot(k)
		if keyForSlot[s] == "" {
			keyForSlot[s] = k
			found++
		}
	}
}

type cmdSpec struct {
	id    int
	slot  int
	flags string
}

func parseCmdSpec(w string) cmdSpec {
	p := strings.Split(w, "/")
	id, _ := strconv.Atoi(p[0])
	slot, _ := strconv.Atoi(p[1])
	return cmdSpec{id, slot, p[2]}
}

func (c cmdSpec) String() string { return fmt.Sprintf("%d/%d/%s", c.id, c.slot, c.flags) }

func (c cmdSpec) build(b rueidis.Builder) rueidis.Completed {
	var a cmds.Arbitrary
	switch {
	case strings.Contains(c.flags, "M"):
		return b.Arbitrary("MULTI").Build()
	case strings.Contains(c.flags, "E"):
		return b.Arbitrary("EXEC").Build()
	case c.slot == 16384:
		a = b.Arbitrary("ECHO").Args("id" + strconv.Itoa(c.id))
	default:
		a = b.Arbitrary("GETSET").Keys(keyForSlot[c.slot]).Args("id" + strconv.Itoa(c.id))
	}
	if strings.Contains(c.flags, "r") {
		return a.ReadOnly()
	}
	if strings.Contains(c.flags, "t") {
		return a.Build().ToRetryable()
	}
	return a.Build()
}

func parseInjSpec(w string) inj {
	p := strings.Split(w, "/")
	id, _ := strconv.Atoi(p[1])
	in := inj{addr: unhx(p[0]), id: id, kind: p[2]}
	if len(p) > 3 {
		in.arg = unhx(p[3])
	}
	return in
}

func (in inj) String() string {
	if in.arg != "" || in.kind == "mv" || in.kind == "ask" || in.kind == "val" || in.kind == "raw" {
		return fmt.Sprintf("%s/%d/%s/%s", hx(in.addr), in.id, in.kind, hx(in.arg))
	}
	return fmt.Sprintf("%s/%d/%s", hx(in.addr), in.id, in.kind)
}

func showResult(r rueidis.RedisResult) string {
	if err := r.Error(); err != nil {
		if rueidis.IsRedisNil(err) {
			return "n"
		}
		if re, ok := rueidis.IsRedisErr(err); ok {
			return "e:" + hx(re.Error())
		}
		return "x:" + hx(err.Error())
	}
	m, _ := r.ToMessage()
	if s, err := m.ToString(); err == nil {
		return "s:" + hx(s)
	}
	return "other:" + rueidis.VerifDump(&m)
}
