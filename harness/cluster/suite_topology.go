package main

import (
	"fmt"
	"net"
	"sort"
	"strconv"
	"strings"

	"github.com/redis/rueidis"
)

func init() {
	suites["topology"] = suite{
		rule: "CLUSTER SLOTS / CLUSTER SHARDS replies rendered from structured topology descriptions (1-6 shards, 1-4 nodes, hosts incl. empty/'?'/IPv6/hostnames, health online/fail/loading, tls ports, boundary and out-of-range slot numbers) plus a malformed stream of 1-4 tree mutations each (drop/duplicate/retag/replace/truncate/swap); parseEndpoint/ParseInt/FormatInt/SplitHostPort on boundary strings; '!owners' lines compare the real parser's slot owners with the specification evaluated on the description; non-trivial = distinct reply that yields at least one group or was mutated",
		run:  runTopology,
		replay: func(c *Ctx, lines []string) {
			for _, l := range lines {
				topologyOp(c, l)
			}
		},
	}
}

func recoverStr(f func() string) (ans string) {
	defer func() {
		if r := recover(); r != nil {
			ans = "panic"
		}
	}()
	return f()
}

func topologyOp(c *Ctx, line string) {
	w := strings.Fields(line)
	switch w[0] {
	case "slots":
		m, _ := parseTokens(w[2:])
		ans := recoverStr(func() string { return dumpGroups(rueidis.VerifParseSlots(m.msg(), unhx(w[1]))) })
		c.Hit("slots:" + kindOf(ans))
		c.Emit(line, ans, ans != "empty")
		if ans == "panic" {
			c.Fail("topology:parseSlots-panic", line, "parseSlots panicked on a malformed CLUSTER SLOTS reply")
		}
	case "shards":
		m, _ := parseTokens(w[3:])
		ans := recoverStr(func() string { return dumpGroups(rueidis.VerifParseShards(m.msg(), unhx(w[1]), w[2] == "1")) })
		c.Hit("shards:" + kindOf(ans))
		c.Emit(line, ans, ans != "empty")
		if ans == "panic" {
			c.Fail("topology:parseShards-panic", line, "parseShards panicked on a malformed CLUSTER SHARDS reply")
		}
	case "endpoint":
		p, _ := strconv.ParseInt(w[3], 10, 64)
		ans := recoverStr(func() string { return hx(rueidis.VerifParseEndpoint(unhx(w[1]), unhx(w[2]), p)) })
		c.Emit(line, ans, true)
	case "atoi":
		v, _ := strconv.ParseInt(unhx(w[1]), 10, 64)
		c.Emit(line, fmt.Sprint(v), true)
	case "itoa":
		v, _ := strconv.ParseInt(w[1], 10, 64)
		c.Emit(line, hx(strconv.FormatInt(v, 10)), true)
	case "splithost":
		h, _, _ := net.SplitHostPort(unhx(w[1]))
		c.Emit(line, hx(h), true)
	case "!owners":
		// !owners <ver> <tls> <resp3> <defaultAddr> <desc…> ; <slot>…
		ver, _ := strconv.Atoi(w[1])
		tls, resp3, def := w[2] == "1", w[3] == "1", unhx(w[4])
		ds, rest := parseDesc(w[5:])
		var gs []rueidis.VerifGroup
		if ver < 8 {
			gs = rueidis.VerifParseSlots(slotsMsg(ds).msg(), def)
		} else {
			gs = rueidis.VerifParseShards(shardsMsg(ds, resp3).msg(), def, tls)
		}
		var out []string
		for _, s := range rest[1:] {
			slot, _ := strconv.ParseInt(s, 10, 64)
			out = append(out, ownerFromGroups(gs, slot))
		}
		c.Emit(line, strings.Join(out, " "), true)
	default:
		panic("bad topology op " + line)
	}
}

// ownerFromGroups: what the parse result says about one slot: `<master>/<replica,…>`, "-" when no
// group lists it, "ambiguous" when several do.
func ownerFromGroups(gs []rueidis.VerifGroup, slot int64) string {
	found := ""
	for _, g := range gs {
		for _, r := range g.Slots {
			if r[0] <= slot && slot <= r[1] {
				reps := []string{}
				for _, n := range g.Nodes[1:] {
					reps = append(reps, hx(n))
				}
				sort.Strings(reps)
				me := hx(g.Nodes[0]) + "/" + strings.Join(reps, ",")
				if found != "" && found != me {
					return "ambiguous"
				}
				found = me
				break
			}
		}
	}
	if found == "" {
		return "-"
	}
	return found
}

func kindOf(ans string) string {
	switch {
	case ans == "panic", ans == "empty":
		return ans
	default:
		return fmt.Sprintf("groups%d", min(strings.Count(ans, "|")+1, 4))
	}
}

var hostPool = []string{"10.0.0.1", "10.0.0.2", "10.0.0.3", "10.0.0.4", "10.0.0.5", "10.0.0.6", "10.0.0.7", "10.0.0.8",
	"node-a.example", "node-b.example", "node-c", "::1", "fe80::2", "2001:db8::7", "[::3]"}

// genDesc: a mostly sensible topology. strict=true gives the shape used on oracle lines:
// pairwise disjoint in-range ranges, distinct addresses, exactly one master per shard.
func genDesc(c *Ctx, strict bool) []shardD {
	k := 1 + c.Rng.IntN(5)
	if c.Rng.IntN(6) == 0 && !strict {
		k = 1 + c.Rng.IntN(8)
	}
	if strict {
		k = 1 + c.Rng.IntN(4)
	}
	// cut points
	cuts := []int64{0}
	for i := 1; i < k; i++ {
		cuts = append(cuts, int64(c.Rng.IntN(16384)))
	}
	cuts = append(cuts, 16384)
	for i := range cuts {
		for j := i + 1; j < len(cuts); j++ {
			if cuts[j] < cuts[i] {
				cuts[i], cuts[j] = cuts[j], cuts[i]
			}
		}
	}
	used := map[string]bool{}
	var ds []shardD
	for i := 0; i < k; i++ {
		lo, hi := cuts[i], cuts[i+1]-1
		var d shardD
		if lo <= hi {
			if hi-lo > 4 && c.Rng.IntN(3) == 0 { // two ranges with a hole
				mid := lo + int64(c.Rng.IntN(int(hi-lo-1)))
				d.ranges = [][2]int64{{lo, mid}, {mid + 2, hi}}
			} else {
				d.ranges = [][2]int64{{lo, hi}}
			}
		}
		if !strict {
			switch c.Rng.IntN(12) {
			case 0: // overlap with the neighbour / out of range / inverted
				d.ranges = append(d.ranges, [2]int64{int64(c.Rng.IntN(16384)), int64(c.Rng.IntN(20000))})
			case 1:
				d.ranges = append(d.ranges, [2]int64{-int64(c.Rng.IntN(5)), int64(c.Rng.IntN(10))})
			case 2:
				d.ranges = append(d.ranges, [2]int64{16380, 1 << 62})
			}
		}
		nn := 1 + c.Rng.IntN(4)
		if strict {
			nn = 1 + c.Rng.IntN(3)
		}
		mi := c.Rng.IntN(nn)
		for j := 0; j < nn; j++ {
			var n nodeD
			for tries := 0; ; tries++ {
				n.host = hostPool[c.Rng.IntN(len(hostPool))]
				n.port = 6379 + int64(c.Rng.IntN(4))
				if c.Rng.IntN(12) == 0 {
					n.host = ""
				} else if c.Rng.IntN(14) == 0 {
					n.host = "?"
				}
				key := n.host + "/" + fmt.Sprint(n.port)
				if strict {
					key = n.host
				}
				if n.host == "?" || !used[key] || (!strict && tries > 3) {
					used[key] = true
					break
				}
			}
			if !strict {
				switch c.Rng.IntN(25) {
				case 0:
					n.port = 0
				case 1:
					n.port = -1
				case 2:
					n.port = 1 << 40
				}
			}
			if c.Rng.IntN(3) == 0 {
				n.tlsPort = 16379 + int64(c.Rng.IntN(3))
			}
			n.master = j == mi
			n.health = "online"
			switch c.Rng.IntN(10) {
			case 0:
				n.health = "fail"
			case 1:
				n.health = "loading"
			}
			if !strict && c.Rng.IntN(20) == 0 {
				n.master = !n.master // two masters or none
			}
			d.nodes = append(d.nodes, n)
		}
		ds = append(ds, d)
	}
	return ds
}

var leafPool = []func(c *Ctx) *mt{
	func(c *Ctx) *mt { return integer(int64(c.Rng.IntN(20000)) - 100) },
	func(c *Ctx) *mt { return bulk([]string{"", "?", "online", "master", "fail", "7", "-3", "99999999999999999999", "+12", "1x"}[c.Rng.IntN(10)]) },
	func(c *Ctx) *mt { return mI('_', 0) },
	func(c *Ctx) *mt { return mS('-', "ERR x") },
	func(c *Ctx) *mt { m := mA('*'); m.kids = []*mt{}; return m },
	func(c *Ctx) *mt { return mA('*', bulk("endpoint")) },
	func(c *Ctx) *mt { return mS(',', "1.5") },
	func(c *Ctx) *mt { return mI('#', 1) },
}

var typPool = []byte{'$', '+', '-', ':', '_', ',', '#', '!', '=', '(', '*', '%', '~', '>', 0}

// mutate applies one random structural change somewhere in the tree.
func mutate(c *Ctx, root *mt) *mt {
	root = root.clone()
	var all []*mt
	root.all(&all)
	t := all[c.Rng.IntN(len(all))]
	switch op := c.Rng.IntN(9); {
	case op == 0 && len(t.kids) > 0: // drop a child
		i := c.Rng.IntN(len(t.kids))
		t.kids = append(t.kids[:i:i], t.kids[i+1:]...)
		c.Hit("mut:drop")
	case op == 1 && len(t.kids) > 0: // duplicate a child
		i := c.Rng.IntN(len(t.kids))
		t.kids = append(t.kids[:i+1:i+1], t.kids[i:]...)
		c.Hit("mut:dup")
	case op == 2: // retag
		t.typ = typPool[c.Rng.IntN(len(typPool))]
		c.Hit("mut:retag")
	case op == 3 && len(t.kids) > 0: // truncate
		t.kids = t.kids[:c.Rng.IntN(len(t.kids))]
		c.Hit("mut:trunc")
	case op == 4 && len(t.kids) > 1: // swap two children
		i, j := c.Rng.IntN(len(t.kids)), c.Rng.IntN(len(t.kids))
		t.kids[i], t.kids[j] = t.kids[j], t.kids[i]
		c.Hit("mut:swap")
	case op == 5 && t.kind == 'I': // extreme numbers
		t.num = []int64{-1, 0, 16383, 16384, 65535, 65536, 1 << 31, -1 << 63, 1<<63 - 1}[c.Rng.IntN(9)]
		c.Hit("mut:num")
	case op == 6 && t.kind == 'S':
		t.str = []string{"", "?", "ONLINE", "online ", "slave", "master", "nodes", "slots", "a:b", "[::1]", "9223372036854775808", "-9223372036854775809"}[c.Rng.IntN(12)]
		c.Hit("mut:str")
	default: // replace by a leaf / small aggregate
		*t = *leafPool[c.Rng.IntN(len(leafPool))](c)
		c.Hit("mut:replace")
	}
	return root
}

var defaultAddrs = []string{"10.1.1.1:7000", "seed.example:6379", "[::9]:7000", "", "nocolon", "a:b:c", "[::9]", "[x]:1:2", ":6379"}

func runTopology(c *Ctx) {
	// stdlib pieces first (deterministic boundary list)
	for _, s := range []string{"", "0", "-0", "+", "-", "+5", "-5", "007", "9223372036854775807", "9223372036854775808", "-9223372036854775808",
		"-9223372036854775809", "18446744073709551615", "18446744073709551616", "99999999999999999999", "99999999999999999999x", "1x", "x1", "1_0", " 1", "1 ", "٣"} {
		topologyOp(c, "atoi "+hx(s))
	}
	for _, n := range []int64{0, 1, -1, 9, 10, 99, 100, 6379, 65535, -6379, 1 << 40, 1<<63 - 1, -1 << 63} {
		topologyOp(c, fmt.Sprintf("itoa %d", n))
	}
	hosts := append([]string{"", ":", "a", "a:", ":1", "a:1", "a:b:1", "[a]:1", "[a:b]:1", "[a]", "[a]1", "[a]:1:2", "[a]x:1", "[a:1", "a]:1", "[[a]:1", "[a]]:1", "[]:1", "[a]:", "a[b:1", "a]b:1", "[::1]:6379", "[fe80::1%eth0]:1"}, defaultAddrs...)
	for _, h := range hosts {
		topologyOp(c, "splithost "+hx(h))
		for _, e := range []string{"", "?", "h", "::1", "??", "[::1]"} {
			topologyOp(c, fmt.Sprintf("endpoint %s %s %d", hx(h), hx(e), []int64{6379, 0, -1, 1 << 33}[c.Rng.IntN(4)]))
		}
	}
	for i := 0; i < c.N; i++ {
		def := defaultAddrs[c.Rng.IntN(len(defaultAddrs))]
		if c.Rng.IntN(2) == 0 {
			def = defaultAddrs[c.Rng.IntN(3)]
		}
		tls := c.Rng.IntN(3) == 0
		resp3 := c.Rng.IntN(2) == 0
		b2i := map[bool]int{true: 1}
		strict := c.Rng.IntN(2) == 0
		ds := genDesc(c, strict)
		sm, hm := slotsMsg(ds), shardsMsg(ds, resp3)
		topologyOp(c, fmt.Sprintf("slots %s %s", hx(def), sm))
		topologyOp(c, fmt.Sprintf("shards %s %d %s", hx(def), b2i[tls], hm))
		if strict {
			// oracle: owners of boundary and random slots straight from the description
			slots := []string{"0", "16383", "16384", "8192"}
			for _, d := range ds {
				for _, r := range d.ranges {
					slots = append(slots, fmt.Sprint(r[0]), fmt.Sprint(r[1]), fmt.Sprint(r[1]+1))
				}
			}
			for j := 0; j < 4; j++ {
				slots = append(slots, fmt.Sprint(c.Rng.IntN(16384)))
			}
			for _, ver := range []int{7, 8} {
				topologyOp(c, fmt.Sprintf("!owners %d %d %d %s %s ; %s", ver, b2i[tls], b2i[resp3], hx(def), descTokens(ds), strings.Join(slots, " ")))
			}
		}
		// malformed stream
		for _, base := range []*mt{sm, hm} {
			m := base
			for k, n := 0, 1+c.Rng.IntN(4); k < n; k++ {
				m = mutate(c, m)
			}
			if base == sm {
				topologyOp(c, fmt.Sprintf("slots %s %s", hx(def), m))
			} else {
				topologyOp(c, fmt.Sprintf("shards %s %d %s", hx(def), b2i[tls], m))
			}
			// cross-feed: a SHARDS-shaped reply to parseSlots and vice versa
			if c.Rng.IntN(10) == 0 {
				if base == sm {
					topologyOp(c, fmt.Sprintf("shards %s %d %s", hx(def), b2i[tls], m))
				} else {
					topologyOp(c, fmt.Sprintf("slots %s %s", hx(def), m))
				}
			}
		}
	}
}
