package main

import (
	"fmt"
	"runtime"
	"sort"
	"strconv"
	"strings"
	"time"

	"github.com/redis/rueidis"
	"github.com/redis/rueidis/internal/cmds"
)

// Stable witness keys of the three known collision shapes (see props/C08.json).
const (
	keySplit   = "cachekey:collision:GETRANGE-digit-split"  // same command token, argument boundaries differ
	keyMerge   = "cachekey:collision:HGET-ALL-vs-HGETALL"   // command token absorbs (part of) an argument
	keyAdapter = "cachekey:collision:adapter-key++cmd"      // different (key, cmd), same key+cmd
	keyPool    = "cachekey:collision:other:pool-recycled-identity"
)

type ccmd struct {
	scr  bool
	argv []string
	c    cmds.Cacheable
}

func mk(c cmds.Cacheable, scr bool) ccmd {
	return ccmd{scr: scr, argv: append([]string(nil), c.Commands()...), c: c}
}

func (x ccmd) line() string {
	var b strings.Builder
	if x.scr {
		b.WriteString("1")
	} else {
		b.WriteString("0")
	}
	for _, a := range x.argv {
		b.WriteByte(' ')
		b.WriteString(hx(a))
	}
	return b.String()
}

func (x ccmd) text() string { return fmt.Sprintf("%q", x.argv) }

var bld = cmds.NewBuilder(cmds.NoSlot)

// fromLine rebuilds a command from an op line: plain argv through NewCompleted, read-only scripts
// through the real script builders (the only way to obtain the scrRo flag).
func fromLine(ws []string) ccmd {
	argv := make([]string, len(ws)-1)
	for i, w := range ws[1:] {
		argv[i] = unhx(w)
	}
	if ws[0] != "1" {
		return ccmd{argv: argv, c: cmds.Cacheable(cmds.NewCompleted(argv))}
	}
	n, _ := strconv.ParseInt(argv[2], 10, 64)
	nk := int(n)
	if nk < 0 || 3+nk > len(argv) {
		panic("script line with bad numkeys")
	}
	keys, args := argv[3:3+nk], argv[3+nk:]
	switch argv[0] {
	case "EVAL_RO":
		return ccmd{scr: true, argv: argv, c: bld.EvalRo().Script(argv[1]).Numkeys(n).Key(keys...).Arg(args...).Cache()}
	case "EVALSHA_RO":
		return ccmd{scr: true, argv: argv, c: bld.EvalshaRo().Sha1(argv[1]).Numkeys(n).Key(keys...).Arg(args...).Cache()}
	case "FCALL_RO":
		return ccmd{scr: true, argv: argv, c: bld.FcallRo().Function(argv[1]).Numkeys(n).Key(keys...).Arg(args...).Cache()}
	}
	panic("unknown script command " + argv[0])
}

// fromLinePooled is fromLine, but plain commands are built on a POOLED CommandSlice too (Builder.Arbitrary),
// like every command the generated builders make.
func fromLinePooled(ws []string) ccmd {
	if ws[0] == "1" {
		return fromLine(ws)
	}
	argv := make([]string, len(ws)-1)
	for i, w := range ws[1:] {
		argv[i] = unhx(w)
	}
	if len(argv) == 0 {
		return fromLine(ws)
	}
	return ccmd{argv: argv, c: cmds.Cacheable(bld.Arbitrary(argv[0]).Args(argv[1:]...).Build())}
}

// pureIdentity: the identity as a function of the argv alone (key token + plain concatenation of the rest).
func pureIdentity(x ccmd) (key, rest string, panics bool) {
	if len(x.argv) == 2 {
		return x.argv[1], x.argv[0], false
	}
	kp := 1
	if x.scr {
		if len(x.argv) < 3 || x.argv[2] != "1" {
			return "", "", true
		}
		kp = 3
	}
	var sb strings.Builder
	for i, v := range x.argv {
		if i == kp {
			key = v
		} else {
			sb.WriteString(v)
		}
	}
	return key, sb.String(), false
}

// useCmd: build the command on a pooled slice, take its cache identity, then hand the slice back to the
// pool the way the client does after a request (put: 0 PutCacheable, 1 PutCompleted, 2 keep).
func useCmd(put string, ws []string) (x ccmd, ans string) {
	x = fromLinePooled(ws)
	k, cm, p := realCacheKey(x.c)
	ans = hx(k) + " " + hx(cm)
	if p {
		ans = "panic"
	}
	argv := append([]string(nil), x.argv...)
	switch put {
	case "0":
		cmds.PutCacheable(x.c)
	case "1":
		cmds.PutCompleted(cmds.Completed(x.c))
	}
	x.argv = argv
	return x, ans
}

func realCacheKey(c cmds.Cacheable) (key, cmd string, panicked bool) {
	defer func() {
		if r := recover(); r != nil {
			panicked = true
		}
	}()
	key, cmd = cmds.CacheKey(c)
	return
}

func evalCacheKey(line string) string {
	w := strings.Fields(line)
	switch w[0] {
	case "ck":
		k, c, p := realCacheKey(fromLine(w[1:]).c)
		if p {
			return "panic"
		}
		return hx(k) + " " + hx(c)
	case "reset":
		return "ok"
	case "use":
		_, ans := useCmd(w[1], w[2:])
		return ans
	case "addr":
		k, c, p := realCacheKey(fromLine(w[1:]).c)
		if p {
			return "panic"
		}
		return hx(adapterAddress(k, c))
	case "mg":
		i, _ := strconv.Atoi(w[1])
		argv := make([]string, len(w)-2)
		for j, a := range w[2:] {
			argv[j] = unhx(a)
		}
		return func() (ans string) {
			defer func() {
				if r := recover(); r != nil {
					ans = "panic"
				}
			}()
			c := cmds.Cacheable(cmds.NewMGetCompleted(argv))
			return hx(cmds.MGetCacheKey(c, i)) + " " + hx(cmds.MGetCacheCmd(c))
		}()
	case "pair":
		a, b := splitSlash(w[1:])
		return collideReal(fromLine(a), fromLine(b))
	}
	panic("unknown op " + line)
}

// ---- the two stores ---------------------------------------------------------------------------------

type mapCache struct{ m map[string]rueidis.RedisMessage }

func (s *mapCache) Get(key string) rueidis.RedisMessage      { return s.m[key] }
func (s *mapCache) Set(key string, val rueidis.RedisMessage) { s.m[key] = val }
func (s *mapCache) Del(key string)                           { delete(s.m, key) }
func (s *mapCache) Flush()                                   { s.m = map[string]rueidis.RedisMessage{} }

// adapterAddress observes the address the real adapter uses: it runs Flight+Update on a fresh
// NewSimpleCacheAdapter over a map and reads the single key the adapter stored under.
func adapterAddress(key, cmd string) string {
	mc := &mapCache{m: map[string]rueidis.RedisMessage{}}
	st := rueidis.NewSimpleCacheAdapter(mc)
	now := time.Now()
	st.Flight(key, cmd, time.Minute, now)
	st.Update(key, cmd, rueidis.VerifBlobString("v"))
	if len(mc.m) != 1 {
		return "?"
	}
	// the lookup side must use the same address: the entry just stored has to be a hit
	if v, _ := st.Flight(key, cmd, time.Minute, now); rueidis.VerifTyp(&v) == 0 {
		return "?lookup-misses-what-update-stored"
	}
	for k := range mc.m {
		return k
	}
	return "?"
}

// servedFromOther runs the end-to-end scenario on a real store: command a misses and its reply "A" is
// stored; then command b is looked up. True when b is answered with a's reply.
func servedFromOther(st rueidis.CacheStore, a, b ccmd) bool {
	ka, ca, pa := realCacheKey(a.c)
	kb, cb, pb := realCacheKey(b.c)
	if pa || pb {
		return false
	}
	now := time.Now()
	if v, e := st.Flight(ka, ca, time.Minute, now); e != nil || rueidis.VerifTyp(&v) != 0 {
		return false
	}
	st.Update(ka, ca, rueidis.VerifBlobString("A:"+a.text()))
	v, _ := st.Flight(kb, cb, time.Minute, now)
	if rueidis.VerifTyp(&v) == 0 {
		return false
	}
	s, err := v.ToString()
	return err == nil && s == "A:"+a.text()
}

func newAdapterStore() rueidis.CacheStore {
	return rueidis.NewSimpleCacheAdapter(&mapCache{m: map[string]rueidis.RedisMessage{}})
}

func sameArgv(a, b []string) bool {
	if len(a) != len(b) {
		return false
	}
	for i := range a {
		if a[i] != b[i] {
			return false
		}
	}
	return true
}

// collideReal: do two commands share an entry in the real stores? (cf. `collide` in Drv/CacheKey.lean)
func collideReal(a, b ccmd) string {
	if sameArgv(a.argv, b.argv) {
		return "same"
	}
	ka, ca, pa := realCacheKey(a.c)
	kb, cb, pb := realCacheKey(b.c)
	if pa || pb {
		return "panic"
	}
	switch {
	case ka == kb && ca == cb:
		return "lru"
	case adapterAddress(ka, ca) == adapterAddress(kb, cb):
		return "adapter"
	}
	return "none"
}

// classify maps a collision to one of the three known shapes; anything else gets its own key.
func classify(kind string, a, b ccmd) string {
	ka, ca, _ := realCacheKey(a.c)
	kb, cb, _ := realCacheKey(b.c)
	other := func() string {
		return "cachekey:collision:other:" + hx(strings.Join(a.argv, "\x00")+"\x01"+strings.Join(b.argv, "\x00"))
	}
	if len(a.argv) < 2 || len(b.argv) < 2 {
		return other()
	}
	// the known shapes are all consequences of "identity = key token + plain concatenation of the other
	// tokens": if the other tokens do NOT concatenate to the same text, the collision is something new
	// (e.g. an argument that no longer takes part in the identity)
	split := func(x ccmd) (string, string) {
		kp := 1
		if x.scr && len(x.argv) != 2 {
			kp = 3
		}
		var sb strings.Builder
		key := ""
		for i, v := range x.argv {
			if i == kp {
				key = v
			} else {
				sb.WriteString(v)
			}
		}
		return key, sb.String()
	}
	keyA, restA := split(a)
	keyB, restB := split(b)
	if kind == "lru" && (keyA != keyB || restA != restB) || kind == "adapter" && keyA+restA != keyB+restB {
		return other()
	}
	switch kind {
	case "adapter":
		// different identities, same concatenation: the boundary between key and command moved
		if ka+ca == kb+cb && (ka != kb || ca != cb) && len(ka) != len(kb) {
			return keyAdapter
		}
	case "lru":
		if ka != kb || ca != cb {
			return other()
		}
		if a.argv[0] == b.argv[0] {
			// same command token: the remaining tokens concatenate to the same text but are split differently
			return keySplit
		}
		if strings.HasPrefix(a.argv[0], b.argv[0]) || strings.HasPrefix(b.argv[0], a.argv[0]) {
			// one command token is a proper prefix of the other: it merged with the argument that follows
			return keyMerge
		}
	}
	return other()
}

// ---- generation ------------------------------------------------------------------------------------

func catalog() []ccmd {
	keys := []string{"k", "x", "xHGET"}
	strs := []string{"", "1", "12", "2", "ALL", "GET"}
	ints := []int64{1, 12, 2, 3, 23}
	var out []ccmd
	add := func(c cmds.Cacheable) { out = append(out, mk(c, false)) }
	addS := func(c cmds.Cacheable) { out = append(out, mk(c, true)) }
	for _, k := range keys {
		// CMD key
		add(bld.Get().Key(k).Cache())
		add(bld.Strlen().Key(k).Cache())
		add(bld.Type().Key(k).Cache())
		add(bld.Ttl().Key(k).Cache())
		add(bld.Pttl().Key(k).Cache())
		add(bld.Hgetall().Key(k).Cache())
		add(bld.Hkeys().Key(k).Cache())
		add(bld.Hvals().Key(k).Cache())
		add(bld.Hlen().Key(k).Cache())
		add(bld.Smembers().Key(k).Cache())
		add(bld.Scard().Key(k).Cache())
		add(bld.Llen().Key(k).Cache())
		add(bld.Zcard().Key(k).Cache())
		add(bld.JsonGet().Key(k).Cache())
		add(bld.Mget().Key(k).Cache())
		for _, a := range strs {
			// CMD key arg
			add(bld.Hget().Key(k).Field(a).Cache())
			add(bld.Hexists().Key(k).Field(a).Cache())
			add(bld.Hstrlen().Key(k).Field(a).Cache())
			add(bld.Sismember().Key(k).Member(a).Cache())
			add(bld.Zscore().Key(k).Member(a).Cache())
			add(bld.Zrank().Key(k).Member(a).Cache())
			add(bld.Lpos().Key(k).Element(a).Cache())
			add(bld.Hmget().Key(k).Field(a).Cache())
			add(bld.Smismember().Key(k).Member(a).Cache())
			add(bld.JsonGet().Key(k).Path(a).Cache())
			addS(bld.EvalRo().Script(a).Numkeys(1).Key(k).Cache())
			addS(bld.EvalshaRo().Sha1(a).Numkeys(1).Key(k).Cache())
			addS(bld.FcallRo().Function(a).Numkeys(1).Key(k).Cache())
			for _, a2 := range strs {
				// CMD key arg arg
				add(bld.Hmget().Key(k).Field(a, a2).Cache())
				add(bld.Smismember().Key(k).Member(a, a2).Cache())
				add(bld.Zmscore().Key(k).Member(a, a2).Cache())
				add(bld.Zcount().Key(k).Min(a).Max(a2).Cache())
				add(bld.JsonGet().Key(k).Path(a, a2).Cache())
				addS(bld.EvalRo().Script(a).Numkeys(1).Key(k).Arg(a2).Cache())
				addS(bld.EvalshaRo().Sha1(a).Numkeys(1).Key(k).Arg(a2).Cache())
			}
		}
		for _, i := range ints {
			add(bld.Lindex().Key(k).Index(i).Cache())
			add(bld.Getbit().Key(k).Offset(i).Cache())
			for _, j := range ints {
				add(bld.Getrange().Key(k).Start(i).End(j).Cache())
				add(bld.Lrange().Key(k).Start(i).Stop(j).Cache())
				add(bld.Bitcount().Key(k).Start(i).End(j).Cache())
			}
		}
	}
	return out
}

type failCounter map[string]int

func (c *Ctx) flag(fc failCounter, key, op, what string) {
	fc[key]++
	c.Hit("collision:" + key)
	if fc[key] <= 2 || strings.HasPrefix(key, "cachekey:collision:other:") {
		c.Fail(key, op, what)
	}
}

func (c *Ctx) emitK(op string, nontriv bool) string {
	ans := evalCacheKey(op)
	c.Hit(strings.Fields(op)[0])
	c.Emit(op, ans, nontriv)
	return ans
}

// judgePair emits the model line for a pair and flags it when the two distinct commands share an entry.
func (c *Ctx) judgePair(fc failCounter, a, b ccmd, e2e bool) {
	op := "pair " + a.line() + " / " + b.line()
	ans := c.emitK(op, true)
	c.Hit("pair:" + ans)
	if ans != "lru" && ans != "adapter" {
		return
	}
	key := classify(ans, a, b)
	what := fmt.Sprintf("%s and %s are different commands but share a cache entry", a.text(), b.text())
	ka, ca, _ := realCacheKey(a.c)
	if ans == "lru" {
		what += fmt.Sprintf(": CacheKey gives (%q, %q) for both", ka, ca)
	} else {
		what += fmt.Sprintf(": the adapter stores both under %q", ka+ca)
	}
	if e2e {
		if ans == "lru" && servedFromOther(rueidis.VerifNewLRU(1<<20), a, b) {
			what += "; built-in LRU store: the second command is answered with the first command's reply"
			c.Hit("e2e:lru-served-other-commands-reply")
		}
		if servedFromOther(newAdapterStore(), a, b) {
			what += "; NewSimpleCacheAdapter store: the second command is answered with the first command's reply"
			c.Hit("e2e:adapter-served-other-commands-reply")
		}
	}
	c.flag(fc, key, op, what)
}

func runCacheKey(c *Ctx) {
	fc := failCounter{}
	// 1. the three known witnesses, built with the real builders, end to end on both real stores
	wit := [][2]ccmd{
		{mk(bld.Getrange().Key("k").Start(1).End(23).Cache(), false), mk(bld.Getrange().Key("k").Start(12).End(3).Cache(), false)},
		{mk(bld.Hget().Key("k").Field("ALL").Cache(), false), mk(bld.Hgetall().Key("k").Cache(), false)},
		{mk(bld.Hget().Key("x").Field("GET").Cache(), false), mk(bld.Get().Key("xHGET").Cache(), false)},
		{mk(bld.EvalRo().Script("x1").Numkeys(1).Key("k").Cache(), true), mk(bld.EvalRo().Script("x").Numkeys(1).Key("k").Arg("1").Cache(), true)},
	}
	for _, w := range wit {
		c.emitK("ck "+w[0].line(), true)
		c.emitK("ck "+w[1].line(), true)
		c.judgePair(fc, w[0], w[1], true)
	}
	// control: distinct commands that must not share an entry, end to end
	ctl := [2]ccmd{mk(bld.Hget().Key("k").Field("a").Cache(), false), mk(bld.Hget().Key("k").Field("b").Cache(), false)}
	if servedFromOther(rueidis.VerifNewLRU(1<<20), ctl[0], ctl[1]) || servedFromOther(newAdapterStore(), ctl[0], ctl[1]) {
		c.Fail("cachekey:collision:other:control", "pair "+ctl[0].line()+" / "+ctl[1].line(), "HGET k a and HGET k b share an entry")
	}
	c.judgePair(fc, ctl[0], ctl[1], true)

	// 2. exhaustive pairs sweep over the catalog of real-builder commands
	cat := catalog()
	byPair := map[[2]string][]int{}
	byAddr := map[string][]int{}
	for i, x := range cat {
		c.emitK("ck "+x.line(), len(x.argv) > 2)
		k, cm, p := realCacheKey(x.c)
		if p {
			continue
		}
		byPair[[2]string{k, cm}] = append(byPair[[2]string{k, cm}], i)
		byAddr[k+cm] = append(byAddr[k+cm], i)
	}
	c.Dist["catalog-commands"] = len(cat)
	c.Dist["catalog-pairs"] = len(cat) * (len(cat) - 1) / 2
	groups := func(m map[string][]int) [][]int {
		ks := make([]string, 0, len(m))
		for k := range m {
			ks = append(ks, k)
		}
		sort.Strings(ks)
		out := make([][]int, 0, len(ks))
		for _, k := range ks {
			out = append(out, m[k])
		}
		return out
	}
	pm := map[string][]int{}
	for k, v := range byPair {
		pm[k[0]+"\x00"+k[1]] = v
	}
	budget := 600
	if c.Tier == "thorough" {
		budget = 20000
	}
	judged := map[[2]int]bool{}
	sweep := func(gs [][]int) {
		for _, g := range gs {
			for i := 0; i < len(g); i++ {
				for j := i + 1; j < len(g); j++ {
					a, b := cat[g[i]], cat[g[j]]
					if sameArgv(a.argv, b.argv) || judged[[2]int{g[i], g[j]}] {
						continue
					}
					judged[[2]int{g[i], g[j]}] = true
					c.Hit("sweep-colliding-pairs")
					if budget > 0 {
						budget--
						c.judgePair(fc, a, b, budget%50 == 0)
					} else {
						// beyond the line budget: still classify, so that a new shape is never missed
						kind := collideReal(a, b)
						if key := classify(kind, a, b); key != keySplit && key != keyMerge && key != keyAdapter {
							c.flag(fc, key, "pair "+a.line()+" / "+b.line(), a.text()+" and "+b.text()+" share a cache entry ("+kind+")")
						} else {
							c.Hit("collision:" + key)
						}
					}
				}
			}
		}
	}
	sweep(groups(pm))
	sweep(groups(byAddr))
	// non-colliding pairs: random sample as model lines
	for i := 0; i < c.N; i++ {
		a, b := cat[c.Rng.IntN(len(cat))], cat[c.Rng.IntN(len(cat))]
		c.judgePair(fc, a, b, false)
	}

	// 2b. builder-pool recycling: a command's identity must be a function of ITS argv, whatever the pooled
	//     CommandSlice was used for before (episodes: reset, then use/put/use/put…; one P so that sync.Pool
	//     hands the slice straight back)
	prev := runtime.GOMAXPROCS(1)
	bodies := []string{"return 1", "return 2", "return redis.call('GET',KEYS[1])", "x", "x1", ""}
	pkeys := []string{"k", "k2", "x", "xHGET"}
	genUse := func() ccmd {
		as := make([]string, c.Rng.IntN(3))
		for j := range as {
			as[j] = []string{"1", "a", "", "12"}[c.Rng.IntN(4)]
		}
		body, k := bodies[c.Rng.IntN(len(bodies))], pkeys[c.Rng.IntN(len(pkeys))]
		switch c.Rng.IntN(8) {
		case 0, 1:
			return mk(bld.EvalRo().Script(body).Numkeys(1).Key(k).Arg(as...).Cache(), true)
		case 2, 3:
			return mk(bld.EvalshaRo().Sha1(body).Numkeys(1).Key(k).Arg(as...).Cache(), true)
		case 4:
			return mk(bld.FcallRo().Function(body).Numkeys(1).Key(k).Arg(as...).Cache(), true)
		case 5:
			return mk(bld.Get().Key(k).Cache(), false)
		case 6:
			return mk(bld.Hget().Key(k).Field(body).Cache(), false)
		}
		return mk(bld.Getrange().Key(k).Start(int64(c.Rng.IntN(30))).End(int64(c.Rng.IntN(30))).Cache(), false)
	}
	for e := 0; e < 40+c.N/4; e++ {
		c.emitK("reset", false)
		for j := 0; j < 3+c.Rng.IntN(6); j++ {
			tmpl := genUse() // only to obtain an argv; the measured command is rebuilt from the op line
			put := []string{"0", "0", "0", "1", "2"}[c.Rng.IntN(5)]
			op := "use " + put + " " + tmpl.line()
			cmds.PutCacheable(tmpl.c) // back to the pool first: the measured command is built on the slice that just cycled
			x, ans := useCmd(put, strings.Fields(tmpl.line()))
			c.Hit("use")
			c.Emit(op, ans, true)
			wk, wc, wp := pureIdentity(x)
			want := hx(wk) + " " + hx(wc)
			if wp {
				want = "panic"
			}
			if ans != want {
				c.flag(fc, keyPool, op, fmt.Sprintf("%s built on a recycled pooled CommandSlice gets the cache identity %s, its own argv gives %s: it shares the entry of a command used earlier in this episode", x.text(), ans, want))
			}
		}
	}
	runtime.GOMAXPROCS(prev)

	// 3. model correspondence on arbitrary argvs (incl. shapes no builder produces) and scripts
	toks := []string{"", "1", "12", "2", "ALL", "GET", "HGET", "k", "x", "J", "\x00\xff", "a b"}
	for i := 0; i < c.N; i++ {
		n := c.Rng.IntN(7)
		argv := make([]string, n)
		for j := range argv {
			argv[j] = toks[c.Rng.IntN(len(toks))]
		}
		x := ccmd{argv: argv}
		c.emitK("ck "+x.line(), n >= 2)
		if n >= 2 && c.Rng.IntN(3) == 0 {
			c.emitK("addr "+x.line(), true)
		}
		if c.Rng.IntN(3) == 0 {
			ws := []string{strconv.Itoa(c.Rng.IntN(4))}
			for _, a := range argv {
				ws = append(ws, hx(a))
			}
			c.emitK("mg "+strings.Join(ws, " "), true)
		}
		// scripts: numkeys 0, 1, 2 (only 1 is cacheable: the others panic with multiKeyCacheErr)
		nk := int64([]int{1, 1, 1, 0, 2}[c.Rng.IntN(5)])
		ks := make([]string, nk)
		for j := range ks {
			ks[j] = toks[c.Rng.IntN(len(toks))]
		}
		as := make([]string, c.Rng.IntN(3))
		for j := range as {
			as[j] = toks[c.Rng.IntN(len(toks))]
		}
		var s ccmd
		switch c.Rng.IntN(3) {
		case 0:
			s = mk(bld.EvalRo().Script(toks[c.Rng.IntN(len(toks))]).Numkeys(nk).Key(ks...).Arg(as...).Cache(), true)
		case 1:
			s = mk(bld.EvalshaRo().Sha1(toks[c.Rng.IntN(len(toks))]).Numkeys(nk).Key(ks...).Arg(as...).Cache(), true)
		default:
			s = mk(bld.FcallRo().Function(toks[c.Rng.IntN(len(toks))]).Numkeys(nk).Key(ks...).Arg(as...).Cache(), true)
		}
		c.emitK("ck "+s.line(), true)
	}
	// MGET / JSON.MGET through the real constructors
	for _, m := range cmds.MGets([]string{"k1", "k2", "k3"}) {
		c.emitK("mg 1 "+strings.TrimPrefix(mk(cmds.Cacheable(m), false).line(), "0 "), true)
	}
	for _, m := range cmds.JsonMGets([]string{"k1", "k2"}, "$.a") {
		c.emitK("mg 0 "+strings.TrimPrefix(mk(cmds.Cacheable(m), false).line(), "0 "), true)
		c.emitK("mg 5 "+strings.TrimPrefix(mk(cmds.Cacheable(m), false).line(), "0 "), true)
	}
}

func init() {
	suites["cachekey"] = suite{
		rule: "real cmds.CacheKey / MGetCacheCmd / MGetCacheKey and the real NewSimpleCacheAdapter address (observed through a map-backed SimpleCache) against the model: `ck`/`addr` on every command of a catalog built with the real builders (15 two-token, 13 three-token, 10 four-token command families incl. EVAL_RO/EVALSHA_RO/FCALL_RO over keys {k,x,xHGET}, string args {empty,1,12,2,ALL,GET}, int args {1,12,2,3,23}), random argvs of 0-6 tokens, scripts with numkeys 0/1/2, `mg` on MGET/JSON.MGET; exhaustive pairs sweep over the catalog (grouped by identity and by adapter address): every pair of distinct commands sharing an entry is emitted as a `pair` model line, classified into one of the three known shapes and flagged (c.Fail) under the shape's stable key — anything else gets cachekey:collision:other:<hex>; builder-pool recycling episodes (`reset`, then `use`: build on a pooled CommandSlice, CacheKey, PutCacheable/PutCompleted/keep, next command — EVAL_RO/EVALSHA_RO/FCALL_RO with different bodies/keys/args mixed with plain commands, GOMAXPROCS(1)): every identity must be the pure function of the command's own argv, else cachekey:collision:other:pool-recycled-identity; the three known witnesses (+ a script witness) are replayed end to end on the real LRU and adapter stores (Flight miss, Update, Flight of the other command returns the first reply). non-trivial = distinct op on a command with >= 3 tokens, any pair/addr/mg/script line",
		run:  runCacheKey,
		replay: func(c *Ctx, lines []string) {
			fc := failCounter{}
			for _, l := range lines {
				w := strings.Fields(l)
				if w[0] == "pair" {
					a, b := splitSlash(w[1:])
					c.judgePair(fc, fromLine(a), fromLine(b), true)
				} else if w[0] == "use" {
					runtime.GOMAXPROCS(1)
					x, ans := useCmd(w[1], w[2:])
					c.Emit(l, ans, true)
					wk, wc, wp := pureIdentity(x)
					want := hx(wk) + " " + hx(wc)
					if wp {
						want = "panic"
					}
					if ans != want {
						c.flag(fc, keyPool, l, fmt.Sprintf("%s built on a recycled pooled CommandSlice gets the cache identity %s, its own argv gives %s", x.text(), ans, want))
					}
				} else {
					c.Emit(l, evalCacheKey(l), true)
				}
			}
		},
	}
}
