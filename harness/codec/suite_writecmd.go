package main

import (
	"bufio"
	"bytes"
	"fmt"
	"hash/fnv"
	"strconv"
	"strings"

	"github.com/redis/rueidis"
)

// ---- tokens ------------------------------------------------------------------------------

// summ mirrors `summ` in lean/Rv/Drv/WriteCmd.lean: hex when short, else length/fnv/head/tail.
func summ(b string) string {
	if len(b) <= 256 {
		return hx(b)
	}
	h := fnv.New64a()
	h.Write([]byte(b))
	return fmt.Sprintf("#%d:%d:%s:%s", len(b), h.Sum64(), hx(b[:16]), hx(b[len(b)-16:]))
}

// argTok renders an argument for an op line: `r<len>x<hh>` for a long run of one byte, hex otherwise.
func argTok(s string) string {
	if len(s) > 64 && strings.Count(s, s[:1]) == len(s) {
		return fmt.Sprintf("r%dx%02x", len(s), s[0])
	}
	return hx(s)
}

func parseArgTok(w string) string {
	if strings.HasPrefix(w, "r") {
		p := strings.SplitN(w[1:], "x", 2)
		n, err := strconv.Atoi(p[0])
		if err != nil {
			panic("bad arg token " + w)
		}
		return strings.Repeat(unhx(p[1]), n)
	}
	return unhx(w)
}

func argToks(args []string) string {
	var b strings.Builder
	for _, a := range args {
		b.WriteByte(' ')
		b.WriteString(argTok(a))
	}
	return b.String()
}

func showArgv(args []string) string {
	var b strings.Builder
	fmt.Fprintf(&b, "argv %d", len(args))
	for _, a := range args {
		b.WriteByte(' ')
		b.WriteString(summ(a))
	}
	return b.String()
}

// ---- the real writer and the real reader ---------------------------------------------------

// realWrite runs the real writeCmd (or flushCmd) for every command through a bufio.Writer of the
// given size over a bytes.Buffer and returns everything the "connection" received.
func realWrite(bufSize int, useFlushCmd bool, cmds ...[]string) (out string) {
	defer func() {
		if r := recover(); r != nil {
			out = "PANIC"
		}
	}()
	var sink bytes.Buffer
	w := bufio.NewWriterSize(&sink, bufSize)
	for _, cmd := range cmds {
		var err error
		if useFlushCmd {
			err = rueidis.VerifFlushCmd(w, cmd)
		} else {
			err = rueidis.VerifWriteCmd(w, cmd)
		}
		if err != nil {
			return "ERR:" + err.Error()
		}
	}
	if !useFlushCmd {
		if err := w.Flush(); err != nil {
			return "ERR:" + err.Error()
		}
	}
	return sink.String()
}

// realDecodeArgvs reads `count` frames with the real reader and renders their argvs; every byte must be consumed.
func realDecodeArgvs(wire string, bufSize, count int) (ans string) {
	defer func() {
		if r := recover(); r != nil {
			ans = "panic"
		}
	}()
	src := strings.NewReader(wire)
	br := bufio.NewReaderSize(src, bufSize)
	parts := make([]string, 0, count)
	for i := 0; i < count; i++ {
		m, err := rueidis.VerifReadNextMessage(br)
		if err != nil {
			return "err:read:" + hx(err.Error())
		}
		if rueidis.VerifTyp(&m) != '*' {
			return fmt.Sprintf("err:not-array:%d", rueidis.VerifTyp(&m))
		}
		vs, err := m.ToArray()
		if err != nil {
			return "err:toarray"
		}
		args := make([]string, len(vs))
		for j := range vs {
			if rueidis.VerifTyp(&vs[j]) != '$' {
				return fmt.Sprintf("err:not-bulk:%d", rueidis.VerifTyp(&vs[j]))
			}
			s, err := vs[j].ToString()
			if err != nil {
				return "err:tostring"
			}
			args[j] = s
		}
		parts = append(parts, showArgv(args))
	}
	if rest := src.Len() + br.Buffered(); rest != 0 {
		return fmt.Sprintf("err:unread:%d", rest)
	}
	return strings.Join(parts, " / ")
}

func splitSlash(ws []string) (a, b []string) {
	for i, w := range ws {
		if w == "/" {
			return ws[:i], ws[i+1:]
		}
	}
	return ws, nil
}

func toksToArgs(ws []string) []string {
	args := make([]string, len(ws))
	for i, w := range ws {
		args[i] = parseArgTok(w)
	}
	return args
}

// evalWrite answers one op line from the real code (used for generation and for replay).
func evalWrite(line string) string {
	w := strings.Fields(line)
	switch w[0] {
	case "wn":
		id, _ := strconv.Atoi(w[1])
		n, _ := strconv.Atoi(w[2])
		var sink bytes.Buffer
		o := bufio.NewWriterSize(&sink, 16)
		if err := rueidis.VerifWriteN(o, byte(id), n); err != nil {
			return "ERR"
		}
		o.Flush()
		return summ(sink.String())
	case "wb":
		id, _ := strconv.Atoi(w[1])
		var sink bytes.Buffer
		o := bufio.NewWriterSize(&sink, 64)
		if err := rueidis.VerifWriteB(o, byte(id), parseArgTok(w[2])); err != nil {
			return "ERR"
		}
		o.Flush()
		return summ(sink.String())
	case "wc":
		bs, _ := strconv.Atoi(w[1])
		return summ(realWrite(bs, bs%2 == 1, toksToArgs(w[2:])))
	case "wc2":
		bs, _ := strconv.Atoi(w[1])
		a, b := splitSlash(w[2:])
		return summ(realWrite(bs, bs%2 == 1, toksToArgs(a), toksToArgs(b)))
	case "wcx", "!rtx":
		// the SAME []string written twice (retry / redirect / reuse of a command): both frames and the slice afterwards
		bs, _ := strconv.Atoi(w[1])
		cmd := toksToArgs(w[2:])
		out := realWrite(bs, bs%2 == 1, cmd, cmd)
		if w[0] == "wcx" {
			return summ(out) + " | " + showArgv(cmd)
		}
		return realDecodeArgvs(out, max(bs, 32), 2) + " | " + showArgv(cmd)
	case "!rt":
		bs, _ := strconv.Atoi(w[1])
		return realDecodeArgvs(realWrite(bs, bs%2 == 1, toksToArgs(w[2:])), max(bs, 32), 1)
	case "!rt2":
		bs, _ := strconv.Atoi(w[1])
		a, b := splitSlash(w[2:])
		return realDecodeArgvs(realWrite(bs, bs%2 == 1, toksToArgs(a), toksToArgs(b)), max(bs, 32), 2)
	}
	panic("unknown op " + line)
}

// ---- generation ------------------------------------------------------------------------------

// bufio.Writer sizes: tiny (a flush inside almost every header), odd (=> flushCmd instead of
// writeCmd+Flush), page sized and large (one flush at the end).
var wbufSizes = []int{16, 17, 31, 64, 257, 4096, 4097, 65536}

func (c *Ctx) wbuf() int { return wbufSizes[c.Rng.IntN(len(wbufSizes))] }

func (c *Ctx) cmdArg() string {
	n := c.Rng.IntN(9)
	switch c.Rng.IntN(14) {
	case 0, 1:
		n = 0
	case 2:
		n = 20 + c.Rng.IntN(200)
	case 3:
		n = []int{9, 10, 11, 99, 100, 101}[c.Rng.IntN(6)]
	case 4:
		n = []int{999, 1000, 1001, 1023, 1024, 4095, 4096, 4097}[c.Rng.IntN(8)]
	}
	b := make([]byte, n)
	for i := range b {
		switch c.Rng.IntN(7) {
		case 0:
			b[i] = '\r'
		case 1:
			b[i] = '\n'
		case 2:
			b[i] = byte(c.Rng.IntN(256))
		case 3:
			b[i] = "$*:+-0123456789"[c.Rng.IntN(15)]
		default:
			b[i] = byte('a' + c.Rng.IntN(26))
		}
	}
	return string(b)
}

func interesting(args []string) bool {
	if len(args) == 0 || len(args) >= 10 {
		return true
	}
	for _, a := range args {
		if a == "" || len(a) >= 10 || strings.ContainsAny(a, "\r\n") {
			return true
		}
		for i := 0; i < len(a); i++ {
			if a[i] < 32 || a[i] > 126 {
				return true
			}
		}
	}
	return false
}

func (c *Ctx) writeCase(args []string) {
	bs := c.wbuf()
	toks := argToks(args)
	nt := interesting(args)
	for _, op := range []string{fmt.Sprintf("wcx %d%s", c.wbuf(), toks), fmt.Sprintf("!rtx %d%s", c.wbuf(), toks)} {
		ans := evalWrite(op)
		c.Hit(strings.Fields(op)[0])
		c.Emit(op, ans, nt)
		if want := showArgv(args) + " / " + showArgv(args) + " | " + showArgv(args); strings.HasPrefix(op, "!rtx") && ans != want {
			c.Fail("writecmd:rewrite:"+shortKey(op), op, fmt.Sprintf("the same command written twice: frames and caller's argv afterwards are %.300q, expected %.300q", ans, want))
		}
	}
	for _, op := range []string{fmt.Sprintf("wc %d%s", bs, toks), fmt.Sprintf("!rt %d%s", c.wbuf(), toks)} {
		ans := evalWrite(op)
		c.Hit(strings.Fields(op)[0])
		c.Emit(op, ans, nt)
		if strings.HasPrefix(op, "!rt") && ans != showArgv(args) {
			// the harness judges the oracle itself too, so that a failing input is reported with a replay
			c.Fail("writecmd:roundtrip:"+shortKey(op), op, fmt.Sprintf("the written command decodes to %.200q, the argv was %.200q", ans, showArgv(args)))
		}
	}
}

func shortKey(op string) string {
	if len(op) > 48 {
		op = op[:48]
	}
	return hx(op)
}

func runWriteCmd(c *Ctx) {
	// 1. the floating point leading power in writeN: the model uses the exact power of ten, so every
	//    `wn` line checks the hypothesis `lead n = 10^(digits-1)` of the C14 theorems on the real code.
	//    Exhaustive at 10^k-1, 10^k, 10^k+1 for every k with n < 2^47, all n < 1200, then random.
	emitWN := func(id byte, n int) {
		op := fmt.Sprintf("wn %d %d", id, n)
		c.Emit(op, evalWrite(op), n >= 10)
		c.Hit("wn")
	}
	for n := 0; n < 1200; n++ {
		emitWN('*', n)
	}
	const lim47 = 1 << 47
	for p := 10; p < lim47; p *= 10 {
		for _, n := range []int{p - 1, p, p + 1, 2*p - 1, 2 * p, 5 * p, 9*p + p/10*9, 10*p - 2} {
			if n < lim47 {
				emitWN("*$"[c.Rng.IntN(2)], n)
				c.Hit("wn-boundary")
			}
		}
	}
	emitWN('$', lim47-1)
	for i := 0; i < c.N; i++ {
		bits := 4 + c.Rng.IntN(43)
		n := int(c.Rng.Uint64() & (1<<bits - 1))
		emitWN("*$"[c.Rng.IntN(2)], n)
	}
	// observation (not part of the property: no string or argument count can be this large): where does
	// the float expression first disagree with exact decimal rendering?
	firstDev := "none-up-to-1e18"
	for p, k := 1000000000000000, 15; k <= 18 && firstDev == "none-up-to-1e18"; p, k = p*10, k+1 {
		for _, n := range []int{p - 1, p, p + 1} {
			var sink bytes.Buffer
			o := bufio.NewWriterSize(&sink, 64)
			_ = rueidis.VerifWriteN(o, '$', n)
			o.Flush()
			if sink.String() != "$"+strconv.Itoa(n)+"\r\n" {
				firstDev = fmt.Sprintf("1e%d%+d", k, n-p)
				break
			}
		}
	}
	c.Hit("observation:writeN-float-lead-first-deviation-at-" + firstDev)

	// 2. exhaustive small scope: every argv with up to 3 arguments over a hostile alphabet
	alpha := []string{"", "a", "\r\n", "\x00\xff", "$1\r\na\r\n"}
	var rec func(prefix []string, depth int)
	rec = func(prefix []string, depth int) {
		c.writeCase(prefix)
		if depth == 0 {
			return
		}
		for _, a := range alpha {
			rec(append(append([]string{}, prefix...), a), depth-1)
		}
	}
	rec(nil, 3)

	// 3. argument lengths and argument counts across every decimal digit-count boundary
	lens := []int{9, 10, 11, 99, 100, 101, 999, 1000, 1001, 9999, 10000, 10001, 32767, 32768, 32769, 65535, 65536, 65537,
		99999, 100000, 100001, 999999, 1000000, 1000001}
	counts := []int{9, 10, 11, 99, 100, 101, 999, 1000, 1001}
	if c.Tier == "thorough" {
		lens = append(lens, 9999999, 10000000, 10000001)
		counts = append(counts, 9999, 10000, 10001, 99999, 100000, 100001)
	}
	fill := []string{"a", "\r", "\n", "\x00"}
	for i, l := range lens {
		arg := strings.Repeat(fill[i%len(fill)], l)
		op := fmt.Sprintf("wb %d %s", '$', argTok(arg))
		c.Emit(op, evalWrite(op), true)
		c.Hit("len-boundary")
		c.writeCase([]string{"SET", "k", arg})
		if l >= 30000 && l <= 70000 {
			// allocator size-class thresholds: several large arguments in one command, large argument first/last
			c.writeCase([]string{arg, "k", arg + "z"})
			c.writeCase([]string{"MSET", "a", arg, "b", strings.Repeat("\n", l+1), "c", ""})
		}
	}
	for _, n := range counts {
		args := make([]string, n)
		for j := range args {
			args[j] = alpha[(j*7+n)%len(alpha)]
		}
		c.Hit("argc-boundary")
		c.writeCase(args)
	}

	// 4. random argvs; every third case as a two-command pipeline (frames are independent)
	for i := 0; i < c.N; i++ {
		argc := c.Rng.IntN(7)
		if c.Rng.IntN(10) == 0 {
			argc = 8 + c.Rng.IntN(6)
		}
		args := make([]string, argc)
		for j := range args {
			args[j] = c.cmdArg()
		}
		c.writeCase(args)
		if i%3 == 0 {
			b := make([]string, c.Rng.IntN(4))
			for j := range b {
				b[j] = c.cmdArg()
			}
			for _, op := range []string{
				fmt.Sprintf("wc2 %d%s /%s", c.wbuf(), argToks(args), argToks(b)),
				fmt.Sprintf("!rt2 %d%s /%s", c.wbuf(), argToks(args), argToks(b)),
			} {
				c.Hit(strings.Fields(op)[0])
				ans := evalWrite(op)
				c.Emit(op, ans, true)
				if want := showArgv(args) + " / " + showArgv(b); strings.HasPrefix(op, "!rt2") && ans != want {
					c.Fail("writecmd:pipeline:"+shortKey(op), op, fmt.Sprintf("two written commands decode to %.200q, the argvs were %.200q", ans, want))
				}
			}
		}
	}
}

func init() {
	suites["writecmd"] = suite{
		rule: "real writeN/writeB/writeCmd/flushCmd through bufio.Writer sizes {16,17,31,64,257,4096,4097,65536} (odd size => flushCmd, even => writeCmd+Flush) over a bytes.Buffer, compared byte for byte with the model (`wn` all n<1200, 10^k-1/10^k/10^k+1 and more for every k with n<2^47, random n<2^47 — these check the float leading-power hypothesis; `wb`/`wc` argument lengths and counts across every digit-count boundary up to 10^6+1 (10^7+1 thorough), all argvs of <=3 args over {empty, a, CRLF, 00ff, embedded frame}, random binary argvs; `wc2` two commands back to back; `wcx` the SAME []string written twice — both frames and the caller's slice afterwards, with arguments around 32767..65537 bytes too); oracle lines `!rt`/`!rt2`/`!rtx`: the real bytes are decoded by the real reader and must equal the written argv(s) with nothing left unread, and (`!rtx`) the second frame of a re-written command must decode to the same argv and the caller's slice must be unchanged; non-trivial = distinct op with n>=10 / an empty, binary, CR/LF or >=10-byte argument, argc 0 or >=10, or a pipeline",
		run:  runWriteCmd,
		replay: func(c *Ctx, lines []string) {
			for _, l := range lines {
				c.Emit(l, evalWrite(l), true)
			}
		},
	}
}
