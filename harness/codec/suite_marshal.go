package main

import (
	"encoding/binary"
	"errors"
	"fmt"
	"math"
	"os"
	"os/exec"
	"strconv"
	"strings"
	"syscall"

	"github.com/redis/rueidis"
)

// ---- message trees -----------------------------------------------------------------------------

// node is one RedisMessage in line-protocol form (see parseNode in lean/Rv/Drv/CacheMarshal.lean):
//
//	S<typ>:<hex>  bytes set (setString)      I<typ>:<int>  only intlen      A<typ>:<n> + n nodes  values set
//	@ <attr node> <node>                     attrs pointer set
type node struct {
	kind byte // 'S' 'I' 'A'
	typ  byte
	s    string
	i    int64
	kids []*node
	attr *node
}

func (n *node) toks(b *strings.Builder) {
	if n.attr != nil {
		b.WriteString(" @")
		n.attr.toks(b)
	}
	switch n.kind {
	case 'S':
		fmt.Fprintf(b, " S%d:%s", n.typ, hx(n.s))
	case 'I':
		fmt.Fprintf(b, " I%d:%d", n.typ, n.i)
	case 'A':
		fmt.Fprintf(b, " A%d:%d", n.typ, len(n.kids))
		for _, k := range n.kids {
			k.toks(b)
		}
	}
}

func (n *node) String() string {
	var b strings.Builder
	n.toks(&b)
	return b.String()
}

func (n *node) build() rueidis.RedisMessage {
	var attrs *rueidis.RedisMessage
	if n.attr != nil {
		a := n.attr.build()
		attrs = &a
	}
	switch n.kind {
	case 'S':
		return rueidis.VerifMsg(n.typ, n.s, 0, nil, attrs)
	case 'I':
		return rueidis.VerifMsg(n.typ, "", n.i, nil, attrs)
	}
	arr := make([]rueidis.RedisMessage, len(n.kids))
	for i, k := range n.kids {
		arr[i] = k.build()
	}
	return rueidis.VerifMsg(n.typ, "", 0, arr, attrs)
}

// expect renders, in VerifDump's format, what a round trip must give back (cf. `norm` in
// lean/Rv/Model/CacheMarshal.lean): same tree, type bytes, strings, integers; attributes dropped; root marked.
func (n *node) expect(root bool) string {
	attrs := "-"
	if root {
		attrs = "cache"
	}
	switch {
	case strings.IndexByte(intTypes, n.typ) >= 0:
		v := n.i
		if n.kind == 'S' {
			v = int64(len(n.s))
		} else if n.kind == 'A' {
			v = int64(len(n.kids))
		}
		return fmt.Sprintf("%d:-:%d:[]:%s", n.typ, v, attrs)
	case strings.IndexByte(aggTypes, n.typ) >= 0:
		if n.kind != 'A' {
			return fmt.Sprintf("%d:-:0:[]:%s", n.typ, attrs)
		}
		parts := make([]string, len(n.kids))
		for i, k := range n.kids {
			parts[i] = k.expect(false)
		}
		return fmt.Sprintf("%d:-:%d:[%s]:%s", n.typ, len(n.kids), strings.Join(parts, ","), attrs)
	}
	if n.kind != 'S' {
		return fmt.Sprintf("%d:-:0:[]:%s", n.typ, attrs)
	}
	return fmt.Sprintf("%d:%s:%d:[]:%s", n.typ, hx(n.s), len(n.s), attrs)
}

func parseNodes(ws []string) (*node, []string) {
	w := ws[0]
	ws = ws[1:]
	if w == "@" {
		a, rest := parseNodes(ws)
		n, rest := parseNodes(rest)
		n.attr = a
		return n, rest
	}
	p := strings.SplitN(w[1:], ":", 2)
	t, err := strconv.Atoi(p[0])
	if err != nil {
		panic("bad node " + w)
	}
	n := &node{kind: w[0], typ: byte(t)}
	switch w[0] {
	case 'S':
		n.s = unhx(p[1])
	case 'I':
		n.i, _ = strconv.ParseInt(p[1], 10, 64)
	case 'A':
		k, _ := strconv.Atoi(p[1])
		for i := 0; i < k; i++ {
			var c *node
			c, ws = parseNodes(ws)
			n.kids = append(n.kids, c)
		}
	}
	return n, ws
}

const (
	intTypes = ":_#"
	aggTypes = "*%~"
	strTypes = "$+-,(!=$$++"
	oddTypes = ">|\x00x.;?\xff" // default branch: treated as strings
)

func (c *Ctx) pick(s string) byte { return s[c.Rng.IntN(len(s))] }

func (c *Ctx) int64Val() int64 {
	switch c.Rng.IntN(10) {
	case 0:
		return 0
	case 1:
		return math.MaxInt64
	case 2:
		return math.MinInt64
	case 3:
		return -1
	case 4:
		return int64(1)<<56 - 1 + int64(c.Rng.IntN(3))
	case 5:
		return int64(c.Rng.Uint64())
	}
	return int64(c.Rng.IntN(2001)) - 1000
}

func (c *Ctx) strVal() string {
	n := c.Rng.IntN(7)
	switch c.Rng.IntN(12) {
	case 0, 1:
		n = 0
	case 2:
		n = []int{8, 9, 10, 255, 256, 257}[c.Rng.IntN(6)]
	}
	b := make([]byte, n)
	for i := range b {
		if c.Rng.IntN(3) == 0 {
			b[i] = byte(c.Rng.IntN(256))
		} else {
			b[i] = "ab*$:%~_#\x00\xff"[c.Rng.IntN(11)]
		}
	}
	return string(b)
}

func (c *Ctx) genNode(depth int, canonical bool) *node {
	var n *node
	k := c.Rng.IntN(10)
	if depth <= 0 && k >= 6 {
		k = c.Rng.IntN(6)
	}
	switch {
	case k < 3:
		n = &node{kind: 'S', typ: c.pick(strTypes), s: c.strVal()}
	case k < 6:
		n = &node{kind: 'I', typ: c.pick(intTypes), i: c.int64Val()}
	default:
		n = &node{kind: 'A', typ: c.pick(aggTypes)}
		w := c.Rng.IntN(5)
		if c.Rng.IntN(8) == 0 {
			w = 5 + c.Rng.IntN(12)
		}
		for i := 0; i < w; i++ {
			n.kids = append(n.kids, c.genNode(depth-1, canonical))
		}
	}
	if !canonical && c.Rng.IntN(6) == 0 {
		// shapes the reader never produces: any kind under any type byte, odd type bytes
		n.typ = c.pick(intTypes + aggTypes + strTypes + oddTypes)
	}
	if c.Rng.IntN(12) == 0 {
		n.attr = &node{kind: 'A', typ: '|', kids: []*node{{kind: 'S', typ: '+', s: "k"}, {kind: 'I', typ: ':', i: 1}}}
	}
	return n
}

// ---- the real code ---------------------------------------------------------------------------------

func exactCopy(b []byte) []byte {
	// len == cap: Go bounds-checks slicing against cap, so spare capacity would hide an over-read
	o := make([]byte, len(b))
	copy(o, b)
	return o
}

func realUnmarshal(buf []byte) (ans string) {
	defer func() {
		if r := recover(); r != nil {
			ans = "panic"
		}
	}()
	var m rueidis.RedisMessage
	err := m.CacheUnmarshalView(exactCopy(buf))
	if err != nil {
		if errors.Is(err, rueidis.ErrCacheUnmarshal) {
			return "err:unmarshal"
		}
		return "err:other:" + hx(err.Error())
	}
	return "ok " + rueidis.VerifDump(&m) + " " + strconv.FormatInt(rueidis.VerifGetExpireAt(&m), 10)
}

func realMarshal(n *node, ttl string, mode int) []byte {
	m := n.build()
	setTTL(&m, ttl)
	switch mode {
	case 1:
		return m.CacheMarshal(make([]byte, 0, 3)) // forces the bytes.Buffer to grow
	case 2:
		return m.CacheMarshal(make([]byte, 0, m.CacheSize()))
	}
	return m.CacheMarshal(nil)
}

// setTTL stores the 7 ttl bytes through setExpireAt (little endian value of the bytes).
func setTTL(m *rueidis.RedisMessage, ttl string) {
	var v int64
	for i := 6; i >= 0; i-- {
		v = v<<8 | int64(ttl[i])
	}
	rueidis.VerifSetExpireAt(m, v)
}

// walkAlloc follows unmarshalView's control flow only far enough to find the largest element count
// it would hand to make(); used solely to keep dangerous inputs out of this process.
func walkAlloc(buf []byte, c int64, maxN *int64, budget *int) (int64, bool) {
	*budget--
	if *budget < 0 || int64(len(buf)) < c+9 {
		return 0, false
	}
	typ := buf[c]
	size := int64(binary.BigEndian.Uint64(buf[c+1 : c+9]))
	c += 9
	switch typ {
	case ':', '_', '#':
	case '*', '%', '~':
		if size > *maxN {
			*maxN = size
		}
		if size < 0 || size > 1<<20 {
			return 0, false
		}
		for i := int64(0); i < size; i++ {
			var ok bool
			if c, ok = walkAlloc(buf, c, maxN, budget); !ok {
				return 0, false
			}
		}
	default:
		if size < 0 || c+size < 0 || int64(len(buf)) < c+size {
			return 0, false
		}
		c += size
	}
	return c, true
}

const (
	inProcMaxElems = 1 << 20 // 40 MiB of RedisMessage: fine in this process
	crashMinElems  = 1 << 28 // 10 GiB: certainly beyond the child's 4 GiB address space
)

// unmarshalRouted answers `un` for an arbitrary buffer: in-process when no large allocation is
// requested, in an address-space limited child when one certainly exceeds it; "" = ambiguous band, skip.
func unmarshalRouted(buf []byte) string {
	if len(buf) < 7 {
		return realUnmarshal(buf)
	}
	var maxN int64
	budget := 1 << 22
	walkAlloc(buf, 7, &maxN, &budget)
	switch {
	case maxN <= inProcMaxElems:
		return realUnmarshal(buf)
	case maxN < crashMinElems:
		return ""
	}
	cmd := exec.Command(os.Args[0], "-child-unmarshal", hx(string(buf)))
	cmd.Env = append(os.Environ(), "GOMEMLIMIT=512MiB")
	out, err := cmd.Output()
	if err != nil {
		return "oom" // the runtime died allocating (fatal error: out of memory)
	}
	return strings.TrimSpace(string(out))
}

func evalMarshal(line string) string {
	w := strings.Fields(line)
	switch w[0] {
	case "sz":
		n, _ := parseNodes(w[1:])
		m := n.build()
		return strconv.Itoa(m.CacheSize())
	case "ms":
		n, _ := parseNodes(w[2:])
		return summ(string(realMarshal(n, unhx(w[1]), len(w)%3)))
	case "un":
		if a := unmarshalRouted([]byte(unhx(w[1]))); a != "" {
			return a
		}
		return "skipped"
	case "ttl":
		v, _ := strconv.ParseInt(w[1], 10, 64)
		m := rueidis.VerifMsg('_', "", 0, nil, nil)
		rueidis.VerifSetExpireAt(&m, v)
		return hx(string(m.CacheMarshal(nil)[:7])) + " " + strconv.FormatInt(rueidis.VerifGetExpireAt(&m), 10)
	case "!rt":
		n, _ := parseNodes(w[2:])
		return realUnmarshal(realMarshal(n, unhx(w[1]), len(w)%3))
	case "!tr":
		n, _ := parseNodes(w[2:])
		buf := realMarshal(n, unhx(w[1]), 0)
		for k := 0; k < len(buf); k++ {
			if a := realUnmarshal(buf[:k]); a != "err:unmarshal" {
				return fmt.Sprintf("k=%d:%s", k, a)
			}
		}
		return "allerr " + strconv.Itoa(len(buf))
	}
	panic("unknown op " + line)
}

// ---- generation ----------------------------------------------------------------------------------

func (c *Ctx) ttlBytes() string {
	switch c.Rng.IntN(5) {
	case 0:
		return "\x00\x00\x00\x00\x00\x00\x00"
	case 1:
		return "\xff\xff\xff\xff\xff\xff\xff"
	case 2:
		var b [8]byte
		binary.LittleEndian.PutUint64(b[:], uint64(1700000000000+c.Rng.Int64N(1<<36)))
		return string(b[:7])
	}
	b := make([]byte, 7)
	for i := range b {
		b[i] = byte(c.Rng.IntN(256))
	}
	return string(b)
}

func (c *Ctx) emitM(op string, nontriv bool) string {
	ans := evalMarshal(op)
	f := strings.Fields(op)[0]
	c.Hit(f)
	if f == "un" {
		c.Hit("un:" + strings.SplitN(ans, " ", 2)[0])
	}
	c.Emit(op, ans, nontriv)
	return ans
}

func hasAgg(n *node) bool { return n.kind == 'A' }

func (c *Ctx) marshalCase(n *node, everyK bool) {
	ttl := c.ttlBytes()
	tree := n.String()
	nt := hasAgg(n) || n.attr != nil
	c.emitM("sz"+tree, nt)
	c.emitM("ms "+hx(ttl)+tree, nt)
	// the harness judges the two oracle lines itself too, so that a failing input is reported with a replay
	var exp int64
	for i := 6; i >= 0; i-- {
		exp = exp<<8 | int64(ttl[i])
	}
	if a, want := c.emitM("!rt "+hx(ttl)+tree, nt), fmt.Sprintf("ok %s %d", n.expect(true), exp); a != want {
		c.Fail("marshal:roundtrip:"+shortKey(tree), "!rt "+hx(ttl)+tree, fmt.Sprintf("unmarshal(marshal m) is %.300q, expected %.300q", a, want))
	}
	if a := c.emitM("!tr "+hx(ttl)+tree, nt); !strings.HasPrefix(a, "allerr ") {
		c.Fail("marshal:truncation:"+shortKey(tree), "!tr "+hx(ttl)+tree, "a truncated buffer is not rejected with ErrCacheUnmarshal: "+a)
	}
	buf := realMarshal(n, ttl, 0)
	if m := n.build(); m.CacheSize() != len(buf) {
		c.Fail("marshal:size-mismatch", "sz"+tree, fmt.Sprintf("CacheSize=%d but CacheMarshal wrote %d bytes", m.CacheSize(), len(buf)))
	}
	// model lines: the real unmarshalView against the model on the full buffer (+ trailing bytes) and on prefixes
	c.emitM("un "+hx(string(buf)), nt)
	c.emitM("un "+hx(string(buf)+c.strVal()+"\x2a"), nt)
	if len(buf) <= 4096 {
		step := 1
		if !everyK && len(buf) > 120 {
			step = 1 + c.Rng.IntN(len(buf)/40)
		}
		for k := 0; k < len(buf); k += step {
			c.emitM("un "+hx(string(buf[:k])), true)
		}
	}
	// malformed stream: byte corruptions of the valid buffer (answers may be panic/oom; must agree with the model)
	for j := 0; j < 3 && len(buf) > 0; j++ {
		m := append([]byte{}, buf...)
		for r := 0; r <= c.Rng.IntN(3); r++ {
			p := c.Rng.IntN(len(m))
			switch c.Rng.IntN(6) {
			case 0:
				m[p] = byte(c.Rng.IntN(256))
			case 1:
				m[p] ^= 1 << c.Rng.IntN(8)
			case 2:
				m[p] = 0xff
			case 3:
				m[p] = "*%~$:_#"[c.Rng.IntN(7)]
			case 4:
				m[p]++
			case 5:
				m[p] = 0x80
			}
		}
		if c.Rng.IntN(4) == 0 {
			m = m[:c.Rng.IntN(len(m)+1)]
		}
		op := "un " + hx(string(m))
		if a := unmarshalRouted(m); a == "" {
			c.Hit("un:skipped-ambiguous-allocation")
		} else {
			c.Hit("un")
			c.Hit("un:corrupt:" + strings.SplitN(a, " ", 2)[0])
			c.Emit(op, a, true)
		}
	}
}

func be(n uint64) string {
	var b [8]byte
	binary.BigEndian.PutUint64(b[:], n)
	return string(b[:])
}

func runMarshal(c *Ctx) {
	// 0. expiry packing
	for _, v := range []int64{0, 1, 255, 256, 1<<56 - 1, 1 << 56, 1<<56 + 1, -1, math.MaxInt64, math.MinInt64, 1700000000000} {
		c.emitM(fmt.Sprintf("ttl %d", v), true)
	}
	for i := 0; i < 50; i++ {
		c.emitM(fmt.Sprintf("ttl %d", c.int64Val()), true)
	}
	// 1. fixed hostile buffers (outside the property: unmarshalView on buffers CacheMarshal never wrote)
	z7 := "\x00\x00\x00\x00\x00\x00\x00"
	for _, h := range []string{
		"", z7[:6], z7, z7 + "$", z7 + "$" + be(0), z7 + "$" + be(1), z7 + "$" + be(1) + "a",
		z7 + "$" + be(math.MaxUint64), z7 + "$" + be(1<<63), z7 + "$" + be(1<<63-1), z7 + "$" + be(1<<63-17), z7 + "$" + be(1<<62),
		z7 + "*" + be(math.MaxUint64), z7 + "*" + be(1<<63), z7 + "%" + be(1<<63-1), z7 + "~" + be(1<<62),
		z7 + "*" + be(7036874417767), z7 + "*" + be(7036874417766), z7 + "*" + be(1<<40),
		z7 + "*" + be(1), z7 + "*" + be(2) + ":" + be(5), z7 + "*" + be(1<<20) + ":" + be(5),
		z7 + ":" + be(math.MaxUint64), z7 + "_" + be(77), z7 + "#" + be(1<<63),
		z7 + "*" + be(1) + "*" + be(1) + "*" + be(1) + "$" + be(math.MaxUint64),
		z7 + ">" + be(2) + "ab", z7 + "|" + be(3) + "ab", z7 + "\x00" + be(0),
	} {
		op := "un " + hx(h)
		if a := unmarshalRouted([]byte(h)); a == "" {
			c.Hit("un:skipped-ambiguous-allocation")
		} else {
			c.Hit("un:hostile:" + strings.SplitN(a, " ", 2)[0])
			if a == "panic" || a == "oom" {
				c.Hit("observation:corrupted-buffer-" + a)
			}
			c.Emit(op, a, true)
		}
	}
	// 2. exhaustive small scope: every tree of depth <= 2 and width <= 2 over a small set of leaves
	leaves := []*node{
		{kind: 'S', typ: '$', s: ""}, {kind: 'S', typ: '+', s: "ab"}, {kind: 'I', typ: ':', i: -5}, {kind: 'I', typ: '_'},
		{kind: 'I', typ: '#', i: 1}, {kind: 'S', typ: ',', s: "1.5"}, {kind: 'S', typ: '>', s: "p"}, {kind: 'S', typ: ':', s: "zz"},
	}
	var level1 []*node
	level1 = append(level1, leaves...)
	for _, t := range []byte(aggTypes) {
		level1 = append(level1, &node{kind: 'A', typ: t})
		for _, a := range leaves {
			level1 = append(level1, &node{kind: 'A', typ: t, kids: []*node{a}})
		}
	}
	level1 = append(level1, &node{kind: 'A', typ: '$', kids: []*node{leaves[1]}}, &node{kind: 'A', typ: '>', kids: []*node{leaves[2]}},
		&node{kind: 'I', typ: '$', i: 9}, &node{kind: 'I', typ: '*', i: 3})
	for _, n := range level1 {
		c.marshalCase(n, true)
	}
	for i, a := range level1 {
		for j, b := range level1 {
			if (i*31+j)%17 == 0 || c.Tier == "thorough" && (i+j)%3 == 0 {
				c.marshalCase(&node{kind: 'A', typ: aggTypes[(i+j)%3], kids: []*node{a, b}}, true)
			}
		}
	}
	// 3. random trees (mostly reader-shaped, some arbitrary), all truncation points
	for i := 0; i < c.N; i++ {
		n := c.genNode(1+c.Rng.IntN(4), c.Rng.IntN(4) != 0)
		c.marshalCase(n, i%4 == 0)
	}
	// 4. a few big ones: long strings and wide arrays (length fields with several non-zero bytes)
	for _, l := range []int{255, 256, 65535, 65536, 70000} {
		c.marshalCase(&node{kind: 'A', typ: '*', kids: []*node{{kind: 'S', typ: '$', s: strings.Repeat("x", l)}, {kind: 'I', typ: ':', i: int64(l)}}}, false)
	}
	// wide aggregates: below, at and above every element count at which a decoder might cap an allocation
	// (1<<10 = maxPreallocMsgs of the RESP reader), as arrays, sets and maps (2 entries per pair), top level
	// and nested with siblings AFTER them (a short-decoded aggregate shifts everything that follows)
	wideOf := func(t byte, n int, strs bool) *node {
		w := &node{kind: 'A', typ: t}
		for i := 0; i < n; i++ {
			if strs && i%2 == 0 {
				w.kids = append(w.kids, &node{kind: 'S', typ: '$', s: "f" + strconv.Itoa(i)})
			} else {
				w.kids = append(w.kids, &node{kind: 'I', typ: ':', i: int64(i)})
			}
		}
		return w
	}
	c.marshalCase(wideOf('~', 300, false), false)
	for i, n := range []int{1023, 1024, 1025, 1026, 1500, 2048, 4096} {
		c.Hit("wide-aggregate")
		c.marshalCase(wideOf(aggTypes[i%3], n, i%2 == 1), false)
	}
	c.marshalCase(wideOf('%', 2*513, true), false) // a map of 513 pairs
	c.marshalCase(wideOf('%', 2*600, true), false)
	after := []*node{{kind: 'S', typ: '$', s: "after"}, {kind: 'I', typ: ':', i: 7}, {kind: 'A', typ: '*', kids: []*node{{kind: 'S', typ: '+', s: "OK"}}}}
	c.marshalCase(&node{kind: 'A', typ: '*', kids: append([]*node{wideOf('*', 1025, false)}, after...)}, false)
	c.marshalCase(&node{kind: 'A', typ: '%', kids: []*node{{kind: 'S', typ: '$', s: "k1"}, wideOf('~', 1500, true), {kind: 'S', typ: '$', s: "k2"}, wideOf('%', 1026, true)}}, false)
	c.marshalCase(&node{kind: 'A', typ: '*', kids: []*node{{kind: 'A', typ: '*', kids: []*node{wideOf('*', 1030, false), {kind: 'I', typ: ':', i: -1}}}, {kind: 'S', typ: '$', s: "tail"}}}, false)
	if c.Tier == "thorough" {
		c.marshalCase(wideOf('*', 6000, true), false)
		c.marshalCase(&node{kind: 'A', typ: '~', kids: append([]*node{wideOf('%', 2*2500, true)}, after...)}, false)
	}
}

func init() {
	childHooks = append(childHooks, func(args []string) bool {
		if len(args) == 2 && args[0] == "-child-unmarshal" {
			lim := uint64(4 << 30)
			_ = syscall.Setrlimit(syscall.RLIMIT_AS, &syscall.Rlimit{Cur: lim, Max: lim})
			fmt.Println(realUnmarshal([]byte(unhx(args[1]))))
			return true
		}
		return false
	})
	suites["marshal"] = suite{
		rule: "message trees built with VerifMsg (S/I/A kinds under every type byte incl. ones the reader never pairs them with, attrs, int64 boundaries, binary strings, depth<=5): CacheSize (`sz`), CacheMarshal bytes (`ms`, three buffer modes), CacheUnmarshalView on the full buffer, with trailing bytes and on EVERY proper prefix (`un`, model lines; exact-capacity copies so that an over-read cannot hide in spare capacity); oracle lines `!rt` (unmarshal(marshal m) must be the normalised tree with the same expiry) and `!tr` (every truncation point must be ErrCacheUnmarshal); wide aggregates of 1023..4096 elements (arrays, sets, maps of > 512 pairs; top level and nested with siblings after them); exhaustive for all trees of depth<=1 over 8 leaves x {*,%,~} and sampled depth 2; malformed stream: 1-3 byte corruptions of valid buffers and 29 fixed hostile buffers (negative/overflowing/huge sizes) where panic/oom answers are allowed but must agree with the model (inputs requesting > 10 GiB run in a child with a 4 GiB address space; the band in between is not generated); `ttl`: setExpireAt/getExpireAt packing. non-trivial = distinct op on a tree with an aggregate or attribute, any prefix/corrupted buffer, any ttl value",
		run:  runMarshal,
		replay: func(c *Ctx, lines []string) {
			for _, l := range lines {
				c.Emit(l, evalMarshal(l), true)
			}
		},
	}
}
