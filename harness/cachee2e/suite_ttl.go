package main

// Suite `cachettl` (C07) - the expiry with which pipe.go commits the reply of a cached read:
// min(client TTL counted from the start of the call, server PTTL counted from the arrival of
// the reply). The real client talks to fakeredis; the EXEC reply of the caching transaction is
// overridden so that it carries a chosen PTTL answer. Driver: lean/Rv/Drv/CachePipe.lean.
//
//   !expiry <path> <store> <ttlMs> <pttl> <tb> <ta> <pxat>      spec: pxat within [expiry(tb), expiry(ta)]
//   expiry <ttlMs> <pttl> <startMs> <arrivalMs>  -> <pxat>      model Rv.Lru.expiryOf; (start, arrival) fitted inside [tb, ta]
//   !acc <pxat> <tb2> <ta2> <CachePTTL> <CacheTTL>              spec: accessors agree with the expiry
//   !rehit <path> <pttl> <pxat> <t2b> <t2a> <hit> <pxat2>       spec: second read hits only before the expiry
//   !expiry2 domulti-gap <store> <ttlMs> <pttl> <sb> <sa> <ab> <aa> <pxat>
//            spec: the call started in [sb,sa], the reply OF THIS COMMAND arrived in [ab,aa] (DoMultiCache whose
//            2nd/3rd EXEC reply is held 300 ms longer than the previous one: every reply has its own arrival clock)
// The harness answers `ok` to every `!` line.

import (
	"context"
	"fmt"
	"strings"
	"sync"
	"time"

	"github.com/redis/rueidis"
	"github.com/redis/rueidis/zzverif/fakeredis"
)

func init() {
	suites["cachettl"] = suite{
		rule: "one fresh fakeredis + real client (single pipe, no retry, store = built-in lru / NewSimpleCacheAdapter) per case; cached read paths DoCache(GET), DoMultiCache(GET,GET) and DoCache(MGET) whose caching transaction's EXEC reply is overridden to carry a chosen PTTL answer; deterministic grid client TTL {200ms, 2s, 1min} x PTTL {0,1,3,50,ttl-1,ttl,ttl+1,10*ttl,86400000,-1,-2} (+ missing key, + a random tail scaled by n); per reply: reported CachePXAT must lie in the window [expiry(before call), expiry(after call)] with expiry = min(start+ttl, arrival+pttl) (pttl<0: start+ttl), the model reproduces it for some (start, arrival) in the window, CachePTTL/CacheTTL agree with it, and a second read 2 ms later hits iff the expiry is still ahead and reports the same expiry; non-trivial = every !expiry line",
		run:  runCacheTTL,
	}
}

type ttlCase struct {
	path   string // docache | domulti | mget
	simple bool
	ttlMs  int64
	pttl   [2]int64 // PTTL answers for k1, k2 (k2 unused on path docache)
	null   bool     // k1 does not exist (value null; meaningful with pttl -2)
}

// one cached reply as seen by the caller
type ttlObs struct {
	key   string
	pttl  int64
	pxat  int64
	hit   bool
	val   string
	isNil bool
	acc   func() (pttl, ttl int64)
}

func storeName(simple bool) string {
	if simple {
		return "simple"
	}
	return "lru"
}

func pipeClient(srv *fakeredis.Server, simple bool) (rueidis.Client, error) {
	opt := rueidis.ClientOption{InitAddress: []string{"fake:6379"}, DialCtxFn: srv.Dial, ForceSingleClient: true, PipelineMultiplex: -1, DisableRetry: true}
	if simple {
		opt.NewCacheStoreFn = func(rueidis.CacheStoreOption) rueidis.CacheStore {
			return rueidis.NewSimpleCacheAdapter(&simpleStore{m: map[string]rueidis.RedisMessage{}})
		}
	}
	return rueidis.NewClient(opt)
}

func respBulk(v string, null bool) string {
	if null {
		return "_\r\n"
	}
	return fmt.Sprintf("$%d\r\n%s\r\n", len(v), v)
}

// the expiry pipe.go + store commit (what the model computes), in ms
func ttlModel(ttl, pttl, start, arrival int64) int64 {
	cp := start + ttl
	if pttl >= 0 {
		if sv := arrival + pttl; !(cp < sv || sv == 0) {
			return sv
		}
	}
	return cp
}

// the expiry the property demands if the whole call happened at instant t
func ttlSpec(ttl, pttl, t int64) int64 {
	if pttl < 0 || ttl < pttl {
		return t + ttl
	}
	return t + pttl
}

func ttlClass(ttl, pttl int64) string {
	switch {
	case pttl == -1 || pttl == -2 || pttl == 0 || pttl == 1:
		return fmt.Sprint(pttl)
	case pttl == ttl-1:
		return "ttl-1"
	case pttl == ttl:
		return "ttl"
	case pttl == ttl+1:
		return "ttl+1"
	case pttl < ttl:
		return "below-ttl"
	default:
		return "above-ttl"
	}
}

func ttlEpisode(c *Ctx, tc ttlCase) {
	desc := fmt.Sprintf("%+v", tc)
	srv := fakeredis.New(fakeredis.Options{})
	defer srv.Close()
	client, err := pipeClient(srv, tc.simple)
	if err != nil {
		c.Fail("cachettl:newclient", desc, err.Error())
		return
	}
	defer client.Close()
	ctx := context.Background()
	vals := map[string]string{"k1": "k1|1", "k2": "k2|1"}
	for _, k := range []string{"k1", "k2"} {
		if k == "k1" && tc.null {
			continue
		}
		client.Do(ctx, client.B().Set().Key(k).Value(vals[k]).Build())
	}
	ttl := time.Duration(tc.ttlMs) * time.Millisecond
	b1, b2 := respBulk(vals["k1"], tc.null), respBulk(vals["k2"], false)
	var rules []*fakeredis.RuleHandle
	exec := func(reply string) {
		rules = append(rules, srv.AddRule(fakeredis.Rule{Match: fakeredis.Cmd("EXEC"), Times: 1, Exec: true, Reply: []byte(reply)}))
	}
	switch tc.path {
	case "docache":
		exec(fmt.Sprintf("*2\r\n:%d\r\n%s", tc.pttl[0], b1))
	case "domulti": // two MULTI blocks, one EXEC each, in batch order
		exec(fmt.Sprintf("*2\r\n:%d\r\n%s", tc.pttl[0], b1))
		exec(fmt.Sprintf("*2\r\n:%d\r\n%s", tc.pttl[1], b2))
	case "mget":
		exec(fmt.Sprintf("*3\r\n:%d\r\n:%d\r\n*2\r\n%s%s", tc.pttl[0], tc.pttl[1], b1, b2))
	}
	fromResult := func(key string, pttl int64, r rueidis.RedisResult) (o ttlObs, err error) {
		o = ttlObs{key: key, pttl: pttl, pxat: r.CachePXAT(), hit: r.IsCacheHit(), acc: func() (int64, int64) { return r.CachePTTL(), r.CacheTTL() }}
		if o.val, err = r.ToString(); rueidis.IsRedisNil(err) {
			o.isNil, err = true, nil
		}
		return
	}
	read := func() (tb, ta int64, obs []ttlObs, err error) {
		switch tc.path {
		case "docache":
			tb = time.Now().UnixMilli()
			r := client.DoCache(ctx, client.B().Get().Key("k1").Cache(), ttl)
			ta = time.Now().UnixMilli()
			o, e := fromResult("k1", tc.pttl[0], r)
			return tb, ta, []ttlObs{o}, e
		case "domulti":
			tb = time.Now().UnixMilli()
			rs := client.DoMultiCache(ctx, rueidis.CT(client.B().Get().Key("k1").Cache(), ttl), rueidis.CT(client.B().Get().Key("k2").Cache(), ttl))
			ta = time.Now().UnixMilli()
			if len(rs) != 2 {
				return tb, ta, nil, fmt.Errorf("DoMultiCache returned %d results", len(rs))
			}
			for i, k := range []string{"k1", "k2"} {
				o, e := fromResult(k, tc.pttl[i], rs[i])
				if e != nil {
					return tb, ta, nil, e
				}
				obs = append(obs, o)
			}
			return tb, ta, obs, nil
		default:
			tb = time.Now().UnixMilli()
			r := client.DoCache(ctx, client.B().Mget().Key("k1", "k2").Cache(), ttl)
			ta = time.Now().UnixMilli()
			arr, e := r.ToArray()
			if e != nil || len(arr) != 2 {
				return tb, ta, nil, fmt.Errorf("MGET reply: %d elements, %v", len(arr), e)
			}
			for i, k := range []string{"k1", "k2"} {
				m := &arr[i]
				o := ttlObs{key: k, pttl: tc.pttl[i], pxat: m.CachePXAT(), hit: m.IsCacheHit(), acc: func() (int64, int64) { return m.CachePTTL(), m.CacheTTL() }}
				if o.val, e = m.ToString(); rueidis.IsRedisNil(e) {
					o.isNil, e = true, nil
				}
				if e != nil {
					return tb, ta, nil, e
				}
				obs = append(obs, o)
			}
			return tb, ta, obs, nil
		}
	}
	tb, ta, first, err := read()
	if err != nil {
		c.Fail("cachettl:pipe:read-error", desc, "first read: "+err.Error())
		return
	}
	for _, h := range rules {
		if h.Fired() != 1 {
			c.Fail("cachettl:harness:exec-rule-not-fired", desc, fmt.Sprintf("the caching transaction did not have the expected shape: %v", srv.Log()))
			return
		}
	}
	store := storeName(tc.simple)
	for _, o := range first {
		c.Hit(tc.path + ":pttl=" + ttlClass(tc.ttlMs, o.pttl))
		if want := vals[o.key]; o.hit || (o.isNil != (tc.null && o.key == "k1")) || (!o.isNil && o.val != want) {
			c.Fail("cachettl:pipe:first-read-value", desc, fmt.Sprintf("%s: hit=%v nil=%v value %q", o.key, o.hit, o.isNil, o.val))
		}
		// (1) the specification judges the reported expiry against the observation window
		op := fmt.Sprintf("!expiry %s %s %d %d %d %d %d", tc.path, store, tc.ttlMs, o.pttl, tb, ta, o.pxat)
		c.Emit(op, "ok", true)
		if lo, hi := ttlSpec(tc.ttlMs, o.pttl, tb), ttlSpec(tc.ttlMs, o.pttl, ta); o.pxat < lo || o.pxat > hi {
			key := "cachettl:pipe:expiry-not-min"
			if o.pttl == 0 {
				key = "cachettl:pipe:server-pttl-boundary"
			}
			c.Fail(key, op, fmt.Sprintf("%s of %s (%s store): client ttl %d ms, server PTTL %d: reply committed with expiry %d, must lie in [%d,%d] (call observed in [%d,%d])",
				tc.path, o.key, store, tc.ttlMs, o.pttl, o.pxat, lo, hi, tb, ta))
		}
		// (2) the model reproduces it for some start <= arrival inside the window
		start, arrival := tb, tb
	fit:
		for s := tb; s <= ta; s++ {
			for a := s; a <= ta; a++ {
				if ttlModel(tc.ttlMs, o.pttl, s, a) == o.pxat {
					start, arrival = s, a
					break fit
				}
			}
		}
		c.Emit(fmt.Sprintf("expiry %d %d %d %d", tc.ttlMs, o.pttl, start, arrival), fmt.Sprint(o.pxat), false)
		// (3) accessors of the reply
		tb2 := time.Now().UnixMilli()
		gp, gt := o.acc()
		ta2 := time.Now().UnixMilli()
		aop := fmt.Sprintf("!acc %d %d %d %d %d", o.pxat, tb2, ta2, gp, gt)
		c.Emit(aop, "ok", false)
		lo, hi := max(0, o.pxat-ta2), max(0, o.pxat-tb2)
		if gp < lo || gp > hi || gt < (lo+999)/1000 || gt > (hi+999)/1000 {
			c.Fail("cachettl:pipe:accessors", aop, fmt.Sprintf("expiry %d read in [%d,%d]: CachePTTL=%d CacheTTL=%d", o.pxat, tb2, ta2, gp, gt))
		}
	}
	// (4) second read, normal server answers (the keys have no TTL on the server: PTTL -1, or -2 for the missing key)
	time.Sleep(2 * time.Millisecond)
	t2b, t2a, second, err := read()
	if err != nil || len(second) != len(first) {
		c.Fail("cachettl:pipe:read-error", desc, fmt.Sprintf("second read: %v", err))
		return
	}
	for i, o := range first {
		s := second[i]
		op := fmt.Sprintf("!rehit %s %d %d %d %d %s %d", tc.path, o.pttl, o.pxat, t2b, t2a, b01(s.hit), s.pxat)
		c.Emit(op, "ok", false)
		if s.hit {
			c.Hit(tc.path + ":second-read=hit")
		} else {
			c.Hit(tc.path + ":second-read=miss")
		}
		if s.isNil != o.isNil || s.val != o.val {
			c.Fail("cachettl:pipe:second-read-value", op, fmt.Sprintf("%s: first %q second %q", o.key, o.val, s.val))
		}
		switch {
		case s.hit && o.pttl == 0: // the reply expired on arrival, 2 ms ago
			c.Fail("cachettl:pipe:server-pttl-boundary", op, fmt.Sprintf("%s of %s (%s store, client ttl %d ms): a reply that arrived with server PTTL 0 is served as a cache hit (expiry %d) by a read started at %d",
				tc.path, o.key, store, tc.ttlMs, s.pxat, t2b))
		case s.hit && !(t2b < o.pxat && s.pxat == o.pxat):
			key := "cachettl:pipe:hit-after-expiry"
			if o.pttl == 0 {
				key = "cachettl:pipe:server-pttl-boundary"
			}
			c.Fail(key, op, fmt.Sprintf("%s of %s (%s store, client ttl %d ms, server PTTL %d): entry with expiry %d served as a hit (expiry %d) by a read started at %d",
				tc.path, o.key, store, tc.ttlMs, o.pttl, o.pxat, s.pxat, t2b))
		case !s.hit && o.pxat > t2a:
			c.Fail("cachettl:pipe:miss-before-expiry", op, fmt.Sprintf("%s of %s: entry with expiry %d missed by a read that ended at %d (nothing invalidated it)", tc.path, o.key, o.pxat, t2a))
		}
	}
}

// ---- DoMultiCache with a gap between the arrivals of the EXEC replies of one batch

type gapCase struct {
	simple bool
	pttl   []int64 // one per command; the first reply is not held, every later one 300 ms longer than the previous
}

type gapOut struct {
	lines [][2]string // op, class
	fails [][3]string
}

func gapEpisode(tc gapCase) (out gapOut) {
	store := storeName(tc.simple)
	desc := fmt.Sprintf("domulti-gap %s %v", store, tc.pttl)
	failf := func(key, op, format string, args ...any) {
		out.fails = append(out.fails, [3]string{key, op, fmt.Sprintf(format, args...)})
	}
	srv := fakeredis.New(fakeredis.Options{})
	defer srv.Close()
	client, err := pipeClient(srv, tc.simple)
	if err != nil {
		failf("cachettl:newclient", desc, "%v", err)
		return
	}
	defer client.Close()
	ctx := context.Background()
	const ttlMs = 60000
	ttl := ttlMs * time.Millisecond
	n := len(tc.pttl)
	keys := make([]string, n)
	gates := make([]chan struct{}, n)
	for i := range keys {
		keys[i] = fmt.Sprintf("g%d", i+1)
		v := keys[i] + "|1"
		client.Do(ctx, client.B().Set().Key(keys[i]).Value(v).Build())
		r := fakeredis.Rule{Match: fakeredis.Cmd("EXEC"), Times: 1, Exec: true, Reply: []byte(fmt.Sprintf("*2\r\n:%d\r\n%s", tc.pttl[i], respBulk(v, false)))}
		if i > 0 {
			gates[i] = make(chan struct{})
			r.Gate = gates[i]
		}
		srv.AddRule(r) // one-shot rules fire in the order they were added: one per EXEC of the batch
	}
	execs := func() (k int) {
		for _, e := range srv.Log() {
			if len(e.Argv) == 1 && (e.Argv[0] == "EXEC" || e.Argv[0] == "exec") {
				k++
			}
		}
		return
	}
	batch := make([]rueidis.CacheableTTL, n)
	for i, k := range keys {
		batch[i] = rueidis.CT(client.B().Get().Key(k).Cache(), ttl)
	}
	tg := make([]int64, n) // tg[i]: a clock reading BEFORE reply i could leave the server
	var sa int64           // a clock reading AFTER the call had started (its commands are on the server)
	released := make(chan struct{})
	go func() {
		defer close(released)
		ok := srv.WaitFor(5*time.Second, func() bool { return execs() >= n })
		sa = time.Now().UnixMilli()
		if !ok {
			sa = 0
		}
		for i := 1; i < n; i++ {
			time.Sleep(300 * time.Millisecond)
			tg[i] = time.Now().UnixMilli()
			close(gates[i])
		}
	}()
	tb := time.Now().UnixMilli()
	rs := client.DoMultiCache(ctx, batch...)
	ta := time.Now().UnixMilli()
	<-released
	tg[0] = tb
	if sa == 0 || len(rs) != n {
		failf("cachettl:harness:gap-batch", desc, "batch did not reach the server as %d transactions (%d results)", n, len(rs))
		return
	}
	if sa > ta {
		sa = ta
	}
	for i, k := range keys {
		v, err := rs[i].ToString()
		if err != nil || v != k+"|1" || rs[i].IsCacheHit() {
			failf("cachettl:pipe:first-read-value", desc, "%s: hit=%v value %q err %v", k, rs[i].IsCacheHit(), v, err)
			continue
		}
		p, pxat := tc.pttl[i], rs[i].CachePXAT()
		op := fmt.Sprintf("!expiry2 domulti-gap %s %d %d %d %d %d %d %d", store, ttlMs, p, tb, sa, tg[i], ta, pxat)
		out.lines = append(out.lines, [2]string{op, fmt.Sprintf("domulti-gap:reply%d:pttl=%s", i+1, ttlClass(ttlMs, p))})
		ex := func(start, arrival int64) int64 {
			if p < 0 || start+ttlMs < arrival+p {
				return start + ttlMs
			}
			return arrival + p
		}
		if lo, hi := ex(tb, tg[i]), ex(sa, ta); pxat < lo || pxat > hi {
			failf("cachettl:pipe:arrival-clock-per-reply", op, "DoMultiCache (%s store), command %d of %d (%s): client ttl %d ms from a start in [%d,%d], server PTTL %d in a reply that arrived in [%d,%d] (held %d ms longer than the first reply): committed with expiry %d, must lie in [%d,%d]",
				store, i+1, n, k, ttlMs, tb, sa, p, tg[i], ta, tg[i]-tb, pxat, lo, hi)
		}
	}
	return
}

func runGap(c *Ctx) {
	var cases []gapCase
	for _, simple := range []bool{false, true} {
		for _, p := range []int64{0, 5, 1000, 30000, 100000, -1} {
			cases = append(cases, gapCase{simple: simple, pttl: []int64{1000, p}})
		}
		for _, p := range [][]int64{{5, 0, 5}, {-1, 1000, 30000}, {100000, 5, 0}, {0, 30000, 1000}, {30000, -1, 100000}} {
			cases = append(cases, gapCase{simple: simple, pttl: p})
		}
	}
	for i := 0; i < c.N/20; i++ {
		p := make([]int64, 2+c.Rng.IntN(2))
		for j := range p {
			p[j] = []int64{0, 1, 5, 200, 1000, 30000, 59999, 60000, 60001, 100000, -1, -2}[c.Rng.IntN(12)]
		}
		cases = append(cases, gapCase{simple: c.Rng.IntN(2) == 0, pttl: p})
	}
	// independent episodes (own server and client), mostly asleep: run side by side, emit in case order
	outs := make([]gapOut, len(cases))
	sem := make(chan struct{}, 12)
	var wg sync.WaitGroup
	for i := range cases {
		wg.Add(1)
		sem <- struct{}{}
		go func(i int) {
			defer wg.Done()
			outs[i] = gapEpisode(cases[i])
			<-sem
		}(i)
	}
	wg.Wait()
	for _, o := range outs {
		for _, l := range o.lines {
			c.Emit(l[0], "ok", true)
			c.Hit(l[1])
			for _, f := range o.fails {
				if f[1] == l[0] {
					c.Fail(f[0], f[1], f[2])
				}
			}
		}
		for _, f := range o.fails {
			if !strings.HasPrefix(f[1], "!") {
				c.Fail(f[0], f[1], f[2])
			}
		}
	}
}

func runCacheTTL(c *Ctx) {
	defer runGap(c)
	ttls := []int64{200, 2000, 60000}
	grid := func(ttl int64) []int64 {
		return []int64{0, 1, 3, 50, ttl - 1, ttl, ttl + 1, 10 * ttl, 86400000, -1, -2}
	}
	paths := []string{"docache", "domulti", "mget"}
	for _, simple := range []bool{false, true} {
		for _, path := range paths {
			for _, ttl := range ttls {
				g := grid(ttl)
				for i, p := range g {
					ttlEpisode(c, ttlCase{path: path, simple: simple, ttlMs: ttl, pttl: [2]int64{p, g[(i+4)%len(g)]}})
				}
			}
			// the key does not exist: PTTL -2 and a null value
			ttlEpisode(c, ttlCase{path: path, simple: simple, ttlMs: 2000, pttl: [2]int64{-2, 50}, null: true})
		}
	}
	for i := 0; i < c.N/8; i++ {
		ttl := []int64{200, 350, 1000, 2000, 60000}[c.Rng.IntN(5)]
		pick := func() int64 {
			switch c.Rng.IntN(6) {
			case 0:
				return int64(c.Rng.IntN(5))
			case 1:
				return ttl - 2 + int64(c.Rng.IntN(5))
			case 2:
				return -1 - int64(c.Rng.IntN(2))
			default:
				return int64(c.Rng.IntN(int(3 * ttl)))
			}
		}
		ttlEpisode(c, ttlCase{path: paths[c.Rng.IntN(3)], simple: c.Rng.IntN(2) == 0, ttlMs: ttl, pttl: [2]int64{pick(), pick()}})
	}
}
