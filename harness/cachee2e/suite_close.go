package main

// Suite `flightclose` (C04/C09) - a lost connection must release EVERY caller blocked on a cached read
// of that connection, whatever the order of the store's recency list: a cached key B is promoted behind
// the pending flight of key A (its 1024th cache hit moves it to the back of the lru list) before the
// connection is killed. Driver: lean/Rv/Drv/CachePipe.lean (Rv.Spec.Cache.closeHangOk).
//
//   !closehang <store> <n=3> <returned> <nerr>

import (
	"context"
	"fmt"
	"strings"
	"sync"
	"time"

	"github.com/redis/rueidis"
	"github.com/redis/rueidis/zzverif/fakeredis"
)

func init() {
	suites["flightclose"] = suite{
		rule: "one fresh fakeredis + real client (single pipe, no retry, store = built-in lru / NewSimpleCacheAdapter) per case: key b (and c) cached; DoCache(GET a) whose reply is held on the server plus two more DoCache(GET a) callers that join the flight (all context.Background); then 1100 cache hits on b - through DoCache(GET b) or through DoMultiCache(GET b, GET c) - so that its 1024th hit moves it behind a's pending entry in the recency list; then the tracking connection is killed while a's reply is still outstanding. Oracle (closeHangOk): all 3 callers return, with an error, within a 2.5 s watchdog (a firing watchdog is confirmed by a second run); non-trivial = every case",
		run:  runFlightClose,
	}
}

type closeCase struct {
	simple bool
	via    string // docache | domulti: how b gets its hits
}

type closeOut struct {
	retry   bool // says nothing: a caller only got to run after the connection was gone and fetched on its own
	timeout bool
	line    string
	hits    []string
	fails   [][3]string
}

func closeEpisode(tc closeCase) (out closeOut) {
	store := storeName(tc.simple)
	desc := fmt.Sprintf("%s %s", store, tc.via)
	failf := func(key, op, format string, args ...any) {
		out.fails = append(out.fails, [3]string{key, op, fmt.Sprintf(format, args...)})
	}
	srv := fakeredis.New(fakeredis.Options{})
	defer srv.Close()
	client, err := pipeClient(srv, tc.simple)
	if err != nil {
		failf("cachee2e:newclient", desc, "%v", err)
		return
	}
	hung := false
	defer func() {
		if hung {
			go client.Close() // callers are stuck inside the client
		} else {
			client.Close()
		}
	}()
	ctx := context.Background()
	ttl := time.Minute
	for _, k := range []string{"a", "b", "c"} {
		client.Do(ctx, client.B().Set().Key(k).Value(k+"|1").Build())
	}
	// b (and c) completed and cached
	for _, k := range []string{"b", "c"} {
		if v, err := client.DoCache(ctx, client.B().Get().Key(k).Cache(), ttl).ToString(); err != nil || v != k+"|1" {
			failf("cachee2e:harness:setup", desc, "caching %s: %q %v", k, v, err)
			return
		}
	}
	gate := make(chan struct{})
	defer func() {
		select {
		case <-gate:
		default:
			close(gate)
		}
	}()
	held := fakeredis.Cmd("EXEC")
	srv.AddRule(fakeredis.Rule{Match: held, Skip: 0, Times: 1, Gate: gate})
	execs := func() (n int) {
		for _, e := range srv.Log() {
			if held(e.Conn, e.Argv) {
				n++
			}
		}
		return
	}
	before := execs()
	const n = 3
	errs := make([]string, n)
	vals := make([]string, n)
	done := make(chan int, n)
	call := func(i int, started chan struct{}) {
		if started != nil {
			close(started)
		}
		v, err := client.DoCache(context.Background(), client.B().Get().Key("a").Cache(), ttl).ToString()
		if err != nil {
			errs[i] = err.Error()
		}
		vals[i] = v
		done <- i
	}
	go call(0, nil) // the leader: sends, its reply is held
	if !srv.WaitFor(5*time.Second, func() bool { return execs() > before }) {
		failf("cachee2e:harness:leader-not-sent", desc, "the leader's request did not reach the server")
		return
	}
	for i := 1; i < n; i++ { // the waiters join the flight
		st := make(chan struct{})
		go call(i, st)
		<-st
	}
	time.Sleep(40 * time.Millisecond)
	// 1100 hits on b: the 1024th moves it to the back of the lru list, behind a's pending entry
	notHit := 0
	for i := 0; i < 1100; i++ {
		if tc.via == "docache" {
			r := client.DoCache(ctx, client.B().Get().Key("b").Cache(), ttl)
			if v, err := r.ToString(); err != nil || v != "b|1" || !r.IsCacheHit() {
				notHit++
			}
		} else {
			rs := client.DoMultiCache(ctx, rueidis.CT(client.B().Get().Key("b").Cache(), ttl), rueidis.CT(client.B().Get().Key("c").Cache(), ttl))
			for j, k := range []string{"b", "c"} {
				if v, err := rs[j].ToString(); err != nil || v != k+"|1" || !rs[j].IsCacheHit() {
					notHit++
				}
			}
		}
	}
	if notHit > 0 {
		failf("cachee2e:harness:setup", desc, "%d of the reads of the cached keys were not hits", notHit)
	}
	gets := countGets(srv, "a")
	if gets != 1 {
		failf("cachee2e:harness:setup", desc, "%d GET a on the wire before the connection is killed (the waiters did not join)", gets)
	}
	// the connection is lost while a's reply is still outstanding
	for id := 1; id <= srv.NumConns(); id++ {
		if ci, ok := srv.Conn(id); ok && ci.Tracking {
			srv.Kill(id)
		}
	}
	watchdog := time.After(dupWatchdog)
	returned, nerr := 0, 0
	back := make([]bool, n)
	for returned < n && !hung {
		select {
		case i := <-done:
			back[i] = true
			returned++
			if errs[i] != "" {
				nerr++
			}
		case <-watchdog:
			hung = true
		}
	}
	op := fmt.Sprintf("!closehang %s %d %d %d", store, n, returned, nerr)
	out.line = op
	out.hits = append(out.hits, "close:"+store+":"+tc.via)
	switch {
	case hung:
		out.timeout = true
		var who []string
		for i, b := range back {
			if !b {
				who = append(who, map[bool]string{true: "the leader", false: fmt.Sprintf("waiter %d", i)}[i == 0])
			}
		}
		failf("cachee2e:flight-hang:close-skipped-pending", op, "%s: the connection was killed while GET a was in flight (b promoted behind it by its 1024th hit via %s): %s did not return within %v", desc, tc.via, strings.Join(who, ", "), dupWatchdog)
		out.hits = append(out.hits, "close:hang")
	case nerr != n && countGets(srv, "a") > gets:
		// starved machine: a "waiter" had not even looked at the cache when the connection was killed; it then
		// fetched a on the new connection
		out.retry = true
	case nerr != n:
		failf("cachee2e:flight-result:close", op, "%s: callers of a request whose connection was lost returned values %q errors %q", desc, vals, errs)
	}
	return
}

func runFlightClose(c *Ctx) {
	var cases []closeCase
	rounds := 1
	if c.Tier == "thorough" {
		rounds = 3
	}
	for r := 0; r < rounds; r++ {
		for _, simple := range []bool{false, true} {
			for _, via := range []string{"docache", "domulti"} {
				cases = append(cases, closeCase{simple: simple, via: via})
			}
		}
	}
	outs := make([]closeOut, len(cases))
	sem := make(chan struct{}, 4)
	var wg sync.WaitGroup
	for i := range cases {
		wg.Add(1)
		sem <- struct{}{}
		go func(i int) {
			defer wg.Done()
			defer func() { <-sem }()
			outs[i] = closeEpisode(cases[i])
			for try := 0; outs[i].retry && try < 4; try++ {
				outs[i] = closeEpisode(cases[i])
				outs[i].hits = append(outs[i].hits, "close:inconclusive-run-repeated(waiter too late)")
			}
			if outs[i].timeout { // a starved machine also looks like this: only reported if it happens again
				second := closeEpisode(cases[i])
				second.hits = append(second.hits, "close:watchdog-fired-run-repeated")
				outs[i] = second
			}
		}(i)
	}
	wg.Wait()
	for _, o := range outs {
		for _, h := range o.hits {
			c.Hit(h)
		}
		if o.line != "" {
			c.Emit(o.line, "ok", true)
		}
		for _, f := range o.fails {
			c.Fail(f[0], f[1], f[2])
		}
	}
}
