package main

import (
	"context"
	"fmt"
	"os"
	"strconv"
	"strings"
	"sync"
	"sync/atomic"
	"time"

	"github.com/redis/rueidis"
	"github.com/redis/rueidis/zzverif/fakeredis"
)

// End-to-end client-side-caching histories on the real client against fakeredis.
// Values are "<key>|<version>"; a writer client bumps versions; the reader client's
// OnInvalidations callback tells when an invalidation has been PROCESSED by the connection.

type cacheCfg struct {
	mode      string // optin | bcast | optout
	keys      int
	readers   int
	rounds    int
	ttlMs     int
	flushes   bool
	kills     bool
	simple    bool // NewSimpleCacheAdapter store
	mget      bool
	invAfter  bool // Redis >= 7 order of the writer's own invalidation
	multiplex int
}

func b01(x bool) string {
	if x {
		return "1"
	}
	return "0"
}

type simpleStore struct {
	mu sync.Mutex
	m  map[string]rueidis.RedisMessage
}

func (s *simpleStore) Get(key string) rueidis.RedisMessage {
	s.mu.Lock()
	defer s.mu.Unlock()
	return s.m[key]
}
func (s *simpleStore) Set(key string, val rueidis.RedisMessage) {
	s.mu.Lock()
	s.m[key] = val
	s.mu.Unlock()
}
func (s *simpleStore) Del(key string) { s.mu.Lock(); delete(s.m, key); s.mu.Unlock() }
func (s *simpleStore) Flush()         { s.mu.Lock(); s.m = map[string]rueidis.RedisMessage{}; s.mu.Unlock() }

func verOf(v string) (string, int) {
	i := strings.LastIndexByte(v, '|')
	if i < 0 {
		return v, -1
	}
	n, _ := strconv.Atoi(v[i+1:])
	return v[:i], n
}

func cacheEpisode(c *Ctx, n int, cfg cacheCfg) {
	srv := fakeredis.New(fakeredis.Options{InvalidateAfterReply: cfg.invAfter})
	defer srv.Close()
	desc := fmt.Sprintf("%+v", cfg)
	// floor[k]: a version such that an invalidation caused by a write of at least that version has been
	// processed by the reader client (set only AFTER the callback was observed)
	floor := make([]atomic.Int64, cfg.keys)
	// The floor of a key is raised only after a BARRIER: a fresh key of the same slot (same pipe of the
	// multiplexer) is made tracked on the reader, written after the versioned write, and its invalidation
	// callback is seen once per connection the server pushed it to. Pushes of one connection are processed
	// in order, so every connection that can serve the key has processed the key's own invalidation first.
	// (Counting callbacks that merely NAME the key is unsound: with BCAST and two multiplexed connections
	// the other connection's callback, or the nil callback of a connection killed in an earlier round,
	// would be attributed to this write.)
	var nilSeen atomic.Int64 // nil callbacks: one per flushed pipe (killed connection) or server flush push
	var barMu sync.Mutex
	barSeen := map[string]int{}
	opt := rueidis.ClientOption{
		InitAddress: []string{"fake:6379"}, DialCtxFn: srv.Dial, ForceSingleClient: true, PipelineMultiplex: cfg.multiplex,
		OnInvalidations: func(ms []rueidis.RedisMessage) {
			if ms == nil {
				nilSeen.Add(1)
				return
			}
			for _, m := range ms {
				if s, err := m.ToString(); err == nil && strings.HasPrefix(s, "{") {
					barMu.Lock()
					barSeen[s]++
					barMu.Unlock()
				}
			}
		},
	}
	switch cfg.mode {
	case "bcast":
		opt.ClientTrackingOptions = []string{"PREFIX", "k", "PREFIX", "{k", "BCAST"}
	case "optout":
		opt.ClientTrackingOptions = []string{"OPTOUT"}
	}
	if cfg.simple {
		opt.NewCacheStoreFn = func(rueidis.CacheStoreOption) rueidis.CacheStore {
			return rueidis.NewSimpleCacheAdapter(&simpleStore{m: map[string]rueidis.RedisMessage{}})
		}
	}
	reader, err := rueidis.NewClient(opt)
	if err != nil {
		c.Fail("cachee2e:newclient", desc, err.Error())
		return
	}
	defer reader.Close()
	writer, err := rueidis.NewClient(rueidis.ClientOption{InitAddress: []string{"fake:6379"}, DialCtxFn: srv.Dial, ForceSingleClient: true, DisableCache: true})
	if err != nil {
		c.Fail("cachee2e:newclient", desc, err.Error())
		return
	}
	defer writer.Close()
	ctx := context.Background()
	version := make([]int64, cfg.keys)
	for i := range version {
		version[i] = 1
		writer.Do(ctx, writer.B().Set().Key(fmt.Sprintf("k%d", i)).Value(fmt.Sprintf("k%d|1", i)).Build())
	}
	ttl := time.Duration(cfg.ttlMs) * time.Millisecond
	stop := make(chan struct{})
	var wg sync.WaitGroup
	type obs struct {
		key    string
		floor  int64
		got    string
		hit    bool
		errstr string
		mget   bool
	}
	var mu sync.Mutex
	var all []obs
	for r := 0; r < cfg.readers; r++ {
		wg.Add(1)
		go func(r int) {
			defer wg.Done()
			i := r
			for {
				select {
				case <-stop:
					return
				default:
				}
				i++
				time.Sleep(150 * time.Microsecond)
				k := i % cfg.keys
				key := fmt.Sprintf("k%d", k)
				if cfg.mget && i%3 == 0 {
					k2 := (k + 1) % cfg.keys
					key2 := fmt.Sprintf("k%d", k2)
					f1, f2 := floor[k].Load(), floor[k2].Load()
					res := reader.DoCache(ctx, reader.B().Mget().Key(key, key2).Cache(), ttl)
					arr, err := res.ToArray()
					o1, o2 := obs{key: key, floor: f1, mget: true}, obs{key: key2, floor: f2, mget: true}
					if err != nil || len(arr) != 2 {
						o1.errstr, o2.errstr = fmt.Sprint(err), fmt.Sprint(err)
					} else {
						var e1, e2 error
						o1.got, e1 = arr[0].ToString()
						o2.got, e2 = arr[1].ToString()
						if e1 != nil {
							o1.errstr = e1.Error()
						}
						if e2 != nil {
							o2.errstr = e2.Error()
						}
						o1.hit, o2.hit = arr[0].IsCacheHit(), arr[1].IsCacheHit()
					}
					mu.Lock()
					all = append(all, o1, o2)
					mu.Unlock()
					continue
				}
				f := floor[k].Load()
				res := reader.DoCache(ctx, reader.B().Get().Key(key).Cache(), ttl)
				o := obs{key: key, floor: f, hit: res.IsCacheHit()}
				if v, err := res.ToString(); err != nil {
					o.errstr = err.Error()
				} else {
					o.got = v
				}
				mu.Lock()
				all = append(all, o)
				mu.Unlock()
			}
		}(r)
	}
	// writer: bump a key, pass the barrier, raise the floor
	waitFor := func(pred func() bool) bool {
		deadline := time.Now().Add(300 * time.Millisecond)
		for !pred() {
			if time.Now().After(deadline) {
				return false
			}
			time.Sleep(200 * time.Microsecond)
		}
		return true
	}
	var killsTotal int64
	for round := 0; round < cfg.rounds; round++ {
		k := round % cfg.keys
		key := fmt.Sprintf("k%d", k)
		time.Sleep(time.Millisecond)
		version[k]++
		v := version[k]
		if cfg.flushes && round%7 == 6 {
			writer.Do(ctx, writer.B().Flushall().Build())
			for i := range version { // everything is gone: rewrite with higher versions afterwards
				version[i]++
				writer.Do(ctx, writer.B().Set().Key(fmt.Sprintf("k%d", i)).Value(fmt.Sprintf("k%d|%d", i, version[i])).Build())
			}
			v = version[k]
		} else {
			writer.Do(ctx, writer.B().Set().Key(key).Value(fmt.Sprintf("%s|%d", key, v)).Build())
		}
		if cfg.kills && round%9 == 8 {
			for id := 1; id <= srv.NumConns(); id++ {
				if ci, ok := srv.Conn(id); ok && ci.Tracking && !ci.Closed {
					srv.Kill(id)
					killsTotal++
				}
			}
			time.Sleep(2 * time.Millisecond)
		}
		// 1. every pipe whose connection was killed has dropped its cache (one nil callback each; a flush
		//    push also gives one, so those the server queued are required on top: a lost one only delays)
		needNil := killsTotal
		for _, o := range srv.Outs() {
			if o.IsPush && o.Kind == "invalidate" && o.Flush {
				needNil++
			}
		}
		if !waitFor(func() bool { return nilSeen.Load() >= needNil }) {
			c.Hit("inv:not-observed(killed pipe not yet flushed)")
			continue
		}
		// 2. the barrier key: same slot as the key, hence the same pipe; tracked by reading it (BCAST: by prefix)
		barrier := fmt.Sprintf("{%s}b%d", key, round)
		if cfg.mode != "bcast" {
			if err := reader.DoCache(ctx, reader.B().Get().Key(barrier).Cache(), ttl).Error(); err != nil && !rueidis.IsRedisNil(err) {
				c.Hit("inv:not-observed(barrier read failed)")
				continue
			}
		}
		writer.Do(ctx, writer.B().Set().Key(barrier).Value("b").Build())
		recipients := 0
		for _, o := range srv.Outs() {
			if o.IsPush && o.Kind == "invalidate" && len(o.Args) == 1 && o.Args[0] == barrier {
				recipients++
			}
		}
		if recipients == 0 {
			c.Hit("inv:not-observed(barrier not tracked)")
			continue
		}
		if !waitFor(func() bool { barMu.Lock(); defer barMu.Unlock(); return barSeen[barrier] >= recipients }) {
			c.Hit("inv:not-observed(barrier push lost)")
			continue
		}
		if cur := floor[k].Load(); v > cur {
			floor[k].Store(v)
		}
		c.Hit("inv:processed")
	}
	close(stop)
	wg.Wait()
	for _, o := range all {
		if o.errstr != "" {
			c.Hit("read:error")
			continue
		}
		k, ver := verOf(o.got)
		own := k == o.key
		op := fmt.Sprintf("!cacheread %s %d %d %s %s", hx(o.key), o.floor, ver, b01(o.hit), b01(own))
		if o.hit {
			c.Hit("read:hit")
		} else {
			c.Hit("read:miss")
		}
		if o.hit && int64(ver) < o.floor {
			c.Fail("cachee2e:stale-hit-after-invalidation", op, fmt.Sprintf("%s: DoCache started after the invalidation for version %d had been processed returned version %d as a cache hit (%s)", o.key, o.floor, ver, desc))
		}
		if !own {
			c.Fail("cachee2e:foreign-value", op, fmt.Sprintf("read of %s returned %q (%s)", o.key, o.got, desc))
		}
		c.Emit(op, "ok", o.hit)
	}
}

// single flight: N concurrent cached reads of one cold key must put one GET on the wire
func flightEpisode(c *Ctx, n int, fail string, simple bool) {
	srv := fakeredis.New(fakeredis.Options{})
	defer srv.Close()
	opt := rueidis.ClientOption{InitAddress: []string{"fake:6379"}, DialCtxFn: srv.Dial, ForceSingleClient: true, PipelineMultiplex: -1, DisableRetry: true}
	if simple {
		opt.NewCacheStoreFn = func(rueidis.CacheStoreOption) rueidis.CacheStore {
			return rueidis.NewSimpleCacheAdapter(&simpleStore{m: map[string]rueidis.RedisMessage{}})
		}
	}
	client, err := rueidis.NewClient(opt)
	if err != nil {
		c.Fail("cachee2e:newclient", fail, err.Error())
		return
	}
	defer client.Close()
	ctx := context.Background()
	client.Do(ctx, client.B().Set().Key("cold").Value("cold|1").Build())
	gate := make(chan struct{})
	rule := fakeredis.Rule{Match: fakeredis.Cmd("GET", "cold"), Times: 1, Gate: gate}
	switch fail {
	case "err": // a queueing error aborts the transaction: EXEC answers EXECABORT (Redis >= 2.6.5)
		rule = fakeredis.Rule{Match: fakeredis.Cmd("EXEC"), Times: 1, Gate: gate, Err: "EXECABORT Transaction discarded because of previous errors."}
	case "drop": // the reply is held; the connection is killed while all callers are pending (below)
	case "execabort":
		rule = fakeredis.Rule{Match: fakeredis.Cmd("EXEC"), Times: 1, Gate: gate, Reply: []byte("_\r\n")}
	}
	srv.AddRule(rule)
	const N = 8
	res := make([]string, N)
	errs := make([]string, N)
	var wg sync.WaitGroup
	for i := 0; i < N; i++ {
		wg.Add(1)
		go func(i int) {
			defer wg.Done()
			r := client.DoCache(ctx, client.B().Get().Key("cold").Cache(), time.Minute)
			if v, err := r.ToString(); err != nil {
				errs[i] = err.Error()
			} else {
				res[i] = v
			}
		}(i)
	}
	time.Sleep(time.Duration(flightWaitMs) * time.Millisecond)
	if fail == "drop" {
		for id := 1; id <= srv.NumConns(); id++ {
			if ci, ok := srv.Conn(id); ok && ci.Tracking {
				srv.Kill(id)
			}
		}
	}
	close(gate)
	done := make(chan struct{})
	go func() { wg.Wait(); close(done) }()
	select {
	case <-done:
	case <-time.After(5 * time.Second):
		c.Fail("cachee2e:flight-hang:"+fail, fail, "concurrent cached reads of one key did not all return")
		return
	}
	gets := 0
	for _, e := range srv.Log() {
		if len(e.Argv) == 2 && strings.EqualFold(e.Argv[0], "GET") && e.Argv[1] == "cold" {
			gets++
		}
	}
	nerr, nok := 0, 0
	for i := range res {
		if errs[i] != "" {
			nerr++
		} else if res[i] == "cold|1" {
			nok++
		}
	}
	// afterwards a fresh call must fetch again when the flight failed, and must be a hit when it succeeded
	r2 := client.DoCache(ctx, client.B().Get().Key("cold").Cache(), time.Minute)
	v2, _ := r2.ToString()
	op := fmt.Sprintf("!flight %s %d %d %d %s %s", fail, gets, nok, nerr, b01(r2.IsCacheHit()), b01(v2 == "cold|1"))
	c.Hit("flight:" + fail)
	if gets > 1 {
		c.Fail("cachee2e:duplicate-request:"+fail, op, fmt.Sprintf("%d concurrent cached reads of one cold key sent %d GETs", N, gets))
	}
	if fail == "" && nok != N {
		c.Fail("cachee2e:waiters-not-served", op, fmt.Sprintf("%d of %d waiters got the reply", nok, N))
	}
	if fail != "" && (nok != 0 || r2.IsCacheHit()) {
		c.Fail("cachee2e:error-cached:"+fail, op, fmt.Sprintf("failed flight: %d waiters got a value, later call hit=%v", nok, r2.IsCacheHit()))
	}
	c.Emit(op, "ok", true)
}

var flightWaitMs = 60

func runCacheE2E(c *Ctx) {
	if os.Getenv("FLIGHT_ONLY") != "" {
		for i := 0; i < 60; i++ {
			flightEpisode(c, i, "drop", i%2 == 0)
		}
		return
	}
	n := 0
	for _, mode := range []string{"optin", "bcast", "optout"} {
		for _, simple := range []bool{false, true} {
			for _, variant := range []int{0, 1, 2} {
				cfg := cacheCfg{mode: mode, keys: 3, readers: 3, rounds: 12 + c.N/10, ttlMs: 60000, simple: simple, multiplex: -1}
				switch variant {
				case 1:
					cfg.flushes, cfg.mget, cfg.invAfter = true, !simple, true
				case 2:
					cfg.kills, cfg.ttlMs, cfg.multiplex = true, 40, 1
				}
				if c.Tier == "quick" && simple && variant == 2 {
					continue
				}
				cacheEpisode(c, n, cfg)
				n++
			}
		}
	}
	for _, simple := range []bool{false, true} {
		for _, f := range []string{"", "err", "drop", "execabort"} {
			flightEpisode(c, n, f, simple)
			n++
		}
	}
}

func init() {
	suites["cachee2e"] = suite{
		rule: "end-to-end client-side-caching histories on the real client against fakeredis: tracking modes optin/bcast/optout x built-in store / NewSimpleCacheAdapter x {plain, FLUSHALL + MGET + Redis>=7 invalidation order, connection kills + short TTL + multiplexing}; 3 reader goroutines issue DoCache (GET, MGET) continuously while a writer client bumps per-key versions and raises a per-key floor only after a barrier (a fresh same-slot key made tracked, written after the versioned write, its invalidation callback seen once per connection it was pushed to, and every killed pipe flushed); oracle: a hit returned by a call that started after the floor was raised must carry a version >= floor, every value belongs to its key; single-flight episodes: 8 concurrent cold reads x {ok, error reply, dropped connection, aborted EXEC}: one GET on the wire, all waiters get the reply/error, errors are not cached; non-trivial = a cache hit observation / a flight episode",
		run:  runCacheE2E,
	}
}
