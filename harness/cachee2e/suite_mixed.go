package main

// Suite `mixedttl` (C06) - DoMultiCache batches that mix commands tagged .ToStaticTTL() with plain ones.
// Such a batch goes out MULTI/EXEC-wrapped for ALL commands (all-or-nothing rule) and every value that
// is cached - and later served as a hit - must be the server's reply for exactly that command.
// Driver: lean/Rv/Drv/CachePipe.lean.
//
//   !hitvalue <store> <pattern> <key> <tagged 0|1> <phase> <hit 0|1> <ok 0|1>     spec hitValueOk
//   !expiry mixed <store> <ttlMs> <pttl> <tb> <ta> <pxat>                          spec expiryWindowOk
// pattern: one letter per command of the batch, T = tagged, U = untagged (keys m1, m2, m3 in that order)
// phase: first (the batch, all misses) | later-single (DoCache of one key, tagged and untagged read) |
//        later-batch (the same batch again)

import (
	"context"
	"fmt"
	"strings"
	"time"

	"github.com/redis/rueidis"
	"github.com/redis/rueidis/zzverif/fakeredis"
)

func init() {
	suites["mixedttl"] = suite{
		rule: "one fresh fakeredis + real client (single pipe, no retry, store = built-in lru / NewSimpleCacheAdapter) per case; DoMultiCache(GET m1, GET m2[, GET m3]) with every tagged(.ToStaticTTL)/untagged pattern of length 2 and 3 (mixed ones plus all-tagged and all-untagged controls); phase first (all miss; wire shape checked against the server log: mixed and untagged batches send one [CLIENT CACHING YES, MULTI, PTTL k, GET k, EXEC] block per command, all-tagged ones [CLIENT CACHING YES, GET k]; in mixed batches the EXEC reply of the first tagged key carries PTTL 5000 < client TTL 60000 and its expiry must be min(client, server)), then DoCache of every key alone (tagged and untagged read) and the same batch again; oracle: every returned value is the server's value of exactly that key; non-trivial = every !hitvalue line of a later phase",
		run:  runMixedTTL,
	}
}

func mixedEpisode(c *Ctx, simple bool, pattern string) {
	store := storeName(simple)
	desc := store + " " + pattern
	srv := fakeredis.New(fakeredis.Options{})
	defer srv.Close()
	client, err := pipeClient(srv, simple)
	if err != nil {
		c.Fail("cachee2e:newclient", desc, err.Error())
		return
	}
	defer client.Close()
	ctx := context.Background()
	const ttlMs, pttl = 60000, 5000
	ttl := ttlMs * time.Millisecond
	keys := make([]string, len(pattern))
	want := map[string]string{}
	for i := range keys {
		keys[i] = fmt.Sprintf("m%d", i+1)
		want[keys[i]] = keys[i] + "|1"
		client.Do(ctx, client.B().Set().Key(keys[i]).Value(want[keys[i]]).Build())
	}
	mixed := strings.Contains(pattern, "T") && strings.Contains(pattern, "U")
	allTagged := !strings.Contains(pattern, "U")
	mk := func(i int) rueidis.CacheableTTL {
		cmd := client.B().Get().Key(keys[i]).Cache()
		if pattern[i] == 'T' {
			cmd = cmd.ToStaticTTL()
		}
		return rueidis.CT(cmd, ttl)
	}
	batch := func() []rueidis.CacheableTTL {
		b := make([]rueidis.CacheableTTL, len(keys))
		for i := range keys {
			b[i] = mk(i)
		}
		return b
	}
	// in a mixed batch the first tagged command's transaction answers a server PTTL below the client TTL
	over := -1
	var rule *fakeredis.RuleHandle
	if mixed {
		over = strings.IndexByte(pattern, 'T')
		v := want[keys[over]]
		rule = srv.AddRule(fakeredis.Rule{Match: fakeredis.Cmd("EXEC"), Skip: over, Times: 1, Exec: true,
			Reply: []byte(fmt.Sprintf("*2\r\n:%d\r\n$%d\r\n%s\r\n", pttl, len(v), v))})
	}
	emit := func(key string, tagged bool, phase string, r rueidis.RedisResult) {
		got, err := r.ToString()
		ok := err == nil && got == want[key]
		op := fmt.Sprintf("!hitvalue %s %s %s %s %s %s %s", store, pattern, key, b01(tagged), phase, b01(r.IsCacheHit()), b01(ok))
		c.Emit(op, "ok", phase != "first")
		c.Hit(fmt.Sprintf("mixed:%s:hit=%s", phase, b01(r.IsCacheHit())))
		if !ok {
			c.Fail("cachee2e:foreign-value", op, fmt.Sprintf("%s: read of %s (%s, hit=%v) returned %q err %v, the server's value is %q", desc, key, phase, r.IsCacheHit(), got, err, want[key]))
		}
	}
	// phase first
	mark := len(srv.Log())
	tb := time.Now().UnixMilli()
	rs := client.DoMultiCache(ctx, batch()...)
	ta := time.Now().UnixMilli()
	if len(rs) != len(keys) {
		c.Fail("cachee2e:mixedttl:results", desc, fmt.Sprintf("%d results for %d commands", len(rs), len(keys)))
		return
	}
	for i, k := range keys {
		emit(k, pattern[i] == 'T', "first", rs[i])
	}
	// wire shape
	var wire, expect []string
	for _, e := range srv.Log()[mark:] {
		wire = append(wire, strings.ToUpper(e.Argv[0])+" "+strings.Join(e.Argv[1:], " "))
	}
	for _, k := range keys {
		if allTagged {
			expect = append(expect, "CLIENT CACHING YES", "GET "+k)
		} else {
			expect = append(expect, "CLIENT CACHING YES", "MULTI ", "PTTL "+k, "GET "+k, "EXEC ")
		}
	}
	if strings.Join(wire, "; ") != strings.Join(expect, "; ") {
		c.Fail("cachee2e:mixedttl:wire-shape", desc, fmt.Sprintf("batch went out as [%s], expected [%s]", strings.Join(wire, "; "), strings.Join(expect, "; ")))
	}
	if mixed {
		if rule.Fired() != 1 {
			c.Fail("cachee2e:mixedttl:wire-shape", desc, "the tagged command of a mixed batch was not answered by an EXEC")
		}
		// the tagged command lost its static semantics: its expiry is min(client ttl, server pttl)
		pxat := rs[over].CachePXAT()
		op := fmt.Sprintf("!expiry mixed %s %d %d %d %d %d", store, ttlMs, pttl, tb, ta, pxat)
		c.Emit(op, "ok", true)
		if lo, hi := ttlSpec(ttlMs, pttl, tb), ttlSpec(ttlMs, pttl, ta); pxat < lo || pxat > hi {
			c.Fail("cachee2e:mixedttl:expiry-not-min", op, fmt.Sprintf("%s: tagged %s in a mixed batch, client ttl %d ms, server PTTL %d: committed with expiry %d, must lie in [%d,%d]", desc, keys[over], ttlMs, pttl, pxat, lo, hi))
		}
	}
	// phase later: every key alone, through a tagged and through an untagged read
	for _, k := range keys {
		emit(k, true, "later-single", client.DoCache(ctx, client.B().Get().Key(k).Cache().ToStaticTTL(), ttl))
		emit(k, false, "later-single", client.DoCache(ctx, client.B().Get().Key(k).Cache(), ttl))
	}
	// and the same batch again
	rs = client.DoMultiCache(ctx, batch()...)
	if len(rs) != len(keys) {
		c.Fail("cachee2e:mixedttl:results", desc, fmt.Sprintf("%d results for %d commands", len(rs), len(keys)))
		return
	}
	for i, k := range keys {
		emit(k, pattern[i] == 'T', "later-batch", rs[i])
	}
}

func runMixedTTL(c *Ctx) {
	patterns := []string{"TU", "UT", "TUU", "UTU", "UUT", "TTU", "TUT", "UTT", "TT", "UU", "TTT", "UUU"}
	rounds := 1
	if c.Tier == "thorough" {
		rounds = 3
	}
	for r := 0; r < rounds; r++ {
		for _, simple := range []bool{false, true} {
			for _, p := range patterns {
				mixedEpisode(c, simple, p)
			}
		}
	}
}
