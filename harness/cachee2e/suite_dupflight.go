package main

// Suite `flightdup` (C09) - one DoMultiCache batch that contains the SAME cacheable command
// twice (the second occurrence waits on the flight the first one owns), with an outside
// DoCache caller that joins the same flight, under every way the owned request can end.
// Driver: lean/Rv/Drv/CachePipe.lean (specification Rv.Spec.Cache.dupFlightOk).
//
//   !dupflight <kind> <store> <fail> <n> <returned> <nok> <nerr> <gets> <laterReturned> <laterHit> <laterOk> <laterGets>
//   !ctxdead <store> <variant> <ownerErr> <joinedReturned> <laterReturned> <laterOk>             (see ctxDeadEpisode)
//   !mgetown <store> <fail>:<w> <wReturned> <wOk> <aOk> <laterHit> <laterOk> <fetchesOfA1>      (see mgetOwnEpisode)
//
// kind: dm2 = (GET a, GET a); dm3 = (GET a, GET b, GET a); st2 = (GET a, GET a) tagged ToStaticTTL
// fail: ok | execnull | execabort | rediserr | moved | ctx | drop
// n = occurrences of GET a in the batch + 1 outside waiter; gets = `GET a` commands the server saw
// before the later read; later* = one more DoCache(GET a) afterwards.

import (
	"context"
	"errors"
	"fmt"
	"strings"
	"sync"
	"time"

	"github.com/redis/rueidis"
	"github.com/redis/rueidis/zzverif/fakeredis"
)

func init() {
	suites["flightdup"] = suite{
		rule: "one fresh fakeredis + real client (single pipe, no retry, store = built-in lru / NewSimpleCacheAdapter) per case: a DoMultiCache batch with a repeated command {GET a x2, GET a + GET b + GET a, GET a x2 with ToStaticTTL} whose request for `a` is held on the server while an outside DoCache(GET a) joins the flight, then ends as {success, EXEC null, EXECABORT, Redis error on the queued command (ERR / MOVED), batch ctx timeout, connection killed}; a 2.5 s watchdog detects callers that never return; afterwards one more DoCache(GET a). Oracle (dupFlightOk): every caller returns, at most one GET a was sent, success: all get the value and the later read is a hit without a request; failure: all get an error, nothing is cached, the later read fetches again (exactly one more GET a) and gets the value; non-trivial = every case",
		run:  runFlightDup,
	}
}

type dupCase struct {
	kind   string
	simple bool
	fail   string
}

type dupOut struct {
	// retry: the episode says nothing (under load the outside caller only got to run after the
	// flight had already ended, so it legitimately fetched on its own); it is run again
	retry bool
	// timeout: a watchdog fired (a caller or the later read did not return in time); such an episode is
	// run a second time and only reported if a watchdog fires again (a starved machine also looks like this)
	timeout bool
	line    string
	hits    []string
	fails   [][3]string // key, op, what
}

const dupWatchdog = 2500 * time.Millisecond

func countGets(srv *fakeredis.Server, key string) (n int) {
	for _, e := range srv.Log() {
		if len(e.Argv) == 2 && strings.EqualFold(e.Argv[0], "GET") && e.Argv[1] == key {
			n++
		}
	}
	return
}

func dupEpisode(tc dupCase) (out dupOut) {
	desc := fmt.Sprintf("%s %s %s", tc.kind, storeName(tc.simple), tc.fail)
	failf := func(key, op, format string, args ...any) {
		out.fails = append(out.fails, [3]string{key, op, fmt.Sprintf(format, args...)})
	}
	srv := fakeredis.New(fakeredis.Options{})
	defer srv.Close()
	client, err := pipeClient(srv, tc.simple)
	if err != nil {
		failf("cachee2e:newclient", desc, "%v", err)
		return
	}
	hung := false
	defer func() {
		if hung {
			go client.Close() // callers are stuck inside the client: Close would wait for them
		} else {
			client.Close()
		}
	}()
	ctx := context.Background()
	client.Do(ctx, client.B().Set().Key("a").Value("a|1").Build())
	client.Do(ctx, client.B().Set().Key("b").Value("b|1").Build())

	static := tc.kind == "st2"
	ttl := time.Minute
	gate := make(chan struct{})
	held := fakeredis.Cmd("EXEC") // the reply that ends a's request: EXEC of a's block (a is first in the batch)
	if static {
		held = fakeredis.Cmd("GET", "a")
	}
	const abort = "EXECABORT Transaction discarded because of previous errors."
	switch tc.fail {
	case "ok", "ctx", "drop":
		srv.AddRule(fakeredis.Rule{Match: held, Times: 1, Gate: gate})
	case "execnull":
		srv.AddRule(fakeredis.Rule{Match: held, Times: 1, Gate: gate, Exec: true, Reply: []byte("_\r\n")})
	case "execabort":
		srv.AddRule(fakeredis.Rule{Match: held, Times: 1, Gate: gate, Exec: true, Err: abort})
	case "rediserr", "moved":
		text := "ERR boom"
		if tc.fail == "moved" {
			text = "MOVED 1 x:1"
		}
		if static {
			srv.AddRule(fakeredis.Rule{Match: held, Times: 1, Gate: gate, Err: text})
		} else { // the queued command is refused at arrival, Redis then aborts the transaction
			srv.AddRule(fakeredis.Rule{Match: fakeredis.Cmd("GET", "a"), Times: 1, Err: text})
			srv.AddRule(fakeredis.Rule{Match: held, Times: 1, Gate: gate, Exec: true, Err: abort})
		}
	}
	mk := func(key string) rueidis.CacheableTTL {
		cmd := client.B().Get().Key(key).Cache()
		if static {
			cmd = cmd.ToStaticTTL()
		}
		return rueidis.CT(cmd, ttl)
	}
	keys := []string{"a", "a"}
	if tc.kind == "dm3" {
		keys = []string{"a", "b", "a"}
	}
	batch := make([]rueidis.CacheableTTL, len(keys))
	for i, k := range keys {
		batch[i] = mk(k)
	}
	bctx := ctx
	if tc.fail == "ctx" {
		var cancel context.CancelFunc
		bctx, cancel = context.WithTimeout(ctx, 300*time.Millisecond)
		defer cancel()
	}
	type res struct {
		val, err string
	}
	var mu sync.Mutex
	var batchRes []res
	var waiterRes *res
	toRes := func(r rueidis.RedisResult) res {
		v, err := r.ToString()
		if err != nil {
			return res{err: err.Error()}
		}
		return res{val: v}
	}
	batchDone, waiterDone := make(chan struct{}), make(chan struct{})
	go func() {
		rs := client.DoMultiCache(bctx, batch...)
		got := make([]res, len(rs))
		for i, r := range rs {
			got[i] = toRes(r)
		}
		mu.Lock()
		batchRes = got
		mu.Unlock()
		close(batchDone)
	}()
	// the batch's request for `a` has reached the server (its reply is held by the gate)
	reached := srv.WaitFor(5*time.Second, func() bool {
		for _, e := range srv.Log() {
			if held(e.Conn, e.Argv) {
				return true
			}
		}
		return false
	})
	if !reached {
		out.retry = true
		failf("cachee2e:harness:batch-not-sent", desc, "the batch's request did not reach the server: %v", srv.Log())
	}
	started := make(chan struct{})
	go func() { // an outside caller: must join the flight, not send
		close(started)
		r := toRes(client.DoCache(context.Background(), client.B().Get().Key("a").Cache(), ttl))
		mu.Lock()
		waiterRes = &r
		mu.Unlock()
		close(waiterDone)
	}()
	<-started
	time.Sleep(40 * time.Millisecond)
	// the flight is still pending here: a second GET a up to now would be a duplicate request for a pending flight
	getsPending := countGets(srv, "a")
	if bctx.Err() != nil {
		out.retry = true // starved machine: the batch's ctx expired before the outside caller had its 40 ms to join
	}
	switch tc.fail {
	case "ctx": // the owner gives up first, the reply comes afterwards
		select {
		case <-batchDone:
		case <-time.After(time.Second):
			// the batch has not noticed its expired ctx yet (starved machine): with the reply released now it
			// may still complete normally, which says nothing about a failing request
			out.retry = true
		}
	case "drop":
		for id := 1; id <= srv.NumConns(); id++ {
			if ci, ok := srv.Conn(id); ok && ci.Tracking {
				srv.Kill(id)
			}
		}
	}
	close(gate)
	watchdog := time.After(dupWatchdog)
	bOK, wOK := false, false
	for !(bOK && wOK) && !hung {
		select {
		case <-batchDone:
			bOK, batchDone = true, nil
		case <-waiterDone:
			wOK, waiterDone = true, nil
		case <-watchdog:
			hung = true
		}
	}
	mu.Lock()
	bres, wres := batchRes, waiterRes
	mu.Unlock()
	n, returned, nok, nerr := 1, 0, 0, 0
	count := func(r res) {
		returned++
		if r.err != "" {
			nerr++
		} else if r.val == "a|1" {
			nok++
		}
	}
	for i, k := range keys {
		if k != "a" {
			continue
		}
		n++
		if bOK {
			count(bres[i])
		}
	}
	if wOK {
		count(*wres)
	}
	gets := countGets(srv, "a")
	if getsPending <= 1 && gets > getsPending {
		// a GET a that was sent only after the flight had ended (reply released / owner's ctx expired / connection
		// killed): the outside caller came too late to join
		out.retry = true
	}
	// the LATER read
	var lr rueidis.RedisResult
	var lv string
	var lerr error
	for try := 0; ; try++ {
		lctx, lcancel := context.WithTimeout(ctx, dupWatchdog)
		lr = client.DoCache(lctx, client.B().Get().Key("a").Cache(), ttl)
		lv, lerr = lr.ToString()
		lcancel()
		// after a killed connection this client (retries are disabled) may still hand the call to the dying
		// pipe and answer with a connection error; that is not a statement about the flight: ask again
		if _, isRedis := rueidis.IsRedisErr(lerr); tc.fail != "drop" || lerr == nil || isRedis || errors.Is(lerr, context.DeadlineExceeded) || try == 20 {
			break
		}
		out.hits = append(out.hits, "dup:later-read-repeated-after-connection-error")
		time.Sleep(5 * time.Millisecond)
	}
	laterReturned := !errors.Is(lerr, context.DeadlineExceeded)
	laterHit, laterOk := lr.IsCacheHit(), lerr == nil && lv == "a|1"
	laterGets := countGets(srv, "a") - gets

	failWord := tc.fail
	op := fmt.Sprintf("!dupflight %s %s %s %d %d %d %d %d %s %s %s %d", tc.kind, storeName(tc.simple), failWord, n, returned, nok, nerr, gets,
		b01(laterReturned), b01(laterHit), b01(laterOk), laterGets)
	out.line = op
	out.hits = append(out.hits, "dup:"+tc.kind+":"+tc.fail)
	failed := tc.fail != "ok"
	good := returned == n && gets <= 1 && laterReturned && laterOk
	if failed {
		good = good && nok == 0 && nerr == n && !laterHit && laterGets == 1
	} else {
		good = good && nerr == 0 && nok == n && laterHit && laterGets == 0
	}
	detail := fmt.Sprintf("batch results %v, outside waiter %v, later read value %q err %v", bres, wres, lv, lerr)
	switch {
	case returned != n:
		out.timeout = true
		var who []string
		if !bOK {
			who = append(who, "the DoMultiCache batch")
		}
		if !wOK {
			who = append(who, "the outside DoCache that joined the flight")
		}
		failf("cachee2e:flight-hang:duplicate-in-batch", op, "%s: did not return within %v after the request for `a` ended (%s): %s; %s", desc, dupWatchdog, tc.fail, strings.Join(who, " and "), detail)
		out.hits = append(out.hits, "dup:hang")
		if !laterReturned {
			failf("cachee2e:flight-dead:duplicate-in-batch", op, "%s: a later DoCache(GET a) joined the dead flight and timed out after %v (the entry stayed pending)", desc, dupWatchdog)
		}
	case !laterReturned:
		out.timeout = true
		failf("cachee2e:flight-dead:duplicate-in-batch", op, "%s: a later DoCache(GET a) timed out after %v (the entry stayed pending); %s", desc, dupWatchdog, detail)
	case !good:
		failf("cachee2e:flight-result:duplicate-in-batch", op, "%s: %s", desc, detail)
	}
	// GET b of the same batch must never be disturbed by what happens to a
	if tc.kind == "dm3" && bOK {
		b := bres[1]
		switch {
		case b.err == "" && b.val != "b|1":
			failf("cachee2e:flight-foreign:duplicate-in-batch", op, "%s: GET b returned %q", desc, b.val)
		case b.err != "" && tc.fail != "ctx" && tc.fail != "drop":
			failf("cachee2e:flight-foreign:duplicate-in-batch", op, "%s: GET b (its own transaction succeeded) returned error %q", desc, b.err)
		}
	}
	return
}

func runFlightDup(c *Ctx) {
	var cases []dupCase
	rounds := 1
	if c.Tier == "thorough" {
		rounds = 3
	}
	for r := 0; r < rounds; r++ {
		for _, simple := range []bool{false, true} {
			for _, kind := range []string{"dm2", "dm3", "st2"} {
				for _, f := range []string{"ok", "execnull", "execabort", "rediserr", "moved", "ctx", "drop"} {
					if kind == "st2" && (f == "execnull" || f == "execabort") {
						continue // no transaction on the static path
					}
					cases = append(cases, dupCase{kind: kind, simple: simple, fail: f})
				}
			}
		}
	}
	// episodes are independent (own server, own client): a few run side by side so that hanging ones
	// (2 x 2.5 s of watchdog each, run twice) do not add up; results are emitted in case order
	var runs []func() dupOut
	for _, tc := range cases {
		runs = append(runs, func() dupOut { return dupEpisode(tc) })
	}
	// overlapping MGETs: a failing call must cancel only the flights it owns
	for r := 0; r < rounds; r++ {
		for _, simple := range []bool{false, true} {
			for _, f := range []string{"ctx", "ctxdeadline", "execnull", "execabort", "rediserr"} {
				for _, w := range []string{"wget", "wmget"} {
					tc := mgetCase{simple: simple, fail: f, w: w}
					runs = append(runs, func() dupOut { return mgetOwnEpisode(tc) })
				}
			}
		}
	}
	// a caller whose own ctx ends must not leave a dead pending entry behind
	for r := 0; r < rounds; r++ {
		for _, simple := range []bool{false, true} {
			for _, v := range []string{"pre-cancel", "pre-deadline", "abandon-null", "abandon-execabort", "abandon-ok"} {
				tc := ctxDeadCase{simple: simple, variant: v}
				runs = append(runs, func() dupOut { return ctxDeadEpisode(tc) })
			}
		}
	}
	outs := make([]dupOut, len(runs))
	sem := make(chan struct{}, 8)
	var wg sync.WaitGroup
	for i := range runs {
		wg.Add(1)
		sem <- struct{}{}
		go func(i int) {
			defer wg.Done()
			var notes []string
			timeouts := 0
			for attempt := 0; ; attempt++ {
				outs[i] = runs[i]()
				if outs[i].retry && attempt < 5 {
					notes = append(notes, "dup:inconclusive-run-repeated(outside caller too late / ctx expiry unnoticed)")
					time.Sleep(50 * time.Millisecond)
					continue
				}
				if outs[i].timeout {
					if timeouts++; timeouts < 2 && attempt < 5 {
						notes = append(notes, "dup:watchdog-fired-run-repeated")
						continue
					}
				}
				break
			}
			outs[i].hits = append(outs[i].hits, notes...)
			<-sem
		}(i)
	}
	wg.Wait()
	for _, o := range outs {
		if o.line == "" && len(o.fails) == 0 {
			continue
		}
		for _, h := range o.hits {
			c.Hit(h)
		}
		if o.line != "" {
			c.Emit(o.line, "ok", true)
		}
		for _, f := range o.fails {
			c.Fail(f[0], f[1], f[2])
		}
	}
}

// ---------------------------------------------------------------- overlapping MGETs (a failing call cancels only what it owns)

type mgetCase struct {
	simple bool
	fail   string // ctx | ctxdeadline | execnull | execabort | rediserr : how B's own fetch of a2 ends
	w      string // wget | wmget : the outside caller that joins a1 is DoCache(GET a1) / DoCache(MGET a1)
}

// mgetOwnEpisode: A = DoCache(MGET a1), its reply held on the server; W joins a1 (the per-key cache entry of an
// MGET is the entry of GET); B = DoCache(MGET a1 a2) joins a1 and fetches a2 itself through the rewritten
// `MGET a2`, and that fetch fails. B must not touch a1's flight: A and W get A's reply, a1 is cached
// afterwards, a1 went over the wire once.
//
// Replies of one connection arrive in order, so B's failing REPLY (execnull, execabort, rediserr) can only arrive
// after A's reply: in these variants A's reply is released first. Only a failure that needs no reply (B's ctx is
// cancelled / expires while everything is held) happens while a1 is still pending: there A's reply is released
// after B has returned.
func mgetOwnEpisode(tc mgetCase) (out dupOut) {
	store := storeName(tc.simple)
	desc := fmt.Sprintf("mgetown %s %s %s", store, tc.fail, tc.w)
	failf := func(key, op, format string, args ...any) {
		out.fails = append(out.fails, [3]string{key, op, fmt.Sprintf(format, args...)})
	}
	srv := fakeredis.New(fakeredis.Options{})
	defer srv.Close()
	client, err := pipeClient(srv, tc.simple)
	if err != nil {
		failf("cachee2e:newclient", desc, "%v", err)
		return
	}
	hung := false
	defer func() {
		if hung {
			go client.Close()
		} else {
			client.Close()
		}
	}()
	ctx := context.Background()
	ttl := time.Minute
	client.Do(ctx, client.B().Set().Key("a1").Value("a1|1").Build())
	client.Do(ctx, client.B().Set().Key("a2").Value("a2|1").Build())
	gate := make(chan struct{})
	released := false
	release := func() {
		if !released {
			released = true
			close(gate)
		}
	}
	defer release()
	const abort = "EXECABORT Transaction discarded because of previous errors."
	isExec := fakeredis.Cmd("EXEC")
	srv.AddRule(fakeredis.Rule{Match: isExec, Times: 1, Gate: gate}) // A's transaction (one-shot rules fire in order)
	switch tc.fail {
	case "execnull":
		srv.AddRule(fakeredis.Rule{Match: isExec, Times: 1, Exec: true, Reply: []byte("_\r\n")})
	case "execabort":
		srv.AddRule(fakeredis.Rule{Match: isExec, Times: 1, Exec: true, Err: abort})
	case "rediserr":
		srv.AddRule(fakeredis.Rule{Match: fakeredis.Cmd("MGET", "a2"), Times: 1, Err: "ERR boom"})
		srv.AddRule(fakeredis.Rule{Match: isExec, Times: 1, Exec: true, Err: abort})
	}
	execs := func() (n int) {
		for _, e := range srv.Log() {
			if isExec(e.Conn, e.Argv) {
				n++
			}
		}
		return
	}
	type res struct {
		val, err string
		hit      bool
	}
	first := func(r rueidis.RedisResult, mget bool) res { // the value of a1 in the reply
		if !mget {
			v, err := r.ToString()
			if err != nil {
				return res{err: err.Error()}
			}
			return res{val: v, hit: r.IsCacheHit()}
		}
		arr, err := r.ToArray()
		if err != nil {
			return res{err: err.Error()}
		}
		if len(arr) == 0 {
			return res{err: "empty MGET reply"}
		}
		v, err := arr[0].ToString()
		if err != nil {
			return res{err: err.Error()}
		}
		return res{val: v, hit: arr[0].IsCacheHit()}
	}
	readA1 := func(c context.Context, mget bool) res {
		if mget {
			return first(client.DoCache(c, client.B().Mget().Key("a1").Cache(), ttl), true)
		}
		return first(client.DoCache(c, client.B().Get().Key("a1").Cache(), ttl), false)
	}
	var aRes, wRes, bRes res
	aDone, wDone, bDone := make(chan struct{}), make(chan struct{}), make(chan struct{})
	go func() { aRes = readA1(context.Background(), true); close(aDone) }()
	if !srv.WaitFor(5*time.Second, func() bool { return execs() >= 1 }) {
		out.retry = true
		failf("cachee2e:harness:batch-not-sent", desc, "A's request did not reach the server")
		return
	}
	started := make(chan struct{})
	go func() { close(started); wRes = readA1(context.Background(), tc.w == "wmget"); close(wDone) }()
	<-started
	time.Sleep(40 * time.Millisecond)
	bctx, cancel := context.WithCancel(ctx)
	if tc.fail == "ctxdeadline" {
		cancel()
		bctx, cancel = context.WithTimeout(ctx, 250*time.Millisecond)
	}
	defer cancel()
	go func() {
		bRes = first(client.DoCache(bctx, client.B().Mget().Key("a1", "a2").Cache(), ttl), true)
		close(bDone)
	}()
	bGone := func() bool {
		select {
		case <-bDone:
			return true
		default:
			return false
		}
	}
	if !srv.WaitFor(5*time.Second, func() bool { return execs() >= 2 || bGone() }) || execs() < 2 {
		out.retry = true // (starved machine: B's deadline passed before it could send)
		failf("cachee2e:harness:batch-not-sent", desc, "B's request did not reach the server: %v", srv.Log())
		return
	}
	time.Sleep(20 * time.Millisecond)
	wait := func(ch chan struct{}) bool {
		select {
		case <-ch:
			return true
		case <-time.After(dupWatchdog):
			return false
		}
	}
	bReturned := true
	switch tc.fail {
	case "ctx":
		cancel()
		bReturned = wait(bDone) // B gives up while a1 is still in flight ...
		release()               // ... then A's reply arrives
	case "ctxdeadline":
		bReturned = wait(bDone)
		release()
	default:
		release() // A's reply, then B's failing reply
		bReturned = wait(bDone)
	}
	aReturned, wReturned := wait(aDone), wait(wDone)
	hung = !(aReturned && wReturned && bReturned)
	// the LATER read of a1
	var later res
	laterReturned := true
	if !hung {
		lctx, lcancel := context.WithTimeout(ctx, dupWatchdog)
		later = readA1(lctx, tc.w == "wmget")
		lcancel()
		laterReturned = !strings.Contains(later.err, context.DeadlineExceeded.Error())
	}
	fetches := 0
	for _, e := range srv.Log() {
		if len(e.Argv) >= 2 && (strings.EqualFold(e.Argv[0], "GET") || strings.EqualFold(e.Argv[0], "MGET")) {
			for _, k := range e.Argv[1:] {
				if k == "a1" {
					fetches++
				}
			}
		}
	}
	wOk := wReturned && wRes.err == "" && wRes.val == "a1|1"
	aOk := aReturned && aRes.err == "" && aRes.val == "a1|1"
	laterOk := !hung && later.err == "" && later.val == "a1|1"
	op := fmt.Sprintf("!mgetown %s %s:%s %s %s %s %s %s %d", store, tc.fail, tc.w, b01(wReturned), b01(wOk), b01(aOk), b01(later.hit), b01(laterOk), fetches)
	out.line = op
	out.hits = append(out.hits, "mgetown:"+tc.fail+":"+tc.w)
	detail := fmt.Sprintf("A (MGET a1, owner) %+v; W (%s, joined) %+v; B (MGET a1 a2, joined a1, own fetch of a2 ended as %s) %+v; later read %+v; a1 went over the wire %d time(s)", aRes, tc.w, wRes, tc.fail, bRes, later, fetches)
	switch {
	case hung || !laterReturned:
		out.timeout = true
		failf("cachee2e:flight-hang:mget-joined-key", op, "%s: returned within %v: A %v, W %v, B %v, later read %v", desc, dupWatchdog, aReturned, wReturned, bReturned, laterReturned)
	case !(wOk && aOk && later.hit && laterOk && fetches == 1):
		failf("cachee2e:flight-stolen:mget-joined-key", op, "%s: %s", desc, detail)
	}
	if bReturned && bRes.err == "" {
		failf("cachee2e:harness:mgetown-b-did-not-fail", op, "%s: B returned %+v", desc, bRes)
	}
	return
}

// ---------------------------------------------------------------- the owner of a fetch gives up (its ctx ends)

type ctxDeadCase struct {
	simple  bool
	variant string // pre-cancel | pre-deadline | abandon-null | abandon-execabort | abandon-ok
}

// ctxDeadEpisode: the owner's DoCache(ctx, GET a) returns with its ctx error
//   - pre-*:     the ctx is already cancelled / past its deadline when DoCache is called;
//   - abandon-*: the request is on the server, its EXEC reply is held; an outside caller W (context.Background)
//     has joined the flight; the owner's ctx is cancelled, the owner returns, THEN the held reply is
//     released: EXEC null / -EXECABORT / the normal successful reply.
//
// Nothing may be left pending: W returns (2.5 s watchdog after the release) and a later DoCache(GET a) returns
// in time with the value.
func ctxDeadEpisode(tc ctxDeadCase) (out dupOut) {
	store := storeName(tc.simple)
	desc := fmt.Sprintf("ctxdead %s %s", store, tc.variant)
	failf := func(key, op, format string, args ...any) {
		out.fails = append(out.fails, [3]string{key, op, fmt.Sprintf(format, args...)})
	}
	srv := fakeredis.New(fakeredis.Options{})
	defer srv.Close()
	client, err := pipeClient(srv, tc.simple)
	if err != nil {
		failf("cachee2e:newclient", desc, "%v", err)
		return
	}
	hung := false
	defer func() {
		if hung {
			go client.Close()
		} else {
			client.Close()
		}
	}()
	ctx := context.Background()
	ttl := time.Minute
	client.Do(ctx, client.B().Set().Key("a").Value("a|1").Build())
	read := func(c context.Context) (string, error) {
		return client.DoCache(c, client.B().Get().Key("a").Cache(), ttl).ToString()
	}
	isCtxErr := func(err error) bool {
		return errors.Is(err, context.Canceled) || errors.Is(err, context.DeadlineExceeded)
	}
	ownerErr, joinedReturned := false, true
	var ownerVal string
	var ownerE, wE error
	var wVal string
	if strings.HasPrefix(tc.variant, "pre-") {
		octx, cancel := context.WithCancel(ctx)
		if tc.variant == "pre-deadline" {
			cancel()
			octx, cancel = context.WithDeadline(ctx, time.Now().Add(-time.Second))
		}
		cancel()
		ownerVal, ownerE = read(octx)
		ownerErr = isCtxErr(ownerE)
		out.hits = append(out.hits, fmt.Sprintf("ctxdead:%s:owner-request-on-the-wire=%d", tc.variant, countGets(srv, "a")))
	} else {
		gate := make(chan struct{})
		released := false
		release := func() {
			if !released {
				released = true
				close(gate)
			}
		}
		defer release()
		isExec := fakeredis.Cmd("EXEC")
		rule := fakeredis.Rule{Match: isExec, Times: 1, Gate: gate}
		switch tc.variant {
		case "abandon-null":
			rule.Exec, rule.Reply = true, []byte("_\r\n")
		case "abandon-execabort":
			rule.Exec, rule.Err = true, "EXECABORT Transaction discarded because of previous errors."
		}
		srv.AddRule(rule)
		octx, cancel := context.WithCancel(ctx)
		defer cancel()
		oDone, wDone := make(chan struct{}), make(chan struct{})
		go func() { ownerVal, ownerE = read(octx); close(oDone) }()
		reached := srv.WaitFor(5*time.Second, func() bool {
			for _, e := range srv.Log() {
				if isExec(e.Conn, e.Argv) {
					return true
				}
			}
			return false
		})
		if !reached {
			out.retry = true
			failf("cachee2e:harness:batch-not-sent", desc, "the owner's request did not reach the server")
			return
		}
		started := make(chan struct{})
		go func() { close(started); wVal, wE = read(context.Background()); close(wDone) }()
		<-started
		time.Sleep(40 * time.Millisecond) // gives W time to join; a W that was too late is recognised below
		getsPending := countGets(srv, "a")
		cancel() // the owner gives up ...
		select {
		case <-oDone:
			ownerErr = isCtxErr(ownerE)
		case <-time.After(dupWatchdog):
			hung = true
		}
		release() // ... and only then its reply arrives
		if !hung {
			select {
			case <-wDone:
			case <-time.After(dupWatchdog):
				joinedReturned, hung = false, true
			}
		}
		if !hung && getsPending <= 1 && countGets(srv, "a") > getsPending {
			out.retry = true // W only looked at the cache after the owner had cancelled its flight and fetched on its own
		}
		if joinedReturned && !hung {
			switch {
			case wE != nil:
				out.hits = append(out.hits, fmt.Sprintf("ctxdead:%s:W=error(%s)", tc.variant, strings.Join(strings.Fields(wE.Error()), "-")))
			default:
				out.hits = append(out.hits, fmt.Sprintf("ctxdead:%s:W=value", tc.variant))
			}
		}
	}
	before := countGets(srv, "a")
	lctx, lcancel := context.WithTimeout(ctx, dupWatchdog)
	lv, lerr := read(lctx)
	lcancel()
	laterReturned := !errors.Is(lerr, context.DeadlineExceeded)
	laterOk := lerr == nil && lv == "a|1"
	if laterReturned {
		out.hits = append(out.hits, fmt.Sprintf("ctxdead:%s:later-read-fetches=%d", tc.variant, countGets(srv, "a")-before))
	} else {
		hung = true
	}
	op := fmt.Sprintf("!ctxdead %s %s %s %s %s %s", store, tc.variant, b01(ownerErr), b01(joinedReturned), b01(laterReturned), b01(laterOk))
	out.line = op
	detail := fmt.Sprintf("owner returned %q err %v; joined caller returned %q err %v; later read returned %q err %v", ownerVal, ownerE, wVal, wE, lv, lerr)
	switch {
	case !joinedReturned:
		out.timeout = true
		failf("cachee2e:flight-hang:ctx-abandoned", op, "%s: the caller that had joined the flight did not return within %v after the abandoned request had been answered; %s", desc, dupWatchdog, detail)
		if !laterReturned {
			failf("cachee2e:flight-dead:ctx-abandoned", op, "%s: a later DoCache(GET a) did not return within %v (it waits on an entry nobody will complete); %s", desc, dupWatchdog, detail)
		}
	case !laterReturned:
		out.timeout = true
		failf("cachee2e:flight-dead:ctx-abandoned", op, "%s: a later DoCache(GET a) did not return within %v (it waits on an entry nobody will complete); %s", desc, dupWatchdog, detail)
	case hung:
		out.timeout = true
		failf("cachee2e:flight-hang:ctx-abandoned", op, "%s: the owner did not return within %v after its ctx was cancelled; %s", desc, dupWatchdog, detail)
	case !(ownerErr && laterOk):
		failf("cachee2e:flight-result:ctx-abandoned", op, "%s: %s", desc, detail)
	}
	return
}
