package main

// Suite "hook" (C43): invocation-log differential of rueidishook.WithHook.
// A counting hook and a mock inner client share one log. Each op follows a
// derivation path (nodes / dedicate / dedicated) from WithHook(mock, hook) on the
// REAL wrapper objects and then calls one method; the answer is the log plus where
// the returned value came from. `!call` lines are judged against the property
// itself (hook of the same name exactly once, nothing else hooked, result unchanged).

import (
	"context"
	"errors"
	"fmt"
	"strings"
	"time"

	"github.com/redis/rueidis"
	"github.com/redis/rueidis/internal/cmds"
	"github.com/redis/rueidis/rueidishook"
)

type hkState struct {
	evs      []string
	seq      int
	lastIn   string // canonical form of the last value returned by the inner client
	lastHook string // canonical form of the last value returned by the hook
	fwd      bool
	ctxTok   *int
	cmd      rueidis.Completed
	multi    []rueidis.Completed
	cache    rueidis.Cacheable
	mcache   []rueidis.CacheableTTL
	ttl      time.Duration
	fnHit    bool
	root     *fakeInner
	innerBefore int // inner-client events before the call under test (path derivation)
	ctxDone     bool // the call under test gets an already cancelled context
	cancels  int
}

type hkCtxKey struct{}

func (s *hkState) add(e string) { s.evs = append(s.evs, e) }
func (s *hkState) tag(who string) error {
	s.seq++
	return fmt.Errorf("%s-%d", who, s.seq)
}

func canonRes(r rueidis.RedisResult) string { return "res:" + errStr(r.Error()) }
func errStr(e error) string {
	if e == nil {
		return "<nil>"
	}
	return e.Error()
}
func canonMulti(rs []rueidis.RedisResult) string {
	var b strings.Builder
	b.WriteString("multi:")
	for _, r := range rs {
		b.WriteString(errStr(r.Error()) + "|")
	}
	if len(rs) > 0 {
		fmt.Fprintf(&b, "@%p", &rs[0])
	}
	return b.String()
}
func canonStream(r rueidis.RedisResultStream) string { return "stream:" + errStr(r.Error()) }

// ---- mock inner client

type fakeInner struct {
	s    *hkState
	name string
}

var _ rueidis.Client = (*fakeInner)(nil)

func (f *fakeInner) B() rueidis.Builder {
	f.s.add("inner:B")
	b := cmds.NewBuilder(cmds.InitSlot)
	f.s.lastIn = fmt.Sprintf("builder:%v", b)
	return b
}
func (f *fakeInner) Do(ctx context.Context, cmd rueidis.Completed) rueidis.RedisResult {
	f.s.add("inner:Do")
	r := rueidis.NewErrorResult(f.s.tag("inner"))
	f.s.lastIn = canonRes(r)
	return r
}
func (f *fakeInner) multiRes(n int) []rueidis.RedisResult {
	rs := make([]rueidis.RedisResult, n)
	for i := range rs {
		rs[i] = rueidis.NewErrorResult(f.s.tag("inner"))
	}
	f.s.lastIn = canonMulti(rs)
	return rs
}
func (f *fakeInner) DoMulti(ctx context.Context, multi ...rueidis.Completed) []rueidis.RedisResult {
	f.s.add("inner:DoMulti")
	return f.multiRes(len(multi))
}
func (f *fakeInner) DoCache(ctx context.Context, cmd rueidis.Cacheable, ttl time.Duration) rueidis.RedisResult {
	f.s.add("inner:DoCache")
	r := rueidis.NewErrorResult(f.s.tag("inner"))
	f.s.lastIn = canonRes(r)
	return r
}
func (f *fakeInner) DoMultiCache(ctx context.Context, multi ...rueidis.CacheableTTL) []rueidis.RedisResult {
	f.s.add("inner:DoMultiCache")
	return f.multiRes(len(multi))
}
func (f *fakeInner) DoStream(ctx context.Context, cmd rueidis.Completed) rueidis.RedisResultStream {
	f.s.add("inner:DoStream")
	r := rueidis.NewErrorResultStream(f.s.tag("inner"))
	f.s.lastIn = canonStream(r)
	return r
}
func (f *fakeInner) DoMultiStream(ctx context.Context, multi ...rueidis.Completed) rueidis.MultiRedisResultStream {
	f.s.add("inner:DoMultiStream")
	r := rueidis.NewErrorResultStream(f.s.tag("inner"))
	f.s.lastIn = canonStream(r)
	return r
}
func (f *fakeInner) Receive(ctx context.Context, subscribe rueidis.Completed, fn func(msg rueidis.PubSubMessage)) error {
	f.s.add("inner:Receive")
	e := f.s.tag("inner")
	f.s.lastIn = "err:" + e.Error()
	return e
}
func (f *fakeInner) Dedicated(fn func(rueidis.DedicatedClient) error) error {
	f.s.add("inner:Dedicated")
	return fn(&fakeDedicated{s: f.s})
}
func (f *fakeInner) Dedicate() (rueidis.DedicatedClient, func()) {
	f.s.add("inner:Dedicate")
	return &fakeDedicated{s: f.s}, func() { f.s.cancels++ }
}
func (f *fakeInner) Nodes() map[string]rueidis.Client {
	f.s.add("inner:Nodes")
	return map[string]rueidis.Client{
		"n1": &fakeInner{s: f.s, name: f.name + "/n1"},
		"n2": &fakeInner{s: f.s, name: f.name + "/n2"},
	}
}
func (f *fakeInner) Mode() rueidis.ClientMode {
	f.s.add("inner:Mode")
	f.s.lastIn = "mode:" + string(rueidis.ClientModeSentinel)
	return rueidis.ClientModeSentinel
}
func (f *fakeInner) Close() { f.s.add("inner:Close"); f.s.lastIn = "void" }

type fakeDedicated struct{ s *hkState }

var _ rueidis.DedicatedClient = (*fakeDedicated)(nil)

func (f *fakeDedicated) B() rueidis.Builder {
	f.s.add("inner:B")
	b := cmds.NewBuilder(cmds.InitSlot)
	f.s.lastIn = fmt.Sprintf("builder:%v", b)
	return b
}
func (f *fakeDedicated) Do(ctx context.Context, cmd rueidis.Completed) rueidis.RedisResult {
	f.s.add("inner:Do")
	r := rueidis.NewErrorResult(f.s.tag("inner"))
	f.s.lastIn = canonRes(r)
	return r
}
func (f *fakeDedicated) DoMulti(ctx context.Context, multi ...rueidis.Completed) []rueidis.RedisResult {
	f.s.add("inner:DoMulti")
	rs := make([]rueidis.RedisResult, len(multi))
	for i := range rs {
		rs[i] = rueidis.NewErrorResult(f.s.tag("inner"))
	}
	f.s.lastIn = canonMulti(rs)
	return rs
}
func (f *fakeDedicated) Receive(ctx context.Context, subscribe rueidis.Completed, fn func(msg rueidis.PubSubMessage)) error {
	f.s.add("inner:Receive")
	e := f.s.tag("inner")
	f.s.lastIn = "err:" + e.Error()
	return e
}
func (f *fakeDedicated) SetPubSubHooks(hooks rueidis.PubSubHooks) <-chan error {
	f.s.add("inner:SetPubSubHooks")
	ch := make(chan error)
	f.s.lastIn = fmt.Sprintf("chan:%p", ch)
	return ch
}
func (f *fakeDedicated) SetOnInvalidations(fn func([]rueidis.RedisMessage)) <-chan error {
	f.s.add("inner:SetOnInvalidations")
	ch := make(chan error)
	f.s.lastIn = fmt.Sprintf("chan:%p", ch)
	return ch
}
func (f *fakeDedicated) Close() { f.s.add("inner:Close"); f.s.lastIn = "void" }

// ---- counting hook

type countHook struct {
	s     *hkState
	level int  // 0: single hook (old event spelling); >= 1: level in a stack, 1 = innermost
	fwd   bool // stack hooks always forward
}

var _ rueidishook.Hook = (*countHook)(nil)

func (h *countHook) cls(c rueidis.Client) string {
	if fi, ok := c.(*fakeInner); ok && fi != nil {
		return "inner"
	}
	return "other"
}
func (h *countHook) ctxOK(ctx context.Context) bool {
	return ctx != nil && ctx.Value(hkCtxKey{}) == any(h.s.ctxTok)
}
func sameCompleted(a, b rueidis.Completed) bool {
	x, y := a.Commands(), b.Commands()
	return len(x) == len(y) && (len(x) == 0 || &x[0] == &y[0])
}
func (h *countHook) ev(m string, c rueidis.Client, ok bool) {
	e := "hook:" + m + "(" + h.cls(c) + ")"
	if h.level > 0 {
		e = fmt.Sprintf("hook@%d:%s(%s)", h.level, m, h.cls(c))
	}
	if !ok {
		e += "!args"
	}
	h.s.add(e)
}
func (h *countHook) Do(c rueidis.Client, ctx context.Context, cmd rueidis.Completed) rueidis.RedisResult {
	h.ev("Do", c, h.ctxOK(ctx) && sameCompleted(cmd, h.s.cmd))
	var r rueidis.RedisResult
	if h.s.fwd || h.fwd {
		r = c.Do(ctx, cmd)
	} else {
		r = rueidis.NewErrorResult(h.s.tag("hook"))
	}
	h.s.lastHook = canonRes(r)
	return r
}
func (h *countHook) DoMulti(c rueidis.Client, ctx context.Context, multi ...rueidis.Completed) []rueidis.RedisResult {
	ok := h.ctxOK(ctx) && len(multi) == len(h.s.multi)
	for i := range multi {
		ok = ok && i < len(h.s.multi) && sameCompleted(multi[i], h.s.multi[i])
	}
	h.ev("DoMulti", c, ok)
	var rs []rueidis.RedisResult
	if h.s.fwd || h.fwd {
		rs = c.DoMulti(ctx, multi...)
	} else {
		rs = make([]rueidis.RedisResult, len(multi))
		for i := range rs {
			rs[i] = rueidis.NewErrorResult(h.s.tag("hook"))
		}
	}
	h.s.lastHook = canonMulti(rs)
	return rs
}
func (h *countHook) DoCache(c rueidis.Client, ctx context.Context, cmd rueidis.Cacheable, ttl time.Duration) rueidis.RedisResult {
	h.ev("DoCache", c, h.ctxOK(ctx) && ttl == h.s.ttl && sameCompleted(rueidis.Completed(cmd), rueidis.Completed(h.s.cache)))
	var r rueidis.RedisResult
	if h.s.fwd || h.fwd {
		r = c.DoCache(ctx, cmd, ttl)
	} else {
		r = rueidis.NewErrorResult(h.s.tag("hook"))
	}
	h.s.lastHook = canonRes(r)
	return r
}
func (h *countHook) DoMultiCache(c rueidis.Client, ctx context.Context, multi ...rueidis.CacheableTTL) []rueidis.RedisResult {
	ok := h.ctxOK(ctx) && len(multi) == len(h.s.mcache)
	for i := range multi {
		ok = ok && i < len(h.s.mcache) && multi[i].TTL == h.s.mcache[i].TTL &&
			sameCompleted(rueidis.Completed(multi[i].Cmd), rueidis.Completed(h.s.mcache[i].Cmd))
	}
	h.ev("DoMultiCache", c, ok)
	var rs []rueidis.RedisResult
	if h.s.fwd || h.fwd {
		rs = c.DoMultiCache(ctx, multi...)
	} else {
		rs = make([]rueidis.RedisResult, len(multi))
		for i := range rs {
			rs[i] = rueidis.NewErrorResult(h.s.tag("hook"))
		}
	}
	h.s.lastHook = canonMulti(rs)
	return rs
}
func (h *countHook) Receive(c rueidis.Client, ctx context.Context, subscribe rueidis.Completed, fn func(msg rueidis.PubSubMessage)) error {
	h.s.fnHit = false
	if fn != nil {
		fn(rueidis.PubSubMessage{Channel: "probe"})
	}
	h.ev("Receive", c, h.ctxOK(ctx) && sameCompleted(subscribe, h.s.cmd) && h.s.fnHit)
	var e error
	if h.s.fwd || h.fwd {
		e = c.Receive(ctx, subscribe, fn)
	} else {
		e = h.s.tag("hook")
	}
	h.s.lastHook = "err:" + e.Error()
	return e
}
func (h *countHook) DoStream(c rueidis.Client, ctx context.Context, cmd rueidis.Completed) rueidis.RedisResultStream {
	h.ev("DoStream", c, h.ctxOK(ctx) && sameCompleted(cmd, h.s.cmd))
	var r rueidis.RedisResultStream
	if h.s.fwd || h.fwd {
		r = c.DoStream(ctx, cmd)
	} else {
		r = rueidis.NewErrorResultStream(h.s.tag("hook"))
	}
	h.s.lastHook = canonStream(r)
	return r
}
func (h *countHook) DoMultiStream(c rueidis.Client, ctx context.Context, multi ...rueidis.Completed) rueidis.MultiRedisResultStream {
	ok := h.ctxOK(ctx) && len(multi) == len(h.s.multi)
	for i := range multi {
		ok = ok && i < len(h.s.multi) && sameCompleted(multi[i], h.s.multi[i])
	}
	h.ev("DoMultiStream", c, ok)
	var r rueidis.RedisResultStream
	if h.s.fwd || h.fwd {
		r = c.DoMultiStream(ctx, multi...)
	} else {
		r = rueidis.NewErrorResultStream(h.s.tag("hook"))
	}
	h.s.lastHook = canonStream(r)
	return r
}

// ---- ops

var hkMethods = []string{"B", "Do", "DoMulti", "Receive", "Close", "DoCache", "DoMultiCache", "DoStream", "DoMultiStream",
	"Dedicated", "Dedicate", "Nodes", "Mode", "SetPubSubHooks", "SetOnInvalidations"}
var hkEntry = map[string]bool{"Do": true, "DoMulti": true, "DoCache": true, "DoMultiCache": true, "Receive": true, "DoStream": true, "DoMultiStream": true}

func typeName(v any) string {
	t := fmt.Sprintf("%T", v)
	if i := strings.LastIndex(t, "."); i >= 0 {
		t = t[i+1:]
	}
	return t
}

// hkCall performs `method` on cur (a rueidis.Client or rueidis.DedicatedClient) and returns
// ("", false) if cur's static interface does not have the method, else the ret class.
func hkCall(s *hkState, cur any, m string, argc int) (ret string, has bool) {
	tok := new(int)
	s.ctxTok = tok
	ctx := context.WithValue(context.Background(), hkCtxKey{}, tok)
	if s.ctxDone {
		// an already cancelled context: the wrapper must still hand the request to the hook
		var cancel context.CancelFunc
		ctx, cancel = context.WithCancel(ctx)
		cancel()
	}
	b := cmds.NewBuilder(cmds.NoSlot)
	s.cmd = b.Get().Key("k").Build()
	s.multi = nil
	s.mcache = nil
	for i := 0; i < argc; i++ {
		s.multi = append(s.multi, b.Get().Key(fmt.Sprintf("k%d", i)).Build())
	}
	s.cache = b.Get().Key("c").Cache()
	s.ttl = 1234 * time.Millisecond
	for i := 0; i < argc; i++ {
		s.mcache = append(s.mcache, rueidis.CT(b.Get().Key(fmt.Sprintf("c%d", i)).Cache(), time.Duration(i+1)*time.Second))
	}
	s.innerBefore = 0
	for _, e := range s.evs {
		if strings.HasPrefix(e, "inner:") {
			s.innerBefore++
		}
	}
	fn := func(rueidis.PubSubMessage) { s.fnHit = true }
	s.lastHook, s.lastIn = "", ""
	hooksBefore := 0
	for _, e := range s.evs {
		if strings.HasPrefix(e, "hook") {
			hooksBefore++
		}
	}
	var got string
	cl, isClient := cur.(rueidis.Client)
	dc, isDed := cur.(rueidis.DedicatedClient)
	type core interface {
		B() rueidis.Builder
		Do(context.Context, rueidis.Completed) rueidis.RedisResult
		DoMulti(context.Context, ...rueidis.Completed) []rueidis.RedisResult
		Receive(context.Context, rueidis.Completed, func(rueidis.PubSubMessage)) error
		Close()
	}
	var co core
	if isClient {
		co = cl
	} else if isDed {
		co = dc
	} else {
		return "", false
	}
	switch m {
	case "B":
		got = fmt.Sprintf("builder:%v", co.B())
	case "Do":
		got = canonRes(co.Do(ctx, s.cmd))
	case "DoMulti":
		got = canonMulti(co.DoMulti(ctx, s.multi...))
	case "Receive":
		got = "err:" + errStr(co.Receive(ctx, s.cmd, fn))
	case "Close":
		co.Close()
		got = "void"
	case "DoCache", "DoMultiCache", "DoStream", "DoMultiStream", "Dedicated", "Dedicate", "Nodes", "Mode":
		if !isClient {
			return "", false
		}
		switch m {
		case "DoCache":
			got = canonRes(cl.DoCache(ctx, s.cache, s.ttl))
		case "DoMultiCache":
			got = canonMulti(cl.DoMultiCache(ctx, s.mcache...))
		case "DoStream":
			got = canonStream(cl.DoStream(ctx, s.cmd))
		case "DoMultiStream":
			got = canonStream(cl.DoMultiStream(ctx, s.multi...))
		case "Mode":
			got = "mode:" + string(cl.Mode())
		case "Dedicated":
			marker := errors.New("cb-result")
			var tn string
			e := cl.Dedicated(func(d rueidis.DedicatedClient) error { tn = typeName(d); return marker })
			if e != marker {
				return "other", true
			}
			return "wrapped:" + tn, true
		case "Dedicate":
			d, cancel := cl.Dedicate()
			before := s.cancels
			cancel()
			if s.cancels != before+1 {
				return "other", true
			}
			return "wrapped:" + typeName(d), true
		case "Nodes":
			ns := cl.Nodes()
			tn := ""
			if len(ns) != 2 {
				return "other", true
			}
			for _, k := range []string{"n1", "n2"} {
				v, ok := ns[k]
				if !ok {
					return "other", true
				}
				if tn != "" && tn != typeName(v) {
					return "other", true
				}
				tn = typeName(v)
			}
			return "wrapped:" + tn, true
		}
	case "SetPubSubHooks", "SetOnInvalidations":
		if !isDed || isClient {
			return "", false
		}
		if m == "SetPubSubHooks" {
			got = fmt.Sprintf("chan:%p", dc.SetPubSubHooks(rueidis.PubSubHooks{}))
		} else {
			got = fmt.Sprintf("chan:%p", dc.SetOnInvalidations(func([]rueidis.RedisMessage) {}))
		}
	default:
		return "", false
	}
	hooksAfter := 0
	for _, e := range s.evs {
		if strings.HasPrefix(e, "hook") {
			hooksAfter++
		}
	}
	switch {
	case hooksAfter > hooksBefore && got == s.lastHook:
		return "hook", true
	case hooksAfter == hooksBefore && got == s.lastIn:
		return "inner", true
	}
	return "other", true
}

// hkFollow derives a client along path; returns nil if a step is not offered by the interface.
func hkFollow(s *hkState, cur any, path []string, then func(cur any)) (ok bool) {
	if len(path) == 0 {
		then(cur)
		return true
	}
	cl, isClient := cur.(rueidis.Client)
	if !isClient {
		return false
	}
	switch path[0] {
	case "nodes":
		ns := cl.Nodes()
		pick := "n1"
		if len(path)%2 == 0 {
			pick = "n2"
		}
		nx, has := ns[pick]
		if !has {
			return false
		}
		return hkFollow(s, nx, path[1:], then)
	case "dedicate":
		d, cancel := cl.Dedicate()
		defer cancel()
		return hkFollow(s, d, path[1:], then)
	case "dedicated":
		res := false
		_ = cl.Dedicated(func(d rueidis.DedicatedClient) error {
			res = hkFollow(s, d, path[1:], then)
			return nil
		})
		return res
	}
	return false
}

func hookOp(c *Ctx, line string) {
	w := strings.Fields(line)
	if len(w) > 0 && (w[0] == "stack" || w[0] == "!stack") {
		stackOp(c, line)
		return
	}
	// hook <method> <argc> <path> <fwd>   |   !hook <method> <argc> <path>
	// (older spelling: call <path> <method> <fwd> | !call <path> <method>, three commands)
	ctxDone := false
	if n := len(w); n > 0 && strings.HasPrefix(w[n-1], "ctx=") {
		ctxDone = w[n-1] == "ctx=done"
		w = w[:n-1]
	}
	var m, pw string
	argc, fwd, oracle := 3, false, false
	switch {
	case len(w) == 5 && w[0] == "hook":
		m, pw, fwd = w[1], w[3], w[4] == "1"
		fmt.Sscan(w[2], &argc)
	case len(w) == 4 && w[0] == "!hook":
		m, pw, oracle = w[1], w[3], true
		fmt.Sscan(w[2], &argc)
	case len(w) >= 3 && w[0] == "call":
		pw, m, fwd = w[1], w[2], len(w) > 3 && w[3] == "1"
	case len(w) >= 3 && w[0] == "!call":
		pw, m, oracle = w[1], w[2], true
	default:
		c.Emit(line, "bad-op", false)
		return
	}
	var path []string
	if pw != "-" {
		path = strings.Split(pw, ",")
	}
	ans := func() (ans string) {
		s := &hkState{fwd: fwd, ctxDone: ctxDone}
		defer func() {
			if r := recover(); r != nil {
				ans = "log=" + logStr(s.evs) + " ret=panic"
			}
		}()
		s.root = &fakeInner{s: s, name: "root"}
		root := rueidishook.WithHook(s.root, &countHook{s: s})
		var ret string
		var has bool
		ok := hkFollow(s, root, path, func(cur any) { ret, has = hkCall(s, cur, m, argc) })
		if !ok {
			return "nopath"
		}
		if !has {
			return "nomethod"
		}
		if oracle {
			// oracle vocabulary: how often each hook method ran, whose result came back
			cnt := map[string]int{}
			for _, e := range s.evs {
				if strings.HasPrefix(e, "hook:") {
					name := e[5:strings.Index(e, "(")]
					cnt[name]++
					if strings.HasSuffix(e, "!args") {
						cnt["!args"]++
					}
				}
			}
			var parts []string
			for _, k := range append(append([]string{}, hkMethods...), "!args") {
				if cnt[k] > 0 {
					parts = append(parts, fmt.Sprintf("%s:%d", k, cnt[k]))
				}
			}
			if len(parts) == 0 {
				parts = []string{"-"}
			}
			inner := -s.innerBefore
			for _, e := range s.evs {
				if strings.HasPrefix(e, "inner:") {
					inner++
				}
			}
			if w[0] == "!call" {
				return "hooks=" + strings.Join(parts, ",") + " ret=" + ret
			}
			return fmt.Sprintf("hooks=%s inner=%d ret=%s", strings.Join(parts, ","), inner, ret)
		}
		return "log=" + logStr(s.evs) + " ret=" + ret
	}()
	key := ans
	if i := strings.LastIndex(ans, "ret="); i >= 0 {
		key = ans[i:]
	}
	c.Hit(w[0] + ":" + key)
	c.Emit(line, ans, len(path) > 0 && hkEntry[m] && ans != "nopath" && ans != "nomethod")
	if w[0] == "!hook" && hkEntry[m] && ans != "nopath" && ans != "nomethod" && ans != "hooks="+m+":1 inner=0 ret=hook" {
		key := "hook:misrouted:" + m
		if ctxDone {
			key = "hook:not-called:done-context:" + m
		}
		c.Fail(key, line, fmt.Sprintf("%s with %d command(s) on the client reached by path %q: %s; the property demands hooks=%s:1 inner=0 ret=hook (the same-named hook method exactly once with the caller's arguments, nothing else, its result returned)", m, argc, pw, ans, m))
	}
}

// stackOp: stacked hooks.  stack <depth> <method> <argc> <path>  |  !stack <depth> <method> <argc> <path>
func stackOp(c *Ctx, line string) {
	w := strings.Fields(line)
	ctxDone := false
	if n := len(w); n > 0 && strings.HasPrefix(w[n-1], "ctx=") {
		ctxDone = w[n-1] == "ctx=done"
		w = w[:n-1]
	}
	if len(w) != 5 {
		c.Emit(line, "bad-op", false)
		return
	}
	depth, argc := 1, 1
	fmt.Sscan(w[1], &depth)
	fmt.Sscan(w[3], &argc)
	m, pw := w[2], w[4]
	var path []string
	if pw != "-" {
		path = strings.Split(pw, ",")
	}
	oracle := w[0] == "!stack"
	expected := ""
	ans := func() (ans string) {
		s := &hkState{ctxDone: ctxDone}
		defer func() {
			if r := recover(); r != nil {
				ans = "log=" + logStr(s.evs) + " ret=panic"
			}
		}()
		s.root = &fakeInner{s: s, name: "root"}
		var cl rueidis.Client = s.root
		for l := 1; l <= depth; l++ {
			cl = rueidishook.WithHook(cl, &countHook{s: s, level: l, fwd: true})
		}
		var ret string
		var has bool
		ok := hkFollow(s, cl, path, func(cur any) { ret, has = hkCall(s, cur, m, argc) })
		if !ok {
			return "nopath"
		}
		if !has {
			return "nomethod"
		}
		if !oracle {
			return "log=" + logStr(s.evs) + " ret=" + ret
		}
		var order []string
		args, inner := "ok", -s.innerBefore
		for _, e := range s.evs {
			switch {
			case strings.HasPrefix(e, "hook@"):
				order = append(order, e[5:strings.Index(e, "(")])
				if strings.HasSuffix(e, "!args") {
					args = "bad"
				}
			case strings.HasPrefix(e, "inner:"):
				inner++
			}
		}
		var want []string
		for l := depth; l >= 1; l-- {
			want = append(want, fmt.Sprintf("%d:%s", l, m))
		}
		expected = "order=" + strings.Join(want, ",") + " args=ok inner=1 ret=hook"
		if len(order) == 0 {
			order = []string{"-"}
		}
		return fmt.Sprintf("order=%s args=%s inner=%d ret=%s", strings.Join(order, ","), args, inner, ret)
	}()
	c.Hit(fmt.Sprintf("%s:depth%d", w[0], depth))
	c.Emit(line, ans, depth > 1 && hkEntry[m] && ans != "nopath" && ans != "nomethod")
	if oracle && hkEntry[m] && expected != "" && ans != expected {
		key := "hook:level-skipped:" + pw
		if ctxDone {
			key = "hook:not-called:done-context:" + m
		}
		c.Fail(key, line, fmt.Sprintf("%d stacked hooks, %s with %d command(s) on the client reached by path %q: %s; the property demands %s (every level's same-named hook exactly once, outer to inner)", depth, m, argc, pw, ans, expected))
	}
}

func logStr(evs []string) string {
	if len(evs) == 0 {
		return "-"
	}
	return strings.Join(evs, ",")
}

func runHook(c *Ctx) {
	steps := []string{"nodes", "dedicate", "dedicated"}
	var paths [][]string
	var rec func(p []string, d int)
	rec = func(p []string, d int) {
		paths = append(paths, append([]string{}, p...))
		if d == 0 {
			return
		}
		for _, s := range steps {
			rec(append(append([]string{}, p...), s), d-1)
		}
	}
	rec(nil, 3)
	pstr := func(p []string) string {
		if len(p) == 0 {
			return "-"
		}
		return strings.Join(p, ",")
	}
	multiM := map[string]bool{"DoMulti": true, "DoMultiCache": true, "DoMultiStream": true}
	for _, p := range paths {
		for _, m := range hkMethods {
			argcs := []int{1}
			if multiM[m] {
				argcs = []int{0, 1, 2, 3, 17}
			}
			for _, n := range argcs {
				hookOp(c, fmt.Sprintf("hook %s %d %s 0", m, n, pstr(p)))
				hookOp(c, fmt.Sprintf("hook %s %d %s 1", m, n, pstr(p)))
				if hkEntry[m] {
					hookOp(c, fmt.Sprintf("!hook %s %d %s", m, n, pstr(p)))
					// the same with an already cancelled context
					hookOp(c, fmt.Sprintf("hook %s %d %s 0 ctx=done", m, n, pstr(p)))
					hookOp(c, fmt.Sprintf("hook %s %d %s 1 ctx=done", m, n, pstr(p)))
					hookOp(c, fmt.Sprintf("!hook %s %d %s ctx=done", m, n, pstr(p)))
				}
			}
		}
	}
	// stacked hooks: depth 2 and 3 (and 1 as the base case) x every path x every method
	for depth := 1; depth <= 3; depth++ {
		for _, p := range paths {
			for _, m := range hkMethods {
				if m == "Dedicated" || m == "Dedicate" || m == "Nodes" {
					continue // derivations are exercised as path steps
				}
				argcs := []int{1}
				if multiM[m] {
					argcs = []int{0, 1, 2}
				}
				for _, n := range argcs {
					hookOp(c, fmt.Sprintf("stack %d %s %d %s", depth, m, n, pstr(p)))
					if hkEntry[m] {
						hookOp(c, fmt.Sprintf("!stack %d %s %d %s", depth, m, n, pstr(p)))
						hookOp(c, fmt.Sprintf("stack %d %s %d %s ctx=done", depth, m, n, pstr(p)))
						hookOp(c, fmt.Sprintf("!stack %d %s %d %s ctx=done", depth, m, n, pstr(p)))
					}
				}
			}
		}
	}
	// deeper random paths: mostly nodes* followed by an optional dedicate/dedicated
	n := c.N
	for i := 0; i < n; i++ {
		k := c.Rng.IntN(9)
		var p []string
		for j := 0; j < k; j++ {
			if c.Rng.IntN(12) == 0 {
				p = append(p, steps[1+c.Rng.IntN(2)])
			} else {
				p = append(p, "nodes")
			}
		}
		if c.Rng.IntN(2) == 0 {
			p = append(p, steps[1+c.Rng.IntN(2)])
		}
		m := hkMethods[c.Rng.IntN(len(hkMethods))]
		n := c.Rng.IntN(5)
		if c.Rng.IntN(6) == 0 {
			n = 1 + c.Rng.IntN(40)
		}
		cx := ""
		if hkEntry[m] && c.Rng.IntN(2) == 0 {
			cx = " ctx=done"
		}
		hookOp(c, fmt.Sprintf("hook %s %d %s %d%s", m, n, pstr(p), c.Rng.IntN(2), cx))
		if hkEntry[m] {
			hookOp(c, fmt.Sprintf("!hook %s %d %s%s", m, n, pstr(p), cx))
		}
		depth := 2 + c.Rng.IntN(4)
		if m != "Dedicated" && m != "Dedicate" && m != "Nodes" {
			hookOp(c, fmt.Sprintf("stack %d %s %d %s", depth, m, n, pstr(p)))
		}
		if hkEntry[m] {
			hookOp(c, fmt.Sprintf("!stack %d %s %d %s", depth, m, n, pstr(p)))
		}
	}
}

func init() {
	suites["hook"] = suite{
		rule: "every derivation path over {nodes,dedicate,dedicated} up to length 3 (exhaustive) and random paths up to length 10, times every method of rueidis.Client/DedicatedClient (DoMulti/DoMultiCache/DoMultiStream with 0, 1, 2, 3 and 17 commands), with a non-forwarding and a forwarding counting hook on a mock inner client; the same with 2 and 3 (random: up to 5) STACKED forwarding hooks, judged per hook level; every entry point both with a live and with an already cancelled context; non-trivial = entry point called on a derived (non-root) client, distinct op",
		run:  runHook,
		replay: func(c *Ctx, lines []string) {
			for _, l := range lines {
				hookOp(c, l)
			}
		},
	}
}
