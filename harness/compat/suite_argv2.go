package main

// Second batch of the "argv" suite (C42): option-struct methods of the sorted-set,
// stream, sort and geo families, called on the real adapter with EVERY combination of
// their boolean flags and enumerated values for the other fields.

import (
	"context"
	"fmt"
	"strings"
	"time"

	"github.com/redis/rueidis/rueidiscompat"
)

var argvBatch2 = []string{"ZAdd", "ZAddNX", "ZAddXX", "ZAddLT", "ZAddGT", "ZAddArgs", "ZAddArgsIncr",
	"ZRangeArgs", "ZRangeArgsWithScores", "ZRangeStore", "ZRangeByScore", "ZRangeByLex", "ZRangeByScoreWithScores",
	"ZRevRangeByScore", "ZRevRangeByLex", "ZRevRangeByScoreWithScores", "ZInterStore", "ZUnionStore", "ZInter", "ZUnion",
	"ZInterWithScores", "ZUnionWithScores", "XAdd", "XTrimMaxLen", "XTrimMaxLenApprox", "XTrimMinID", "XTrimMinIDApprox",
	"XRead", "XReadGroup", "XPendingExt", "XAutoClaim", "XAutoClaimJustID", "Sort", "SortRO", "SortStore",
	"GeoSearch", "GeoSearchLocation", "GeoSearchStore"}

func zMembers(sc []int64, ms []string) []rueidiscompat.Z {
	var zs []rueidiscompat.Z
	for i := 0; i < len(sc) && i < len(ms); i++ {
		zs = append(zs, rueidiscompat.Z{Score: float64(sc[i]), Member: ms[i]})
	}
	return zs
}

func kinds(vs []aval) string {
	var b strings.Builder
	for _, v := range vs {
		b.WriteString(v.kind + " ")
	}
	return strings.TrimSpace(b.String())
}

// callAdapter2 performs the call for a second-batch method; handled=false if m is not one of them
// or the values do not have the method's layout.
func callAdapter2(ad rueidiscompat.Cmdable, m string, vs []aval) (handled bool) {
	ctx := context.Background()
	k := kinds(vs)
	geo := func(o int) rueidiscompat.GeoSearchQuery {
		return rueidiscompat.GeoSearchQuery{Member: vs[o].s, RadiusUnit: vs[o+1].s, BoxUnit: vs[o+2].s, Sort: vs[o+3].s,
			Longitude: float64(vs[o+4].i), Latitude: float64(vs[o+5].i), Radius: float64(vs[o+6].i),
			BoxWidth: float64(vs[o+7].i), BoxHeight: float64(vs[o+8].i), Count: vs[o+9].i, CountAny: vs[o+10].b}
	}
	switch m {
	case "ZAdd", "ZAddNX", "ZAddXX", "ZAddLT", "ZAddGT":
		if k != "s il l" {
			return false
		}
		zs := zMembers(vs[1].il, vs[2].l)
		switch m {
		case "ZAdd":
			ad.ZAdd(ctx, vs[0].s, zs...)
		case "ZAddNX":
			ad.ZAddNX(ctx, vs[0].s, zs...)
		case "ZAddXX":
			ad.ZAddXX(ctx, vs[0].s, zs...)
		case "ZAddLT":
			ad.ZAddLT(ctx, vs[0].s, zs...)
		case "ZAddGT":
			ad.ZAddGT(ctx, vs[0].s, zs...)
		}
	case "ZAddArgs", "ZAddArgsIncr":
		if k != "s b b b b b il l" {
			return false
		}
		a := rueidiscompat.ZAddArgs{NX: vs[1].b, XX: vs[2].b, LT: vs[3].b, GT: vs[4].b, Ch: vs[5].b, Members: zMembers(vs[6].il, vs[7].l)}
		if m == "ZAddArgs" {
			ad.ZAddArgs(ctx, vs[0].s, a)
		} else {
			ad.ZAddArgsIncr(ctx, vs[0].s, a)
		}
	case "ZRangeArgs", "ZRangeArgsWithScores":
		if k != "s s s b b b i i" {
			return false
		}
		z := rueidiscompat.ZRangeArgs{Key: vs[0].s, Start: vs[1].s, Stop: vs[2].s, ByScore: vs[3].b, ByLex: vs[4].b, Rev: vs[5].b, Offset: vs[6].i, Count: vs[7].i}
		if m == "ZRangeArgs" {
			ad.ZRangeArgs(ctx, z)
		} else {
			ad.ZRangeArgsWithScores(ctx, z)
		}
	case "ZRangeStore":
		if k != "s s s s b b b i i" {
			return false
		}
		ad.ZRangeStore(ctx, vs[0].s, rueidiscompat.ZRangeArgs{Key: vs[1].s, Start: vs[2].s, Stop: vs[3].s, ByScore: vs[4].b, ByLex: vs[5].b, Rev: vs[6].b, Offset: vs[7].i, Count: vs[8].i})
	case "ZRangeByScore", "ZRangeByLex", "ZRangeByScoreWithScores", "ZRevRangeByScore", "ZRevRangeByLex", "ZRevRangeByScoreWithScores":
		if k != "s s s i i" {
			return false
		}
		o := rueidiscompat.ZRangeBy{Min: vs[1].s, Max: vs[2].s, Offset: vs[3].i, Count: vs[4].i}
		switch m {
		case "ZRangeByScore":
			ad.ZRangeByScore(ctx, vs[0].s, o)
		case "ZRangeByLex":
			ad.ZRangeByLex(ctx, vs[0].s, o)
		case "ZRangeByScoreWithScores":
			ad.ZRangeByScoreWithScores(ctx, vs[0].s, o)
		case "ZRevRangeByScore":
			ad.ZRevRangeByScore(ctx, vs[0].s, o)
		case "ZRevRangeByLex":
			ad.ZRevRangeByLex(ctx, vs[0].s, o)
		case "ZRevRangeByScoreWithScores":
			ad.ZRevRangeByScoreWithScores(ctx, vs[0].s, o)
		}
	case "ZInterStore", "ZUnionStore":
		if k != "s l il s" {
			return false
		}
		st := rueidiscompat.ZStore{Keys: vs[1].l, Weights: vs[2].il, Aggregate: vs[3].s}
		if m == "ZInterStore" {
			ad.ZInterStore(ctx, vs[0].s, st)
		} else {
			ad.ZUnionStore(ctx, vs[0].s, st)
		}
	case "ZInter", "ZUnion", "ZInterWithScores", "ZUnionWithScores":
		if k != "l il s" {
			return false
		}
		st := rueidiscompat.ZStore{Keys: vs[0].l, Weights: vs[1].il, Aggregate: vs[2].s}
		switch m {
		case "ZInter":
			ad.ZInter(ctx, st)
		case "ZUnion":
			ad.ZUnion(ctx, st)
		case "ZInterWithScores":
			ad.ZInterWithScores(ctx, st)
		case "ZUnionWithScores":
			ad.ZUnionWithScores(ctx, st)
		}
	case "XAdd":
		if k != "s b i s b i s l" {
			return false
		}
		vals := append([]string{}, vs[7].l...)
		ad.XAdd(ctx, rueidiscompat.XAddArgs{Stream: vs[0].s, NoMkStream: vs[1].b, MaxLen: vs[2].i, MinID: vs[3].s, Approx: vs[4].b, Limit: vs[5].i, ID: vs[6].s, Values: vals})
	case "XTrimMaxLen":
		if k != "s i" {
			return false
		}
		ad.XTrimMaxLen(ctx, vs[0].s, vs[1].i)
	case "XTrimMaxLenApprox":
		if k != "s i i" {
			return false
		}
		ad.XTrimMaxLenApprox(ctx, vs[0].s, vs[1].i, vs[2].i)
	case "XTrimMinID":
		if k != "s s" {
			return false
		}
		ad.XTrimMinID(ctx, vs[0].s, vs[1].s)
	case "XTrimMinIDApprox":
		if k != "s s i" {
			return false
		}
		ad.XTrimMinIDApprox(ctx, vs[0].s, vs[1].s, vs[2].i)
	case "XRead":
		if k != "l i i" {
			return false
		}
		ad.XRead(ctx, rueidiscompat.XReadArgs{Streams: vs[0].l, Count: vs[1].i, Block: time.Duration(vs[2].i)})
	case "XReadGroup":
		if k != "s s l i i b" {
			return false
		}
		ad.XReadGroup(ctx, rueidiscompat.XReadGroupArgs{Group: vs[0].s, Consumer: vs[1].s, Streams: vs[2].l, Count: vs[3].i, Block: time.Duration(vs[4].i), NoAck: vs[5].b})
	case "XPendingExt":
		if k != "s s s s s i i" {
			return false
		}
		ad.XPendingExt(ctx, rueidiscompat.XPendingExtArgs{Stream: vs[0].s, Group: vs[1].s, Start: vs[2].s, End: vs[3].s, Consumer: vs[4].s, Idle: time.Duration(vs[5].i), Count: vs[6].i})
	case "XAutoClaim", "XAutoClaimJustID":
		if k != "s s s s i i" {
			return false
		}
		a := rueidiscompat.XAutoClaimArgs{Stream: vs[0].s, Group: vs[1].s, Start: vs[2].s, Consumer: vs[3].s, MinIdle: time.Duration(vs[4].i), Count: vs[5].i}
		if m == "XAutoClaim" {
			ad.XAutoClaim(ctx, a)
		} else {
			ad.XAutoClaimJustID(ctx, a)
		}
	case "Sort", "SortRO":
		if k != "s s s l i i b" {
			return false
		}
		so := rueidiscompat.Sort{By: vs[1].s, Order: vs[2].s, Get: vs[3].l, Offset: vs[4].i, Count: vs[5].i, Alpha: vs[6].b}
		if m == "Sort" {
			ad.Sort(ctx, vs[0].s, so)
		} else {
			ad.SortRO(ctx, vs[0].s, so)
		}
	case "SortStore":
		if k != "s s s s l i i b" {
			return false
		}
		ad.SortStore(ctx, vs[0].s, vs[1].s, rueidiscompat.Sort{By: vs[2].s, Order: vs[3].s, Get: vs[4].l, Offset: vs[5].i, Count: vs[6].i, Alpha: vs[7].b})
	case "GeoSearch":
		if k != "s s s s s i i i i i i b" {
			return false
		}
		ad.GeoSearch(ctx, vs[0].s, geo(1))
	case "GeoSearchLocation":
		if k != "s s s s s i i i i i i b b b b" {
			return false
		}
		ad.GeoSearchLocation(ctx, vs[0].s, rueidiscompat.GeoSearchLocationQuery{GeoSearchQuery: geo(1), WithCoord: vs[12].b, WithDist: vs[13].b, WithHash: vs[14].b})
	case "GeoSearchStore":
		if k != "s s s s s s i i i i i i b b" {
			return false
		}
		ad.GeoSearchStore(ctx, vs[0].s, vs[1].s, rueidiscompat.GeoSearchStoreQuery{GeoSearchQuery: geo(2), StoreDist: vs[13].b})
	default:
		return false
	}
	return true
}

// zRangeRevBy: the pinned divergence (go-redis swaps start/stop for REV+BYSCORE/BYLEX)
func zRangeRevBy(m string, vs []aval) bool {
	o := 0
	switch m {
	case "ZRangeArgs", "ZRangeArgsWithScores":
	case "ZRangeStore":
		o = 1
	default:
		return false
	}
	return len(vs) >= o+6 && vs[o+5].b && (vs[o+3].b || vs[o+4].b) && vs[o+1].s != vs[o+2].s
}

func runArgv2(c *Ctx, emit func(oracle bool, m string, vs ...aval)) {
	S := func(s string) aval { return aval{kind: "s", s: s} }
	I := func(i int64) aval { return aval{kind: "i", i: i} }
	B := func(b bool) aval { return aval{kind: "b", b: b} }
	Ls := func(xs ...string) aval { return aval{kind: "l", l: xs} }
	Li := func(xs ...int64) aval { return aval{kind: "il", il: xs} }
	bit := func(mask, i int) aval { return B(mask&(1<<i) != 0) }
	memberSets := [][2]aval{{Li(), Ls()}, {Li(1), Ls("u_a")}, {Li(1, -2, 300), Ls("u_a", "u_b", "u_")}}
	// --- ZADD family: all 32 flag combinations x INCR x member sets
	for mi, ms := range memberSets {
		for _, m := range []string{"ZAdd", "ZAddNX", "ZAddXX", "ZAddLT", "ZAddGT"} {
			emit(true, m, S("u_z"), ms[0], ms[1])
		}
		for mask := 0; mask < 32; mask++ {
			if mi == 0 && mask%5 != 0 && c.Tier == "quick" {
				continue
			}
			for _, m := range []string{"ZAddArgs", "ZAddArgsIncr"} {
				emit(true, m, S("u_z"), bit(mask, 0), bit(mask, 1), bit(mask, 2), bit(mask, 3), bit(mask, 4), ms[0], ms[1])
			}
		}
	}
	// --- ZRANGE family: ByScore x ByLex x Rev x (offset,count) x ranges
	ranges := [][2]string{{"0", "-1"}, {"(1", "4"}, {"[A", "(B"}, {"+", "-"}, {"3", "3"}}
	lims := [][2]int64{{0, 0}, {1, 2}, {0, 5}, {3, 0}, {-1, -1}}
	for mask := 0; mask < 8; mask++ {
		for ri, r := range ranges {
			for li, l := range lims {
				if c.Tier == "quick" && (ri+li+mask)%2 != 0 {
					continue
				}
				vs := []aval{S("u_z"), S(r[0]), S(r[1]), bit(mask, 0), bit(mask, 1), bit(mask, 2), I(l[0]), I(l[1])}
				revBy := zRangeRevBy("ZRangeArgs", vs)
				emit(!revBy, "ZRangeArgs", vs...)
				emit(!revBy, "ZRangeArgsWithScores", vs...)
				emit(!revBy, "ZRangeStore", append([]aval{S("u_dst")}, vs...)...)
			}
		}
	}
	for _, r := range ranges {
		for _, l := range lims {
			for _, m := range []string{"ZRangeByScore", "ZRangeByLex", "ZRangeByScoreWithScores", "ZRevRangeByScore", "ZRevRangeByLex", "ZRevRangeByScoreWithScores"} {
				emit(true, m, S("u_z"), S(r[0]), S(r[1]), I(l[0]), I(l[1]))
			}
		}
	}
	// --- ZINTER/ZUNION family
	for _, ks := range []aval{Ls("u_a"), Ls("u_a", "u_b"), Ls("u_a", "u_b", "u_c"), Ls()} {
		for _, ws := range []aval{Li(), Li(2), Li(2, 3), Li(1, 0, -1)} {
			for _, ag := range []string{"", "SUM", "MIN", "MAX", "sum", "max"} {
				emit(true, "ZInterStore", S("u_d"), ks, ws, S(ag))
				emit(true, "ZUnionStore", S("u_d"), ks, ws, S(ag))
				for _, m := range []string{"ZInter", "ZUnion", "ZInterWithScores", "ZUnionWithScores"} {
					emit(true, m, ks, ws, S(ag))
				}
			}
		}
	}
	// --- XADD: NoMkStream x Approx x MaxLen x MinID x Limit x ID
	for mask := 0; mask < 4; mask++ {
		for _, ml := range []int64{0, 100, -1} {
			for _, mid := range []string{"", "5-0"} {
				for _, lim := range []int64{0, 10, -3} {
					for _, id := range []string{"", "7-1", "*"} {
						for _, vals := range []aval{Ls("u_f", "u_v"), Ls("u_f", "u_v", "u_g", "u_")} {
							emit(true, "XAdd", S("u_s"), bit(mask, 0), I(ml), S(mid), bit(mask, 1), I(lim), S(id), vals)
						}
					}
				}
			}
		}
	}
	for _, n := range []int64{0, 1, 1000} {
		emit(true, "XTrimMaxLen", S("u_s"), I(n))
		emit(true, "XTrimMinID", S("u_s"), S(fmt.Sprintf("%d-0", n)))
		for _, lim := range []int64{0, 5, -1} {
			emit(true, "XTrimMaxLenApprox", S("u_s"), I(n), I(lim))
			emit(true, "XTrimMinIDApprox", S("u_s"), S(fmt.Sprintf("%d-0", n)), I(lim))
		}
	}
	// --- XREAD / XREADGROUP: Count x Block x NoAck
	blocks := []int64{-1, -1000000000, 0, 1000000, 1500000, 2000000000, 500000}
	for _, ss := range []aval{Ls("u_s1", "0"), Ls("u_s1", "u_s2", "$", ">"), Ls("u_s1", "u_s2", "u_s3", "0", "1-1", "$")} {
		for _, cnt := range []int64{0, 1, 50, -2} {
			for _, b := range blocks {
				subMs := b > 0 && b < 1000000
				emit(!subMs, "XRead", ss, I(cnt), I(b))
				emit(!subMs, "XReadGroup", S("u_g"), S("u_c"), ss, I(cnt), I(b), B(false))
				emit(!subMs, "XReadGroup", S("u_g"), S("u_c"), ss, I(cnt), I(b), B(true))
			}
		}
	}
	for _, cons := range []string{"", "u_c"} {
		for _, idle := range []int64{0, 1000000, 2500000, -1000000, 999} {
			for _, cnt := range []int64{0, 10} {
				subMs := idle > 0 && idle < 1000000
				emit(!subMs, "XPendingExt", S("u_s"), S("u_g"), S("-"), S("+"), S(cons), I(idle), I(cnt))
			}
		}
	}
	for _, mi := range []int64{0, 999, 1000000, 1500000, 3000000000} {
		for _, cnt := range []int64{0, 1, 25, -1} {
			emit(true, "XAutoClaim", S("u_s"), S("u_g"), S("0-0"), S("u_c"), I(mi), I(cnt))
			emit(true, "XAutoClaimJustID", S("u_s"), S("u_g"), S("0-0"), S("u_c"), I(mi), I(cnt))
		}
	}
	// --- SORT: By x Order x Get x (Offset,Count) x Alpha
	for _, by := range []string{"", "u_w_*"} {
		for _, ord := range []string{"", "ASC", "DESC", "asc", "desc", "zz"} {
			for _, gets := range []aval{Ls(), Ls("u_#"), Ls("u_#", "u_o_*->f")} {
				for _, l := range lims {
					for _, al := range []bool{false, true} {
						ok := ord != "zz" // the adapter refuses unknown orders, go-redis forwards them
						emit(ok, "Sort", S("u_k"), S(by), S(ord), gets, I(l[0]), I(l[1]), B(al))
						emit(ok, "SortRO", S("u_k"), S(by), S(ord), gets, I(l[0]), I(l[1]), B(al))
						emit(ok, "SortStore", S("u_k"), S("u_dst"), S(by), S(ord), gets, I(l[0]), I(l[1]), B(al))
					}
				}
			}
		}
	}
	// --- GEOSEARCH family: member/lonlat x radius/box x units x sort x count/any x with-flags
	for _, mb := range []string{"", "u_m"} {
		for _, rad := range []int64{0, 200} {
			for _, unit := range []string{"", "KM", "m", "MI", "ft"} {
				for _, so := range []string{"", "ASC", "desc"} {
					for _, cnt := range []int64{0, 3} {
						for _, any := range []bool{false, true} {
							q := []aval{S(mb), S(unit), S(unit), S(so), I(15), I(-37), I(rad), I(400), I(100), I(cnt), B(any)}
							emit(true, "GeoSearch", append([]aval{S("u_k")}, q...)...)
							emit(true, "GeoSearchStore", append(append([]aval{S("u_src"), S("u_dst")}, q...), B(any))...)
							for mask := 0; mask < 8; mask++ {
								if c.Tier == "quick" && mask != 0 && mask != 5 && mask != 7 {
									continue
								}
								emit(true, "GeoSearchLocation", append(append([]aval{S("u_k")}, q...), bit(mask, 0), bit(mask, 1), bit(mask, 2))...)
							}
						}
					}
				}
			}
		}
	}
}
