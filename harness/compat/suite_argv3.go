package main

// Third part of the "argv" suite (C42): VALUE ENCODING of `any` arguments.
//   anyv  M <type> <fields…>  → raw argv of adapter method M called with a real Go value of that type
//   !anyv M <type> <fields…>  → the same, normalised, against go-redis' WriteArg transcription
// The op line names the Go type and carries the strings produced by the Go standard library for
// that value (strconv 'f' -1 64, fmt %v, time RFC3339Nano, MarshalBinary, IP.String) as oracle
// strings, so that the Lean side can recompute what each library is specified to send.

import (
	"context"
	"errors"
	"fmt"
	"math"
	"net"
	"strconv"
	"strings"
	"time"

	"github.com/redis/rueidis/rueidiscompat"
)

type bmVal struct {
	Data []byte
	Fail bool
}

func (b bmVal) MarshalBinary() ([]byte, error) {
	if b.Fail {
		return nil, errors.New("bm fail")
	}
	return b.Data, nil
}

type strOnly struct{ s string }

func (s strOnly) String() string { return "S<" + s.s + ">" }

// where the value token(s) sit in the argv of each method: first index, count
var anyPos = map[string][2]int{"Set": {2, 1}, "SetNX": {2, 1}, "SetXX": {2, 1}, "SetEX": {3, 1}, "GetSet": {2, 1}, "Echo": {1, 1},
	"HSet": {3, 1}, "HMSet": {3, 1}, "HSetNX": {3, 1}, "MSet": {2, 1}, "MSetNX": {2, 1}, "RPush": {3, 1}, "LPush": {3, 1},
	"RPushX": {3, 1}, "LPushX": {3, 1}, "SAdd": {3, 1}, "SRem": {3, 1}, "SIsMember": {2, 1}, "PFAdd": {3, 1}, "LInsert": {3, 2},
	"LRem": {3, 1}, "LSet": {3, 1}, "Publish": {2, 1}, "XAdd": {4, 1}, "Eval": {5, 1}}

var anyMethodList = []string{"Set", "SetNX", "SetXX", "SetEX", "GetSet", "Echo", "HSet", "HMSet", "HSetNX", "MSet",
	"MSetNX", "RPush", "LPush", "RPushX", "LPushX", "SAdd", "SRem", "SIsMember", "PFAdd", "LInsert", "LRem", "LSet",
	"Publish", "XAdd", "Eval"}

func callAny(m string, v any) (argv []string, ok bool) {
	fc := &captureClient{}
	ad := rueidiscompat.NewAdapter(fc)
	ctx := context.Background()
	defer func() {
		if r := recover(); r != nil {
			argv, ok = nil, true
			if len(fc.sent) == 1 {
				argv = fc.sent[0]
			}
		}
	}()
	k := "u_k"
	switch m {
	case "Set":
		ad.Set(ctx, k, v, 0)
	case "SetNX":
		ad.SetNX(ctx, k, v, 0)
	case "SetXX":
		ad.SetXX(ctx, k, v, 0)
	case "SetEX":
		ad.SetEX(ctx, k, v, 10*time.Second)
	case "GetSet":
		ad.GetSet(ctx, k, v)
	case "Echo":
		ad.Echo(ctx, v)
	case "HSet":
		ad.HSet(ctx, k, "u_f", v)
	case "HMSet":
		ad.HMSet(ctx, k, "u_f", v)
	case "HSetNX":
		ad.HSetNX(ctx, k, "u_f", v)
	case "MSet":
		ad.MSet(ctx, k, v)
	case "MSetNX":
		ad.MSetNX(ctx, k, v)
	case "RPush":
		ad.RPush(ctx, k, "u_a", v)
	case "LPush":
		ad.LPush(ctx, k, "u_a", v)
	case "RPushX":
		ad.RPushX(ctx, k, "u_a", v)
	case "LPushX":
		ad.LPushX(ctx, k, "u_a", v)
	case "SAdd":
		ad.SAdd(ctx, k, "u_a", v)
	case "SRem":
		ad.SRem(ctx, k, "u_a", v)
	case "SIsMember":
		ad.SIsMember(ctx, k, v)
	case "PFAdd":
		ad.PFAdd(ctx, k, "u_a", v)
	case "LInsert":
		ad.LInsert(ctx, k, "BEFORE", v, v)
	case "LRem":
		ad.LRem(ctx, k, 1, v)
	case "LSet":
		ad.LSet(ctx, k, 0, v)
	case "Publish":
		ad.Publish(ctx, "u_ch", v)
	case "XAdd":
		ad.XAdd(ctx, rueidiscompat.XAddArgs{Stream: k, Values: []any{"u_f", v}})
	case "Eval":
		ad.Eval(ctx, "u_script", []string{k}, "u_a", v)
	default:
		return nil, false
	}
	if len(fc.sent) != 1 || len(fc.bypass) > 0 {
		return nil, true
	}
	return fc.sent[0], true
}

// anyDesc renders a Go value as the op-line description (type + canonical fields + oracle strings).
func anyDesc(v any) string {
	switch x := v.(type) {
	case nil:
		return "nil"
	case string:
		return "str " + hx(x)
	case []byte:
		return "bytes " + hx(string(x))
	case int:
		return "int " + strconv.FormatInt(int64(x), 10)
	case int8:
		return "int " + strconv.FormatInt(int64(x), 10)
	case int16:
		return "int " + strconv.FormatInt(int64(x), 10)
	case int32:
		return "int " + strconv.FormatInt(int64(x), 10)
	case int64:
		return "int " + strconv.FormatInt(x, 10)
	case uint:
		return "int " + strconv.FormatUint(uint64(x), 10)
	case uint8:
		return "int " + strconv.FormatUint(uint64(x), 10)
	case uint16:
		return "int " + strconv.FormatUint(uint64(x), 10)
	case uint32:
		return "int " + strconv.FormatUint(uint64(x), 10)
	case uint64:
		return "int " + strconv.FormatUint(x, 10)
	case float64:
		return fmt.Sprintf("f64 %d %s %s", math.Float64bits(x), hx(strconv.FormatFloat(x, 'f', -1, 64)), hx(fmt.Sprint(x)))
	case float32:
		return fmt.Sprintf("f32 %d %s %s", math.Float32bits(x), hx(strconv.FormatFloat(float64(x), 'f', -1, 64)), hx(fmt.Sprint(x)))
	case bool:
		if x {
			return "bool 1"
		}
		return "bool 0"
	case time.Duration:
		return "dur " + strconv.FormatInt(int64(x), 10)
	case time.Time:
		b, err := x.MarshalBinary()
		if err != nil {
			b = nil
		}
		return "time " + hx(x.Format(time.RFC3339Nano)) + " " + hx(string(b))
	case bmVal:
		ok := "1"
		if x.Fail {
			ok = "0"
		}
		return "bm " + hx(string(x.Data)) + " " + hx(fmt.Sprint(x)) + " " + ok
	case net.IP:
		return "ip " + hx(string(x)) + " " + hx(x.String())
	case strOnly:
		return "stringer " + hx(fmt.Sprint(x))
	}
	return ""
}

// anyFromDesc rebuilds the Go value from a description (for replay).
func anyFromDesc(w []string) (v any, kind string, ok bool) {
	if len(w) == 0 {
		return nil, "", false
	}
	switch w[0] {
	case "nil":
		return nil, "nil", true
	case "str":
		return unhx(w[1]), "str", true
	case "bytes":
		return []byte(unhx(w[1])), "bytes", true
	case "int":
		if n, err := strconv.ParseInt(w[1], 10, 64); err == nil {
			return n, "int", true
		}
		n, err := strconv.ParseUint(w[1], 10, 64)
		return n, "int", err == nil
	case "f64":
		b, err := strconv.ParseUint(w[1], 10, 64)
		return math.Float64frombits(b), "f64", err == nil
	case "f32":
		b, err := strconv.ParseUint(w[1], 10, 32)
		return math.Float32frombits(uint32(b)), "f32", err == nil
	case "bool":
		return w[1] == "1", "bool", true
	case "dur":
		n, err := strconv.ParseInt(w[1], 10, 64)
		return time.Duration(n), "dur", err == nil
	case "time":
		var t time.Time
		if err := t.UnmarshalBinary([]byte(unhx(w[2]))); err != nil {
			pt, err2 := time.Parse(time.RFC3339Nano, unhx(w[1]))
			return pt, "time", err2 == nil
		}
		return t, "time", true
	case "bm":
		return bmVal{Data: []byte(unhx(w[1])), Fail: w[3] == "0"}, "bm", true
	case "ip":
		return net.IP(unhx(w[1])), "ip", true
	case "stringer":
		t := unhx(w[1])
		return strOnly{s: strings.TrimSuffix(strings.TrimPrefix(t, "S<"), ">")}, "stringer", true
	}
	return nil, "", false
}

func anyvOp(c *Ctx, line string) {
	w := strings.Fields(line)
	if len(w) == 1 && w[0] == "anymethods" {
		c.Emit(line, fmt.Sprint(len(anyMethodList)), false)
		return
	}
	if len(w) < 3 {
		c.Emit(line, "bad-op", false)
		return
	}
	v, kind, ok := anyFromDesc(w[2:])
	pos, known := anyPos[w[1]]
	if !ok || !known {
		c.Emit(line, "bad-op", false)
		return
	}
	// the description must describe the rebuilt value (guards the oracle strings on replay)
	if d := anyDesc(v); d != strings.Join(w[2:], " ") && kind != "int" {
		c.Emit(line, "bad-op:desc", false)
		return
	}
	argv, _ := callAny(w[1], v)
	c.Hit(w[0] + ":" + kind)
	if argv == nil {
		c.Emit(line, "nothing", false)
		return
	}
	toks := append([]string{}, argv...)
	if w[0] == "!anyv" {
		for i := range toks {
			if i >= pos[0] && i < pos[0]+pos[1] {
				if kind == "f64" { // equivalent numeric spelling of the same double
					if f, err := strconv.ParseFloat(toks[i], 64); err == nil {
						toks[i] = strconv.FormatFloat(f, 'f', -1, 64)
					}
				}
				continue
			}
			toks[i] = normToken(toks[i])
		}
	}
	hs := make([]string, len(toks))
	for i, t := range toks {
		hs[i] = hx(t)
	}
	c.Emit(line, "argv:"+strings.Join(hs, ","), kind != "str")
}

func runAnyv(c *Ctx) {
	anyvOp(c, "anymethods")
	ist := time.FixedZone("IST", 5*3600+1800)
	pst := time.FixedZone("", -8*3600)
	vals := []any{
		nil, "hello", "", "u_v", "NX", "ünï\x00", []byte{}, []byte{0, 255, 10, 13}, []byte("abc"),
		int(0), int(-1), int(math.MaxInt64), int(math.MinInt64), int8(-128), int8(127), int16(-32768), int32(math.MinInt32), int64(1 << 40),
		uint(0), uint(math.MaxUint64), uint8(255), uint16(65535), uint32(math.MaxUint32), uint64(1 << 63),
		float64(0), math.Copysign(0, -1), float64(1), 0.1, 1e20, 1e21, 1e-7, 0.0001, 0.00001, 123456789.125, 5e-324, math.MaxFloat64,
		math.Inf(1), math.Inf(-1), math.NaN(), -2.5, 1.0 / 3.0,
		true, false,
		time.Unix(1700000000, 0).UTC(), time.Unix(1700000000, 500000000).UTC(), time.Unix(1700000000, 123456789).In(ist),
		time.Unix(-1, 999999999).In(pst), time.Time{}, time.Date(2024, 2, 29, 23, 59, 59, 1, ist), time.Unix(1700000000, 120000000).In(pst),
		time.Duration(0), time.Nanosecond, -time.Nanosecond, 1500 * time.Millisecond, time.Duration(math.MaxInt64), time.Duration(math.MinInt64),
		bmVal{Data: []byte("payload")}, bmVal{Data: []byte{1, 0, 0, 0, 14}}, bmVal{Data: nil},
	}
	// values on which the libraries are NOT expected to agree: ordinary line only, counted as observations
	observed := []any{
		float32(0.1), float32(16777216), float32(1e10), float32(3.4e38), float32(0.5),
		net.IP{127, 0, 0, 1}, net.ParseIP("10.1.2.3"), net.ParseIP("2001:db8::1"),
		strOnly{"x"}, bmVal{Data: []byte("p"), Fail: true},
	}
	for i := 0; i < 20+c.N/10; i++ {
		vals = append(vals, math.Float64frombits(c.Rng.Uint64()))
		vals = append(vals, time.Unix(int64(c.Rng.IntN(2000000000)), int64(c.Rng.IntN(1000000000))).In(time.FixedZone("", (c.Rng.IntN(27)-12)*1800)))
		observed = append(observed, math.Float32frombits(c.Rng.Uint32()))
	}
	for _, m := range anyMethodList {
		for _, v := range vals {
			d := anyDesc(v)
			anyvOp(c, "anyv "+m+" "+d)
			anyvOp(c, "!anyv "+m+" "+d)
		}
		for _, v := range observed {
			anyvOp(c, "anyv "+m+" "+anyDesc(v))
		}
	}
	// observations (no op lines: not reproducible text or outside the modelled sum type)
	s := "p"
	if argv, _ := callAny("Set", &s); len(argv) == 3 && strings.HasPrefix(argv[2], "0x") {
		c.Hit("observation:pointer-sent-as-address(go-redis>=9.6 dereferences *string)")
	}
	if argv, _ := callAny("RPush", time.Unix(1, 0)); argv != nil {
		c.Hit("observation:variadic-any(" + strings.Join(argv, " ") + ")")
	}
	fc := &captureClient{}
	rueidiscompat.NewAdapter(fc).RPush(context.Background(), "u_k", time.Unix(1700000000, 0).UTC())
	if len(fc.sent) == 1 {
		c.Hit(fmt.Sprintf("observation:single-time.Time-variadic-sends-%d-tokens(go-redis sends the RFC3339 text; adapter scans it as a struct)", len(fc.sent[0])))
	}
}
