package main

// Suite "pipe" (C41): end-to-end episodes on the REAL rueidiscompat Pipeline /
// TxPipeline over a scripted fake rueidis.Client. Every queued command carries
// a label in its key; the fake answers a command with a value tagged by the
// label found in ITS argv (or with the scripted error / nil / connection error),
// EXEC with an array / nil / error. The answer lists the batch that reached the
// client, the returned error and, for every returned Cmder, which call it was
// handed out by and whose value it now holds.

import (
	"context"
	"errors"
	"fmt"
	"regexp"
	"strconv"
	"strings"

	"github.com/redis/rueidis"
	"github.com/redis/rueidis/mock"
	"github.com/redis/rueidis/rueidiscompat"
)

type netErr struct{ msg string }

func (e *netErr) Error() string { return "net:" + e.msg }

var labelRe = regexp.MustCompile(`^k(\d+)$`)

func labelOf(argv []string) int {
	for _, a := range argv {
		if m := labelRe.FindStringSubmatch(a); m != nil {
			n, _ := strconv.Atoi(m[1])
			return n
		}
	}
	return 0
}

func valueFor(argv []string, tag int) rueidis.RedisMessage {
	name := ""
	if len(argv) > 0 {
		name = strings.ToUpper(argv[0])
	}
	switch name {
	case "SET":
		return mock.RedisString(strconv.Itoa(tag))
	case "INCR", "DEL", "BITCOUNT":
		return mock.RedisInt64(int64(tag))
	case "MULTI":
		return mock.RedisString("OK")
	}
	return mock.RedisBlobString(strconv.Itoa(tag))
}

func msgFor(w string, argv []string, tag int) (rueidis.RedisMessage, bool) {
	switch {
	case w == "v":
		return valueFor(argv, tag), true
	case w == "n":
		return mock.RedisNil(), true
	case strings.HasPrefix(w, "e:"):
		return mock.RedisError(unhx(w[2:])), true
	}
	return rueidis.RedisMessage{}, false
}

func resFor(w string, argv []string, tag int) rueidis.RedisResult {
	if strings.HasPrefix(w, "x:") {
		return rueidis.NewErrorResult(&netErr{unhx(w[2:])})
	}
	m, ok := msgFor(w, argv, tag)
	if !ok {
		panic("bad reply spec " + w)
	}
	return mock.Result(m)
}

func errName(err error) string {
	if err == nil {
		return "-"
	}
	var ne *netErr
	switch {
	case errors.Is(err, rueidiscompat.TxFailedErr):
		return "txfailed"
	case errors.As(err, &ne):
		return "net:" + hx(ne.msg)
	case rueidis.IsRedisNil(err):
		return "nil"
	case err.Error() == "the pipeline has not been executed":
		return "notexec"
	}
	if re, ok := rueidis.IsRedisErr(err); ok {
		return "redis:" + hx(re.Error())
	}
	if strings.Contains(err.Error(), "is not a array") || strings.Contains(err.Error(), "is not an array") {
		return "notarray"
	}
	return "other:" + hx(err.Error())
}

func cmderState(c rueidiscompat.Cmder) string {
	if err := c.Err(); err != nil {
		return "err:" + errName(err)
	}
	switch v := c.(type) {
	case *rueidiscompat.StringCmd:
		return "ok:" + v.Val()
	case *rueidiscompat.IntCmd:
		return "ok:" + strconv.FormatInt(v.Val(), 10)
	case *rueidiscompat.Cmd:
		if v.Val() == nil {
			return "ok:-" // a Cmd made by Pipeline.Do that never received a reply
		}
		return "ok:" + fmt.Sprint(v.Val())
	}
	return fmt.Sprintf("ok:?%T", c)
}

type pipeEp struct {
	tx     bool
	fc     *sweepClient
	p      rueidiscompat.Pipeliner
	labels map[rueidiscompat.Cmder]int
	held   [][]rueidiscompat.Cmder // the slices returned by the Execs of this episode, kept by the caller
	heldAt []string                // what each of them held when Exec returned (oracle vocabulary)
}

func newPipeEp(tx bool) *pipeEp {
	fc := &sweepClient{}
	ad := rueidiscompat.NewAdapter(fc)
	ep := &pipeEp{tx: tx, fc: fc, labels: map[rueidiscompat.Cmder]int{}}
	if tx {
		ep.p = ad.TxPipeline()
	} else {
		ep.p = ad.Pipeline()
	}
	return ep
}

func (ep *pipeEp) queue(kind string, label int, n int) {
	ctx := context.Background()
	key := fmt.Sprintf("k%d", label)
	var ret rueidiscompat.Cmder
	func() {
		defer func() { _ = recover() }()
		switch kind {
		case "get":
			ret = ep.p.Get(ctx, key)
		case "set":
			ret = ep.p.Set(ctx, key, "v", 0)
		case "incr":
			ret = ep.p.Incr(ctx, key)
		case "echo":
			ret = ep.p.Echo(ctx, key)
		case "del":
			ret = ep.p.Del(ctx, key, key+"-b")
		case "bitcount":
			ret = ep.p.BitCount(ctx, key, &rueidiscompat.BitCount{Start: 0, End: 1, Unit: "BYTE"})
		case "bitcountbad":
			ret = ep.p.BitCount(ctx, key, &rueidiscompat.BitCount{Start: 0, End: 1, Unit: "k"})
		case "setbad":
			ret = ep.p.SetArgs(ctx, key, "v", rueidiscompat.SetArgs{Mode: "zz"})
		case "do":
			args := []any{}
			if n >= 1 {
				args = append(args, "CMD")
			}
			if n >= 2 {
				args = append(args, key)
			}
			for i := 2; i < n; i++ {
				args = append(args, i)
			}
			if n == 1 {
				args[0] = key // a bare command name that carries the label
			}
			ret = ep.p.Do(ctx, args...)
		}
	}()
	if ret != nil {
		ep.labels[ret] = label
	}
}

func (ep *pipeEp) exec(words []string, oracle bool) (ans string) {
	qs, ex := words, ""
	for i, w := range words {
		if w == "|" {
			qs = words[:i]
			if i+1 < len(words) {
				ex = words[i+1]
			}
			break
		}
	}
	ep.fc.batches = nil
	ep.fc.reply = func(i int, argv []string) rueidis.RedisResult {
		spec := "v"
		if i < len(qs) {
			spec = qs[i]
		}
		if !ep.tx {
			return resFor(spec, argv, labelOf(argv))
		}
		if len(argv) == 1 && argv[0] == "EXEC" {
			batch := ep.fc.cur
			if ex == "" {
				ex = "n"
			}
			if strings.HasPrefix(ex, "a:") {
				var elems []rueidis.RedisMessage
				if ex != "a:" {
					for j, e := range strings.Split(ex[2:], ",") {
						var av []string
						if j+1 < len(batch) {
							av = batch[j+1]
						}
						tag := labelOf(av)
						if len(av) == 1 && (av[0] == "EXEC" || av[0] == "MULTI") {
							tag = 0
						}
						m, ok := msgFor(e, av, tag)
						if !ok {
							panic("bad exec element " + e)
						}
						elems = append(elems, m)
					}
				}
				return mock.Result(mock.RedisArray(elems...))
			}
			return resFor(ex, []string{"GET"}, 0)
		}
		if spec == "v" {
			if len(argv) == 1 && argv[0] == "MULTI" {
				return mock.Result(mock.RedisString("OK"))
			}
			return mock.Result(mock.RedisString("QUEUED"))
		}
		return resFor(spec, argv, 0)
	}
	var rets []rueidiscompat.Cmder
	var err error
	if !oracle {
		// the caller keeps the returned slice (also when Exec panicked: nothing was returned)
		defer func() {
			ep.held = append(ep.held, rets)
			ep.heldAt = append(ep.heldAt, ep.heldStr(rets, true))
		}()
	}
	defer func() {
		if r := recover(); r != nil {
			rets = nil
			ans = fmt.Sprintf("panic len=%d", ep.p.Len())
		}
	}()
	rets, err = ep.p.Exec(context.Background())
	sent := "-"
	if len(ep.fc.batches) > 1 {
		return "more-than-one-batch"
	}
	if len(ep.fc.batches) == 1 {
		var parts []string
		for _, av := range ep.fc.batches[0] {
			switch {
			case len(av) == 1 && av[0] == "MULTI":
				parts = append(parts, "M")
			case len(av) == 1 && av[0] == "EXEC":
				parts = append(parts, "E")
			default:
				parts = append(parts, strconv.Itoa(labelOf(av)))
			}
		}
		sent = strings.Join(parts, ",")
	}
	rs := "-"
	if rets == nil {
		rs = "nil"
	} else if len(rets) > 0 {
		var parts []string
		for _, r := range rets {
			l, ok := ep.labels[r]
			ls := strconv.Itoa(l)
			if !ok {
				ls = "?"
			}
			st := cmderState(r)
			if oracle && (st == "ok:-" || st == "err:notexec") {
				st = "none" // oracle vocabulary: the command received no result
			}
			parts = append(parts, ls+":"+st)
		}
		rs = strings.Join(parts, ";")
	}
	return fmt.Sprintf("sent=%s err=%s rets=%s len=%d", sent, errName(err), rs, ep.p.Len())
}

// heldStr renders a result slice as it is NOW: which call handed out each element and what it holds.
func (ep *pipeEp) heldStr(rets []rueidiscompat.Cmder, oracle bool) string {
	if len(rets) == 0 {
		return "rets=-"
	}
	var parts []string
	for _, r := range rets {
		l, ok := ep.labels[r]
		ls := strconv.Itoa(l)
		if !ok {
			ls = "?"
		}
		st := cmderState(r)
		if oracle && (st == "ok:-" || st == "err:notexec") {
			st = "none"
		}
		parts = append(parts, ls+":"+st)
	}
	return "rets=" + strings.Join(parts, ";")
}

func pipeOps(c *Ctx, lines []string) {
	var ep *pipeEp
	for _, line := range lines {
		w := strings.Fields(line)
		if len(w) == 0 {
			continue
		}
		if ep == nil && w[0] != "reset" {
			ep = newPipeEp(false)
		}
		switch w[0] {
		case "reset":
			ep = newPipeEp(len(w) > 1 && w[1] == "tx")
			c.Emit(line, "ok", false)
		case "q":
			label, _ := strconv.Atoi(w[2])
			n := 0
			if len(w) > 3 {
				n, _ = strconv.Atoi(w[3])
			}
			ep.queue(w[1], label, n)
			c.Hit("q:" + w[1])
			c.Emit(line, fmt.Sprintf("len=%d", ep.p.Len()), false)
		case "discard":
			ep.p.Discard()
			c.Emit(line, fmt.Sprintf("len=%d", ep.p.Len()), false)
		case "len":
			c.Emit(line, fmt.Sprintf("len=%d", ep.p.Len()), false)
		case "held", "!held":
			k := -1
			if len(w) > 1 {
				k, _ = strconv.Atoi(w[1])
			}
			if k < 0 || k >= len(ep.held) {
				c.Emit(line, "bad-op", false)
				break
			}
			ans := ep.heldStr(ep.held[k], w[0] == "!held")
			c.Hit(w[0])
			c.Emit(line, ans, len(ep.held[k]) >= 1 && k < len(ep.held)-1)
			if w[0] == "!held" && ans != ep.heldAt[k] {
				c.Fail("pipeline:returned-results-overwritten-by-next-batch", line,
					fmt.Sprintf("the slice returned by Exec #%d held %s when Exec returned and holds %s after later batches were queued/executed on the same pipeline", k, ep.heldAt[k], ans))
			}
		case "exec", "!exec":
			n := ep.p.Len()
			ans := ep.exec(w[1:], w[0] == "!exec")
			mode := "pipe"
			if ep.tx {
				mode = "tx"
			}
			switch {
			case strings.HasPrefix(ans, "panic"):
				c.Hit(mode + ":exec-panic")
			case n == 0:
				c.Hit(mode + ":exec-empty")
			default:
				i := strings.Index(ans, "err=")
				e := strings.SplitN(ans[i+4:], " ", 2)[0]
				e = strings.SplitN(e, ":", 2)[0]
				c.Hit(mode + ":exec-err=" + e)
			}
			c.Emit(line, ans, n >= 2)
		default:
			c.Emit(line, "bad-op", false)
		}
	}
}

func runPipe(c *Ctx) {
	kinds := []string{"get", "set", "incr", "echo", "del", "bitcount", "do", "do", "get", "incr", "bitcountbad", "setbad"}
	randErr := func() string {
		texts := []string{"NOPERM x", "WRONGTYPE Operation against a key", "EXECABORT Transaction discarded", "MOVED 1 a:1", "e"}
		return hx(texts[c.Rng.IntN(len(texts))])
	}
	reply := func() string {
		switch c.Rng.IntN(10) {
		case 0:
			return "e:" + randErr()
		case 1:
			return "n"
		case 2:
			if c.Rng.IntN(3) == 0 {
				return "x:" + hx("conn closed")
			}
		}
		return "v"
	}
	label := 0
	episode := func(tx bool) {
		var ops []string
		mode := "pipe"
		if tx {
			mode = "tx"
		}
		ops = append(ops, "reset "+mode)
		rounds := 1 + c.Rng.IntN(3)
		for r := 0; r < rounds; r++ {
			var seg []string
			nq := c.Rng.IntN(7)
			if c.Rng.IntN(10) == 0 {
				nq = 0
			}
			accepted := 0
			for i := 0; i < nq; i++ {
				label++
				k := kinds[c.Rng.IntN(len(kinds))]
				if k == "do" {
					n := c.Rng.IntN(5)
					seg = append(seg, fmt.Sprintf("q do %d %d", label, n))
					if n > 0 {
						accepted++
					}
				} else {
					seg = append(seg, fmt.Sprintf("q %s %d", k, label))
					if k != "bitcountbad" && k != "setbad" {
						accepted++
					}
				}
				if c.Rng.IntN(25) == 0 {
					seg = append(seg, "discard")
					accepted = 0
				}
				if c.Rng.IntN(15) == 0 {
					seg = append(seg, "len")
				}
			}
			// replies
			var ex []string
			oracleOK := true
			if !tx {
				for i := 0; i < accepted; i++ {
					ex = append(ex, reply())
				}
			} else {
				for i := 0; i < accepted+1; i++ {
					if c.Rng.IntN(40) == 0 {
						ex = append(ex, "x:"+hx("timeout"))
						oracleOK = false
					} else if c.Rng.IntN(20) == 0 {
						ex = append(ex, "e:"+randErr())
					} else {
						ex = append(ex, "v")
					}
				}
				ex = append(ex, "|")
				switch c.Rng.IntN(12) {
				case 0:
					ex = append(ex, "n")
				case 1:
					ex = append(ex, "e:"+randErr())
					oracleOK = false
				case 2:
					ex = append(ex, "x:"+hx("eof"))
					oracleOK = false
				case 3:
					ex = append(ex, "v")
					oracleOK = false
				case 4:
					// array of the wrong length
					k := accepted + 1 - 2*c.Rng.IntN(2)
					if k < 0 {
						k = 0
					}
					var el []string
					for i := 0; i < k; i++ {
						el = append(el, "v")
					}
					ex = append(ex, "a:"+strings.Join(el, ","))
					oracleOK = false
				default:
					var el []string
					for i := 0; i < accepted; i++ {
						switch c.Rng.IntN(8) {
						case 0:
							el = append(el, "e:"+randErr())
						case 1:
							el = append(el, "n")
						default:
							el = append(el, "v")
						}
					}
					ex = append(ex, "a:"+strings.Join(el, ","))
				}
			}
			ops = append(ops, seg...)
			if oracleOK && r == rounds-1 {
				// the same episode twice: once judged against the model, once against the property
				first := append(append([]string{}, ops...), "exec "+strings.Join(ex, " "))
				second := append(append([]string{}, ops...), "!exec "+strings.Join(ex, " "))
				pipeOps(c, first)
				// in the replayed copy the earlier execs are needed to reach the same state
				pipeOps(c, second)
				return
			}
			ops = append(ops, "exec "+strings.Join(ex, " "))
		}
		pipeOps(c, ops)
	}
	// one Pipeline/TxPipeline reused for several batches while the caller keeps every returned slice
	reuse := func(tx bool, batches int, rnd bool) {
		mode := map[bool]string{false: "pipe", true: "tx"}[tx]
		ops := []string{"reset " + mode}
		for b := 0; b < batches; b++ {
			nq := 2 + b%2
			if rnd {
				nq = 1 + c.Rng.IntN(5)
			}
			kindsOK := []string{"get", "set", "incr", "echo", "del", "bitcount", "do"}
			for i := 0; i < nq; i++ {
				label++
				k := kindsOK[(b+i)%len(kindsOK)]
				if rnd {
					k = kindsOK[c.Rng.IntN(len(kindsOK))]
				}
				if k == "do" {
					ops = append(ops, fmt.Sprintf("q do %d %d", label, 2+i%2))
				} else {
					ops = append(ops, fmt.Sprintf("q %s %d", k, label))
				}
				// earlier result slices looked at while the next batch is being queued
				for h := 0; h < b; h++ {
					ops = append(ops, fmt.Sprintf("held %d", h), fmt.Sprintf("!held %d", h))
				}
			}
			var ex []string
			if !tx {
				for i := 0; i < nq; i++ {
					if rnd {
						ex = append(ex, reply())
					} else {
						ex = append(ex, "v")
					}
				}
			} else {
				var el []string
				for i := 0; i < nq; i++ {
					el = append(el, "v")
				}
				for i := 0; i < nq+1; i++ {
					ex = append(ex, "v")
				}
				exr := "a:" + strings.Join(el, ",")
				if rnd && c.Rng.IntN(6) == 0 {
					exr = "n"
				}
				ex = append(ex, "|", exr)
			}
			ops = append(ops, "exec "+strings.Join(ex, " "))
			for h := 0; h <= b; h++ {
				ops = append(ops, fmt.Sprintf("held %d", h), fmt.Sprintf("!held %d", h))
			}
		}
		pipeOps(c, ops)
	}
	for _, tx := range []bool{false, true} {
		reuse(tx, 2, false)
		reuse(tx, 3, false)
	}
	for i := 0; i < 4+c.N/20; i++ {
		reuse(c.Rng.IntN(2) == 0, 2+c.Rng.IntN(3), true)
	}
	// deterministic small episodes first
	for _, tx := range []bool{false, true} {
		mode := map[bool]string{false: "pipe", true: "tx"}[tx]
		bar := map[bool]string{false: "", true: "v v v v | a:v,v,v"}[tx]
		pipeOps(c, []string{"reset " + mode, "exec"})
		pipeOps(c, []string{"reset " + mode, "q get 1", "q bitcountbad 2", "q incr 3", "q do 4 0", "q do 5 3", "len", "exec " + map[bool]string{false: "v v v", true: bar}[tx]})
		pipeOps(c, []string{"reset " + mode, "q get 1", "q bitcountbad 2", "q incr 3", "q do 4 0", "q do 5 3", "!exec " + map[bool]string{false: "v v v", true: bar}[tx]})
		pipeOps(c, []string{"reset " + mode, "q get 1", "q set 2", "discard", "exec", "q echo 3", "exec " + map[bool]string{false: "v", true: "v v | a:v"}[tx]})
	}
	pipeOps(c, []string{"reset tx", "q get 1", "q set 2", "exec v v v | n"})
	pipeOps(c, []string{"reset tx", "q get 1", "q set 2", "!exec v v v | n"})
	for i := 0; i < c.N; i++ {
		episode(c.Rng.IntN(2) == 0)
	}
}

func init() {
	suites["pipe"] = suite{
		rule: "episodes of 0-6 queued commands (Get/Set/Incr/Echo/Del/BitCount/Do with 0-4 args, plus rejected calls: BitCount with an invalid unit, SetArgs with an invalid mode, Do without arguments), optional Discard, 1-3 Exec rounds on the real Pipeline or TxPipeline over a scripted fake client (values tagged by the label in the command's own argv; redis errors, nil, connection errors; EXEC array / nil / error / non-array / wrong length); one pipeline reused for 2-4 batches while every returned result slice is kept and re-read (`held`/`!held`) during and after the later batches; every final Exec is emitted twice, once against the model and once ('!') against the property; non-trivial = Exec with at least two queued commands, distinct op",
		run:  runPipe,
		replay: func(c *Ctx, lines []string) {
			pipeOps(c, lines)
		},
	}
}
