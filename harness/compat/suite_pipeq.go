package main

// Suite "pipeq" (C41): reflective sweep over EVERY exported method of
// *rueidiscompat.Pipeline. Each case builds a fresh pipeline on a fake
// rueidis.Client, queues a sentinel PING, calls the method with generated
// arguments (per-parameter enumerations: every parameter is varied in turn over
// valid AND invalid values, option structs field by field), queues a second
// sentinel and executes. Measured: commands queued by the call, results
// appended by the call, and whether after Exec the returned Cmder carries the
// reply of ITS OWN command (the fake answers every command with an error tagged
// by position and argv) and the trailing sentinel still gets its own reply.

import (
	"context"
	"errors"
	"fmt"
	"reflect"
	"sort"
	"strings"
	"time"

	"github.com/redis/rueidis"
	"github.com/redis/rueidis/internal/cmds"
	"github.com/redis/rueidis/rueidiscompat"
)

// ---- fake client shared by the compat suites

type sweepClient struct {
	batches [][][]string // every DoMulti batch, as argv lists
	cur     [][]string   // the batch being answered
	bypass  []string     // calls that did not go through the capture proxy
	reply   func(i int, argv []string) rueidis.RedisResult
}

var _ rueidis.Client = (*sweepClient)(nil)

func (f *sweepClient) B() rueidis.Builder { return cmds.NewBuilder(cmds.NoSlot) }
func (f *sweepClient) Do(ctx context.Context, cmd rueidis.Completed) rueidis.RedisResult {
	f.bypass = append(f.bypass, "Do:"+strings.Join(cmd.Commands(), " "))
	return rueidis.NewErrorResult(errors.New("bypass"))
}
func (f *sweepClient) DoMulti(ctx context.Context, multi ...rueidis.Completed) []rueidis.RedisResult {
	var batch [][]string
	for _, m := range multi {
		batch = append(batch, safeCommands(m))
	}
	f.cur = batch
	f.batches = append(f.batches, batch)
	rs := make([]rueidis.RedisResult, len(multi))
	for i := range multi {
		rs[i] = f.reply(i, batch[i])
	}
	return rs
}
func (f *sweepClient) DoCache(ctx context.Context, cmd rueidis.Cacheable, ttl time.Duration) rueidis.RedisResult {
	f.bypass = append(f.bypass, "DoCache")
	return rueidis.NewErrorResult(errors.New("bypass"))
}
func (f *sweepClient) DoMultiCache(ctx context.Context, multi ...rueidis.CacheableTTL) []rueidis.RedisResult {
	f.bypass = append(f.bypass, "DoMultiCache")
	return make([]rueidis.RedisResult, len(multi))
}
func (f *sweepClient) DoStream(ctx context.Context, cmd rueidis.Completed) rueidis.RedisResultStream {
	f.bypass = append(f.bypass, "DoStream")
	return rueidis.NewErrorResultStream(errors.New("bypass"))
}
func (f *sweepClient) DoMultiStream(ctx context.Context, multi ...rueidis.Completed) rueidis.MultiRedisResultStream {
	f.bypass = append(f.bypass, "DoMultiStream")
	return rueidis.NewErrorResultStream(errors.New("bypass"))
}
func (f *sweepClient) Receive(ctx context.Context, subscribe rueidis.Completed, fn func(msg rueidis.PubSubMessage)) error {
	f.bypass = append(f.bypass, "Receive")
	return errors.New("bypass")
}
func (f *sweepClient) Dedicated(fn func(rueidis.DedicatedClient) error) error {
	f.bypass = append(f.bypass, "Dedicated")
	return errors.New("bypass")
}
func (f *sweepClient) Dedicate() (rueidis.DedicatedClient, func()) {
	f.bypass = append(f.bypass, "Dedicate")
	panic("sweepClient: Dedicate")
}
func (f *sweepClient) Nodes() map[string]rueidis.Client {
	f.bypass = append(f.bypass, "Nodes")
	return map[string]rueidis.Client{}
}
func (f *sweepClient) Mode() rueidis.ClientMode { return rueidis.ClientModeStandalone }
func (f *sweepClient) Close()                   {}

// safeCommands: a zero rueidis.Completed (no command built) panics in Commands()
func safeCommands(m rueidis.Completed) (argv []string) {
	defer func() {
		if r := recover(); r != nil {
			argv = []string{"<nil-command>"}
		}
	}()
	return append([]string{}, m.Commands()...)
}

// ---- argument generation

var strPool = []string{
	"k1", "", "v", "m", "km", "mi", "ft", "M", "KM", "BYTE", "BIT", "byte", "bit", "ASC", "DESC", "asc", "desc",
	"NX", "XX", "GT", "LT", "nx", "xx", "BEFORE", "AFTER", "before", "LEFT", "RIGHT", "left", "right",
	"AND", "OR", "XOR", "NOT", "MIN", "MAX", "SUM", "BLOCK", "FIRST", "LAST", "AVG", "COUNT",
	"*", "-", "+", "$", ">", "0", "1", "(1", "[a", "0-0", "1-1", "INCLUDE", "EXCLUDE", "FLAT", "HNSW",
	"sync", "async", "SYNC", "ASYNC", "YES", "NO", "TAKEOVER", "FORCE", "$.a", "zz-invalid", "3",
}

var (
	tCtx      = reflect.TypeOf((*context.Context)(nil)).Elem()
	tDuration = reflect.TypeOf(time.Duration(0))
	tTime     = reflect.TypeOf(time.Time{})
	tAny      = reflect.TypeOf((*any)(nil)).Elem()
	tCmder    = reflect.TypeOf((*rueidiscompat.Cmder)(nil)).Elem()
	tErr      = reflect.TypeOf((*error)(nil)).Elem()
)

var anyPool = []any{"a1", int64(7), 2.5, true, []byte("bz"), time.Duration(1500) * time.Millisecond, nil, 3, uint8(4),
	[]string{"s1", "s2"}, []any{"i1", 2}, map[string]any{"mk": "mv"}, map[string]string{"mk2": "mv2"}, "", float32(1)}

// nVariants: how many distinct values genValue offers for a type (variant 0 = the default).
func nVariants(t reflect.Type, depth int) int {
	if depth > 3 {
		return 1
	}
	switch {
	case t == tCtx:
		return 1
	case t == tDuration:
		return 7
	case t == tTime:
		return 2
	}
	switch t.Kind() {
	case reflect.String:
		return len(strPool)
	case reflect.Bool:
		return 2
	case reflect.Int, reflect.Int64, reflect.Int32, reflect.Int16, reflect.Int8:
		return 6
	case reflect.Uint, reflect.Uint64, reflect.Uint32, reflect.Uint16, reflect.Uint8:
		return 3
	case reflect.Float64, reflect.Float32:
		return 4
	case reflect.Interface:
		if t == tAny {
			return len(anyPool)
		}
		return 1
	case reflect.Ptr:
		return 1 + nVariants(t.Elem(), depth+1)
	case reflect.Struct:
		n := 0
		for i := 0; i < t.NumField(); i++ {
			if t.Field(i).IsExported() {
				n += nVariants(t.Field(i).Type, depth+1)
			}
		}
		return 2 + 2*n // zero, full, one field varied over a zero struct, one field varied over a full struct
	case reflect.Slice:
		return 3 + nVariants(t.Elem(), depth+1)
	case reflect.Map:
		return 3
	case reflect.Func:
		return 2
	}
	return 1
}

func genValue(t reflect.Type, v int, depth int) reflect.Value {
	if depth > 3 {
		return reflect.Zero(t)
	}
	switch {
	case t == tCtx:
		return reflect.ValueOf(context.Background())
	case t == tDuration:
		ds := []time.Duration{time.Second, 0, 1500 * time.Millisecond, -1, time.Millisecond, 500 * time.Microsecond, -2 * time.Second}
		return reflect.ValueOf(ds[v%len(ds)])
	case t == tTime:
		if v%2 == 0 {
			return reflect.ValueOf(time.Unix(1700000000, 500000000))
		}
		return reflect.ValueOf(time.Time{})
	}
	switch t.Kind() {
	case reflect.String:
		return reflect.ValueOf(strPool[v%len(strPool)]).Convert(t)
	case reflect.Bool:
		return reflect.ValueOf(v%2 == 1).Convert(t)
	case reflect.Int, reflect.Int64, reflect.Int32, reflect.Int16, reflect.Int8:
		xs := []int64{1, 0, -1, 2, 100, -100}
		return reflect.ValueOf(xs[v%len(xs)]).Convert(t)
	case reflect.Uint, reflect.Uint64, reflect.Uint32, reflect.Uint16, reflect.Uint8:
		xs := []uint64{1, 0, 7}
		return reflect.ValueOf(xs[v%len(xs)]).Convert(t)
	case reflect.Float64, reflect.Float32:
		xs := []float64{1.5, 0, -2, 10}
		return reflect.ValueOf(xs[v%len(xs)]).Convert(t)
	case reflect.Interface:
		if t == tAny {
			x := anyPool[v%len(anyPool)]
			if x == nil {
				return reflect.Zero(t)
			}
			r := reflect.New(t).Elem()
			r.Set(reflect.ValueOf(x))
			return r
		}
		return reflect.Zero(t)
	case reflect.Ptr:
		if v == nVariants(t.Elem(), depth+1) {
			return reflect.Zero(t) // nil pointer
		}
		p := reflect.New(t.Elem())
		p.Elem().Set(genValue(t.Elem(), v, depth+1))
		return p
	case reflect.Struct:
		s := reflect.New(t).Elem()
		if v == 0 {
			return s // zero struct: no option set
		}
		total := 0
		for i := 0; i < t.NumField(); i++ {
			if t.Field(i).IsExported() {
				total += nVariants(t.Field(i).Type, depth+1)
			}
		}
		// v == 1: every field at its default; 2..total+1: one field varied, the others zero;
		// total+2..: one field varied, the others at their default
		k, othersFull := -1, v == 1
		if v >= 2 {
			k = v - 2
			if k >= total {
				k -= total
				othersFull = true
			}
		}
		for i := 0; i < t.NumField(); i++ {
			if !t.Field(i).IsExported() {
				continue
			}
			nf := nVariants(t.Field(i).Type, depth+1)
			switch {
			case k >= 0 && k < nf:
				s.Field(i).Set(genValue(t.Field(i).Type, k, depth+1))
			case othersFull:
				s.Field(i).Set(genValue(t.Field(i).Type, 0, depth+1))
			}
			k -= nf
			if k < 0 && k >= -nf {
				k = -1 << 30
			}
		}
		return s
	case reflect.Slice:
		// 0: two elements, 1: nil, 2: one element, 3..: one element of variant v-3 followed by a default
		switch {
		case v == 1:
			return reflect.Zero(t)
		case v == 0:
			s := reflect.MakeSlice(t, 0, 2)
			return reflect.Append(s, genValue(t.Elem(), 0, depth+1), genValue(t.Elem(), 2, depth+1))
		case v == 2:
			return reflect.Append(reflect.MakeSlice(t, 0, 1), genValue(t.Elem(), 0, depth+1))
		}
		s := reflect.MakeSlice(t, 0, 2)
		return reflect.Append(s, genValue(t.Elem(), v-3, depth+1), genValue(t.Elem(), 0, depth+1))
	case reflect.Map:
		m := reflect.MakeMap(t)
		if v == 1 {
			return reflect.Zero(t)
		}
		n := 1
		if v == 2 {
			n = 2
		}
		for i := 0; i < n; i++ {
			m.SetMapIndex(genValue(t.Key(), i*2, depth+1), genValue(t.Elem(), i, depth+1))
		}
		return m
	case reflect.Func:
		if v == 1 {
			return reflect.Zero(t)
		}
		return reflect.MakeFunc(t, func(args []reflect.Value) []reflect.Value {
			outs := make([]reflect.Value, t.NumOut())
			for i := range outs {
				outs[i] = reflect.Zero(t.Out(i))
			}
			return outs
		})
	}
	return reflect.Zero(t)
}

// pipeline-control methods that are not command wrappers (exercised by suite "pipe")
var pipeSpecial = map[string]bool{"Exec": true, "Discard": true, "Len": true, "Pipelined": true, "TxPipelined": true,
	"Pipeline": true, "TxPipeline": true, "Client": true}

type sweepCase struct {
	method string
	vs     []int // variant per parameter (after the receiver); variadic parameter = slice variant
}

func (sc sweepCase) String() string {
	parts := make([]string, len(sc.vs))
	for i, v := range sc.vs {
		parts[i] = fmt.Sprint(v)
	}
	if len(parts) == 0 {
		return sc.method + " -"
	}
	return sc.method + " " + strings.Join(parts, ",")
}

type sweepResult struct {
	panicked  bool
	dq, dr    int  // commands queued / results appended by the call
	own       bool // the returned Cmder received the reply of its own command
	tailOwn   bool // the trailing sentinel received its own reply
	isCmder   bool
	bypass    string
	execPanic bool
	argv      string
}

func tagOf(i int, argv []string) string { return fmt.Sprintf("T%d:%s", i, strings.Join(argv, "\x1f")) }

func runSweepCase(sc sweepCase) (res sweepResult, known bool) {
	fc := &sweepClient{}
	fc.reply = func(i int, argv []string) rueidis.RedisResult {
		return rueidis.NewErrorResult(errors.New(tagOf(i, argv)))
	}
	ctx := context.Background()
	p := rueidiscompat.NewAdapter(fc).Pipeline()
	pv := reflect.ValueOf(p)
	m := pv.MethodByName(sc.method)
	if !m.IsValid() {
		return res, false
	}
	mt := m.Type()
	if len(sc.vs) != mt.NumIn() {
		return res, false
	}
	head := p.Ping(ctx)
	args := make([]reflect.Value, mt.NumIn())
	for i := range args {
		args[i] = genValue(mt.In(i), sc.vs[i], 0)
	}
	var outs []reflect.Value
	func() {
		defer func() {
			if r := recover(); r != nil {
				res.panicked = true
			}
		}()
		if mt.IsVariadic() {
			outs = m.CallSlice(args)
		} else {
			outs = m.Call(args)
		}
	}()
	res.dq = p.Len() - 1
	tail := p.Echo(ctx, "tail")
	var ret rueidiscompat.Cmder
	if len(outs) > 0 && outs[0].Type().Implements(tCmder) && !outs[0].IsNil() {
		ret = outs[0].Interface().(rueidiscompat.Cmder)
		res.isCmder = true
	}
	var rets []rueidiscompat.Cmder
	func() {
		defer func() {
			if r := recover(); r != nil {
				res.execPanic = true
			}
		}()
		rets, _ = p.Exec(ctx)
	}()
	res.dr = len(rets) - 2
	if len(fc.bypass) > 0 {
		res.bypass = fc.bypass[0]
	}
	if len(fc.batches) == 1 {
		b := fc.batches[0]
		if res.dq == 1 && len(b) == 3 {
			res.argv = strings.Join(b[1], " ")
			if ret != nil && ret.Err() != nil && ret.Err().Error() == tagOf(1, b[1]) && len(rets) == 3 && rets[1] == ret {
				res.own = true
			}
		}
		last := len(b) - 1
		if tail.Err() != nil && tail.Err().Error() == tagOf(last, b[last]) && head.Err() != nil && head.Err().Error() == tagOf(0, b[0]) &&
			len(rets) > 0 && rets[len(rets)-1] == rueidiscompat.Cmder(tail) && rets[0] == rueidiscompat.Cmder(head) {
			res.tailOwn = true
		}
	}
	return res, true
}

func (r sweepResult) verdict() string {
	switch {
	case r.bypass != "":
		return "misaligned:bypass:" + strings.SplitN(r.bypass, ":", 2)[0]
	case r.execPanic:
		return fmt.Sprintf("misaligned:exec-panics:q=%d", r.dq)
	case r.dq == 0 && r.dr == 0 && r.tailOwn:
		return "aligned" // rejected (panic or error result) before anything was queued or appended
	case r.dq == 1 && r.dr == 1 && r.own && r.tailOwn && !r.panicked:
		return "aligned"
	}
	return fmt.Sprintf("misaligned:q=%d,r=%d,own=%v,tail=%v,panic=%v", r.dq, r.dr, r.own, r.tailOwn, r.panicked)
}

func pipeqOp(c *Ctx, line string) {
	w := strings.Fields(line)
	switch {
	case len(w) == 1 && w[0] == "methods":
		t := reflect.TypeOf(rueidiscompat.NewAdapter(&sweepClient{}).Pipeline())
		c.Emit(line, fmt.Sprint(t.NumMethod()), false)
	case len(w) == 2 && w[0] == "kind":
		t := reflect.TypeOf(rueidiscompat.NewAdapter(&sweepClient{}).Pipeline())
		m, ok := t.MethodByName(w[1])
		ans := "nomethod"
		if ok {
			switch {
			case pipeSpecial[w[1]]:
				ans = "control"
			case m.Type.NumOut() >= 1 && m.Type.Out(0).Implements(tCmder):
				ans = "cmder"
			default:
				ans = "other"
			}
		}
		c.Emit(line, ans, false)
	case len(w) == 3 && (w[0] == "!m" || w[0] == "m"):
		sc := sweepCase{method: w[1]}
		if w[2] != "-" {
			for _, s := range strings.Split(w[2], ",") {
				var v int
				fmt.Sscan(s, &v)
				sc.vs = append(sc.vs, v)
			}
		}
		r, known := runSweepCase(sc)
		if !known {
			c.Emit(line, "nomethod", false)
			return
		}
		v := r.verdict()
		switch {
		case v != "aligned":
			c.Hit("misaligned")
		case r.dq == 1 && r.argv == "<nil-command>":
			c.Hit("queued-nil-command")
			c.Hit("nilcmd:" + w[1])
		case r.dq == 1:
			c.Hit("queued-one")
		case r.panicked:
			c.Hit("rejects-by-panic")
		default:
			c.Hit("rejects-by-error")
		}
		c.Emit(line, v, r.dq == 1)
		if v != "aligned" {
			c.Fail("pipeq:"+w[1]+":"+v, line, fmt.Sprintf("Pipeline.%s(%s) queued %d command(s) and appended %d result(s) (%s); later results of the pipeline are shifted", w[1], w[2], r.dq, r.dr, v))
		}
	default:
		c.Emit(line, "bad-op", false)
	}
}

func runPipeq(c *Ctx) {
	p := rueidiscompat.NewAdapter(&sweepClient{}).Pipeline()
	t := reflect.TypeOf(p)
	pipeqOp(c, "methods")
	var names []string
	for i := 0; i < t.NumMethod(); i++ {
		names = append(names, t.Method(i).Name)
	}
	sort.Strings(names)
	budget := 40
	if c.Tier == "thorough" {
		budget = 100000
	}
	for _, name := range names {
		pipeqOp(c, "kind "+name)
		if pipeSpecial[name] {
			continue
		}
		mt := reflect.ValueOf(p).MethodByName(name).Type()
		base := make([]int, mt.NumIn())
		do := func(vs []int) {
			sc := sweepCase{method: name, vs: vs}
			s := sc.String()
			pipeqOp(c, "!m "+s)
		}
		do(base)
		// vary every parameter in turn over all its variants (exhaustive per parameter in
		// thorough; in quick a random sample of `budget` variants per parameter plus the string pool)
		for i := 0; i < mt.NumIn(); i++ {
			n := nVariants(mt.In(i), 0)
			var pick []int
			if n-1 <= budget {
				for v := 1; v < n; v++ {
					pick = append(pick, v)
				}
			} else {
				seen := map[int]bool{}
				for len(pick) < budget {
					v := 1 + c.Rng.IntN(n-1)
					if !seen[v] {
						seen[v] = true
						pick = append(pick, v)
					}
				}
				sort.Ints(pick)
			}
			for _, v := range pick {
				vs := append([]int{}, base...)
				vs[i] = v
				do(vs)
			}
		}
		// random joint variations
		for k := 0; k < 3+c.N/200; k++ {
			vs := make([]int, mt.NumIn())
			for i := range vs {
				vs[i] = c.Rng.IntN(nVariants(mt.In(i), 0))
			}
			do(vs)
		}
	}
}

func init() {
	suites["pipeq"] = suite{
		rule: "every exported method of *rueidiscompat.Pipeline (reflection), called between two sentinels on a fresh pipeline over a fake client; each parameter varied in turn over its enumeration (strings: 70-value pool of valid/invalid units, modes, orders; option structs field by field incl. nil/zero; durations incl. KeepTTL/sub-ms; variadics of 0/1/2 elements) plus random joint variations; non-trivial = the call queued exactly one command, distinct op",
		run:  runPipeq,
		replay: func(c *Ctx, lines []string) {
			for _, l := range lines {
				pipeqOp(c, l)
			}
		},
	}
}
