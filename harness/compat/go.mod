module github.com/redis/rueidis/zzverif/compat

go 1.25.0

require (
	github.com/redis/rueidis v1.0.76
	github.com/redis/rueidis/mock v1.0.76
	github.com/redis/rueidis/rueidiscompat v0.0.0
	github.com/redis/rueidis/rueidishook v0.0.0
)

require (
	go.uber.org/mock v0.6.0 // indirect
	golang.org/x/sys v0.43.0 // indirect
)

replace github.com/redis/rueidis => /repo

replace github.com/redis/rueidis/mock => /repo/mock

replace github.com/redis/rueidis/rueidiscompat => /repo/rueidiscompat

replace github.com/redis/rueidis/rueidishook => /repo/rueidishook
