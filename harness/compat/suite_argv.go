package main

// Suite "argv" (C42): calls the REAL rueidiscompat adapter method by name with
// generated arguments on a capturing fake client and prints the argv it sent.
//   argv  M vals…  → raw argv, compared with the Lean model of the adapter (A.*)
//   !argv M vals…  → normalised argv (keyword case, numeric spelling; user data is
//                    marked by the prefix "u_" and left alone), compared with the hand
//                    transcription of go-redis v9 (G.*) after the same normalisation.
// Known divergences are judged here and reported through c.Fail with a stable key.

import (
	"context"
	"errors"
	"fmt"
	"reflect"
	"sort"
	"strconv"
	"strings"
	"time"

	"github.com/redis/rueidis"
	"github.com/redis/rueidis/rueidiscompat"
)

type captureClient struct {
	sweepClient
	sent [][]string
}

func (f *captureClient) Do(ctx context.Context, cmd rueidis.Completed) rueidis.RedisResult {
	f.sent = append(f.sent, safeCommands(cmd))
	return rueidis.NewErrorResult(errors.New("captured"))
}

var argvSimple = []string{"Get", "GetDel", "StrLen", "Incr", "Decr", "IncrBy", "DecrBy", "Append", "GetRange", "SetRange",
	"GetSet", "MGet", "Del", "Exists", "Unlink", "Touch", "TTL", "PTTL", "Persist", "Type", "Rename", "RenameNX",
	"LLen", "LIndex", "LRange", "LTrim", "LRem", "SCard", "SMembers", "SIsMember", "HGet", "HDel", "HExists", "HLen",
	"HGetAll", "HKeys", "HVals", "ZCard", "GetBit", "SetBit", "Echo"}

var argvSpecial = []string{"Set", "SetNX", "SetXX", "SetArgs", "GetEx", "Expire", "ExpireNX", "ExpireXX", "ExpireGT",
	"ExpireLT", "PExpire", "ExpireAt", "PExpireAt", "BitCount", "BitPos", "BitPosSpan", "Scan", "ScanType", "SScan",
	"HScan", "ZScan", "LInsert", "LInsertBefore", "LInsertAfter", "Copy"}

type aval struct {
	kind string // s i l il b nil
	s    string
	i    int64
	l    []string
	il   []int64
	b    bool
}

func (v aval) String() string {
	switch v.kind {
	case "s":
		return "s:" + hx(v.s)
	case "i":
		return "i:" + strconv.FormatInt(v.i, 10)
	case "l":
		hs := make([]string, len(v.l))
		for i, x := range v.l {
			hs[i] = hx(x)
		}
		return "l:" + strings.Join(hs, ",")
	case "il":
		hs := make([]string, len(v.il))
		for i, x := range v.il {
			hs[i] = strconv.FormatInt(x, 10)
		}
		return "il:" + strings.Join(hs, ",")
	case "b":
		if v.b {
			return "b:1"
		}
		return "b:0"
	}
	return "nil"
}

func parseAval(w string) (aval, bool) {
	switch {
	case w == "nil":
		return aval{kind: "nil"}, true
	case strings.HasPrefix(w, "s:"):
		return aval{kind: "s", s: unhx(w[2:])}, true
	case strings.HasPrefix(w, "i:"):
		n, err := strconv.ParseInt(w[2:], 10, 64)
		return aval{kind: "i", i: n}, err == nil
	case strings.HasPrefix(w, "il:"):
		v := aval{kind: "il"}
		if w[3:] != "" {
			for _, x := range strings.Split(w[3:], ",") {
				n, err := strconv.ParseInt(x, 10, 64)
				if err != nil {
					return v, false
				}
				v.il = append(v.il, n)
			}
		}
		return v, true
	case strings.HasPrefix(w, "l:"):
		v := aval{kind: "l"}
		if w[2:] != "" {
			for _, x := range strings.Split(w[2:], ",") {
				v.l = append(v.l, unhx(x))
			}
		}
		return v, true
	case strings.HasPrefix(w, "b:"):
		return aval{kind: "b", b: w == "b:1"}, true
	}
	return aval{}, false
}

// callAdapter invokes method m on a fresh adapter; returns the argv sent (nil = nothing sent).
func callAdapter(m string, vs []aval) (argv []string, ok bool) {
	fc := &captureClient{}
	ad := rueidiscompat.NewAdapter(fc)
	ctx := context.Background()
	done := func() ([]string, bool) {
		if len(fc.sent) == 0 {
			return nil, true
		}
		if len(fc.sent) > 1 || len(fc.bypass) > 0 {
			return []string{"<more-than-one-command>"}, true
		}
		return fc.sent[0], true
	}
	defer func() {
		if r := recover(); r != nil {
			argv, ok = done()
		}
	}()
	switch m {
	case "BitCount":
		if len(vs) == 2 && vs[1].kind == "nil" {
			ad.BitCount(ctx, vs[0].s, nil)
		} else if len(vs) == 4 {
			ad.BitCount(ctx, vs[0].s, &rueidiscompat.BitCount{Start: vs[1].i, End: vs[2].i, Unit: vs[3].s})
		} else {
			return nil, false
		}
		return done()
	case "SetArgs":
		if len(vs) != 8 {
			return nil, false
		}
		a := rueidiscompat.SetArgs{Mode: vs[2].s, TTL: time.Duration(vs[3].i), Get: vs[6].b, KeepTTL: vs[7].b}
		if vs[4].b {
			a.ExpireAt = time.Unix(vs[5].i, 0)
		}
		ad.SetArgs(ctx, vs[0].s, vs[1].s, a)
		return done()
	case "ExpireAt":
		ad.ExpireAt(ctx, vs[0].s, time.Unix(vs[1].i, 0))
		return done()
	case "PExpireAt":
		ad.PExpireAt(ctx, vs[0].s, time.Unix(vs[1].i, vs[2].i))
		return done()
	}
	for _, b2 := range argvBatch2 {
		if b2 == m {
			if !callAdapter2(ad, m, vs) {
				return nil, false
			}
			return done()
		}
	}
	mv := reflect.ValueOf(ad).MethodByName(m)
	if !mv.IsValid() {
		return nil, false
	}
	mt := mv.Type()
	args := []reflect.Value{reflect.ValueOf(ctx)}
	if mt.NumIn() != len(vs)+1 {
		return nil, false
	}
	for i, v := range vs {
		pt := mt.In(i + 1)
		switch {
		case pt == tDuration && v.kind == "i":
			args = append(args, reflect.ValueOf(time.Duration(v.i)))
		case v.kind == "i" && (pt.Kind() == reflect.Int64 || pt.Kind() == reflect.Int || pt.Kind() == reflect.Uint64):
			args = append(args, reflect.ValueOf(v.i).Convert(pt))
		case v.kind == "s" && pt.Kind() == reflect.String:
			args = append(args, reflect.ValueOf(v.s).Convert(pt))
		case v.kind == "s" && pt == tAny:
			x := reflect.New(pt).Elem()
			x.Set(reflect.ValueOf(v.s))
			args = append(args, x)
		case v.kind == "b" && pt.Kind() == reflect.Bool:
			args = append(args, reflect.ValueOf(v.b))
		case v.kind == "l" && pt.Kind() == reflect.Slice && pt.Elem().Kind() == reflect.String:
			args = append(args, reflect.ValueOf(append([]string{}, v.l...)))
		case v.kind == "il" && pt.Kind() == reflect.Slice && pt.Elem().Kind() == reflect.Int64:
			args = append(args, reflect.ValueOf(append([]int64{}, v.il...)))
		default:
			return nil, false
		}
	}
	if mt.IsVariadic() {
		mv.CallSlice(args)
	} else {
		mv.Call(args)
	}
	return done()
}

func normToken(t string) string {
	if strings.HasPrefix(t, "u_") {
		return t
	}
	t = strings.ToUpper(t)
	// numeric spellings: +5 -> 5, 5.0 -> 5
	if len(t) > 1 && t[0] == '+' {
		if _, err := strconv.ParseInt(t[1:], 10, 64); err == nil {
			t = t[1:]
		}
	}
	if strings.HasSuffix(t, ".0") {
		if _, err := strconv.ParseInt(t[:len(t)-2], 10, 64); err == nil {
			t = t[:len(t)-2]
		}
	}
	return t
}

func argvOp(c *Ctx, line string) {
	w := strings.Fields(line)
	if len(w) == 1 && w[0] == "covered" {
		c.Emit(line, fmt.Sprint(len(argvSimple)+len(argvSpecial)+len(argvBatch2)), false)
		return
	}
	if len(w) >= 1 && (w[0] == "anyv" || w[0] == "!anyv" || w[0] == "anymethods") {
		anyvOp(c, line)
		return
	}
	if len(w) < 2 || (w[0] != "argv" && w[0] != "!argv") {
		c.Emit(line, "bad-op", false)
		return
	}
	var vs []aval
	for _, x := range w[2:] {
		v, ok := parseAval(x)
		if !ok {
			c.Emit(line, "bad-op", false)
			return
		}
		vs = append(vs, v)
	}
	argv, ok := callAdapter(w[1], vs)
	if !ok {
		c.Emit(line, "unmodelled", false)
		return
	}
	c.Hit(w[0] + ":" + w[1])
	if argv == nil {
		c.Emit(line, "nothing", false)
		return
	}
	toks := append([]string{}, argv...)
	if w[0] == "!argv" {
		for i := range toks {
			toks[i] = normToken(toks[i])
		}
		if (w[1] == "SetNX" || w[1] == "SetXX") && len(toks) > 3 {
			sort.Strings(toks[3:])
		}
		if w[1] == "XAdd" || strings.HasPrefix(w[1], "XTrim") {
			// the adapter spells the exact-trim operator "=", go-redis leaves it out (same meaning)
			kept := toks[:0]
			for _, t := range toks {
				if t != "=" {
					kept = append(kept, t)
				}
			}
			toks = kept
		}
	}
	hs := make([]string, len(toks))
	for i, t := range toks {
		hs[i] = hx(t)
	}
	c.Emit(line, "argv:"+strings.Join(hs, ","), len(argv) > 2)
	// divergences from go-redis repaired by `fix:` commits; still judged here (also on replay) with
	// stable keys so that a regression is reported as a failing input
	if w[0] == "argv" && w[1] == "GetEx" && len(vs) == 2 && vs[1].kind == "i" && vs[1].i == 0 &&
		!(len(argv) == 3 && strings.EqualFold(argv[2], "PERSIST")) {
		c.Fail("argv:GetEx:zero-expiration-no-persist", line,
			fmt.Sprintf("adapter.GetEx(key, 0) sends %q; go-redis v9 sends GETEX key PERSIST (a zero expiration removes the TTL)", argv))
	}
	if w[0] == "argv" && zRangeRevBy(w[1], vs) {
		o := 0
		if w[1] == "ZRangeStore" {
			o = 1
		}
		// position of <start> in the argv: after the command name and the key(s)
		if p := 2 + o; len(argv) > p+1 && argv[p] == vs[o+1].s && argv[p+1] == vs[o+2].s {
			c.Fail("argv:ZRangeArgs:rev-by-start-stop-not-swapped", line,
				fmt.Sprintf("adapter.%s with Rev and ByScore/ByLex sends %q: <start> <stop> as given; go-redis v9 swaps them (ZRangeArgs.appendArgs)", w[1], argv))
		}
	}
	if w[0] == "argv" && w[1] == "ScanType" && len(vs) == 4 && vs[3].kind == "s" && vs[3].s == "" &&
		len(argv) >= 2 && strings.EqualFold(argv[len(argv)-2], "TYPE") {
		c.Fail("argv:ScanType:empty-type-sent", line,
			fmt.Sprintf("adapter.ScanType(.., \"\") sends %q; go-redis v9 omits TYPE when keyType is empty", argv))
	}
}

func runArgv(c *Ctx) {
	argvOp(c, "covered")
	S := func(s string) aval { return aval{kind: "s", s: s} }
	I := func(i int64) aval { return aval{kind: "i", i: i} }
	B := func(b bool) aval { return aval{kind: "b", b: b} }
	keys := []string{"u_k", "u_", "u_käy", "u_a b"}
	vals := []string{"u_v", "u_", "u_1"}
	durs := []int64{0, -1, 1, 500000, 999999, 1000000, 1500000, 999999999, 1000000000, 1500000000, 2000000000, 2500000000, -2000000000, 61000000000, 3600000000000}
	ints := []int64{0, 1, -1, 2, 100, -100, 1 << 40}
	lists := [][]string{{}, {"u_a"}, {"u_a", "u_b", "u_c"}}
	emit := func(oracle bool, m string, vs ...aval) {
		parts := []string{m}
		for _, v := range vs {
			parts = append(parts, v.String())
		}
		argvOp(c, "argv "+strings.Join(parts, " "))
		if oracle {
			argvOp(c, "!argv "+strings.Join(parts, " "))
		}
	}
	pick := func(xs []string, i int) string { return xs[i%len(xs)] }
	// --- simple methods: parameters by reflection
	ad := rueidiscompat.NewAdapter(&captureClient{})
	for _, m := range argvSimple {
		mt := reflect.ValueOf(ad).MethodByName(m).Type()
		rounds := 8
		for r := 0; r < rounds; r++ {
			var vs []aval
			for i := 1; i < mt.NumIn(); i++ {
				pt := mt.In(i)
				switch {
				case pt.Kind() == reflect.String || pt == tAny:
					if i == 1 {
						vs = append(vs, S(pick(keys, r+i)))
					} else {
						vs = append(vs, S(pick(vals, r+i)))
					}
				case pt.Kind() == reflect.Int64 || pt.Kind() == reflect.Int:
					vs = append(vs, I(ints[(r+i)%len(ints)]))
				case pt.Kind() == reflect.Slice:
					vs = append(vs, aval{kind: "l", l: lists[(r+i)%len(lists)]})
				}
			}
			emit(true, m, vs...)
		}
	}
	// --- methods with options
	for i, d := range durs {
		k, v := S(pick(keys, i)), S(pick(vals, i))
		emit(true, "Set", k, v, I(d))
		emit(true, "SetNX", k, v, I(d))
		emit(true, "SetXX", k, v, I(d))
		emit(true, "GetEx", k, I(d)) // d == 0 must send PERSIST (judged in argvOp as well)
		for _, m := range []string{"Expire", "ExpireNX", "ExpireXX", "ExpireGT", "ExpireLT", "PExpire"} {
			emit(true, m, k, I(d))
		}
		for _, mode := range []string{"", "NX", "XX", "nx", "xx"} {
			for mask := 0; mask < 8; mask++ {
				if (i+mask)%3 != 0 && c.Tier == "quick" {
					continue
				}
				emit(true, "SetArgs", k, v, S(mode), I(d), B(mask&1 != 0), I(1700000000+int64(i)), B(mask&2 != 0), B(mask&4 != 0))
			}
		}
		emit(false, "SetArgs", k, v, S("zz"), I(d), B(false), I(0), B(false), B(false)) // adapter refuses; go-redis forwards
	}
	for i, u := range []int64{0, 1, 1700000000, 4102444800} {
		emit(true, "ExpireAt", S(pick(keys, i)), I(u))
		for _, n := range []int64{0, 1, 999999, 1000000, 123456789, 999999999} {
			emit(true, "PExpireAt", S(pick(keys, i)), I(u), I(n))
		}
	}
	for i, k := range keys {
		emit(true, "BitCount", S(k), aval{kind: "nil"})
		for _, u := range []string{"", "BYTE", "BIT", "byte", "bit", "k", "u_x"} {
			emit(true, "BitCount", S(k), I(ints[i%len(ints)]), I(ints[(i+3)%len(ints)]), S(u))
		}
		for _, pos := range [][]int64{{}, {1}, {1, 2}, {0, -1}, {1, 2, 3}} {
			emit(true, "BitPos", S(k), I(int64(i%2)), aval{kind: "il", il: pos})
		}
		for _, sp := range []string{"bit", "byte", "BIT", "BYTE"} {
			emit(true, "BitPosSpan", S(k), I(1), I(ints[i%len(ints)]), I(-1), S(sp))
		}
		for _, op := range []string{"BEFORE", "AFTER", "before", "after"} {
			emit(true, "LInsert", S(k), S(op), S("u_p"), S("u_v"))
		}
		emit(false, "LInsert", S(k), S("zz"), S("u_p"), S("u_v")) // adapter refuses; go-redis forwards
		emit(true, "LInsertBefore", S(k), S("u_p"), S("u_v"))
		emit(true, "LInsertAfter", S(k), S("u_p"), S("u_v"))
		emit(true, "Copy", S(k), S("u_dst"), I(int64(i)), B(i%2 == 0))
	}
	for _, cur := range []int64{0, 5, 1 << 40} {
		for _, mt := range []string{"", "u_*", "u_a*b"} {
			for _, n := range []int64{0, -1, 1, 100} {
				emit(true, "Scan", I(cur), S(mt), I(n))
				emit(true, "ScanType", I(cur), S(mt), I(n), S("u_hash"))
				for _, m := range []string{"SScan", "HScan", "ZScan"} {
					emit(true, m, S("u_k"), I(cur), S(mt), I(n))
				}
			}
		}
	}
	{
		// go-redis omits TYPE for an empty keyType (judged in argvOp as well)
		emit(true, "ScanType", I(0), S(""), I(0), S(""))
		emit(true, "ScanType", I(5), S("u_*"), I(10), S(""))
	}
	runArgv2(c, emit)
	runAnyv(c)
	// random joint values
	for i := 0; i < c.N; i++ {
		d := durs[c.Rng.IntN(len(durs))]
		if c.Rng.IntN(2) == 0 {
			d = int64(c.Rng.IntN(5_000_000_000)) - 1_000_000
		}
		k, v := S(pick(keys, c.Rng.IntN(8))), S(pick(vals, c.Rng.IntN(8)))
		switch c.Rng.IntN(5) {
		case 0:
			emit(true, "Set", k, v, I(d))
		case 1:
			emit(true, "SetNX", k, v, I(d))
		case 2:
			emit(true, "SetArgs", k, v, S([]string{"", "NX", "xx"}[c.Rng.IntN(3)]), I(d), B(c.Rng.IntN(2) == 0), I(int64(c.Rng.IntN(2000000000))), B(c.Rng.IntN(2) == 0), B(c.Rng.IntN(2) == 0))
		case 3:
			emit(true, "GetEx", k, I(d))
		case 4:
			emit(true, "PExpire", k, I(d))
		}
	}
}

func init() {
	suites["argv"] = suite{
		rule: "the 66 transcribed adapter methods called on the real adapter over a capturing client: 41 name+arguments methods with 8 argument rounds each (keys incl. empty/UTF-8/space, ints incl. negative and 2^40, lists of 0/1/3), option methods over 15 durations (0, KeepTTL, sub-ms, exact and fractional seconds, negative), all SetArgs flag masks x modes, BitCount units incl. invalid, BitPos 0-3 positions, scans with/without MATCH/COUNT; each case once raw against the adapter model and once ('!') normalised against the go-redis transcription; non-trivial = argv of more than two tokens, distinct op",
		run:  runArgv,
		replay: func(c *Ctx, lines []string) {
			for _, l := range lines {
				argvOp(c, l)
			}
		},
	}
}
