package main

// tagsrv (adapted copy of harness/pipe/tagsrv.go): a scripted RESP3 server over net.Pipe.
// Every reply to a keyed command embeds "<key>|<mid>" (mid = id of the frame), so the client
// side can tell WHICH reply a result position holds. Differences to the original:
//   - commands are read by a separate goroutine per connection and logged on arrival, so the
//     harness sees what reached the server even while a reply is being held back;
//   - Hold(keys): replies that involve one of the keys are held until Release();
//   - key kinds by substring: "nil" -> null reply, "err" -> -ERR reply (GET only),
//     "abort" -> the EXEC of the transaction that contains the key answers -EXECABORT.
//
// Redis semantics assumed (trusted base): commands on one connection are answered in order, one
// reply per command; MULTI..EXEC queues (+QUEUED) and EXEC answers the array of the replies;
// MGET / JSON.MGET answer one element per key, positionally.

import (
	"bufio"
	"context"
	"crypto/tls"
	"errors"
	"fmt"
	"io"
	"net"
	"strconv"
	"strings"
	"sync"
)

type Event struct {
	Conn int
	Argv []string
}

type Server struct {
	mu     sync.Mutex
	events []Event // user commands in arrival order
	nconn  int
	mid    int
	hold   map[string]bool
	holdCh chan struct{}
	conns  []net.Conn
}

func NewServer() *Server { return &Server{} }

func (s *Server) Events() []Event {
	s.mu.Lock()
	defer s.mu.Unlock()
	return append([]Event(nil), s.events...)
}

func (s *Server) NEvents() int {
	s.mu.Lock()
	defer s.mu.Unlock()
	return len(s.events)
}

func (s *Server) Mid() int {
	s.mu.Lock()
	defer s.mu.Unlock()
	return s.mid
}

// Hold makes every later reply that involves one of the keys wait for Release.
func (s *Server) Hold(keys []string) {
	s.mu.Lock()
	s.hold = map[string]bool{}
	for _, k := range keys {
		s.hold[k] = true
	}
	s.holdCh = make(chan struct{})
	s.mu.Unlock()
}

func (s *Server) Release() {
	s.mu.Lock()
	if s.holdCh != nil {
		close(s.holdCh)
		s.holdCh = nil
	}
	s.hold = nil
	s.mu.Unlock()
}

func (s *Server) waitHeld(keys []string) {
	s.mu.Lock()
	var ch chan struct{}
	for _, k := range keys {
		if s.hold[k] {
			ch = s.holdCh
		}
	}
	s.mu.Unlock()
	if ch != nil {
		<-ch
	}
}

func (s *Server) CloseAll() {
	s.mu.Lock()
	cs := append([]net.Conn(nil), s.conns...)
	s.mu.Unlock()
	for _, c := range cs {
		c.Close()
	}
}

// Dial matches rueidis.ClientOption.DialCtxFn.
func (s *Server) Dial(ctx context.Context, addr string, d *net.Dialer, cfg *tls.Config) (net.Conn, error) {
	if err := ctx.Err(); err != nil {
		return nil, err
	}
	c1, c2 := net.Pipe()
	s.mu.Lock()
	id := s.nconn
	s.nconn++
	s.conns = append(s.conns, c2)
	s.mu.Unlock()
	go s.serve(id, c2)
	return c1, nil
}

func readCommand(r *bufio.Reader) ([]string, error) {
	line, err := r.ReadString('\n')
	if err != nil {
		return nil, err
	}
	if len(line) < 3 || line[0] != '*' {
		return nil, errors.New("bad frame")
	}
	n, err := strconv.Atoi(strings.TrimSpace(line[1:]))
	if err != nil {
		return nil, err
	}
	argv := make([]string, n)
	for i := range argv {
		l, err := r.ReadString('\n')
		if err != nil {
			return nil, err
		}
		if l[0] != '$' {
			return nil, errors.New("bad bulk")
		}
		sz, err := strconv.Atoi(strings.TrimSpace(l[1:]))
		if err != nil {
			return nil, err
		}
		buf := make([]byte, sz+2)
		if _, err := io.ReadFull(r, buf); err != nil {
			return nil, err
		}
		argv[i] = string(buf[:sz])
	}
	return argv, nil
}

func bulk(s string) string { return fmt.Sprintf("$%d\r\n%s\r\n", len(s), s) }

// keysOf lists the keys of a user command (for Hold and the abort rule).
func keysOf(argv []string) []string {
	switch strings.ToUpper(argv[0]) {
	case "GET", "PTTL", "JSON.GET":
		if len(argv) > 1 {
			return argv[1:2]
		}
	case "MGET":
		return argv[1:]
	case "JSON.MGET":
		if len(argv) > 2 {
			return argv[1 : len(argv)-1]
		}
	}
	return nil
}

// reply is the frame for one keyed command.
func reply(argv []string, mid string) string {
	elem := func(key string) string {
		if strings.Contains(key, "nil") {
			return "_\r\n"
		}
		return bulk(key + "|" + mid)
	}
	switch strings.ToUpper(argv[0]) {
	case "GET", "JSON.GET":
		if len(argv) < 2 {
			break
		}
		if strings.Contains(argv[1], "err") {
			return "-ERR " + argv[1] + "|" + mid + "\r\n"
		}
		return elem(argv[1])
	case "PTTL":
		return ":-1\r\n"
	case "MGET", "JSON.MGET":
		ks := keysOf(argv)
		var b strings.Builder
		fmt.Fprintf(&b, "*%d\r\n", len(ks))
		for _, k := range ks {
			b.WriteString(elem(k))
		}
		return b.String()
	case "PING":
		return "+PONG\r\n"
	}
	return "-ERR unknown command '" + argv[0] + "'\r\n"
}

type item struct {
	argv []string
	user bool
}

func (s *Server) serve(id int, conn net.Conn) {
	defer conn.Close()
	r := bufio.NewReader(conn)
	w := bufio.NewWriter(conn)
	q := make(chan item, 1<<15)
	go func() { // reader: logs user commands on arrival
		defer close(q)
		user := false
		for {
			argv, err := readCommand(r)
			if err != nil {
				return
			}
			name := strings.ToUpper(argv[0])
			if !user {
				switch {
				case name == "HELLO", name == "AUTH", name == "SELECT", name == "READONLY",
					name == "CLIENT" && len(argv) > 1 && strings.ToUpper(argv[1]) != "CACHING":
					q <- item{argv, false}
					continue
				}
				user = true
			}
			s.mu.Lock()
			s.events = append(s.events, Event{Conn: id, Argv: argv})
			s.mu.Unlock()
			q <- item{argv, true}
		}
	}()
	send := func(build func(mid string) string) error {
		s.mu.Lock()
		s.mid++
		mid := s.mid
		s.mu.Unlock()
		if _, err := w.WriteString(build(strconv.Itoa(mid))); err != nil {
			return err
		}
		return w.Flush()
	}
	fixed := func(f string) func(string) string { return func(string) string { return f } }
	inMulti := false
	var queued [][]string
	for it := range q {
		argv := it.argv
		name := strings.ToUpper(argv[0])
		if !it.user {
			if name == "HELLO" {
				w.WriteString("%7\r\n" + bulk("server") + bulk("redis") + bulk("version") + bulk("7.2.0") + bulk("proto") + ":3\r\n" +
					bulk("id") + fmt.Sprintf(":%d\r\n", id+1) + bulk("mode") + bulk("standalone") + bulk("role") + bulk("master") + bulk("modules") + "*0\r\n")
			} else {
				w.WriteString("+OK\r\n")
			}
			w.Flush()
			continue
		}
		var err error
		switch {
		case name == "MULTI":
			inMulti, queued = true, nil
			err = send(fixed("+OK\r\n"))
		case name == "EXEC":
			if !inMulti {
				err = send(fixed("-ERR EXEC without MULTI\r\n"))
				break
			}
			inMulti = false
			var ks []string
			abort := false
			for _, c := range queued {
				for _, k := range keysOf(c) {
					ks = append(ks, k)
					if strings.Contains(k, "abort") {
						abort = true
					}
				}
			}
			qd := queued
			s.waitHeld(ks)
			if abort {
				err = send(fixed("-EXECABORT Transaction discarded because of previous errors.\r\n"))
				break
			}
			err = send(func(m string) string {
				var b strings.Builder
				fmt.Fprintf(&b, "*%d\r\n", len(qd))
				for _, c := range qd {
					b.WriteString(reply(c, m))
				}
				return b.String()
			})
		case name == "DISCARD":
			inMulti = false
			err = send(fixed("+OK\r\n"))
		case name == "CLIENT":
			err = send(fixed("+OK\r\n"))
		case inMulti:
			queued = append(queued, argv)
			err = send(fixed("+QUEUED\r\n"))
		default:
			s.waitHeld(keysOf(argv))
			err = send(func(m string) string { return reply(argv, m) })
		}
		if err != nil {
			return
		}
	}
}
