package main

// Suite `batch` (C11): batched cache reads of the REAL client (DoCache on MGET / JSON.MGET,
// DoMultiCache with and without static TTL) against the tag server, for prepared cache states.
//
// One episode = one op line (+ its `!` oracle line):
//
//	<kind> cfg=w<wires>.<store> st=<H|P|F|A per key id> vk=<v|n|e|a per key id> keys=<ids> kd=<wire per key id>
//
// The harness makes the state real: H keys are primed by an earlier call of the same kind, P/F
// keys are put in flight by a concurrent call whose reply the server holds back (F: the reply is
// a discarded transaction / an error), A keys are fresh. Then it runs the batch, releases the held
// replies once the batch has classified its keys, and reports
//
//	rw=<keys that reached the server, in order (per wire)> r=<per position: key id + source c|p|n>
//
// The Lean driver answers the same line from the model; the `!` line is answered from the
// specification (position i holds a reply of key i).

import (
	"context"
	"fmt"
	"sort"
	"strconv"
	"strings"
	"sync"
	"sync/atomic"
	"time"

	"github.com/redis/rueidis"
	"github.com/redis/rueidis/internal/cmds"
)

type rigCfg struct {
	wires int    // 1, 2, 4 connections (PipelineMultiplex -1, 1, 2)
	store string // "lru": the default store (DoMultiCache uses lru.Flights) | "wrap": a wrapper (per-command Flight)
}

func (g rigCfg) String() string { return fmt.Sprintf("w%d.%s", g.wires, g.store) }

type rig struct {
	cfg        rigCfg
	srv        *Server
	client     rueidis.Client
	mu         sync.Mutex
	stores     []rueidis.CacheStore // the real lru of every connection
	emptyWaits atomic.Int64         // wrap only: Wait returned (typ 0, nil)
	waits      atomic.Int64
	episodes   int
}

type wrapStore struct {
	inner rueidis.CacheStore
	r     *rig
}

type wrapEntry struct {
	inner rueidis.CacheEntry
	r     *rig
}

func (w *wrapStore) Flight(key, cmd string, ttl time.Duration, now time.Time) (rueidis.RedisMessage, rueidis.CacheEntry) {
	v, e := w.inner.Flight(key, cmd, ttl, now)
	if e == nil {
		return v, nil
	}
	return v, &wrapEntry{e, w.r}
}
func (w *wrapStore) Update(key, cmd string, val rueidis.RedisMessage) int64 {
	return w.inner.Update(key, cmd, val)
}
func (w *wrapStore) Cancel(key, cmd string, err error)   { w.inner.Cancel(key, cmd, err) }
func (w *wrapStore) Delete(keys []rueidis.RedisMessage) { w.inner.Delete(keys) }
func (w *wrapStore) Close(err error)                     { w.inner.Close(err) }
func (e *wrapEntry) Wait(ctx context.Context) (rueidis.RedisMessage, error) {
	v, err := e.inner.Wait(ctx)
	e.r.waits.Add(1)
	if err == nil && rueidis.VerifMGetEmptyMessage(v) {
		e.r.emptyWaits.Add(1)
	}
	return v, err
}

func newRig(g rigCfg) (*rig, error) {
	r := &rig{cfg: g, srv: NewServer()}
	pm := map[int]int{1: -1, 2: 1, 4: 2}[g.wires]
	client, err := rueidis.NewClient(rueidis.ClientOption{
		InitAddress: []string{"tagsrv:6379"}, DialCtxFn: r.srv.Dial, ForceSingleClient: true, DisableRetry: true,
		PipelineMultiplex: pm, ConnWriteTimeout: 30 * time.Second, BlockingPoolSize: 2,
		NewCacheStoreFn: func(opt rueidis.CacheStoreOption) rueidis.CacheStore {
			s := rueidis.VerifNewLRU(64 << 20)
			r.mu.Lock()
			r.stores = append(r.stores, s)
			r.mu.Unlock()
			if g.store == "wrap" {
				return &wrapStore{s, r}
			}
			return s
		},
	})
	if err != nil {
		return nil, err
	}
	r.client = client
	return r, nil
}

func (r *rig) close() {
	done := make(chan struct{})
	go func() { r.client.Close(); close(done) }()
	select {
	case <-done:
	case <-time.After(2 * time.Second):
	}
	r.srv.CloseAll()
}

// hits sums keyCache.hits of the given keys over all connection stores.
func (r *rig) hits(names map[string]bool) map[string]uint32 {
	out := map[string]uint32{}
	r.mu.Lock()
	stores := append([]rueidis.CacheStore(nil), r.stores...)
	r.mu.Unlock()
	for _, s := range stores {
		snap := rueidis.VerifLRUSnapshot(s)
		for _, k := range snap.Store {
			if names[k.Key] {
				out[k.Key] += k.Hits
			}
		}
	}
	return out
}

type episode struct {
	kind string
	st   string
	vk   string
	keys []int
	kd   []int
}

func (e episode) line(g rigCfg) string {
	return fmt.Sprintf("%s cfg=%s st=%s vk=%s keys=%s kd=%s", e.kind, g, e.st, e.vk, joinInts(e.keys), joinInts(e.kd))
}

func joinInts(l []int) string {
	if len(l) == 0 {
		return "-"
	}
	s := make([]string, len(l))
	for i, v := range l {
		s[i] = strconv.Itoa(v)
	}
	return strings.Join(s, ",")
}

func isMGetKind(kind string) bool { return kind == "mget" || kind == "jmget" }

// helper kinds: rueidis.MGetCache / rueidis.JsonMGetCache (DoMultiCache of GET / JSON.GET + key -> result map)
func isHelperKind(kind string) bool { return kind == "hmget" || kind == "hjmget" }

var epCounter atomic.Int64

// names builds one key string per key id whose mux wire (slot & (wires-1)) is kd[id].
func (r *rig) names(e episode) []string {
	ep := epCounter.Add(1)
	mask := uint16(r.cfg.wires - 1)
	word := func(id int) string {
		if e.st[id] == 'F' {
			if e.kind == "multis" {
				return "err"
			}
			return "abort"
		}
		switch e.vk[id] {
		case 'n':
			return "nil"
		case 'e':
			return "err"
		case 'a':
			return "abort"
		}
		return "val"
	}
	out := make([]string, len(e.st))
	if isMGetKind(e.kind) { // one hash tag: the whole command lives on one wire
		tag := ""
		for j := 0; ; j++ {
			tag = fmt.Sprintf("{e%dx%d}", ep, j)
			if cmds.Slot(tag+"k")&mask == uint16(e.kd[0])&mask {
				break
			}
		}
		for id := range out {
			out[id] = fmt.Sprintf("%sk%d%s", tag, id, word(id))
		}
		return out
	}
	for id := range out {
		for j := 0; ; j++ {
			out[id] = fmt.Sprintf("e%dk%d%sx%d", ep, id, word(id), j)
			if cmds.Slot(out[id])&mask == uint16(e.kd[id])&mask {
				break
			}
		}
	}
	return out
}

type callOut struct {
	res []rueidis.RedisResult // one per key (mget: the elements of the array, wrapped)
	err error                 // mget kinds: the error of the whole call
	arr []rueidis.RedisMessage
}

// call issues one batched cache read of the given kind for the keys.
func (r *rig) call(kind string, names []string) callOut {
	ctx, cancel := context.WithTimeout(context.Background(), 10*time.Second)
	defer cancel()
	c := r.client
	switch kind {
	case "mget":
		res := c.DoCache(ctx, c.B().Mget().Key(names...).Cache(), time.Minute)
		arr, err := res.ToArray()
		return callOut{arr: arr, err: err}
	case "jmget":
		res := c.DoCache(ctx, c.B().JsonMget().Key(names...).Path("$").Cache(), time.Minute)
		arr, err := res.ToArray()
		return callOut{arr: arr, err: err}
	case "hmget", "hjmget":
		var m map[string]rueidis.RedisMessage
		var err error
		if kind == "hmget" {
			m, err = rueidis.MGetCache(c, ctx, time.Minute, names)
		} else {
			m, err = rueidis.JsonMGetCache(c, ctx, time.Minute, names, "$")
		}
		if err != nil {
			return callOut{err: err}
		}
		arr := make([]rueidis.RedisMessage, len(names))
		for i, n := range names {
			arr[i] = m[n] // a missing key shows as the empty message
		}
		return callOut{arr: arr}
	case "multi", "multis":
		cs := make([]rueidis.CacheableTTL, len(names))
		for i, n := range names {
			cmd := c.B().Get().Key(n).Cache()
			if kind == "multis" {
				cmd = cmd.ToStaticTTL()
			}
			cs[i] = rueidis.CT(cmd, time.Minute)
		}
		res := c.DoMultiCache(ctx, cs...)
		return callOut{res: append([]rueidis.RedisResult(nil), res...)}
	}
	panic("kind")
}

// payload renders one result position: "v:<key>|<mid>", "nil", "E:<key>|<mid>", "X", "T:<text>", "EMPTY".
func payloadRes(r rueidis.RedisResult) string {
	if rueidis.VerifMGetEmptyResult(r) {
		return "EMPTY"
	}
	if err := r.Error(); err != nil {
		if rueidis.IsRedisNil(err) {
			return "nil"
		}
		if re, ok := rueidis.IsRedisErr(err); ok {
			s := strings.TrimSpace(strings.TrimPrefix(re.Error(), "ERR "))
			if strings.Contains(s, "|") {
				return "E:" + s
			}
			return "T:redis:" + strings.ReplaceAll(s, " ", "_")
		}
		if err == rueidis.ErrDoCacheAborted {
			return "X"
		}
		return "T:" + strings.ReplaceAll(err.Error(), " ", "_")
	}
	m, _ := r.ToMessage()
	return payloadMsg(m)
}

func payloadMsg(m rueidis.RedisMessage) string {
	if rueidis.VerifMGetEmptyMessage(m) {
		return "EMPTY"
	}
	if m.IsNil() {
		return "nil"
	}
	if s, err := m.ToString(); err == nil {
		return "v:" + s
	}
	if err := m.Error(); err != nil {
		s := strings.TrimSpace(strings.TrimPrefix(err.Error(), "ERR "))
		if strings.Contains(s, "|") {
			return "E:" + s
		}
	}
	return "T:shape"
}

func (o callOut) payloads(n int) []string {
	out := make([]string, 0, n)
	if o.res != nil {
		for _, r := range o.res {
			out = append(out, payloadRes(r))
		}
		return out
	}
	for _, m := range o.arr {
		out = append(out, payloadMsg(m))
	}
	return out
}

func errDesc(err error) string {
	if err == rueidis.ErrDoCacheAborted {
		return "X"
	}
	if rueidis.IsRedisNil(err) {
		return "nil"
	}
	return "T:" + strings.ReplaceAll(err.Error(), " ", "_")
}

func waitUntil(d time.Duration, cond func() bool) bool {
	deadline := time.Now().Add(d)
	for i := 0; ; i++ {
		if cond() {
			return true
		}
		if time.Now().After(deadline) {
			return false
		}
		if i < 50 {
			time.Sleep(20 * time.Microsecond)
		} else {
			time.Sleep(200 * time.Microsecond)
		}
	}
}

func fetchEvents(evs []Event) (mgets []Event, gets []Event) {
	for _, ev := range evs {
		switch strings.ToUpper(ev.Argv[0]) {
		case "MGET", "JSON.MGET":
			mgets = append(mgets, ev)
		case "GET", "JSON.GET":
			gets = append(gets, ev)
		}
	}
	return
}

// run executes one episode on the real client; it returns the model-line answer and the oracle-line answer.
func (r *rig) run(c *Ctx, e episode) (ans, orc string) {
	r.episodes++
	names := r.names(e)
	idOf := map[string]int{}
	for id, n := range names {
		idOf[n] = id
	}
	var hk, pk, fk []string
	held := map[string]bool{}
	for id, n := range names {
		switch e.st[id] {
		case 'H':
			hk = append(hk, n)
		case 'P':
			pk = append(pk, n)
			held[n] = true
		case 'F':
			fk = append(fk, n)
			held[n] = true
		}
	}
	// --- H: prime through the same kind of call
	primed := map[int]string{}
	if len(hk) > 0 {
		o := r.call(e.kind, hk)
		ps := o.payloads(len(hk))
		if o.err != nil || len(ps) != len(hk) {
			return "setup-failed:prime:" + fmt.Sprint(o.err), "setup-failed"
		}
		for i, n := range hk {
			primed[idOf[n]] = ps[i]
		}
	}
	// --- P / F: put in flight, replies held
	var wg sync.WaitGroup
	pend := map[int]string{}
	var pmu sync.Mutex
	if len(held) > 0 {
		hn := make([]string, 0, len(held))
		for n := range held {
			hn = append(hn, n)
		}
		r.srv.Hold(hn)
		ev0 := r.srv.NEvents()
		launch := func(ks []string) {
			wg.Add(1)
			go func() {
				defer wg.Done()
				o := r.call(e.kind, ks)
				ps := o.payloads(len(ks))
				pmu.Lock()
				for i, n := range ks {
					if i < len(ps) {
						pend[idOf[n]] = ps[i]
					}
				}
				pmu.Unlock()
			}()
		}
		want := 0
		if isMGetKind(e.kind) || isHelperKind(e.kind) { // a failing flight fails the whole call: keep P and F apart
			for _, ks := range [][]string{pk, fk} {
				if len(ks) > 0 {
					launch(ks)
					if isMGetKind(e.kind) {
						want++
					} else {
						want += len(ks)
					}
				}
			}
		} else {
			launch(append(append([]string(nil), pk...), fk...))
			want = len(pk) + len(fk)
		}
		last := "EXEC" // the command that completes one fetch on the wire
		if e.kind == "multis" {
			last = "GET"
		}
		ok := waitUntil(3*time.Second, func() bool {
			n := 0
			for _, ev := range r.srv.Events()[ev0:] {
				if strings.ToUpper(ev.Argv[0]) == last {
					n++
				}
			}
			return n >= want
		})
		if !ok {
			r.srv.Release()
			wg.Wait()
			return "setup-failed:pending-not-sent", "setup-failed"
		}
	}
	// --- the batch
	base := map[string]uint32{}
	occ := map[string]uint32{}
	if len(held) > 0 {
		base = r.hits(held)
		for _, k := range e.keys {
			if held[names[k]] {
				occ[names[k]]++
			}
		}
	}
	evB, midB := r.srv.NEvents(), r.srv.Mid()
	batch := make([]string, len(e.keys))
	for i, k := range e.keys {
		batch[i] = names[k]
	}
	var out callOut
	done := make(chan struct{})
	go func() {
		out = r.call(e.kind, batch)
		close(done)
	}()
	if len(held) > 0 {
		ok := waitUntil(2*time.Second, func() bool {
			h := r.hits(held)
			for n, o := range occ {
				if h[n] < base[n]+o {
					return false
				}
			}
			return true
		})
		if ok {
			c.Hit("pending-confirmed")
		} else {
			c.Hit("pending-unconfirmed")
		}
		r.srv.Release()
	}
	select {
	case <-done:
	case <-time.After(15 * time.Second):
		return "timeout", "timeout"
	}
	wg.Wait()
	// --- what reached the server for the batch
	evs := r.srv.Events()[evB:]
	mgets, gets := fetchEvents(evs)
	rw := "-"
	if isMGetKind(e.kind) {
		var parts []string
		for _, ev := range mgets {
			ks := keysOf(ev.Argv)
			ids := make([]int, len(ks))
			for i, k := range ks {
				id, ok := idOf[k]
				if !ok {
					id = 999
				}
				ids[i] = id
			}
			parts = append(parts, joinInts(ids))
		}
		if len(parts) > 0 {
			rw = strings.Join(parts, "+")
		}
	} else {
		perConn := map[int][]int{}
		var order []int
		for _, ev := range gets {
			id, ok := idOf[ev.Argv[1]]
			if !ok {
				id = 999
			}
			if _, seen := perConn[ev.Conn]; !seen {
				order = append(order, ev.Conn)
			}
			perConn[ev.Conn] = append(perConn[ev.Conn], id)
		}
		var parts []string
		for _, cn := range order {
			ids := perConn[cn]
			d := 0
			if ids[0] < len(e.kd) {
				d = e.kd[ids[0]]
			}
			parts = append(parts, fmt.Sprintf("%d:%s", d, joinInts(ids)))
		}
		sort.Strings(parts)
		if len(parts) > 0 {
			rw = strings.Join(parts, ";")
		}
		if bad := shapeCheck(evs, e.kind == "multis"); bad != "" {
			rw += " shape=" + bad
		}
	}
	// --- the results, position by position
	desc := func(p string, withSrc bool) string {
		switch {
		case p == "nil", p == "X", p == "EMPTY":
			return p
		case strings.HasPrefix(p, "E:"):
			tag := p[2:]
			if i := strings.IndexByte(tag, '|'); i >= 0 {
				tag = tag[:i]
			}
			if id, ok := idOf[tag]; ok {
				return fmt.Sprintf("%dE", id)
			}
			return "?" + p
		case strings.HasPrefix(p, "v:"):
			s := p[2:]
			i := strings.IndexByte(s, '|')
			if i < 0 {
				return "?" + p
			}
			id, ok := idOf[s[:i]]
			if !ok {
				return "?" + p
			}
			if !withSrc {
				return strconv.Itoa(id)
			}
			mid, _ := strconv.Atoi(s[i+1:])
			switch {
			case primed[id] == p:
				return fmt.Sprintf("%dc", id)
			case pend[id] == p:
				return fmt.Sprintf("%dp", id)
			case mid > midB:
				return fmt.Sprintf("%dn", id)
			}
			return fmt.Sprintf("%d?", id)
		}
		return p
	}
	op := e.line(r.cfg)
	if out.err != nil {
		d := errDesc(out.err)
		return fmt.Sprintf("rw=%s err=%s", rw, d), "err=" + d
	}
	ps := out.payloads(len(batch))
	var ds, os []string
	for _, p := range ps {
		if p == "EMPTY" {
			c.Fail("c11:hypothesis:empty-result", op, "a position of the result is the empty value (typ 0, nil error)")
		}
		ds = append(ds, desc(p, true))
		os = append(os, desc(p, false))
	}
	if n := r.emptyWaits.Swap(0); n > 0 {
		c.Fail("c11:hypothesis:empty-wait", op, fmt.Sprintf("%d CacheEntry.Wait call(s) returned the empty message without an error", n))
	}
	j := func(l []string) string {
		if len(l) == 0 {
			return "-"
		}
		return strings.Join(l, ",")
	}
	return fmt.Sprintf("rw=%s r=%s", rw, j(ds)), "r=" + j(os)
}

// shapeCheck verifies that, per connection, the batch's commands are whole groups
// [CLIENT CACHING YES, MULTI, PTTL k, GET k, EXEC] (stride 5) or [CLIENT CACHING YES, GET k] (stride 2).
func shapeCheck(evs []Event, stride2 bool) string {
	per := map[int][]Event{}
	for _, ev := range evs {
		per[ev.Conn] = append(per[ev.Conn], ev)
	}
	for cn, l := range per {
		want := []string{"CLIENT", "MULTI", "PTTL", "GET", "EXEC"}
		if stride2 {
			want = []string{"CLIENT", "GET"}
		}
		if len(l)%len(want) != 0 {
			return fmt.Sprintf("conn%d:len%d", cn, len(l))
		}
		for i, ev := range l {
			name := strings.ToUpper(ev.Argv[0])
			if name == "JSON.GET" {
				name = "GET"
			}
			if name != want[i%len(want)] {
				return fmt.Sprintf("conn%d:at%d:%s", cn, i, ev.Argv[0])
			}
			if !stride2 && i%5 == 3 && l[i-1].Argv[1] != ev.Argv[1] {
				return fmt.Sprintf("conn%d:pttl-key", cn)
			}
		}
	}
	return ""
}

// ---- generators ---------------------------------------------------------------------------

// partitions enumerates all key lists of length n in restricted-growth form (every way positions
// can share keys) together with the number of distinct keys.
func partitions(n int) [][]int {
	var out [][]int
	var rec func(cur []int, m int)
	rec = func(cur []int, m int) {
		if len(cur) == n {
			out = append(out, append([]int(nil), cur...))
			return
		}
		for k := 0; k <= m; k++ {
			nm := m
			if k == m {
				nm = m + 1
			}
			rec(append(cur, k), nm)
		}
	}
	rec(nil, 0)
	return out
}

func distinct(keys []int) int {
	m := 0
	for _, k := range keys {
		if k+1 > m {
			m = k + 1
		}
	}
	return m
}

// states enumerates all strings of length m over the alphabet.
func states(m int, alphabet string) []string {
	out := []string{""}
	for i := 0; i < m; i++ {
		var nx []string
		for _, s := range out {
			for _, a := range alphabet {
				nx = append(nx, s+string(a))
			}
		}
		out = nx
	}
	return out
}

func (r *rig) randKd(c *Ctx, e *episode) {
	m := len(e.st)
	e.kd = make([]int, m)
	if isMGetKind(e.kind) {
		w := c.Rng.IntN(r.cfg.wires)
		for i := range e.kd {
			e.kd[i] = w
		}
		return
	}
	mode := c.Rng.IntN(4)
	for i := range e.kd {
		switch mode {
		case 0: // everything on one wire (the LessThen(2) shortcut)
			e.kd[i] = e.kd[0]
			if i == 0 {
				e.kd[0] = c.Rng.IntN(r.cfg.wires)
			}
		default:
			e.kd[i] = c.Rng.IntN(r.cfg.wires)
		}
	}
}

func randVk(c *Ctx, kind, st string, plain bool) string {
	b := make([]byte, len(st))
	for i := range b {
		b[i] = 'v'
		if plain {
			continue
		}
		x := c.Rng.IntN(10)
		switch st[i] {
		case 'H', 'P':
			if x == 0 {
				b[i] = 'n'
			}
		case 'A':
			switch {
			case x == 0:
				b[i] = 'n'
			case x == 1 && !isMGetKind(kind):
				b[i] = 'e'
			case x == 2 && kind != "multis":
				b[i] = 'a'
			}
		}
	}
	return string(b)
}

var allKinds = []string{"mget", "jmget", "multi", "multis", "hmget", "hjmget"}
var allCfgs = []rigCfg{{1, "lru"}, {2, "lru"}, {4, "lru"}, {1, "wrap"}, {2, "wrap"}, {4, "wrap"}}

type rigs struct {
	m map[rigCfg]*rig
}

func (rs *rigs) get(g rigCfg) *rig {
	if r, ok := rs.m[g]; ok && r.episodes < 400 {
		return r
	} else if ok {
		r.close()
	}
	r, err := newRig(g)
	if err != nil {
		panic(err)
	}
	rs.m[g] = r
	return r
}

func (rs *rigs) closeAll() {
	for _, r := range rs.m {
		r.close()
	}
}

func emitEpisode(c *Ctx, r *rig, e episode) {
	op := e.line(r.cfg)
	ans, orc := r.run(c, e)
	classes := map[byte]bool{}
	for _, k := range e.keys {
		classes[e.st[k]] = true
	}
	nontrivial := len(e.keys) >= 2 && (len(classes) >= 2 || distinct(e.keys) < len(e.keys))
	c.Emit(op, ans, nontrivial)
	c.Emit("!"+op, orc, false)
	c.Hit("kind:" + e.kind)
	c.Hit("cfg:" + r.cfg.String())
	if distinct(e.keys) < len(e.keys) {
		c.Hit("duplicates")
	}
	for cl := range classes {
		c.Hit("class:" + string(cl))
	}
	if strings.HasPrefix(ans, "setup-failed") || ans == "timeout" {
		c.Hit("setup-failed")
	}
}

func runBatch(c *Ctx) {
	rs := &rigs{m: map[rigCfg]*rig{}}
	defer rs.closeAll()
	thorough := c.Tier == "thorough"
	rot := 0
	pick := func() (string, rigCfg) { // rotate over the 24 (kind, cfg) combinations
		rot++
		return allKinds[rot%len(allKinds)], allCfgs[(rot/len(allKinds))%len(allCfgs)]
	}
	// 1. exhaustive: every sharing pattern of length <= 3 (quick) / 4 (thorough) with every H/P/F/A
	//    assignment, on every kind and every configuration
	exN := 3
	if thorough {
		exN = 4
	}
	for n := 1; n <= exN; n++ {
		for _, keys := range partitions(n) {
			for _, st := range states(distinct(keys), "HPFA") {
				for _, kind := range allKinds {
					for _, g := range allCfgs {
						r := rs.get(g)
						e := episode{kind: kind, st: st, vk: randVk(c, kind, st, true), keys: keys}
						r.randKd(c, &e)
						emitEpisode(c, r, e)
					}
				}
			}
		}
	}
	// 2. quick: length 4 with sharing, each pattern on one rotating combination
	if !thorough {
		for _, keys := range partitions(4) {
			for _, st := range states(distinct(keys), "HPFA") {
				kind, g := pick()
				r := rs.get(g)
				e := episode{kind: kind, st: st, vk: randVk(c, kind, st, false), keys: keys}
				r.randKd(c, &e)
				emitEpisode(c, r, e)
			}
		}
	}
	// 3. all hit/pending/miss patterns of length 5 and 6 over distinct keys (3^5 + 3^6), every kind,
	//    one rotating configuration (thorough: three), half of them in a variant with duplicates
	for n := 5; n <= 6; n++ {
		for _, st := range states(n, "HPA") {
			keys := make([]int, n)
			for i := range keys {
				keys[i] = i
			}
			for _, kind := range allKinds {
				_, g := pick()
				cfgs := []rigCfg{g}
				if thorough { // three of the six configurations, rotating
					for k := 1; k <= 2; k++ {
						cfgs = append(cfgs, allCfgs[(rot/len(allKinds)+2*k)%len(allCfgs)])
					}
				}
				for _, g := range cfgs {
					r := rs.get(g)
					e := episode{kind: kind, st: st, vk: randVk(c, kind, st, false), keys: keys}
					if c.Rng.IntN(2) == 0 { // duplicate variant: some positions repeat another position's key
						dk := append([]int(nil), keys...)
						for t := 0; t < 1+c.Rng.IntN(2); t++ {
							dk[c.Rng.IntN(n)] = dk[c.Rng.IntN(n)]
						}
						e.keys = dk
					}
					r.randKd(c, &e)
					emitEpisode(c, r, e)
				}
			}
		}
	}
	// 4. random, longer
	for i := 0; i < c.N; i++ {
		kind, g := pick()
		r := rs.get(g)
		m := 1 + c.Rng.IntN(12)
		n := m + c.Rng.IntN(8)
		if c.Rng.IntN(10) == 0 {
			n = 20 + c.Rng.IntN(60)
			m = 1 + c.Rng.IntN(n)
		}
		sb := make([]byte, m)
		for j := range sb {
			sb[j] = "HPFAAA"[c.Rng.IntN(6)]
		}
		keys := make([]int, 0, n)
		for j := 0; j < m; j++ { // every key occurs
			keys = append(keys, j)
		}
		for len(keys) < n {
			keys = append(keys, c.Rng.IntN(m))
		}
		c.Rng.Shuffle(len(keys), func(a, b int) { keys[a], keys[b] = keys[b], keys[a] })
		e := episode{kind: kind, st: string(sb), vk: randVk(c, kind, string(sb), false), keys: keys}
		r.randKd(c, &e)
		emitEpisode(c, r, e)
	}
}

func parseEpisode(line string) (episode, rigCfg, bool) {
	ws := strings.Fields(line)
	if len(ws) < 6 {
		return episode{}, rigCfg{}, false
	}
	e := episode{kind: ws[0]}
	g := rigCfg{1, "lru"}
	ints := func(s string) []int {
		if s == "-" {
			return nil
		}
		var out []int
		for _, x := range strings.Split(s, ",") {
			v, _ := strconv.Atoi(x)
			out = append(out, v)
		}
		return out
	}
	for _, w := range ws[1:] {
		kv := strings.SplitN(w, "=", 2)
		if len(kv) != 2 {
			continue
		}
		switch kv[0] {
		case "cfg":
			fmt.Sscanf(kv[1], "w%d.", &g.wires)
			if i := strings.IndexByte(kv[1], '.'); i >= 0 {
				g.store = kv[1][i+1:]
			}
		case "st":
			e.st = kv[1]
		case "vk":
			e.vk = kv[1]
		case "keys":
			e.keys = ints(kv[1])
		case "kd":
			e.kd = ints(kv[1])
		}
	}
	if g.wires != 1 && g.wires != 2 && g.wires != 4 {
		return e, g, false
	}
	for _, k := range e.keys {
		if k >= len(e.st) || k >= len(e.vk) || k >= len(e.kd) {
			return e, g, false
		}
	}
	return e, g, len(e.st) == len(e.vk) && len(e.st) == len(e.kd)
}

func replayBatch(c *Ctx, lines []string) {
	rs := &rigs{m: map[rigCfg]*rig{}}
	defer rs.closeAll()
	prev := ""
	for _, l := range lines {
		if strings.HasPrefix(l, "!") { // an oracle line alone (replay of a failing input): run its episode
			l = l[1:]
			if l == prev {
				continue
			}
		}
		prev = l
		e, g, ok := parseEpisode(l)
		if !ok {
			c.Emit(l, "bad-op", false)
			continue
		}
		emitEpisode(c, rs.get(g), e)
	}
}

func init() {
	suites["batch"] = suite{
		rule:   "distinct op lines with at least two positions that mix cache classes (hit / in flight / failing flight / absent) or repeat a key",
		run:    runBatch,
		replay: replayBatch,
	}
}
