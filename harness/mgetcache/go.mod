module github.com/redis/rueidis/zzverif/mgetcache

go 1.25.0

require github.com/redis/rueidis v0.0.0

require golang.org/x/sys v0.43.0 // indirect

replace github.com/redis/rueidis => /repo
