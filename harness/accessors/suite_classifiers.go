package main

import (
	"reflect"
	"strings"

	"github.com/redis/rueidis"
)

var clsMethods = func() []string {
	t := reflect.TypeOf(&rueidis.RedisError{})
	var names []string
	for i := 0; i < t.NumMethod(); i++ {
		names = append(names, t.Method(i).Name)
	}
	return names // reflect lists methods sorted by name
}()

// normAddr is the specification of the address normalisation (Rv.Shapes.normAddr):
// an un-bracketed IPv6 host:port gets brackets, anything else is returned as is.
func normAddr(a string) string {
	if strings.IndexByte(a, '.') >= 0 || a == "" || a[0] == '[' {
		return a
	}
	i := strings.LastIndexByte(a, ':')
	if i < 0 {
		return a
	}
	host, port := a[:i], a[i+1:]
	if strings.IndexByte(host, ':') >= 0 {
		return "[" + host + "]:" + port
	}
	return host + ":" + port
}

func classifiersOp(c *Ctx, line string) {
	w := strings.Fields(line)
	switch w[0] {
	case "cls":
		text := unhx(w[1])
		e := rueidis.VerifRedisError(rueidis.VerifMsg('-', text, 0, nil, nil))
		parts := make([]string, 0, len(clsMethods))
		for _, name := range clsMethods {
			ans := callAcc(reflect.ValueOf(e), name)
			if ans == "panic" {
				c.Hit("panic")
				c.Fail("panic:RedisError."+name+":"+w[1], line, "RedisError."+name+" panicked on error text "+strconvQuote(text))
			}
			parts = append(parts, name+"="+ans)
		}
		c.Emit(line, strings.Join(parts, " | "), strings.Contains(text, " "))
	case "!redir":
		// !redir <MOVED|ASK|REDIRECT> <hex text> : a text of the documented form; the spec answer is computed by the Lean side
		text := unhx(w[2])
		e := rueidis.VerifRedisError(rueidis.VerifMsg('-', text, 0, nil, nil))
		name := map[string]string{"MOVED": "IsMoved", "ASK": "IsAsk", "REDIRECT": "IsRedirect"}[w[1]]
		c.Hit("oracle:" + w[1])
		c.Emit(line, callAcc(reflect.ValueOf(e), name), true)
	default:
		panic("unknown op " + w[0])
	}
}

func strconvQuote(s string) string { return "\"" + strings.ToValidUTF8(s, "?") + "\"" }

func runClassifiers(c *Ctx) {
	prefixes := []string{"MOVED", "ASK", "REDIRECT", "ERR", "MOVEDX", "ASKING", "REDIRECTED", "moved", "", "TRYAGAIN", "LOADING",
		"CLUSTERDOWN", "NOSCRIPT", "BUSYGROUP", "MOVE", "AS", "REDIREC", "TRYAGAIN x", "BUSYGROUP Consumer Group name already exists"}
	addrs := []string{"127.0.0.1:6379", "::1:6379", "[::1]:6379", "host:6379", "2001:db8::1:7000", "", ":", "a", ":6379", "[", "1.2.3.4",
		"fe80::1%eth0:6379", "a.b:1", "::", "host:", "[::1]", "1", "3999"}
	seen := map[string]bool{}
	emit := func(text string) {
		if !seen[text] {
			seen[text] = true
			classifiersOp(c, "cls "+hx(text))
		}
	}
	// exhaustive: prefix x 0..4 further tokens drawn from the address shapes (empty tokens = double spaces)
	var rec func(text string, depth int)
	rec = func(text string, depth int) {
		emit(text)
		if depth == 0 {
			return
		}
		pool := addrs
		if depth < 3 {
			pool = addrs[:8] // keep the sweep small at depth
		}
		for _, a := range pool {
			rec(text+" "+a, depth-1)
		}
	}
	depth := 3
	if c.Tier == "thorough" {
		depth = 4
	}
	for i, p := range prefixes {
		if i < 3 {
			rec(p, depth) // MOVED / ASK / REDIRECT get the deep sweep
		} else {
			rec(p, 3)
		}
	}
	// oracle: texts of the documented form MOVED <slot> <addr> / ASK <slot> <addr> / REDIRECT <addr>
	for _, a := range addrs {
		if strings.Contains(a, " ") {
			continue
		}
		for _, slot := range []string{"0", "3999", "16383"} {
			classifiersOp(c, "!redir MOVED "+hx("MOVED "+slot+" "+a))
			classifiersOp(c, "!redir ASK "+hx("ASK "+slot+" "+a))
		}
		classifiersOp(c, "!redir REDIRECT "+hx("REDIRECT "+a))
	}
	// random texts
	for k := 0; k < c.N; k++ {
		n := c.Rng.IntN(5)
		t := prefixes[c.Rng.IntN(len(prefixes))]
		for ; n > 0; n-- {
			if c.Rng.IntN(5) == 0 {
				t += " "
			} else {
				t += " " + addrs[c.Rng.IntN(len(addrs))]
			}
		}
		emit(t)
	}
}

func init() {
	suites["classifiers"] = suite{
		rule: "error texts: exhaustive over 19 prefixes (MOVED/ASK/REDIRECT, near misses, the other classifier words) x 0-3 (thorough 0-4) further space-separated tokens drawn from 18 address shapes incl. IPv4, bare and bracketed IPv6, empty parts; every exported method of *RedisError by reflection with recover; `!redir` lines compare documented-form texts with the address specification; non-trivial = text with a space, distinct",
		run:  runClassifiers,
		replay: func(c *Ctx, lines []string) {
			for _, l := range lines {
				classifiersOp(c, l)
			}
		},
	}
}
