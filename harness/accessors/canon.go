package main

import (
	"encoding/json"
	"errors"
	"io"
	"math"
	"math/big"
	"reflect"
	"sort"
	"strconv"
	"strings"

	"github.com/redis/rueidis"
)

// ---- reply trees -----------------------------------------------------------

// node is a reply tree in the harness; msg() turns it into a real RedisMessage.
type node struct {
	typ    byte
	str    string
	intlen int64
	kids   []*node
	attr   *node
}

func isAggTyp(t byte) bool { return t == '*' || t == '%' || t == '~' || t == '>' || t == '|' }

// hasArr says whether the RedisMessage gets a non-nil array pointer: aggregate types always
// (as the decoder does, also for empty aggregates), other types only when given children.
func (n *node) hasArr() bool { return isAggTyp(n.typ) || len(n.kids) > 0 }

func (n *node) msg() rueidis.RedisMessage {
	var arr []rueidis.RedisMessage
	if n.hasArr() {
		arr = make([]rueidis.RedisMessage, len(n.kids))
		for i, k := range n.kids {
			arr[i] = k.msg()
		}
	}
	var attrs *rueidis.RedisMessage
	if n.attr != nil {
		a := n.attr.msg()
		attrs = &a
	}
	str := n.str
	if n.hasArr() {
		str = ""
	}
	return rueidis.VerifMsg(n.typ, str, n.intlen, arr, attrs)
}

// tokens: preorder `typ hex intlen nchildren hasattr`, with the field values the real message has.
func (n *node) tokens(b *strings.Builder) {
	str, il := n.str, n.intlen
	if n.hasArr() {
		str, il = "", int64(len(n.kids))
	} else if str != "" {
		il = int64(len(str))
	}
	b.WriteString(strconv.Itoa(int(n.typ)))
	b.WriteByte(' ')
	b.WriteString(hx(str))
	b.WriteByte(' ')
	b.WriteString(strconv.FormatInt(il, 10))
	b.WriteByte(' ')
	b.WriteString(strconv.Itoa(len(n.kids)))
	if n.attr != nil {
		b.WriteString(" 1")
	} else {
		b.WriteString(" 0")
	}
	for _, k := range n.kids {
		b.WriteByte(' ')
		k.tokens(b)
	}
	if n.attr != nil {
		b.WriteByte(' ')
		n.attr.tokens(b)
	}
}

func (n *node) line() string {
	var b strings.Builder
	n.tokens(&b)
	return b.String()
}

func parseNode(w []string) (*node, []string) {
	if len(w) < 5 {
		panic("short tree")
	}
	t, _ := strconv.Atoi(w[0])
	il, _ := strconv.ParseInt(w[2], 10, 64)
	nk, _ := strconv.Atoi(w[3])
	n := &node{typ: byte(t), str: unhx(w[1]), intlen: il}
	rest := w[5:]
	for i := 0; i < nk; i++ {
		var k *node
		k, rest = parseNode(rest)
		n.kids = append(n.kids, k)
	}
	if w[4] == "1" {
		n.attr, rest = parseNode(rest)
	}
	return n, rest
}

func (n *node) strings(set map[string]struct{}) {
	if !n.hasArr() {
		set[n.str] = struct{}{}
	}
	for _, k := range n.kids {
		k.strings(set)
	}
}

// tables: what strconv.ParseFloat and json.Valid say about every string of the tree
// (the model treats both as given, see Rv/Model/Accessors.lean).
func tables(strs map[string]struct{}) string {
	strs[""] = struct{}{}
	keys := make([]string, 0, len(strs))
	for s := range strs {
		keys = append(keys, s)
	}
	sort.Strings(keys)
	var b strings.Builder
	for _, s := range keys {
		v, err := strconv.ParseFloat(s, 64)
		b.WriteString(" F:")
		b.WriteString(hx(s))
		if err == nil {
			b.WriteString(":o:")
		} else {
			b.WriteString(":e:")
		}
		b.WriteString(canonFloat(v))
		if json.Valid([]byte(s)) {
			b.WriteString(" J:")
			b.WriteString(hx(s))
		}
	}
	return b.String()
}

func (n *node) tables() string {
	set := map[string]struct{}{}
	n.strings(set)
	return tables(set)
}

// ---- canonical values ------------------------------------------------------

func canonFloat(v float64) string {
	switch {
	case math.IsNaN(v):
		return "NaN"
	case math.IsInf(v, 1):
		return "+Inf"
	case math.IsInf(v, -1):
		return "-Inf"
	}
	if v == math.Trunc(v) && math.Abs(v) < 1e30 {
		bi, _ := new(big.Float).SetFloat64(v).Int(nil)
		return bi.String()
	}
	return strconv.FormatFloat(v, 'g', -1, 64)
}

func errClass(err error) string {
	if rueidis.IsRedisNil(err) {
		return "err:nil"
	}
	if rueidis.IsParseErr(err) {
		return "err:parse"
	}
	if re, ok := err.(*rueidis.RedisError); ok {
		return "err:redis:" + hx(re.Error())
	}
	var ne *strconv.NumError
	if errors.As(err, &ne) {
		tag := "strconv." + ne.Func
		if ne.Func != "ParseFloat" {
			if errors.Is(ne.Err, strconv.ErrRange) {
				tag += ":range"
			} else {
				tag += ":syntax"
			}
		}
		return "err:other:" + hx(tag)
	}
	var se *json.SyntaxError
	var ue *json.UnmarshalTypeError
	var ie *json.InvalidUnmarshalError
	if errors.As(err, &se) || errors.As(err, &ue) || errors.As(err, &ie) {
		return "err:other:" + hx("json")
	}
	return "err:other:" + hx(err.Error())
}

var (
	errorType  = reflect.TypeOf((*error)(nil)).Elem()
	readerType = reflect.TypeOf((*io.Reader)(nil)).Elem()
	msgType    = reflect.TypeOf(rueidis.RedisMessage{})
)

func canonVal(v reflect.Value) string {
	switch v.Kind() {
	case reflect.Int64, reflect.Int:
		return "i" + strconv.FormatInt(v.Int(), 10)
	case reflect.Uint64:
		return "u" + strconv.FormatUint(v.Uint(), 10)
	case reflect.Bool:
		if v.Bool() {
			return "T"
		}
		return "F"
	case reflect.Float64:
		return "f" + canonFloat(v.Float())
	case reflect.String:
		return "s" + hx(v.String())
	case reflect.Slice:
		if v.Type().Elem().Kind() == reflect.Uint8 {
			return "b" + hx(string(v.Bytes()))
		}
		parts := make([]string, v.Len())
		for i := range parts {
			parts[i] = canonVal(v.Index(i))
		}
		return "[" + strings.Join(parts, ",") + "]"
	case reflect.Map:
		if v.IsNil() {
			return "N"
		}
		keys := make([]string, 0, v.Len())
		for _, k := range v.MapKeys() {
			keys = append(keys, k.String())
		}
		sort.Strings(keys)
		parts := make([]string, len(keys))
		for i, k := range keys {
			parts[i] = hx(k) + "=" + canonVal(v.MapIndex(reflect.ValueOf(k)))
		}
		return "{" + strings.Join(parts, ",") + "}"
	case reflect.Struct:
		if v.Type() == msgType {
			m := v.Interface().(rueidis.RedisMessage)
			return "m" + rueidis.VerifDump(&m)
		}
		parts := make([]string, v.NumField())
		for i := range parts {
			parts[i] = canonVal(v.Field(i))
		}
		return "(" + strings.Join(parts, ";") + ")"
	case reflect.Interface:
		if v.IsNil() {
			return "N"
		}
		if v.Type().Implements(errorType) || v.Elem().Type().Implements(errorType) {
			if e, ok := v.Interface().(error); ok {
				return "E" + strings.TrimPrefix(errClass(e), "err:")
			}
		}
		if r, ok := v.Interface().(io.Reader); ok {
			b, _ := io.ReadAll(r)
			return "b" + hx(string(b))
		}
		return canonVal(v.Elem())
	}
	return "?" + v.Kind().String()
}

// canonOuts canonicalises the results of a method call: a trailing non-nil error wins.
func canonOuts(outs []reflect.Value) string {
	if n := len(outs); n > 0 && outs[n-1].Type() == errorType {
		if !outs[n-1].IsNil() {
			return errClass(outs[n-1].Interface().(error))
		}
		outs = outs[:n-1]
	}
	switch len(outs) {
	case 0:
		return "ok -"
	case 1:
		return "ok " + canonVal(outs[0])
	}
	parts := make([]string, len(outs))
	for i := range parts {
		parts[i] = canonVal(outs[i])
	}
	return "ok (" + strings.Join(parts, ";") + ")"
}
