package main

import (
	"encoding/json"
	"errors"
	"reflect"
	"sort"
	"strings"

	"github.com/redis/rueidis"
)

// Methods that are not reply accessors (client-side-cache bookkeeping is C17, String is
// the pretty printer). Every OTHER exported method of *RedisMessage / *RedisResult is
// called; one the model does not know makes the line differ from the model's.
var notAccessors = map[string]bool{
	"IsCacheHit": true, "CacheTTL": true, "CachePTTL": true, "CachePXAT": true,
	"CacheSize": true, "CacheMarshal": true, "CacheUnmarshalView": true, "String": true,
}

func methodNames(t reflect.Type) []string {
	var names []string
	for i := 0; i < t.NumMethod(); i++ {
		if n := t.Method(i).Name; !notAccessors[n] {
			names = append(names, n)
		}
	}
	sort.Strings(names)
	return names
}

var (
	msgMethods = methodNames(reflect.TypeOf(&rueidis.RedisMessage{}))
	resMethods = methodNames(reflect.TypeOf(&rueidis.RedisResult{}))
)

// callAcc calls method `name` on recv (a pointer) with recover and canonicalises the outcome.
func callAcc(recv reflect.Value, name string) (ans string) {
	defer func() {
		if r := recover(); r != nil {
			ans = "panic"
		}
	}()
	m := recv.MethodByName(name)
	if !m.IsValid() {
		return "nomethod"
	}
	mt := m.Type()
	switch {
	case mt.NumIn() == 0:
		return canonOuts(m.Call(nil))
	case name == "DecodeJSON" && mt.NumIn() == 1:
		var raw json.RawMessage
		outs := m.Call([]reflect.Value{reflect.ValueOf(&raw)})
		if !outs[0].IsNil() {
			return errClass(outs[0].Interface().(error))
		}
		return "ok j" + hx(string(raw))
	}
	return "UNMODELLED-SIGNATURE"
}

type accStats struct{ c *Ctx }

func (s accStats) note(c *Ctx, op, name, ans string) {
	switch {
	case ans == "panic":
		c.Hit("panic")
		c.Fail("panic:"+name, op, name+" panicked")
	case strings.HasPrefix(ans, "UNMODELLED"), ans == "nomethod":
		c.Fail("unmodelled:"+name, op, "accessor "+name+" has a signature the harness does not know")
	case strings.HasPrefix(ans, "ok"):
		c.Hit("ok")
		if strings.HasPrefix(name, "M.As") || strings.HasPrefix(name, "M.To") {
			c.Hit("ok:" + name[2:])
		}
	case strings.HasPrefix(ans, "err:parse"):
		c.Hit("err:parse")
	case strings.HasPrefix(ans, "err:nil"):
		c.Hit("err:nil")
	case strings.HasPrefix(ans, "err:redis"):
		c.Hit("err:redis")
	default:
		c.Hit("err:other")
	}
}

// judge: clauses of C15 that can be decided on one reply without the model.
func judgeC15(c *Ctx, op string, n *node, name, ans string) {
	if n.hasArr() || strings.HasPrefix(name, "M.Is") {
		return
	}
	switch n.typ {
	case '_':
		if ans != "err:nil" {
			c.Fail("nil-not-Nil:"+name, op, name+" on a null reply answered "+ans+", want the Nil error")
		}
	case '-', '!':
		want := "err:redis:" + hx(strings.TrimPrefix(n.str, "ERR "))
		if ans != want {
			c.Fail("err-not-RedisError:"+name, op, name+" on an error reply answered "+ans+", want "+want)
		}
	}
}

func allAnswers(c *Ctx, op string, n *node) string {
	m := n.msg()
	parts := make([]string, 0, len(msgMethods)+len(resMethods))
	st := accStats{}
	for _, name := range msgMethods {
		mm := m
		ans := callAcc(reflect.ValueOf(&mm), name)
		st.note(c, op, "M."+name, ans)
		judgeC15(c, op, n, "M."+name, ans)
		parts = append(parts, "M."+name+"="+ans)
	}
	for _, name := range resMethods {
		r := rueidis.NewResult(m, nil)
		ans := callAcc(reflect.ValueOf(&r), name)
		st.note(c, op, "R."+name, ans)
		if name != "NonRedisError" {
			judgeC15(c, op, n, "R."+name, ans)
		}
		parts = append(parts, "R."+name+"="+ans)
	}
	return strings.Join(parts, " | ")
}

func accessorsOp(c *Ctx, line string) {
	w := strings.Fields(line)
	switch w[0] {
	case "all":
		n, _ := parseNode(w[1:])
		c.Emit(line, allAnswers(c, line, n), n.hasArr() && len(n.kids) > 0)
	case "acc":
		n, _ := parseNode(w[2:])
		m := n.msg()
		var ans string
		name := w[1]
		if strings.HasPrefix(name, "R.") {
			r := rueidis.NewResult(m, nil)
			ans = callAcc(reflect.ValueOf(&r), name[2:])
		} else {
			ans = callAcc(reflect.ValueOf(&m), name[2:])
		}
		accStats{}.note(c, line, name, ans)
		c.Emit(line, ans, true)
	case "rerr":
		n, _ := parseNode(w[2:])
		e := errors.New(unhx(w[1]))
		parts := make([]string, 0, len(resMethods))
		for _, name := range resMethods {
			r := rueidis.NewResult(n.msg(), e)
			ans := callAcc(reflect.ValueOf(&r), name)
			if want := "err:other:" + w[1]; ans != want {
				c.Fail("result-error-not-propagated:"+name, line, "RedisResult."+name+" with a non-nil error answered "+ans+", want "+want)
			}
			parts = append(parts, "R."+name+"="+ans)
		}
		c.Hit("rerr")
		c.Emit(line, strings.Join(parts, " | "), true)
	case "dsj":
		n, _ := parseNode(w[2:])
		var e error
		if w[1] != "-" {
			e = errors.New(unhx(w[1]))
		}
		ans := func() (ans string) {
			defer func() {
				if r := recover(); r != nil {
					ans = "panic"
				}
			}()
			var dest []json.RawMessage
			if err := rueidis.DecodeSliceOfJSON(rueidis.NewResult(n.msg(), e), &dest); err != nil {
				return errClass(err)
			}
			parts := make([]string, len(dest))
			for i, d := range dest {
				if d == nil { // zero value: the element was a Redis nil and was skipped
					parts[i] = "N"
				} else {
					parts[i] = "j" + hx(string(d))
				}
			}
			return "ok [" + strings.Join(parts, ",") + "]"
		}()
		accStats{}.note(c, line, "DecodeSliceOfJSON", ans)
		c.Emit(line, ans, len(n.kids) > 0)
	default:
		panic("unknown op " + w[0])
	}
}

// ---- generators ------------------------------------------------------------

var leafTypes = []byte{'$', '+', '-', ':', '_', ',', '#', '!', '=', '(', '.'}
var aggTypes = []byte{'*', '%', '~', '>', '*', '%', '*'}

var strPool = []string{
	"", "OK", "0", "1", "-1", "42", "007", "9223372036854775807", "9223372036854775808",
	"-9223372036854775808", "-9223372036854775809", "18446744073709551615", "18446744073709551616",
	"+5", "-", "+", "0x1f", "0X1F", "0b101", "0o17", "017", "08", "1_000", "_1", "1_", "1__0", "0_7", "0x_1f", "0_x1",
	"1.5", "-0.25", "1e3", "inf", "-inf", "nan", "-nan", "+Inf", "1e999", ".5", "5.", "0.1",
	"abc", "a b", "id", "score", "extra_attributes", "results", "total_results", "error", "values",
	"ERR x", "ERR ", "ERR", "MOVED 1 a:1", `{"a":1}`, `[1,2]`, `"s"`, " 1 ", "{", "null", "true",
	"\x00", "\xff\xfe", "k1", "k2", "k1", "f", "v",
}

func (g *gen) str() string {
	r := g.c.Rng
	switch r.IntN(10) {
	case 0, 1, 2, 3, 4, 5:
		return strPool[r.IntN(len(strPool))]
	case 6, 7:
		// strconv edge alphabet
		const al = "0179+-_xXbBoOaAfF. e"
		n := r.IntN(6)
		b := make([]byte, n)
		for i := range b {
			b[i] = al[r.IntN(len(al))]
		}
		return string(b)
	case 8:
		n := r.IntN(4)
		b := make([]byte, n)
		for i := range b {
			b[i] = byte(r.IntN(256))
		}
		return string(b)
	default:
		// 19-21 digit numbers around the int64 / uint64 limits
		n := 18 + r.IntN(4)
		b := make([]byte, n)
		for i := range b {
			b[i] = byte('0' + r.IntN(10))
		}
		if r.IntN(2) == 0 {
			b[0] = '1'
		}
		if r.IntN(3) == 0 {
			return "-" + string(b)
		}
		return string(b)
	}
}

var intPool = []int64{0, 1, -1, 2, 7, 1 << 53, 1<<53 + 1, -(1<<53 + 1), 1<<63 - 1, -1 << 63, 1<<62 + 12345, 9007199254740993}

func (g *gen) int() int64 {
	r := g.c.Rng
	if r.IntN(3) == 0 {
		return int64(r.Uint64())
	}
	return intPool[r.IntN(len(intPool))]
}

type gen struct{ c *Ctx }

func (g *gen) leaf() *node {
	r := g.c.Rng
	t := leafTypes[r.IntN(len(leafTypes))]
	if r.IntN(3) == 0 {
		t = []byte{'$', '+', ':'}[r.IntN(3)]
	}
	if r.IntN(60) == 0 {
		t = byte(r.IntN(256)) // a type byte the decoder never produces
		if isAggTyp(t) {
			t = 'Z'
		}
	}
	n := &node{typ: t}
	switch t {
	case ':':
		n.intlen = g.int()
	case '#':
		n.intlen = int64(r.IntN(2))
		if r.IntN(20) == 0 {
			n.intlen = 2
		}
	case '_', '.':
	default:
		n.str = g.str()
		if r.IntN(40) == 0 { // an empty string leaf
			n.str = ""
		}
	}
	return n
}

func (g *gen) tree(depth int) *node {
	r := g.c.Rng
	if depth <= 0 || r.IntN(3) == 0 {
		return g.leaf()
	}
	n := &node{typ: aggTypes[r.IntN(len(aggTypes))]}
	k := []int{0, 1, 2, 2, 3, 4, 4, 5, 6}[r.IntN(9)]
	if n.typ == '%' && r.IntN(4) != 0 {
		k &^= 1 // maps are even except when streamed and cut short
	}
	for i := 0; i < k; i++ {
		n.kids = append(n.kids, g.tree(depth-1))
	}
	if r.IntN(80) == 0 {
		n.typ = '+' // outside the decoder's range: a leaf type carrying children
	}
	if r.IntN(12) == 0 {
		n.attr = &node{typ: '|', kids: []*node{{typ: '+', str: "ttl"}, {typ: ':', intlen: 5}}}
	}
	return n
}

// mutate changes one place of a well-shaped reply.
func (g *gen) mutate(n *node) {
	r := g.c.Rng
	// collect nodes
	var all []*node
	var walk func(*node)
	walk = func(x *node) {
		all = append(all, x)
		for _, k := range x.kids {
			walk(k)
		}
	}
	walk(n)
	x := all[r.IntN(len(all))]
	switch r.IntN(8) {
	case 0:
		if len(x.kids) > 0 { // drop a child
			i := r.IntN(len(x.kids))
			x.kids = append(append([]*node{}, x.kids[:i]...), x.kids[i+1:]...)
		}
	case 1:
		if len(x.kids) > 0 { // truncate
			x.kids = x.kids[:r.IntN(len(x.kids))]
		}
	case 2:
		if len(x.kids) > 0 { // replace a child by a random tree
			x.kids[r.IntN(len(x.kids))] = g.tree(1)
		}
	case 3:
		if len(x.kids) > 0 { // duplicate a child
			i := r.IntN(len(x.kids))
			x.kids = append(x.kids, x.kids[i])
		}
	case 4: // change the type
		if x.hasArr() {
			x.typ = aggTypes[r.IntN(len(aggTypes))]
		} else {
			x.typ = leafTypes[r.IntN(len(leafTypes))]
		}
	case 5:
		if !x.hasArr() {
			x.str = g.str()
		}
	case 6:
		*x = *g.leaf()
	case 7:
		if x.hasArr() {
			x.kids = nil
		}
	}
}

func emitAll(c *Ctx, n *node) {
	accessorsOp(c, "all "+n.line()+n.tables())
}

func runAccessors(c *Ctx) {
	g := &gen{c}
	s := func(t byte, v string) *node { return &node{typ: t, str: v} }
	i := func(v int64) *node { return &node{typ: ':', intlen: v} }
	a := func(t byte, xs ...*node) *node { return &node{typ: t, kids: xs} }
	// 1. regression witnesses (the inputs that panicked before the repairs) and fixed small shapes
	fixed := []*node{
		a('*', a('*')), a('*', i(5)), a('*', s('_', "")),
		a('*', i(1), s('+', "a"), s('+', "1"), s('+', "b")),
		a('*', i(1), s('+', "a"), s('+', ""), s('+', "b")),
		a('*', i(1), s('+', "a"), s('+', "1"), s('+', ""), s('+', "b")),
		a('*', i(1), s('+', "a"), s('+', "1")),
		a('%', s('+', "results"), a('*', a('*', s('+', "id")))),
		a('%', s('+', "results"), a('*', a('%', s('+', "id")))),
		a('%', s('+', "a")), a('%', s('+', "total_results")), a('%', s('+', "results")), a('%', s('+', "error")),
		a('%', s('+', "error"), a('*', s('-', "boom"))), a('%', s('+', "error"), a('*', s('_', ""))), a('%', s('+', "error"), a('*')),
		a('*', a('%', s('+', "a"))), a('*', a('*', s('+', "k"), a('%', s('+', "a")))),
		a('*', a('*', s('+', "id"), a('*', s('+', "a")))),
		a('*', a('*', s('+', "n"), a('*', s('+', "1")))), a('*', a('*', s('+', "n"), a('*'))),
		a('*', a('*', s('+', "n"), s('+', "1.5"), i(7), a('*', s('+', "1"), s('+', "2")))),
		a('*'), a('%'), a('~'), a('>'), s('_', ""), s('.', ""), s('-', "ERR boom"), s('!', "ERR "), s('-', "ERR"), s('-', ""),
		s('+', "OK"), s('$', ""), i(0), i(-1), {typ: '#', intlen: 1}, {typ: '#', intlen: 0}, s(',', "1.5"), s(',', "-nan"), s(',', "x"),
		s('=', "txt:hello"), s('(', "123456789012345678901234567890"),
		a('*', s('+', "0"), a('*', s('+', "a"), s('+', "b"))),
		a('*', s('+', "k"), a('*', a('*', s('+', "m"), s('+', "1")))),
		a('*', a('*', s('+', "1-1"), a('*', s('+', "f"), s('+', "v"), s('+', "f"), s('+', "w")))),
		a('*', a('*', s('+', "1-1"), s('_', ""))),
		a('*', a('*', s('+', "1-1"), a('*', s('+', "f")))),
		a('*', a('%', s('+', "x"), i(1)), i(9)),
		a('*', a('*', i(1), a('*', s('+', "x"), s('+', "y"))), i(9)),
	}
	for _, n := range fixed {
		emitAll(c, n)
	}
	// 2. every leaf type x interesting strings / ints, exhaustively
	for _, t := range append(append([]byte{}, leafTypes...), ';', 'Z') {
		for _, v := range strPool {
			emitAll(c, &node{typ: t, str: v})
		}
		for _, v := range intPool {
			emitAll(c, &node{typ: t, intlen: v})
		}
	}
	// 3. RedisResult with a non-nil error
	for k := 0; k < 6; k++ {
		n := g.tree(2)
		accessorsOp(c, "rerr "+hx([]string{"io: read/write on closed pipe", "context deadline exceeded", "x"}[k%3])+" "+n.line())
		accessorsOp(c, "dsj "+hx("boom")+" "+n.line()+n.tables())
	}
	// 4. random trees from the decoder's range (plus a few beyond it)
	for k := 0; k < c.N; k++ {
		emitAll(c, g.tree(1+c.Rng.IntN(4)))
	}
	// 5. well-shaped replies of every helper, then one or two mutations each
	for k := 0; k < c.N; k++ {
		n := g.randomShape()
		g.mutate(n)
		if c.Rng.IntN(3) == 0 {
			g.mutate(n)
		}
		emitAll(c, n)
	}
	// 6. DecodeSliceOfJSON on arrays of JSON-ish strings
	for k := 0; k < c.N/4+20; k++ {
		n := &node{typ: '*'}
		if c.Rng.IntN(10) == 0 {
			n = g.tree(2)
		} else {
			for j := c.Rng.IntN(5); j > 0; j-- {
				switch c.Rng.IntN(6) {
				case 0:
					n.kids = append(n.kids, s('_', ""))
				case 1:
					n.kids = append(n.kids, g.leaf())
				default:
					n.kids = append(n.kids, s('$', []string{`{"a":1}`, `[1,2]`, `"s"`, " 1 ", "{", "null", "true", "1", ""}[c.Rng.IntN(9)]))
				}
			}
		}
		accessorsOp(c, "dsj - "+n.line()+n.tables())
	}
}

func init() {
	suites["accessors"] = suite{
		rule: "reply trees built with VerifMsg: fixed regression witnesses; every leaf type x string/int pools; random trees of depth<=4 over all type bytes incl. odd-length maps, empty aggregates, attributes; well-shaped helper replies with 1-2 random mutations; every exported accessor of *RedisMessage and *RedisResult found by reflection is called with recover; non-trivial = aggregate with children, distinct",
		run:  runAccessors,
		replay: func(c *Ctx, lines []string) {
			for _, l := range lines {
				accessorsOp(c, l)
			}
		},
	}
}
