package main

import (
	"fmt"
	"reflect"
	"strconv"
	"strings"

	"github.com/redis/rueidis"
)

// Go re-implementation of Rv/Spec/Shapes.lean: structured data -> the reply a server sends
// for it in RESP2 / RESP3. `shape` lines compare the two shapers (dump), `!shape` lines
// compare the real accessor on the shaped reply with the data itself.

type kv struct{ k, v string }
type entry struct {
	id string
	fv []kv
}
type stream struct {
	key string
	es  []entry
}
type sdoc struct {
	key, score string
	attrs      []kv
}
type loc struct {
	name, dist string
	hash       int64
	lon, lat   string
}

func blob(s string) *node   { return &node{typ: '$', str: s} }
func dbl(s string) *node    { return &node{typ: ',', str: s} }
func intn(i int64) *node    { return &node{typ: ':', intlen: i} }
func arr(xs ...*node) *node { return &node{typ: '*', kids: xs} }
func mp(xs ...*node) *node  { return &node{typ: '%', kids: xs} }
func num(p int, s string) *node {
	if p == 2 {
		return blob(s)
	}
	return dbl(s)
}
func flatKV(kvs []kv) []*node {
	var out []*node
	for _, x := range kvs {
		out = append(out, blob(x.k), blob(x.v))
	}
	return out
}
func kvReply(p int, kvs []kv) *node {
	if p == 2 {
		return arr(flatKV(kvs)...)
	}
	return mp(flatKV(kvs)...)
}
func shEntry(e entry) *node { return arr(blob(e.id), arr(flatKV(e.fv)...)) }
func shXRange(es []entry) *node {
	n := arr()
	for _, e := range es {
		n.kids = append(n.kids, shEntry(e))
	}
	return n
}

func tk(parts ...any) string {
	var b []string
	for _, p := range parts {
		switch v := p.(type) {
		case string:
			b = append(b, hx(v))
		case int:
			b = append(b, strconv.Itoa(v))
		case int64:
			b = append(b, strconv.FormatInt(v, 10))
		case uint64:
			b = append(b, strconv.FormatUint(v, 10))
		case bool:
			if v {
				b = append(b, "1")
			} else {
				b = append(b, "0")
			}
		}
	}
	return strings.Join(b, " ")
}

func tkKVs(kvs []kv) string {
	s := tk(len(kvs))
	for _, x := range kvs {
		s += " " + tk(x.k, x.v)
	}
	return s
}
func tkEntries(es []entry) string {
	s := tk(len(es))
	for _, e := range es {
		s += " " + tk(e.id) + " " + tkKVs(e.fv)
	}
	return s
}

func (g *gen) word() string {
	r := g.c.Rng
	pool := []string{"a", "b", "k1", "k2", "f", "v", "doc:1", "doc:2", "1", "2", "0.5", "x y", "", "id", "score", "results", "\xff", "name", "7"}
	if r.IntN(5) == 0 {
		return g.str()
	}
	return pool[r.IntN(len(pool))]
}
func (g *gen) floatText() string {
	r := g.c.Rng
	pool := []string{"0", "1", "-1", "1.5", "0.25", "-0.125", "3.14159", "100", "1e3", "inf", "-inf", "12345.678", "0.1", "9007199254740993", "2.5e-3"}
	return pool[r.IntN(len(pool))]
}
func (g *gen) kvs() []kv {
	var out []kv
	for n := g.c.Rng.IntN(4); n > 0; n-- {
		out = append(out, kv{g.word(), g.word()})
	}
	return out
}
func (g *gen) entries() []entry {
	var out []entry
	for n := g.c.Rng.IntN(4); n > 0; n-- {
		out = append(out, entry{fmt.Sprintf("%d-%d", g.c.Rng.IntN(1000), g.c.Rng.IntN(10)), g.kvs()})
	}
	return out
}
func (g *gen) scores() []kv {
	var out []kv
	for n := g.c.Rng.IntN(5); n > 0; n-- {
		out = append(out, kv{g.word(), g.floatText()})
	}
	return out
}

func floatOK(s string) bool { _, err := strconv.ParseFloat(s, 64); return err == nil }

// ftFaithful2 is the Go copy of Rv.Shapes.ftFaithful2.
func ftFaithful2(ws, wa bool, ds []sdoc) bool {
	first := func() bool { return !floatOK(ds[0].key) && ds[0].score != "" && floatOK(ds[0].score) }
	switch {
	case ws && wa:
		return len(ds) == 0 || first()
	case ws && !wa:
		if len(ds) == 0 {
			return true
		}
		if len(ds) == 1 {
			return first()
		}
		return first() && ds[1].key != ""
	case !ws && wa:
		return true
	default:
		if len(ds) < 2 {
			return true
		}
		ok := ds[1].key != "" && !(!floatOK(ds[0].key) && floatOK(ds[1].key))
		if len(ds) >= 3 {
			ok = ok && ds[2].key != ""
		}
		return ok
	}
}

var shapeKinds = []string{"zscores", "zscore", "xrange", "xrangeslices", "xread", "xreadslices", "scan", "lmpop", "zmpop",
	"ftsearch", "ftagg", "ftaggcur", "geo", "strmap", "intmap", "int64", "strslice", "intslice"}

var kindAcc = map[string]string{"zscores": "AsZScores", "zscore": "AsZScore", "xrange": "AsXRange", "xrangeslices": "AsXRangeSlices",
	"xread": "AsXRead", "xreadslices": "AsXReadSlices", "scan": "AsScanEntry", "lmpop": "AsLMPop", "zmpop": "AsZMPop",
	"ftsearch": "AsFtSearch", "ftagg": "AsFtAggregate", "ftaggcur": "AsFtAggregateCursor", "geo": "AsGeosearch",
	"strmap": "AsStrMap", "intmap": "AsIntMap", "int64": "AsInt64", "strslice": "AsStrSlice", "intslice": "AsIntSlice"}

// ---- data generators: produce the data tokens of an op line -------------------

func (g *gen) shapeData(kind string) string {
	r := g.c.Rng
	words := func() string {
		n := r.IntN(5)
		s := tk(n)
		for ; n > 0; n-- {
			s += " " + tk(g.word())
		}
		return s
	}
	switch kind {
	case "zscores":
		return tkKVs(g.scores())
	case "zscore":
		return tk(g.word(), g.floatText())
	case "xrange", "xrangeslices":
		return tkEntries(g.entries())
	case "xread", "xreadslices":
		n := r.IntN(4)
		s := tk(n)
		for ; n > 0; n-- {
			s += " " + tk(g.word()) + " " + tkEntries(g.entries())
		}
		return s
	case "scan":
		cur := []uint64{0, 1, 17, 1 << 32, 1<<63 - 1, 1 << 63, 1<<64 - 1, r.Uint64()}[r.IntN(8)]
		return tk(cur) + " " + words()
	case "lmpop":
		return tk(g.word()) + " " + words()
	case "zmpop":
		return tk(g.word()) + " " + tkKVs(g.scores())
	case "ftsearch":
		n := r.IntN(4)
		s := tk(r.IntN(2) == 0, r.IntN(2) == 0, int64(r.IntN(100)), n)
		for ; n > 0; n-- {
			k := g.word()
			if r.IntN(4) != 0 {
				k = fmt.Sprintf("doc:%d", r.IntN(50))
			}
			s += " " + tk(k, g.floatText()) + " " + tkKVs(g.kvs())
		}
		return s
	case "ftagg", "ftaggcur":
		n := r.IntN(4)
		s := tk(int64(r.IntN(100)), n)
		if kind == "ftaggcur" {
			s = tk(int64(r.IntN(1000))) + " " + s
		}
		for ; n > 0; n-- {
			s += " " + tkKVs(g.kvs())
		}
		return s
	case "geo":
		n := r.IntN(4)
		s := tk(r.IntN(2) == 0, r.IntN(2) == 0, r.IntN(2) == 0, n)
		for ; n > 0; n-- {
			s += " " + tk(g.word(), g.floatText(), int64(r.Uint64()>>12), g.floatText(), g.floatText())
		}
		return s
	case "strmap":
		return tkKVs(g.kvs())
	case "intmap":
		n := r.IntN(4)
		s := tk(n)
		for ; n > 0; n-- {
			s += " " + tk(g.word(), g.int())
		}
		return s
	case "int64":
		return tk(g.int())
	case "strslice":
		return words()
	case "intslice":
		n := r.IntN(5)
		s := tk(n)
		for ; n > 0; n-- {
			s += " " + tk(g.int())
		}
		return s
	}
	panic("kind " + kind)
}

// ---- token reader ---------------------------------------------------------------

type rd struct {
	w []string
	i int
}

func (r *rd) tok() string  { s := r.w[r.i]; r.i++; return s }
func (r *rd) str() string  { return unhx(r.tok()) }
func (r *rd) n() int       { v, _ := strconv.Atoi(r.tok()); return v }
func (r *rd) int() int64   { v, _ := strconv.ParseInt(r.tok(), 10, 64); return v }
func (r *rd) uint() uint64 { v, _ := strconv.ParseUint(r.tok(), 10, 64); return v }
func (r *rd) bool() bool   { return r.tok() == "1" }
func (r *rd) kvs() []kv {
	var out []kv
	for n := r.n(); n > 0; n-- {
		k := r.str()
		out = append(out, kv{k, r.str()})
	}
	return out
}
func (r *rd) entries() []entry {
	var out []entry
	for n := r.n(); n > 0; n-- {
		id := r.str()
		out = append(out, entry{id, r.kvs()})
	}
	return out
}
func (r *rd) words() []string {
	var out []string
	for n := r.n(); n > 0; n-- {
		out = append(out, r.str())
	}
	return out
}
func blobs(xs []string) *node {
	n := arr()
	for _, x := range xs {
		n.kids = append(n.kids, blob(x))
	}
	return n
}

// buildShape: data tokens -> shaped reply (the Go copy of Rv/Spec/Shapes.lean), how many tokens
// were data, and whether the data is inside the accessor's stated precondition.
func buildShape(kind string, p int, w []string) (n *node, used int, oracle bool) {
	r := &rd{w: w}
	oracle = true
	switch kind {
	case "zscores":
		n = arr()
		for _, x := range r.kvs() {
			if p == 2 {
				n.kids = append(n.kids, blob(x.k), blob(x.v))
			} else {
				n.kids = append(n.kids, arr(blob(x.k), dbl(x.v)))
			}
		}
	case "zscore":
		k := r.str()
		n = arr(blob(k), num(p, r.str()))
	case "xrange", "xrangeslices":
		n = shXRange(r.entries())
	case "xread", "xreadslices":
		n = arr()
		if p == 3 {
			n = mp()
		}
		for c := r.n(); c > 0; c-- {
			key := r.str()
			es := shXRange(r.entries())
			if p == 2 {
				n.kids = append(n.kids, arr(blob(key), es))
			} else {
				n.kids = append(n.kids, blob(key), es)
			}
		}
	case "scan":
		cur := r.uint()
		n = arr(blob(strconv.FormatUint(cur, 10)), blobs(r.words()))
	case "lmpop":
		key := r.str()
		n = arr(blob(key), blobs(r.words()))
	case "zmpop":
		key := r.str()
		e := arr()
		for _, x := range r.kvs() {
			e.kids = append(e.kids, arr(blob(x.k), num(p, x.v)))
		}
		n = arr(blob(key), e)
	case "ftsearch":
		ws, wa, total := r.bool(), r.bool(), r.int()
		var ds []sdoc
		for c := r.n(); c > 0; c-- {
			k := r.str()
			sc := r.str()
			ds = append(ds, sdoc{k, sc, r.kvs()})
		}
		if p == 2 {
			oracle = ftFaithful2(ws, wa, ds)
			n = arr(intn(total))
			for _, d := range ds {
				n.kids = append(n.kids, blob(d.key))
				if ws {
					n.kids = append(n.kids, blob(d.score))
				}
				if wa {
					n.kids = append(n.kids, arr(flatKV(d.attrs)...))
				}
			}
		} else {
			res := arr()
			for _, d := range ds {
				rec := mp(blob("id"), blob(d.key))
				if wa {
					rec.kids = append(rec.kids, blob("extra_attributes"), mp(flatKV(d.attrs)...))
				}
				if ws {
					rec.kids = append(rec.kids, blob("score"), dbl(d.score))
				}
				rec.kids = append(rec.kids, blob("values"), arr())
				res.kids = append(res.kids, rec)
			}
			n = mp(blob("attributes"), arr(), blob("warning"), arr(), blob("total_results"), intn(total),
				blob("format"), blob("STRING"), blob("results"), res)
		}
	case "ftagg", "ftaggcur":
		var cur int64
		if kind == "ftaggcur" {
			cur = r.int()
		}
		total := r.int()
		var rows [][]kv
		for c := r.n(); c > 0; c-- {
			rows = append(rows, r.kvs())
		}
		var reply *node
		if p == 2 {
			reply = arr(intn(total))
			for _, row := range rows {
				reply.kids = append(reply.kids, arr(flatKV(row)...))
			}
		} else {
			res := arr()
			for _, row := range rows {
				res.kids = append(res.kids, mp(blob("extra_attributes"), mp(flatKV(row)...), blob("values"), arr()))
			}
			reply = mp(blob("attributes"), arr(), blob("warning"), arr(), blob("total_results"), intn(total),
				blob("format"), blob("STRING"), blob("results"), res)
		}
		if kind == "ftagg" {
			n = reply
		} else {
			n = arr(reply, intn(cur))
		}
	case "geo":
		wd, wh, wc := r.bool(), r.bool(), r.bool()
		n = arr()
		for c := r.n(); c > 0; c-- {
			l := loc{name: r.str()}
			l.dist, l.hash, l.lon, l.lat = r.str(), r.int(), r.str(), r.str()
			if !(wd || wh || wc) {
				n.kids = append(n.kids, blob(l.name))
				continue
			}
			e := arr(blob(l.name))
			if wd {
				e.kids = append(e.kids, num(p, l.dist))
				oracle = oracle && l.dist != "" && floatOK(l.dist)
			}
			if wh {
				e.kids = append(e.kids, intn(l.hash))
			}
			if wc {
				e.kids = append(e.kids, arr(num(p, l.lon), num(p, l.lat)))
			}
			n.kids = append(n.kids, e)
		}
	case "strmap":
		n = kvReply(p, r.kvs())
	case "intmap":
		n = arr()
		if p == 3 {
			n = mp()
		}
		for c := r.n(); c > 0; c-- {
			k := r.str()
			v := r.int()
			if p == 2 {
				n.kids = append(n.kids, blob(k), blob(strconv.FormatInt(v, 10)))
			} else {
				n.kids = append(n.kids, blob(k), intn(v))
			}
		}
	case "int64":
		v := r.int()
		if p == 2 {
			n = blob(strconv.FormatInt(v, 10))
		} else {
			n = intn(v)
		}
	case "strslice":
		n = blobs(r.words())
	case "intslice":
		n = arr()
		for c := r.n(); c > 0; c-- {
			v := r.int()
			if p == 2 {
				n.kids = append(n.kids, blob(strconv.FormatInt(v, 10)))
			} else {
				n.kids = append(n.kids, intn(v))
			}
		}
	default:
		panic("kind " + kind)
	}
	return n, r.i, oracle
}

func (g *gen) randomShape() *node {
	kind := shapeKinds[g.c.Rng.IntN(len(shapeKinds))]
	n, _, _ := buildShape(kind, 2+g.c.Rng.IntN(2), strings.Fields(g.shapeData(kind)))
	return n
}

// ---- ops ---------------------------------------------------------------------

// shape <kind> <proto> <data> <tables> / !shape …
func shapesOp(c *Ctx, line string) {
	w := strings.Fields(line)
	kind := w[1]
	p, _ := strconv.Atoi(w[2])
	n, _, _ := buildShape(kind, p, w[3:])
	m := n.msg()
	if w[0] == "shape" {
		c.Emit(line, rueidis.VerifDump(&m), false)
		return
	}
	ans := callAcc(reflect.ValueOf(&m), kindAcc[kind])
	accStats{}.note(c, line, "M."+kindAcc[kind], ans)
	c.Emit(line, ans, true)
}

func shapesEmit(c *Ctx, kind string, p int, data string) {
	n, _, oracle := buildShape(kind, p, strings.Fields(data))
	tb := n.tables()
	base := kind + " " + strconv.Itoa(p) + " " + data + tb
	shapesOp(c, "shape "+base)                             // the Go and Lean shapers agree
	accessorsOp(c, "acc M."+kindAcc[kind]+" "+n.line()+tb) // model vs code on the shaped reply
	if oracle {
		c.Hit("oracle:" + kind + ":" + strconv.Itoa(p))
		shapesOp(c, "!shape "+base) // the accessor gives the data back
	} else {
		c.Hit("outside-precondition:" + kind + ":" + strconv.Itoa(p))
	}
}

func runShapes(c *Ctx) {
	g := &gen{c}
	for k := 0; k < c.N; k++ {
		for _, kind := range shapeKinds {
			data := g.shapeData(kind)
			for p := 2; p <= 3; p++ {
				shapesEmit(c, kind, p, data)
			}
		}
	}
}

func init() {
	suites["shapes"] = suite{
		rule: "structured data (scores, stream entries, XREAD, SCAN, LMPOP/ZMPOP, FT.SEARCH with/without scores and content, FT.AGGREGATE(+cursor), GEOSEARCH option subsets, string/int maps, ints, slices) -> Go shaper (RESP2 and RESP3) -> real accessor; `shape` ties the Go and Lean shapers, `acc` ties model and code, `!shape` compares the accessor's result with the data; every case is non-trivial",
		run:  runShapes,
		replay: func(c *Ctx, lines []string) {
			for _, l := range lines {
				if strings.HasPrefix(l, "acc ") {
					accessorsOp(c, l)
				} else {
					shapesOp(c, l)
				}
			}
		},
	}
}
