package main

import (
	"reflect"
	"strings"

	"github.com/redis/rueidis"
)

// `!conv <Name> <tree> <tables>`: a scalar conversion of the REAL code compared with the declarative
// specification Rv/Spec/Conv.lean (answered by the Lean driver from the spec, not from the model).
// The specification does not say which strconv error a non-numeric text gives: both sides print err:num.

var convAccessors = []string{"AsBool", "AsBoolSlice", "AsBytes", "AsReader", "AsFloat64", "AsFloatSlice", "AsInt64", "AsIntSlice",
	"AsStrSlice", "AsUint64", "ToBool", "ToFloat64", "ToInt64", "ToString"}

func coarsenNum(ans string) string {
	const p = "err:other:"
	if strings.HasPrefix(ans, p) {
		if t := unhx(ans[len(p):]); strings.HasPrefix(t, "strconv.ParseInt:") || strings.HasPrefix(t, "strconv.ParseUint:") {
			return "err:num"
		}
	}
	return ans
}

func convOp(c *Ctx, line string) {
	w := strings.Fields(line)
	if w[0] != "!conv" {
		panic("unknown op " + w[0])
	}
	n, _ := parseNode(w[2:])
	m := n.msg()
	name := w[1]
	var ans string
	if strings.HasPrefix(name, "R.") {
		r := rueidis.NewResult(m, nil)
		ans = callAcc(reflect.ValueOf(&r), name[2:])
	} else {
		ans = callAcc(reflect.ValueOf(&m), name[2:])
	}
	accStats{}.note(c, line, name, ans)
	c.Hit("conv:" + name[2:])
	c.Emit(line, coarsenNum(ans), true)
}

// integers every integer-accepting conversion must be tried on: outside {0,1}, negative, large, the int64 ends
var convInts = []int64{0, 1, 2, -1, 3, 7, -2, 255, 1 << 40, -(1 << 40), 1<<53 + 1, 1<<63 - 1, -1 << 63}

var convTexts = []string{"", "OK", "ok", "0", "1", "2", "-1", "+5", "42", "007", "1_000", "0x1f", "9223372036854775807", "9223372036854775808",
	"-9223372036854775808", "-9223372036854775809", "18446744073709551615", "18446744073709551616", "99999999999999999999x", "12a", "-", "+", " 1",
	"1.5", "-0.25", "1e3", "inf", "-inf", "nan", "-nan", "abc", "true", "ERR x", "\x00\xff"}

func (g *gen) convScalar() *node {
	r := g.c.Rng
	switch r.IntN(12) {
	case 0, 1, 2:
		v := convInts[r.IntN(len(convInts))]
		if r.IntN(4) == 0 {
			v = int64(r.Uint64())
		}
		return &node{typ: ':', intlen: v}
	case 3:
		return &node{typ: '#', intlen: int64(r.IntN(2))}
	case 4, 5, 6:
		t := convTexts[r.IntN(len(convTexts))]
		if r.IntN(4) == 0 {
			t = g.str()
		}
		return &node{typ: []byte{'$', '+'}[r.IntN(2)], str: t}
	case 7:
		return &node{typ: ',', str: []string{"1.5", "0", "-2", "inf", "-nan", "nan", "x", "", "1e400", "3"}[r.IntN(10)]}
	case 8:
		return &node{typ: []byte{'=', '('}[r.IntN(2)], str: []string{"txt:hi", "123456789012345678901234567890", "12", ""}[r.IntN(4)]}
	case 9:
		return &node{typ: '_'}
	case 10:
		return &node{typ: []byte{'-', '!'}[r.IntN(2)], str: []string{"ERR boom", "boom", "ERR ", "ERR", "", "MOVED 1 a:1", "1"}[r.IntN(7)]}
	default:
		return &node{typ: '.'}
	}
}

func emitConv(c *Ctx, n *node) {
	tb := n.tables()
	ln := n.line()
	for _, a := range convAccessors {
		convOp(c, "!conv M."+a+" "+ln+tb)
	}
	convOp(c, "!conv R.AsBool "+ln+tb)
	convOp(c, "!conv R.AsInt64 "+ln+tb)
}

func runConv(c *Ctx) {
	g := &gen{c}
	// exhaustive over the fixed pools
	for _, v := range convInts {
		emitConv(c, &node{typ: ':', intlen: v})
	}
	for _, t := range convTexts {
		emitConv(c, &node{typ: '$', str: t})
		emitConv(c, &node{typ: '+', str: t})
		emitConv(c, &node{typ: ',', str: t})
		emitConv(c, &node{typ: '=', str: t})
		emitConv(c, &node{typ: '-', str: t})
	}
	emitConv(c, &node{typ: '#', intlen: 0})
	emitConv(c, &node{typ: '#', intlen: 1})
	emitConv(c, &node{typ: '_'})
	// every integer as a slice element, alone and between other scalars
	for _, v := range convInts {
		emitConv(c, &node{typ: '*', kids: []*node{{typ: ':', intlen: v}}})
		emitConv(c, &node{typ: '~', kids: []*node{{typ: '+', str: "OK"}, {typ: ':', intlen: v}, {typ: '#', intlen: 1}}})
	}
	// random scalars and random arrays / sets / maps / pushes of scalars
	for k := 0; k < c.N; k++ {
		emitConv(c, g.convScalar())
		a := &node{typ: []byte{'*', '*', '~', '%', '>'}[c.Rng.IntN(5)]}
		for j := c.Rng.IntN(6); j > 0; j-- {
			a.kids = append(a.kids, g.convScalar())
		}
		emitConv(c, a)
	}
}

func init() {
	suites["conv"] = suite{
		rule: "scalar replies (integers incl. 2, -1, 2^40, MinInt64/MaxInt64 and random int64; booleans; strings over a numeric/edge text pool; doubles; verbatim/big numbers; null; error replies) and arrays/sets/maps/pushes of such scalars, through AsBool/AsInt64/AsUint64/AsFloat64/ToString/AsBytes/AsReader/ToInt64/ToBool/ToFloat64/AsStrSlice/AsIntSlice/AsFloatSlice/AsBoolSlice (+RedisResult.AsBool/AsInt64): every line is an oracle line answered by the declarative specification Rv/Spec/Conv.lean; every case non-trivial",
		run:  runConv,
		replay: func(c *Ctx, lines []string) {
			for _, l := range lines {
				convOp(c, l)
			}
		},
	}
}
