package main

import (
	"context"
	"fmt"
	"math/rand/v2"
	"os"
	"sort"
	"strconv"
	"strings"
	"sync"
	"time"

	"github.com/redis/rueidis"
)

// ---- client-side call records ---------------------------------------------------------------

type wcmd struct {
	name    string // first token (upper case)
	tag     string // "" for untagged
	noReply bool
	isUnsub bool
	nargs   int
}

type call struct {
	id        int
	kind      string
	cmds      []wcmd   // commands the call puts on the wire, in order (its batch)
	tags      []string // user-visible commands' tags (one per result)
	got       []string // payload per result ("" = error / not observed)
	errs      []string
	cancelled bool
	returned  bool
	held      []rueidis.RedisResult // the result slice a DoMulti returned (the caller owns it from then on)
	dur       time.Duration
}

func tagCall(t string) string { // "k12_3" -> call 12
	if i := strings.IndexByte(t, '_'); i > 1 && t[0] == 'k' {
		return t[1:i]
	}
	return ""
}

func payloadOf(r rueidis.RedisResult) (string, string) {
	if err := r.Error(); err != nil {
		if re, ok := rueidis.IsRedisErr(err); ok {
			s := re.Error()
			if i := strings.Index(s, "errk"); i >= 0 { // "-ERR errk12_0|mid"
				return s[i:], ""
			}
			return "", "redis:" + s
		}
		if rueidis.IsRedisNil(err) {
			return "", "nil"
		}
		return "", err.Error()
	}
	m, _ := r.ToMessage()
	if s, err := m.ToString(); err == nil {
		return s, ""
	}
	if arr, err := m.ToArray(); err == nil && len(arr) > 0 {
		if s, err := arr[len(arr)-1].ToString(); err == nil { // BLPOP [key, value] / arr reply [value, 7]
			if strings.Contains(s, "|") {
				return s, ""
			}
		}
		if s, err := arr[0].ToString(); err == nil {
			return s, ""
		}
	}
	return "", "shape"
}

type episodeCfg struct {
	goroutines, calls   int
	multiplex, ring     int
	always, nocache     bool
	pushProb, unsubProb float64
	cancelProb          float64
}

func cacheBatch(tag string) []wcmd {
	return []wcmd{{"CLIENT", "", false, false, 3}, {"MULTI", "", false, false, 1}, {"PTTL", tag, false, false, 2}, {"GET", tag, false, false, 2}, {"EXEC", "", false, false, 1}}
}

// runEpisode drives the real client against a fresh tag server and returns the calls and the server.
func runEpisode(seed uint64, cfg episodeCfg) ([]*call, *Server, error) {
	srv := NewServer(seed)
	srv.PushProb, srv.UnsubProb = cfg.pushProb, cfg.unsubProb
	client, err := rueidis.NewClient(rueidis.ClientOption{
		InitAddress: []string{"tagsrv:6379"}, DialCtxFn: srv.Dial, ForceSingleClient: true, DisableRetry: true,
		PipelineMultiplex: cfg.multiplex, RingScaleEachConn: cfg.ring, AlwaysPipelining: cfg.always,
		DisableCache: cfg.nocache, BlockingPoolSize: 4, ConnWriteTimeout: 30 * time.Second,
	})
	if err != nil {
		return nil, srv, err
	}
	var mu sync.Mutex
	var calls []*call
	newCall := func(kind string) *call {
		mu.Lock()
		defer mu.Unlock()
		cl := &call{id: len(calls), kind: kind}
		calls = append(calls, cl)
		return cl
	}
	var wg sync.WaitGroup
	for g := 0; g < cfg.goroutines; g++ {
		wg.Add(1)
		go func(g int) {
			defer wg.Done()
			rng := rand.New(rand.NewPCG(seed, uint64(g)+1))
			for k := 0; k < cfg.calls; k++ {
				ctx := context.Background()
				var cancel context.CancelFunc
				cancelled := false
				if rng.Float64() < cfg.cancelProb {
					cancelled = true
					ctx, cancel = context.WithCancel(ctx)
					d := time.Duration(rng.IntN(300)) * time.Microsecond
					time.AfterFunc(d, cancel)
				}
				kinds := []string{"do", "do", "multi", "multi", "shapes", "cache", "multicache", "sub", "unsub", "block", "write"}
				if cfg.nocache {
					kinds = []string{"do", "do", "multi", "multi", "shapes", "sub", "unsub", "block", "write"}
				}
				if v := os.Getenv("PIPE_KINDS"); v != "" {
					kinds = strings.Split(v, ",")
				}
				kind := kinds[rng.IntN(len(kinds))]
				cl := newCall(kind)
				cl.cancelled = cancelled
				tag := func(i int) string { return fmt.Sprintf("k%d_%d", cl.id, i) }
				start := time.Now()
				switch kind {
				case "do", "write", "block":
					t := tag(0)
					var cmd rueidis.Completed
					switch kind {
					case "do":
						cmd = client.B().Echo().Message(t).Build()
						cl.cmds = []wcmd{{"ECHO", t, false, false, 2}}
					case "write":
						cmd = client.B().Incr().Key(t).Build()
						cl.cmds = []wcmd{{"INCR", t, false, false, 2}}
					case "block":
						cmd = client.B().Blpop().Key(t).Timeout(0).Build()
						cl.cmds = []wcmd{{"BLPOP", t, false, false, 3}}
					}
					cl.tags = []string{t}
					p, e := payloadOf(client.Do(ctx, cmd))
					if kind == "write" && e == "" && p == "" {
						p = ""
					}
					cl.got, cl.errs = []string{p}, []string{e}
				case "multi", "shapes":
					n := 2 + rng.IntN(4)
					cs := make([]rueidis.Completed, n)
					for i := range cs {
						t := tag(i)
						if kind == "shapes" {
							t = []string{"", "nil", "err", "arr"}[rng.IntN(4)] + t
						}
						cs[i] = client.B().Echo().Message(t).Build()
						cl.cmds = append(cl.cmds, wcmd{"ECHO", t, false, false, 2})
						cl.tags = append(cl.tags, t)
					}
					rs := client.DoMulti(ctx, cs...)
					cl.held = rs
					for _, r := range rs {
						p, e := payloadOf(r)
						cl.got, cl.errs = append(cl.got, p), append(cl.errs, e)
					}
				case "cache":
					t := tag(0)
					cl.cmds, cl.tags = cacheBatch(t), []string{t}
					p, e := payloadOf(client.DoCache(ctx, client.B().Get().Key(t).Cache(), time.Minute))
					cl.got, cl.errs = []string{p}, []string{e}
				case "multicache":
					n := 2 + rng.IntN(3)
					cs := make([]rueidis.CacheableTTL, n)
					for i := range cs {
						t := tag(i)
						cs[i] = rueidis.CT(client.B().Get().Key(t).Cache(), time.Minute)
						cl.cmds = append(cl.cmds, cacheBatch(t)...)
						cl.tags = append(cl.tags, t)
					}
					for _, r := range client.DoMultiCache(ctx, cs...) {
						p, e := payloadOf(r)
						cl.got, cl.errs = append(cl.got, p), append(cl.errs, e)
					}
				case "sub":
					n := 1 + rng.IntN(3)
					chs := make([]string, n)
					for i := range chs {
						chs[i] = tag(i)
					}
					cl.cmds = []wcmd{{"SUBSCRIBE", chs[0], true, false, 1 + n}}
					cl.tags = nil
					sctx, scancel := context.WithTimeout(ctx, time.Duration(200+rng.IntN(2000))*time.Microsecond)
					err := client.Receive(sctx, client.B().Subscribe().Channel(chs...).Build(), func(m rueidis.PubSubMessage) {})
					scancel()
					cl.errs = []string{fmt.Sprint(err)}
				case "unsub":
					t := tag(0)
					cl.cmds = []wcmd{{"UNSUBSCRIBE", t, true, true, 2}}
					cl.tags = nil
					r := client.Do(ctx, client.B().Unsubscribe().Channel(t).Build())
					cl.errs = []string{fmt.Sprint(r.Error())}
				}
				cl.dur = time.Since(start)
				cl.returned = true
				if cancel != nil {
					cancel()
				}
			}
		}(g)
	}
	done := make(chan struct{})
	go func() { wg.Wait(); close(done) }()
	select {
	case <-done:
	case <-time.After(20 * time.Second):
		client.Close()
		return calls, srv, fmt.Errorf("hang: calls did not return within 20s")
	}
	// let the replies of abandoned calls arrive: wait until the server log has been quiet for a moment
	for last, quiet := -1, 0; quiet < 3; {
		time.Sleep(2 * time.Millisecond)
		if n := len(srv.Events()); n == last {
			quiet++
		} else {
			last, quiet = n, 0
		}
	}
	client.Close()
	return calls, srv, nil
}

// readerOps converts one connection's server log into `w`/`!m` lines for the Lean reader model.
func readerOps(conn int, evs []Event, calls []*call, observed map[int]int, emit func(op, impl string), fail func(key, op, what string)) {
	emit("reset conn="+strconv.Itoa(conn), "ok")
	remaining := 0
	prevUnsub := false
	for i, e := range evs {
		switch e.Kind {
		case "c":
			if len(e.Argv) == 0 {
				continue // flagged by the wire-integrity oracle
			}
			name := strings.ToUpper(e.Argv[0])
			if prevUnsub && name == "PING" && len(e.Argv) == 1 {
				prevUnsub = false
				continue // the writer's extra PING after an UNSUBSCRIBE-family command
			}
			prevUnsub = strings.HasSuffix(name, "UNSUBSCRIBE")
			if remaining > 0 {
				remaining--
				continue
			}
			if name == "PING" && len(e.Argv) == 1 {
				// the client's own PING (pipe.Close / keep-alive): a one-command batch
				emit(fmt.Sprintf("w %d,0,0,1", 9000000+e.Seq), "ok")
				continue
			}
			// first command of a batch: find its call by tag (look ahead for untagged heads)
			cid, ftag := "", ""
			for j := i; j < len(evs) && cid == ""; j++ {
				if evs[j].Kind == "c" && len(evs[j].Argv) > 1 {
					ftag = strings.TrimLeft(evs[j].Argv[1], "nilerra")
					cid = tagCall(ftag)
				}
			}
			n, err := strconv.Atoi(cid)
			if err != nil || n >= len(calls) {
				continue // connection died before the tagged command arrived
			}
			cl := calls[n]
			cmdsOf, base := cl.cmds, n*100
			if cl.kind == "cache" || cl.kind == "multicache" {
				// the mux may split a DoMultiCache across connections: each 5-command unit is its own batch
				// (batch boundaries between reply-bearing commands are not observable)
				unit, _ := strconv.Atoi(ftag[strings.IndexByte(ftag, '_')+1:])
				cmdsOf, base = cl.cmds[unit*5:unit*5+5], n*100+unit*5
			}
			parts := make([]string, len(cmdsOf))
			for k, w := range cmdsOf {
				b := func(x bool) string {
					if x {
						return "1"
					}
					return "0"
				}
				parts[k] = fmt.Sprintf("%d,%s,%s,%d", base+k, b(w.noReply), b(w.isUnsub), w.nargs)
			}
			emit("w "+strings.Join(parts, ";"), "ok")
			remaining = len(cmdsOf) - 1
			_ = cl
		case "m":
			obs := "?"
			if c, ok := observed[e.Mid]; ok {
				obs = strconv.Itoa(c)
			}
			b := func(x bool) string {
				if x {
					return "1"
				}
				return "0"
			}
			switch e.MKind {
			case "reply":
				emit(fmt.Sprintf("!m r %d %s %s %s", e.Mid, b(e.Pong), b(e.Queued), obs), "ok")
			case "data":
				emit(fmt.Sprintf("!m p %d d %s", e.Mid, obs), "ok")
			case "sub":
				emit(fmt.Sprintf("!m p %d s %s", e.Mid, obs), "ok")
			case "unsub":
				emit(fmt.Sprintf("!m p %d u %s", e.Mid, obs), "ok")
			}
		}
	}
}

func init() {
	suites["reader"] = suite{
		rule: "end-to-end histories on the real client (public API, DialCtxFn over net.Pipe) against the tag server: 1-8 goroutines x random mix of Do/DoMulti (varied reply shapes)/DoCache/DoMultiCache/Receive(SUBSCRIBE)/UNSUBSCRIBE/blocking/write commands, random context cancellation, pushes (message/invalidate/unsolicited sunsubscribe) injected between replies, PipelineMultiplex in {-1..2}, RingScaleEachConn in {1..4}, AlwaysPipelining on/off, cache on/off, ring and flow-buffer queues (RUEIDIS_QUEUE_TYPE); the server log of each connection is replayed through the Lean reader automaton (`w`/`!m` lines: every observed delivery must be the model's delivery); Go-side oracle: every returned payload carries the tag of the command that received it, each frame is delivered at most once, every call returns; non-trivial = a frame line whose delivery was observed",
		run:  runReader,
	}
}

func analyse(c *Ctx, calls []*call, srv *Server, epi string) {
	replied := map[string]bool{} // tags for which the server sent a reply frame
	for _, e := range srv.Events() {
		if e.Kind == "m" && e.MKind == "reply" && e.Tag != "" {
			replied[e.Tag] = true
		}
	}
	// C33: every command the server received is exactly a command some call issued, at most once (retries are off)
	issued := map[string]int{}
	for _, cl := range calls {
		for _, w := range cl.cmds {
			if w.tag != "" {
				issued[w.name+" "+w.tag]++
			}
		}
	}
	for _, e := range srv.Events() {
		if e.Kind != "c" {
			continue
		}
		if len(e.Argv) == 0 {
			c.Fail("pipe:wire-empty-command", epi, "the server received an empty command (a command was recycled before it was written)")
			continue
		}
		name := strings.ToUpper(e.Argv[0])
		if len(e.Argv) < 2 || name == "CLIENT" || name == "PING" || name == "MULTI" || name == "EXEC" {
			continue
		}
		k := name + " " + e.Argv[1]
		if issued[k] <= 0 {
			c.Fail("pipe:wire-command-not-issued", epi, fmt.Sprintf("the server received %q, which no call issued (or more often than issued)", e.Argv))
		}
		issued[k]--
	}
	// C01: a result set handed back to an abandoned caller must not change afterwards
	for _, cl := range calls {
		if cl.held == nil || !cl.returned {
			continue
		}
		for i, r := range cl.held {
			p, e := payloadOf(r)
			if i < len(cl.got) && (p != cl.got[i] || e != cl.errs[i]) {
				c.Fail("pipe:result-changed-after-return", epi, fmt.Sprintf("call %d (%s, cancelled=%v) result %d was %q/%q when DoMulti returned and is %q/%q after the late replies arrived", cl.id, cl.kind, cl.cancelled, i, cl.got[i], cl.errs[i], p, e))
			}
		}
	}
	observed := map[int]int{} // mid -> command id
	for _, cl := range calls {
		for i, p := range cl.got {
			if p == "" {
				continue
			}
			bar := strings.LastIndexByte(p, '|')
			if bar < 0 {
				continue
			}
			tag, midS := p[:bar], p[bar+1:]
			mid, _ := strconv.Atoi(midS)
			if tag != cl.tags[i] {
				c.Fail("pipe:foreign-reply", epi, fmt.Sprintf("call %d (%s) result %d for command %q carries the reply generated for %q (frame %d)", cl.id, cl.kind, i, cl.tags[i], tag, mid))
			}
			pos := i
			if cl.kind == "cache" || cl.kind == "multicache" {
				pos = i*5 + 4 // the EXEC frame carries the cached value
			}
			cmd := cl.id*100 + pos
			if prev, dup := observed[mid]; dup && prev != cmd {
				c.Fail("pipe:duplicate-delivery", epi, fmt.Sprintf("frame %d delivered to commands %d and %d", mid, prev, cmd))
			}
			observed[mid] = cmd
		}
		if !cl.returned {
			c.Fail("pipe:call-hung", epi, fmt.Sprintf("call %d (%s) never returned", cl.id, cl.kind))
			continue
		}
		// a call that was not cancelled must have received a reply for every command
		if !cl.cancelled && cl.kind != "sub" && cl.kind != "unsub" {
			for i := range cl.tags {
				if cl.got[i] == "" && !strings.HasPrefix(cl.tags[i], "nil") {
					if replied[cl.tags[i]] {
						c.Fail("pipe:lost-reply", epi, fmt.Sprintf("call %d (%s) result %d: the server answered command %q but the live caller got no reply (%s)", cl.id, cl.kind, i, cl.tags[i], cl.errs[i]))
					} else {
						c.Hit("call:error-nothing-answered:" + strings.SplitN(cl.errs[i], ":", 2)[0])
					}
				}
			}
		}
		c.Hit("call:" + cl.kind)
		if cl.cancelled {
			c.Hit("call:cancelled")
		}
	}
	evs := srv.Events()
	byConn := map[int][]Event{}
	for _, e := range evs {
		if e.Kind == "c" || e.Kind == "m" {
			byConn[e.Conn] = append(byConn[e.Conn], e)
		}
	}
	conns := make([]int, 0, len(byConn))
	for k := range byConn {
		conns = append(conns, k)
	}
	sort.Ints(conns)
	for _, k := range conns {
		readerOps(k, byConn[k], calls, observed, func(op, impl string) {
			c.Emit(op, impl, strings.HasPrefix(op, "!m") && !strings.HasSuffix(op, "?"))
		}, c.Fail)
	}
}

func runReader(c *Ctx) {
	episodes := 6 + c.N/40
	for ep := 0; ep < episodes; ep++ {
		cfg := episodeCfg{
			goroutines: 1 + c.Rng.IntN(8), calls: 4 + c.Rng.IntN(12),
			multiplex: c.Rng.IntN(4) - 1, ring: 1 + c.Rng.IntN(4), always: c.Rng.IntN(2) == 0, nocache: c.Rng.IntN(4) == 0,
			pushProb: []float64{0, 0.1, 0.4}[c.Rng.IntN(3)], unsubProb: []float64{0, 0.05}[c.Rng.IntN(2)],
			cancelProb: []float64{0, 0.15, 0.4}[c.Rng.IntN(3)],
		}
		if v := os.Getenv("PIPE_CFG"); v != "" {
			var al, nc int
			fmt.Sscanf(v, "%d,%d,%d,%d,%d,%d,%f,%f,%f", &cfg.goroutines, &cfg.calls, &cfg.multiplex, &cfg.ring, &al, &nc, &cfg.pushProb, &cfg.unsubProb, &cfg.cancelProb)
			cfg.always, cfg.nocache = al == 1, nc == 1
		}
		seed := c.Rng.Uint64()
		epi := fmt.Sprintf("episode seed=%d cfg=%+v", seed, cfg)
		calls, srv, err := runEpisode(seed, cfg)
		if err != nil {
			c.Fail("pipe:hang", epi, err.Error())
		}
		c.Hit(fmt.Sprintf("conns=%d", min(srv.ConnCount(), 6)))
		analyse(c, calls, srv, epi)
	}
}
