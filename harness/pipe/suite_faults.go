package main

import (
	"bufio"
	"context"
	"crypto/tls"
	"errors"
	"fmt"
	"io"
	"net"
	"strconv"
	"strings"
	"sync"
	"sync/atomic"
	"time"

	"github.com/redis/rueidis"
)

func b01(x bool) string {
	if x {
		return "1"
	}
	return "0"
}

// ---------------------------------------------------------------------------------------------
// C03: non-retryable commands are executed at most once per call
// ---------------------------------------------------------------------------------------------

type amoCfg struct {
	lifetime          time.Duration
	stallAt           int
	stall             time.Duration
	fault             string // "", dropAfter, dropBefore, silent, half
	faultAt           int
	goroutines, calls int
	multi             bool
	bigBatch          bool // DoMulti of 8 long writes through a 512-byte write buffer: the batch reaches the wire in several flushes
}

func runAtMostOnce(c *Ctx) {
	var cfgs []amoCfg
	// connection lifetime expiry racing with slow replies: within and beyond the 1s close grace period
	for _, st := range []time.Duration{0, 250 * time.Millisecond, 1400 * time.Millisecond} {
		for _, multi := range []bool{false, true} {
			cfgs = append(cfgs, amoCfg{lifetime: 150 * time.Millisecond, stallAt: 2, stall: st, goroutines: 3, calls: 6, multi: multi})
		}
	}
	// the synchronous single-caller path (syncDo/syncDoMulti, background worker not started): one caller at a time, so
	// every call is alone on the connection when the lifetime expires during a reply stalled beyond the close grace
	for _, at := range []int{1, 2, 3} {
		cfgs = append(cfgs, amoCfg{lifetime: 150 * time.Millisecond, stallAt: at, stall: 1400 * time.Millisecond, goroutines: 1, calls: 4})
	}
	// a batch that is only PARTLY on the wire (several flushes) when the lifetime expires and the server stalls after
	// executing its first commands: what was executed must not be re-sent
	for _, st := range []time.Duration{250 * time.Millisecond, 1400 * time.Millisecond} {
		for _, at := range []int{1, 2, 4} {
			cfgs = append(cfgs, amoCfg{lifetime: 120 * time.Millisecond, stallAt: at, stall: st, goroutines: 1, calls: 3, multi: true, bigBatch: true})
		}
	}
	// connection drops relative to the request
	for _, f := range []string{"dropBefore", "dropAfter", "half", "silent"} {
		for at := 0; at < 4; at++ {
			cfgs = append(cfgs, amoCfg{fault: f, faultAt: at, goroutines: 2, calls: 4, multi: at%2 == 1})
		}
	}
	if c.Tier == "thorough" {
		for i := 0; i < c.N/20; i++ {
			cfgs = append(cfgs, amoCfg{lifetime: time.Duration(50+c.Rng.IntN(300)) * time.Millisecond, stallAt: c.Rng.IntN(8),
				stall: time.Duration(c.Rng.IntN(1600)) * time.Millisecond, goroutines: 1 + c.Rng.IntN(4), calls: 3 + c.Rng.IntN(6), multi: c.Rng.IntN(2) == 0})
		}
	}
	for i, cfg := range cfgs {
		amoEpisode(c, i, cfg)
	}
	// a batch whose WRITE fails half-way: the server executes the first commands of a batch larger than the write
	// buffer, then stops reading and never answers; the lifetime expires while the writer is blocked in Write
	for i, exec := range []int{1, 2, 5} {
		partialFlushEpisode(c, i, exec)
	}
}

// lateReadConn delays the read-side failure so that the pipe's writer (failing at the same instant, when the
// connection is closed under it) has finished first: the teardown then sees the final writer counters.
type lateReadConn struct{ net.Conn }

func (l lateReadConn) Read(b []byte) (int, error) {
	n, err := l.Conn.Read(b)
	if err != nil {
		time.Sleep(400 * time.Millisecond)
	}
	return n, err
}

func pfReadCmd(r *bufio.Reader) ([]string, error) {
	line, err := r.ReadString('\n')
	if err != nil {
		return nil, err
	}
	if len(line) < 2 || line[0] != '*' {
		return nil, fmt.Errorf("unexpected %q", line)
	}
	cnt, _ := strconv.Atoi(strings.TrimSpace(line[1:]))
	args := make([]string, cnt)
	for i := range args {
		if line, err = r.ReadString('\n'); err != nil {
			return nil, err
		}
		l, _ := strconv.Atoi(strings.TrimSpace(line[1:]))
		buf := make([]byte, l+2)
		if _, err = io.ReadFull(r, buf); err != nil {
			return nil, err
		}
		args[i] = string(buf[:l])
	}
	return args, nil
}

// partialFlushEpisode: one DoMulti of 8 non-retryable APPENDs (600-byte values, 1024-byte write buffer) over an
// unbuffered net.Pipe. The first connection's server executes `exec` of them, then stops reading and never replies;
// ConnLifetime expires while the rest of the batch is stuck in Write, the close grace passes, the connection is
// closed with the write half done. Whatever the client then does, no APPEND may be executed twice over all
// connections within this one call.
func partialFlushEpisode(c *Ctx, n int, exec int) {
	var (
		mu       sync.Mutex
		executed = map[string]int{}
		stalled  int32
		release  = make(chan struct{})
	)
	defer close(release)
	serve := func(conn net.Conn) {
		defer conn.Close()
		r := bufio.NewReaderSize(conn, 64)
		out := make(chan string, 4096)
		defer close(out)
		go func() {
			for s := range out {
				io.WriteString(conn, s)
			}
		}()
		stall, seen := false, 0
		for {
			args, err := pfReadCmd(r)
			if err != nil {
				return
			}
			switch strings.ToUpper(args[0]) {
			case "HELLO":
				out <- "%2\r\n+version\r\n+7.0.0\r\n+proto\r\n:3\r\n"
			case "PING":
				out <- "+PONG\r\n"
			case "APPEND":
				if seen == 0 && atomic.CompareAndSwapInt32(&stalled, 0, 1) {
					stall = true
				}
				seen++
				mu.Lock()
				executed[args[1]]++
				mu.Unlock()
				if stall {
					if seen == exec {
						<-release
						return
					}
					continue
				}
				out <- ":1\r\n"
			default:
				out <- "+OK\r\n"
			}
		}
	}
	client, err := rueidis.NewClient(rueidis.ClientOption{
		InitAddress: []string{"pfsrv:6379"}, ForceSingleClient: true, DisableCache: true, AlwaysPipelining: true,
		ConnLifetime: 600 * time.Millisecond, WriteBufferEachConn: 1024,
		DialCtxFn: func(ctx context.Context, dst string, _ *net.Dialer, _ *tls.Config) (net.Conn, error) {
			cl, sv := net.Pipe()
			go serve(sv)
			return lateReadConn{cl}, nil
		},
	})
	if err != nil {
		c.Fail("amo:newclient", "partial-flush", err.Error())
		return
	}
	defer client.Close()
	payload := strings.Repeat("x", 600)
	multi := make([]rueidis.Completed, 0, 8)
	for i := 0; i < 8; i++ {
		multi = append(multi, client.B().Append().Key(fmt.Sprintf("pf%d_%d", n, i)).Value(payload).Build())
	}
	done := make(chan []rueidis.RedisResult, 1)
	go func() { done <- client.DoMulti(context.Background(), multi...) }()
	var res []rueidis.RedisResult
	select {
	case res = <-done:
	case <-time.After(30 * time.Second):
		c.Fail("amo:call-hung:partial-flush-at-lifetime-expiry", fmt.Sprintf("partial-flush exec=%d", exec), "DoMulti did not return within 30s")
	}
	mu.Lock()
	counts := make([]int, 8)
	for i := range counts {
		counts[i] = executed[fmt.Sprintf("pf%d_%d", n, i)]
	}
	mu.Unlock()
	c.Hit(fmt.Sprintf("amo:partial-flush:exec=%d:reached=%v:returned=%v", exec, counts[0] > 0, res != nil))
	for i, cnt := range counts {
		ack := res != nil && i < len(res) && res[i].Error() == nil
		op := fmt.Sprintf("!amo %s %d %s", hx(fmt.Sprintf("pf%d_%d", n, i)), cnt, b01(ack))
		if cnt > 1 {
			c.Fail("amo:executed-twice:partial-flush-at-lifetime-expiry", op, fmt.Sprintf("non-retryable APPEND #%d of a DoMulti whose write failed half-way (server executed %d commands, then stopped reading; ConnLifetime expired) was executed %d times within one call", i, exec, cnt))
		}
		c.Emit(op, "ok", true)
	}
}

func amoEpisode(c *Ctx, n int, cfg amoCfg) {
	srv := NewServer(uint64(n) + 1)
	if cfg.stall > 0 {
		srv.Faults = append(srv.Faults, &Fault{Conn: -1, AtCmd: cfg.stallAt, Kind: "stall", Stall: cfg.stall})
	}
	if cfg.fault != "" {
		srv.Faults = append(srv.Faults, &Fault{Conn: -1, AtCmd: cfg.faultAt, Kind: cfg.fault})
	}
	client, err := rueidis.NewClient(rueidis.ClientOption{
		InitAddress: []string{"tagsrv:6379"}, DialCtxFn: srv.Dial, ForceSingleClient: true, DisableCache: true,
		ConnLifetime: cfg.lifetime, PipelineMultiplex: -1, ConnWriteTimeout: 3 * time.Second, AlwaysPipelining: cfg.multi,
		WriteBufferEachConn: map[bool]int{true: 512, false: 0}[cfg.bigBatch], // the handshake (sync, net.Pipe) must fit one flush
	})
	if err != nil {
		c.Fail("amo:newclient", fmt.Sprint(cfg), err.Error())
		return
	}
	type rec struct {
		tag    string
		write  bool
		ok     bool
		errstr string
	}
	var mu sync.Mutex
	var recs []rec
	var wg sync.WaitGroup
	for g := 0; g < cfg.goroutines; g++ {
		wg.Add(1)
		go func(g int) {
			defer wg.Done()
			for k := 0; k < cfg.calls; k++ {
				ctx, cancel := context.WithTimeout(context.Background(), 4*time.Second)
				if cfg.bigBatch {
					var cs []rueidis.Completed
					var ts []string
					for i := 0; i < 8; i++ {
						t := fmt.Sprintf("k%d_%dw%d_%s", g, k, i, strings.Repeat("p", 180)) // ~2 commands per flush
						ts = append(ts, t)
						cs = append(cs, client.B().Incr().Key(t).Build())
					}
					rs := client.DoMulti(ctx, cs...)
					mu.Lock()
					for i, t := range ts {
						e := rs[i].Error()
						recs = append(recs, rec{t, true, e == nil, fmt.Sprint(e)})
					}
					mu.Unlock()
				} else if cfg.multi && k%2 == 1 {
					t1, t2, t3 := fmt.Sprintf("k%d_%dw1", g, k), fmt.Sprintf("k%d_%dr", g, k), fmt.Sprintf("k%d_%dw2", g, k)
					rs := client.DoMulti(ctx, client.B().Incr().Key(t1).Build(), client.B().Get().Key(t2).Build(), client.B().Set().Key(t3).Value("v").Build())
					mu.Lock()
					for i, t := range []string{t1, t2, t3} {
						e := rs[i].Error()
						recs = append(recs, rec{t, i != 1, e == nil, fmt.Sprint(e)})
					}
					mu.Unlock()
				} else {
					t := fmt.Sprintf("k%d_%dw", g, k)
					e := client.Do(ctx, client.B().Incr().Key(t).Build()).Error()
					mu.Lock()
					recs = append(recs, rec{t, true, e == nil, fmt.Sprint(e)})
					mu.Unlock()
				}
				cancel()
				if cfg.lifetime > 0 {
					time.Sleep(cfg.lifetime / 3)
				}
			}
		}(g)
	}
	done := make(chan struct{})
	go func() { wg.Wait(); close(done) }()
	select {
	case <-done:
	case <-time.After(40 * time.Second):
		c.Fail("amo:hang", fmt.Sprintf("%+v", cfg), "calls did not return within 40s")
	}
	client.Close()
	if cfg.stall > 0 {
		srv.WaitStalls() // the stalled command is executed when the server wakes up, even on a connection the client has left
	}
	desc := fmt.Sprintf("lifetime=%v stall=%v@%d fault=%s@%d multi=%v", cfg.lifetime, cfg.stall, cfg.stallAt, cfg.fault, cfg.faultAt, cfg.multi)
	c.Hit("amo:" + strings.Fields(desc)[0] + ":" + fmt.Sprint(cfg.stall) + ":" + cfg.fault)
	for _, r := range recs {
		n := srv.Execs(r.tag)
		if !r.write {
			continue
		}
		op := fmt.Sprintf("!amo %s %d %s", hx(r.tag), n, b01(r.ok))
		// the harness's own judgement (stable witness keys)
		if n > 1 {
			key := "amo:executed-twice"
			if cfg.lifetime > 0 && cfg.stall > time.Second && cfg.fault == "" {
				key = "amo:executed-twice:conn-lifetime-expiry-beyond-close-grace"
			}
			c.Fail(key, op, fmt.Sprintf("non-retryable write %s was executed %d times by the server within one call (%s; call result ok=%v err=%s)", r.tag, n, desc, r.ok, r.errstr))
		}
		if r.ok && n == 0 {
			c.Fail("amo:ack-without-execution", op, desc)
		}
		c.Emit(op, map[bool]string{true: "ok", false: "ok"}[true], true)
	}
}

// ---------------------------------------------------------------------------------------------
// C04: broken connections and Close never leave calls hanging
// ---------------------------------------------------------------------------------------------

// closeDuringDial: a re-dial is in flight while Close runs; afterwards every call must fail with ErrClosing
// and the late connection must not serve anything.
func closeDuringDial(c *Ctx, n int, always bool) {
	srv := NewServer(uint64(n) + 900)
	client, err := rueidis.NewClient(rueidis.ClientOption{
		InitAddress: []string{"tagsrv:6379"}, DialCtxFn: srv.Dial, ForceSingleClient: true, DisableRetry: true, DisableCache: true,
		PipelineMultiplex: -1, AlwaysPipelining: always,
	})
	if err != nil {
		c.Fail("broken:newclient", "close-during-dial", err.Error())
		return
	}
	ctx := context.Background()
	client.Do(ctx, client.B().Echo().Message("warm").Build())
	srv.mu.Lock()
	srv.DialGate, srv.DialWaiting = make(chan struct{}), make(chan struct{}, 4)
	gate, waiting := srv.DialGate, srv.DialWaiting
	srv.mu.Unlock()
	srv.CloseAll() // the wire breaks; the next call re-dials and parks inside the dial
	inflight := make(chan error, 1)
	go func() {
		var e error
		for try := 0; try < 6; try++ { // the first calls may still hit the broken wire
			e = client.Do(ctx, client.B().Echo().Message(fmt.Sprintf("mid%d_%d", n, try)).Build()).Error()
			if e == nil {
				break
			}
		}
		inflight <- e
	}()
	parked := false
	select {
	case <-waiting:
		parked = true
	case <-time.After(2 * time.Second):
	}
	client.Close()
	close(gate)
	select {
	case <-inflight:
	case <-time.After(5 * time.Second):
		c.Fail("broken:call-hung:close-during-dial", "close-during-dial", "the call whose dial was in flight during Close never returned")
	}
	time.Sleep(10 * time.Millisecond)
	before := len(srv.Events())
	lr := client.Do(ctx, client.B().Echo().Message(fmt.Sprintf("afterclose%d", n)).Build())
	later := "other:" + fmt.Sprint(lr.Error())
	if errors.Is(lr.Error(), rueidis.ErrClosing) {
		later = "closing"
	}
	served := false
	for _, ev := range srv.Events()[before:] {
		if ev.Kind == "c" && len(ev.Argv) > 1 && strings.HasPrefix(ev.Argv[1], "afterclose") {
			served = true
		}
	}
	op := fmt.Sprintf("!later clientclose %s", strings.SplitN(later, ":", 2)[0])
	c.Hit(fmt.Sprintf("broken:close-during-dial:parked=%v:%s", parked, strings.SplitN(later, ":", 2)[0]))
	if later != "closing" || served {
		c.Fail("broken:call-after-close-served:dial-in-flight-during-close", op, fmt.Sprintf("a call issued after Close returned %q (served by the server: %v): the connection dialled during Close replaced the closed wire", later, served))
	}
	c.Emit(op, "ok", true)
}

func runBroken(c *Ctx) {
	closeDuringDial(c, 0, false)
	closeDuringDial(c, 1, true)
	kinds := []string{"do", "multi", "cache", "multicache", "sub", "block", "write"}
	faults := []string{"dropBefore", "dropAfter", "half", "closeall", "clientclose"}
	n := 0
	for _, always := range []bool{false, true} {
		for _, f := range faults {
			for occ := 0; occ <= 5; occ += 1 {
				if c.Tier == "quick" && (occ == 2 || occ == 4) {
					continue
				}
				brokenEpisode(c, n, kinds, f, occ, always)
				n++
			}
		}
	}
}

// brokenEpisode: `occ`+1 callers of mixed kinds are pending when the fault hits.
func brokenEpisode(c *Ctx, n int, kinds []string, fault string, occ int, always bool) {
	srv := NewServer(uint64(n) + 11)
	// every connection stalls its first user command so that calls pile up, then the fault fires
	release := make(chan struct{})
	srv.ReplyDelay = func(tag string) time.Duration {
		if strings.HasPrefix(tag, "p") { // pending calls block in the server until released
			<-release
		}
		return 0
	}
	switch fault {
	case "dropBefore", "dropAfter", "half":
		srv.Faults = append(srv.Faults, &Fault{Conn: -1, AtCmd: occ, Kind: fault})
	}
	client, err := rueidis.NewClient(rueidis.ClientOption{
		InitAddress: []string{"tagsrv:6379"}, DialCtxFn: srv.Dial, ForceSingleClient: true, DisableRetry: true,
		PipelineMultiplex: -1, RingScaleEachConn: 1, AlwaysPipelining: always, BlockingPoolSize: 8, ConnWriteTimeout: 5 * time.Second,
	})
	if err != nil {
		c.Fail("broken:newclient", fault, err.Error())
		return
	}
	type res struct {
		kind     string
		returned bool
		errstr   string
		hasErr   bool
		own      bool
	}
	results := make([]res, occ+1)
	var wg sync.WaitGroup
	for i := 0; i <= occ; i++ {
		kind := kinds[(n+i)%len(kinds)]
		results[i].kind = kind
		wg.Add(1)
		go func(i int, kind string) {
			defer wg.Done()
			ctx := context.Background()
			tag := fmt.Sprintf("p%d_%d", n, i)
			var e error
			var payload string
			switch kind {
			case "do":
				r := client.Do(ctx, client.B().Echo().Message(tag).Build())
				payload, _ = payloadOf(r)
				e = r.Error()
			case "write":
				r := client.Do(ctx, client.B().Incr().Key(tag).Build())
				payload, _ = payloadOf(r)
				e = r.Error()
			case "block":
				r := client.Do(ctx, client.B().Blpop().Key(tag).Timeout(0).Build())
				payload, _ = payloadOf(r)
				e = r.Error()
			case "multi":
				rs := client.DoMulti(ctx, client.B().Echo().Message(tag).Build(), client.B().Echo().Message(tag+"b").Build())
				payload, _ = payloadOf(rs[0])
				e = rs[0].Error()
				if e == nil {
					e = rs[1].Error()
				}
			case "cache":
				r := client.DoCache(ctx, client.B().Get().Key(tag).Cache(), time.Minute)
				payload, _ = payloadOf(r)
				e = r.Error()
			case "multicache":
				rs := client.DoMultiCache(ctx, rueidis.CT(client.B().Get().Key(tag).Cache(), time.Minute), rueidis.CT(client.B().Get().Key(tag+"b").Cache(), time.Minute))
				payload, _ = payloadOf(rs[0])
				e = rs[0].Error()
				if e == nil {
					e = rs[1].Error()
				}
			case "sub":
				e = client.Receive(ctx, client.B().Subscribe().Channel(tag).Build(), func(rueidis.PubSubMessage) {})
				if e == nil {
					e = errors.New("receive returned nil without unsubscribe")
				}
			}
			results[i].returned = true
			results[i].hasErr = e != nil
			results[i].errstr = fmt.Sprint(e)
			results[i].own = e == nil && strings.HasPrefix(payload, tag+"|")
		}(i, kind)
	}
	time.Sleep(30 * time.Millisecond) // let the calls reach the server / the queue
	switch fault {
	case "closeall":
		srv.CloseAll()
	case "clientclose":
		go client.Close()
		time.Sleep(5 * time.Millisecond)
	}
	close(release)
	if fault != "clientclose" {
		// calls parked on connections the fault did not hit (e.g. a subscription that never gets a message)
		// are released by closing every connection: afterwards every pending call must have returned
		time.Sleep(30 * time.Millisecond)
		srv.CloseAll()
	}
	done := make(chan struct{})
	go func() { wg.Wait(); close(done) }()
	hung := false
	select {
	case <-done:
	case <-time.After(8 * time.Second):
		hung = true
	}
	// a later call must be served by a fresh connection (server-side faults) or fail with ErrClosing (client Close)
	later := "n/a"
	var lr rueidis.RedisResult
	for try := 0; try < 8; try++ { // the client may need a few calls to notice a silently closed connection
		lctx, lcancel := context.WithTimeout(context.Background(), 3*time.Second)
		lr = client.Do(lctx, client.B().Echo().Message(fmt.Sprintf("later%d_%d", n, try)).Build())
		lcancel()
		if lr.Error() == nil || fault == "clientclose" {
			break
		}
		time.Sleep(15 * time.Millisecond)
	}
	switch {
	case fault == "clientclose":
		time.Sleep(20 * time.Millisecond)
		lr = client.Do(context.Background(), client.B().Echo().Message(fmt.Sprintf("later2%d", n)).Build())
		if errors.Is(lr.Error(), rueidis.ErrClosing) {
			later = "closing"
		} else {
			later = "other:" + fmt.Sprint(lr.Error())
		}
	case lr.Error() == nil:
		later = "served"
	default:
		later = "err:" + fmt.Sprint(lr.Error())
	}
	if fault != "clientclose" {
		client.Close()
	}
	for i, r := range results {
		op := fmt.Sprintf("!broken %s %s %s %s %s", fault, r.kind, b01(r.returned), b01(r.hasErr), b01(r.own))
		if !r.returned || hung && !r.returned {
			c.Fail("broken:call-hung:"+fault+":"+r.kind, op, fmt.Sprintf("call %d (%s) pending at a %s fault never returned (occupancy %d, always=%v)", i, r.kind, fault, occ+1, always))
		} else if !r.hasErr && !r.own {
			c.Fail("broken:foreign-or-empty-reply:"+fault+":"+r.kind, op, "call returned neither an error nor its own reply: "+r.errstr)
		}
		c.Hit("broken:" + fault + ":" + r.kind + ":" + map[bool]string{true: "err", false: "reply"}[r.hasErr])
		c.Emit(op, "ok", true)
	}
	op := fmt.Sprintf("!later %s %s", fault, strings.SplitN(later, ":", 2)[0])
	if (fault == "clientclose" && later != "closing") || (fault != "clientclose" && later != "served") {
		c.Fail("broken:later-call:"+fault, op, "a call after the fault got: "+later)
	}
	c.Emit(op, "ok", true)
}

// ---------------------------------------------------------------------------------------------
// C05: calls honour context deadlines and cancellation
// ---------------------------------------------------------------------------------------------

func runDeadline(c *Ctx) {
	kinds := []string{"do", "multi", "cache", "multicache", "block", "cachewait", "poolwait", "sub", "slowsub"}
	n := 0
	for _, always := range []bool{false, true} {
		for _, kind := range kinds {
			for _, mode := range []string{"deadline", "cancel", "done"} {
				deadlineEpisode(c, n, kind, mode, always)
				n++
			}
		}
		// a client whose default read/write timeout is disabled (negative ConnWriteTimeout): the context deadline is
		// then the only deadline the synchronous path can put on the connection
		for _, kind := range []string{"do-nowt", "multi-nowt"} {
			for _, mode := range []string{"deadline", "done"} {
				deadlineEpisode(c, n, kind, mode, always)
				n++
			}
		}
		// waiting in a retry back-off (2 s) after a retryable error reply: cancellation must end the wait, also when
		// the context carries a (far) deadline as well
		for _, kind := range []string{"retrywait", "retrywaitmulti"} {
			for _, mode := range []string{"cancel", "canceldl", "done"} {
				deadlineEpisode(c, n, kind, mode, always)
				n++
			}
		}
	}
}

// deadlineEpisode: the server never answers the call's command; the call must return shortly after its deadline /
// cancellation; a call whose context is already done must send nothing.
func deadlineEpisode(c *Ctx, n int, kind, mode string, always bool) {
	srv := NewServer(uint64(n) + 101)
	block := make(chan struct{})
	srv.ReplyDelay = func(tag string) time.Duration {
		if strings.HasPrefix(tag, "s") {
			<-block
		}
		return 0
	}
	dopt := rueidis.ClientOption{
		InitAddress: []string{"tagsrv:6379"}, DialCtxFn: srv.Dial, ForceSingleClient: true, DisableRetry: true,
		PipelineMultiplex: -1, AlwaysPipelining: always, BlockingPoolSize: 1, ConnWriteTimeout: 10 * time.Second,
	}
	label := kind
	if strings.HasSuffix(kind, "-nowt") {
		dopt.ConnWriteTimeout = -1
		kind = strings.TrimSuffix(kind, "-nowt")
	}
	if strings.HasPrefix(kind, "retrywait") {
		dopt.DisableRetry = false
		dopt.RetryDelay = func(int, rueidis.Completed, error) time.Duration { return 2 * time.Second }
	}
	client, err := rueidis.NewClient(dopt)
	if err != nil {
		c.Fail("deadline:newclient", kind, err.Error())
		return
	}
	slowRelease := make(chan struct{})
	defer func() { close(block); close(slowRelease); client.Close() }()
	const limit = 60 * time.Millisecond
	tag := fmt.Sprintf("s%d", n)
	// preconditions for the waiting-on-others kinds
	switch kind {
	case "cachewait": // another caller's flight for the same key is pending
		go client.DoCache(context.Background(), client.B().Get().Key(tag).Cache(), time.Minute)
		time.Sleep(20 * time.Millisecond)
	case "poolwait": // the single blocking-pool connection is busy
		go client.Do(context.Background(), client.B().Blpop().Key(tag+"hold").Timeout(0).Build())
		time.Sleep(20 * time.Millisecond)
	}
	var ctx context.Context
	var cancel context.CancelFunc
	switch mode {
	case "deadline":
		ctx, cancel = context.WithTimeout(context.Background(), limit)
	case "cancel":
		ctx, cancel = context.WithCancel(context.Background())
		time.AfterFunc(limit, cancel)
	case "canceldl": // cancelled by hand long before its own deadline
		ctx, cancel = context.WithTimeout(context.Background(), 30*time.Second)
		time.AfterFunc(limit, cancel)
	case "done":
		ctx, cancel = context.WithCancel(context.Background())
		cancel()
	}
	defer cancel()
	before := len(srv.Events())
	start := time.Now()
	var e error
	finished := make(chan struct{})
	go func() {
		defer close(finished)
		switch kind {
		case "do":
			e = client.Do(ctx, client.B().Echo().Message(tag).Build()).Error()
		case "multi":
			e = client.DoMulti(ctx, client.B().Echo().Message(tag).Build(), client.B().Echo().Message(tag+"b").Build())[0].Error()
		case "cache", "cachewait":
			e = client.DoCache(ctx, client.B().Get().Key(tag).Cache(), time.Minute).Error()
		case "multicache":
			e = client.DoMultiCache(ctx, rueidis.CT(client.B().Get().Key(tag).Cache(), time.Minute))[0].Error()
		case "retrywait": // read-only command answered -LOADING: the call sits in the retry back-off
			e = client.Do(ctx, client.B().Get().Key("lod"+tag).Build()).Error()
		case "retrywaitmulti":
			e = client.DoMulti(ctx, client.B().Get().Key("lod"+tag).Build(), client.B().Get().Key("lod"+tag+"b").Build())[0].Error()
		case "block", "poolwait":
			e = client.Do(ctx, client.B().Blpop().Key(tag).Timeout(0).Build()).Error()
		case "sub":
			e = client.Receive(ctx, client.B().Subscribe().Channel(tag).Build(), func(rueidis.PubSubMessage) {})
		case "slowsub":
			// a slow subscriber (4 ms per message) while the server keeps publishing: the per-subscription buffer is
			// full and the connection's reader is blocked in Publish when the context ends
			e = client.Receive(ctx, client.B().Subscribe().Channel(tag).Build(), func(rueidis.PubSubMessage) { time.Sleep(4 * time.Millisecond) })
		}
	}()
	if kind == "slowsub" && mode != "done" {
		go func() {
			time.Sleep(10 * time.Millisecond)
			srv.Publish(tag, 64)
		}()
	}
	returned := true
	select {
	case <-finished:
	case <-time.After(limit + 3*time.Second):
		returned = false
	}
	took := time.Since(start)
	if kind == "slowsub" && returned {
		// the shared connection must still serve other callers after the subscriber gave up
		octx, ocancel := context.WithTimeout(context.Background(), 3*time.Second)
		oerr := client.Do(octx, client.B().Echo().Message("after"+tag[1:]).Build()).Error()
		ocancel()
		if oerr != nil {
			c.Fail("deadline:connection-wedged-after-slow-subscriber", kind+" "+mode, "a command issued after the cancelled Receive failed: "+oerr.Error())
		}
	}
	sent := 0
	for _, ev := range srv.Events()[before:] {
		if ev.Kind == "c" && len(ev.Argv) > 1 && (strings.HasPrefix(ev.Argv[1], tag) || strings.HasPrefix(ev.Argv[1], "lod"+tag)) && !strings.HasSuffix(ev.Argv[1], "hold") {
			sent++
		}
	}
	// "shortly after": generous bound of 1s over the deadline (wall-clock, exploration evidence)
	prompt := returned && took < limit+time.Second
	ctxErr := returned && e != nil && (errors.Is(e, context.DeadlineExceeded) || errors.Is(e, context.Canceled))
	op := fmt.Sprintf("!deadline %s %s %s %s %s %s", label, mode, b01(returned), b01(prompt), b01(ctxErr), b01(sent == 0))
	c.Hit(fmt.Sprintf("deadline:%s:%s", label, mode))
	if returned && !ctxErr {
		c.Hit(fmt.Sprintf("deadline:%s:%s:err=%v", kind, mode, e))
	}
	if !returned {
		c.Fail("deadline:hang:"+kind+":"+mode, op, fmt.Sprintf("call did not return %v after its context ended (always=%v)", took, always))
	} else if !prompt {
		c.Fail("deadline:late:"+kind+":"+mode, op, fmt.Sprintf("call returned %v after start, deadline %v", took, limit))
	} else if e == nil {
		c.Fail("deadline:no-error:"+kind+":"+mode, op, "call returned nil although the server never answered")
	}
	if mode == "done" && sent != 0 && kind != "cachewait" {
		c.Fail("deadline:done-ctx-sent:"+kind, op, fmt.Sprintf("a call whose context was already done put %d command(s) on the wire", sent))
	}
	c.Emit(op, "ok", true)
}

func init() {
	suites["atmostonce"] = suite{rule: "fault/latency enumeration on the real client against the tag server: ConnLifetime expiry racing with replies stalled for 0/250/1400 ms (within and beyond the 1 s close grace period) x Do/DoMulti, connection drops before execution / after execution / mid-reply / silent at command positions 0-3; per write command tag the server-side execution count is the oracle (<= 1 per call); non-trivial = every write command", run: runAtMostOnce}
	suites["broken"] = suite{rule: "fault enumeration: 5 fault kinds (server drops before execute / after execute / half reply, server closes all connections, client Close) x occupancy 1-6 pending calls of 7 kinds (Do, DoMulti, DoCache, DoMultiCache, Receive, blocking, write) x AlwaysPipelining on/off; every pending call must return with an error or its own reply, a later call must be served by a fresh connection (ErrClosing after Close)", run: runBroken}
	suites["deadline"] = suite{rule: "waiting-point enumeration: 8 call kinds (pipeline wait for Do/DoMulti/DoCache/DoMultiCache, blocking command, wait on another caller's cache flight, wait for the exhausted blocking pool, Receive) x {deadline, manual cancel, already-done context} x AlwaysPipelining on/off against a server that never answers; the call must return with the context error within 1 s of the deadline and an already-done context must send nothing", run: runDeadline}
}
