package main

// Suite pipelife (C04/C05): the REAL pipe (rueidis.VerifNewPipe = _newPipe) over the tag server,
// driven through (a) sequentialised random schedules whose every action is followed by an
// event-driven wait for quiescence, compared line by line with the interleaving model
// Rv/Model/PipeLife.lean run by Rv/Drv/PipeLife.lean on the same schedule, and (b) concurrent
// episodes (callers issuing Do/DoMulti with random cancellation, the connection killed or the pipe
// closed at a random point of the server's command stream) judged by `!` oracle lines from the
// statements of Rv.C04.Life. No wait decides an oracle by sleeping: every wait is for an observable
// event (a call's return, a command reaching the server, a counter of the pipe) under a generous
// watchdog whose expiry is reported as a hang.

import (
	"context"
	"errors"
	"fmt"
	"math/rand/v2"
	"net"
	"os"
	"reflect"
	"runtime"
	"sort"
	"strings"
	"sync"
	"sync/atomic"
	"time"
	"unsafe"

	"github.com/redis/rueidis"
	"github.com/redis/rueidis/internal/cmds"
)

const plWatchdog = 25 * time.Second

var plDebug = os.Getenv("PIPELIFE_DEBUG") != ""

// plPeek reads the unexported counters of the real pipe (atomically, through their addresses).
type plPeek struct {
	state, bgState *int32
	wr             *atomic.Uint64
	ringWrite      *uint32
}

func newPlPeek(vp *rueidis.VerifPipe) (pk plPeek, err error) {
	defer func() {
		if r := recover(); r != nil {
			err = fmt.Errorf("pipe layout changed: %v", r)
		}
	}()
	p := reflect.ValueOf(vp).Elem().Field(0).Elem() // the pipe struct
	pk.state = (*int32)(unsafe.Pointer(p.FieldByName("state").UnsafeAddr()))
	pk.bgState = (*int32)(unsafe.Pointer(p.FieldByName("bgState").UnsafeAddr()))
	pk.wr = (*atomic.Uint64)(unsafe.Pointer(p.FieldByName("wrCounter").UnsafeAddr()))
	q := p.FieldByName("queue").Elem()
	if q.Kind() != reflect.Pointer || q.Elem().Type().Name() != "ring" {
		return pk, fmt.Errorf("queue is %v, not *ring", q.Type())
	}
	pk.ringWrite = (*uint32)(unsafe.Pointer(q.Elem().FieldByName("write").UnsafeAddr()))
	return pk, nil
}

func (k plPeek) State() int32  { return atomic.LoadInt32(k.state) }
func (k plPeek) Bg() bool      { return atomic.LoadInt32(k.bgState) != 0 }
func (k plPeek) Waits() uint32 { return uint32(k.wr.Load()) }
func (k plPeek) Puts() uint32  { return atomic.LoadUint32(k.ringWrite) }
func plYield()                 { runtime.Gosched(); time.Sleep(200 * time.Microsecond) }
func plClass(e error, own bool, ctx context.Context) string {
	switch {
	case e == nil && own:
		return "reply"
	case e == nil:
		return "foreign"
	case plCtxDone(ctx) && (errors.Is(e, context.DeadlineExceeded) || errors.Is(e, context.Canceled)):
		return "ctx"
	case errors.Is(e, rueidis.ErrClosing):
		return "closing"
	default:
		if _, ok := rueidis.IsRedisErr(e); ok {
			return "rediserr"
		}
		return "transport"
	}
}

// lateDeadline is a context whose deadline clock starts when the pipe first asks for Deadline() or Done(),
// i.e. after the admission check `ctx.Err()`: the schedule "the deadline passes while the call is in the
// pipe" then does not depend on how late the calling goroutine was scheduled.
type lateDeadline struct {
	mu    sync.Mutex
	d     time.Duration
	start time.Time
	armed bool
	fired bool
	done  chan struct{}
}

func newLateDeadline(d time.Duration) *lateDeadline {
	return &lateDeadline{d: d, done: make(chan struct{})}
}

func (l *lateDeadline) arm() {
	l.mu.Lock()
	defer l.mu.Unlock()
	if !l.armed {
		l.armed, l.start = true, time.Now()
		time.AfterFunc(l.d, func() {
			l.mu.Lock()
			l.fired = true
			l.mu.Unlock()
			close(l.done)
		})
	}
}
func (l *lateDeadline) Deadline() (time.Time, bool) { l.arm(); return l.start.Add(l.d), true }
func (l *lateDeadline) Done() <-chan struct{}       { l.arm(); return l.done }
func (l *lateDeadline) Value(any) any               { return nil }
func (l *lateDeadline) Err() error {
	l.mu.Lock()
	defer l.mu.Unlock()
	if l.fired {
		return context.DeadlineExceeded
	}
	return nil
}

// plCtxDone: the context is done, or its deadline has passed (the connection deadline of the sync path is
// the same instant and may fire a moment before the context's own timer)
func plCtxDone(ctx context.Context) bool {
	if ctx.Err() != nil {
		return true
	}
	if l, ok := ctx.(*lateDeadline); ok {
		l.mu.Lock()
		defer l.mu.Unlock()
		return l.armed && !time.Now().Before(l.start.Add(l.d))
	}
	return false
}

type plCall struct {
	id         int
	kind       string // bg | cn | dl
	multi      bool
	tag        string
	ctx        context.Context
	cancel     context.CancelFunc
	done       chan struct{}
	class      string
	ctxAtStart bool
	inFifo     bool
}

type plLine struct {
	op, ans string
	nontriv bool
}

type plResult struct {
	lines []plLine
	hits  []string
	fails []Bad
}

func (r *plResult) emit(op, ans string) { r.lines = append(r.lines, plLine{op, ans, true}) }
func (r *plResult) fail(key, op, what string) {
	r.fails = append(r.fails, Bad{Key: key, Op: op, What: what})
}

// plGate holds the replies of commands whose tag starts with "h" until they are released.
type plGate struct {
	mu    sync.Mutex
	gates map[string]chan struct{}
	all   bool
}

func (g *plGate) ch(tag string) chan struct{} {
	g.mu.Lock()
	defer g.mu.Unlock()
	if g.gates == nil {
		g.gates = map[string]chan struct{}{}
	}
	c, ok := g.gates[tag]
	if !ok {
		c = make(chan struct{})
		if g.all {
			close(c)
		}
		g.gates[tag] = c
	}
	return c
}

func (g *plGate) open(tag string) {
	c := g.ch(tag)
	g.mu.Lock()
	defer g.mu.Unlock()
	select {
	case <-c:
	default:
		close(c)
	}
}

func (g *plGate) openAll() {
	g.mu.Lock()
	defer g.mu.Unlock()
	g.all = true
	for _, c := range g.gates {
		select {
		case <-c:
		default:
			close(c)
		}
	}
}

// heldSeen lists, in arrival order, the held commands the server has received.
func heldSeen(srv *Server) []string {
	var out []string
	for _, ev := range srv.Events() {
		if ev.Kind == "c" && len(ev.Argv) > 1 && strings.HasPrefix(ev.Argv[1], "h") {
			out = append(out, ev.Argv[1])
		}
	}
	return out
}

func plNewPipe(srv *Server, pipelined bool) (*rueidis.VerifPipe, plPeek, error) {
	opt := &rueidis.ClientOption{
		InitAddress: []string{"tagsrv:6379"}, DisableCache: true, AlwaysPipelining: pipelined,
		ConnWriteTimeout: 20 * time.Second, RingScaleEachConn: 6,
	}
	vp, err := rueidis.VerifNewPipe(context.Background(), func(ctx context.Context) (net.Conn, error) {
		return srv.Dial(ctx, "tagsrv:6379", nil, nil)
	}, opt, false)
	if err != nil {
		return nil, plPeek{}, err
	}
	pk, err := newPlPeek(vp)
	return vp, pk, err
}

// issue starts the call in its own goroutine; done is closed when it has returned.
func (c *plCall) issue(vp *rueidis.VerifPipe, b rueidis.Builder) {
	c.done = make(chan struct{})
	c.ctxAtStart = c.ctx.Err() != nil
	go func() {
		defer close(c.done)
		var e error
		var payload string
		func() {
			defer func() {
				if r := recover(); r != nil {
					e = fmt.Errorf("panic: %v", r)
				}
			}()
			if c.multi {
				rs := vp.DoMulti(c.ctx, b.Echo().Message(c.tag).Build(), b.Echo().Message("x"+c.tag).Build())
				payload, _ = payloadOf(rs[0])
				e = rs[0].Error()
				if e == nil {
					e = rs[1].Error()
				}
			} else {
				r := vp.Do(c.ctx, b.Echo().Message(c.tag).Build())
				payload, _ = payloadOf(r)
				e = r.Error()
			}
		}()
		c.class = plClass(e, strings.HasPrefix(payload, c.tag+"|"), c.ctx)
		if e != nil && strings.HasPrefix(e.Error(), "panic:") {
			c.class = "panic"
		}
	}()
}

func (c *plCall) returned() bool {
	select {
	case <-c.done:
		return true
	default:
		return false
	}
}

// waitFor polls an observable condition (yielding, never deciding anything by elapsed time) until it holds.
func waitFor(cond func() bool) bool {
	deadline := time.Now().Add(plWatchdog)
	for !cond() {
		if time.Now().After(deadline) {
			return false
		}
		plYield()
	}
	return true
}

// ---------------------------------------------------------------------------------------------
// (a) sequentialised schedules, compared with the model
// ---------------------------------------------------------------------------------------------

// plSequential runs one sequentialised episode. With script == nil the schedule is drawn from the seed; otherwise
// script holds the op lines of a recorded episode (`reset pl=… kinds…`, `act …`, anything else is ignored) and the
// same actions are replayed on the real pipe.
func plSequential(ep int, seed uint64, tier string, script []string) (res plResult) {
	rng := rand.New(rand.NewPCG(seed, 0x51ed))
	pipelined := rng.IntN(2) == 0
	n := 2 + rng.IntN(3)
	kinds := make([]string, n)
	for i := range kinds {
		kinds[i] = []string{"bg", "bg", "cn", "cn", "dl"}[rng.IntN(5)]
	}
	var scripted []string
	if script != nil {
		ws := strings.Fields(script[0])
		if len(ws) < 2 || ws[0] != "reset" {
			res.fail("pipelife:replay", script[0], "an episode must start with a reset line")
			return
		}
		pipelined = ws[1] == "pl=1"
		kinds = ws[2:]
		n = len(kinds)
		for _, l := range script[1:] {
			if strings.HasPrefix(l, "act ") {
				scripted = append(scripted, strings.TrimPrefix(l, "act "))
			}
		}
	}
	srv := NewServer(seed)
	gate := &plGate{}
	srv.ReplyDelay = func(tag string) time.Duration {
		if strings.HasPrefix(tag, "h") {
			<-gate.ch(tag)
		}
		return 0
	}
	defer gate.openAll()
	vp, pk, err := plNewPipe(srv, pipelined)
	if err != nil {
		res.fail("pipelife:newpipe", "reset", err.Error())
		return
	}
	b := cmds.NewBuilder(cmds.NoSlot)
	res.emit(fmt.Sprintf("reset pl=%s %s", b01(pipelined), strings.Join(kinds, " ")), "ok")
	calls := make([]*plCall, n)
	next := 0
	released := 0
	var fifo []*plCall // calls that reached the server's command stream or the queue, oldest first
	killed, closed := false, false
	hang := func(op, what string) {
		res.fail("pipelife:hang:"+strings.Fields(op + " end")[1], op, what+fmt.Sprintf(" (state=%d waits=%d bg=%v)", pk.State(), pk.Waits(), pk.Bg()))
	}
	snapshot := func() string {
		var parts []string
		for _, c := range calls {
			if c != nil && c.returned() {
				parts = append(parts, fmt.Sprintf("%d:%s", c.id, c.class))
			}
		}
		if len(parts) == 0 {
			parts = []string{"-"}
		}
		sort.Strings(parts)
		return fmt.Sprintf("st=%d ret=%s", pk.State(), strings.Join(parts, ","))
	}
	pending := func() []*plCall {
		var out []*plCall
		for _, c := range calls {
			if c != nil && !c.returned() {
				out = append(out, c)
			}
		}
		return out
	}
	alive := func() bool { return vp.Error() == nil && !killed && !closed }
	outstanding := func() int { return len(fifo) - released }
	allReturned := func(op string) bool {
		for _, c := range pending() {
			c := c
			if !waitFor(c.returned) {
				hang(op, fmt.Sprintf("call %d (%s) did not return", c.id, c.kind))
				return false
			}
		}
		return true
	}
	torn := func(op string) bool {
		if pk.Bg() {
			if !waitFor(func() bool { return pk.State() == 4 && pk.Waits() == 0 }) {
				hang(op, "the background goroutine did not reach state 4 with waits 0")
				return false
			}
			// waits == 0: every caller has passed its decrement and is about to return; the snapshot needs the
			// return itself (the caller's goroutine may not have been scheduled yet)
			return allReturned(op)
		}
		return true
	}
	// settle: the oldest outstanding command must have reached the server while the connection lives
	settle := func(op string) bool {
		if (killed || closed || vp.Error() != nil) && pk.Bg() { // the connection is dead or an error is latched, and the background goroutine exists: the teardown completes
			if !torn(op) {
				return false
			}
		}
		if alive() && outstanding() > 0 {
			if !waitFor(func() bool { return len(heldSeen(srv)) > released || vp.Error() != nil }) {
				hang(op, "the oldest queued command never reached the server")
				return false
			}
		}
		return true
	}
	newCall := func(kind string) *plCall {
		c := &plCall{id: next, kind: kind, multi: kind == "bg" && rng.IntN(3) == 0, tag: fmt.Sprintf("h%d_%d", ep, next)}
		switch kind {
		case "bg":
			c.ctx, c.cancel = context.Background(), func() {}
		case "cn":
			c.ctx, c.cancel = context.WithCancel(context.Background())
		case "dl":
			c.ctx, c.cancel = context.WithCancel(context.Background()) // replaced at issue time
		}
		calls[next] = c
		next++
		return c
	}
	// issueAndWait: the call has returned, or it is in the queue (ring write counter), or it is the
	// synchronous holder and its command reached the server
	issueAndWait := func(op string, c *plCall) bool {
		syncHolder := pk.State() == 0 && pk.Waits() == 0 && c.kind != "cn" && c.ctx.Err() == nil
		puts := pk.Puts()
		seen := len(heldSeen(srv))
		c.issue(vp, b)
		ok := waitFor(func() bool {
			if c.returned() {
				return true
			}
			if syncHolder {
				return len(heldSeen(srv)) > seen
			}
			return pk.Puts() != puts
		})
		if !ok {
			hang(op, fmt.Sprintf("call %d neither returned nor was queued", c.id))
			return false
		}
		if (syncHolder && len(heldSeen(srv)) > seen) || (!syncHolder && pk.Puts() != puts) {
			c.inFifo = true
			fifo = append(fifo, c)
		}
		return true
	}
	steps := 4 + rng.IntN(6)
	if tier == "thorough" {
		steps += 3
	}
	if script != nil {
		steps = len(scripted)
	}
	for k := 0; k < steps+2; k++ {
		if script != nil && k >= len(scripted) {
			break
		}
		// enabled actions at this quiescent point
		var acts []string
		if next < n && k < steps {
			acts = append(acts, "call", "call")
			if kinds[next] == "cn" {
				acts = append(acts, "calldone")
			}
		}
		if k < steps {
			for _, c := range pending() {
				if c.kind == "cn" {
					acts = append(acts, fmt.Sprintf("cancel %d", c.id))
				}
			}
			if alive() && outstanding() > 0 {
				acts = append(acts, "release", "release")
			}
			if !killed && !closed {
				acts = append(acts, "kill")
			}
		}
		if !closed && (k >= steps || rng.IntN(5) == 0) {
			acts = append(acts, "close")
		}
		if k >= steps {
			acts = []string{"close"}
			if closed {
				break
			}
		}
		if len(acts) == 0 && script == nil {
			continue
		}
		a := ""
		if script == nil {
			a = acts[rng.IntN(len(acts))]
		} else {
			// replay: the recorded action, if it is possible at this point of the real run
			ws := strings.Fields(scripted[k])
			switch {
			case len(ws) == 2 && (ws[0] == "call" || ws[0] == "calldone" || ws[0] == "calldl") && next < n && ws[1] == fmt.Sprint(next) &&
				(ws[0] != "calldone" || kinds[next] == "cn") && (ws[0] == "calldl") == (kinds[next] == "dl"):
				a = ws[0]
				if a == "calldl" {
					a = "call"
				}
			case len(ws) == 2 && ws[0] == "cancel":
				for _, c := range pending() {
					if c.kind == "cn" && fmt.Sprint(c.id) == ws[1] {
						a = scripted[k]
					}
				}
			case len(ws) == 1 && ws[0] == "release" && alive() && outstanding() > 0:
				a = "release"
			case len(ws) == 1 && ws[0] == "kill" && !killed && !closed:
				a = "kill"
			case len(ws) == 1 && ws[0] == "close" && !closed:
				a = "close"
			}
			if a == "" {
				res.emit("act "+scripted[k], "not-enabled-on-the-real-pipe")
				return
			}
		}
		op := "act " + a
		okStep := true
		switch {
		case a == "call" || a == "calldone":
			c := newCall(kinds[next])
			if c.kind == "dl" {
				op = fmt.Sprintf("act calldl %d", c.id)
				c.ctx, c.cancel = newLateDeadline(40*time.Millisecond), func() {}
				okStep = issueAndWait(op, c)
				if okStep && !waitFor(c.returned) { // the deadline passes: the call must return
					hang(op, fmt.Sprintf("call %d did not return after its deadline", c.id))
					okStep = false
				}
			} else {
				if a == "calldone" {
					c.cancel()
				}
				op = fmt.Sprintf("act %s %d", a, c.id)
				okStep = issueAndWait(op, c)
			}
		case strings.HasPrefix(a, "cancel "):
			var id int
			fmt.Sscanf(a, "cancel %d", &id)
			calls[id].cancel()
			if !waitFor(calls[id].returned) {
				hang(op, fmt.Sprintf("call %d did not return after its context was cancelled", id))
				okStep = false
			}
		case a == "release":
			seen := heldSeen(srv)
			target := fifo[released]
			w0 := pk.Waits()
			wasPending := !target.returned()
			gate.open(seen[released])
			released++
			if wasPending {
				if !waitFor(target.returned) {
					hang(op, fmt.Sprintf("call %d did not return after the server answered it", target.id))
					okStep = false
				}
			} else if !waitFor(func() bool { return pk.Waits() < w0 || pk.State() >= 2 }) {
				hang(op, "the abort goroutine of a cancelled call never took the late reply")
				okStep = false
			}
		case a == "kill":
			killed = true
			srv.CloseAll()
			okStep = allReturned(op) && torn(op)
		case a == "close":
			closed = true
			cd := make(chan struct{})
			go func() { vp.Close(); close(cd) }()
			if !waitFor(func() bool {
				select {
				case <-cd:
					return true
				default:
					return false
				}
			}) {
				hang(op, "Close did not return")
				okStep = false
			}
			okStep = okStep && allReturned(op) && torn(op)
		}
		if okStep {
			okStep = settle(op)
		}
		res.hits = append(res.hits, "pipelife:seq:"+strings.Fields(a)[0])
		res.emit(op, snapshot())
		if !okStep {
			return
		}
	}
	triggered := killed || closed || vp.Error() != nil
	if triggered {
		torn("end")
	} else {
		gate.openAll() // a replayed prefix of an episode: let the pending calls finish, nothing to compare afterwards
	}
	errc := "none"
	if e := vp.Error(); e != nil {
		errc = "transport"
		if errors.Is(e, rueidis.ErrClosing) {
			errc = "closing"
		}
	}
	res.emit("end", fmt.Sprintf("state=%d waits=%d err=%s", pk.State(), pk.Waits(), errc))
	if triggered {
		plJudge(&res, srv, calls, pk, true)
	}
	return
}

// plJudge emits the oracle lines of one episode.
func plJudge(res *plResult, srv *Server, calls []*plCall, pk plPeek, triggered bool) {
	sent := map[string]bool{}
	for _, ev := range srv.Events() {
		if ev.Kind == "c" && len(ev.Argv) > 1 {
			sent[strings.TrimPrefix(ev.Argv[1], "x")] = true
		}
	}
	for _, c := range calls {
		if c == nil {
			continue
		}
		ret := c.returned()
		cls := "none"
		if ret {
			cls = c.class
		}
		op := fmt.Sprintf("!call %s %s %s %s %s", b01(ret), cls, b01(c.ctxAtStart), b01(plCtxDone(c.ctx)), b01(sent[c.tag]))
		switch {
		case !ret:
			res.fail("pipelife:call-hung:"+c.kind, op, fmt.Sprintf("call %d never returned", c.id))
		case cls == "foreign" || cls == "panic" || cls == "rediserr":
			res.fail("pipelife:bad-result:"+cls, op, fmt.Sprintf("call %d returned a %s result", c.id, cls))
		case cls == "ctx" && !plCtxDone(c.ctx):
			res.fail("pipelife:ctx-error-without-done-ctx", op, fmt.Sprintf("call %d", c.id))
		case c.ctxAtStart && (cls != "ctx" || sent[c.tag]):
			res.fail("pipelife:done-ctx-sent", op, fmt.Sprintf("call %d with an already done context: class %s, command on the wire: %v", c.id, cls, sent[c.tag]))
		}
		res.hits = append(res.hits, "pipelife:class:"+cls)
		res.emit(op, "ok")
	}
	op := fmt.Sprintf("!final %s %s %d %d", b01(pk.Bg()), b01(triggered), pk.State(), pk.Waits())
	if pk.Bg() && triggered && (pk.State() != 4 || pk.Waits() != 0) {
		res.fail("pipelife:teardown-incomplete", op, "after the teardown settled the pipe is not in state 4 with waits 0")
	}
	res.emit(op, "ok")
}

// ---------------------------------------------------------------------------------------------
// (b) concurrent episodes, judged by the oracle lines
// ---------------------------------------------------------------------------------------------

func plConcurrent(ep int, seed uint64, tier string) (res plResult) {
	rng := rand.New(rand.NewPCG(seed, 0xc0c0))
	pipelined := rng.IntN(2) == 0
	ncallers := 2 + rng.IntN(4)
	percaller := 1 + rng.IntN(3)
	fault := []string{"kill", "close", "dropBefore", "dropAfter", "half", "close"}[rng.IntN(6)]
	at := rng.IntN(ncallers + 1) // the first call of every caller is always issued, whatever the server holds back
	srv := NewServer(seed)
	gate := &plGate{}
	heldEvery := 2 + rng.IntN(3) // every k-th command is held until the fault fired
	var cmdSeen atomic.Int64
	srv.ReplyDelay = func(tag string) time.Duration {
		if strings.HasPrefix(tag, "h") {
			<-gate.ch(tag)
		}
		return 0
	}
	switch fault {
	case "dropBefore", "dropAfter", "half":
		srv.Faults = append(srv.Faults, &Fault{Conn: -1, AtCmd: at, Kind: fault})
	}
	defer gate.openAll()
	vp, pk, err := plNewPipe(srv, pipelined)
	if err != nil {
		res.fail("pipelife:newpipe", "reset", err.Error())
		return
	}
	b := cmds.NewBuilder(cmds.NoSlot)
	var mu sync.Mutex
	var calls []*plCall
	var wg sync.WaitGroup
	total := ncallers * percaller
	for g := 0; g < ncallers; g++ {
		// every random choice of the caller is drawn before it starts
		type plan struct {
			kind   string
			multi  bool
			held   bool
			cancel int // 0 never, 1 before the call, 2 while it is pending
		}
		plans := make([]plan, percaller)
		for k := range plans {
			kind := []string{"bg", "cn", "cn"}[rng.IntN(3)]
			pl := plan{kind: kind, multi: rng.IntN(3) == 0, held: rng.IntN(heldEvery) == 0}
			if kind == "cn" {
				pl.cancel = rng.IntN(3)
			}
			plans[k] = pl
		}
		wg.Add(1)
		go func(g int) {
			defer wg.Done()
			for k, pl := range plans {
				prefix := "f"
				if pl.held {
					prefix = "h"
				}
				c := &plCall{id: g*percaller + k, kind: pl.kind, multi: pl.multi, tag: fmt.Sprintf("%s%d_%d_%d", prefix, ep, g, k)}
				if pl.kind == "bg" {
					c.ctx, c.cancel = context.Background(), func() {}
				} else {
					c.ctx, c.cancel = context.WithCancel(context.Background())
				}
				if pl.cancel == 1 {
					c.cancel()
				}
				mu.Lock()
				calls = append(calls, c)
				mu.Unlock()
				c.issue(vp, b)
				cmdSeen.Add(1)
				if pl.cancel == 2 {
					// cancel once the call is pending somewhere (it returned, or the pipe counts it)
					waitFor(func() bool { return c.returned() || pk.Waits() > 0 || pk.State() >= 2 })
					c.cancel()
				}
				if !waitFor(c.returned) {
					return // reported by plJudge
				}
			}
		}(g)
	}
	// the fault fires after `at` calls have been issued (event: the issue counter)
	waitFor(func() bool { return cmdSeen.Load() >= int64(at) || cmdSeen.Load() >= int64(total) })
	switch fault {
	case "kill":
		srv.CloseAll()
	case "close":
		go vp.Close()
	}
	if fault != "close" {
		// held replies are released after the fault; server-side drops may never have fired
		gate.openAll()
	}
	done := make(chan struct{})
	go func() { wg.Wait(); close(done) }()
	hung := !waitFor(func() bool {
		select {
		case <-done:
			return true
		default:
			return false
		}
	})
	gate.openAll()
	if hung {
		res.fail("pipelife:hang:concurrent:"+fault, "!final", fmt.Sprintf("callers did not finish (state=%d waits=%d bg=%v)", pk.State(), pk.Waits(), pk.Bg()))
	}
	// settle the pipe: Close (idempotent enough: a second Close only waits) and the teardown
	cd := make(chan struct{})
	go func() { vp.Close(); close(cd) }()
	waitFor(func() bool {
		select {
		case <-cd:
			return true
		default:
			return false
		}
	})
	if pk.Bg() {
		waitFor(func() bool { return pk.State() == 4 && pk.Waits() == 0 })
	}
	res.hits = append(res.hits, "pipelife:conc:"+fault)
	mu.Lock()
	sort.Slice(calls, func(i, j int) bool { return calls[i].id < calls[j].id })
	cs := append([]*plCall(nil), calls...)
	mu.Unlock()
	plJudge(&res, srv, cs, pk, true)
	return
}

// ---------------------------------------------------------------------------------------------
// (c) thorough tier only: the schedule of theorem close_race_strands_call (Rv.C04.Life) under the Go scheduler
// ---------------------------------------------------------------------------------------------

// plRaceStress starts two callers and Close on a fresh synchronous pipe at the same moment. The stranding schedule
// needs the caller that holds wait number 1 to load `state` after Close's CAS and after the other caller queued:
// two adjacent atomic operations, so a hit is not expected; when it happens the witness key is stable.
func plRaceStress(seed uint64, attempts int) (res plResult) {
	b := cmds.NewBuilder(cmds.NoSlot)
	hits := 0
	for k := 0; k < attempts; k++ {
		srv := NewServer(seed + uint64(k))
		vp, pk, err := plNewPipe(srv, false)
		if err != nil {
			res.fail("pipelife:newpipe", "race", err.Error())
			return
		}
		start := make(chan struct{})
		var wg sync.WaitGroup
		retB := make(chan struct{})
		for g := 0; g < 2; g++ {
			wg.Add(1)
			go func(g int) {
				defer wg.Done()
				<-start
				vp.Do(context.Background(), b.Echo().Message(fmt.Sprintf("f%d_%d", k, g)).Build())
			}(g)
		}
		wg.Add(1)
		go func() { defer wg.Done(); <-start; vp.Close() }()
		go func() { wg.Wait(); close(retB) }()
		close(start)
		ok := waitFor(func() bool {
			select {
			case <-retB:
				return true
			default:
				return false
			}
		})
		if !ok {
			hits++
			op := fmt.Sprintf("!final %s 1 %d %d", b01(pk.Bg()), pk.State(), pk.Waits())
			key := "pipelife:hang:race"
			if pk.State() == 2 && !pk.Bg() {
				key = "pipelife:queued-call-stranded:close-vs-admission-race"
			}
			res.fail(key, op, fmt.Sprintf("attempt %d: a call queued behind a rejected holder of wait number 1 never returned after Close (state=%d bgState started=%v waits=%d)", k, pk.State(), pk.Bg(), pk.Waits()))
			res.emit(op, "ok")
			break
		}
		vp.Close()
	}
	res.hits = append(res.hits, fmt.Sprintf("pipelife:race-attempts:%d:hits:%d", attempts, hits))
	return
}

// ---------------------------------------------------------------------------------------------
// (d) the Close-vs-admission race (Rv.C04.Life.close_race_strands_call), made deterministic with the scheduling
//     point rueidis.VerifYieldAfterIncrWaits between a caller's incrWaits and its load of the pipe state
// ---------------------------------------------------------------------------------------------

type plParkCtl struct {
	armed atomic.Bool
	in    chan struct{} // closed when the caller holding wait number 1 is parked
	gate  chan struct{} // closed to let it continue with its state load
}

var plPark atomic.Pointer[plParkCtl]

// plYieldHook is installed once, before any pipe of this suite exists. It parks exactly the armed caller.
func plYieldHook(waits uint32) {
	if waits != 1 {
		return
	}
	if ctl := plPark.Load(); ctl != nil && ctl.armed.CompareAndSwap(true, false) {
		close(ctl.in)
		<-ctl.gate
	}
}

func chClosed(c chan struct{}) func() bool {
	return func() bool {
		select {
		case <-c:
			return true
		default:
			return false
		}
	}
}

// plRaceEpisode: A takes wait number 1 and is parked before its state load; (three-party variant) B queues behind
// it; Close stores 2 and queues its PING; A continues. Before fix eac8ecc nobody started `_background`: B hung and
// Close's PING helper leaked. Must run while no other pipe of the suite is in use (the hook is global).
func plRaceEpisode(ep int, withB bool) (res plResult) {
	srv := NewServer(uint64(ep) + 7000)
	gate := &plGate{}
	srv.ReplyDelay = func(tag string) time.Duration {
		if strings.HasPrefix(tag, "h") {
			<-gate.ch(tag)
		}
		return 0
	}
	defer gate.openAll()
	vp, pk, err := plNewPipe(srv, false)
	if err != nil {
		res.fail("pipelife:newpipe", "reset", err.Error())
		return
	}
	b := cmds.NewBuilder(cmds.NoSlot)
	variant := "2"
	kinds := "bg"
	if withB {
		variant, kinds = "3", "bg bg"
	}
	res.emit("reset pl=0 "+kinds, "ok")
	mk := func(id int) *plCall {
		return &plCall{id: id, kind: "bg", tag: fmt.Sprintf("h%d_%d", ep, id), ctx: context.Background(), cancel: func() {}}
	}
	calls := []*plCall{mk(0)}
	snapshot := func() string {
		var parts []string
		for _, c := range calls {
			if c.returned() {
				parts = append(parts, fmt.Sprintf("%d:%s", c.id, c.class))
			}
		}
		if len(parts) == 0 {
			parts = []string{"-"}
		}
		return fmt.Sprintf("st=%d ret=%s", pk.State(), strings.Join(parts, ","))
	}
	hang := func(key, op, what string) {
		res.fail(key, op, what+fmt.Sprintf(" (state=%d waits=%d background started=%v)", pk.State(), pk.Waits(), pk.Bg()))
	}
	ctl := &plParkCtl{in: make(chan struct{}), gate: make(chan struct{})}
	ctl.armed.Store(true)
	plPark.Store(ctl)
	defer plPark.Store(nil)
	defer func() {
		select {
		case <-ctl.gate:
		default:
			close(ctl.gate)
		}
	}()
	calls[0].issue(vp, b)
	if !waitFor(chClosed(ctl.in)) {
		hang("pipelife:hang:race-park", "raw enter 0", "caller A never reached the scheduling point after incrWaits (is the verif hook compiled in?)")
		return
	}
	res.emit("raw enter 0", snapshot())
	if withB {
		puts := pk.Puts()
		calls = append(calls, mk(1))
		calls[1].issue(vp, b)
		if !waitFor(func() bool { return pk.Puts() != puts || calls[1].returned() }) {
			hang("pipelife:hang:race-queue", "raw enter 1 decide 1 put 1", "caller B was not queued")
			return
		}
		res.emit("raw enter 1 decide 1 put 1", snapshot())
	}
	puts := pk.Puts()
	closed := make(chan struct{})
	go func() { vp.Close(); close(closed) }()
	if !waitFor(func() bool { return pk.State() == 2 && pk.Puts() != puts }) {
		hang("pipelife:hang:race-close", "raw closeEnter closeCas closePing", "Close did not store state 2 and queue its PING")
		return
	}
	res.emit("raw closeEnter closeCas closePing", snapshot())
	close(ctl.gate) // A loads state == 2 now
	op := "rawq decide 0"
	aRet := waitFor(calls[0].returned)
	bRet := true
	if withB {
		bRet = waitFor(calls[1].returned)
	}
	cRet := waitFor(chClosed(closed))
	settled := aRet && bRet && cRet && waitFor(func() bool { return pk.State() == 4 && pk.Waits() == 0 })
	res.emit(op, snapshot())
	res.emit("end", fmt.Sprintf("state=%d waits=%d err=closing", pk.State(), pk.Waits()))
	oop := fmt.Sprintf("!race %s %s %s %s %d %d", variant, b01(aRet), b01(bRet), b01(cRet), pk.State(), pk.Waits())
	switch {
	case !bRet:
		hang("pipelife:queued-call-stranded:close-vs-admission-race", oop, "the call queued behind the rejected holder of wait number 1 never returned after Close")
	case !aRet || !cRet:
		hang("pipelife:hang:race", oop, fmt.Sprintf("A returned=%v Close returned=%v", aRet, cRet))
	case !settled:
		hang("pipelife:close-ping-helper-leaked:close-vs-admission-race", oop, "after Close returned the pipe never reached state 4 with waits 0: nobody started the background goroutine, Close's PING helper still holds a wait")
	}
	res.hits = append(res.hits, "pipelife:race:"+variant+"-party")
	res.emit(oop, "ok")
	return
}

func runPipeLife(c *Ctx) {
	// the scheduling point is global: installed before any pipe exists; the race episodes run alone, first
	rueidis.VerifYieldAfterIncrWaits = plYieldHook
	race := []plResult{plRaceEpisode(0, true), plRaceEpisode(1, false)}
	nseq, nconc := c.N, c.N/2
	type job struct {
		ep   int
		seed uint64
		conc bool
	}
	var jobs []job
	for i := 0; i < nseq; i++ {
		jobs = append(jobs, job{i, c.Rng.Uint64(), false})
	}
	for i := 0; i < nconc; i++ {
		jobs = append(jobs, job{nseq + i, c.Rng.Uint64(), true})
	}
	results := make([]plResult, len(jobs))
	sem := make(chan struct{}, 32)
	var wg sync.WaitGroup
	for i, j := range jobs {
		wg.Add(1)
		sem <- struct{}{}
		go func(i int, j job) {
			defer wg.Done()
			defer func() { <-sem }()
			t0 := time.Now()
			if j.conc {
				results[i] = plConcurrent(j.ep, j.seed, c.Tier)
			} else {
				results[i] = plSequential(j.ep, j.seed, c.Tier, nil)
			}
			if d := time.Since(t0); d > 5*time.Second && plDebug {
				fmt.Fprintf(os.Stderr, "slow episode %d conc=%v %v\n", j.ep, j.conc, d)
				for _, l := range results[i].lines {
					fmt.Fprintln(os.Stderr, "   ", l.op, "=>", l.ans)
				}
			}
		}(i, j)
	}
	wg.Wait()
	results = append(race, results...)
	if c.Tier == "thorough" {
		results = append(results, plRaceStress(c.Rng.Uint64(), 400))
	}
	for _, r := range results {
		for _, l := range r.lines {
			c.Emit(l.op, l.ans, l.nontriv)
		}
		for _, h := range r.hits {
			c.Hit(h)
		}
		for _, f := range r.fails {
			c.Fail(f.Key, f.Op, f.What)
		}
	}
}

// replayPipeLife re-runs recorded episodes on the real pipe: the lines of each episode from its `reset` line on.
// An episode with `raw` lines is the hook-driven race episode (three-party when caller 1 occurs); any other episode
// is a sequentialised schedule whose `act` lines are repeated. Oracle lines are produced afresh by the re-run;
// `!` lines outside an episode (concurrent episodes are not replayable step by step) are passed through.
func replayPipeLife(c *Ctx, lines []string) {
	rueidis.VerifYieldAfterIncrWaits = plYieldHook
	var episodes [][]string
	for _, l := range lines {
		switch {
		case strings.HasPrefix(l, "reset"):
			episodes = append(episodes, []string{l})
		case len(episodes) == 0:
			c.Emit(l, "ok", true)
		default:
			episodes[len(episodes)-1] = append(episodes[len(episodes)-1], l)
		}
	}
	for i, e := range episodes {
		var r plResult
		raw, withB := false, false
		for _, l := range e {
			if strings.HasPrefix(l, "raw") {
				raw = true
				withB = withB || strings.Contains(l, "enter 1")
			}
		}
		if raw {
			r = plRaceEpisode(9000+i, withB || strings.Count(e[0], "bg") >= 2)
		} else {
			r = plSequential(9000+i, uint64(i)+1, c.Tier, e)
		}
		for _, l := range r.lines {
			c.Emit(l.op, l.ans, l.nontriv)
		}
		for _, h := range r.hits {
			c.Hit(h)
		}
		for _, f := range r.fails {
			c.Fail(f.Key, f.Op, f.What)
		}
	}
}

func init() {
	suites["pipelife"] = suite{replay: replayPipeLife, rule: "the real pipe (_newPipe over the tag server) driven through (a) sequentialised random schedules of call / call with a done context / call with a deadline / server reply / cancel / connection kill / Close, every action followed by an event-driven wait for quiescence, compared line by line (state and per-call outcome classes after every action, final state/waits/latched error) with the interleaving model Rv/Model/PipeLife.lean run on the same schedule, and (b) concurrent episodes (2-5 callers x 1-3 Do/DoMulti calls with random cancellation before or during the call, held replies, and a kill / Close / server-side drop at a random point) judged by oracle lines from the statements of Rv.C04.Life, and (c) the Close-vs-admission race of close_race_strands_call replayed deterministically through the scheduling point VerifYieldAfterIncrWaits (A parked between incrWaits and its state load, B queued, Close stores 2 and queues its PING, A continues; also without B), compared step by step with the model and judged by a `!race` line: everybody returns, state 4, waits 0: every call returned; with its own reply, a transport error, ErrClosing or its own context error; a done context at admission returns the context error and puts nothing on the wire; after the teardown the pipe is in state 4 with waits 0; non-trivial = every line", run: runPipeLife}
}
