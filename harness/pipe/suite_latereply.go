package main

import (
	"context"
	"errors"
	"fmt"
	"strings"
	"sync"
	"time"

	"github.com/redis/rueidis"
)

// latereply: a call gives up on its context deadline while its command is already on the wire and the server
// answers it LATE (after the deadline). Every call issued afterwards through the same client must still receive the
// reply of its own command (or an error): the late reply must never be handed to a later caller, in synchronous
// (single caller, background not started) as well as in pipelined mode.

func lateReplyEpisode(c *Ctx, n int, mode, kind string, followups int) {
	srv := NewServer(uint64(n) + 7001)
	var slow sync.Map // tag -> delay
	srv.ReplyDelay = func(tag string) time.Duration {
		if d, ok := slow.Load(tag); ok {
			return d.(time.Duration)
		}
		return 0
	}
	opt := rueidis.ClientOption{
		InitAddress: []string{"tagsrv:6379"}, DialCtxFn: srv.Dial, ForceSingleClient: true, DisableRetry: true,
		PipelineMultiplex: -1, BlockingPoolSize: 1, ConnWriteTimeout: 10 * time.Second, DisableCache: mode != "cacheon",
		AlwaysPipelining: mode == "pipelined",
	}
	client, err := rueidis.NewClient(opt)
	if err != nil {
		c.Fail("latereply:newclient", mode, err.Error())
		return
	}
	defer client.Close()
	epi := fmt.Sprintf("%s %s f=%d", mode, kind, followups)
	judge := func(name string, tags []string, rs []rueidis.RedisResult, returned bool) {
		for i, t := range tags {
			own, hasErr, got := false, false, ""
			if returned {
				p, e := payloadOf(rs[i])
				got = p + "/" + e
				hasErr = e != ""
				own = !hasErr && strings.HasPrefix(p, t+"|")
			}
			op := fmt.Sprintf("!own %s %s %s %s %s", epi2(epi), name, b01(returned), b01(hasErr), b01(own))
			if !returned {
				c.Fail("latereply:hang:"+mode+":"+kind, op, "call "+name+" did not return")
			} else if !hasErr && !own {
				c.Fail("latereply:foreign-reply:"+mode+":"+kind, op, fmt.Sprintf("call %s (command tag %s) was answered with %q (%s)", name, t, got, epi))
			}
			c.Emit(op, "ok", true)
		}
	}
	run := func(ctx context.Context, tags []string) ([]rueidis.RedisResult, bool) {
		var rs []rueidis.RedisResult
		done := make(chan struct{})
		go func() {
			defer close(done)
			if len(tags) == 1 {
				rs = []rueidis.RedisResult{client.Do(ctx, client.B().Echo().Message(tags[0]).Build())}
			} else {
				cs := make([]rueidis.Completed, len(tags))
				for i, t := range tags {
					cs[i] = client.B().Echo().Message(t).Build()
				}
				rs = client.DoMulti(ctx, cs...)
			}
		}()
		select {
		case <-done:
			return rs, true
		case <-time.After(5 * time.Second):
			return nil, false
		}
	}
	// warm-up call so that the connection exists and is idle
	w := fmt.Sprintf("k%dw_0", n)
	rs, ok := run(context.Background(), []string{w})
	judge("warm", []string{w}, rs, ok)
	// the abandoned call: its (last) command is answered 25 ms late, the deadline is 4 ms
	atags := []string{fmt.Sprintf("k%da_0", n)}
	if kind == "multi" {
		atags = []string{fmt.Sprintf("k%da_0", n), fmt.Sprintf("k%da_1", n), fmt.Sprintf("k%da_2", n)}
	}
	slow.Store(atags[len(atags)-1], 25*time.Millisecond)
	actx, acancel := context.WithTimeout(context.Background(), 4*time.Millisecond)
	rs, ok = run(actx, atags)
	acancel()
	if ok {
		timedOut := false
		for _, r := range rs {
			if e := r.Error(); e != nil && (errors.Is(e, context.DeadlineExceeded) || strings.Contains(e.Error(), "timeout") || strings.Contains(e.Error(), "deadline")) {
				timedOut = true
			}
		}
		if timedOut {
			c.Hit("latereply:abandoned:" + mode + ":" + kind)
		} else {
			c.Hit("latereply:not-abandoned(reply in time):" + mode + ":" + kind)
		}
	}
	judge("abandoned", atags, rs, ok)
	// follow-ups: immediately, and again after the late reply has arrived
	for f := 0; f < followups; f++ {
		if f == followups/2 {
			time.Sleep(40 * time.Millisecond)
		}
		ft := []string{fmt.Sprintf("k%df%d_0", n, f)}
		if f%3 == 2 {
			ft = append(ft, fmt.Sprintf("k%df%d_1", n, f))
		}
		rs, ok = run(context.Background(), ft)
		judge(fmt.Sprintf("follow%d", f), ft, rs, ok)
	}
}

func epi2(s string) string { return strings.ReplaceAll(s, " ", ":") }

func runLateReply(c *Ctx) {
	n := 0
	reps := 1 + c.N/40
	for r := 0; r < reps; r++ {
		for _, mode := range []string{"sync", "pipelined", "cacheon"} {
			for _, kind := range []string{"do", "multi"} {
				lateReplyEpisode(c, n, mode, kind, 4+r%3)
				n++
			}
		}
	}
}

func init() {
	suites["latereply"] = suite{
		rule: "a call abandons its command on a context deadline (4 ms) while the tag server answers it 25 ms late; synchronous mode (single caller, background not started), pipelined mode (AlwaysPipelining) and cache-enabled clients x Do / DoMulti (late command last in the batch); 4-6 follow-up calls, half of them before and half after the late reply arrived; oracle (`!own`, spec Rv.Spec.PipeJudge.broken): every call returns with an error or with the reply of its OWN command (payload carries the command's tag) - a late reply is never handed to a later caller; non-trivial = an episode in which the first call really timed out",
		run:  runLateReply,
	}
}
