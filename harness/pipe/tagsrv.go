package main

// tagsrv: a scripted RESP3 server over net.Pipe for end-to-end histories.
// Every user command carries a tag (its only argument / key / channel); every frame the
// server sends has a message id (mid) and replies embed "<tag>|<mid>" so the client side
// can tell WHICH frame a call received. All events are logged in one total order.
//
// Redis semantics assumed (trusted base): commands on one connection are answered in
// order; SUBSCRIBE-family commands are answered by one push per channel; UNSUBSCRIBE by one
// push per channel; MULTI..EXEC queues and answers QUEUED, EXEC answers an array.

import (
	"bufio"
	"context"
	"crypto/tls"
	"errors"
	"fmt"
	"io"
	"math/rand/v2"
	"net"
	"os"
	"strconv"
	"strings"
	"sync"
	"sync/atomic"
	"time"
)

type Event struct {
	Seq    int
	Conn   int
	Kind   string   // "c" command received, "m" frame sent, "x" executed, "close" (server closed), "eof" (client closed)
	Argv   []string // c
	Mid    int      // m
	MKind  string   // m: reply | data | sub | unsub
	Pong   bool
	Queued bool
	Tag    string // x / reply tag
}

type Fault struct {
	Conn  int    // connection index (-1 any)
	AtCmd int    // fires when the AtCmd-th user command (0-based, per connection) arrives
	Kind  string // dropBefore | dropAfter | half | stall | silent
	Stall time.Duration
	fired atomic.Bool
}

var debugLog = os.Getenv("TAGSRV_DEBUG") != ""

type Server struct {
	mu          sync.Mutex
	events      []Event
	nconn       int
	mid         int
	execs       map[string]int
	stallsBegun int // "stall" faults that started sleeping / finished sleeping (the command is executed right after)
	stallsEnded int
	PushProb    float64 // probability of injecting a data push before a reply
	UnsubProb   float64 // probability of an unsolicited sunsubscribe notification
	Faults      []*Fault
	rng         *rand.Rand
	RejectHello bool
	ReplyDelay  func(tag string) time.Duration
	conns       []net.Conn
	subs        map[string]*connState
	DialGate    chan struct{} // when non-nil, every dial after the first waits here (a dial in flight)
	DialWaiting chan struct{} // signalled when a dial is parked on DialGate
}

// Publish sends n `message` pushes for channel ch to the connection that subscribed to it.
// It returns how many frames were written before the connection stopped accepting them.
func (s *Server) Publish(ch string, n int) int {
	s.mu.Lock()
	cs := s.subs[ch]
	s.mu.Unlock()
	if cs == nil {
		return 0
	}
	for i := 0; i < n; i++ {
		if err := s.send(cs, func(m string) string { return ">3\r\n" + bulk("message") + bulk(ch) + bulk("p"+m) }, "data", false, false, ch); err != nil {
			return i
		}
	}
	return n
}

func NewServer(seed uint64) *Server {
	return &Server{execs: map[string]int{}, rng: rand.New(rand.NewPCG(seed, 77))}
}

func (s *Server) log(e Event) {
	if debugLog {
		fmt.Fprintf(os.Stderr, "EV conn=%d %s %v mid=%d %s tag=%s\n", e.Conn, e.Kind, e.Argv, e.Mid, e.MKind, e.Tag)
	}
	e.Seq = len(s.events)
	s.events = append(s.events, e)
}

func (s *Server) Events() []Event {
	s.mu.Lock()
	defer s.mu.Unlock()
	return append([]Event(nil), s.events...)
}

func (s *Server) Execs(tag string) int {
	s.mu.Lock()
	defer s.mu.Unlock()
	return s.execs[tag]
}

func (s *Server) ConnCount() int {
	s.mu.Lock()
	defer s.mu.Unlock()
	return s.nconn
}

func (s *Server) CloseAll() {
	s.mu.Lock()
	cs := append([]net.Conn(nil), s.conns...)
	s.mu.Unlock()
	for _, c := range cs {
		c.Close()
	}
}

// Dial matches rueidis.ClientOption.DialCtxFn.
func (s *Server) Dial(ctx context.Context, addr string, d *net.Dialer, cfg *tls.Config) (net.Conn, error) {
	if err := ctx.Err(); err != nil {
		return nil, err
	}
	s.mu.Lock()
	gate, waiting, first := s.DialGate, s.DialWaiting, s.nconn == 0
	s.mu.Unlock()
	if gate != nil && !first {
		if waiting != nil {
			select {
			case waiting <- struct{}{}:
			default:
			}
		}
		<-gate
	}
	c1, c2 := net.Pipe()
	s.mu.Lock()
	id := s.nconn
	s.nconn++
	s.conns = append(s.conns, c2)
	s.mu.Unlock()
	go s.serve(id, c2)
	return c1, nil
}

func readCommand(r *bufio.Reader) ([]string, error) {
	line, err := r.ReadString('\n')
	if err != nil {
		return nil, err
	}
	if len(line) < 3 || line[0] != '*' {
		return nil, errors.New("bad frame")
	}
	n, err := strconv.Atoi(strings.TrimSpace(line[1:]))
	if err != nil {
		return nil, err
	}
	argv := make([]string, n)
	for i := range argv {
		l, err := r.ReadString('\n')
		if err != nil {
			return nil, err
		}
		if l[0] != '$' {
			return nil, errors.New("bad bulk")
		}
		sz, err := strconv.Atoi(strings.TrimSpace(l[1:]))
		if err != nil {
			return nil, err
		}
		buf := make([]byte, sz+2)
		if _, err := io.ReadFull(r, buf); err != nil {
			return nil, err
		}
		argv[i] = string(buf[:sz])
	}
	return argv, nil
}

type connState struct {
	wmu     sync.Mutex // serialises frames of the serve loop and of Publish
	id      int
	w       *bufio.Writer
	inMulti bool
	queued  [][]string
	ncmd    int
	user    bool // saw the first non-handshake command
}

func fixed(f string) func(string) string { return func(string) string { return f } }

func bulk(s string) string { return fmt.Sprintf("$%d\r\n%s\r\n", len(s), s) }

// send writes one frame and logs it (caller holds no lock).
func (s *Server) send(cs *connState, build func(mid string) string, kind string, pong, queued bool, tag string) error {
	s.mu.Lock()
	s.mid++
	mid := s.mid
	frame := build(strconv.Itoa(mid))
	s.log(Event{Conn: cs.id, Kind: "m", Mid: mid, MKind: kind, Pong: pong, Queued: queued, Tag: tag})
	s.mu.Unlock()
	cs.wmu.Lock()
	defer cs.wmu.Unlock()
	if _, err := cs.w.WriteString(frame); err != nil {
		return err
	}
	return cs.w.Flush()
}

// WaitStalls waits until every stalled command has been picked up again and executed: a command the server has
// read is executed even if the client has gone away meanwhile, so execution counts are final only after this.
func (s *Server) WaitStalls() {
	for i := 0; i < 400; i++ {
		s.mu.Lock()
		idle := s.stallsBegun == s.stallsEnded
		s.mu.Unlock()
		if idle {
			break
		}
		time.Sleep(10 * time.Millisecond)
	}
	time.Sleep(30 * time.Millisecond)
}

func (s *Server) coin(p float64) bool {
	s.mu.Lock()
	defer s.mu.Unlock()
	return p > 0 && s.rng.Float64() < p
}

// result computes the reply frame of a non-transactional command; the tag is argv[1] when present.
func (s *Server) result(argv []string, exec bool) (frame func(mid string) string, tag string) {
	k := func(f string) func(string) string { return func(string) string { return f } }
	name := strings.ToUpper(argv[0])
	if len(argv) > 1 {
		tag = argv[1]
	}
	if exec && tag != "" {
		s.mu.Lock()
		s.execs[tag]++
		n := s.execs[tag]
		s.log(Event{Kind: "x", Tag: tag})
		s.mu.Unlock()
		_ = n
	}
	switch name {
	case "ECHO", "GET", "LINDEX":
		if strings.HasPrefix(tag, "nil") {
			return k("_\r\n"), tag
		}
		if strings.HasPrefix(tag, "err") {
			return func(m string) string { return "-ERR " + tag + "|" + m + "\r\n" }, tag
		}
		if strings.HasPrefix(tag, "lod") { // a retryable error reply
			return func(m string) string { return "-LOADING " + tag + "|" + m + "\r\n" }, tag
		}
		if strings.HasPrefix(tag, "arr") {
			return func(m string) string { return "*2\r\n" + bulk(tag+"|"+m) + ":7\r\n" }, tag
		}
		return func(m string) string { return bulk(tag + "|" + m) }, tag
	case "PTTL":
		if strings.HasPrefix(tag, "ttl") {
			return k(":60000\r\n"), tag
		}
		return k(":-1\r\n"), tag
	case "MGET", "JSON.MGET":
		return func(m string) string {
			var b strings.Builder
			fmt.Fprintf(&b, "*%d\r\n", len(argv)-1)
			for _, key := range argv[1:] {
				b.WriteString(bulk(key + "|" + m))
			}
			return b.String()
		}, tag
	case "SET", "DEL", "INCR", "LPUSH":
		return func(m string) string { return bulk(tag + "|" + m) }, tag
	case "BLPOP":
		return func(m string) string { return "*2\r\n" + bulk(tag) + bulk(tag+"|"+m) }, tag
	case "PING":
		return k("+PONG\r\n"), ""
	}
	return k("-ERR unknown command '" + argv[0] + "'\r\n"), tag
}

func (s *Server) serve(id int, conn net.Conn) {
	defer conn.Close()
	r := bufio.NewReader(conn)
	cs := &connState{id: id, w: bufio.NewWriter(conn)}
	for {
		argv, err := readCommand(r)
		if err != nil {
			s.mu.Lock()
			s.log(Event{Conn: id, Kind: "eof"})
			s.mu.Unlock()
			return
		}
		if len(argv) == 0 { // an empty command on the wire: log it, answer like Redis would not (nothing)
			s.mu.Lock()
			s.log(Event{Conn: id, Kind: "c", Argv: []string{}})
			s.mu.Unlock()
			continue
		}
		name := strings.ToUpper(argv[0])
		if debugLog {
			fmt.Fprintf(os.Stderr, "RAW conn=%d %v\n", id, argv)
		}
		// ---- connection setup, not part of the user history
		if !cs.user {
			switch {
			case name == "HELLO":
				if s.RejectHello {
					cs.w.WriteString("-ERR unknown command 'HELLO'\r\n")
				} else {
					cs.w.WriteString("%7\r\n" + bulk("server") + bulk("redis") + bulk("version") + bulk("7.2.0") + bulk("proto") + ":3\r\n" +
						bulk("id") + fmt.Sprintf(":%d\r\n", id+1) + bulk("mode") + bulk("standalone") + bulk("role") + bulk("master") + bulk("modules") + "*0\r\n")
				}
				cs.w.Flush()
				continue
			case name == "CLIENT" && len(argv) > 1 && strings.ToUpper(argv[1]) != "CACHING", name == "AUTH", name == "SELECT", name == "READONLY":
				cs.w.WriteString("+OK\r\n")
				cs.w.Flush()
				continue
			}
			cs.user = true
		}
		s.mu.Lock()
		s.log(Event{Conn: id, Kind: "c", Argv: argv})
		idx := cs.ncmd
		cs.ncmd++
		var fault *Fault
		for _, f := range s.Faults {
			if (f.Conn < 0 || f.Conn == id) && f.AtCmd == idx && f.fired.CompareAndSwap(false, true) {
				fault = f
				break
			}
		}
		s.mu.Unlock()
		if fault != nil {
			switch fault.Kind {
			case "dropBefore":
				s.mu.Lock()
				s.log(Event{Conn: id, Kind: "close"})
				s.mu.Unlock()
				return
			case "stall":
				s.mu.Lock()
				s.stallsBegun++
				s.mu.Unlock()
				time.Sleep(fault.Stall)
				s.mu.Lock()
				s.stallsEnded++
				s.mu.Unlock()
			}
		}
		if s.coin(s.PushProb) {
			if s.coin(0.5) {
				s.send(cs, func(m string) string { return ">3\r\n" + bulk("message") + bulk("noise") + bulk("x"+m) }, "data", false, false, "")
			} else {
				s.send(cs, func(m string) string { return ">2\r\n" + bulk("invalidate") + "*1\r\n" + bulk("noise"+m) }, "data", false, false, "")
			}
		}
		if s.coin(s.UnsubProb) {
			s.send(cs, fixed(">3\r\n"+bulk("sunsubscribe")+bulk("migrated")+":0\r\n"), "unsub", false, false, "")
		}
		// ---- pub/sub families
		switch name {
		case "SUBSCRIBE", "PSUBSCRIBE", "SSUBSCRIBE":
			s.mu.Lock()
			if s.subs == nil {
				s.subs = map[string]*connState{}
			}
			for _, ch := range argv[1:] {
				s.subs[ch] = cs
			}
			s.mu.Unlock()
			for i, ch := range argv[1:] {
				if i > 0 && s.coin(s.PushProb) {
					// unrelated data pushes may arrive BETWEEN the confirmations of one multi-channel subscribe
					if s.coin(0.5) {
						s.send(cs, func(m string) string { return ">3\r\n" + bulk("message") + bulk("noise") + bulk("y"+m) }, "data", false, false, "")
					} else {
						s.send(cs, func(m string) string { return ">2\r\n" + bulk("invalidate") + "*1\r\n" + bulk("noise"+m) }, "data", false, false, "")
					}
				}
				s.send(cs, fixed(">3\r\n"+bulk(strings.ToLower(name))+bulk(ch)+fmt.Sprintf(":%d\r\n", i+1)), "sub", false, false, ch)
			}
			continue
		case "UNSUBSCRIBE", "PUNSUBSCRIBE", "SUNSUBSCRIBE":
			chs := argv[1:]
			if len(chs) == 0 {
				s.send(cs, fixed(">3\r\n"+bulk(strings.ToLower(name))+"_\r\n:0\r\n"), "unsub", false, false, "")
			}
			for _, ch := range chs {
				s.send(cs, fixed(">3\r\n"+bulk(strings.ToLower(name))+bulk(ch)+":0\r\n"), "unsub", false, false, ch)
			}
			continue
		}
		// ---- transactions
		var err2 error
		switch {
		case name == "MULTI":
			cs.inMulti, cs.queued = true, nil
			err2 = s.send(cs, fixed("+OK\r\n"), "reply", false, false, "")
		case name == "EXEC":
			tag := ""
			var fs []func(string) string
			for _, q := range cs.queued {
				f, t := s.result(q, true)
				fs = append(fs, f)
				if t != "" {
					tag = t
				}
			}
			cs.inMulti = false
			if s.ReplyDelay != nil {
				if d := s.ReplyDelay(tag); d > 0 {
					time.Sleep(d)
				}
			}
			err2 = s.send(cs, func(m string) string {
				var b strings.Builder
				fmt.Fprintf(&b, "*%d\r\n", len(fs))
				for _, f := range fs {
					b.WriteString(f(m))
				}
				return b.String()
			}, "reply", false, false, tag)
		case name == "DISCARD":
			cs.inMulti = false
			err2 = s.send(cs, fixed("+OK\r\n"), "reply", false, false, "")
		case name == "CLIENT":
			err2 = s.send(cs, fixed("+OK\r\n"), "reply", false, false, "")
		case cs.inMulti:
			cs.queued = append(cs.queued, argv)
			err2 = s.send(cs, fixed("+QUEUED\r\n"), "reply", false, true, "")
		default:
			frame, tag := s.result(argv, true)
			if fault != nil && fault.Kind == "dropAfter" {
				s.mu.Lock()
				s.log(Event{Conn: id, Kind: "close"})
				s.mu.Unlock()
				return
			}
			if fault != nil && fault.Kind == "silent" {
				continue // executed, never answered
			}
			if fault != nil && fault.Kind == "half" {
				fr := frame("0")
				cs.w.WriteString(fr[:len(fr)/2])
				cs.w.Flush()
				s.mu.Lock()
				s.log(Event{Conn: id, Kind: "close"})
				s.mu.Unlock()
				return
			}
			if s.ReplyDelay != nil {
				if d := s.ReplyDelay(tag); d > 0 {
					time.Sleep(d)
				}
			}
			err2 = s.send(cs, frame, "reply", name == "PING", false, tag)
		}
		if err2 != nil {
			return
		}
	}
}
