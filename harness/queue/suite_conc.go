package main

// Black-box concurrent runs of the REAL ring and flow buffer for C02: P caller goroutines
// put tagged commands, one writer goroutine drains NextWriteCmd/WaitForWrite into a fake
// wire, one reader goroutine takes wire messages, calls NextResultCh, answers on the
// channel it gets and calls FinishResult. The observation log is linearised by a global
// atomic sequence number and replayed by the Lean driver through the FIFO specification
// (every line is an oracle line whose expected answer is `ok`).

import (
	"fmt"
	"math/rand/v2"
	"runtime"
	"sort"
	"strconv"
	"strings"
	"sync"
	"sync/atomic"
	"time"

	"github.com/redis/rueidis"
	"github.com/redis/rueidis/internal/cmds"
)

func init() {
	suites["qconc"] = suite{
		rule: "staged episodes first (2/4/8 slots: every slot written and unanswered, writer parked in WaitForWrite on the oldest slot, 1-4 extra callers blocked on it, only then the reader starts; hang => ring:deadlock:full-ring-writer-parked), then real ring and flow buffer under P=1..32 caller goroutines x 2^k slots (k=1..6), one writer, one reader, PutOne/PutMulti mixed, random Gosched/sleep perturbation, GOMAXPROCS in {1,2,4,all} (thorough: more); in half of the ring episodes (staged and random) the uint32 counters start just below 2^32 so that write/read1/read2 wrap while commands are queued or in flight; one episode = one run, the linearised log is judged line by line by the FIFO specification; non-trivial = episode with more callers in flight than slots or more commands than slots (wrap-around); a watchdog reports hangs",
		run:  runConc,
		replay: func(c *Ctx, lines []string) {
			// a recorded history cannot be re-scheduled; it is re-judged as recorded
			for _, l := range lines {
				c.Emit(l, "ok", false)
			}
		},
	}
}

type ev struct {
	seq  uint64
	line string
}

type evlog struct {
	mu sync.Mutex
	es []ev
}

func (l *evlog) add(seq *atomic.Uint64, line string) {
	s := seq.Add(1)
	l.mu.Lock()
	l.es = append(l.es, ev{s, line})
	l.mu.Unlock()
}

type perturb struct {
	rng   *rand.Rand
	yield int // per-mille probability of a Gosched at a perturbation point
	sleep int // per-mille probability of a short sleep
}

func (p *perturb) point() {
	if p.yield == 0 && p.sleep == 0 {
		return
	}
	r := p.rng.IntN(1000)
	if r < p.sleep {
		time.Sleep(time.Duration(1+p.rng.IntN(50)) * time.Microsecond)
	} else if r < p.sleep+p.yield {
		runtime.Gosched()
	}
}

type concCfg struct {
	kind   string
	k      int
	p      int
	per    int
	multi  int // per-mille of PutMulti
	yield  int
	sleep  int
	procs  int
	serial bool // callers wait for their reply before the next command (like pipe.Do); otherwise a
	// caller hands the reply wait to a helper goroutine and goes on (more callers in flight)
	timeout time.Duration
	// staged episodes drive the queue into "all slots written and unanswered, writer parked in
	// WaitForWrite on the oldest slot, `extra` further callers blocked on that slot" before the
	// reader is allowed to answer anything: p = 2^k + extra callers, the first 2^k start at once
	staged bool
	extra  int
	// ring only: the three free-running uint32 counters start at base (a ring that has already
	// carried `base` commands), so that they wrap past 2^32 in the middle of the episode
	base uint32
}

// stageInfo reports what a staged episode reached before the reader was released.
type stageInfo struct {
	written int  // commands handed to the writer while the reader was held back
	parked  bool // the writer was seen sleeping in WaitForWrite (ring: a slot with slept = true)
	tickets bool // every extra caller had taken its ticket / was blocked before the reader started
}

// runEpisode returns the merged log and whether the run completed.
func runEpisode(cfg concCfg, seed uint64) (lines []string, hung bool, st stageInfo) {
	old := runtime.GOMAXPROCS(cfg.procs)
	defer runtime.GOMAXPROCS(old)
	var q *rueidis.VerifQueue
	if cfg.kind == "ring" {
		q = rueidis.VerifNewRing(cfg.k)
		if cfg.base != 0 {
			q.RingSetCounters(cfg.base)
		}
	} else {
		q = rueidis.VerifNewFlowBuffer(cfg.k)
	}
	total := cfg.p * cfg.per
	var seq atomic.Uint64
	logs := make([]*evlog, cfg.p+2)
	for i := range logs {
		logs[i] = &evlog{}
	}
	wire := make(chan int, total+1)
	var wg sync.WaitGroup
	var deqCount atomic.Int64
	extraGo, readerGo := make(chan struct{}), make(chan struct{})
	first := cfg.p
	if cfg.staged {
		first = 1 << uint(cfg.k)
	} else {
		close(extraGo)
		close(readerGo)
	}
	mk := func(i uint64) *perturb {
		return &perturb{rng: rand.New(rand.NewPCG(seed, i)), yield: cfg.yield, sleep: cfg.sleep}
	}
	// callers
	for o := 0; o < cfg.p; o++ {
		wg.Add(1)
		go func(o int) {
			defer wg.Done()
			pt, lg := mk(uint64(o)), logs[o]
			var inner sync.WaitGroup
			if o >= first {
				<-extraGo
			}
			for i := 0; i < cfg.per; i++ {
				id := o*cfg.per + i
				tag := strconv.Itoa(id)
				var ch chan rueidis.RedisResult
				var resps []rueidis.RedisResult
				pt.point()
				lg.add(&seq, fmt.Sprintf("!call %d %d", id, o))
				if pt.rng.IntN(1000) < cfg.multi {
					resps = make([]rueidis.RedisResult, 2)
					ch = q.PutMulti(cmds.NewMultiCompleted([][]string{{tag}, {"x"}}), resps)
				} else {
					ch = q.PutOne(cmds.NewCompleted([]string{tag}))
				}
				lg.add(&seq, fmt.Sprintf("!ret %d %d", id, o))
				pt.point()
				wait := func() {
					r := rueidis.VerifResultTag(<-ch)
					if resps != nil && rueidis.VerifResultTag(resps[0]) != r {
						r = 1 << 40 // the resps slice handed to NextResultCh was not this call's
					}
					lg.add(&seq, fmt.Sprintf("!fin %d %d %d", id, o, r))
				}
				if cfg.serial {
					wait()
				} else {
					inner.Add(1)
					go func() { defer inner.Done(); wait() }()
				}
			}
			inner.Wait()
		}(o)
	}
	// writer
	wg.Add(1)
	go func() {
		defer wg.Done()
		pt, lg := mk(1<<20), logs[cfg.p]
		for n := 0; n < total; n++ {
			pt.point()
			one, multi, ch := q.NextWriteCmd()
			if ch == nil {
				pt.point()
				one, multi, ch = q.WaitForWrite()
			}
			id := -1
			if t := cmdTag(one, multi); strings.HasPrefix(t, "cmd:") {
				id, _ = strconv.Atoi(t[4:])
			}
			if id < 0 {
				lg.add(&seq, "!deq nil")
			} else {
				lg.add(&seq, fmt.Sprintf("!deq %d", id))
			}
			wire <- id
			deqCount.Add(1)
		}
	}()
	// reader
	wg.Add(1)
	go func() {
		defer wg.Done()
		pt, lg := mk(1<<21), logs[cfg.p+1]
		<-readerGo
		for n := 0; n < total; n++ {
			want := <-wire
			pt.point()
			one, multi, ch, resps := q.NextResultCh()
			id := -1
			if t := cmdTag(one, multi); strings.HasPrefix(t, "cmd:") {
				id, _ = strconv.Atoi(t[4:])
			}
			_ = want
			if id < 0 {
				lg.add(&seq, "!res nil")
			} else {
				lg.add(&seq, fmt.Sprintf("!res %d", id))
			}
			if ch != nil {
				res := rueidis.VerifTagResult(id)
				for i := range resps {
					resps[i] = res
				}
				pt.point()
				ch <- res
			}
			pt.point()
			q.FinishResult()
		}
	}()
	if cfg.staged {
		// controller: fill the queue, let the writer drain it and park, block the extra callers on
		// the oldest slot, only then let the reader answer (unsynchronised snapshot reads: the
		// values are only used as hints, every wait is bounded)
		waitFor := func(cond func() bool, limit time.Duration) bool {
			end := time.Now().Add(limit)
			for !cond() {
				if time.Now().After(end) {
					return false
				}
				time.Sleep(50 * time.Microsecond)
			}
			return true
		}
		waitFor(func() bool { return int(deqCount.Load()) >= first }, 200*time.Millisecond)
		st.written = int(deqCount.Load())
		if cfg.kind == "ring" {
			st.parked = waitFor(func() bool {
				_, _, _, _, slots := q.RingSnapshot()
				for _, n := range slots {
					if n.Slept {
						return true
					}
				}
				return false
			}, 100*time.Millisecond)
		} else {
			time.Sleep(500 * time.Microsecond)
			_, w, r, size, _ := q.FlowLens()
			st.parked = w == 0 && r == size
		}
		close(extraGo)
		if cfg.kind == "ring" {
			st.tickets = waitFor(func() bool {
				w, _, _, _, _ := q.RingSnapshot()
				return int(w-cfg.base) >= first+cfg.extra
			}, 100*time.Millisecond)
		} else {
			st.tickets = true
		}
		time.Sleep(time.Millisecond) // let the extra callers reach c1.Wait() / `<-b.f`
		close(readerGo)
	}
	done := make(chan struct{})
	go func() { wg.Wait(); close(done) }()
	select {
	case <-done:
	case <-time.After(cfg.timeout):
		hung = true
	}
	var all []ev
	for _, l := range logs {
		l.mu.Lock()
		all = append(all, l.es...)
		l.mu.Unlock()
	}
	sort.Slice(all, func(i, j int) bool { return all[i].seq < all[j].seq })
	lines = make([]string, len(all))
	for i, e := range all {
		lines[i] = e.line
	}
	return
}

// overtakes re-computes, in log order, which dequeues overtake a command whose PutOne had
// already returned before the dequeued command's PutOne was called (strict real-time FIFO).
func overtakes(lines []string) map[int]bool {
	out := map[int]bool{}
	retd := map[int]bool{} // returned, not yet dequeued
	deqd := map[int]bool{}
	before := map[int][]int{}
	for i, l := range lines {
		w := strings.Fields(l)
		switch w[0] {
		case "!call":
			id, _ := strconv.Atoi(w[1])
			for e := range retd {
				before[id] = append(before[id], e)
			}
		case "!ret":
			id, _ := strconv.Atoi(w[1])
			if !deqd[id] {
				retd[id] = true
			}
		case "!deq":
			id, err := strconv.Atoi(w[1])
			if err != nil {
				continue
			}
			for _, e := range before[id] {
				if !deqd[e] {
					out[i] = true
				}
			}
			deqd[id] = true
			delete(retd, id)
			delete(before, id)
		}
	}
	return out
}

// strictRealTime decides how a real-time overtake on the ring (a command reaches the writer
// before one whose PutOne had returned before this command's PutOne was even called) is
// treated. The proved reading of "queue order" is slot-position order, which such a run does
// not violate; the stricter linearizable-FIFO reading is violated by the ring as it is whenever
// more callers than slots are in flight (Rv.C02.ticket_order_fails). false: counted in the
// evidence (`ring:realtime-overtake`); true: reported as a failing input with a stable key.
const strictRealTime = false

// wrapBase picks the start value of the ring counters: 0, or so close to 2^32 that the counters
// wrap while commands are queued or in flight (within the first `total` commands).
func wrapBase(c *Ctx, kind string, total int) uint32 {
	if kind != "ring" || c.Rng.IntN(2) == 0 {
		return 0
	}
	return uint32(0xffffffff - uint32(c.Rng.IntN(total+2)))
}

func countFins(lines []string) int {
	n := 0
	for _, l := range lines {
		if strings.HasPrefix(l, "!fin ") {
			n++
		}
	}
	return n
}

func runConc(c *Ctx) {
	procsChoices := []int{1, 2, 4, runtime.NumCPU()}
	timeout := 20 * time.Second
	if c.Tier == "thorough" {
		procsChoices = []int{1, 2, 3, 4, 8, runtime.NumCPU(), 2 * runtime.NumCPU()}
		timeout = 60 * time.Second
	}
	// 1. staged episodes: full ring + writer parked + extra callers on the oldest slot, then the reader starts
	nStaged := 24
	stagedTimeout := 5 * time.Second
	if c.Tier == "thorough" {
		nStaged, stagedTimeout = 120, 10*time.Second
	}
	for e := 0; e < nStaged; e++ {
		cfg := concCfg{timeout: stagedTimeout, staged: true, serial: true}
		cfg.kind = "ring"
		if e%4 == 3 {
			cfg.kind = "flow"
		}
		cfg.k = 1 + (e/4)%3 // 2, 4, 8 slots
		cfg.extra = 1 + c.Rng.IntN(4)
		cfg.p = 1<<uint(cfg.k) + cfg.extra
		cfg.per = 1 + c.Rng.IntN(4)
		cfg.multi = []int{0, 300}[c.Rng.IntN(2)]
		cfg.procs = procsChoices[c.Rng.IntN(len(procsChoices))]
		cfg.base = wrapBase(c, cfg.kind, 1<<uint(cfg.k)+cfg.extra)
		seed := c.Rng.Uint64()
		lines, hung, st := runEpisode(cfg, seed)
		if cfg.base != 0 {
			c.Hit("ring:staged:counters-wrap")
		}
		reset := fmt.Sprintf("reset conc %s staged base=%d k=%d extra=%d per=%d multi=%d procs=%d written=%d parked=%v tickets=%v", cfg.kind, cfg.base, cfg.k, cfg.extra, cfg.per, cfg.multi, cfg.procs, st.written, st.parked, st.tickets)
		c.Emit(reset, "ok", false)
		ot := overtakes(lines)
		for i, l := range lines {
			want := "ok"
			if ot[i] {
				want = "ok-overtake"
				c.Hit(cfg.kind + ":realtime-overtake")
			}
			c.Emit(l, want, false)
		}
		reached := st.written >= 1<<uint(cfg.k) && st.parked && st.tickets
		if reached {
			c.Hit(cfg.kind + ":staged:full-queue-writer-parked-extra-callers")
			key := reset + fmt.Sprint(seed)
			if _, ok := c.distinct[key]; !ok {
				c.distinct[key] = struct{}{}
				c.Nontriv++
			}
		} else {
			c.Hit(cfg.kind + ":staged:not-reached")
		}
		if hung {
			tail := lines
			if len(tail) > 40 {
				tail = tail[len(tail)-40:]
			}
			key := "queue:hang:" + cfg.kind
			if reached {
				key = cfg.kind + ":deadlock:full-ring-writer-parked"
			}
			c.Fail(key, reset, fmt.Sprintf("deadlock with writer and reader alive: all %d slots of the %s were written and unanswered, the writer was parked in WaitForWrite on the oldest slot and %d further callers were blocked on it when the reader began to answer; %d of %d commands never completed within %v; last events: %s", 1<<uint(cfg.k), cfg.kind, cfg.extra, cfg.p*cfg.per-countFins(lines), cfg.p*cfg.per, cfg.timeout, strings.Join(tail, " | ")))
			c.Hit(cfg.kind + ":hang")
			return // stuck goroutines are leaked: stop the suite
		}
		c.Emit("!end", "ok", false)
	}
	// 2. random episodes
	for e := 0; e < c.N; e++ {
		cfg := concCfg{timeout: timeout}
		cfg.kind = []string{"ring", "flow"}[e%2]
		cfg.k = 1 + c.Rng.IntN(6)
		if c.Rng.IntN(3) == 0 {
			cfg.k = 1 + c.Rng.IntN(2) // small rings: many more callers than slots
		}
		cfg.p = 1 + c.Rng.IntN(32)
		budget := 150 + c.Rng.IntN(450)
		cfg.per = 1 + budget/cfg.p
		cfg.multi = []int{0, 200, 500}[c.Rng.IntN(3)]
		cfg.yield = []int{0, 50, 300}[c.Rng.IntN(3)]
		cfg.sleep = []int{0, 0, 20}[c.Rng.IntN(3)]
		cfg.procs = procsChoices[c.Rng.IntN(len(procsChoices))]
		cfg.serial = c.Rng.IntN(3) != 0
		cfg.base = wrapBase(c, cfg.kind, cfg.p*cfg.per)
		seed := c.Rng.Uint64()
		lines, hung, _ := runEpisode(cfg, seed)
		if cfg.base != 0 {
			c.Hit("ring:counters-wrap")
		}
		reset := fmt.Sprintf("reset conc %s base=%d k=%d p=%d per=%d multi=%d yield=%d sleep=%d procs=%d serial=%v", cfg.kind, cfg.base, cfg.k, cfg.p, cfg.per, cfg.multi, cfg.yield, cfg.sleep, cfg.procs, cfg.serial)
		c.Emit(reset, "ok", false)
		ot := overtakes(lines)
		for i, l := range lines {
			want := "ok"
			if ot[i] {
				want = "ok-overtake"
				c.Hit(cfg.kind + ":realtime-overtake")
				if strictRealTime || cfg.kind != "ring" {
					// the flow buffer is a linearizable FIFO (Rv.C02.flow_refines_fifo): an overtake there is a defect
					c.Fail(cfg.kind+":realtime-overtake", l, "a command overtook one whose enqueue had completed before its own enqueue began ("+reset+")")
				}
			}
			c.Emit(l, want, false)
		}
		total := cfg.p * cfg.per
		inflight := cfg.p
		if !cfg.serial {
			inflight = total
		}
		if inflight > 1<<uint(cfg.k) || total > 1<<uint(cfg.k) {
			key := reset + fmt.Sprint(seed)
			if _, ok := c.distinct[key]; !ok {
				c.distinct[key] = struct{}{}
				c.Nontriv++
			}
		}
		c.Hit(fmt.Sprintf("%s:procs=%d", cfg.kind, cfg.procs))
		if inflight > 1<<uint(cfg.k) {
			c.Hit(cfg.kind + ":more-callers-than-slots")
		}
		if hung {
			tail := lines
			if len(tail) > 40 {
				tail = tail[len(tail)-40:]
			}
			c.Fail("queue:hang:"+cfg.kind, reset, fmt.Sprintf("the %s did not finish %d commands within %v (deadlock or lost wake-up); %d events were logged, the last ones: %s", cfg.kind, total, cfg.timeout, len(lines), strings.Join(tail, " | ")))
			c.Hit(cfg.kind + ":hang")
			// the stuck goroutines are leaked (they may spin or hold memory): stop the suite here;
			// the incomplete history is not judged with `!end`
			break
		}
		c.Emit("!end", "ok", false)
	}
}
