package main

// Deterministic single-threaded differential for C02: sequences of queue method calls
// that do not block, executed on the REAL ring / flowBuffer and answered step by step by
// the Lean model (returned command ids, nil when empty, which reply channel PutOne handed
// out, slot marks / counters / payloads via the verif snapshot).

import (
	"fmt"
	"reflect"
	"strconv"
	"strings"

	"github.com/redis/rueidis"
	"github.com/redis/rueidis/internal/cmds"
)

func init() {
	suites["ringseq"] = suite{
		rule: "ring: every non-blocking call sequence over {put,putm,next,wait,res,fin} of length L (quick 6, thorough 8) on 2 slots exhaustively, incl. start counters at the uint32 wrap, then random sequences on 2^k slots k=1..6 with counters placed at 0 / near 2^32 / random; a snapshot line follows every call and an oracle line (!obs) has every real answer judged by the FIFO specification; non-trivial = distinct episode prefix that contains a put, a successful next and a successful res",
		run:  func(c *Ctx) { runSeq(c, "ring") },
		replay: func(c *Ctx, lines []string) {
			s := &seqState{}
			for _, l := range lines {
				if strings.HasPrefix(l, "!obs") {
					continue // regenerated after the operation it belongs to
				}
				s.op(c, l)
			}
		},
	}
	suites["flowseq"] = suite{
		rule: "flow buffer: same generator as ringseq over 2^k tokens (exhaustive on 2 tokens, random k=1..6); channel fill levels are compared after every call",
		run:  func(c *Ctx) { runSeq(c, "flow") },
		replay: func(c *Ctx, lines []string) {
			s := &seqState{}
			for _, l := range lines {
				if strings.HasPrefix(l, "!obs") {
					continue // regenerated after the operation it belongs to
				}
				s.op(c, l)
			}
		},
	}
}

type seqState struct {
	kind  string // ring | flow
	q     *rueidis.VerifQueue
	chans map[chan rueidis.RedisResult]int
	next  int // next caller id
	// shadow of what is needed to know whether a call would block
	k       int
	flowCur bool
	// episode statistics
	puts, takes, ress int
	prefix            strings.Builder
}

func cmdTag(one rueidis.Completed, multi []rueidis.Completed) string {
	if multi != nil {
		if len(multi) == 0 {
			return "cmd:empty-multi"
		}
		return "cmd:" + multi[0].Commands()[0]
	}
	if one.IsEmpty() {
		return "nil"
	}
	return "cmd:" + one.Commands()[0]
}

// wouldBlock says whether the call would block on the real queue in its present state
// (judged from the real state, not from a model).
func (s *seqState) wouldBlock(op string) bool {
	if s.kind == "ring" {
		w, r1, _, held, slots := s.q.RingSnapshot()
		mask := uint32(len(slots) - 1)
		switch op {
		case "put", "putm":
			i := int((w + 1) & mask)
			return held == i || slots[i].Mark != 0
		case "next":
			return held == int((r1+1)&mask)
		case "wait":
			i := int((r1 + 1) & mask)
			return held == i || slots[i].Mark != 1
		case "res":
			return held != -1
		}
		return false
	}
	f, w, r, size, cur := s.q.FlowLens()
	switch op {
	case "put", "putm":
		return f == 0 || w == size
	case "next":
		return w > 0 && r == size
	case "wait":
		return w == 0 || r == size
	case "res":
		return cur // NextResultCh twice would overwrite b.c: not part of the protocol
	case "fin":
		return cur && f == size
	}
	return false
}

func (s *seqState) snap() string {
	if s.kind == "ring" {
		w, r1, r2, held, slots := s.q.RingSnapshot()
		var m, sl strings.Builder
		cs := make([]string, len(slots))
		for i, n := range slots {
			m.WriteString(strconv.Itoa(int(n.Mark)))
			if n.Slept {
				sl.WriteByte('1')
			} else {
				sl.WriteByte('0')
			}
			switch {
			case n.Multi != nil && len(n.Multi) > 0:
				cs[i] = n.Multi[0].Commands()[0]
			case !n.One.IsEmpty():
				cs[i] = n.One.Commands()[0]
			default:
				cs[i] = "-"
			}
		}
		h := "-"
		if held >= 0 {
			h = strconv.Itoa(held)
		}
		return fmt.Sprintf("w=%d r1=%d r2=%d held=%s m=%s s=%s c=%s", w, r1, r2, h, m.String(), sl.String(), strings.Join(cs, ","))
	}
	f, w, r, size, cur := s.q.FlowLens()
	ci := 0
	if cur {
		ci = 1
	}
	return fmt.Sprintf("f=%d w=%d r=%d cur=%d size=%d", f, w, r, ci, size)
}

func (s *seqState) op(c *Ctx, line string) {
	w := strings.Fields(line)
	ans := "bad-op"
	switch w[0] {
	case "reset":
		k, _ := strconv.Atoi(w[2])
		s.kind, s.k, s.next = w[1], k, 0
		s.puts, s.takes, s.ress = 0, 0, 0
		s.prefix.Reset()
		if s.kind == "ring" {
			s.q = rueidis.VerifNewRing(k)
			base, _ := strconv.ParseUint(w[3], 10, 32)
			s.q.RingSetCounters(uint32(base))
		} else {
			s.q = rueidis.VerifNewFlowBuffer(k)
		}
		s.chans = map[chan rueidis.RedisResult]int{}
		for i, ch := range s.q.Chans() {
			s.chans[ch] = i
		}
		// structure assumed by the model: 2^k slots / tokens; ring: two distinct condition
		// variables per slot (c1: callers, c2: the writer) sharing one mutex
		if s.kind == "ring" {
			ans = fmt.Sprintf("ok cv=%d n=%d", ringCondVars(s.q), len(s.q.Chans()))
		} else {
			_, _, _, size, _ := s.q.FlowLens()
			ans = fmt.Sprintf("ok n=%d", size)
		}
	case "put", "putm", "next", "wait", "res", "fin":
		if s.wouldBlock(w[0]) {
			ans = "block"
			c.Hit(s.kind + ":" + w[0] + ":block")
			break
		}
		switch w[0] {
		case "put":
			ch := s.q.PutOne(cmds.NewCompleted([]string{strconv.Itoa(s.next)}))
			s.next++
			s.puts++
			ans = chName(s.chans, ch)
		case "putm":
			ch := s.q.PutMulti(cmds.NewMultiCompleted([][]string{{strconv.Itoa(s.next)}, {"x"}}), make([]rueidis.RedisResult, 2))
			s.next++
			s.puts++
			ans = chName(s.chans, ch)
		case "next":
			one, multi, ch := s.q.NextWriteCmd()
			ans = cmdTag(one, multi)
			if (ch == nil) != (ans == "nil") {
				ans += ":ch-mismatch"
			}
			if ans != "nil" {
				s.takes++
			}
		case "wait":
			one, multi, ch := s.q.WaitForWrite()
			ans = cmdTag(one, multi)
			if ch == nil {
				ans += ":ch-nil"
			}
			s.takes++
		case "res":
			one, multi, ch, resps := s.q.NextResultCh()
			ans = cmdTag(one, multi)
			if (ch == nil) != (ans == "nil") {
				ans += ":ch-mismatch"
			}
			if multi != nil && len(resps) != len(multi) {
				ans += ":resps-lost"
			}
			if ans != "nil" {
				s.ress++
			}
			if s.kind == "flow" && ans != "nil" {
				s.flowCur = true
			}
		case "fin":
			s.q.FinishResult()
			ans = "ok"
		}
		c.Hit(s.kind + ":" + w[0] + ":" + strings.SplitN(ans, ":", 2)[0])
	case "snap":
		ans = s.snap()
	}
	s.prefix.WriteString(line)
	s.prefix.WriteByte(';')
	nontrivial := w[0] != "snap" && w[0] != "reset" && s.puts > 0 && s.takes > 0 && s.ress > 0
	if nontrivial {
		// distinctness is by episode prefix: Emit keys on the op text, so count here
		key := s.prefix.String()
		if _, ok := c.distinct[key]; !ok {
			c.distinct[key] = struct{}{}
			c.Nontriv++
		}
	}
	c.Emit(line, ans, false)
	// oracle line: what the real queue just did, judged by the FIFO specification (a quiescent
	// queue must hand a queued command to a polling writer and must find the reply slot of a
	// command that is in flight, in FIFO order)
	if ans != "block" {
		switch w[0] {
		case "put", "putm":
			c.Emit(fmt.Sprintf("!obs put %d", s.next-1), "ok", false)
		case "next", "wait", "res":
			obs := "nil"
			if strings.HasPrefix(ans, "cmd:") {
				obs = "cmd " + strings.Split(ans, ":")[1]
			}
			c.Emit(fmt.Sprintf("!obs %s %s", w[0], obs), "ok", false)
		}
	}
}

// ringCondVars inspects (by reflection, read-only) how many distinct condition variables a
// ring slot has: 2 = c1 and c2 are distinct *sync.Cond sharing one Locker (what the model
// assumes: separate wait sets for callers and for the writer), 1 = only one wait set, 0 = other.
func ringCondVars(q *rueidis.VerifQueue) (n int) {
	defer func() {
		if recover() != nil {
			n = 0
		}
	}()
	store := reflect.ValueOf(q).Elem().FieldByName("r").Elem().FieldByName("store")
	n = 2
	for i := 0; i < store.Len(); i++ {
		node := store.Index(i)
		c1, c2 := node.FieldByName("c1"), node.FieldByName("c2")
		if !c1.IsValid() || c1.IsNil() {
			return 0
		}
		if !c2.IsValid() || c2.IsNil() || c2.Pointer() == c1.Pointer() {
			n = 1
			continue
		}
		l1, l2 := c1.Elem().FieldByName("L"), c2.Elem().FieldByName("L")
		if l1.IsNil() || l2.IsNil() || l1.Elem().Pointer() != l2.Elem().Pointer() {
			return 0
		}
	}
	return n
}

func chName(m map[chan rueidis.RedisResult]int, ch chan rueidis.RedisResult) string {
	if ch == nil {
		return "ch:nil"
	}
	if i, ok := m[ch]; ok {
		return "ch:" + strconv.Itoa(i)
	}
	return "ch:unknown"
}

var seqOps = []string{"put", "putm", "next", "wait", "res", "fin"}

func resetLine(kind string, k int, base uint32) string {
	if kind == "ring" {
		return fmt.Sprintf("reset ring %d %d", k, base)
	}
	return fmt.Sprintf("reset flow %d", k)
}

func runSeq(c *Ctx, kind string) {
	// 1. exhaustive: all non-blocking sequences of exactly L calls over 2 slots
	L := 6
	if c.Tier == "thorough" {
		L = 8
	}
	type sweep struct {
		alpha []string
		n     int
		base  uint32
	}
	sweeps := []sweep{
		{[]string{"put", "next", "res", "fin"}, L, 0},
		{[]string{"put", "putm", "next", "wait", "res", "fin"}, L - 2, 0},
	}
	if kind == "ring" {
		sweeps = append(sweeps, sweep{[]string{"put", "next", "res", "fin"}, L - 1, 0xfffffffe})
	}
	for _, sw := range sweeps {
		seq := make([]string, 0, sw.n)
		var rec func()
		rec = func() {
			if len(seq) == sw.n {
				s := &seqState{}
				s.op(c, resetLine(kind, 1, sw.base))
				for _, o := range seq {
					s.op(c, o)
					s.op(c, "snap")
				}
				return
			}
			for _, o := range sw.alpha {
				if prefixBlocks(kind, sw.base, seq, o) {
					continue
				}
				seq = append(seq, o)
				rec()
				seq = seq[:len(seq)-1]
			}
		}
		rec()
	}
	// 2. random episodes
	for e := 0; e < c.N; e++ {
		k := 1 + c.Rng.IntN(6)
		var base uint32
		switch c.Rng.IntN(4) {
		case 0:
			base = 0
		case 1:
			base = uint32(0xffffffff - uint32(c.Rng.IntN(1<<uint(k)+3)))
		case 2:
			base = c.Rng.Uint32()
		default:
			base = uint32(c.Rng.IntN(200))
		}
		s := &seqState{}
		s.op(c, resetLine(kind, k, base))
		n := 10 + c.Rng.IntN(40<<uint(k/2))
		// phases bias the mix so that the queue fills up, wraps and drains
		for i := 0; i < n; i++ {
			phase := (i * 4 / n) % 4
			var o string
			r := c.Rng.IntN(10)
			switch {
			case phase == 0 && r < 6, phase == 2 && r < 5:
				o = []string{"put", "putm"}[c.Rng.IntN(2)]
			case phase == 1 && r < 5:
				o = []string{"next", "wait"}[c.Rng.IntN(2)]
			case phase == 3 && r < 6:
				o = []string{"res", "fin"}[c.Rng.IntN(2)]
			default:
				o = seqOps[c.Rng.IntN(len(seqOps))]
			}
			if s.wouldBlock(o) && c.Rng.IntN(8) != 0 {
				// mostly pick something that can run
				for _, alt := range []string{"fin", "res", "next", "put"} {
					if !s.wouldBlock(alt) {
						o = alt
						break
					}
				}
			}
			s.op(c, o)
			if c.Rng.IntN(3) == 0 || i == n-1 {
				s.op(c, "snap")
			}
		}
	}
}

// prefixBlocks re-executes prefix on a fresh real queue and reports whether op would block next.
func prefixBlocks(kind string, base uint32, prefix []string, op string) bool {
	s := &seqState{kind: kind, k: 1}
	if kind == "ring" {
		s.q = rueidis.VerifNewRing(1)
		s.q.RingSetCounters(base)
	} else {
		s.q = rueidis.VerifNewFlowBuffer(1)
	}
	for _, o := range prefix {
		switch o {
		case "put":
			s.q.PutOne(cmds.NewCompleted([]string{"0"}))
		case "putm":
			s.q.PutMulti(cmds.NewMultiCompleted([][]string{{"0"}, {"x"}}), nil)
		case "next":
			s.q.NextWriteCmd()
		case "wait":
			s.q.WaitForWrite()
		case "res":
			s.q.NextResultCh()
		case "fin":
			s.q.FinishResult()
		}
	}
	return s.wouldBlock(op)
}
