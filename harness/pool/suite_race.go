package main

// Suite "race": the parts of Acquire's wait protocol that the deterministic
// differential cannot schedule.
//
//   shape <what>            structure of pool.go's Acquire read with go/ast from the source
//                           tree under test, compared with the constants of Rv.PoolWait
//                           (fail closed: an unknown shape answers "unknown:<text>")
//   !race-cancel iters=<n>  stress: a waiter parked (or about to park) on an exhausted pool
//                           whose context is cancelled at a random instant around its
//                           cond.Wait must return; answer "stuck=<k>", specification "stuck=0"
//   !race-store iters=<n>   same with a Store racing against the wait: the waiter must get the wire

import (
	"bytes"
	"context"
	"fmt"
	"go/ast"
	"go/parser"
	"go/printer"
	"go/token"
	"math/rand/v2"
	"os"
	"path/filepath"
	"runtime"
	"strings"
	"sync"
	"sync/atomic"
	"time"

	"github.com/redis/rueidis"
)

func repoDir() string {
	if d := os.Getenv("VERIF_REPO"); d != "" {
		return d
	}
	return "/repo"
}

func render(fset *token.FileSet, n any) string {
	var b bytes.Buffer
	printer.Fprint(&b, fset, n)
	return strings.Join(strings.Fields(b.String()), " ")
}

// acquireShape extracts the facts the wait-protocol model relies on.
func acquireShape() map[string]string {
	out := map[string]string{}
	fset := token.NewFileSet()
	f, err := parser.ParseFile(fset, filepath.Join(repoDir(), "pool.go"), nil, 0)
	if err != nil {
		out["error"] = err.Error()
		return out
	}
	for _, d := range f.Decls {
		fd, ok := d.(*ast.FuncDecl)
		if !ok || fd.Name.Name != "Acquire" || fd.Recv == nil {
			continue
		}
		// 1. the statements of the function in order: Lock, [if set-up], retry: for ..., ...
		var loops []*ast.ForStmt
		var setup *ast.IfStmt
		for _, st := range fd.Body.List {
			switch s := st.(type) {
			case *ast.IfStmt:
				if setup == nil && len(loops) == 0 {
					setup = s
				}
			case *ast.LabeledStmt:
				if fs, ok := s.Stmt.(*ast.ForStmt); ok && s.Label.Name == "retry" {
					loops = append(loops, fs)
				}
			}
		}
		ast.Inspect(fd.Body, func(n ast.Node) bool {
			if fs, ok := n.(*ast.ForStmt); ok {
				found := false
				for _, l := range loops {
					if l == fs {
						found = true
					}
				}
				if !found {
					loops = append(loops, fs)
				}
			}
			return true
		})
		if len(loops) == 1 {
			fs := loops[0]
			out["wait-loop-cond"] = render(fset, fs.Cond)
			if fs.Init == nil && fs.Post == nil && len(fs.Body.List) == 1 {
				out["wait-loop-body"] = render(fset, fs.Body.List[0])
			} else {
				out["wait-loop-body"] = "unknown:" + render(fset, fs.Body)
			}
		} else {
			out["wait-loop-cond"] = fmt.Sprintf("unknown:%d loops", len(loops))
			out["wait-loop-body"] = out["wait-loop-cond"]
		}
		if setup != nil {
			out["setup-cond"] = render(fset, setup.Cond)
			// the goroutine inside: find the Broadcast call and its neighbours
			var goStmt *ast.GoStmt
			ast.Inspect(setup.Body, func(n ast.Node) bool {
				if g, ok := n.(*ast.GoStmt); ok && goStmt == nil {
					goStmt = g
				}
				return true
			})
			out["broadcast-under-mutex"] = "unknown:no goroutine"
			if goStmt != nil {
				if fl, ok := goStmt.Call.Fun.(*ast.FuncLit); ok {
					out["watcher-body"] = render(fset, fl.Body)
					ast.Inspect(fl.Body, func(n ast.Node) bool {
						blk, ok := n.(*ast.BlockStmt)
						if !ok {
							return true
						}
						for i, st := range blk.List {
							if render(fset, st) == "p.cond.Broadcast()" {
								locked := i > 0 && render(fset, blk.List[i-1]) == "p.cond.L.Lock()" &&
									i+1 < len(blk.List) && render(fset, blk.List[i+1]) == "p.cond.L.Unlock()"
								out["broadcast-under-mutex"] = fmt.Sprint(locked)
							}
						}
						return true
					})
				}
			}
		} else {
			out["setup-cond"] = "unknown:no set-up if before the loop"
			out["broadcast-under-mutex"] = "unknown:no set-up"
		}
	}
	return out
}

func runRace(c *Ctx) {
	shape := acquireShape()
	for _, k := range []string{"wait-loop-cond", "wait-loop-body", "setup-cond", "broadcast-under-mutex"} {
		v, ok := shape[k]
		if !ok {
			v = "unknown:missing"
		}
		c.Emit("shape "+k, v, true)
		c.Hit("shape")
	}
	raceCancel(c, c.N)
	raceStore(c, c.N/4)
}

func spin(n int) {
	x := 0
	for i := 0; i < n; i++ {
		x += i
	}
	_ = x
}

// raceCancel: exhausted pools, a waiter and a cancellation racing around the waiter's
// cond.Wait. Many workers (each with its own pool) run at once and GOMAXPROCS is raised
// above the number of cores, so that a waiter can lose its CPU between the condition check
// and the enqueueing in cond.Wait - the only way to hit the window without a hook in pool.go.
func raceCancel(c *Ctx, iters int) {
	workers := 4 * runtime.NumCPU()
	if workers > 64 {
		workers = 64
	}
	prev := runtime.GOMAXPROCS(workers)
	defer runtime.GOMAXPROCS(prev)
	per := iters/workers + 1
	seeds := make([]uint64, workers)
	for i := range seeds {
		seeds[i] = c.Rng.Uint64()
	}
	var stuck, done atomic.Int64
	deadline := time.Now().Add(time.Duration(20+iters/2000) * time.Second)
	var wg sync.WaitGroup
	for wk := 0; wk < workers; wk++ {
		wg.Add(1)
		go func(seed uint64) {
			defer wg.Done()
			rng := rand.New(rand.NewPCG(seed, 24))
			mk := func(ctx context.Context) *rueidis.VerifWire { return rueidis.VerifNewWire(0, nil, false) }
			vp := rueidis.VerifNewPool(1, 0, 0, mk)
			vp.Acquire(context.Background())
			for i := 0; i < per && time.Now().Before(deadline) && stuck.Load() < 20; i++ {
				ctx, cancel := context.WithCancel(context.Background())
				ret := make(chan rueidis.VerifHandle, 1)
				var started atomic.Bool
				go func() {
					started.Store(true)
					ret <- vp.Acquire(ctx)
				}()
				d := rng.IntN(400)
				if i%3 == 0 {
					d = rng.IntN(6000)
				}
				for !started.Load() {
					runtime.Gosched()
				}
				spin(d)
				cancel()
				select {
				case h := <-ret:
					vp.Store(h)
				case <-time.After(time.Second):
					// the waiter sleeps although its context is done and nobody will ever Store
					stuck.Add(1)
					vp.Close() // unstick the goroutine, start over with a new pool
					<-ret
					vp = rueidis.VerifNewPool(1, 0, 0, mk)
					vp.Acquire(context.Background())
				}
				done.Add(1)
			}
			vp.Close()
		}(seeds[wk])
	}
	wg.Wait()
	op := fmt.Sprintf("!race-cancel iters=%d", done.Load())
	c.Emit(op, fmt.Sprintf("stuck=%d", stuck.Load()), true)
	c.Hit("race-cancel")
	if stuck.Load() > 0 {
		c.Fail("pool:lost-wakeup:cancel", op, fmt.Sprintf("%d of %d waiters stayed in cond.Wait after their context was cancelled", stuck.Load(), done.Load()))
	}
}

// raceStore: the holder stores its wire at a random instant around the waiter's cond.Wait.
func raceStore(c *Ctx, iters int) {
	id := 0
	mk := func(ctx context.Context) *rueidis.VerifWire { id++; return rueidis.VerifNewWire(id, nil, false) }
	vp := rueidis.VerifNewPool(1, 0, 0, mk)
	held := vp.Acquire(context.Background())
	stuck, wrong := 0, 0
	done := 0
	for i := 0; i < iters && stuck < 5; i++ {
		ret := make(chan rueidis.VerifHandle, 1)
		var started atomic.Bool
		go func() {
			started.Store(true)
			ret <- vp.Acquire(context.Background())
		}()
		for !started.Load() {
			runtime.Gosched()
		}
		spin(c.Rng.IntN(3000))
		want := held.Kind()
		vp.Store(held)
		select {
		case h := <-ret:
			if h.Kind() != want {
				wrong++
			}
			held = h
		case <-time.After(500 * time.Millisecond):
			stuck++
			vp.Close()
			<-ret
			vp = rueidis.VerifNewPool(1, 0, 0, mk)
			held = vp.Acquire(context.Background())
		}
		done++
	}
	vp.Close()
	op := fmt.Sprintf("!race-store iters=%d", done)
	c.Emit(op, fmt.Sprintf("stuck=%d wrong=%d", stuck, wrong), true)
	if stuck+wrong > 0 {
		c.Fail("pool:lost-wakeup:store", op, fmt.Sprintf("%d waiters missed the Store, %d got another wire", stuck, wrong))
	}
}

func init() {
	suites["race"] = suite{
		rule: "structure of Acquire's wait loop, set-up condition and cancellation goroutine read from pool.go (go/ast) against the constants of the wait-protocol model; then n waiter-vs-cancel and n/4 waiter-vs-Store races on an exhausted real pool with random spin delays around the waiter's cond.Wait; non-trivial = every line",
		run:  runRace,
		replay: func(c *Ctx, lines []string) {
			runRace(c)
		},
	}
}
