package main

// Suite "race": the parts of Acquire's wait protocol that the deterministic
// differential cannot schedule.
//
//   shape <what>            structure of pool.go's Acquire read with go/ast from the source
//                           tree under test, compared with the constants of Rv.PoolWait
//                           (fail closed: an unknown shape answers "unknown:<text>")
//   !race-cancel iters=<n>  stress: a waiter parked (or about to park) on an exhausted pool
//                           whose context is cancelled at a random instant around its
//                           cond.Wait must return; answer "stuck=<k>", specification "stuck=0".
//                           A waiter counts as stuck only if it has not returned 1s + 30s after
//                           the cancellation AND is still parked un-notified in cond.Wait (the
//                           result is looked at before the timer: on a loaded machine the observer
//                           itself stalls for more than a second about once in 10^5 attempts,
//                           while the waiter has long returned). VERIF_RACE_DIAG=1 prints the pool
//                           snapshot and the waiter's goroutine stack for every late/stuck waiter.
//   !race-store iters=<n>   same with a Store racing against the wait: the waiter must get the wire
//   !race-latectx k=<k>     deterministic form of the cancel race: the context becomes done right
//                           after the waiter's k-th ctx.Err() call and the waiter is delayed there
//   !race-cleanup ...       idle cleanup whose first Close is slow, racing with Store: no wire may be
//                           lost (neither held, idle nor closed), no idle wire closed, open <= cap

import (
	"bytes"
	"context"
	"fmt"
	"go/ast"
	"go/parser"
	"go/printer"
	"go/token"
	"math/rand/v2"
	"os"
	"path/filepath"
	"runtime"
	"strings"
	"sync"
	"sync/atomic"
	"time"

	"github.com/redis/rueidis"
)

func repoDir() string {
	if d := os.Getenv("VERIF_REPO"); d != "" {
		return d
	}
	return "/repo"
}

func render(fset *token.FileSet, n any) string {
	var b bytes.Buffer
	printer.Fprint(&b, fset, n)
	return strings.Join(strings.Fields(b.String()), " ")
}

// acquireShape extracts the facts the wait-protocol model relies on.
func acquireShape() map[string]string {
	out := map[string]string{}
	fset := token.NewFileSet()
	f, err := parser.ParseFile(fset, filepath.Join(repoDir(), "pool.go"), nil, 0)
	if err != nil {
		out["error"] = err.Error()
		return out
	}
	for _, d := range f.Decls {
		fd, ok := d.(*ast.FuncDecl)
		if !ok || fd.Name.Name != "Acquire" || fd.Recv == nil {
			continue
		}
		// 1. the statements of the function in order: Lock, [if set-up], retry: for ..., ...
		var loops []*ast.ForStmt
		var setup *ast.IfStmt
		for _, st := range fd.Body.List {
			switch s := st.(type) {
			case *ast.IfStmt:
				if setup == nil && len(loops) == 0 {
					setup = s
				}
			case *ast.LabeledStmt:
				if fs, ok := s.Stmt.(*ast.ForStmt); ok && s.Label.Name == "retry" {
					loops = append(loops, fs)
				}
			}
		}
		ast.Inspect(fd.Body, func(n ast.Node) bool {
			if fs, ok := n.(*ast.ForStmt); ok {
				found := false
				for _, l := range loops {
					if l == fs {
						found = true
					}
				}
				if !found {
					loops = append(loops, fs)
				}
			}
			return true
		})
		if len(loops) == 1 {
			fs := loops[0]
			out["wait-loop-cond"] = render(fset, fs.Cond)
			if fs.Init == nil && fs.Post == nil && len(fs.Body.List) == 1 {
				out["wait-loop-body"] = render(fset, fs.Body.List[0])
			} else {
				out["wait-loop-body"] = "unknown:" + render(fset, fs.Body)
			}
		} else {
			out["wait-loop-cond"] = fmt.Sprintf("unknown:%d loops", len(loops))
			out["wait-loop-body"] = out["wait-loop-cond"]
		}
		if setup != nil {
			out["setup-cond"] = render(fset, setup.Cond)
		} else {
			out["setup-cond"] = "unknown:no set-up if before the loop"
		}
		// every Broadcast reachable from Acquire (the cancellation path) must be a call
		// statement bracketed by p.cond.L.Lock() / p.cond.L.Unlock(); a method value such as
		// context.AfterFunc(ctx, p.cond.Broadcast) is a broadcast without the mutex
		refs, locked := 0, 0
		ast.Inspect(fd.Body, func(n ast.Node) bool {
			if sel, ok := n.(*ast.SelectorExpr); ok && render(fset, sel) == "p.cond.Broadcast" {
				refs++
			}
			blk, ok := n.(*ast.BlockStmt)
			if !ok {
				return true
			}
			for i, st := range blk.List {
				if render(fset, st) == "p.cond.Broadcast()" &&
					i > 0 && render(fset, blk.List[i-1]) == "p.cond.L.Lock()" &&
					i+1 < len(blk.List) && render(fset, blk.List[i+1]) == "p.cond.L.Unlock()" {
					locked++
				}
			}
			return true
		})
		switch {
		case refs == 0:
			out["broadcast-under-mutex"] = "unknown:no broadcast in Acquire"
		case refs == locked:
			out["broadcast-under-mutex"] = "true"
		default:
			out["broadcast-under-mutex"] = "false"
		}
	}
	return out
}

func runRace(c *Ctx) {
	shape := acquireShape()
	for _, k := range []string{"wait-loop-cond", "wait-loop-body", "setup-cond", "broadcast-under-mutex"} {
		v, ok := shape[k]
		if !ok {
			v = "unknown:missing"
		}
		c.Emit("shape "+k, v, true)
		c.Hit("shape")
	}
	for k := 1; k <= 3; k++ {
		raceLateCtx(c, k)
	}
	for _, v := range [][3]int{{4, 0, 2}, {5, 1, 3}, {6, 2, 4}, {3, 0, 3}} {
		raceCleanup(c, v[0], v[1], v[2])
	}
	raceCancel(c, c.N)
	raceStore(c, c.N/4)
}

// lateCtx forces one schedule deterministically: its k-th Err() call answers "not done",
// then the context becomes done (Done() is closed) and the calling goroutine is delayed
// before it goes on. With k = 2 this is the wait-loop check of an Acquire on an exhausted
// pool: the cancellation lands between the condition check and cond.Wait.
type lateCtx struct {
	context.Context
	done  chan struct{}
	calls atomic.Int32
	k     int32
}

func (c *lateCtx) Deadline() (time.Time, bool) { return time.Now().Add(time.Hour), true }
func (c *lateCtx) Done() <-chan struct{}       { return c.done }
func (c *lateCtx) Err() error {
	n := c.calls.Add(1)
	switch {
	case n < c.k:
		return nil
	case n == c.k:
		close(c.done)
		time.Sleep(150 * time.Millisecond)
		return nil
	}
	return context.DeadlineExceeded
}

// raceLateCtx: exhausted pool, nobody ever stores; the waiter's context becomes done right
// after its k-th look at ctx.Err(). It must return the dead wire of its context.
func raceLateCtx(c *Ctx, k int) {
	mk := func(ctx context.Context) *rueidis.VerifWire { return rueidis.VerifNewWire(0, nil, false) }
	vp := rueidis.VerifNewPool(1, 0, 0, mk)
	vp.Acquire(context.Background())
	ctx := &lateCtx{Context: context.Background(), done: make(chan struct{}), k: int32(k)}
	ret := make(chan rueidis.VerifHandle, 1)
	go func() { ret <- vp.Acquire(ctx) }()
	if k >= 3 {
		// the window on a later loop iteration: once the waiter is parked, another waiter's
		// cancellation broadcast wakes it up spuriously; its next look at ctx.Err() is the late one
		waitFor := func(n int) {
			for i := 0; i < 20000 && vp.Waiters() < n; i++ {
				time.Sleep(100 * time.Microsecond)
			}
		}
		waitFor(1)
		ctx2, cancel2 := context.WithCancel(context.Background())
		other := make(chan rueidis.VerifHandle, 1)
		go func() { other <- vp.Acquire(ctx2) }()
		waitFor(2)
		cancel2()
		// the other waiter's hand-out is deliberately not stored: Store signals the condition
		// variable and would hide a lost wake-up of the waiter under test
		select {
		case <-other:
		case <-time.After(2 * time.Second):
		}
	}
	op := fmt.Sprintf("!race-latectx k=%d", k)
	ans := ""
	var h rueidis.VerifHandle
	back := false
	select {
	case h = <-ret:
		back = true
	case <-time.After(2 * time.Second):
		for round := 0; round < 4 && !back; round++ {
			select {
			case h = <-ret:
				back = true
			case <-time.After(20 * time.Second):
				if vp.Waiters() >= 1 { // parked and not notified: nothing will ever wake it
					round = 4
				}
			}
		}
	}
	if back {
		ans = "returned " + h.Kind()
		vp.Store(h)
	} else {
		ans = "stuck"
		c.Fail("pool:lost-wakeup:latectx", op, "the waiter is still parked in cond.Wait 20s after its context became done between the wait-loop check and cond.Wait (lost wake-up)")
	}
	vp.Close()
	if ans == "stuck" {
		<-ret
	}
	c.Emit(op, ans, true)
	c.Hit("race-latectx")
}

// raceCleanup: idle cleanup with a slow Close racing with Store. `capN` wires are acquired,
// `idleN` of them stored (idle), the first wire the cleanup closes is gated; while it is
// "closing" the remaining holders store their wires. Afterwards every wire ever made must be
// idle-and-open or closed, no idle wire may be closed, and open wires <= cap.
func raceCleanup(c *Ctx, capN, minN, idleN int) {
	var wires []*rueidis.VerifWire
	mk := func(ctx context.Context) *rueidis.VerifWire {
		w := rueidis.VerifNewWire(len(wires), nil, false)
		wires = append(wires, w)
		return w
	}
	vp := rueidis.VerifNewPool(capN, minN, time.Hour, mk)
	hs := make([]rueidis.VerifHandle, capN)
	for i := range hs {
		hs[i] = vp.Acquire(context.Background())
	}
	for i := 0; i < idleN; i++ {
		vp.Store(hs[i])
	}
	entered, gate := make(chan struct{}), make(chan struct{})
	// removeIdleConns keeps list[:min] and closes list[min:] in order: gate the first of those
	if minN < idleN {
		wires[minN].GateClose(entered, gate)
	}
	cleaned := make(chan struct{})
	go func() { vp.RemoveIdle(); close(cleaned) }()
	if minN < idleN {
		select {
		case <-entered:
		case <-time.After(2 * time.Second):
		}
	}
	stored := make(chan struct{})
	go func() {
		for i := idleN; i < capN; i++ {
			vp.Store(hs[i])
		}
		close(stored)
	}()
	select {
	case <-stored:
	case <-time.After(150 * time.Millisecond): // the stores wait for the pool mutex while the cleanup closes under it
	}
	close(gate)
	<-stored
	<-cleaned
	snap := vp.Snapshot()
	idle := map[int]bool{}
	for _, id := range snap.List {
		idle[id] = true
	}
	lost, idleClosed, open := 0, 0, 0
	for _, w := range wires {
		closed := w.Closes() > 0
		if !closed {
			open++
		}
		if !closed && !idle[w.ID] {
			lost++ // nobody holds it, it is not in the pool, and nobody closed it
		}
		if closed && idle[w.ID] {
			idleClosed++
		}
	}
	over := 0
	if open > capN {
		over = open - capN
	}
	op := fmt.Sprintf("!race-cleanup cap=%d min=%d idle=%d", capN, minN, idleN)
	ans := fmt.Sprintf("lost=%d idleclosed=%d over=%d size-idle=%d", lost, idleClosed, over, snap.Size-len(snap.List))
	c.Emit(op, ans, true)
	c.Hit("race-cleanup")
	if lost+idleClosed+over > 0 || snap.Size != len(snap.List) {
		c.Fail("pool:cleanup-vs-store", op, fmt.Sprintf("idle cleanup with a slow Close racing with Store: %d wires neither held, idle nor closed; %d idle wires closed; %d open wires above cap; size=%d idle=%d", lost, idleClosed, over, snap.Size, len(snap.List)))
	}
	vp.Close()
}

// curGoid is the id of the calling goroutine (diagnostics only).
func curGoid() int64 {
	var buf [64]byte
	n := runtime.Stack(buf[:], false)
	f := strings.Fields(string(buf[:n]))
	if len(f) < 2 {
		return -1
	}
	var id int64
	fmt.Sscan(f[1], &id)
	return id
}

// goroutineStack returns the stack of goroutine id from a dump of all goroutines.
func goroutineStack(id int64) string {
	buf := make([]byte, 8<<20)
	buf = buf[:runtime.Stack(buf, true)]
	pre := fmt.Sprintf("goroutine %d [", id)
	for _, g := range strings.Split(string(buf), "\n\n") {
		if strings.HasPrefix(g, pre) {
			return g
		}
	}
	return fmt.Sprintf("(goroutine %d not found: it has returned)", id)
}

func spin(n int) {
	x := 0
	for i := 0; i < n; i++ {
		x += i
	}
	_ = x
}

// raceCancel: exhausted pools, a waiter and a cancellation racing around the waiter's
// cond.Wait. Many workers (each with its own pool) run at once and GOMAXPROCS is raised
// above the number of cores, so that a waiter can lose its CPU between the condition check
// and the enqueueing in cond.Wait - the only way to hit the window without a hook in pool.go.
func raceCancel(c *Ctx, iters int) {
	workers := 4 * runtime.NumCPU()
	if workers > 64 {
		workers = 64
	}
	prev := runtime.GOMAXPROCS(workers)
	defer runtime.GOMAXPROCS(prev)
	per := iters/workers + 1
	seeds := make([]uint64, workers)
	for i := range seeds {
		seeds[i] = c.Rng.Uint64()
	}
	var stuck, done, suspects, late, maxLate atomic.Int64
	diag := os.Getenv("VERIF_RACE_DIAG") != ""
	grace := 30 * time.Second
	deadline := time.Now().Add(time.Duration(20+iters/2000) * time.Second)
	var wg sync.WaitGroup
	for wk := 0; wk < workers; wk++ {
		wg.Add(1)
		go func(seed uint64) {
			defer wg.Done()
			rng := rand.New(rand.NewPCG(seed, 24))
			mk := func(ctx context.Context) *rueidis.VerifWire { return rueidis.VerifNewWire(0, nil, false) }
			vp := rueidis.VerifNewPool(1, 0, 0, mk)
			vp.Acquire(context.Background())
			var goid atomic.Int64
			for i := 0; i < per && time.Now().Before(deadline) && stuck.Load() < 3; i++ {
				ctx, cancel := context.WithCancel(context.Background())
				ret := make(chan rueidis.VerifHandle, 1)
				var started atomic.Bool
				go func() {
					if diag {
						goid.Store(curGoid())
					}
					started.Store(true)
					ret <- vp.Acquire(ctx)
				}()
				d := rng.IntN(400)
				if i%3 == 0 {
					d = rng.IntN(6000)
				}
				for !started.Load() {
					runtime.Gosched()
				}
				spin(d)
				cancel()
				select {
				case h := <-ret:
					vp.Store(h)
				case <-time.After(time.Second):
					// Suspect. Under machine load the observer itself (or the whole process) can be
					// stalled for a second: then the timer and the result are both ready and select
					// picks either. So look at the result first, then keep observing: a waiter that
					// comes back late was only delayed by the scheduler; a lost wake-up never comes
					// back, because nobody ever stores into this pool.
					suspects.Add(1)
					snap, wq := vp.Snapshot(), vp.Waiters()
					var stack string
					if diag {
						stack = goroutineStack(goid.Load())
					}
					t0 := time.Now()
					var h rueidis.VerifHandle
					back := false
					for round := 0; round < 4 && !back; round++ {
						select {
						case h = <-ret:
							back = true
						case <-time.After(grace):
							// still not back: lost only if it is parked in cond.Wait un-notified;
							// a notified waiter that has not run yet gets more time
							if vp.Waiters() >= 1 {
								round = 4
							}
						}
					}
					if back {
						lateBy := time.Second + time.Since(t0)
						for {
							m := maxLate.Load()
							if int64(lateBy) <= m || maxLate.CompareAndSwap(m, int64(lateBy)) {
								break
							}
						}
						late.Add(1)
						if diag {
							fmt.Fprintf(os.Stderr, "RACE-DIAG late waiter: returned %s after %v; at 1s: size=%d idle=%d down=%v condWaiters=%d\n%s\n", h.Kind(), lateBy, snap.Size, len(snap.List), snap.Down, wq, stack)
						}
						vp.Store(h)
					} else {
						if diag {
							fmt.Fprintf(os.Stderr, "RACE-DIAG STUCK waiter: not back after %v; at 1s: size=%d idle=%d down=%v condWaiters=%d; now condWaiters=%d\nstack at 1s:\n%s\nstack now:\n%s\n", time.Since(t0)+time.Second, snap.Size, len(snap.List), snap.Down, wq, vp.Waiters(), stack, goroutineStack(goid.Load()))
						}
						stuck.Add(1)
						vp.Close() // unstick the goroutine, start over with a new pool
						<-ret
						vp = rueidis.VerifNewPool(1, 0, 0, mk)
						vp.Acquire(context.Background())
					}
				}
				done.Add(1)
			}
			vp.Close()
		}(seeds[wk])
	}
	wg.Wait()
	op := fmt.Sprintf("!race-cancel iters=%d", done.Load())
	c.Emit(op, fmt.Sprintf("stuck=%d", stuck.Load()), true)
	c.Hit("race-cancel")
	c.Dist["race-cancel:slower-than-1s"] += int(suspects.Load())
	c.Dist["race-cancel:returned-late"] += int(late.Load())
	c.Dist["race-cancel:max-late-ms"] = int(maxLate.Load() / int64(time.Millisecond))
	if stuck.Load() > 0 {
		c.Fail("pool:lost-wakeup:cancel", op, fmt.Sprintf("%d of %d waiters were still parked in cond.Wait %v after their context was cancelled (nobody stores into that pool)", stuck.Load(), done.Load(), grace+time.Second))
	}
}

// raceStore: the holder stores its wire at a random instant around the waiter's cond.Wait.
func raceStore(c *Ctx, iters int) {
	id := 0
	mk := func(ctx context.Context) *rueidis.VerifWire { id++; return rueidis.VerifNewWire(id, nil, false) }
	vp := rueidis.VerifNewPool(1, 0, 0, mk)
	held := vp.Acquire(context.Background())
	stuck, wrong := 0, 0
	done := 0
	for i := 0; i < iters && stuck < 2; i++ {
		ret := make(chan rueidis.VerifHandle, 1)
		var started atomic.Bool
		go func() {
			started.Store(true)
			ret <- vp.Acquire(context.Background())
		}()
		for !started.Load() {
			runtime.Gosched()
		}
		spin(c.Rng.IntN(3000))
		want := held.Kind()
		vp.Store(held)
		var h rueidis.VerifHandle
		back := false
		select {
		case h = <-ret:
			back = true
		case <-time.After(time.Second):
			// see raceCancel: result first, then a long grace; lost only if still parked un-notified
			for round := 0; round < 4 && !back; round++ {
				select {
				case h = <-ret:
					back = true
				case <-time.After(30 * time.Second):
					if vp.Waiters() >= 1 {
						round = 4
					}
				}
			}
		}
		if back {
			if h.Kind() != want {
				wrong++
			}
			held = h
		} else {
			stuck++
			vp.Close()
			<-ret
			vp = rueidis.VerifNewPool(1, 0, 0, mk)
			held = vp.Acquire(context.Background())
		}
		done++
	}
	vp.Close()
	op := fmt.Sprintf("!race-store iters=%d", done)
	c.Emit(op, fmt.Sprintf("stuck=%d wrong=%d", stuck, wrong), true)
	if stuck+wrong > 0 {
		c.Fail("pool:lost-wakeup:store", op, fmt.Sprintf("%d waiters missed the Store, %d got another wire", stuck, wrong))
	}
}

func init() {
	suites["race"] = suite{
		rule: "structure of Acquire's wait loop, set-up condition and cancellation goroutine read from pool.go (go/ast) against the constants of the wait-protocol model; then n waiter-vs-cancel and n/4 waiter-vs-Store races on an exhausted real pool with random spin delays around the waiter's cond.Wait; non-trivial = every line",
		run:  runRace,
		replay: func(c *Ctx, lines []string) {
			runRace(c)
		},
	}
}
