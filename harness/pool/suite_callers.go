package main

// Suite "callers": the acquire/store discipline of the pool's callers, exercised
// through the public client (NewClient with DialCtxFn over net.Pipe and a tiny
// in-process fake server): mux.blocking / blockingMulti (blocking commands),
// mux.DoStream / DoMultiStream + pipe.DoStream / DoMultiStream +
// RedisResultStream.WriteTo (streaming pool), Dedicated / Dedicate + release
// (mux.Acquire / mux.Store). After every complete call nothing is held, so both
// pools must be back to size == idle and the number of open connections must be
// the idle ones plus the pipelining connection.
//
//   reset cap=<n>
//   block <ok|fail|ctxdone|multi|multifail|dialfail>     (...dialfail: if the call has to dial, the dial fails)
//   stream <ok|fail|ctxdone|flip|multi|multiflip|multictxdone|badwriter>
//   stale                 the server closes its end of every pool connection
//   dedicated <ok|fail>   /  dedicate <ok|fail>
//   close
//   !settled ...          oracle: every wire is back in its pool or closed
//
// Answer of an ordinary line: "<result> | d=<size>/<idle>/<down> s=<size>/<idle>/<down>".

import (
	"bufio"
	"context"
	"crypto/tls"
	"errors"
	"fmt"
	"io"
	"net"
	"runtime"
	"strconv"
	"strings"
	"sync"
	"sync/atomic"
	"time"

	"github.com/redis/rueidis"
)

// ---- fake server ---------------------------------------------------------

type fakeServer struct {
	mu     sync.Mutex
	first  *fakeConn // the pipelining connection dialled by NewClient
	conns  map[*fakeConn]struct{}
	dials  int32
	closes int32
	// behaviour switches for the next commands
	dropOn string // command name on which the server closes the connection instead of replying
	// failDials > 0: the next dials fail (connection refused)
	failDials int32
}

type fakeConn struct {
	net.Conn
	srv    *fakeServer
	peer   net.Conn
	closed atomic.Bool
}

func (c *fakeConn) Close() error {
	if c.closed.CompareAndSwap(false, true) {
		atomic.AddInt32(&c.srv.closes, 1)
		c.srv.mu.Lock()
		delete(c.srv.conns, c)
		c.srv.mu.Unlock()
	}
	return c.Conn.Close()
}

func (s *fakeServer) open() int { return int(atomic.LoadInt32(&s.dials) - atomic.LoadInt32(&s.closes)) }

func (s *fakeServer) dial(ctx context.Context, dst string, d *net.Dialer, _ any) (net.Conn, error) {
	if atomic.LoadInt32(&s.failDials) > 0 {
		atomic.AddInt32(&s.failDials, -1)
		return nil, errors.New("verif: connection refused")
	}
	c1, c2 := net.Pipe()
	fc := &fakeConn{Conn: c1, srv: s, peer: c2}
	atomic.AddInt32(&s.dials, 1)
	s.mu.Lock()
	if s.first == nil {
		s.first = fc
	}
	s.conns[fc] = struct{}{}
	s.mu.Unlock()
	go s.serve(c2)
	return fc, nil
}

// closeServerSide closes the server end of every open pool connection (they look idle
// and healthy to the client until it next uses them).
func (s *fakeServer) closeServerSide() {
	s.mu.Lock()
	defer s.mu.Unlock()
	for c := range s.conns {
		if c != s.first {
			c.peer.Close()
		}
	}
}

func readCmd(r *bufio.Reader) ([]string, error) {
	line, err := r.ReadString('\n')
	if err != nil {
		return nil, err
	}
	line = strings.TrimRight(line, "\r\n")
	if len(line) == 0 || line[0] != '*' {
		return nil, errors.New("fake: inline command")
	}
	n, err := strconv.Atoi(line[1:])
	if err != nil {
		return nil, err
	}
	args := make([]string, 0, n)
	for i := 0; i < n; i++ {
		l, err := r.ReadString('\n')
		if err != nil {
			return nil, err
		}
		sz, err := strconv.Atoi(strings.TrimRight(l, "\r\n")[1:])
		if err != nil {
			return nil, err
		}
		buf := make([]byte, sz+2)
		if _, err := io.ReadFull(r, buf); err != nil {
			return nil, err
		}
		args = append(args, string(buf[:sz]))
	}
	return args, nil
}

func (s *fakeServer) serve(c net.Conn) {
	defer c.Close()
	r := bufio.NewReader(c)
	for {
		args, err := readCmd(r)
		if err != nil || len(args) == 0 {
			return
		}
		name := strings.ToUpper(args[0])
		s.mu.Lock()
		drop := s.dropOn == name
		s.mu.Unlock()
		if drop {
			return
		}
		var reply string
		switch name {
		case "HELLO":
			reply = "%3\r\n+server\r\n+redis\r\n+version\r\n+7.0.0\r\n+proto\r\n:3\r\n"
		case "PING":
			reply = "+PONG\r\n"
		case "GET":
			reply = "$5\r\nhello\r\n"
		case "BLPOP":
			reply = "_\r\n"
		case "UNSUBSCRIBE", "PUNSUBSCRIBE", "SUNSUBSCRIBE":
			reply = ">3\r\n$" + strconv.Itoa(len(name)) + "\r\n" + strings.ToLower(name) + "\r\n_\r\n:0\r\n"
		case "DISCARD":
			reply = "-ERR DISCARD without MULTI\r\n"
		default:
			reply = "+OK\r\n"
		}
		if _, err := c.Write([]byte(reply)); err != nil {
			return
		}
	}
}

// ---- contexts ------------------------------------------------------------

// flipCtx reports Canceled exactly when asked from pipe.DoStream / pipe.DoMultiStream,
// i.e. it is live for pool.Acquire and done for the stream call that follows.
type flipCtx struct{ context.Context }

func (f flipCtx) Err() error {
	pcs := make([]uintptr, 8)
	n := runtime.Callers(2, pcs)
	frames := runtime.CallersFrames(pcs[:n])
	for {
		fr, more := frames.Next()
		if strings.HasSuffix(fr.Function, "(*pipe).DoStream") || strings.HasSuffix(fr.Function, "(*pipe).DoMultiStream") {
			return context.Canceled
		}
		if strings.HasSuffix(fr.Function, "(*pool).Acquire") || !more {
			return nil
		}
	}
}

type badWriter struct{}

func (badWriter) Write(p []byte) (int, error) { return 0, errors.New("verif: writer failed") }

// ---- runner --------------------------------------------------------------

type callersRunner struct {
	c      *Ctx
	srv    *fakeServer
	cl     rueidis.Client
	cap    int
	closed bool
	hung   bool
	hangs  int
}

func (r *callersRunner) snap() (string, rueidis.VerifPoolSnap, rueidis.VerifPoolSnap) {
	d, s, _, _, ok := rueidis.VerifClientPools(r.cl)
	if !ok {
		return "no-pools", d, s
	}
	b := func(x bool) int {
		if x {
			return 1
		}
		return 0
	}
	return fmt.Sprintf("d=%d/%d/%d s=%d/%d/%d", d.Size, len(d.List), b(d.Down), s.Size, len(s.List), b(s.Down)), d, s
}

func errClass(err error) string {
	switch {
	case err == nil:
		return "ok"
	case rueidis.IsRedisNil(err):
		return "nil"
	case errors.Is(err, context.Canceled):
		return "err:canceled"
	case errors.Is(err, context.DeadlineExceeded):
		return "err:deadline"
	case errors.Is(err, rueidis.ErrClosing):
		return "err:closing"
	case errors.Is(err, io.EOF):
		return "err:eof"
	default:
		if _, ok := rueidis.IsRedisErr(err); ok {
			return "err:redis"
		}
		return "err:io"
	}
}

func (r *callersRunner) emit(line, result string) {
	c := r.c
	snap, d, s := r.snap()
	c.Emit(line, result+" | "+snap, true)
	base := 1
	if r.closed {
		base = 0
	}
	open := r.srv.open()
	b := func(x bool) int {
		if x {
			return 1
		}
		return 0
	}
	op := fmt.Sprintf("!settled dsize=%d didle=%d ddown=%d ssize=%d sidle=%d sdown=%d open=%d base=%d", d.Size, len(d.List), b(d.Down), s.Size, len(s.List), b(s.Down), open, base)
	c.Emit(op, "ok", false)
	good := true
	if !d.Down && d.Size != len(d.List) {
		good = false
		c.Fail("callers:leak:blocking-pool", line, fmt.Sprintf("after %q nothing is held but the blocking pool has size=%d with %d idle", line, d.Size, len(d.List)))
	}
	if !s.Down && s.Size != len(s.List) && strings.HasPrefix(line, "stream ") && strings.HasSuffix(line, "dialfail") {
		c.Fail("pool:slot-leaked:failed-dial-stream", line, fmt.Sprintf("the dial of %q failed, nothing is held, but the streaming pool still counts size=%d with %d idle: the slot taken for the dial was never given back", line, s.Size, len(s.List)))
	}
	if !s.Down && s.Size != len(s.List) {
		good = false
		c.Fail("callers:leak:stream-pool", line, fmt.Sprintf("after %q nothing is held but the streaming pool has size=%d with %d idle", line, s.Size, len(s.List)))
	}
	want := base
	if !d.Down {
		want += len(d.List)
	}
	if !s.Down {
		want += len(s.List)
	}
	if good && open != want {
		c.Fail("callers:leak:open-connections", line, fmt.Sprintf("after %q %d connections are open, %d are accounted for", line, open, want))
	}
}

func (r *callersRunner) shutdown() {
	if r.cl != nil && !r.closed {
		r.cl.Close()
	}
	r.cl = nil
}

// do runs one op under a watchdog: a call that does not return within the watchdog time (20s, 2s after the first hang)
// (e.g. Acquire waiting for a leaked wire) is answered "hang" and the client is abandoned.
func (r *callersRunner) do(line string) {
	f := strings.Fields(line)
	if len(f) == 0 || strings.HasPrefix(f[0], "!") {
		return
	}
	if r.hung && f[0] != "reset" {
		r.c.Emit(line, "skipped-after-hang", false)
		return
	}
	// generous on the first hang (a loaded machine can stall the process for seconds), short afterwards
	hangAfter := 20 * time.Second
	if r.hangs > 0 {
		hangAfter = 2 * time.Second
	}
	done := make(chan struct{})
	go func() {
		defer close(done)
		r.do1(line, f)
	}()
	select {
	case <-done:
	case <-time.After(hangAfter):
		r.hung = true
		r.hangs++
		r.c.Emit(line, "hang", true)
		r.c.Fail("callers:hang", line, "the call did not return within its watchdog time: the pool waits for a wire that is never given back")
		// unblock the stuck call so that the goroutine ends before the next episode
		if r.cl != nil {
			r.cl.Close()
			r.closed = true
		}
		select {
		case <-done:
		case <-time.After(time.Second):
		}
	}
}

func (r *callersRunner) do1(line string, f []string) {
	if r.hung && f[0] != "reset" {
		return
	}
	c := r.c
	if f[0] == "reset" {
		r.shutdown()
		cap := 2
		for _, kv := range f[1:] {
			if v, ok := atoiSuffix(kv, "cap="); ok {
				cap = v
			}
		}
		srv := &fakeServer{conns: map[*fakeConn]struct{}{}}
		cl, err := rueidis.NewClient(rueidis.ClientOption{
			InitAddress:       []string{"fake:6379"},
			ForceSingleClient: true,
			DisableCache:      true,
			DisableRetry:      true,
			BlockingPoolSize:  cap,
			Dialer:            net.Dialer{KeepAlive: time.Hour}, // no background pings during an episode
			DialCtxFn: func(ctx context.Context, dst string, d *net.Dialer, _ *tls.Config) (net.Conn, error) {
				return srv.dial(ctx, dst, d, nil)
			},
		})
		if err != nil {
			c.Emit(line, "err:"+err.Error(), false)
			return
		}
		r.srv, r.cl, r.cap, r.closed, r.hung = srv, cl, cap, false, false
		r.emit(line, "ok")
		return
	}
	if r.cl == nil || len(f) < 1 {
		c.Emit(line, "bad-op", false)
		return
	}
	mode := ""
	if len(f) > 1 {
		mode = f[1]
	}
	bg := context.Background()
	doneCtx, cancel := context.WithCancel(bg)
	cancel()
	setDrop := func(name string) {
		r.srv.mu.Lock()
		r.srv.dropOn = name
		r.srv.mu.Unlock()
	}
	defer setDrop("")
	// "...dialfail": should this call have to dial, the dial fails (a call that finds an idle wire does not dial)
	dialFail := strings.HasSuffix(mode, "dialfail")
	if dialFail {
		atomic.StoreInt32(&r.srv.failDials, 1)
		defer atomic.StoreInt32(&r.srv.failDials, 0)
	}
	cl := r.cl
	c.Hit(f[0] + ":" + mode)
	switch f[0] {
	case "block":
		blpop := func() rueidis.Completed { return cl.B().Blpop().Key("k").Timeout(0).Build() }
		switch mode {
		case "ok", "dialfail":
			r.emit(line, errClass(cl.Do(bg, blpop()).Error()))
		case "fail":
			setDrop("BLPOP")
			r.emit(line, errClass(cl.Do(bg, blpop()).Error()))
		case "ctxdone":
			r.emit(line, errClass(cl.Do(doneCtx, blpop()).Error()))
		case "multi", "multifail", "multictxdone":
			ctx := bg
			if mode == "multifail" {
				setDrop("BLPOP")
			}
			if mode == "multictxdone" {
				ctx = doneCtx
			}
			res := cl.DoMulti(ctx, cl.B().Get().Key("a").Build(), blpop())
			out := make([]string, len(res))
			for i, x := range res {
				out[i] = errClass(x.Error())
			}
			r.emit(line, strings.Join(out, ","))
		default:
			c.Emit(line, "bad-op", false)
		}
	case "stream":
		get := func() rueidis.Completed { return cl.B().Get().Key("k").Build() }
		drain := func(s rueidis.RedisResultStream, w io.Writer) string {
			var res []string
			for s.HasNext() {
				_, err := s.WriteTo(w)
				res = append(res, errClass(err))
				if len(res) > 8 {
					break
				}
			}
			if len(res) == 0 {
				return "none:" + errClass(s.Error())
			}
			return strings.Join(res, ",")
		}
		switch mode {
		case "ok", "dialfail":
			r.emit(line, drain(cl.DoStream(bg, get()), io.Discard))
		case "fail":
			setDrop("GET")
			r.emit(line, drain(cl.DoStream(bg, get()), io.Discard))
		case "ctxdone":
			r.emit(line, drain(cl.DoStream(doneCtx, get()), io.Discard))
		case "flip":
			r.emit(line, drain(cl.DoStream(flipCtx{bg}, get()), io.Discard))
		case "multi", "multidialfail":
			r.emit(line, drain(cl.DoMultiStream(bg, get(), get(), get()), io.Discard))
		case "multiflip":
			r.emit(line, drain(cl.DoMultiStream(flipCtx{bg}, get(), get()), io.Discard))
		case "multictxdone":
			r.emit(line, drain(cl.DoMultiStream(doneCtx, get(), get()), io.Discard))
		case "badwriter":
			r.emit(line, drain(cl.DoMultiStream(bg, get(), get()), badWriter{}))
		default:
			c.Emit(line, "bad-op", false)
		}
	case "dedicated":
		if mode == "fail" {
			setDrop("GET")
		}
		var inner string
		err := cl.Dedicated(func(dc rueidis.DedicatedClient) error {
			inner = errClass(dc.Do(bg, dc.B().Get().Key("k").Build()).Error())
			return nil
		})
		r.emit(line, inner+","+errClass(err))
	case "dedicate":
		if mode == "fail" {
			setDrop("GET")
		}
		dc, release := cl.Dedicate()
		inner := errClass(dc.Do(bg, dc.B().Get().Key("k").Build()).Error())
		release()
		release() // releasing twice must store once
		r.emit(line, inner)
	case "stale":
		r.srv.closeServerSide()
		r.emit(line, "ok")
	case "close":
		cl.Close()
		r.closed = true
		r.emit(line, "ok")
	default:
		c.Emit(line, "bad-op", false)
	}
}

var callersWitnesses = [][]string{
	// failed dials on every path: the slot taken for the dial must be given back, a later call must get one
	{"reset cap=2", "stream dialfail", "stream multidialfail", "stream dialfail", "stream ok", "stream multi", "stream dialfail", "close"},
	{"reset cap=1", "block dialfail", "block dialfail", "block ok", "dedicated dialfail", "dedicated ok", "stream multidialfail", "stream ok", "stale", "stream dialfail", "stream dialfail", "close"},
	// (b) the stream call sees a done context after Acquire handed out a live wire
	{"reset cap=1", "stream ok", "stream flip", "stream ok", "stream multiflip", "stream ok", "close"},
	{"reset cap=2", "stream flip", "stream multiflip", "stream flip", "stream ok", "close"},
	// (a) through the real callers: a done context on a blocking command
	{"reset cap=1", "block ctxdone", "block ok", "block ok", "block multictxdone", "block multi", "close"},
	{"reset cap=1", "stream ctxdone", "stream multictxdone", "stream ok", "close"},
	{"reset cap=2", "block ok", "block fail", "block multi", "block multifail", "block ok", "close"},
	{"reset cap=2", "stream ok", "stream fail", "stream multi", "stream badwriter", "stream ok", "stale", "stream ok", "stream ok", "close"},
	{"reset cap=2", "block ok", "stream ok", "stale", "block ok", "block ok", "stream flip", "stream multi", "stream ok", "close"},
	{"reset cap=2", "dedicated ok", "stale", "dedicated ok", "dedicate ok", "stale", "block multi", "block multi", "close"},
	{"reset cap=1", "dedicated ok", "dedicated fail", "dedicate ok", "dedicate fail", "dedicated ok", "close", "block ok", "stream ok", "dedicated ok"},
}

func runCallers(c *Ctx) {
	r := &callersRunner{c: c}
	for _, ep := range callersWitnesses {
		for _, l := range ep {
			r.do(l)
		}
	}
	ops := []string{
		"block ok", "block ok", "block fail", "block ctxdone", "block multi", "block multifail", "block multictxdone",
		"stream ok", "stream ok", "stream fail", "stale", "stream ctxdone", "stream flip", "stream multi", "stream multiflip", "stream multictxdone", "stream badwriter",
		"dedicated ok", "dedicated fail", "dedicate ok", "dedicate fail",
		"stream dialfail", "stream multidialfail", "block dialfail", "dedicated dialfail",
	}
	episodes := c.N / 10
	if episodes < 5 {
		episodes = 5
	}
	for e := 0; e < episodes && r.hangs < 4; e++ {
		r.do(fmt.Sprintf("reset cap=%d", 1+c.Rng.IntN(3)))
		n := 4 + c.Rng.IntN(10)
		for i := 0; i < n; i++ {
			if c.Rng.IntN(40) == 0 {
				r.do("close")
			}
			r.do(ops[c.Rng.IntN(len(ops))])
		}
		r.do("close")
	}
	r.shutdown()
}

func init() {
	suites["callers"] = suite{
		rule: "complete calls through the public client over net.Pipe against a fake server: blocking Do/DoMulti (ok, connection dropped by the server, done context), DoStream/DoMultiStream (ok, dropped, stale idle connection, done context, context that turns done between Acquire and the stream call, failing io.Writer), Dedicated/Dedicate (+double release), Close; witness episodes first, then random episodes with pool sizes 1-3; after every call both pools must have size == idle and the open connections must be exactly the idle ones plus the pipelining connection",
		run:  runCallers,
		replay: func(c *Ctx, lines []string) {
			r := &callersRunner{c: c}
			for _, l := range lines {
				r.do(l)
			}
			r.shutdown()
		},
	}
}
