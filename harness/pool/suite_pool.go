package main

// Suite "pool": deterministic differential of the real blocking pool (pool.go,
// reached through /repo/verif_export_pool.go) against Rv/Model/Pool.lean.
//
// Every Acquire runs in its own goroutine g<k>. After each operation the
// harness waits until the world is quiescent (every unfinished goroutine is
// either parked in the pool's cond.Wait - counted from sync.Cond's notify list -
// or parked inside the scripted makeFn), then reports which goroutines
// finished during the operation and the pool snapshot.
//
//   reset cap=<n> min=<m>
//   acq g<k> ctx=<bg|done|dl|c<j>> mk=<item,item,...|->   item: [h:]ok|err|dead|exp
//   release g<k>        let the parked makeFn call of g<k> return
//   store g<k>          Store the wire handed to g<k>
//   closew g<k>         the holder calls Close on its wire (mux.blocking on a failed command)
//   break w<i>          wire starts reporting an error (not closed)
//   expire w<i>         wire's StopTimer reports false from now on
//   cancel c<j>         cancel the context
//   close               pool.Close
//   idle                removeIdleConns (the cleanup timer's body)
//   !bounded ...        oracle: live connections <= cap
//   !accounting ...     oracle: size = handed out + being made + idle while the pool is up
//
// Answer of an ordinary line: "<events> | size=<n> idle=<ids> down=<0|1> closed=<ids> waiters=<n>".

import (
	"context"
	"errors"
	"fmt"
	"runtime"
	"sort"
	"strconv"
	"strings"
	"sync"
	"sync/atomic"
	"time"

	"github.com/redis/rueidis"
)

type goro struct {
	id       int
	ctxName  string
	script   []string
	finished atomic.Bool
	h        rueidis.VerifHandle
	kind     string
	gate     chan struct{}
	parked   bool // inside makeFn, waiting for release (guarded by world.mu)
	reported bool
	stored   bool
}

type gkeyT struct{}

type world struct {
	mu      sync.Mutex
	vp      *rueidis.VerifPool
	cap     int
	min     int
	gs      map[int]*goro
	ctxs    map[string]context.Context
	cancels map[string]context.CancelFunc
	wires   []*rueidis.VerifWire
	parked  int
	making  int // goroutines currently inside makeFn
}

var errBroken = errors.New("verif: broken wire")

func newWorld(cap, min int) *world {
	w := &world{cap: cap, min: min, gs: map[int]*goro{}, ctxs: map[string]context.Context{}, cancels: map[string]context.CancelFunc{}}
	// cleanup is an hour: startTimerIfNeeded runs as in production but the timer never fires by itself
	w.vp = rueidis.VerifNewPool(cap, min, time.Hour, w.makeFn)
	return w
}

func (w *world) makeFn(ctx context.Context) *rueidis.VerifWire {
	g, _ := ctx.Value(gkeyT{}).(*goro)
	item := "ok"
	w.mu.Lock()
	w.making++
	if g != nil && len(g.script) > 0 {
		item = g.script[0]
		g.script = g.script[1:]
	}
	var gate chan struct{}
	if strings.HasPrefix(item, "h:") {
		item = item[2:]
		gate = make(chan struct{})
		g.gate = gate
		g.parked = true
		w.parked++
	}
	w.mu.Unlock()
	if gate != nil {
		<-gate
	}
	w.mu.Lock()
	defer w.mu.Unlock()
	w.making--
	if item == "dead" {
		return nil
	}
	id := len(w.wires)
	var err error
	if item == "err" {
		err = errBroken
	}
	vw := rueidis.VerifNewWire(id, err, item == "exp")
	w.wires = append(w.wires, vw)
	return vw
}

func (w *world) ctxFor(name string) (context.Context, bool) {
	switch {
	case name == "bg":
		return context.Background(), true
	case name == "done":
		c, cancel := context.WithCancel(context.Background())
		cancel()
		return c, true
	case name == "dl":
		c, cancel := context.WithDeadline(context.Background(), time.Now().Add(-time.Second))
		_ = cancel
		return c, true
	case strings.HasPrefix(name, "c"):
		if c, ok := w.ctxs[name]; ok {
			return c, true
		}
		c, cancel := context.WithCancel(context.Background())
		w.ctxs[name], w.cancels[name] = c, cancel
		return c, true
	}
	return nil, false
}

// settle waits until every unfinished goroutine is parked (cond.Wait or makeFn gate).
func (w *world) settle(timeout time.Duration) bool {
	deadline := time.Now().Add(timeout)
	stable := 0
	for i := 0; ; i++ {
		w.mu.Lock()
		unfinished := 0
		for _, g := range w.gs {
			if !g.finished.Load() {
				unfinished++
			}
		}
		parked := w.parked
		w.mu.Unlock()
		if unfinished == parked+w.vp.Waiters() {
			stable++
			if stable >= 3 {
				return true
			}
		} else {
			stable = 0
		}
		if time.Now().After(deadline) {
			return false
		}
		if i < 200 {
			runtime.Gosched()
		} else {
			time.Sleep(50 * time.Microsecond)
		}
	}
}

func (w *world) blockedOn(ctxName string) []*goro {
	w.mu.Lock()
	defer w.mu.Unlock()
	var out []*goro
	for _, g := range w.gs {
		if !g.finished.Load() && !g.parked && g.ctxName == ctxName {
			out = append(out, g)
		}
	}
	return out
}

func (w *world) events(self *goro) string {
	w.mu.Lock()
	defer w.mu.Unlock()
	ids := make([]int, 0, len(w.gs))
	for id := range w.gs {
		ids = append(ids, id)
	}
	sort.Ints(ids)
	var ev []string
	for _, id := range ids {
		g := w.gs[id]
		if g.finished.Load() && !g.reported {
			g.reported = true
			ev = append(ev, fmt.Sprintf("g%d=%s", id, g.kind))
		} else if g == self && !g.finished.Load() {
			if g.parked {
				ev = append(ev, fmt.Sprintf("g%d=inmake", id))
			} else {
				ev = append(ev, fmt.Sprintf("g%d=blocked", id))
			}
		}
	}
	if len(ev) == 0 {
		return "-"
	}
	return strings.Join(ev, " ")
}

func joinInts(xs []int) string {
	if len(xs) == 0 {
		return "-"
	}
	s := make([]string, len(xs))
	for i, x := range xs {
		s[i] = strconv.Itoa(x)
	}
	return strings.Join(s, ",")
}

func (w *world) snapshot() (string, rueidis.VerifPoolSnap) {
	s := w.vp.Snapshot()
	w.mu.Lock()
	var closed []int
	for _, vw := range w.wires {
		if vw.Closes() > 0 {
			closed = append(closed, vw.ID)
		}
	}
	w.mu.Unlock()
	d := 0
	if s.Down {
		d = 1
	}
	return fmt.Sprintf("size=%d idle=%s down=%d closed=%s waiters=%d", s.Size, joinInts(s.List), d, joinInts(closed), w.vp.Waiters()), s
}

// oracleLines emits the property's invariants judged on the real pool.
func (w *world) oracleLines(c *Ctx) {
	_, s := w.snapshot()
	w.mu.Lock()
	live, out := 0, 0
	for _, vw := range w.wires {
		if vw.Closes() == 0 {
			live++
		}
	}
	making := w.making
	for _, g := range w.gs {
		// the placeholder handed out for a done context is no wire: the pool does not count it
		if g.finished.Load() && !g.stored && !strings.HasPrefix(g.kind, "ctxdead") {
			out++
		}
	}
	// two holders of one live wire?
	holders := map[int]int{}
	for _, g := range w.gs {
		if g.finished.Load() && !g.stored {
			if vw := g.h.Wire(); vw != nil {
				holders[vw.ID]++
			}
		}
	}
	w.mu.Unlock()
	shared := 0
	for _, n := range holders {
		if n > 1 {
			shared++
		}
	}
	for _, id := range s.List {
		if holders[id] > 0 {
			shared++
		}
	}
	d := 0
	if s.Down {
		d = 1
	}
	op := fmt.Sprintf("!bounded cap=%d live=%d making=%d", s.Cap, live, making)
	c.Emit(op, "ok", false)
	if live+making > s.Cap {
		c.Fail("pool:bounded:live>cap", op, fmt.Sprintf("%d live connections (+%d being dialled) with cap %d", live, making, s.Cap))
	}
	op = fmt.Sprintf("!accounting size=%d out=%d making=%d idle=%d down=%d", s.Size, out, making, len(s.List), d)
	c.Emit(op, "ok", false)
	if !s.Down && s.Size != out+making+len(s.List) {
		c.Fail("pool:accounting:size!=out+idle", op, fmt.Sprintf("size=%d but %d handed out, %d being made, %d idle", s.Size, out, making, len(s.List)))
	}
	op = fmt.Sprintf("!exclusive shared=%d", shared)
	c.Emit(op, "ok", false)
	if shared > 0 {
		c.Fail("pool:exclusive:shared-wire", op, "a live wire is held by two holders or held while idle in the pool")
	}
}

type poolRunner struct {
	c        *Ctx
	w        *world
	timeouts int // ops that ran into a waiting budget (a broken pool, or a badly stalled machine)
}

func (r *poolRunner) answer(line string, self *goro, settled bool, nontrivial bool) {
	ev := r.w.events(self)
	snap, _ := r.w.snapshot()
	if !settled {
		ev += " unsettled"
		r.timeouts++
	}
	r.c.Emit(line, ev+" | "+snap, nontrivial)
	r.w.oracleLines(r.c)
}

func atoiSuffix(s string, prefix string) (int, bool) {
	if !strings.HasPrefix(s, prefix) {
		return 0, false
	}
	n, err := strconv.Atoi(s[len(prefix):])
	return n, err == nil
}

// do executes one op line against the real pool. Oracle lines in a replay are skipped
// (they are re-emitted after each op).
func (r *poolRunner) do(line string) {
	f := strings.Fields(line)
	if len(f) == 0 || strings.HasPrefix(f[0], "!") {
		return
	}
	c, w := r.c, r.w
	if f[0] != "reset" && w == nil {
		c.Emit(line, "bad-op", false)
		return
	}
	// generous: a loaded machine can stall the whole process for a second or more; the budget
	// shrinks after repeated timeouts so that a really broken pool does not cost minutes
	settleT := 30 * time.Second
	if r.timeouts >= 3 {
		settleT = 2 * time.Second
	}
	switch f[0] {
	case "reset":
		if w != nil {
			r.drain()
		}
		cap, min := 1, 0
		for _, kv := range f[1:] {
			if v, ok := atoiSuffix(kv, "cap="); ok {
				cap = v
			}
			if v, ok := atoiSuffix(kv, "min="); ok {
				min = v
			}
		}
		r.w = newWorld(cap, min)
		r.answer(line, nil, true, false)
	case "acq":
		id, ok := atoiSuffix(f[1], "g")
		if !ok || len(f) < 4 {
			c.Emit(line, "bad-op", false)
			return
		}
		ctxName := strings.TrimPrefix(f[2], "ctx=")
		base, ok := w.ctxFor(ctxName)
		if !ok {
			c.Emit(line, "bad-op", false)
			return
		}
		g := &goro{id: id, ctxName: ctxName}
		if mk := strings.TrimPrefix(f[3], "mk="); mk != "-" {
			g.script = strings.Split(mk, ",")
		}
		w.mu.Lock()
		w.gs[id] = g
		w.mu.Unlock()
		ctx := context.WithValue(base, gkeyT{}, g)
		go func() {
			h := w.vp.Acquire(ctx)
			g.h, g.kind = h, h.Kind()
			g.finished.Store(true)
		}()
		ok = w.settle(settleT)
		c.Hit("acq:" + ctxName[:1])
		r.answer(line, g, ok, true)
	case "release":
		id, _ := atoiSuffix(f[1], "g")
		w.mu.Lock()
		g := w.gs[id]
		var gate chan struct{}
		if g != nil && g.parked {
			gate, g.gate, g.parked = g.gate, nil, false
			w.parked--
		}
		w.mu.Unlock()
		if gate == nil {
			c.Emit(line, "bad-op", false)
			return
		}
		close(gate)
		ok := w.settle(settleT)
		r.answer(line, g, ok, true)
	case "store", "closew":
		id, _ := atoiSuffix(f[1], "g")
		w.mu.Lock()
		g := w.gs[id]
		valid := g != nil && g.finished.Load() && !g.stored
		if valid && f[0] == "store" {
			g.stored = true
		}
		w.mu.Unlock()
		if !valid {
			c.Emit(line, "bad-op", false)
			return
		}
		if f[0] == "store" {
			w.vp.Store(g.h)
		} else {
			g.h.Close()
		}
		ok := w.settle(settleT)
		c.Hit(f[0] + ":" + strings.SplitN(g.kind, ":", 2)[0][:1])
		r.answer(line, nil, ok, true)
	case "break", "expire":
		id, ok := atoiSuffix(f[1], "w")
		w.mu.Lock()
		var vw *rueidis.VerifWire
		if ok && id >= 0 && id < len(w.wires) {
			vw = w.wires[id]
		}
		w.mu.Unlock()
		if vw == nil {
			c.Emit(line, "bad-op", false)
			return
		}
		if f[0] == "break" {
			vw.Break(errBroken)
		} else {
			vw.Expire()
		}
		r.answer(line, nil, true, false)
	case "cancel":
		cancel, ok := w.cancels[f[1]]
		if !ok {
			c.Emit(line, "bad-op", false)
			return
		}
		waiting := w.blockedOn(f[1])
		cancel()
		// the cancellation goroutine broadcasts asynchronously: give the waiters of this
		// context a bounded time to return, then wait for quiescence
		grace := 30 * time.Second
		if r.timeouts >= 3 {
			grace = 400 * time.Millisecond
		}
		deadline := time.Now().Add(grace)
		for _, g := range waiting {
			for !g.finished.Load() && time.Now().Before(deadline) {
				time.Sleep(100 * time.Microsecond)
			}
			if !g.finished.Load() {
				r.timeouts++
				c.Hit("cancel:stuck")
			}
		}
		st := w.settle(settleT)
		c.Hit("cancel")
		r.answer(line, nil, st, len(waiting) > 0)
	case "close":
		w.vp.Close()
		ok := w.settle(settleT)
		r.answer(line, nil, ok, true)
	case "idle":
		w.vp.RemoveIdle()
		r.answer(line, nil, true, true)
	default:
		c.Emit(line, "bad-op", false)
	}
}

// drain releases everything so that no goroutine of the episode survives it.
func (r *poolRunner) drain() {
	w := r.w
	if w == nil {
		return
	}
	for _, cancel := range w.cancels {
		cancel()
	}
	w.mu.Lock()
	for _, g := range w.gs {
		if g.parked {
			close(g.gate)
			g.gate, g.parked = nil, false
			w.parked--
		}
	}
	w.mu.Unlock()
	w.vp.Close()
	w.settle(time.Second)
}

func init() {
	suites["pool"] = suite{
		rule: "episodes of acquire (background / cancellable / already-done / past-deadline contexts; scripted dial results ok|err|dead|expired, optionally held inside makeFn), store, holder-close, wire break/expiry, context cancel, pool Close and idle cleanup against the real pool with a mock wire; every Acquire in its own goroutine, blocked waiters observed from sync.Cond's notify list; fixed witness episodes first, then random episodes; non-trivial = a distinct op line that reached the pool (acq/store/close/idle/release/cancel with a parked waiter)",
		run:  runPool,
		replay: func(c *Ctx, lines []string) {
			r := &poolRunner{c: c}
			for _, l := range lines {
				r.do(l)
			}
			r.drain()
		},
	}
}

// witness episodes: the defects confirmed on the unchanged tree and the corner cases of the model
var poolWitnesses = [][]string{
	// (a) done context + store: size must not go negative / cap must hold afterwards
	{"reset cap=1 min=0", "acq g0 ctx=done mk=-", "store g0", "acq g1 ctx=bg mk=-", "acq g2 ctx=bg mk=-", "store g1", "store g2", "close"},
	{"reset cap=1 min=0", "acq g0 ctx=dl mk=-", "acq g1 ctx=bg mk=-", "store g0", "acq g2 ctx=c0 mk=-", "store g1", "cancel c0", "close"},
	// dead hand-out outstanding while the pool is at cap: nobody may create cap+1
	{"reset cap=1 min=0", "acq g0 ctx=bg mk=-", "acq g1 ctx=done mk=-", "acq g2 ctx=c0 mk=-", "store g1", "cancel c0", "store g2", "store g0", "close"},
	// blocked waiter woken by store, gets exactly that wire
	{"reset cap=1 min=0", "acq g0 ctx=bg mk=-", "acq g1 ctx=bg mk=-", "store g0", "store g1", "close"},
	// blocked waiter, holder returns a broken wire: waiter dials a new one
	{"reset cap=1 min=0", "acq g0 ctx=bg mk=-", "acq g1 ctx=c0 mk=-", "closew g0", "store g0", "store g1", "close"},
	// cancel while waiting
	{"reset cap=1 min=0", "acq g0 ctx=bg mk=-", "acq g1 ctx=c0 mk=-", "cancel c0", "store g1", "store g0", "close"},
	// two waiters, cancel one, store wakes the other
	{"reset cap=1 min=0", "acq g0 ctx=bg mk=-", "acq g1 ctx=c0 mk=-", "acq g2 ctx=c1 mk=-", "cancel c0", "store g0", "store g1", "store g2", "close"},
	// close wakes all waiters with the dead wire; later stores close what comes back
	{"reset cap=2 min=0", "acq g0 ctx=bg mk=-", "acq g1 ctx=bg mk=-", "acq g2 ctx=bg mk=-", "acq g3 ctx=c0 mk=-", "close", "store g0", "store g2", "store g1", "store g3", "acq g4 ctx=bg mk=-", "store g4"},
	// Close during a dial: the in-flight acquirer still gets its live wire, Store closes it
	{"reset cap=1 min=0", "acq g0 ctx=bg mk=h:ok", "close", "release g0", "acq g1 ctx=bg mk=-", "store g0", "store g1"},
	// dial failure: shared dead wire is counted and given back
	{"reset cap=1 min=0", "acq g0 ctx=bg mk=dead", "acq g1 ctx=c0 mk=-", "store g0", "store g1", "close"},
	// fresh wire whose timer already fired: dropped, retried
	{"reset cap=1 min=0", "acq g0 ctx=bg mk=exp,ok", "store g0", "expire w1", "acq g1 ctx=bg mk=exp,exp,ok", "store g1", "close"},
	// retry path into the wait loop: the pool fills up while g0 dials an expired wire;
	// g0 then waits and must still honour its context
	{"reset cap=1 min=0", "acq g0 ctx=c0 mk=h:exp", "acq g1 ctx=done mk=-", "release g0", "cancel c0", "store g1", "store g0", "close"},
	{"reset cap=2 min=0", "acq g0 ctx=bg mk=-", "acq g1 ctx=c0 mk=h:exp", "acq g2 ctx=dl mk=-", "release g1", "cancel c0", "store g2", "store g1", "store g0", "close"},
	// idle cleanup keeps the oldest minSize
	{"reset cap=3 min=1", "acq g0 ctx=bg mk=-", "acq g1 ctx=bg mk=-", "acq g2 ctx=bg mk=-", "store g1", "store g0", "store g2", "idle", "acq g3 ctx=bg mk=-", "idle", "store g3", "close", "idle"},
	// broken idle wires are discarded on the way
	{"reset cap=2 min=0", "acq g0 ctx=bg mk=-", "acq g1 ctx=bg mk=-", "store g0", "store g1", "break w1", "expire w0", "acq g2 ctx=bg mk=err", "store g2", "close"},
}

func runPool(c *Ctx) {
	r := &poolRunner{c: c}
	for _, ep := range poolWitnesses {
		for _, l := range ep {
			r.do(l)
		}
	}
	episodes := c.N / 12
	if episodes < 10 {
		episodes = 10
	}
	for e := 0; e < episodes; e++ {
		r.randomEpisode()
	}
	r.drain()
}

func (r *poolRunner) randomEpisode() {
	c := r.c
	cap := 1 + c.Rng.IntN(3)
	min := c.Rng.IntN(3)
	r.do(fmt.Sprintf("reset cap=%d min=%d", cap, min))
	nextG, nextC := 0, 0
	nops := 6 + c.Rng.IntN(14)
	scripts := []string{"-", "-", "-", "-", "-", "-", "err", "dead", "exp,ok", "exp,exp", "exp,dead", "h:ok", "h:exp", "h:dead", "h:err", "exp,h:ok"}
	for i := 0; i < nops; i++ {
		w := r.w
		// observe the real world to generate valid ops only
		w.mu.Lock()
		var held, parked, blocked []*goro
		for _, g := range w.gs {
			switch {
			case g.finished.Load() && !g.stored:
				held = append(held, g)
			case !g.finished.Load() && g.parked:
				parked = append(parked, g)
			case !g.finished.Load():
				blocked = append(blocked, g)
			}
		}
		nw := len(w.wires)
		w.mu.Unlock()
		sort.Slice(held, func(i, j int) bool { return held[i].id < held[j].id })
		sort.Slice(parked, func(i, j int) bool { return parked[i].id < parked[j].id })
		sort.Slice(blocked, func(i, j int) bool { return blocked[i].id < blocked[j].id })
		k := c.Rng.IntN(100)
		switch {
		case k < 34 && nextG < 9:
			var ctxName string
			switch x := c.Rng.IntN(20); {
			case x < 6:
				ctxName = "bg"
			case x < 9:
				ctxName = "done"
			case x < 10:
				ctxName = "dl"
			case x < 17 || nextC == 0:
				ctxName = fmt.Sprintf("c%d", nextC)
				nextC++
			default:
				ctxName = fmt.Sprintf("c%d", c.Rng.IntN(nextC)) // possibly already cancelled, possibly shared
			}
			r.do(fmt.Sprintf("acq g%d ctx=%s mk=%s", nextG, ctxName, scripts[c.Rng.IntN(len(scripts))]))
			nextG++
		case k < 62 && len(held) > 0:
			r.do(fmt.Sprintf("store g%d", held[c.Rng.IntN(len(held))].id))
		case k < 68 && len(held) > 0:
			r.do(fmt.Sprintf("closew g%d", held[c.Rng.IntN(len(held))].id))
		case k < 73 && nw > 0:
			r.do(fmt.Sprintf("break w%d", c.Rng.IntN(nw)))
		case k < 77 && nw > 0:
			r.do(fmt.Sprintf("expire w%d", c.Rng.IntN(nw)))
		case k < 85 && len(parked) > 0:
			r.do(fmt.Sprintf("release g%d", parked[c.Rng.IntN(len(parked))].id))
		case k < 93 && nextC > 0:
			// cancel a context; keep the wake-up order deterministic: at most one waiter on
			// other contexts may be parked (a broadcast re-queues the others in lock order)
			name := fmt.Sprintf("c%d", c.Rng.IntN(nextC))
			others := 0
			for _, g := range blocked {
				if g.ctxName != name {
					others++
				}
			}
			if others <= 1 {
				r.do("cancel " + name)
			}
		case k < 97:
			r.do("idle")
		case k < 99 && i > nops/2:
			r.do("close")
		}
	}
	// wind the episode down through ordinary ops so that the model follows
	w := r.w
	w.mu.Lock()
	var parked []int
	for _, g := range w.gs {
		if !g.finished.Load() && g.parked {
			parked = append(parked, g.id)
		}
	}
	w.mu.Unlock()
	sort.Ints(parked)
	r.do("close")
	for _, id := range parked {
		r.do(fmt.Sprintf("release g%d", id))
	}
}
