package main

import (
	"crypto/tls"
	"fmt"
	"net/url"
	"reflect"
	"sort"
	"strconv"
	"strings"
	"time"

	"github.com/redis/rueidis"
)

func init() {
	suites["url"] = suite{
		rule: "URLs built from components: every subset of the 10 supported query parameters x 5 supported schemes with values drawn from per-parameter pools of valid and invalid values (strconv/time edge cases: signs, overflow, fractions, µs, empty), every single parameter x every pool value x {redis, rediss, unix}, and scheme x userinfo x host x path combinations (ports, IPv6 literals, missing host, db paths valid/invalid/too long, unix socket paths with spaces), unknown parameters and repeated keys; the components handed to the model are net/url.Parse's own output; result compared as a canonical dump of every ClientOption field ParseURL may set plus a reflective check that no other field is set; each URL is emitted as model line and as oracle line; non-trivial = URL with a query or a path",
		run:  runURL,
		replay: func(c *Ctx, lines []string) {
			for _, l := range lines {
				w := strings.Fields(l)
				urlOp(c, w[0], unhx(w[1]))
			}
		},
	}
}

func b01(b bool) string {
	if b {
		return "1"
	}
	return "0"
}

// dumpOpt renders every field ParseURL may set; other lists every further non-zero field.
func dumpOpt(opt rueidis.ClientOption) (string, []string) {
	var other []string
	addrs := "nil"
	if opt.InitAddress != nil {
		hs := make([]string, len(opt.InitAddress))
		for i, a := range opt.InitAddress {
			hs[i] = hx(a)
		}
		addrs = strings.Join(hs, ",")
	}
	tl := "nil"
	if t := opt.TLSConfig; t != nil {
		tl = fmt.Sprintf("min:%d:sn:%s:skip:%s", t.MinVersion, hx(t.ServerName), b01(t.InsecureSkipVerify))
		if t.MaxVersion != 0 || t.RootCAs != nil || t.Certificates != nil || t.NextProtos != nil || t.ClientAuth != tls.NoClientCert || t.GetCertificate != nil || t.VerifyConnection != nil {
			other = append(other, "TLSConfig.*")
		}
	}
	d := opt.Dialer
	d.Timeout = 0
	if !reflect.ValueOf(d).IsZero() {
		other = append(other, "Dialer.*")
	}
	s := opt.Sentinel
	s.MasterSet = ""
	if !reflect.ValueOf(s).IsZero() {
		other = append(other, "Sentinel.*")
	}
	known := map[string]bool{"InitAddress": true, "TLSConfig": true, "DialCtxFn": true, "Username": true, "Password": true, "SelectDB": true,
		"Dialer": true, "ConnWriteTimeout": true, "AlwaysRESP2": true, "DisableCache": true, "DisableRetry": true, "ClientName": true, "Sentinel": true}
	v := reflect.ValueOf(opt)
	for i := 0; i < v.NumField(); i++ {
		f := v.Type().Field(i)
		if !known[f.Name] && !v.Field(i).IsZero() {
			other = append(other, f.Name)
		}
	}
	sort.Strings(other)
	o := "-"
	if len(other) > 0 {
		o = strings.Join(other, ",")
	}
	return fmt.Sprintf("ok addr=%s tls=%s dialfn=%s user=%s pass=%s db=%d dial=%d write=%d resp2=%s nocache=%s noretry=%s name=%s master=%s other=%s",
		addrs, tl, b01(opt.DialCtxFn != nil), hx(opt.Username), hx(opt.Password), opt.SelectDB, int64(opt.Dialer.Timeout), int64(opt.ConnWriteTimeout),
		b01(opt.AlwaysRESP2), b01(opt.DisableCache), b01(opt.DisableRetry), hx(opt.ClientName), hx(opt.Sentinel.MasterSet), o), other
}

func urlErrKind(err error) string {
	m := err.Error()
	for _, p := range [][2]string{
		{"redis: invalid URL scheme", "scheme"}, {"redis: invalid database number", "dbnum"}, {"redis: invalid URL path", "path"},
		{"redis: invalid dial timeout", "dial"}, {"redis: invalid write timeout", "write"}, {"redis: invalid skip verify", "skip"}} {
		if strings.HasPrefix(m, p[0]) {
			return "err:" + p[1]
		}
	}
	return "err:other:" + hx(m)
}

func urlOp(c *Ctx, op, raw string) {
	u, perr := url.Parse(raw)
	var line string
	if perr != nil {
		line = op + " " + hx(raw) + " parse-error"
	} else {
		user := "n"
		if u.User != nil {
			if p, ok := u.User.Password(); ok {
				user = "p:" + hx(u.User.Username()) + ":" + hx(p)
			} else {
				user = "u:" + hx(u.User.Username())
			}
		}
		q := u.Query()
		keys := make([]string, 0, len(q))
		for k := range q {
			keys = append(keys, k)
		}
		sort.Strings(keys)
		parts := []string{op, hx(raw), hx(u.Scheme), hx(u.Host), hx(u.Path), user, strconv.Itoa(len(keys))}
		for _, k := range keys {
			parts = append(parts, hx(k), strconv.Itoa(len(q[k])))
			for _, v := range q[k] {
				parts = append(parts, hx(v))
			}
		}
		line = strings.Join(parts, " ")
	}
	var opt rueidis.ClientOption
	var err error
	ans := guard(func() string {
		opt, err = rueidis.ParseURL(raw)
		if err != nil {
			if perr != nil {
				return "err:parse"
			}
			return urlErrKind(err)
		}
		s, _ := dumpOpt(opt)
		return s
	})
	c.Hit(strings.SplitN(ans, " ", 2)[0])
	if perr == nil && err == nil && ans != "panic" {
		q := u.Query()
		_, other := dumpOpt(opt)
		if len(other) > 0 {
			c.Fail("url:unexpected-option-field:"+strings.Join(other, ","), line, "ParseURL set option fields outside its documented set: "+strings.Join(other, ","))
		}
		if q.Has("write_timeout") {
			if d, e := time.ParseDuration(q.Get("write_timeout")); e == nil && opt.ConnWriteTimeout != d {
				c.Fail("url:write_timeout:not-conn-write-timeout", line, fmt.Sprintf("write_timeout=%s gave ConnWriteTimeout=%v Dialer.Timeout=%v", q.Get("write_timeout"), opt.ConnWriteTimeout, opt.Dialer.Timeout))
			}
		}
		want := time.Duration(0)
		if q.Has("dial_timeout") {
			want, _ = time.ParseDuration(q.Get("dial_timeout"))
		}
		if opt.Dialer.Timeout != want {
			c.Fail("url:dial_timeout:overwritten", line, fmt.Sprintf("dial_timeout=%q gave Dialer.Timeout=%v", q.Get("dial_timeout"), opt.Dialer.Timeout))
		}
	}
	c.Emit(line, ans, perr == nil && (u.RawQuery != "" || u.Path != ""))
}

type urlParam struct {
	name    string
	valid   []string
	invalid []string // values ParseURL must reject (on schemes where the parameter is looked at)
}

var urlParams = []urlParam{
	{"db", []string{"0", "3", "-1", "%2B2", "007", "9223372036854775807", "-9223372036854775808"}, []string{"", "x", "1.5", "9223372036854775808", "1_0", "+", "0x10", "%201"}},
	{"dial_timeout", []string{"5s", "1h30m", "0", "-2ms", "%2B3us", "1.5s", "100ns", "1%C2%B5s", "1%CE%BCs", ".5m", "2562047h", "9223372036854775807ns", "1h1m1s1ms1us1ns", "0.000000001s", "1.0000000001s", "-9223372036854775808ns", "0.3us", "1.999999999999999999999h", "5.s", "-0", "%2B0", "9223372036854775808ns9223372036854775808ns"},
		[]string{"", "5", "abc", "5x", "s", "1.5.5s", ".s", "-", "9223372036854775808ns", "2562048h", "1e3s", "1+s", "5S", "--1s", "00", "9223372036854775809ns", "5s+", "1h-1m"}},
	{"write_timeout", []string{"10s", "250ms", "0", "1m0.5s", "-1ns", "2h45m", "1us", "4.25h"}, []string{"", "10", "ten", "1d", "3.m.s", "+", "1.s.", "99999999999999999999s"}},
	{"addr", []string{"h2:6380", "h3", ":9", "[::2]:5", "", "10.0.0.1:7", "h4:", "[::3]", "a:b:c", "h2:6380&addr=h5:1"}, nil},
	{"skip_verify", []string{"", "1", "t", "true", "TRUE", "True", "T", "0", "false", "F", "f", "FALSE", "False"}, []string{"yes", "2", "tRuE", "+", "on"}},
	{"protocol", []string{"2", "3", "", "02", "2%20"}, nil},
	{"client_cache", []string{"0", "1", "", "00"}, nil},
	{"max_retries", []string{"0", "3", "", "-0"}, nil},
	{"client_name", []string{"cli", "a+b", "", "%ff%00", "x&client_name=y"}, nil},
	{"master_set", []string{"mymaster", "", "m%2Fs"}, nil},
}

func runURL(c *Ctx) {
	both := func(raw string) {
		urlOp(c, "url", raw)
		urlOp(c, "!url", raw)
	}
	pick := func(p urlParam, invalidPct int) string {
		if len(p.invalid) > 0 && c.Rng.IntN(100) < invalidPct {
			return p.invalid[c.Rng.IntN(len(p.invalid))]
		}
		return p.valid[c.Rng.IntN(len(p.valid))]
	}
	schemes := []string{"redis", "rediss", "valkey", "valkeys", "unix"}
	authority := func(s string) string {
		if s == "unix" {
			return "unix://" + []string{"", "u:p@", ":pw@"}[c.Rng.IntN(3)] + []string{"/tmp/redis.sock", "/run/r.sock", ""}[c.Rng.IntN(3)]
		}
		return s + "://" + []string{"", "", "u:p@", "user@"}[c.Rng.IntN(4)] + []string{"", "h", "h:6380", "[::1]:6380"}[c.Rng.IntN(4)] + []string{"", "", "/2"}[c.Rng.IntN(3)]
	}
	// 1. every subset of the parameters x scheme
	step := 1
	if c.Tier == "quick" {
		step = 3 // every third subset per scheme, offset by the scheme index: all subsets are still covered across schemes
	}
	for si, s := range schemes {
		for mask := si % step; mask < 1<<len(urlParams); mask += step {
			var qs []string
			for i, p := range urlParams {
				if mask&(1<<i) != 0 {
					qs = append(qs, p.name+"="+pick(p, 12))
				}
			}
			if c.Rng.IntN(10) == 0 {
				qs = append(qs, "foo=bar")
			}
			c.Rng.Shuffle(len(qs), func(i, j int) { qs[i], qs[j] = qs[j], qs[i] })
			both(authority(s) + "?" + strings.Join(qs, "&"))
		}
	}
	// 2. every single parameter x every pool value x scheme class
	for _, p := range urlParams {
		for _, v := range append(append([]string{}, p.valid...), p.invalid...) {
			for _, base := range []string{"redis://h:1", "rediss://h:1/3", "unix:///tmp/s.sock", "valkeys://"} {
				both(base + "?" + p.name + "=" + v)
			}
			both("redis://?" + p.name + "=" + v + "&" + p.name + "=zzz") // repeated key: the first value counts
		}
		both("redis://h?" + p.name)       // key without '='
		both("rediss://h?" + p.name + "") // same on TLS
	}
	// the two timeouts together, every pair of a few values (the repaired defect lives here)
	for _, a := range []string{"1s", "2m", "0", "x"} {
		for _, b := range []string{"5s", "7ms", "0", "y"} {
			both("redis://h?dial_timeout=" + a + "&write_timeout=" + b)
			both("redis://h?write_timeout=" + b + "&dial_timeout=" + a)
			both("rediss://h?write_timeout=" + b)
		}
	}
	// 3. scheme x userinfo x host x path
	allSchemes := append(append([]string{}, schemes...), "http", "REDIS", "", "redis+tls")
	users := []string{"", "u@", "u:p@", ":p@", "u:@", "us%40er:p%3Aw@", "%ff:%00@"}
	hosts := []string{"", "h", "h:6380", ":7000", "[::1]:6380", "[::1]", "127.0.0.1", "h:", "example.com:0"}
	paths := []string{"", "/", "/0", "/15", "/x", "/1/2", "/-1", "/+3", "/007", "/99999999999999999999", "/%31", "//", "/3/", "/%20tmp/r.sock%20", "/tmp/redis.sock", "/%09a%0a"}
	for _, s := range allSchemes {
		for _, us := range users {
			for _, h := range hosts {
				for _, p := range paths {
					if c.Tier == "quick" && c.Rng.IntN(4) != 0 {
						continue
					}
					raw := s + "://" + us + h + p
					if s == "" {
						raw = "//" + us + h + p
					}
					both(raw)
					if c.Rng.IntN(8) == 0 {
						both(raw + "?db=4&addr=h9")
					}
				}
			}
		}
	}
	// 4. malformed URLs (url.Parse fails) and odd queries
	for _, raw := range []string{"redis://h:port", "redis://[::1", "%zz", "redis://h/%zz", "localhost:6379", "redis://h?db=%zz", "redis://h?db=1;dial_timeout=x",
		"redis://h?=5", "redis://h?&&", "redis://h?db=1&DB=2", "redis://h/1?db=", "redis://u:p@h:1/2?db=3&protocol=2&client_cache=0&max_retries=0&client_name=n&master_set=m", "unix:///s?db=2&skip_verify=zz",
		"rediss://h?skip_verify", "rediss://h?skip_verify=zz", "redis://h?skip_verify=zz", "unix://h/p", "unix://?addr=a:1", "redis://h:1?addr=x&addr=y:2&addr=:3", "redis://?addr=x"} {
		both(raw)
	}
	// 5. random mixes
	for i := 0; i < c.N; i++ {
		s := schemes[c.Rng.IntN(len(schemes))]
		var qs []string
		for _, p := range urlParams {
			if c.Rng.IntN(3) == 0 {
				qs = append(qs, p.name+"="+pick(p, 25))
			}
		}
		c.Rng.Shuffle(len(qs), func(i, j int) { qs[i], qs[j] = qs[j], qs[i] })
		raw := s + "://" + users[c.Rng.IntN(len(users))] + hosts[c.Rng.IntN(len(hosts))] + paths[c.Rng.IntN(len(paths))]
		if len(qs) > 0 {
			raw += "?" + strings.Join(qs, "&")
		}
		both(raw)
	}
}
