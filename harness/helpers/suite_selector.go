package main

import (
	"fmt"
	"strconv"
	"strings"

	"github.com/redis/rueidis"
)

func init() {
	suites["selector"] = suite{
		rule: "episodes `reset <selector> <clientAZ>` + calls on node lists: exhaustive over client AZ and node AZs from {\"\",a,b} for 0..6 nodes x 3 selectors (several consecutive calls each, so rotation is observed), then random lists up to 300 nodes biased to lengths 0,1,2,8..10,254..257 and to >8 matches / matches only beyond index 254, plus pickAZ with preset counters (incl. 2^32-1) and start indices 0..5; every call is followed by an oracle line `!judge r`; non-trivial = call on a list with at least 2 nodes",
		run:  runSelector,
		replay: func(c *Ctx, lines []string) {
			st := &selState{}
			for _, l := range lines {
				selectorOp(c, st, l)
			}
		},
	}
}

type selState struct {
	kind  string
	az    string
	fn    func(uint16, []rueidis.NodeInfo) int
	nodes []rueidis.NodeInfo
	last  int
}

func nodesOf(ws []string) []rueidis.NodeInfo {
	ns := make([]rueidis.NodeInfo, len(ws))
	for i, w := range ws {
		ns[i] = rueidis.NodeInfo{AZ: unhx(w), Addr: "n" + strconv.Itoa(i)}
	}
	return ns
}

func selectorOp(c *Ctx, st *selState, line string) {
	w := strings.Fields(line)
	switch w[0] {
	case "reset":
		st.kind, st.az = w[1], unhx(w[2])
		switch {
		case w[1] == "az":
			st.fn = rueidis.AZAffinityNodeSelector(st.az)
		case w[1] == "azp":
			st.fn = rueidis.AZAffinityReplicasAndPrimaryNodeSelector(st.az)
		case w[1] == "pref":
			st.fn = rueidis.PreferReplicaNodeSelector()
		case strings.HasPrefix(w[1], "azs"):
			k, _ := strconv.Atoi(w[1][3:])
			st.fn = rueidis.VerifNewAZSelector(st.az, k)
		default:
			panic("bad selector kind " + w[1])
		}
		st.nodes, st.last = nil, -1
		c.Emit(line, "ok", false)
	case "call":
		st.nodes = nodesOf(w[1:])
		ans := func() (ans string) {
			defer func() {
				if r := recover(); r != nil {
					ans, st.last = "panic", -2
				}
			}()
			st.last = st.fn(uint16(c.count&16383), st.nodes)
			return strconv.Itoa(st.last)
		}()
		n, r := len(st.nodes), st.last
		// the harness judges the two single-op clauses itself as well (stable witness keys)
		if !(r == -1 || (r >= 0 && r < n)) {
			c.Fail(fmt.Sprintf("selector:%s:invalid-index:n=%d", st.kind, n), line, fmt.Sprintf("selector %s returned %s for %d nodes", st.kind, ans, n))
		} else if st.kind == "az" || st.kind == "azp" {
			exists := false
			for i := 1; i < n && i < 255; i++ {
				if st.nodes[i].AZ == st.az {
					exists = true
				}
			}
			if exists && !(r >= 1 && st.nodes[r].AZ == st.az) {
				c.Fail(fmt.Sprintf("selector:%s:same-az-replica-not-chosen", st.kind), line, fmt.Sprintf("a same-AZ replica exists among the first 255 nodes but selector %s returned %d", st.kind, r))
			}
		}
		switch {
		case r == -1:
			c.Hit(st.kind + ":-1")
		case r == 0:
			c.Hit(st.kind + ":primary")
		case r > 0 && r < n && st.nodes[r].AZ == st.az:
			c.Hit(st.kind + ":replica-same-az")
		case r > 0 && r < n:
			c.Hit(st.kind + ":replica-other")
		default:
			c.Hit(st.kind + ":invalid")
		}
		c.Emit(line, ans, n >= 2)
	case "!judge":
		// the observed result travels in the op line; the specification (Lean) answers ok|bad:…
		c.Emit("!judge "+strconv.Itoa(st.last), "ok", false)
	case "pick":
		start, _ := strconv.Atoi(w[1])
		c0, _ := strconv.ParseUint(w[2], 10, 32)
		ns := nodesOf(w[4:])
		ans := func() (ans string) {
			defer func() {
				if r := recover(); r != nil {
					ans = "panic"
				}
			}()
			idx, after := rueidis.VerifPickAZ(ns, unhx(w[3]), start, uint32(c0))
			return fmt.Sprintf("%d %d", idx, after)
		}()
		c.Hit("pick:" + map[bool]string{true: "-1", false: "hit"}[strings.HasPrefix(ans, "-1")])
		c.Emit(line, ans, len(ns) >= 2)
	default:
		panic("bad selector op " + line)
	}
}

func runSelector(c *Ctx) {
	st := &selState{}
	do := func(l string) { selectorOp(c, st, l) }
	kinds := []string{"az", "azp", "pref"}
	alpha := []string{"", "a", "b"}
	// 1. exhaustive small scope
	for n := 0; n <= 6; n++ {
		total := 1
		for i := 0; i < n; i++ {
			total *= 3
		}
		for code := 0; code < total; code++ {
			ws := make([]string, n)
			x := code
			for i := range ws {
				ws[i] = hx(alpha[x%3])
				x /= 3
			}
			call := strings.TrimSpace("call " + strings.Join(ws, " "))
			for _, az := range alpha {
				for _, k := range kinds {
					if k == "pref" && az != "" {
						continue
					}
					do("reset " + k + " " + hx(az))
					calls := 2
					if n >= 3 {
						calls = n + 1
					}
					if n == 6 && c.Tier == "quick" {
						calls = 3
					}
					for j := 0; j < calls; j++ {
						do(call)
						do("!judge")
					}
				}
			}
		}
	}
	// 2. random lists
	lens := []int{0, 1, 2, 3, 8, 9, 10, 17, 100, 253, 254, 255, 256, 257, 300}
	randList := func() []string {
		var n int
		if c.Rng.IntN(3) == 0 {
			n = lens[c.Rng.IntN(len(lens))]
		} else {
			n = c.Rng.IntN(40)
		}
		ws := make([]string, n)
		mode := c.Rng.IntN(5)
		for i := range ws {
			switch mode {
			case 0: // many matches
				ws[i] = hx([]string{"a", "a", "a", "b"}[c.Rng.IntN(4)])
			case 1: // matches only at the far end
				if i >= 250 && c.Rng.IntN(2) == 0 {
					ws[i] = hx("a")
				} else {
					ws[i] = hx([]string{"b", "c", ""}[c.Rng.IntN(3)])
				}
			case 2: // no match at all
				ws[i] = hx([]string{"b", "c", "", "us-east-1b"}[c.Rng.IntN(4)])
			default:
				ws[i] = hx([]string{"a", "b", "c", "", "us-east-1a", "a\x00"}[c.Rng.IntN(6)])
			}
		}
		return ws
	}
	for i := 0; i < c.N; i++ {
		k := kinds[c.Rng.IntN(3)]
		if c.Rng.IntN(6) == 0 {
			k = "azs" + strconv.Itoa(c.Rng.IntN(4))
		}
		az := []string{"a", "a", "a", "", "us-east-1a"}[c.Rng.IntN(5)]
		do("reset " + k + " " + hx(az))
		ws := randList()
		ncalls := 1 + c.Rng.IntN(12)
		for j := 0; j < ncalls; j++ {
			if c.Rng.IntN(6) == 0 {
				ws = randList()
			}
			do(strings.TrimSpace("call " + strings.Join(ws, " ")))
			if !strings.HasPrefix(k, "azs") {
				do("!judge")
			}
		}
	}
	// 3. pickAZ with preset counters
	cs := []uint32{0, 1, 6, 7, 8, 4294967294, 4294967295, 2147483647, 2147483648}
	for i := 0; i < c.N; i++ {
		c0 := cs[c.Rng.IntN(len(cs))]
		if c.Rng.IntN(3) == 0 {
			c0 = c.Rng.Uint32()
		}
		ws := randList()
		do(strings.TrimSpace(fmt.Sprintf("pick %d %d %s %s", c.Rng.IntN(6), c0, hx([]string{"a", ""}[c.Rng.IntN(2)]), strings.Join(ws, " "))))
	}
}
