package main

import (
	"errors"
	"fmt"
	"strconv"
	"strings"

	"github.com/redis/rueidis"
)

func init() {
	suites["scanner"] = suite{
		rule: "scripted next function (i-th call answers the i-th scripted page or error, past the end: error eof; requested cursors are recorded) driven through Scanner.Iter and Scanner.Iter2 with a consumer that breaks at every possible item index (0..total) and one that never breaks; scripts: exhaustive over up to 3 responses from {empty page, 1/2/3-element page, error} x cursor {0, non-zero}, then random scripts up to 8 responses with pages up to 7 elements, empty elements, cursor 2^64-1; each op is emitted as model line and as oracle line; `seq` ops re-iterate the SAME Scanner 2-3 times (Iter/Iter2 mixed, re-usable iter.Seq values) against a cursor-keyed page server after a complete iteration, after a consumer break at every item position and after a failed page: every iteration must start at cursor 0 and show what a fresh Scanner shows; non-trivial = script with at least two responses",
		run:  runScanner,
		replay: func(c *Ctx, lines []string) {
			for _, l := range lines {
				scannerOp(c, l)
			}
		},
	}
}

type scanResp struct {
	cursor uint64
	elems  []string
	err    string
}

func parseScanResp(w string) scanResp {
	if strings.HasPrefix(w, "e:") {
		return scanResp{err: w[2:]}
	}
	body := w[1:]
	cur, es, has := strings.Cut(body, ":")
	c, err := strconv.ParseUint(cur, 10, 64)
	if err != nil {
		panic("bad resp " + w)
	}
	r := scanResp{cursor: c}
	if has {
		// elements travel as opaque words; the real code sees the words themselves
		r.elems = strings.Split(es, ",")
	}
	return r
}

// scannerSeqOp: `seq <n> (<iter|iter2> <stop>){n} <resp>*` — n consecutive iterations over ONE Scanner.
// The page server is keyed by the requested cursor: entry 0 answers cursor 0, entry i+1 answers the
// cursor entry i returned; any other cursor is answered with the error eof.
func scannerSeqOp(c *Ctx, line string) {
	w := strings.Fields(line)
	n, _ := strconv.Atoi(w[1])
	type req struct {
		op   string
		stop int
	}
	reqs := make([]req, n)
	for i := range reqs {
		reqs[i] = req{w[2+2*i], -1}
		if x := w[3+2*i]; x != "-" {
			reqs[i].stop, _ = strconv.Atoi(x)
		}
	}
	var script []scanResp
	for _, x := range w[2+2*n:] {
		script = append(script, parseScanResp(x))
	}
	keyed := map[uint64]int{}
	dup := false
	cur := uint64(0)
	for i := 0; ; i++ {
		if _, ok := keyed[cur]; ok {
			dup = true
			break
		}
		keyed[cur] = i // i == len(script): the request past the end (answered eof)
		if i >= len(script) || script[i].err != "" || script[i].cursor == 0 {
			break
		}
		cur = script[i].cursor
	}
	if dup {
		c.Emit(line, "bad-op:dup-cursor", false)
		return
	}
	var cursors []string
	sc := rueidis.NewScanner(func(cursor uint64) (rueidis.ScanEntry, error) {
		cursors = append(cursors, strconv.FormatUint(cursor, 10))
		i, ok := keyed[cursor]
		if !ok || i >= len(script) {
			return rueidis.ScanEntry{}, errors.New("eof")
		}
		if script[i].err != "" {
			return rueidis.ScanEntry{}, errors.New(script[i].err)
		}
		return rueidis.ScanEntry{Cursor: script[i].cursor, Elements: script[i].elems}, nil
	})
	seq1, seq2 := sc.Iter(), sc.Iter2() // the re-usable iterator values
	var outs []string
	for j, r := range reqs {
		cursors = nil
		var items []string
		out := guard(func() string {
			idx := 0
			if r.op == "iter" {
				for v := range seq1 {
					items = append(items, v)
					if idx == r.stop {
						break
					}
					idx++
				}
			} else {
				for k, v := range seq2 {
					items = append(items, k+"+"+v)
					if idx == r.stop {
						break
					}
					idx++
				}
			}
			e := "-"
			if err := sc.Err(); err != nil {
				e = err.Error()
			}
			return fmt.Sprintf("y=%d:%s c=%s err=%s", len(items), strings.Join(items, ","), strings.Join(cursors, ","), e)
		})
		if j > 0 && out != "panic" && (len(cursors) == 0 || cursors[0] != "0") {
			first := "none"
			if len(cursors) > 0 {
				first = cursors[0]
			}
			c.Fail("scanner:second-iteration-not-from-cursor-0", line, fmt.Sprintf("iteration %d over the same Scanner started at cursor %s instead of 0 (%s)", j+1, first, out))
		}
		outs = append(outs, out)
	}
	c.Hit("seq:" + strconv.Itoa(n))
	c.Emit(line, strings.Join(outs, " | "), len(script) >= 2)
}

func scannerOp(c *Ctx, line string) {
	w := strings.Fields(line)
	op := strings.TrimPrefix(w[0], "!")
	if op == "seq" {
		scannerSeqOp(c, line)
		return
	}
	stop := -1
	if w[1] != "-" {
		stop, _ = strconv.Atoi(w[1])
	}
	script := make([]scanResp, 0, len(w)-2)
	for _, x := range w[2:] {
		script = append(script, parseScanResp(x))
	}
	var cursors []string
	calls := 0
	sc := rueidis.NewScanner(func(cursor uint64) (rueidis.ScanEntry, error) {
		cursors = append(cursors, strconv.FormatUint(cursor, 10))
		i := calls
		calls++
		if i >= len(script) {
			return rueidis.ScanEntry{}, errors.New("eof")
		}
		if script[i].err != "" {
			return rueidis.ScanEntry{}, errors.New(script[i].err)
		}
		return rueidis.ScanEntry{Cursor: script[i].cursor, Elements: script[i].elems}, nil
	})
	var items []string
	ans := func() (ans string) {
		defer func() {
			if r := recover(); r != nil {
				ans = "panic"
			}
		}()
		idx := 0
		if op == "iter" {
			for v := range sc.Iter() {
				items = append(items, v)
				if idx == stop {
					break
				}
				idx++
			}
		} else {
			for k, v := range sc.Iter2() {
				items = append(items, k+"+"+v)
				if idx == stop {
					break
				}
				idx++
			}
		}
		e := "-"
		if err := sc.Err(); err != nil {
			e = err.Error()
		}
		return fmt.Sprintf("y=%d:%s c=%s err=%s", len(items), strings.Join(items, ","), strings.Join(cursors, ","), e)
	}()
	switch {
	case strings.HasSuffix(ans, "err=-") && stop >= 0 && len(items) == stop+1:
		c.Hit(op + ":stopped-or-exact")
	case strings.HasSuffix(ans, "err=-"):
		c.Hit(op + ":complete")
	case strings.HasSuffix(ans, "err=eof"):
		c.Hit(op + ":script-exhausted")
	default:
		c.Hit(op + ":error")
	}
	c.Emit(line, ans, len(script) >= 2)
}

func runScanner(c *Ctx) {
	emit := func(script []string) {
		total := 0
		for _, r := range script {
			if strings.HasPrefix(r, "p") {
				if _, es, ok := strings.Cut(r, ":"); ok {
					total += len(strings.Split(es, ","))
				}
			}
		}
		body := strings.Join(script, " ")
		for _, op := range []string{"iter", "iter2"} {
			for stop := -1; stop <= total; stop++ {
				s := "-"
				if stop >= 0 {
					s = strconv.Itoa(stop)
				}
				l := strings.TrimSpace(op + " " + s + " " + body)
				scannerOp(c, l)
				scannerOp(c, "!"+l)
			}
		}
	}
	// exhaustive small scripts
	var atoms []string
	for _, cur := range []string{"0", "7"} {
		atoms = append(atoms, "p"+cur, "p"+cur+":61", "p"+cur+":61,62", "p"+cur+":61,62,63")
	}
	atoms = append(atoms, "e:boom")
	var rec func(prefix []string, depth int)
	rec = func(prefix []string, depth int) {
		emit(prefix)
		if depth == 0 {
			return
		}
		for _, a := range atoms {
			rec(append(append([]string{}, prefix...), a), depth-1)
		}
	}
	depth := 2
	if c.Tier == "thorough" {
		depth = 3
	}
	rec(nil, depth)
	// random scripts
	n := 0
	for i := 0; i < c.N; i++ {
		var script []string
		m := 1 + c.Rng.IntN(8)
		for j := 0; j < m; j++ {
			switch r := c.Rng.IntN(12); {
			case r == 0:
				script = append(script, "e:"+[]string{"boom", "timeout", "closed"}[c.Rng.IntN(3)])
			default:
				cur := strconv.Itoa(1 + c.Rng.IntN(1000))
				if r == 1 || (j == m-1 && c.Rng.IntN(3) > 0) {
					cur = "0"
				} else if r == 2 {
					cur = "18446744073709551615"
				}
				k := c.Rng.IntN(8)
				if k == 0 {
					script = append(script, "p"+cur)
					continue
				}
				es := make([]string, k)
				for x := range es {
					n++
					es[x] = hx("k" + strconv.Itoa(n))
					if c.Rng.IntN(15) == 0 {
						es[x] = "" // an empty element
					}
				}
				if k == 1 && es[0] == "" {
					es[0] = hx("z")
				}
				script = append(script, "p"+cur+":"+strings.Join(es, ","))
			}
		}
		emit(script)
	}
	// re-iteration of the same Scanner: scripts with pairwise distinct cursors (cursor-keyed server)
	seqEmit := func(script []string) {
		total, totalPairs := 0, 0
		for _, r := range script {
			if strings.HasPrefix(r, "e:") {
				break
			}
			if _, es, ok := strings.Cut(r, ":"); ok {
				k := len(strings.Split(es, ","))
				total += k
				totalPairs += k / 2
			}
			if strings.HasPrefix(r, "p0:") || r == "p0" {
				break
			}
		}
		body := strings.Join(script, " ")
		st := func(x int) string {
			if x < 0 {
				return "-"
			}
			return strconv.Itoa(x)
		}
		both := func(l string) {
			l = strings.TrimSpace(l)
			scannerOp(c, l)
			scannerOp(c, "!"+l)
		}
		// first iteration: complete, or stopped at every item position; second: complete
		for stop := -1; stop < total; stop++ {
			second := []string{"iter", "iter2"}[c.Rng.IntN(2)]
			both("seq 2 iter " + st(stop) + " " + second + " - " + body)
		}
		for stop := -1; stop < totalPairs; stop++ {
			second := []string{"iter", "iter2"}[c.Rng.IntN(2)]
			both("seq 2 iter2 " + st(stop) + " " + second + " - " + body)
		}
		// three iterations with arbitrary stops
		ops := []string{"iter", "iter2"}
		both(fmt.Sprintf("seq 3 %s %s %s %s %s %s %s", ops[c.Rng.IntN(2)], st(c.Rng.IntN(total+2)-1), ops[c.Rng.IntN(2)], st(c.Rng.IntN(total+2)-1), ops[c.Rng.IntN(2)], st(c.Rng.IntN(total+2)-1), body))
	}
	page := func(cur string, k int) string {
		if k == 0 {
			return "p" + cur
		}
		es := make([]string, k)
		for x := range es {
			n++
			es[x] = hx("s" + strconv.Itoa(n))
		}
		return "p" + cur + ":" + strings.Join(es, ",")
	}
	// small scope: up to 3 pages of 0..3 elements with distinct cursors, ended by cursor 0, an error, or the end of the script
	for m := 1; m <= 3; m++ {
		sizes := make([]int, m)
		var recS func(i int)
		recS = func(i int) {
			if i == m {
				for _, end := range []string{"zero", "err", "eof"} {
					var script []string
					for j, k := range sizes {
						cur := strconv.Itoa(11 * (j + 1))
						if j == m-1 && end == "zero" {
							cur = "0"
						}
						script = append(script, page(cur, k))
					}
					if end == "err" {
						script = append(script, "e:boom", page("0", 2))
					}
					seqEmit(script)
				}
				return
			}
			for k := 0; k <= 3; k++ {
				if m == 3 && c.Tier == "quick" && k == 3 {
					continue
				}
				sizes[i] = k
				recS(i + 1)
			}
		}
		recS(0)
	}
	for i := 0; i < c.N/2; i++ {
		m := 1 + c.Rng.IntN(6)
		perm := c.Rng.Perm(1000)
		var script []string
		for j := 0; j < m; j++ {
			cur := strconv.Itoa(1 + perm[j])
			if j == m-1 && c.Rng.IntN(4) > 0 {
				cur = "0"
			}
			if c.Rng.IntN(10) == 0 {
				script = append(script, "e:"+[]string{"boom", "timeout"}[c.Rng.IntN(2)])
				break
			}
			script = append(script, page(cur, c.Rng.IntN(7)))
		}
		seqEmit(script)
	}
}
