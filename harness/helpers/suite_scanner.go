package main

import (
	"errors"
	"fmt"
	"strconv"
	"strings"

	"github.com/redis/rueidis"
)

func init() {
	suites["scanner"] = suite{
		rule: "scripted next function (i-th call answers the i-th scripted page or error, past the end: error eof; requested cursors are recorded) driven through Scanner.Iter and Scanner.Iter2 with a consumer that breaks at every possible item index (0..total) and one that never breaks; scripts: exhaustive over up to 3 responses from {empty page, 1/2/3-element page, error} x cursor {0, non-zero}, then random scripts up to 8 responses with pages up to 7 elements, empty elements, cursor 2^64-1; each op is emitted as model line and as oracle line; non-trivial = script with at least two responses",
		run:  runScanner,
		replay: func(c *Ctx, lines []string) {
			for _, l := range lines {
				scannerOp(c, l)
			}
		},
	}
}

type scanResp struct {
	cursor uint64
	elems  []string
	err    string
}

func parseScanResp(w string) scanResp {
	if strings.HasPrefix(w, "e:") {
		return scanResp{err: w[2:]}
	}
	body := w[1:]
	cur, es, has := strings.Cut(body, ":")
	c, err := strconv.ParseUint(cur, 10, 64)
	if err != nil {
		panic("bad resp " + w)
	}
	r := scanResp{cursor: c}
	if has {
		// elements travel as opaque words; the real code sees the words themselves
		r.elems = strings.Split(es, ",")
	}
	return r
}

func scannerOp(c *Ctx, line string) {
	w := strings.Fields(line)
	op := strings.TrimPrefix(w[0], "!")
	stop := -1
	if w[1] != "-" {
		stop, _ = strconv.Atoi(w[1])
	}
	script := make([]scanResp, 0, len(w)-2)
	for _, x := range w[2:] {
		script = append(script, parseScanResp(x))
	}
	var cursors []string
	calls := 0
	sc := rueidis.NewScanner(func(cursor uint64) (rueidis.ScanEntry, error) {
		cursors = append(cursors, strconv.FormatUint(cursor, 10))
		i := calls
		calls++
		if i >= len(script) {
			return rueidis.ScanEntry{}, errors.New("eof")
		}
		if script[i].err != "" {
			return rueidis.ScanEntry{}, errors.New(script[i].err)
		}
		return rueidis.ScanEntry{Cursor: script[i].cursor, Elements: script[i].elems}, nil
	})
	var items []string
	ans := func() (ans string) {
		defer func() {
			if r := recover(); r != nil {
				ans = "panic"
			}
		}()
		idx := 0
		if op == "iter" {
			for v := range sc.Iter() {
				items = append(items, v)
				if idx == stop {
					break
				}
				idx++
			}
		} else {
			for k, v := range sc.Iter2() {
				items = append(items, k+"+"+v)
				if idx == stop {
					break
				}
				idx++
			}
		}
		e := "-"
		if err := sc.Err(); err != nil {
			e = err.Error()
		}
		return fmt.Sprintf("y=%d:%s c=%s err=%s", len(items), strings.Join(items, ","), strings.Join(cursors, ","), e)
	}()
	switch {
	case strings.HasSuffix(ans, "err=-") && stop >= 0 && len(items) == stop+1:
		c.Hit(op + ":stopped-or-exact")
	case strings.HasSuffix(ans, "err=-"):
		c.Hit(op + ":complete")
	case strings.HasSuffix(ans, "err=eof"):
		c.Hit(op + ":script-exhausted")
	default:
		c.Hit(op + ":error")
	}
	c.Emit(line, ans, len(script) >= 2)
}

func runScanner(c *Ctx) {
	emit := func(script []string) {
		total := 0
		for _, r := range script {
			if strings.HasPrefix(r, "p") {
				if _, es, ok := strings.Cut(r, ":"); ok {
					total += len(strings.Split(es, ","))
				}
			}
		}
		body := strings.Join(script, " ")
		for _, op := range []string{"iter", "iter2"} {
			for stop := -1; stop <= total; stop++ {
				s := "-"
				if stop >= 0 {
					s = strconv.Itoa(stop)
				}
				l := strings.TrimSpace(op + " " + s + " " + body)
				scannerOp(c, l)
				scannerOp(c, "!"+l)
			}
		}
	}
	// exhaustive small scripts
	var atoms []string
	for _, cur := range []string{"0", "7"} {
		atoms = append(atoms, "p"+cur, "p"+cur+":61", "p"+cur+":61,62", "p"+cur+":61,62,63")
	}
	atoms = append(atoms, "e:boom")
	var rec func(prefix []string, depth int)
	rec = func(prefix []string, depth int) {
		emit(prefix)
		if depth == 0 {
			return
		}
		for _, a := range atoms {
			rec(append(append([]string{}, prefix...), a), depth-1)
		}
	}
	depth := 2
	if c.Tier == "thorough" {
		depth = 3
	}
	rec(nil, depth)
	// random scripts
	n := 0
	for i := 0; i < c.N; i++ {
		var script []string
		m := 1 + c.Rng.IntN(8)
		for j := 0; j < m; j++ {
			switch r := c.Rng.IntN(12); {
			case r == 0:
				script = append(script, "e:"+[]string{"boom", "timeout", "closed"}[c.Rng.IntN(3)])
			default:
				cur := strconv.Itoa(1 + c.Rng.IntN(1000))
				if r == 1 || (j == m-1 && c.Rng.IntN(3) > 0) {
					cur = "0"
				} else if r == 2 {
					cur = "18446744073709551615"
				}
				k := c.Rng.IntN(8)
				if k == 0 {
					script = append(script, "p"+cur)
					continue
				}
				es := make([]string, k)
				for x := range es {
					n++
					es[x] = hx("k" + strconv.Itoa(n))
					if c.Rng.IntN(15) == 0 {
						es[x] = "" // an empty element
					}
				}
				if k == 1 && es[0] == "" {
					es[0] = hx("z")
				}
				script = append(script, "p"+cur+":"+strings.Join(es, ","))
			}
		}
		emit(script)
	}
}
