package main

import (
	"encoding/json"
	"fmt"
	"math"
	"math/rand/v2"
	"strconv"
	"strings"

	"github.com/redis/rueidis"
)

func init() {
	suites["binary"] = suite{
		rule: "bit patterns (never formatted floats): vectors of 0..9 patterns drawn from a boundary set (±0, ±Inf, quiet/signalling NaNs with payloads, smallest/largest denormals and normals, 1.0, all-ones, single bits) and uniform patterns through VectorString32/64 (bytes compared) and back through ToVector32/64 (math.Float32bits compared); arbitrary byte strings of every length 0..17 and random lengths through ToVector32/64 (panic on non-multiples) and BinaryString; JSON(x) against encoding/json.Marshal(x) on generated values (maps, slices, structs with tags, strings with HTML/unicode, []byte, RawMessage, numbers) and panic on unmarshalable ones (NaN, Inf, chan, func); non-trivial = non-empty argument",
		run:  runBinary,
		replay: func(c *Ctx, lines []string) {
			for _, l := range lines {
				binaryOp(c, l)
			}
		},
	}
}

func guard(f func() string) (ans string) {
	defer func() {
		if r := recover(); r != nil {
			ans = "panic"
		}
	}()
	return f()
}

type jsonRec struct {
	A int               `json:"a"`
	B string            `json:"b,omitempty"`
	C []float64         `json:"c"`
	D map[string]any    `json:"d,omitempty"`
	E *jsonRec          `json:"e,omitempty"`
	F json.RawMessage   `json:"f,omitempty"`
	G []byte            `json:"g"`
	H map[int]string    `json:"h,omitempty"`
	I any               `json:"-"`
	J json.Number       `json:"j,omitempty"`
	K map[string]string `json:",omitempty"`
}

func genJSON(r *rand.Rand, depth int) any {
	strs := []string{"", "a", "<b>&amp;</b>", "héllo   \x00 \"q\" \\", "\xff\xfe invalid utf8", "🙂", "line\nbreak\ttab"}
	k := r.IntN(14)
	if depth <= 0 && k >= 8 {
		k = r.IntN(8)
	}
	switch k {
	case 0:
		return nil
	case 1:
		return r.IntN(2) == 0
	case 2:
		return r.Int64() - r.Int64()
	case 3:
		return []float64{0, -0.0, 1.5, 1e21, 1e-7, 123456789.125, math.MaxFloat64, math.SmallestNonzeroFloat64}[r.IntN(8)]
	case 4:
		return strs[r.IntN(len(strs))]
	case 5:
		return float32(r.Float64()*2000 - 1000)
	case 6:
		return []byte(strs[r.IntN(len(strs))])
	case 7:
		return uint64(r.Uint64())
	case 8:
		n := r.IntN(4)
		s := make([]any, n)
		for i := range s {
			s[i] = genJSON(r, depth-1)
		}
		return s
	case 9:
		n := r.IntN(4)
		m := map[string]any{}
		for i := 0; i < n; i++ {
			m[strs[r.IntN(len(strs))]+strconv.Itoa(r.IntN(3))] = genJSON(r, depth-1)
		}
		return m
	case 10:
		rec := jsonRec{A: r.IntN(100) - 50, B: strs[r.IntN(len(strs))], G: []byte{byte(r.IntN(256)), 0, 255}}
		if r.IntN(2) == 0 {
			rec.C = []float64{1, 2.5}
			rec.D = map[string]any{"z": 1, "a": genJSON(r, depth-1)}
			rec.H = map[int]string{10: "x", 2: "y", -1: "z"}
		}
		if r.IntN(3) == 0 {
			rec.E = &jsonRec{A: 7}
			rec.F = json.RawMessage(`{"raw": [1, 2,  3]}`)
			rec.J = json.Number("12.50")
			rec.K = map[string]string{"b": "1", "a": "2"}
		}
		if r.IntN(2) == 0 {
			return &rec
		}
		return rec
	case 11: // unmarshalable values: JSON must panic
		return []any{math.NaN(), math.Inf(1), make(chan int), func() {}, map[bool]int{true: 1}, json.RawMessage(`{bad`), complex(1, 2)}[r.IntN(7)]
	case 12:
		return map[string]any{"nested": []any{genJSON(r, depth-1), map[string]any{"k": genJSON(r, depth-1)}}}
	default:
		return [2]any{genJSON(r, depth-1), strs[r.IntN(len(strs))]}
	}
}

func binaryOp(c *Ctx, line string) {
	w := strings.Fields(line)
	switch w[0] {
	case "vs32", "!rt32":
		v := make([]float32, len(w)-1)
		for i, x := range w[1:] {
			u, err := strconv.ParseUint(x, 10, 32)
			if err != nil {
				panic(err)
			}
			v[i] = math.Float32frombits(uint32(u))
		}
		ans := guard(func() string {
			s := rueidis.VectorString32(v)
			if w[0] == "vs32" {
				return hx(s)
			}
			back := rueidis.ToVector32(s)
			out := make([]string, len(back))
			for i, f := range back {
				out[i] = strconv.FormatUint(uint64(math.Float32bits(f)), 10)
			}
			return fmt.Sprintf("%d:%s", len(back), strings.Join(out, ","))
		})
		c.Hit(w[0])
		c.Emit(line, ans, len(v) > 0)
	case "vs64", "!rt64":
		v := make([]float64, len(w)-1)
		for i, x := range w[1:] {
			u, err := strconv.ParseUint(x, 10, 64)
			if err != nil {
				panic(err)
			}
			v[i] = math.Float64frombits(u)
		}
		ans := guard(func() string {
			s := rueidis.VectorString64(v)
			if w[0] == "vs64" {
				return hx(s)
			}
			back := rueidis.ToVector64(s)
			out := make([]string, len(back))
			for i, f := range back {
				out[i] = strconv.FormatUint(math.Float64bits(f), 10)
			}
			return fmt.Sprintf("%d:%s", len(back), strings.Join(out, ","))
		})
		c.Hit(w[0])
		c.Emit(line, ans, len(v) > 0)
	case "tv32":
		s := unhx(w[1])
		ans := guard(func() string {
			back := rueidis.ToVector32(s)
			out := make([]string, len(back))
			for i, f := range back {
				out[i] = strconv.FormatUint(uint64(math.Float32bits(f)), 10)
			}
			return fmt.Sprintf("%d:%s", len(back), strings.Join(out, ","))
		})
		c.Hit("tv32:" + map[bool]string{true: "panic", false: "ok"}[ans == "panic"])
		c.Emit(line, ans, len(s) > 0)
	case "tv64":
		s := unhx(w[1])
		ans := guard(func() string {
			back := rueidis.ToVector64(s)
			out := make([]string, len(back))
			for i, f := range back {
				out[i] = strconv.FormatUint(math.Float64bits(f), 10)
			}
			return fmt.Sprintf("%d:%s", len(back), strings.Join(out, ","))
		})
		c.Hit("tv64:" + map[bool]string{true: "panic", false: "ok"}[ans == "panic"])
		c.Emit(line, ans, len(s) > 0)
	case "bin", "!bin":
		b := []byte(unhx(w[1]))
		ans := guard(func() string {
			s := rueidis.BinaryString(b)
			if len(s) != len(b) {
				return fmt.Sprintf("len=%d", len(s))
			}
			return hx(s)
		})
		c.Hit("bin")
		c.Emit(line, ans, len(b) > 0)
	case "json", "!json":
		seed, _ := strconv.ParseUint(w[1], 10, 64)
		x := genJSON(rand.New(rand.NewPCG(seed, 45)), 3)
		std, err := json.Marshal(x)
		ans := guard(func() string { return hx(rueidis.JSON(x)) })
		if err != nil {
			c.Hit("json:unmarshalable")
			c.Emit(fmt.Sprintf("json %d err", seed), ans, true)
		} else {
			c.Hit("json:ok")
			c.Emit(fmt.Sprintf("!json %d %s", seed, hx(string(std))), ans, len(std) > 4)
		}
	default:
		panic("bad binary op " + line)
	}
}

func runBinary(c *Ctx) {
	b32 := []uint32{0, 0x80000000, 0x7f800000, 0xff800000, 0x7fc00000, 0xffc00000, 0x7fa00001, 0x7f800001, 0xffffffff, 0x7fffffff,
		0x00000001, 0x007fffff, 0x00800000, 0x7f7fffff, 0x3f800000, 0xbf800000, 0x000000ff, 0x0000ff00, 0x00ff0000, 0xff000000, 0x01020304}
	b64 := []uint64{0, 0x8000000000000000, 0x7ff0000000000000, 0xfff0000000000000, 0x7ff8000000000000, 0xfff8000000000001, 0x7ff4000000000001,
		0x7ff0000000000001, 0xffffffffffffffff, 0x7fffffffffffffff, 1, 0x000fffffffffffff, 0x0010000000000000, 0x7fefffffffffffff,
		0x3ff0000000000000, 0xbff0000000000000, 0x00000000000000ff, 0xff00000000000000, 0x0102030405060708}
	for i := 0; i < 32; i++ {
		b32 = append(b32, 1<<uint(i))
	}
	for i := 0; i < 64; i++ {
		b64 = append(b64, 1<<uint(i))
	}
	// every boundary pattern alone
	for _, u := range b32 {
		s := strconv.FormatUint(uint64(u), 10)
		binaryOp(c, "vs32 "+s)
		binaryOp(c, "!rt32 "+s)
	}
	for _, u := range b64 {
		s := strconv.FormatUint(u, 10)
		binaryOp(c, "vs64 "+s)
		binaryOp(c, "!rt64 "+s)
	}
	binaryOp(c, "vs32")
	binaryOp(c, "!rt32")
	binaryOp(c, "vs64")
	binaryOp(c, "!rt64")
	// every length 0..17 of raw strings
	for n := 0; n <= 17; n++ {
		b := make([]byte, n)
		for i := range b {
			b[i] = byte(c.Rng.IntN(256))
		}
		h := hx(string(b))
		binaryOp(c, "tv32 "+h)
		binaryOp(c, "tv64 "+h)
		binaryOp(c, "bin "+h)
		binaryOp(c, "!bin "+h)
	}
	for i := 0; i < c.N; i++ {
		n := c.Rng.IntN(10)
		v32 := make([]string, n)
		v64 := make([]string, n)
		for j := 0; j < n; j++ {
			if c.Rng.IntN(2) == 0 {
				v32[j] = strconv.FormatUint(uint64(b32[c.Rng.IntN(len(b32))]), 10)
				v64[j] = strconv.FormatUint(b64[c.Rng.IntN(len(b64))], 10)
			} else {
				v32[j] = strconv.FormatUint(uint64(c.Rng.Uint32()), 10)
				v64[j] = strconv.FormatUint(c.Rng.Uint64(), 10)
			}
		}
		a32 := strings.TrimSpace(strings.Join(v32, " "))
		a64 := strings.TrimSpace(strings.Join(v64, " "))
		binaryOp(c, strings.TrimSpace("vs32 "+a32))
		binaryOp(c, strings.TrimSpace("!rt32 "+a32))
		binaryOp(c, strings.TrimSpace("vs64 "+a64))
		binaryOp(c, strings.TrimSpace("!rt64 "+a64))
		m := c.Rng.IntN(40)
		if c.Rng.IntN(2) == 0 {
			m = m / 8 * 8
		}
		b := make([]byte, m)
		for j := range b {
			b[j] = byte(c.Rng.IntN(256))
			if c.Rng.IntN(4) == 0 {
				b[j] = []byte{0, 0xff, 0x7f, 0x80}[c.Rng.IntN(4)]
			}
		}
		h := hx(string(b))
		binaryOp(c, "tv32 "+h)
		binaryOp(c, "tv64 "+h)
		binaryOp(c, "bin "+h)
		binaryOp(c, "!bin "+h)
		binaryOp(c, "!json "+strconv.FormatUint(c.Rng.Uint64(), 10)+" -")
	}
}
