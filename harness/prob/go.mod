module github.com/redis/rueidis/zzverif/prob

go 1.25.0

require (
	github.com/redis/rueidis v1.0.76
	github.com/redis/rueidis/mock v1.0.76
	github.com/redis/rueidis/rueidislimiter v0.0.0
	github.com/redis/rueidis/rueidisprob v0.0.0
	github.com/redis/rueidis/zzverif/luamini v0.0.0
	github.com/twmb/murmur3 v1.1.8
)

require (
	go.uber.org/mock v0.6.0 // indirect
	golang.org/x/sys v0.43.0 // indirect
)

replace github.com/redis/rueidis => /repo

replace github.com/redis/rueidis/mock => /repo/mock

replace github.com/redis/rueidis/rueidisprob => /repo/rueidisprob

replace github.com/redis/rueidis/rueidislimiter => /repo/rueidislimiter

replace github.com/redis/rueidis/zzverif/luamini => /verif/harness/luamini
