package main

// Overlapping operations on ONE filter value. The packages build a command whose argument
// strings may alias a buffer (rueidis.BinaryString); the client reads them later. The property
// "a successfully added item is reported present" must also hold when another call on the same
// value runs in between, so the harness (a) parks a first call inside the fake's Do before the
// arguments are read, lets a second call run to completion, then releases the first ("overlap"
// lines, deterministic and replayable), and (b) runs free-running goroutines with small delays
// before the arguments are read, emitting the calls afterwards in the order the fake executed
// them. In both cases the argv the fake actually consumed is compared with the argv recomputed
// from the call's own items (stable key "<kind>:argv-mutated-after-build") and, through the
// ordinary model line, with the Lean model's argv for THAT call.

import (
	"context"
	"fmt"
	"strings"
	"sync"
	"sync/atomic"
	"time"
)

type ctxTag struct{}

type callTag struct {
	id     int
	park   bool
	delay  time.Duration
	expect []string // script/command arguments this call must hand to the client
}

type gateT struct {
	parked, release chan struct{}
	used            atomic.Bool
}

func tagged(t *callTag) context.Context { return context.WithValue(bg, ctxTag{}, t) }

// idxStrings recomputes the decimal indexes of the items: ((h1 + i*h2) mod 2^64) mod m
func idxStrings(keys []string, m, k uint) []string {
	out := make([]string, 0, len(keys)*int(k))
	for _, key := range keys {
		it := mkItem(key)
		for i := uint64(0); i < uint64(k); i++ {
			out = append(out, fmt.Sprint((it.h1+i*it.h2)%uint64(m)))
		}
	}
	return out
}

func splitSlash(ws []string) (a, b []string) {
	for i, w := range ws {
		if w == "/" {
			return ws[:i], ws[i+1:]
		}
	}
	return ws, nil
}

func tagOf(l logged) *callTag {
	if l.ctx == nil {
		return nil
	}
	t, _ := l.ctx.Value(ctxTag{}).(*callTag)
	return t
}

// checkArgv compares what the fake consumed for every tagged call with the call's expectation.
func checkArgv(c *Ctx, kind, line string, log []logged) {
	for _, l := range log {
		t := tagOf(l)
		if t == nil || t.expect == nil {
			continue
		}
		if strings.Join(l.args, ",") != strings.Join(t.expect, ",") {
			c.Hit("argv-mutated")
			c.Fail(kind+":argv-mutated-after-build", line,
				fmt.Sprintf("%s was executed with arguments [%s] but the call's own items give [%s]", l.name, strings.Join(l.args, ","), strings.Join(t.expect, ",")))
		}
	}
}

func logOf(log []logged, id int) []logged {
	var out []logged
	for _, l := range log {
		if t := tagOf(l); t != nil && t.id == id {
			out = append(out, l)
		}
	}
	return out
}

// runOverlap parks subA (tag id 1) at the gate, runs subB (tag id 2) to completion, releases subA.
func runOverlap(srv *fakeServer, expectA, expectB []string, subA, subB func(ctx context.Context) string) (ansA, ansB string, log []logged) {
	g := &gateT{parked: make(chan struct{}), release: make(chan struct{})}
	srv.gate.Store(g)
	done := make(chan struct{})
	go func() {
		defer close(done)
		ansA = subA(tagged(&callTag{id: 1, park: true, expect: expectA}))
	}()
	select {
	case <-g.parked:
	case <-done: // the call never reached the client (e.g. no keys)
	case <-time.After(5 * time.Second):
	}
	ansB = subB(tagged(&callTag{id: 2, expect: expectB}))
	if g.used.CompareAndSwap(false, true) {
		// nobody parked: make sure a late arrival does not block forever
		close(g.parked)
	}
	close(g.release)
	<-done
	srv.gate.Store(nil)
	return ansA, ansB, srv.takeLog()
}

type concOp struct {
	words []string // an ordinary op line (add … / exists …)
	tag   *callTag
	run   func(ctx context.Context) string
	ans   string
}

// runConc runs the plans of several goroutines against one filter value and returns the ops in
// the order the fake executed them (ops that made no server call come last).
func runConc(srv *fakeServer, plans [][]*concOp) (ordered []*concOp, log []logged) {
	var wg sync.WaitGroup
	byID := map[int]*concOp{}
	for _, p := range plans {
		for _, o := range p {
			byID[o.tag.id] = o
		}
	}
	for _, p := range plans {
		wg.Add(1)
		go func(p []*concOp) {
			defer wg.Done()
			for _, o := range p {
				o.ans = o.run(tagged(o.tag))
			}
		}(p)
	}
	wg.Wait()
	log = srv.takeLog()
	seen := map[int]bool{}
	for _, l := range log {
		if t := tagOf(l); t != nil && !seen[t.id] {
			seen[t.id] = true
			ordered = append(ordered, byID[t.id])
		}
	}
	for _, p := range plans {
		for _, o := range p {
			if !seen[o.tag.id] {
				ordered = append(ordered, o)
			}
		}
	}
	return ordered, log
}
