package main

import (
	"context"
	"fmt"
	"math"
	"strconv"
	"strings"

	"github.com/redis/rueidis/rueidisprob"
)

func init() {
	suites["cbloom"] = suite{
		rule: "C36: (1) NewCountingBloomFilter over an (n, rate) grid: oracle m>=1 and k>=1 on every accepted configuration; (2) script-level episodes on the fake (add/remove with colliding and repeated indexes, removals that must roll back, ragged lists) vs the Lean script model incl. raw HMGET dumps; (3) end-to-end episodes: real Add/AddMulti/Remove/RemoveMulti/Exists/ExistsMulti/ItemMinCount(Multi)/Count/Delete against the fake on small filters (many collisions), server calls and answers vs the Lean glue+script model, raw counter dumps (negative counter = failure), '!exists' / '!mincount' judged by the specification (net multiplicities) and multi-key ExistsMulti/ItemMinCountMulti results judged per position by the harness, while only previously added items were removed; episodes of a second kind also remove never-added items (rollback path); size: filters with 1e8..4e10 counters (9-11 digit hash fields) in the end-to-end episodes (multi-key adds followed by single-key queries/removes), and batches of 1500 keys / 650-key ExistsMulti+ItemMinCountMulti at k=7 in one call; gated overlapping calls on one filter value; non-trivial = distinct op with at least one index/key",
		run:  runCBloom,
		replay: func(c *Ctx, lines []string) {
			ep := &cbfEp{}
			for _, l := range lines {
				ep.op(c, l)
			}
		},
	}
}

type cbfEp struct {
	srv  *fakeServer
	bf   rueidisprob.CountingBloomFilter
	name string
	m, k uint
	net  map[string]int
	ok   bool // only previously added items were removed so far
}

func u64sText(v []uint64) string {
	if len(v) == 0 {
		return "-"
	}
	p := make([]string, len(v))
	for i, x := range v {
		p[i] = fmt.Sprint(x)
	}
	return strings.Join(p, ",")
}

func (e *cbfEp) keysOf(ws []string) []string {
	items := make([]string, 0, len(ws))
	for _, x := range ws {
		items = append(items, parseItemWord(x).key)
	}
	return items
}

func (e *cbfEp) op(c *Ctx, line string) {
	w := strings.Fields(line)
	switch w[0] {
	case "!cfg":
		n, _ := strconv.ParseUint(strings.TrimPrefix(w[len(w)-3], "n="), 10, 64)
		rb, _ := strconv.ParseUint(strings.TrimPrefix(w[len(w)-2], "rate="), 16, 64)
		bf, err := rueidisprob.NewCountingBloomFilter(&fakeClient{srv: newFakeServer(func() int64 { return 1 })}, "bf", uint(n), math.Float64frombits(rb))
		ans := "ok"
		if err != nil {
			ans = "rejected"
		} else {
			m, k, _ := rueidisprob.VerifParams(bf)
			if k == 0 {
				c.Fail("cbloom:k0", line, fmt.Sprintf("NewCountingBloomFilter(n=%d, rate=%v) accepted with 0 hash functions", n, math.Float64frombits(rb)))
			}
			if fmt.Sprint(m) != w[1] || fmt.Sprint(k) != w[2] {
				ans = fmt.Sprintf("cfg-mismatch:%d:%d", m, k)
			}
		}
		c.Emit(line, ans, true)
	case "reset":
		n, _ := strconv.ParseUint(strings.TrimPrefix(w[3], "n="), 10, 64)
		rb, _ := strconv.ParseUint(strings.TrimPrefix(w[4], "rate="), 16, 64)
		e.srv = newFakeServer(func() int64 { return 1 })
		e.name = "bf"
		var err error
		e.bf, err = rueidisprob.NewCountingBloomFilter(&fakeClient{srv: e.srv}, e.name, uint(n), math.Float64frombits(rb))
		ans := "ok"
		if err != nil {
			ans = "rejected"
		} else {
			e.m, e.k, _ = rueidisprob.VerifParams(e.bf)
			if fmt.Sprint(e.m) != w[1] || fmt.Sprint(e.k) != w[2] {
				ans = fmt.Sprintf("cfg-mismatch:%d:%d", e.m, e.k)
			}
		}
		e.net, e.ok = map[string]int{}, true
		c.Emit(line, ans, false)
	case "s.add", "s.remove", "s.delete":
		var r reply
		keys := []string{"{bf}:cbf", "{bf}:cbf:c"}
		e.srv.mu.Lock()
		switch w[0] {
		case "s.add":
			r = e.srv.runScript("cbfadd", keys, w[1:])
		case "s.remove": // s.remove k i1 i2 … (the script takes k last)
			r = e.srv.runScript("cbfremove", keys, append(append([]string{}, w[2:]...), w[1]))
		case "s.delete":
			r = e.srv.runScript("bfdelete", keys, nil)
		}
		e.srv.mu.Unlock()
		c.Hit("script:" + w[0] + ":" + string(r.typ))
		c.Emit(line, r.String(), len(w) > 2)
	case "s.hmget":
		r := e.srv.exec(bg, append([]string{"HMGET", "{bf}:cbf"}, w[1:]...))
		e.srv.takeLog()
		for _, x := range r.arr {
			if x.typ == '$' && strings.HasPrefix(x.s, "-") {
				c.Fail("cbloom:negative-counter", line, "a counter of the filter is negative: "+r.String())
			}
		}
		c.Emit(line, r.String(), true)
	case "s.get":
		r := e.srv.exec(bg, []string{"GET", "{bf}:cbf:c"})
		e.srv.takeLog()
		c.Emit(line, r.String(), false)
	case "add":
		items := e.keysOf(w[1:])
		ans := guard(func() string {
			if len(items) == 1 && c.Rng.IntN(2) == 0 {
				return errClass(e.bf.Add(bg, items[0]))
			}
			return errClass(e.bf.AddMulti(bg, items))
		})
		if ans == "ok" {
			for _, k := range items {
				e.net[k]++
			}
		}
		c.Emit(line, ans+logText(e.srv.takeLog(), e.name), len(items) > 0)
	case "remove":
		items := e.keysOf(w[1:])
		ans := guard(func() string {
			if len(items) == 1 && c.Rng.IntN(2) == 0 {
				return errClass(e.bf.Remove(bg, items[0]))
			}
			return errClass(e.bf.RemoveMulti(bg, items))
		})
		for _, k := range items {
			if e.net[k] > 0 {
				e.net[k]--
			} else {
				e.ok = false
				c.Hit("remove:not-added")
			}
		}
		c.Emit(line, ans+logText(e.srv.takeLog(), e.name), len(items) > 0)
	case "exists":
		items := e.keysOf(w[1:])
		ans := guard(func() string {
			r, err := e.bf.ExistsMulti(bg, items)
			if err != nil {
				return errClass(err)
			}
			if r == nil {
				return "nil"
			}
			for i, k := range items {
				if e.ok && e.net[k] > 0 && (i >= len(r) || !r[i]) {
					c.Fail("cbloom:false-negative", line, fmt.Sprintf("item #%d has net multiplicity %d but is reported absent", i, e.net[k]))
				}
			}
			return boolsText(r)
		})
		c.Emit(line, ans+logText(e.srv.takeLog(), e.name), len(items) > 0)
	case "exists1", "!exists":
		it := parseItemWord(w[1])
		ans := guard(func() string {
			r, err := e.bf.Exists(bg, it.key)
			if err != nil {
				return errClass(err)
			}
			if r {
				return "1"
			}
			return "0"
		})
		lg := logText(e.srv.takeLog(), e.name)
		if w[0] == "!exists" {
			c.Emit(line, ans, true)
		} else {
			c.Emit(line, ans+lg, true)
		}
	case "mincount":
		items := e.keysOf(w[1:])
		ans := guard(func() string {
			var r []uint64
			var err error
			if len(items) == 1 && c.Rng.IntN(2) == 0 {
				var v uint64
				v, err = e.bf.ItemMinCount(bg, items[0])
				r = []uint64{v}
			} else {
				r, err = e.bf.ItemMinCountMulti(bg, items)
			}
			if err != nil {
				return errClass(err)
			}
			if r == nil {
				return "nil"
			}
			for i, k := range items {
				if e.ok && i < len(r) && r[i] < uint64(e.net[k]) {
					c.Fail("cbloom:mincount-below-net", line, fmt.Sprintf("item #%d has net multiplicity %d but ItemMinCount reports %d", i, e.net[k], r[i]))
				}
			}
			return u64sText(r)
		})
		c.Emit(line, ans+logText(e.srv.takeLog(), e.name), len(items) > 0)
	case "!mincount":
		// !mincount <item> <v>: v is what ItemMinCount returned (filled in by the generator; recomputed here)
		it := parseItemWord(w[1])
		v, err := e.bf.ItemMinCount(bg, it.key)
		e.srv.takeLog()
		ans := "1"
		if err != nil || fmt.Sprint(v) != w[2] {
			ans = fmt.Sprintf("stale:%d", v)
		}
		c.Emit(line, ans, true)
	case "count":
		ans := guard(func() string {
			n, err := e.bf.Count(bg)
			if err != nil {
				return errClass(err)
			}
			return fmt.Sprint(n)
		})
		c.Emit(line, ans+logText(e.srv.takeLog(), e.name), false)
	case "gdelete":
		ans := errClass(e.bf.Delete(bg))
		e.net, e.ok = map[string]int{}, true
		c.Emit(line, ans+logText(e.srv.takeLog(), e.name), false)
	case "overlap":
		// overlap <opA…> / <opB…>: opA parked in the client before its arguments are read, opB completes, opA released
		a, b := splitSlash(w[1:])
		expA, runA, keysA := e.sub(a)
		expB, runB, keysB := e.sub(b)
		before := map[string]int{}
		for k, v := range e.net {
			before[k] = v
		}
		okBefore := e.ok
		ansA, ansB, log := runOverlap(e.srv, expA, expB, runA, runB)
		checkArgv(c, "cbloom", line, log)
		// server order: B first, then A
		e.afterSub(c, line, b, keysB, ansB, before, okBefore)
		e.afterSub(c, line, a, keysA, ansA, before, okBefore)
		c.Hit("overlap:" + a[0] + "/" + b[0])
		c.Emit(line, ansA+logText(logOf(log, 1), e.name)+" | "+ansB+logText(logOf(log, 2), e.name), true)
	default:
		c.Emit(line, "bad-op", false)
	}
}

// sub prepares one add/remove/exists/mincount sub-operation for overlapping execution.
func (e *cbfEp) sub(w []string) (expect []string, run func(ctx context.Context) string, keys []string) {
	keys = e.keysOf(w[1:])
	idx := idxStrings(keys, e.m, e.k)
	single := len(keys) == 1 && len(keys[0])%2 == 0
	switch w[0] {
	case "add":
		expect = append([]string{fmt.Sprint(len(keys))}, idx...)
		run = func(ctx context.Context) string {
			return guard(func() string {
				if single {
					return errClass(e.bf.Add(ctx, keys[0]))
				}
				return errClass(e.bf.AddMulti(ctx, keys))
			})
		}
	case "remove":
		expect = append(append([]string{}, idx...), fmt.Sprint(e.k))
		run = func(ctx context.Context) string {
			return guard(func() string {
				if single {
					return errClass(e.bf.Remove(ctx, keys[0]))
				}
				return errClass(e.bf.RemoveMulti(ctx, keys))
			})
		}
	case "mincount":
		expect = idx
		run = func(ctx context.Context) string {
			return guard(func() string {
				r, err := e.bf.ItemMinCountMulti(ctx, keys)
				if err != nil {
					return errClass(err)
				}
				if r == nil {
					return "nil"
				}
				return u64sText(r)
			})
		}
	default: // exists
		expect = idx
		run = func(ctx context.Context) string {
			return guard(func() string {
				r, err := e.bf.ExistsMulti(ctx, keys)
				if err != nil {
					return errClass(err)
				}
				if r == nil {
					return "nil"
				}
				return boolsText(r)
			})
		}
	}
	if len(keys) == 0 {
		expect = nil
	}
	return expect, run, keys
}

func (e *cbfEp) afterSub(c *Ctx, line string, w, keys []string, ans string, before map[string]int, okBefore bool) {
	switch w[0] {
	case "add":
		if ans == "ok" {
			for _, k := range keys {
				e.net[k]++
			}
		}
	case "remove":
		for _, k := range keys {
			if e.net[k] > 0 {
				e.net[k]--
			} else {
				e.ok = false
			}
		}
	case "exists":
		for i, k := range keys {
			// present before the phase and not removed by the other call of this line
			if okBefore && e.ok && before[k] > 0 && e.net[k] > 0 && len(ans) == len(keys) && ans[i] != '1' {
				c.Fail("cbloom:false-negative:overlapping-calls", line, fmt.Sprintf("overlapping Exists reports item #%d (net multiplicity %d) as absent", i, e.net[k]))
			}
		}
	}
}

func runCBloom(c *Ctx) {
	ep := &cbfEp{}
	// (1) constructor sweep
	ns := []uint{1, 2, 3, 5, 10, 100, 1000, 1000000}
	rates := []float64{1e-300, 1e-9, 0.001, 0.1, 0.5, 0.7, 0.7071, 0.7072, 0.72, 0.75, 0.8, 0.9, 0.99, 0.999999, 1 - 1e-16}
	for _, n := range ns {
		for _, r := range rates {
			bf, err := rueidisprob.NewCountingBloomFilter(&fakeClient{srv: newFakeServer(func() int64 { return 1 })}, "bf", n, r)
			if err != nil {
				c.Hit("new:rejected")
				continue
			}
			m, k, _ := rueidisprob.VerifParams(bf)
			c.Hit(fmt.Sprintf("cfg:k=%d", min(k, 3)))
			ep.op(c, fmt.Sprintf("!cfg %d %d n=%d rate=%s name=%s", m, k, n, rateBits(r), hx("bf")))
		}
	}
	nums := func(n, lim int) []string {
		out := make([]string, n)
		for i := range out {
			out[i] = fmt.Sprint(c.Rng.IntN(lim))
		}
		return out
	}
	all := func(m int) string {
		out := make([]string, m)
		for i := range out {
			out[i] = fmt.Sprint(i)
		}
		return strings.Join(out, " ")
	}
	// (2) script-level episodes
	for epi := 0; epi < max(6, c.N/60); epi++ {
		ep.op(c, "reset 2 1 n=1 rate="+rateBits(0.5))
		lim := 2 + c.Rng.IntN(6)
		for j := 0; j < 30; j++ {
			k := 1 + c.Rng.IntN(3)
			groups := c.Rng.IntN(4)
			switch r := c.Rng.IntN(20); {
			case r < 7:
				ep.op(c, strings.TrimSpace(fmt.Sprintf("s.add %d %s", groups, strings.Join(nums(groups*k, lim), " "))))
			case r < 15:
				cnt := groups * k
				if c.Rng.IntN(8) == 0 {
					cnt = c.Rng.IntN(7) // possibly ragged
				}
				if c.Rng.IntN(15) == 0 {
					k = 0
				}
				ep.op(c, strings.TrimSpace(fmt.Sprintf("s.remove %d %s", k, strings.Join(nums(cnt, lim), " "))))
			case r < 18:
				ep.op(c, "s.hmget "+all(lim))
			case r < 19:
				ep.op(c, "s.get")
			default:
				if c.Rng.IntN(4) == 0 {
					ep.op(c, "s.delete")
				}
			}
		}
		ep.op(c, "s.hmget "+all(lim))
	}
	// (3) end-to-end episodes
	cfgs := []struct {
		n uint
		r float64
	}{{11000000, 0.01}, {200000000, 0.01}, {1, 0.9}, {1, 0.5}, {2, 0.9}, {3, 0.3}, {5, 0.1}, {4, 0.01}, {100, 0.9}, {3, 0.001}, {3000000000, 0.001}}
	for epi := 0; epi < max(len(cfgs), c.N/40); epi++ {
		cf := cfgs[epi%len(cfgs)]
		bf, err := rueidisprob.NewCountingBloomFilter(&fakeClient{srv: newFakeServer(func() int64 { return 1 })}, "bf", cf.n, cf.r)
		if err != nil {
			continue
		}
		m, k, _ := rueidisprob.VerifParams(bf)
		ep.op(c, fmt.Sprintf("reset %d %d n=%d rate=%s", m, k, cf.n, rateBits(cf.r)))
		strict := epi%3 != 2 // strict episodes only remove items with positive net multiplicity
		pool := make([]item, 6)
		for i := range pool {
			pool[i] = mkItem(fmt.Sprintf("c%d-%d", epi, i))
		}
		net := map[int]int{}
		for j := 0; j < 36; j++ {
			switch r := c.Rng.IntN(40); {
			case r < 10:
				n := 1 + c.Rng.IntN(3)
				ws := make([]string, n)
				for i := range ws {
					p := c.Rng.IntN(len(pool))
					net[p]++
					ws[i] = pool[p].word()
				}
				ep.op(c, "add "+strings.Join(ws, " "))
			case r < 19:
				n := 1 + c.Rng.IntN(3)
				var ws []string
				for i := 0; i < n; i++ {
					p := c.Rng.IntN(len(pool))
					if strict && net[p] == 0 {
						continue
					}
					if net[p] > 0 {
						net[p]--
					}
					ws = append(ws, pool[p].word())
				}
				ep.op(c, strings.TrimSpace("remove "+strings.Join(ws, " ")))
			case r < 24:
				n := c.Rng.IntN(4)
				ws := make([]string, n)
				for i := range ws {
					ws[i] = pool[c.Rng.IntN(len(pool))].word()
				}
				ep.op(c, strings.TrimSpace("exists "+strings.Join(ws, " ")))
			case r < 27:
				ep.op(c, "exists1 "+pool[c.Rng.IntN(len(pool))].word())
			case r < 31:
				n := c.Rng.IntN(4)
				ws := make([]string, n)
				for i := range ws {
					ws[i] = pool[c.Rng.IntN(len(pool))].word()
				}
				ep.op(c, strings.TrimSpace("mincount "+strings.Join(ws, " ")))
			case r < 35:
				p := c.Rng.IntN(len(pool))
				if ep.ok && ep.net[pool[p].key] > 0 {
					ep.op(c, "!exists "+pool[p].word())
				}
				v, err := ep.bf.ItemMinCount(bg, pool[p].key)
				ep.srv.takeLog()
				if err == nil {
					ep.op(c, fmt.Sprintf("!mincount %s %d", pool[p].word(), v))
				}
			case r < 37:
				ep.op(c, "count")
			case r < 39:
				if m <= 24 {
					ep.op(c, "s.hmget "+all(int(m)))
				}
			default:
				if c.Rng.IntN(6) == 0 {
					ep.op(c, "gdelete")
					net = map[int]int{}
				}
			}
		}
		if m <= 24 {
			ep.op(c, "s.hmget "+all(int(m)))
		}
	}
	// (5) large batches in one call
	for bi, b := range []struct {
		n        uint
		r        float64
		add, ask int
	}{{3000, 0.5, 1500, 200}, {2000, 0.01, 50, 650}, {40000000, 0.01, 300, 120}} {
		bf, err := rueidisprob.NewCountingBloomFilter(&fakeClient{srv: newFakeServer(func() int64 { return 1 })}, "bf", b.n, b.r)
		if err != nil {
			continue
		}
		m, k, _ := rueidisprob.VerifParams(bf)
		ep.op(c, fmt.Sprintf("reset %d %d n=%d rate=%s", m, k, b.n, rateBits(b.r)))
		c.Hit(fmt.Sprintf("big-batch:k=%d:add=%d:ask=%d", k, b.add, b.ask))
		added := make([]item, b.add)
		ws := make([]string, b.add)
		for i := range added {
			added[i] = mkItem(fmt.Sprintf("cbig%d-a%d", bi, i))
			ws[i] = added[i].word()
		}
		ep.op(c, "add "+strings.Join(ws, " "))
		qs := make([]string, b.ask)
		for i := range qs {
			if i >= b.ask/3 && i%2 == 0 {
				qs[i] = added[c.Rng.IntN(len(added))].word()
			} else {
				qs[i] = mkItem(fmt.Sprintf("cbig%d-q%d", bi, i)).word()
			}
		}
		ep.op(c, "exists "+strings.Join(qs, " "))
		ep.op(c, "mincount "+strings.Join(qs[len(qs)/2:], " "))
		rm := make([]string, 0, 40)
		for j := 0; j < 40 && j < b.add; j++ {
			rm = append(rm, added[j].word())
		}
		ep.op(c, "remove "+strings.Join(rm, " "))
		ep.op(c, "count")
		for j := 0; j < 6; j++ {
			it := added[len(added)-1-j*(len(added)/8)]
			if !ep.ok || ep.net[it.key] == 0 {
				continue
			}
			ep.op(c, "!exists "+it.word())
			v, err := ep.bf.ItemMinCount(bg, it.key)
			ep.srv.takeLog()
			if err == nil {
				ep.op(c, fmt.Sprintf("!mincount %s %d", it.word(), v))
			}
		}
	}
	// (4) overlapping calls on one filter value (gated)
	for epi := 0; epi < max(4, c.N/150); epi++ {
		cf := []struct {
			n uint
			r float64
		}{{200, 0.01}, {20, 0.2}}[epi%2]
		bf, err := rueidisprob.NewCountingBloomFilter(&fakeClient{srv: newFakeServer(func() int64 { return 1 })}, "bf", cf.n, cf.r)
		if err != nil {
			continue
		}
		m, k, _ := rueidisprob.VerifParams(bf)
		ep.op(c, fmt.Sprintf("reset %d %d n=%d rate=%s", m, k, cf.n, rateBits(cf.r)))
		pool := make([]item, 16)
		for i := range pool {
			pool[i] = mkItem(fmt.Sprintf("oc%d-%d-%s", epi, i, strings.Repeat("y", i%2)))
		}
		ep.op(c, "add "+pool[0].word()+" "+pool[1].word())
		ep.op(c, "overlap add "+pool[2].word()+" / add "+pool[3].word()+" "+pool[4].word())
		ep.op(c, "overlap add "+pool[5].word()+" "+pool[6].word()+" / exists "+pool[0].word())
		ep.op(c, "overlap exists "+pool[1].word()+" / add "+pool[7].word())
		ep.op(c, "overlap mincount "+pool[2].word()+" / add "+pool[8].word()+" "+pool[9].word())
		ep.op(c, "overlap remove "+pool[0].word()+" / add "+pool[10].word())
		ep.op(c, "overlap add "+pool[11].word()+" / remove "+pool[3].word())
		for i, it := range pool {
			if ep.ok && ep.net[it.key] > 0 {
				ep.op(c, "!exists "+it.word())
				if i%2 == 0 {
					v, err := ep.bf.ItemMinCount(bg, it.key)
					ep.srv.takeLog()
					if err == nil {
						ep.op(c, fmt.Sprintf("!mincount %s %d", it.word(), v))
					}
				}
			}
		}
	}
}
