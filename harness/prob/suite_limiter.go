package main

import (
	"context"
	"errors"
	"fmt"
	"strings"
	"sync"
	"time"

	"github.com/redis/rueidis"
	"github.com/redis/rueidis/rueidislimiter"
)

func init() {
	suites["limiter"] = suite{
		rule: "C38: (1) script-level episodes on the fake: rateLimitScript with arbitrary (inc, next, cur) incl. non-monotone caller clocks, windows -50/0/1/10/1000 ms, server clock skews around the +1000 ms key expiry, huge increments (overflow) vs the faithful Lean script model; (2) sequential end-to-end: real NewRateLimiter/Check/Allow/AllowN with default and custom (limit, window) options, n in {-1,0,1,2,3,limit+1}, millisecond windows with real sleeps across window ends, against the fake; each call = one model line (arguments the glue sent, reply, Go admission rule) + one '!result' oracle line judged from the observed results only (Remaining = max(limit - requested so far in that ResetAtMs window, 0), admitted units <= limit, Check admits iff below the limit, ResetAtMs not before the call was made); (2b) a window is used up, the harness sleeps past its end (inside the 1 s the keys outlive it) and the FIRST call of the new window is a Check, then Allow, then Check; (3) concurrent callers (goroutines) on shared identifiers, emitted in the fake's serialisation order; (4) late delivery: after a window's limit is used up one more call is stamped inside the window and delivered to the fake after the window's end; the harness also sums admitted units per (identifier, ResetAtMs); non-trivial = distinct op",
		run:  runLimiter,
		replay: func(c *Ctx, lines []string) {
			// a replay re-executes script-level lines; end-to-end lines depend on the wall clock and are
			// re-run as fresh calls with the same parameters (their clock fields are re-observed)
			ep := &limEp{}
			for _, l := range lines {
				ep.op(c, l)
			}
		},
	}
}

type ctxKey struct{}

type limEp struct {
	srv    *fakeServer
	srvNow int64 // script-level server clock
	lim    rueidislimiter.RateLimiterClient
	limit  int
	window time.Duration
	adm    map[string]int64 // (id, resetAt) -> admitted units (uniform-limit calls only)
}

func (e *limEp) fresh(c *Ctx, limit int, window time.Duration) {
	c.Emit("reset-e2e", "ok", false)
	e.srv = newFakeServer(func() int64 { return time.Now().UnixMilli() })
	e.limit, e.window = limit, window
	e.adm = map[string]int64{}
	var err error
	e.lim, err = rueidislimiter.NewRateLimiter(rueidislimiter.RateLimiterOption{
		ClientBuilder: func(rueidis.ClientOption) (rueidis.Client, error) { return &fakeClient{srv: e.srv}, nil },
		KeyPrefix:     "rl", Limit: limit, Window: window,
	})
	if err != nil {
		panic(err)
	}
}

type limCall struct {
	id     string
	n      int64
	limit  int
	window time.Duration
	custom bool
	res    rueidislimiter.Result
	err    error
	before int64 // wall clock (ms) read just before the call: a lower bound of the caller's clock reading
}

func (e *limEp) call(ctx context.Context, lc *limCall) {
	var opts []rueidislimiter.RateLimitOption
	if lc.custom {
		opts = append(opts, rueidislimiter.WithCustomRateLimit(lc.limit, lc.window))
	}
	lc.before = time.Now().UnixMilli()
	switch {
	case lc.n == 0 && !lc.custom:
		lc.res, lc.err = e.lim.Check(ctx, lc.id, opts...)
	case lc.n == 1:
		lc.res, lc.err = e.lim.Allow(ctx, lc.id, opts...)
	default:
		lc.res, lc.err = e.lim.AllowN(ctx, lc.id, lc.n, opts...)
	}
}

// emit one finished call: model line + oracle line
func (e *limEp) emit(c *Ctx, lc *limCall, lg *logged) {
	if lg == nil {
		ans := "err:other"
		if errors.Is(lc.err, rueidislimiter.ErrInvalidTokens) {
			ans = "err:tokens"
		}
		c.Hit("allow:" + ans)
		c.Emit(fmt.Sprintf("allow %s %d %d %d 0 0 0", hx(lc.id), lc.n, lc.limit, lc.window.Nanoseconds()), ans, true)
		return
	}
	ans := ""
	switch {
	case len(lg.keys) != 2 || lg.keys[0] != "rl:{"+lc.id+"}" || lg.keys[1] != "rl:{"+lc.id+"}:ex" || lg.name != "ratelimit" || len(lg.args) != 3:
		ans = "bad-call:" + lg.name + ":" + strings.Join(lg.keys, ",")
	case lc.err != nil:
		ans = errClass(lc.err)
	default:
		ans = fmt.Sprintf("%d %d %d", map[bool]int{false: 0, true: 1}[lc.res.Allowed], lc.res.Remaining, lc.res.ResetAtMs)
	}
	if len(lg.args) == 3 && lg.args[0] != fmt.Sprint(lc.n) {
		ans = "bad-inc:" + lg.args[0]
	}
	c.Hit(fmt.Sprintf("allow:n=%d:allowed=%v", min(lc.n, 3), lc.res.Allowed))
	a := append(append([]string{}, lg.args...), "0", "0", "0")
	c.Emit(fmt.Sprintf("allow %s %d %d %d %s %s %d", hx(lc.id), lc.n, lc.limit, lc.window.Nanoseconds(), a[2], a[1], lg.srv), ans, true)
	if lc.err == nil {
		// a window that ended before the call was even made cannot be the window the call was counted in
		if lc.window >= 0 && lc.res.ResetAtMs < lc.before {
			key := "limiter:stale-window"
			if lc.n == 0 {
				key = "limiter:stale-window-reported-by-check"
			}
			c.Hit("stale-window")
			c.Fail(key, "allow "+hx(lc.id), fmt.Sprintf("call made at >= %d (n=%d) reports ResetAtMs=%d, a window that had already ended, with Remaining=%d Allowed=%v", lc.before, lc.n, lc.res.ResetAtMs, lc.res.Remaining, lc.res.Allowed))
		}
		c.Emit(fmt.Sprintf("!result %s %d %d %d %d %d %d", hx(lc.id), lc.n, lc.limit, map[bool]int{false: 0, true: 1}[lc.res.Allowed], lc.res.Remaining, lc.res.ResetAtMs, lc.before), "ok", true)
		if lc.res.Allowed && lc.n > 0 && !lc.custom {
			k := fmt.Sprintf("%s@%d", lc.id, lc.res.ResetAtMs)
			e.adm[k] += lc.n
			if e.adm[k] > int64(lc.limit) {
				c.Fail("limiter:over-admission", "allow "+hx(lc.id), fmt.Sprintf("window ResetAtMs=%d of %q admitted %d units, limit %d", lc.res.ResetAtMs, lc.id, e.adm[k], lc.limit))
			}
		}
	}
}

func (e *limEp) op(c *Ctx, line string) {
	w := strings.Fields(line)
	switch w[0] {
	case "reset":
		e.srv = newFakeServer(func() int64 { return e.srvNow })
		c.Emit(line, "ok", false)
	case "s.rl":
		// s.rl <id> <inc> <next> <cur> <srv>
		fmt.Sscan(w[5], &e.srvNow)
		e.srv.mu.Lock()
		r := e.srv.runScript("ratelimit", []string{"rl:{" + w[1] + "}", "rl:{" + w[1] + "}:ex"}, w[2:5])
		e.srv.mu.Unlock()
		c.Hit("script:rl:" + string(r.typ))
		c.Emit(line, r.String(), true)
	case "allow":
		// replayed end-to-end line: same parameters, fresh clock
		if e.lim == nil {
			e.fresh(c, 5, 20*time.Millisecond)
		}
		var n int64
		var limit int
		var wns int64
		fmt.Sscan(w[2], &n)
		fmt.Sscan(w[3], &limit)
		fmt.Sscan(w[4], &wns)
		lc := &limCall{id: unhx(w[1]), n: n, limit: limit, window: time.Duration(wns), custom: true}
		e.call(bg, lc)
		lg := e.srv.takeLog()
		if len(lg) == 1 {
			e.emit(c, lc, &lg[0])
		} else {
			e.emit(c, lc, nil)
		}
	case "reset-e2e":
		e.fresh(c, 5, 20*time.Millisecond)
	case "!result":
		// emitted together with its `allow` line
	default:
		c.Emit(line, "bad-op", false)
	}
}

func runLimiter(c *Ctx) {
	ep := &limEp{}
	// (1) script level
	for epi := 0; epi < max(8, c.N/40); epi++ {
		ep.op(c, "reset")
		cur := int64(1_700_000_000_000 + c.Rng.IntN(1000000))
		for j := 0; j < 40; j++ {
			switch c.Rng.IntN(6) {
			case 0:
				cur -= int64(c.Rng.IntN(30)) // a caller with a slower clock
			case 1:
			default:
				cur += int64(c.Rng.IntN(40))
			}
			w := []int64{-50, 0, 1, 10, 10, 25, 1000}[c.Rng.IntN(7)]
			skew := []int64{0, 0, 0, -500, 500, 999, 1000, 1001, 1000 + w, 1001 + w, 5000, 1 << 40}[c.Rng.IntN(12)]
			inc := []int64{0, 1, 1, 2, 5, 1000000000, 1<<63 - 1}[c.Rng.IntN(7)]
			id := []string{"a", "b"}[c.Rng.IntN(2)]
			ep.op(c, fmt.Sprintf("s.rl %s %d %d %d %d", id, inc, cur+w, cur, cur+skew))
		}
	}
	// (2) sequential end-to-end
	for epi := 0; epi < max(4, c.N/150); epi++ {
		limit := 1 + c.Rng.IntN(6)
		window := []time.Duration{3 * time.Millisecond, 8 * time.Millisecond, 20 * time.Millisecond, time.Second}[c.Rng.IntN(4)]
		ep.fresh(c, limit, window)
		if got := ep.lim.Limit(); got != limit {
			c.Fail("limiter:limit-accessor", "Limit()", fmt.Sprint(got))
		}
		for j := 0; j < 50; j++ {
			lc := &limCall{id: []string{"u1", "u2", "{x}"}[c.Rng.IntN(3)], limit: limit, window: window}
			lc.n = []int64{0, 1, 1, 1, 2, 3, int64(limit) + 1, -1}[c.Rng.IntN(8)]
			if c.Rng.IntN(6) == 0 { // custom option, same identifier: other limit and/or window (>= 0)
				lc.custom = true
				lc.limit = 1 + c.Rng.IntN(8)
				lc.window = []time.Duration{0, 1, time.Millisecond, 5 * time.Millisecond, window}[c.Rng.IntN(5)]
			}
			ep.call(bg, lc)
			lg := ep.srv.takeLog()
			if len(lg) == 1 {
				ep.emit(c, lc, &lg[0])
			} else {
				ep.emit(c, lc, nil)
			}
			if c.Rng.IntN(5) == 0 {
				time.Sleep(time.Duration(1+c.Rng.IntN(3)) * time.Millisecond)
			}
		}
	}
	// (2b) a Check as the FIRST call after a window with traffic ended, inside the 1 s the keys outlive it
	for epi := 0; epi < 4; epi++ {
		limit := 2 + c.Rng.IntN(3)
		window := []time.Duration{4 * time.Millisecond, 10 * time.Millisecond, 25 * time.Millisecond, 6 * time.Millisecond}[epi]
		ep.fresh(c, limit, window)
		one := func(id string, n int64) {
			lc := &limCall{id: id, n: n, limit: limit, window: window}
			ep.call(bg, lc)
			lg := ep.srv.takeLog()
			if len(lg) == 1 {
				ep.emit(c, lc, &lg[0])
			} else {
				ep.emit(c, lc, nil)
			}
		}
		for round := 0; round < 3; round++ {
			id := fmt.Sprintf("late%d", round%2)
			for j := 0; j < limit+1; j++ { // use the window up
				one(id, 1)
			}
			time.Sleep(window + time.Duration(2+c.Rng.IntN(4))*time.Millisecond)
			one(id, 0) // new window, nothing requested yet: Remaining = limit, Allowed
			one(id, 1)
			one(id, 0)
			c.Hit("check-first-after-window-end")
		}
	}
	// (3) concurrent callers
	for epi := 0; epi < max(3, c.N/200); epi++ {
		limit := 2 + c.Rng.IntN(8)
		ep.fresh(c, limit, time.Duration(5+c.Rng.IntN(20))*time.Millisecond)
		G, per := 6, 8
		calls := make([]*limCall, G*per)
		for i := range calls {
			calls[i] = &limCall{id: []string{"hot", "hot", "cold"}[c.Rng.IntN(3)], limit: limit, window: ep.window,
				n: []int64{0, 1, 1, 2, 3}[c.Rng.IntN(5)]}
		}
		var wg sync.WaitGroup
		for g := 0; g < G; g++ {
			wg.Add(1)
			go func(g int) {
				defer wg.Done()
				for i := 0; i < per; i++ {
					idx := g*per + i
					ep.call(context.WithValue(bg, ctxKey{}, idx), calls[idx])
					if i%3 == 2 {
						time.Sleep(time.Millisecond)
					}
				}
			}(g)
		}
		wg.Wait()
		c.Hit("concurrent-batches")
		for _, lg := range ep.srv.takeLog() {
			lg := lg
			idx, _ := lg.ctx.Value(ctxKey{}).(int)
			ep.emit(c, calls[idx], &lg)
		}
	}
	// (4) late delivery: the limit of a window is used up, then one more call is stamped by the client inside the
	// window but reaches the server only after the window's end (latency); it belongs to the exhausted window
	for epi := 0; epi < max(3, c.N/300); epi++ {
		limit := 1 + c.Rng.IntN(4)
		window := time.Duration(15+c.Rng.IntN(15)) * time.Millisecond
		ep.fresh(c, limit, window)
		one := func(ctx context.Context, n int64) *limCall {
			lc := &limCall{id: "late", n: n, limit: limit, window: window}
			ep.call(ctx, lc)
			lg := ep.srv.takeLog()
			if len(lg) == 1 {
				ep.emit(c, lc, &lg[0])
			} else {
				ep.emit(c, lc, nil)
			}
			return lc
		}
		var last *limCall
		for i := 0; i < limit; i++ {
			last = one(bg, 1)
		}
		if last.err != nil {
			continue
		}
		wait := time.Until(time.UnixMilli(last.res.ResetAtMs)) + time.Duration(1+c.Rng.IntN(3))*time.Millisecond
		if wait <= 2*time.Millisecond {
			c.Hit("late-delivery:too-slow")
			continue // the machine stalled: the window is over already
		}
		c.Hit("late-delivery")
		one(tagged(&callTag{delay: wait}), []int64{1, 1, 2, 0}[c.Rng.IntN(4)])
	}
	// excluded point: negative custom window (not validated by WithCustomRateLimit). Observation only.
	ep.fresh(c, 2, 50*time.Millisecond)
	seen := map[int64]int64{}
	for i := 0; i < 6; i++ {
		lc := &limCall{id: "neg", n: 1, limit: 2, window: -40 * time.Millisecond, custom: true}
		ep.call(bg, lc)
		ep.srv.takeLog()
		if lc.err == nil && lc.res.Allowed {
			seen[lc.res.ResetAtMs] += 1
		}
		time.Sleep(time.Millisecond)
	}
	total := int64(0)
	for _, v := range seen {
		total += v
	}
	c.Hit(fmt.Sprintf("observation:negative-window:admitted=%d-of-6-limit=2-windows=%d", total, len(seen)))
}
