package main

// A script whose text is NOT one of the pinned texts (somebody edited it in the repository) is
// executed by the mini Lua interpreter harness/luamini against the same in-memory store the Go
// transcriptions in fake.go work on; its redis.call()s are served by scriptCall below from the same
// keyspace primitives. Known scripts never take this path.
//
// The interpreter (and scriptCall) are trusted for that purpose only after luaminiSelfCheck: at the
// start of every suite each KNOWN script is run through BOTH its Go transcription (validated against
// the Lean script model by the `s.*` lines) and luamini on a few hundred random states / argument
// lists, and any difference in the reply or in the resulting keyspace fails the run.

import (
	"fmt"
	"math/rand/v2"
	"sort"
	"strconv"
	"strings"
	"sync"
	"sync/atomic"

	"github.com/redis/rueidis/zzverif/luamini"
)

var (
	scriptTexts     sync.Map // sha1 hex -> script text, as seen in EVAL / SCRIPT LOAD
	luaPrograms     sync.Map // sha1 hex -> *luamini.Program or error
	luaUnknownRuns  atomic.Int64
	luaUnknownAs    sync.Map // label -> *atomic.Int64
	luaRefusals     atomic.Int64
	luaSelfCheckRun = map[string]int{}
)

const errExpire = "ERR invalid expire time in 'set' command"
const errNotInt = "ERR value is not an integer or out of range"

func fromLua(r luamini.Reply) reply {
	switch r.Kind {
	case ':':
		return rInt(r.Int)
	case '$':
		return rStr(r.Str)
	case '+':
		return reply{typ: '+', s: r.Str}
	case '-':
		return rErr(r.Str)
	case '*':
		out := make([]reply, len(r.Arr))
		for i, e := range r.Arr {
			out[i] = fromLua(e)
		}
		return rArr(out...)
	}
	return rNil()
}

// scriptCall serves one redis.call of an interpreted script (caller holds mu; now = frozen script time).
// Only the forms of the commands the keyspace model can represent are accepted; anything else is an
// error reply the script sees (and normally propagates), never a silent approximation.
func (f *fakeServer) scriptCall(now int64, a []string) luamini.Reply {
	wrong := luamini.Error(errWrong)
	argc := func(n int) bool { return len(a) == n }
	op := strings.ToUpper(a[0])
	switch op {
	case "BITFIELD", "BITFIELD_RO":
		if len(a) >= 5 && strings.ToUpper(a[2]) == "GET" && strings.ToLower(a[3]) == "u1" && argc(5) {
			b, ok := f.bitGet(a[1], a[4], now)
			if !ok {
				return wrong
			}
			return luamini.Array(luamini.Int(b))
		}
		if op == "BITFIELD" && argc(6) && strings.ToUpper(a[2]) == "SET" && strings.ToLower(a[3]) == "u1" && a[5] == "1" {
			b, ok := f.bitSet(a[1], a[4], now)
			if !ok {
				return wrong
			}
			return luamini.Array(luamini.Int(b))
		}
		return luamini.Error("ERR luamini fake: unsupported form of " + op + " (only GET u1 <off> and SET u1 <off> 1)")
	case "INCRBY", "DECRBY", "INCR", "DECR":
		d := int64(1)
		if op == "INCRBY" || op == "DECRBY" {
			if !argc(3) {
				return luamini.Error("ERR wrong number of arguments for '" + strings.ToLower(op) + "' command")
			}
			var ok bool
			if d, ok = parseI(a[2]); !ok {
				return luamini.Error(errNotInt)
			}
		} else if !argc(2) {
			return luamini.Error("ERR wrong number of arguments for '" + strings.ToLower(op) + "' command")
		}
		if strings.HasPrefix(op, "DECR") {
			if d == -1<<63 {
				return luamini.Error("ERR decrement would overflow")
			}
			d = -d
		}
		n, ok := f.incrBy(a[1], d, now)
		if !ok {
			return luamini.Error("ERR increment or decrement would overflow")
		}
		return luamini.Int(n)
	case "HINCRBY":
		if !argc(4) {
			return luamini.Error("ERR wrong number of arguments for 'hincrby' command")
		}
		d, ok := parseI(a[3])
		if !ok {
			return luamini.Error(errNotInt)
		}
		n, ok := f.hincrBy(a[1], a[2], d, now)
		if !ok {
			return wrong
		}
		return luamini.Int(n)
	case "HGET", "HMGET":
		if (op == "HGET" && !argc(3)) || len(a) < 3 {
			return luamini.Error("ERR wrong number of arguments for '" + strings.ToLower(op) + "' command")
		}
		v := f.look(a[1], now)
		if v != nil && v.kind != 'h' {
			return wrong
		}
		out := []luamini.Reply{}
		for _, fld := range a[2:] {
			if v != nil {
				if c, ok := v.h[fld]; ok {
					out = append(out, luamini.Bulk(strconv.FormatInt(c, 10)))
					continue
				}
			}
			out = append(out, luamini.Nil())
		}
		if op == "HGET" {
			return out[0]
		}
		return luamini.Array(out...)
	case "SET":
		// SET key value [NX] [PX ms | PXAT at]
		if len(a) < 3 {
			return luamini.Error("ERR wrong number of arguments for 'set' command")
		}
		nx, exp := false, int64(0)
		for i := 3; i < len(a); i++ {
			switch o := strings.ToUpper(a[i]); o {
			case "NX":
				nx = true
			case "PX", "PXAT":
				if i+1 >= len(a) || exp != 0 {
					return luamini.Error("ERR syntax error")
				}
				t, ok := parseI(a[i+1])
				if !ok {
					return luamini.Error(errNotInt)
				}
				if t <= 0 {
					return luamini.Error(errExpire)
				}
				exp = t
				if o == "PX" {
					exp = now + t
				}
				i++
			default:
				return luamini.Error("ERR luamini fake: unsupported SET option " + a[i])
			}
		}
		if nx && f.look(a[1], now) != nil {
			return luamini.Nil()
		}
		f.set(a[1], a[2], exp)
		return luamini.Status("OK")
	case "MSET":
		if len(a) < 3 || len(a)%2 != 1 {
			return luamini.Error("ERR wrong number of arguments for 'mset' command")
		}
		for i := 1; i+1 < len(a); i += 2 {
			f.set(a[i], a[i+1], 0)
		}
		return luamini.Status("OK")
	case "GET":
		if !argc(2) {
			return luamini.Error("ERR wrong number of arguments for 'get' command")
		}
		v := f.look(a[1], now)
		switch {
		case v == nil:
			return luamini.Nil()
		case v.kind == 'h':
			return luamini.Error("WRONGTYPE Operation against a key holding the wrong kind of value")
		case v.kind == 'b' && len(v.bits) > 0:
			return luamini.Error("ERR luamini fake: GET of a non-empty bitmap is not modelled")
		}
		return luamini.Bulk(v.s)
	case "DEL", "EXISTS":
		n := int64(0)
		for _, k := range a[1:] {
			if f.look(k, now) != nil {
				n++
				if op == "DEL" {
					delete(f.keys, k)
				}
			}
		}
		return luamini.Int(n)
	case "RENAME":
		if !argc(3) {
			return luamini.Error("ERR wrong number of arguments for 'rename' command")
		}
		if !f.rename(a[1], a[2], now) {
			return luamini.Error("ERR no such key")
		}
		return luamini.Status("OK")
	case "TIME":
		return luamini.Array(luamini.Bulk(strconv.FormatInt(now/1000, 10)), luamini.Bulk(strconv.FormatInt(now%1000*1000, 10)))
	case "PEXPIREAT", "PEXPIRE":
		if !argc(3) {
			return luamini.Error("ERR wrong number of arguments for '" + strings.ToLower(op) + "' command")
		}
		t, ok := parseI(a[2])
		if !ok {
			return luamini.Error(errNotInt)
		}
		v := f.look(a[1], now)
		if v == nil {
			return luamini.Int(0)
		}
		if op == "PEXPIRE" {
			t += now
		}
		if t <= now {
			delete(f.keys, a[1])
		} else {
			v.exp = t
		}
		return luamini.Int(1)
	case "PTTL":
		if !argc(2) {
			return luamini.Error("ERR wrong number of arguments for 'pttl' command")
		}
		v := f.look(a[1], now)
		switch {
		case v == nil:
			return luamini.Int(-2)
		case v.exp == 0:
			return luamini.Int(-1)
		}
		return luamini.Int(v.exp - now)
	}
	return luamini.Error("ERR luamini fake: command " + a[0] + " is not available to interpreted scripts")
}

// runLua executes a script text through luamini on this server's keyspace (caller holds mu).
func (f *fakeServer) runLua(sha, text string, keys, args []string) reply {
	var prog *luamini.Program
	if p, ok := luaPrograms.Load(sha); ok {
		if e, bad := p.(error); bad {
			return rErr("ERR " + e.Error())
		}
		prog = p.(*luamini.Program)
	} else {
		p, err := luamini.Compile(text)
		if err != nil {
			luaPrograms.Store(sha, err)
			luaRefusals.Add(1)
			return rErr("ERR " + err.Error())
		}
		luaPrograms.Store(sha, p)
		prog = p
	}
	now := f.clock()
	r, st := prog.Run(keys, args, func(a []string) luamini.Reply { return f.scriptCall(now, a) }, nil)
	if st.Unsupported {
		luaRefusals.Add(1)
	}
	return fromLua(r)
}

// ---- labelling a script of unknown text with the known script it is an edit of

func luaTokens(s string) map[string]int {
	out := map[string]int{}
	i := 0
	for i < len(s) {
		c := s[i]
		switch {
		case c == ' ' || c == '\t' || c == '\n' || c == '\r':
			i++
		case c == '_' || (c >= '0' && c <= '9') || (c >= 'a' && c <= 'z') || (c >= 'A' && c <= 'Z'):
			j := i
			for j < len(s) && (s[j] == '_' || (s[j] >= '0' && s[j] <= '9') || (s[j] >= 'a' && s[j] <= 'z') || (s[j] >= 'A' && s[j] <= 'Z')) {
				j++
			}
			out[s[i:j]]++
			i = j
		default:
			out[string(c)]++
			i++
		}
	}
	return out
}

// labelOf: the transcription name of the pinned script whose token multiset is closest (Dice
// coefficient) to the text, or "lua:<sha8>" when nothing is close. Only a label for the fake's log
// (so that the suites' oracles keep recognising the call); it never selects how the script runs.
func labelOf(sha, text string) string {
	tk := luaTokens(text)
	nt := 0
	for _, n := range tk {
		nt += n
	}
	best, bestScore := "", 0.0
	for _, p := range pinnedScripts {
		pk := luaTokens(p.text)
		np, common := 0, 0
		for w, n := range pk {
			np += n
			common += min(n, tk[w])
		}
		if np+nt == 0 {
			continue
		}
		if sc := 2 * float64(common) / float64(np+nt); sc > bestScore {
			best, bestScore = scriptBySha[p.sha], sc
		}
	}
	if bestScore < 0.6 {
		return "lua:" + sha[:8]
	}
	return best
}

func luaminiHits(c *Ctx) {
	if n := luaUnknownRuns.Load(); n > 0 {
		c.Dist["luamini:executed-unknown-script"] += int(n)
	}
	luaUnknownAs.Range(func(k, v any) bool {
		c.Dist["luamini:executed-unknown-script:as:"+k.(string)] += int(v.(*atomic.Int64).Load())
		return true
	})
	if n := luaRefusals.Load(); n > 0 {
		c.Dist["luamini:refused-unsupported"] += int(n)
	}
	for k, v := range luaSelfCheckRun {
		c.Dist[k] += v
	}
}

// ---- differential validation of luamini against the Go transcriptions

// canonical text of a keyspace at time now (lazily expired keys are not there)
func (f *fakeServer) dump(now int64) string {
	ks := make([]string, 0, len(f.keys))
	for k, v := range f.keys {
		if v.exp != 0 && now > v.exp {
			continue
		}
		ks = append(ks, k)
	}
	sort.Strings(ks)
	var b strings.Builder
	for _, k := range ks {
		v := f.keys[k]
		fmt.Fprintf(&b, "%s=%c", k, v.kind)
		switch v.kind {
		case 's':
			b.WriteString(strconv.Quote(v.s))
		case 'b':
			bits := make([]uint64, 0, len(v.bits))
			for o, on := range v.bits {
				if on {
					bits = append(bits, o)
				}
			}
			sort.Slice(bits, func(i, j int) bool { return bits[i] < bits[j] })
			fmt.Fprint(&b, bits)
		case 'h':
			fs := make([]string, 0, len(v.h))
			for fld, n := range v.h {
				fs = append(fs, fmt.Sprintf("%q:%d", fld, n))
			}
			sort.Strings(fs)
			b.WriteString("{" + strings.Join(fs, ",") + "}")
		}
		fmt.Fprintf(&b, "@%d ", v.exp)
	}
	return b.String()
}

type diffCase struct {
	setup      func(f *fakeServer) // populates a fresh server (called twice, must be deterministic)
	now        int64
	keys, args []string
	desc       string
}

// genDiffCase draws a random state and argument list for one known script, inside the domain on
// which its transcription is a faithful rendering of the Lua text (canonical decimal numerals, the
// key counts the packages use), including the error paths both sides must take at the same point
// (bad offsets, keys of the wrong type, missing keys of a RENAME, counter overflow, invalid expiry).
func genDiffCase(r *rand.Rand, name string) diffCase {
	type kv struct {
		key  string
		kind byte
		s    string
		bits []uint64
		h    map[string]int64
		exp  int64
	}
	var st []kv
	now := []int64{1, 999, 1000, 1_700_000_000_000 + r.Int64N(1_000_000), 1_700_000_000_999}[r.IntN(5)]
	m := uint64(1 + r.IntN(24))
	expiry := func() int64 { // mostly none; sometimes in the future, at now (still alive), in the past
		switch r.IntN(8) {
		case 0:
			return now + 1 + r.Int64N(2000)
		case 1:
			return now
		case 2:
			return max(1, now-1-r.Int64N(5))
		}
		return 0
	}
	bitmap := func(key string) {
		switch x := r.IntN(40); {
		case x == 0: // absent
		case x == 1:
			st = append(st, kv{key: key, kind: 's', s: "7"})
		case x == 2:
			st = append(st, kv{key: key, kind: 'h', h: map[string]int64{"1": 1}})
		default:
			var bits []uint64
			for i := r.IntN(int(m) + 1); i > 0; i-- {
				bits = append(bits, r.Uint64N(m))
			}
			st = append(st, kv{key: key, kind: 'b', bits: bits, exp: expiry()})
		}
	}
	counter := func(key string) {
		switch x := r.IntN(40); {
		case x == 0:
		case x == 1:
			st = append(st, kv{key: key, kind: 'h', h: map[string]int64{"x": 2}})
		case x == 2:
			st = append(st, kv{key: key, kind: 's', s: "abc"})
		case x == 3:
			st = append(st, kv{key: key, kind: 's', s: "4503599627370496"}) // 2^52: replies stay exact as doubles
		default:
			st = append(st, kv{key: key, kind: 's', s: fmt.Sprint(r.IntN(50)), exp: expiry()})
		}
	}
	index := func() string {
		switch r.IntN(60) {
		case 0:
			return "x"
		case 1:
			return "4294967296"
		case 2:
			return "-1"
		case 3:
			return "4294967295"
		}
		return fmt.Sprint(r.Uint64N(m))
	}
	indexes := func(k int) []string {
		n := k * r.IntN(5)
		if r.IntN(6) == 0 {
			n = r.IntN(9) // ragged
		}
		out := make([]string, n)
		for i := range out {
			out[i] = index()
		}
		return out
	}
	d := diffCase{now: now}
	switch name {
	case "bfadd", "bfexists", "bfexistsro":
		d.keys = []string{"{bf}:f", "{bf}:c"}
		bitmap(d.keys[0])
		counter(d.keys[1])
		k := r.IntN(5)
		d.args = append([]string{fmt.Sprint(k)}, indexes(k)...)
	case "bfreset", "bfdelete":
		d.keys = []string{"{bf}:f", "{bf}:c"}
		bitmap(d.keys[0])
		counter(d.keys[1])
	case "cbfadd", "cbfremove":
		d.keys = []string{"{bf}:cbf", "{bf}:cbf:c"}
		switch x := r.IntN(20); {
		case x == 0:
		case x == 1:
			st = append(st, kv{key: d.keys[0], kind: 's', s: "7"})
		default:
			h := map[string]int64{}
			for i := r.IntN(int(m) + 1); i > 0; i-- {
				h[fmt.Sprint(r.Uint64N(m))] = int64(r.IntN(4))
			}
			st = append(st, kv{key: d.keys[0], kind: 'h', h: h, exp: expiry()})
		}
		counter(d.keys[1])
		if name == "cbfadd" {
			n := r.IntN(8)
			idx := make([]string, n)
			for i := range idx {
				idx[i] = fmt.Sprint(r.Uint64N(m))
			}
			d.args = append([]string{fmt.Sprint(r.IntN(7) - 1)}, idx...)
		} else {
			k := 1 + r.IntN(3)
			n := k * r.IntN(5)
			idx := make([]string, n)
			for i := range idx {
				idx[i] = fmt.Sprint(r.Uint64N(m))
			}
			d.args = append(idx, fmt.Sprint(k))
		}
	case "sbfinit", "sbfadd", "sbfexists", "sbfexistsro", "sbfreset":
		d.keys = []string{"{bf}:sbf", "{bf}:sbf:n", "{bf}:sbf:c", "{bf}:sbf:nc", "{bf}:sbf:lr"}
		if name == "sbfinit" && r.IntN(3) == 0 {
			// nothing exists
		} else {
			bitmap(d.keys[0])
			bitmap(d.keys[1])
			counter(d.keys[2])
			counter(d.keys[3])
			if r.IntN(2) == 0 {
				st = append(st, kv{key: d.keys[4], kind: 's', s: fmt.Sprint(now - 3), exp: []int64{0, now + 50, now, max(1, now-1)}[r.IntN(4)]})
			}
		}
		half := fmt.Sprint([]int64{-5, 0, 1, 1, 30, 500, 500, 60000}[r.IntN(8)])
		switch name {
		case "sbfinit":
			d.args = []string{half}
		case "sbfreset":
			d.keys = d.keys[:4]
		default:
			k := r.IntN(5)
			d.args = append([]string{fmt.Sprint(k), half}, indexes(k)...)
		}
	case "ratelimit":
		d.keys = []string{"rl:{a}", "rl:{a}:ex"}
		cur := now + r.Int64N(41) - 20
		atMax := false
		switch x := r.IntN(12); {
		case x == 0:
		case x == 1:
			// overflow of INCRBY; only with a positive increment (a reply above 2^53 is not exact as a double)
			atMax = true
			st = append(st, kv{key: d.keys[0], kind: 's', s: "9223372036854775807", exp: expiry()})
		case x == 2:
			st = append(st, kv{key: d.keys[0], kind: 'h', h: map[string]int64{"x": 2}})
		default:
			st = append(st, kv{key: d.keys[0], kind: 's', s: fmt.Sprint(r.IntN(9)), exp: expiry()})
		}
		switch x := r.IntN(12); {
		case x == 0:
		case x == 1:
			st = append(st, kv{key: d.keys[1], kind: 's', s: "abc"})
		case x == 2:
			st = append(st, kv{key: d.keys[1], kind: 'b'})
		default:
			st = append(st, kv{key: d.keys[1], kind: 's', s: fmt.Sprint(cur + r.Int64N(61) - 30), exp: expiry()})
		}
		next := cur + []int64{-50, 0, 1, 10, 25, 1000}[r.IntN(6)]
		if r.IntN(25) == 0 {
			next = []int64{-1000, -5000, -999}[r.IntN(3)]
		}
		inc := []int64{0, 1, 1, 2, 5, -1, 1000000000, 1 << 52}[r.IntN(8)]
		if atMax && inc <= 0 {
			inc = 1
		}
		d.args = []string{fmt.Sprint(inc), fmt.Sprint(next), fmt.Sprint(cur)}
	default:
		panic("genDiffCase: no generator for " + name)
	}
	d.setup = func(f *fakeServer) {
		for _, e := range st {
			v := &fval{kind: e.kind, s: e.s, exp: e.exp}
			switch e.kind {
			case 'b':
				v.bits = map[uint64]bool{}
				for _, o := range e.bits {
					v.bits[o] = true
				}
			case 'h':
				v.h = map[string]int64{}
				for k, n := range e.h {
					v.h[k] = n
				}
			}
			f.keys[e.key] = v
		}
	}
	f := newFakeServer(func() int64 { return now })
	d.setup(f)
	d.desc = fmt.Sprintf("now=%d state=[%s] KEYS=%v ARGV=%v", now, strings.TrimSpace(f.dump(0)), d.keys, d.args)
	return d
}

// luaminiSelfCheck: every known script, transcription vs luamini, on random cases. Its own PRNG
// stream (derived from the seed) so that the suites' generators are not disturbed.
func luaminiSelfCheck(c *Ctx, seed uint64) {
	r := rand.New(rand.NewPCG(seed, 0x6c75616d696e69))
	per := 300
	if c.Tier == "thorough" {
		per = 1500
	}
	done := map[string]bool{}
	for _, p := range pinnedScripts {
		name := scriptBySha[p.sha]
		if done[name] {
			continue // two holders with the same text
		}
		done[name] = true
		prog, err := luamini.Compile(p.text)
		if err != nil {
			c.Fail("luamini:disagrees-with-transcription:"+name, "selfcheck "+name, "the pinned text does not compile: "+err.Error())
			continue
		}
		bad := 0
		for i := 0; i < per && bad < 3; i++ {
			d := genDiffCase(r, name)
			a := newFakeServer(func() int64 { return d.now })
			b := newFakeServer(func() int64 { return d.now })
			d.setup(a)
			d.setup(b)
			ra := a.runScript(name, d.keys, d.args)
			lr, st := prog.Run(d.keys, d.args, func(x []string) luamini.Reply { return b.scriptCall(d.now, x) }, nil)
			rb := fromLua(lr)
			da, db := a.dump(d.now), b.dump(d.now)
			luaSelfCheckRun["luamini:selfcheck:"+name+":"+string(ra.typ)]++
			if st.Unsupported || ra.String() != rb.String() || da != db {
				bad++
				c.Hit("luamini:selfcheck:DISAGREE")
				c.Fail("luamini:disagrees-with-transcription:"+name, "selfcheck "+name+" "+d.desc,
					fmt.Sprintf("transcription answers %s leaving [%s]; luamini answers %s (%s) leaving [%s]", ra.String(), da, rb.String(), lr.String(), db))
			}
		}
	}
	luaSelfCheckRun["luamini:selfcheck:scripts"] += len(done)
}
