package main

import (
	"context"
	"errors"
	"fmt"
	"math"
	"strconv"
	"strings"
	"time"

	"github.com/redis/rueidis/rueidisprob"
	"github.com/twmb/murmur3"
)

func init() {
	suites["bloom"] = suite{
		rule: "C35: (1) index(h1,h2,i,m) on boundary/random uint64 values vs model and vs the statement's formula; (2) NewBloomFilter over an (n, rate) grid incl. rates around 0.7071 and the extremes: accept/reject vs model, oracle m>=1 and k>=1 on every accepted configuration, one add+exists on it; (3) script-level episodes on the fake (arbitrary k incl. 0, ragged argument lists, colliding indexes) vs the Lean script model; (4) end-to-end episodes: real NewBloomFilter/Add/AddMulti/Exists/ExistsMulti/Count/Reset/Delete against the fake, server calls and answers vs the Lean glue+script model, '!exists' on every item added since the last reset/delete; (5) overlapping calls on ONE filter value: 'overlap A / B' lines park call A inside the fake client before its arguments are read, run call B (other items) to completion, release A (add/add, add/exists, exists/add), then 4-8 free-running goroutines doing Add/AddMulti/Exists(Multi) with small pre-read delays, emitted in the fake's execution order; the argv each call handed to the client is compared with the argv recomputed from its own items (harness) and with the Lean model's argv (model line), and every item whose Add returned nil gets an '!exists'; (6) size: filters with up to 4e8 items (9-10 digit bit offsets) in the end-to-end episodes, and large batches in ONE call — 2500 keys at k=1, ExistsMulti of 650 keys at k=7 (4550 indexes) and 1501 keys at k=3 with added and never-added keys interleaved to the end of the batch, thorough tier also AddMulti of 700 keys at k=7 — judged per position against the added set and by '!exists'; non-trivial = distinct op with at least one index/key",
		run:  runBloom,
		replay: func(c *Ctx, lines []string) {
			ep := &bloomEp{}
			for _, l := range lines {
				ep.op(c, l)
			}
		},
	}
}

var bg = context.Background()

type item struct {
	key    string
	h1, h2 uint64
}

func mkItem(key string) item {
	h1, h2 := murmur3.Sum128([]byte(key))
	return item{key, h1, h2}
}

func (it item) word() string { return fmt.Sprintf("%s:%d:%d", hx(it.key), it.h1, it.h2) }

func parseItemWord(w string) item {
	p := strings.Split(w, ":")
	return mkItem(unhx(p[0])) // hashes are recomputed from the key
}

func rateBits(r float64) string { return strconv.FormatUint(math.Float64bits(r), 16) }

func rateClass(r float64) int {
	if r <= 0 {
		return -1
	}
	if r > 1 {
		return 1
	}
	return 0
}

func newErrName(err error) string {
	switch {
	case errors.Is(err, rueidisprob.ErrEmptyName):
		return "err:emptyName"
	case errors.Is(err, rueidisprob.ErrFalsePositiveRateLessThanEqualZero):
		return "err:rateLeZero"
	case errors.Is(err, rueidisprob.ErrFalsePositiveRateGreaterThanOne):
		return "err:rateGtOne"
	case errors.Is(err, rueidisprob.ErrBitsSizeZero):
		return "err:bitsZero"
	case errors.Is(err, rueidisprob.ErrBitsSizeTooLarge):
		return "err:bitsTooLarge"
	case errors.Is(err, rueidisprob.ErrWindowSizeLessThanOneSecond):
		return "err:window"
	}
	return "err:other"
}

type bloomEp struct {
	srv       *fakeServer
	bf        rueidisprob.BloomFilter
	name      string
	m, k      uint
	added     map[string]bool
	lastCount uint64
	haveCount bool
	overlap   bool // an overlapping / concurrent phase has run in this episode
}

func boolsText(bs []bool) string {
	var b strings.Builder
	for _, x := range bs {
		if x {
			b.WriteByte('1')
		} else {
			b.WriteByte('0')
		}
	}
	return b.String()
}

func guard(f func() string) (ans string) {
	defer func() {
		if r := recover(); r != nil {
			ans = "panic"
		}
	}()
	return f()
}

func (e *bloomEp) op(c *Ctx, line string) {
	w := strings.Fields(line)
	switch w[0] {
	case "idx", "!idx":
		h1, _ := strconv.ParseUint(w[1], 10, 64)
		h2, _ := strconv.ParseUint(w[2], 10, 64)
		i, _ := strconv.ParseUint(w[3], 10, 64)
		m, _ := strconv.ParseUint(w[4], 10, 64)
		c.Emit(line, guard(func() string { return fmt.Sprint(rueidisprob.VerifIndex(h1, h2, uint(i), m)) }), true)
	case "new", "!cfg":
		// new <nameLen> <rateClass> <bits> n=<n> rate=<bits> name=<hex> / !cfg <m> <k> n=… rate=… name=…
		n, _ := strconv.ParseUint(strings.TrimPrefix(w[len(w)-3], "n="), 10, 64)
		rb, _ := strconv.ParseUint(strings.TrimPrefix(w[len(w)-2], "rate="), 16, 64)
		name := unhx(strings.TrimPrefix(w[len(w)-1], "name="))
		bf, err := rueidisprob.NewBloomFilter(&fakeClient{srv: newFakeServer(func() int64 { return 1 })}, name, uint(n), math.Float64frombits(rb))
		ans := "ok"
		if err != nil {
			ans = newErrName(err)
		}
		if w[0] == "new" {
			c.Hit("new:" + ans)
			c.Emit(line, ans, true)
			return
		}
		if err == nil {
			m, k, _ := rueidisprob.VerifParams(bf)
			if k == 0 {
				c.Fail("bloom:k0", line, fmt.Sprintf("NewBloomFilter(n=%d, rate=%v) accepted with 0 hash functions", n, math.Float64frombits(rb)))
			}
			if fmt.Sprint(m) != w[1] || fmt.Sprint(k) != w[2] {
				ans = fmt.Sprintf("cfg-mismatch:%d:%d", m, k)
			}
		}
		c.Emit(line, ans, true)
	case "reset":
		// reset <m> <k> ro=<0|1> n=<n> rate=<bits>
		n, _ := strconv.ParseUint(strings.TrimPrefix(w[4], "n="), 10, 64)
		rb, _ := strconv.ParseUint(strings.TrimPrefix(w[5], "rate="), 16, 64)
		e.srv = newFakeServer(func() int64 { return 1 })
		e.name = "bf"
		var err error
		e.bf, err = rueidisprob.NewBloomFilter(&fakeClient{srv: e.srv}, e.name, uint(n), math.Float64frombits(rb),
			rueidisprob.WithEnableReadOperation(w[3] == "ro=1"))
		ans := "ok"
		if err != nil {
			ans = newErrName(err)
		} else {
			e.m, e.k, _ = rueidisprob.VerifParams(e.bf)
			if fmt.Sprint(e.m) != w[1] || fmt.Sprint(e.k) != w[2] {
				ans = fmt.Sprintf("cfg-mismatch:%d:%d", e.m, e.k)
			}
		}
		e.added = map[string]bool{}
		e.haveCount = false
		e.overlap = false
		c.Emit(line, ans, false)
	case "s.add", "s.exists", "s.reset", "s.delete", "s.get":
		var r reply
		e.srv.mu.Lock()
		switch w[0] {
		case "s.add":
			r = e.srv.runScript("bfadd", []string{"f", "c"}, w[1:])
		case "s.exists":
			r = e.srv.runScript("bfexists", []string{"f"}, w[1:])
		case "s.reset":
			r = e.srv.runScript("bfreset", []string{"f", "c"}, nil)
		case "s.delete":
			r = e.srv.runScript("bfdelete", []string{"f", "c"}, nil)
		}
		e.srv.mu.Unlock()
		if w[0] == "s.get" {
			r = e.srv.exec(bg, []string{"GET", "c"})
			e.srv.takeLog()
		}
		c.Hit("script:" + w[0])
		c.Emit(line, r.String(), len(w) > 2)
	case "add":
		items := make([]string, 0, len(w)-1)
		for _, x := range w[1:] {
			items = append(items, parseItemWord(x).key)
		}
		ans := guard(func() string {
			var err error
			if len(items) == 1 && c.Rng.IntN(2) == 0 {
				err = e.bf.Add(bg, items[0])
			} else {
				err = e.bf.AddMulti(bg, items)
			}
			return errClass(err)
		})
		if ans == "ok" {
			for _, k := range items {
				e.added[k] = true
			}
		}
		c.Hit("add:" + ans)
		c.Emit(line, ans+logText(e.srv.takeLog(), e.name), len(items) > 0)
	case "exists":
		items := make([]string, 0, len(w)-1)
		for _, x := range w[1:] {
			items = append(items, parseItemWord(x).key)
		}
		ans := guard(func() string {
			r, err := e.bf.ExistsMulti(bg, items)
			if err != nil {
				return errClass(err)
			}
			if r == nil {
				return "nil"
			}
			for i, k := range items {
				if e.added[k] && (i >= len(r) || !r[i]) {
					c.Fail("bloom:false-negative", line, fmt.Sprintf("ExistsMulti reports added item #%d as absent (m=%d k=%d)", i, e.m, e.k))
				}
			}
			return boolsText(r)
		})
		c.Emit(line, ans+logText(e.srv.takeLog(), e.name), len(items) > 0)
	case "exists1", "!exists":
		it := parseItemWord(w[1])
		ans := guard(func() string {
			r, err := e.bf.Exists(bg, it.key)
			if err != nil {
				return errClass(err)
			}
			if r {
				return "1"
			}
			return "0"
		})
		lg := logText(e.srv.takeLog(), e.name)
		if w[0] == "!exists" {
			c.Hit("oracle-exists:" + ans)
			if ans != "1" && e.overlap && e.added[it.key] {
				c.Fail("bloom:false-negative:overlapping-calls", line, fmt.Sprintf("item %q was added successfully (Add returned nil) during overlapping calls on the same filter value but Exists answers %s", it.key, ans))
			}
			c.Emit(line, ans, true)
		} else {
			c.Emit(line, ans+lg, true)
		}
	case "count":
		ans := guard(func() string {
			n, err := e.bf.Count(bg)
			if err != nil {
				return errClass(err)
			}
			if e.haveCount && n < e.lastCount {
				c.Fail("bloom:count-decreased", line, fmt.Sprintf("Count went from %d to %d without Reset/Delete", e.lastCount, n))
			}
			e.lastCount, e.haveCount = n, true
			return fmt.Sprint(n)
		})
		c.Emit(line, ans+logText(e.srv.takeLog(), e.name), false)
	case "greset", "gdelete":
		ans := guard(func() string {
			if w[0] == "greset" {
				return errClass(e.bf.Reset(bg))
			}
			return errClass(e.bf.Delete(bg))
		})
		e.added = map[string]bool{}
		e.haveCount = false
		c.Emit(line, ans+logText(e.srv.takeLog(), e.name), false)
	case "overlap":
		// overlap <opA…> / <opB…>: opA is parked in the client before its arguments are read, opB runs
		// to completion, then opA is released. Answer: "<ansA+callA> | <ansB+callB>".
		a, b := splitSlash(w[1:])
		expA, runA, keysA := e.sub(a)
		expB, runB, keysB := e.sub(b)
		before := map[string]bool{}
		for k := range e.added {
			before[k] = true
		}
		ansA, ansB, log := runOverlap(e.srv, expA, expB, runA, runB)
		e.overlap = true
		checkArgv(c, "bloom", line, log)
		e.afterSub(c, line, a, keysA, ansA, before)
		e.afterSub(c, line, b, keysB, ansB, before)
		c.Hit("overlap:" + a[0] + "/" + b[0])
		c.Emit(line, ansA+logText(logOf(log, 1), e.name)+" | "+ansB+logText(logOf(log, 2), e.name), true)
	default:
		c.Emit(line, "bad-op", false)
	}
}

// sub prepares one `add …` / `exists …` sub-operation for overlapping execution: the arguments
// it must hand to the client, a runner, and its keys.
func (e *bloomEp) sub(w []string) (expect []string, run func(ctx context.Context) string, keys []string) {
	for _, x := range w[1:] {
		keys = append(keys, parseItemWord(x).key)
	}
	if len(keys) > 0 {
		expect = append([]string{fmt.Sprint(e.k)}, idxStrings(keys, e.m, e.k)...)
	}
	single := len(keys) == 1 && len(keys[0])%2 == 0
	switch w[0] {
	case "add":
		run = func(ctx context.Context) string {
			return guard(func() string {
				if single {
					return errClass(e.bf.Add(ctx, keys[0]))
				}
				return errClass(e.bf.AddMulti(ctx, keys))
			})
		}
	default: // exists
		run = func(ctx context.Context) string {
			return guard(func() string {
				if single {
					b, err := e.bf.Exists(ctx, keys[0])
					if err != nil {
						return errClass(err)
					}
					return boolsText([]bool{b})
				}
				r, err := e.bf.ExistsMulti(ctx, keys)
				if err != nil {
					return errClass(err)
				}
				if r == nil {
					return "nil"
				}
				return boolsText(r)
			})
		}
	}
	return expect, run, keys
}

// afterSub does the bookkeeping of a finished sub-operation (main goroutine only): successful adds
// become "added"; an exists that reports an item absent which was added before the phase is a failure.
func (e *bloomEp) afterSub(c *Ctx, line string, w, keys []string, ans string, before map[string]bool) {
	switch w[0] {
	case "add":
		if ans == "ok" {
			for _, k := range keys {
				e.added[k] = true
			}
		}
	default:
		for i, k := range keys {
			if before[k] && len(ans) == len(keys) && ans[i] != '1' {
				c.Fail("bloom:false-negative:overlapping-calls", line, fmt.Sprintf("overlapping Exists reports item #%d (%q, added earlier) as absent", i, k))
			}
		}
	}
}

// concPhase: free-running goroutines on the one filter value; the calls are emitted afterwards as
// ordinary lines in the order the fake executed them, then every successfully added item is checked.
func (e *bloomEp) concPhase(c *Ctx, pool []item) {
	G := 4 + c.Rng.IntN(5)
	plans := make([][]*concOp, G)
	id := 100
	for g := range plans {
		for j := 0; j < 6; j++ {
			n := 1 + c.Rng.IntN(3)
			ws := []string{"add"}
			if c.Rng.IntN(3) == 0 {
				ws[0] = "exists"
			}
			for x := 0; x < n; x++ {
				ws = append(ws, pool[c.Rng.IntN(len(pool))].word())
			}
			exp, run, _ := e.sub(ws)
			id++
			plans[g] = append(plans[g], &concOp{words: ws, run: run,
				tag: &callTag{id: id, expect: exp, delay: time.Duration(c.Rng.IntN(60)) * time.Microsecond}})
		}
	}
	before := map[string]bool{}
	for k := range e.added {
		before[k] = true
	}
	ordered, log := runConc(e.srv, plans)
	e.overlap = true
	c.Hit("conc-phases")
	for _, o := range ordered {
		line := strings.Join(o.words, " ")
		lg := logOf(log, o.tag.id)
		checkArgv(c, "bloom", line, lg)
		var keys []string
		for _, x := range o.words[1:] {
			keys = append(keys, parseItemWord(x).key)
		}
		e.afterSub(c, line, o.words, keys, o.ans, before)
		c.Emit(line, o.ans+logText(lg, e.name), true)
	}
	for _, it := range pool {
		if e.added[it.key] {
			e.op(c, "!exists "+it.word())
		}
	}
}

// newCfg runs the real constructor on (n, rate): accept/reject line, usability oracle,
// and on accepted configurations one add + exists with its oracle.
func (e *bloomEp) newCfg(c *Ctx, n uint, rate float64, name string) {
	bits := rueidisprob.VerifBits(n, rate)
	tail := fmt.Sprintf(" n=%d rate=%s name=%s", n, rateBits(rate), hx(name))
	bf, err := rueidisprob.NewBloomFilter(&fakeClient{srv: newFakeServer(func() int64 { return 1 })}, name, n, rate)
	e.op(c, fmt.Sprintf("new %d %d %d", len(name), rateClass(rate), bits)+tail)
	if err != nil {
		return
	}
	m, k, _ := rueidisprob.VerifParams(bf)
	c.Hit(fmt.Sprintf("cfg:k=%d", min(k, 3)))
	e.op(c, fmt.Sprintf("!cfg %d %d", m, k)+tail)
	if k > 200 || name != "bf" { // keep the mini episode cheap
		return
	}
	e2 := &bloomEp{}
	e2.op(c, fmt.Sprintf("reset %d %d ro=0 n=%d rate=%s", m, k, n, rateBits(rate)))
	it := mkItem(fmt.Sprintf("item-%d", c.Rng.IntN(1000)))
	e2.op(c, "add "+it.word())
	e2.op(c, "!exists "+it.word())
}

func runBloom(c *Ctx) {
	ep := &bloomEp{}
	// (1) index function
	edge := []uint64{0, 1, 2, 3, 1 << 31, 1 << 32, 1<<63 - 1, 1 << 63, 1<<64 - 2, 1<<64 - 1}
	ms := []uint64{1, 2, 3, 7, 10, 1 << 16, 1<<32 - 1, 1 << 32, 1<<63 + 1, 1<<64 - 1}
	for _, h1 := range edge {
		for _, h2 := range edge {
			for _, i := range []uint64{0, 1, 2, 3, 29} {
				m := ms[(int(h1%7)+int(h2%5)+int(i))%len(ms)]
				ep.op(c, fmt.Sprintf("idx %d %d %d %d", h1, h2, i, m))
				ep.op(c, fmt.Sprintf("!idx %d %d %d %d", h1, h2, i, m))
			}
		}
	}
	for i := 0; i < c.N/4; i++ {
		h1, h2 := c.Rng.Uint64(), c.Rng.Uint64()
		if c.Rng.IntN(4) == 0 {
			h1 = edge[c.Rng.IntN(len(edge))]
		}
		if c.Rng.IntN(4) == 0 {
			h2 = edge[c.Rng.IntN(len(edge))]
		}
		m := ms[c.Rng.IntN(len(ms))]
		if c.Rng.IntN(2) == 0 {
			m = 1 + c.Rng.Uint64N(1<<32)
		}
		it := uint64(c.Rng.IntN(40))
		ep.op(c, fmt.Sprintf("idx %d %d %d %d", h1, h2, it, m))
		ep.op(c, fmt.Sprintf("!idx %d %d %d %d", h1, h2, it, m))
	}
	// (2) constructor sweep
	ns := []uint{0, 1, 2, 3, 5, 10, 100, 1000, 1000000, 100000000, 1 << 40}
	rates := []float64{-1, 0, math.SmallestNonzeroFloat64, 1e-300, 1e-30, 1e-9, 0.001, 0.01, 0.1, 0.5, 0.7, 0.7071, 0.70711, 0.7072, 0.71, 0.72, 0.75, 0.8, 0.9, 0.99, 0.999999, 1 - 1e-16, 1, 1.0000001, 2, math.Inf(1), math.NaN()}
	for _, n := range ns {
		for _, r := range rates {
			ep.newCfg(c, n, r, "bf")
		}
	}
	ep.newCfg(c, 10, 0.01, "")
	for i := 0; i < c.N/20; i++ {
		n := uint(1 + c.Rng.IntN(2000))
		r := 0.5 + c.Rng.Float64()/2
		if c.Rng.IntN(3) == 0 {
			r = math.Pow(10, -float64(c.Rng.IntN(12))) * c.Rng.Float64()
		}
		ep.newCfg(c, n, r, "bf")
	}
	// (3) script-level episodes
	for epi := 0; epi < max(4, c.N/100); epi++ {
		ep.op(c, "reset 2 1 ro=0 n=1 rate="+rateBits(0.5))
		for j := 0; j < 25; j++ {
			k := c.Rng.IntN(5)
			if c.Rng.IntN(3) > 0 && k == 0 {
				k = 1 + c.Rng.IntN(3)
			}
			cnt := c.Rng.IntN(4) * max(k, 1)
			if c.Rng.IntN(5) == 0 {
				cnt = c.Rng.IntN(9)
			}
			args := []string{fmt.Sprint(k)}
			for x := 0; x < cnt; x++ {
				args = append(args, fmt.Sprint(c.Rng.IntN(10)))
			}
			switch r := c.Rng.IntN(20); {
			case r < 8:
				ep.op(c, "s.add "+strings.Join(args, " "))
			case r < 16:
				ep.op(c, "s.exists "+strings.Join(args, " "))
			case r < 18:
				ep.op(c, "s.get")
			case r < 19:
				ep.op(c, "s.reset")
			default:
				ep.op(c, "s.delete")
			}
		}
	}
	// (5) overlapping calls on one filter value: gated (deterministic) and free-running
	ocfgs := []struct {
		n uint
		r float64
	}{{200, 0.01}, {50, 0.2}, {1000, 0.001}, {5, 0.1}}
	for epi := 0; epi < max(6, c.N/100); epi++ {
		cf := ocfgs[epi%len(ocfgs)]
		bf, err := rueidisprob.NewBloomFilter(&fakeClient{srv: newFakeServer(func() int64 { return 1 })}, "probe", cf.n, cf.r)
		if err != nil {
			continue
		}
		m, k, _ := rueidisprob.VerifParams(bf)
		ep.op(c, fmt.Sprintf("reset %d %d ro=%d n=%d rate=%s", m, k, epi%2, cf.n, rateBits(cf.r)))
		pool := make([]item, 24)
		for i := range pool {
			pool[i] = mkItem(fmt.Sprintf("o%d-%d-%s", epi, i, strings.Repeat("x", i%3)))
		}
		next := 0
		take := func(n int) string {
			ws := make([]string, n)
			for i := range ws {
				ws[i] = pool[next%len(pool)].word()
				next++
			}
			return strings.Join(ws, " ")
		}
		ep.op(c, "add "+take(1)) // loads the script
		for j := 0; j < 5; j++ {
			switch j % 3 {
			case 0:
				ep.op(c, "overlap add "+take(1+c.Rng.IntN(2))+" / add "+take(1+c.Rng.IntN(3)))
			case 1:
				ep.op(c, "overlap add "+take(1)+" / exists "+pool[c.Rng.IntN(len(pool))].word())
			default:
				ep.op(c, "overlap exists "+pool[0].word()+" / add "+take(2))
			}
		}
		for _, it := range pool {
			if ep.added[it.key] {
				ep.op(c, "!exists "+it.word())
			}
		}
		ep.concPhase(c, pool)
	}
	// (6) large batches in ONE call (keys*k well beyond a few thousand indexes; batch sizes that are
	// not multiples of round numbers), mixing added and never-added keys late in the batch
	big := []struct {
		n        uint
		r        float64
		add, ask int
	}{{2000, 0.01, 60, 650}, {3000, 0.5, 2500, 300}, {900, 0.1, 40, 1501}}
	if c.Tier == "thorough" {
		big = append(big, struct {
			n        uint
			r        float64
			add, ask int
		}{2000, 0.01, 700, 120}, struct {
			n        uint
			r        float64
			add, ask int
		}{5000, 0.001, 30, 1001})
	}
	for bi, b := range big {
		bf, err := rueidisprob.NewBloomFilter(&fakeClient{srv: newFakeServer(func() int64 { return 1 })}, "probe", b.n, b.r)
		if err != nil {
			continue
		}
		m, k, _ := rueidisprob.VerifParams(bf)
		ep.op(c, fmt.Sprintf("reset %d %d ro=%d n=%d rate=%s", m, k, bi%2, b.n, rateBits(b.r)))
		c.Hit(fmt.Sprintf("big-batch:k=%d:add=%d:ask=%d", k, b.add, b.ask))
		added := make([]item, b.add)
		ws := make([]string, b.add)
		for i := range added {
			added[i] = mkItem(fmt.Sprintf("big%d-a%d", bi, i))
			ws[i] = added[i].word()
		}
		ep.op(c, "add "+strings.Join(ws, " "))
		// the query batch: never-added keys first, then added and never-added ones interleaved to the very end
		qs := make([]string, b.ask)
		for i := range qs {
			if i >= b.ask/3 && i%2 == 0 {
				qs[i] = added[c.Rng.IntN(len(added))].word()
			} else {
				qs[i] = mkItem(fmt.Sprintf("big%d-q%d", bi, i)).word()
			}
		}
		ep.op(c, "exists "+strings.Join(qs, " "))
		ep.op(c, "count")
		for j := 0; j < 6; j++ {
			ep.op(c, "!exists "+added[len(added)-1-j*(len(added)/7)].word())
		}
	}
	// (4) end-to-end episodes on small filters (collisions) and on typical ones
	cfgs := []struct {
		n uint
		r float64
	}{{1, 0.9}, {100000000, 0.01}, {1, 0.5}, {2, 0.9}, {3, 0.3}, {5, 0.1}, {4, 0.01}, {100, 0.9}, {50, 0.72}, {1000, 0.001}, {7, 1e-9}, {400000000, 0.1}}
	for epi := 0; epi < max(len(cfgs), c.N/60); epi++ {
		cf := cfgs[epi%len(cfgs)]
		if epi >= len(cfgs) && c.Rng.IntN(2) == 0 {
			cf.n, cf.r = uint(1+c.Rng.IntN(30)), 0.05+0.9*c.Rng.Float64()
		}
		ro := c.Rng.IntN(3) == 0
		srv := newFakeServer(func() int64 { return 1 })
		bf, err := rueidisprob.NewBloomFilter(&fakeClient{srv: srv}, "probe", cf.n, cf.r)
		if err != nil {
			continue
		}
		m, k, _ := rueidisprob.VerifParams(bf)
		ep.op(c, fmt.Sprintf("reset %d %d ro=%d n=%d rate=%s", m, k, map[bool]int{false: 0, true: 1}[ro], cf.n, rateBits(cf.r)))
		pool := make([]item, 10)
		for i := range pool {
			pool[i] = mkItem(fmt.Sprintf("k%d-%d", epi, i))
		}
		pick := func(n int) string {
			ws := make([]string, n)
			for i := range ws {
				ws[i] = pool[c.Rng.IntN(len(pool))].word()
			}
			return strings.Join(ws, " ")
		}
		var addedList []item
		for j := 0; j < 30; j++ {
			switch r := c.Rng.IntN(40); {
			case r < 12:
				n := 1 + c.Rng.IntN(3)
				if c.Rng.IntN(12) == 0 {
					n = 0
				}
				l := strings.TrimSpace("add " + pick(n))
				ep.op(c, l)
				for _, x := range strings.Fields(l)[1:] {
					addedList = append(addedList, parseItemWord(x))
				}
			case r < 22:
				n := 1 + c.Rng.IntN(4)
				if c.Rng.IntN(12) == 0 {
					n = 0
				}
				ep.op(c, strings.TrimSpace("exists "+pick(n)))
			case r < 26:
				ep.op(c, "exists1 "+pick(1))
			case r < 34:
				if len(addedList) > 0 {
					ep.op(c, "!exists "+addedList[c.Rng.IntN(len(addedList))].word())
				}
			case r < 38:
				ep.op(c, "count")
			case r < 39:
				ep.op(c, "greset")
				addedList = nil
			default:
				ep.op(c, "gdelete")
				addedList = nil
			}
		}
	}
}
