package main

// A hand-written in-process fake of the Redis server behind a rueidis.Client, for the
// few commands rueidisprob / rueidislimiter use. Each of the packages' scripts is
// recognised by the SHA-1 of its text (the texts pinned in Rv/Props/C35..C38.lean) and
// executed by a Go re-implementation of its semantics. The re-implementations are
// validated against the Lean models by the script-level operations of every suite
// (`s.*` lines). A script whose text is not one of the pinned ones is executed by the
// mini Lua interpreter harness/luamini on the same keyspace (see luamini.go).

import (
	"context"
	"crypto/sha1"
	"encoding/hex"
	"fmt"
	"sort"
	"strconv"
	"strings"
	"sync"
	"sync/atomic"
	"time"

	"github.com/redis/rueidis"
	"github.com/redis/rueidis/internal/cmds"
	"github.com/redis/rueidis/mock"
)

// SHA-1 of the script texts the handlers below re-implement (see Rv/Gen/LuaScripts.lean).
var scriptBySha = map[string]string{
	"14c344788bdb0424bcc8b04e5c3961ebdee48b9a": "bfadd",
	"bd9e78ea92147df5b89b750d598d8d133ce56902": "bfexists",
	"99ec796f6b268a3dfa2c961249b5bfbff1db8019": "bfexistsro",
	"142f9853f707b06b8ba1a8235da6dcc32bf01edb": "bfreset",
	"b42d4dd5007b4cf26d83f47f0d092ad19b7ad4d1": "bfdelete", // also countingBloomFilterDeleteScript (same text)
	"59fa3e57e1f8c3a146dc3f365b1bb757814ada37": "cbfadd",
	"2b81dc53bfa0c9dc8c4d765ecff91662e1a9a6de": "cbfremove",
	"c6cb06a6c5f6cc45f11e3c785294e81630d7d400": "sbfinit",
	"d0705200ae801ce4da16cec865c6aa93f7590b9b": "sbfadd",
	"9154b3d7b17f2fc868392dbcb79ee3747604dba8": "sbfexists",
	"190e6ee31008f772001e276c9728cca30fba0ff1": "sbfexistsro",
	"1625d5cfc33cfcc790fb0edbec0230a02262cb9d": "sbfreset",
	"1e1bbf02a27d9ef5fb53afd337a22928e4e748f5": "ratelimit",
}

type fval struct {
	kind byte // 's' string (counters, lock), 'b' bitmap (string seen as a set of 1-bits), 'h' hash
	s    string
	bits map[uint64]bool
	h    map[string]int64
	exp  int64 // absolute expiry in server ms; 0 = none
}

// reply is a canonical RESP value: integer, nil, bulk string, error, array.
type reply struct {
	typ byte // ':' '_' '$' '-' '*' ('+' only from an interpreted script)
	n   int64
	s   string
	arr []reply
}

func rInt(n int64) reply    { return reply{typ: ':', n: n} }
func rNil() reply           { return reply{typ: '_'} }
func rStr(s string) reply   { return reply{typ: '$', s: s} }
func rErr(s string) reply   { return reply{typ: '-', s: s} }
func rArr(a ...reply) reply { return reply{typ: '*', arr: a} }
func (r reply) isErr() bool { return r.typ == '-' }
func (r reply) String() string {
	switch r.typ {
	case ':':
		return ":" + strconv.FormatInt(r.n, 10)
	case '_':
		return "_"
	case '$':
		return "$" + r.s
	case '+':
		return "+" + r.s
	case '-':
		return "-" + strings.ReplaceAll(strings.SplitN(r.s, " ", 2)[0], "/", "")
	}
	// arrays: booleans print compactly (1 / _), everything else comma separated in brackets
	compact := true
	for _, e := range r.arr {
		if !(e.typ == '_' || (e.typ == ':' && e.n == 1)) {
			compact = false
		}
	}
	var b strings.Builder
	b.WriteByte('*')
	if compact {
		for _, e := range r.arr {
			if e.typ == '_' {
				b.WriteByte('_')
			} else {
				b.WriteByte('1')
			}
		}
		return b.String()
	}
	b.WriteByte('[')
	for i, e := range r.arr {
		if i > 0 {
			b.WriteByte(',')
		}
		b.WriteString(e.String())
	}
	b.WriteByte(']')
	return b.String()
}

func (r reply) msg() rueidis.RedisMessage {
	switch r.typ {
	case ':':
		return mock.RedisInt64(r.n)
	case '_':
		return mock.RedisNil()
	case '$':
		return mock.RedisBlobString(r.s)
	case '+':
		return mock.RedisString(r.s)
	case '-':
		return mock.RedisError(r.s)
	}
	ms := make([]rueidis.RedisMessage, len(r.arr))
	for i, e := range r.arr {
		ms[i] = e.msg()
	}
	return mock.RedisArray(ms...)
}

type logged struct {
	name string
	keys []string
	args []string
	rep  reply
	ctx  context.Context
	srv  int64 // server clock at execution
}

type fakeServer struct {
	mu     sync.Mutex
	clock  func() int64 // server clock in ms
	keys   map[string]*fval
	loaded map[string]bool
	log    []logged
	hits   map[string]int
	gate   atomic.Pointer[gateT] // parks one tagged call inside Do before its arguments are read
}

func newFakeServer(clock func() int64) *fakeServer {
	return &fakeServer{clock: clock, keys: map[string]*fval{}, loaded: map[string]bool{}, hits: map[string]int{}}
}

func (f *fakeServer) takeLog() []logged {
	f.mu.Lock()
	defer f.mu.Unlock()
	l := f.log
	f.log = nil
	return l
}

// ---- keyspace primitives (caller holds mu; now = frozen script time)

func (f *fakeServer) look(key string, now int64) *fval {
	v := f.keys[key]
	if v != nil && v.exp != 0 && now > v.exp { // Redis: expired iff now > when
		delete(f.keys, key)
		return nil
	}
	return v
}

func parseU(s string) (uint64, bool) {
	u, err := strconv.ParseUint(s, 10, 64)
	return u, err == nil
}

func parseI(s string) (int64, bool) {
	i, err := strconv.ParseInt(s, 10, 64)
	return i, err == nil
}

// BITFIELD key SET u1 off 1 / GET u1 off: old (resp. current) bit
func (f *fakeServer) bitSet(key, off string, now int64) (int64, bool) {
	o, ok := parseU(off)
	if !ok || o >= 1<<32 {
		return 0, false
	}
	v := f.look(key, now)
	if v == nil {
		v = &fval{kind: 'b', bits: map[uint64]bool{}}
		f.keys[key] = v
	}
	if v.kind != 'b' {
		return 0, false
	}
	old := v.bits[o]
	v.bits[o] = true
	if old {
		return 1, true
	}
	return 0, true
}

func (f *fakeServer) bitGet(key, off string, now int64) (int64, bool) {
	o, ok := parseU(off)
	if !ok || o >= 1<<32 {
		return 0, false
	}
	v := f.look(key, now)
	if v == nil {
		return 0, true
	}
	if v.kind != 'b' {
		return 0, false
	}
	if v.bits[o] {
		return 1, true
	}
	return 0, true
}

func (f *fakeServer) incrBy(key string, d int64, now int64) (int64, bool) {
	v := f.look(key, now)
	if v == nil {
		v = &fval{kind: 's', s: "0"}
		f.keys[key] = v
	}
	if v.kind != 's' {
		return 0, false
	}
	cur, ok := parseI(v.s)
	if !ok {
		return 0, false
	}
	if (d > 0 && cur > (1<<63-1)-d) || (d < 0 && cur < (-1<<63)-d) {
		return 0, false
	}
	cur += d
	v.s = strconv.FormatInt(cur, 10)
	return cur, true
}

func (f *fakeServer) hincrBy(key, field string, d int64, now int64) (int64, bool) {
	v := f.look(key, now)
	if v == nil {
		v = &fval{kind: 'h', h: map[string]int64{}}
		f.keys[key] = v
	}
	if v.kind != 'h' {
		return 0, false
	}
	v.h[field] += d
	return v.h[field], true
}

// SET key value (value "" = empty bitmap)
func (f *fakeServer) set(key, val string, exp int64) {
	if val == "" {
		f.keys[key] = &fval{kind: 'b', bits: map[uint64]bool{}, exp: exp}
	} else {
		f.keys[key] = &fval{kind: 's', s: val, exp: exp}
	}
}

func (f *fakeServer) rename(src, dst string, now int64) bool {
	v := f.look(src, now)
	if v == nil {
		return false
	}
	delete(f.keys, src)
	f.keys[dst] = v
	return true
}

// ---- script handlers: Go re-implementations of the pinned Lua texts

const errWrong = "ERR fake: wrong type or argument"

func (f *fakeServer) runScript(name string, keys, args []string) reply {
	now := f.clock()
	need := func(nk, na int) bool { return len(keys) >= nk && len(args) >= na }
	switch name {
	case "bfadd":
		if !need(2, 1) {
			return rErr(errWrong)
		}
		k, ok := parseU(args[0])
		if !ok {
			return rErr(errWrong)
		}
		var counter, one int64
		for i := 1; i < len(args); i++ {
			old, ok := f.bitSet(keys[0], args[i], now)
			if !ok {
				return rErr(errWrong)
			}
			one += old
			if k != 0 && uint64(i)%k == 0 { // Lua: i % 0 is NaN, never == 0
				if one != int64(k) {
					counter++
				}
				one = 0
			}
		}
		c, ok := f.incrBy(keys[1], counter, now)
		if !ok {
			return rErr(errWrong)
		}
		return rInt(c)
	case "bfexists", "bfexistsro":
		if !need(1, 1) {
			return rErr(errWrong)
		}
		k, ok := parseU(args[0])
		if !ok {
			return rErr(errWrong)
		}
		res := []reply{}
		var one int64
		for i := 1; i < len(args); i++ {
			b, ok := f.bitGet(keys[0], args[i], now)
			if !ok {
				return rErr(errWrong)
			}
			one += b
			if k != 0 && uint64(i)%k == 0 {
				if one == int64(k) {
					res = append(res, rInt(1)) // Lua true
				} else {
					res = append(res, rNil()) // Lua false
				}
				one = 0
			}
		}
		return rArr(res...)
	case "bfreset":
		if !need(2, 0) {
			return rErr(errWrong)
		}
		f.set(keys[0], "", 0)
		f.set(keys[1], "0", 0)
		return rInt(1)
	case "bfdelete":
		if !need(2, 0) {
			return rErr(errWrong)
		}
		delete(f.keys, keys[0])
		delete(f.keys, keys[1])
		return rInt(1)
	case "cbfadd":
		if !need(2, 1) {
			return rErr(errWrong)
		}
		itemCount, ok := parseI(args[0])
		if !ok {
			return rErr(errWrong)
		}
		for i := 1; i < len(args); i++ {
			if _, ok := f.hincrBy(keys[0], args[i], 1, now); !ok {
				return rErr(errWrong)
			}
		}
		c, ok := f.incrBy(keys[1], itemCount, now)
		if !ok {
			return rErr(errWrong)
		}
		return rInt(c)
	case "cbfremove":
		if !need(2, 1) {
			return rErr(errWrong)
		}
		num := len(args) - 1
		k64, ok := parseU(args[len(args)-1])
		if !ok || k64 == 0 || num%int(k64) != 0 {
			// k = 0: `for i=1,n,0` never terminates; ragged groups index past ARGV. Outside the modelled domain.
			return rErr("ERR fake: remove arguments outside the modelled domain")
		}
		k := int(k64)
		ARGV := func(i int) string { return args[i-1] } // 1-based
		indexCounter := map[string]int64{}
		for i := 1; i <= num; i++ {
			index := ARGV(i)
			var count *int64
			if v := f.look(keys[0], now); v != nil {
				if v.kind != 'h' {
					return rErr(errWrong)
				}
				if c, ok := v.h[index]; ok {
					count = &c
				}
			}
			if _, seen := indexCounter[index]; !seen {
				if count == nil {
					indexCounter[index] = 0
				} else {
					indexCounter[index] = *count
				}
			}
		}
		var decrease []string
		var deleteItemCount int64
		for i := 1; i <= num; i += k {
			able := true
			var temp []string
			rollbackIndex := i
			for j := i; j <= i+k-1; j++ {
				index := ARGV(j)
				temp = append(temp, index)
				indexCounter[index]--
				if indexCounter[index] < 0 {
					able = false
					rollbackIndex = j
					break
				}
			}
			if able {
				decrease = append(decrease, temp...)
				deleteItemCount++
			} else {
				for j := i; j <= rollbackIndex; j++ {
					indexCounter[ARGV(j)]++
				}
			}
		}
		for _, idx := range decrease {
			if _, ok := f.hincrBy(keys[0], idx, -1, now); !ok {
				return rErr(errWrong)
			}
		}
		c, ok := f.incrBy(keys[1], -deleteItemCount, now)
		if !ok {
			return rErr(errWrong)
		}
		return rInt(c)
	case "sbfinit":
		if !need(5, 1) {
			return rErr(errWrong)
		}
		half, ok := parseI(args[0])
		if !ok {
			return rErr(errWrong)
		}
		n := 0
		for _, k := range keys[:5] {
			if f.look(k, now) != nil {
				n++
			}
		}
		if n == 0 {
			f.set(keys[0], "", 0)
			f.set(keys[2], "0", 0)
			f.set(keys[1], "", 0)
			f.set(keys[3], "0", 0)
			if half <= 0 {
				return rErr("ERR invalid expire time in 'set' command")
			}
			f.set(keys[4], strconv.FormatInt(now, 10), now+half) // NX holds: key absent
		}
		return rInt(1)
	case "sbfadd", "sbfexists", "sbfexistsro":
		if !need(5, 2) {
			return rErr(errWrong)
		}
		k, ok1 := parseU(args[0])
		half, ok2 := parseI(args[1])
		if !ok1 || !ok2 {
			return rErr(errWrong)
		}
		if half <= 0 {
			return rErr("ERR invalid expire time in 'set' command")
		}
		if f.look(keys[4], now) == nil { // SET lastRotationKey … PX windowHalf NX
			f.set(keys[4], strconv.FormatInt(now, 10), now+half)
			if !f.rename(keys[1], keys[0], now) {
				return rErr("ERR no such key")
			}
			if !f.rename(keys[3], keys[2], now) {
				return rErr("ERR no such key")
			}
			f.set(keys[1], "", 0)
			f.set(keys[3], "0", 0)
		}
		var one int64
		if name == "sbfadd" {
			var counter int64
			for i := 1; i+1 < len(args); i++ {
				old, ok := f.bitSet(keys[0], args[i+1], now)
				if !ok {
					return rErr(errWrong)
				}
				if _, ok := f.bitSet(keys[1], args[i+1], now); !ok {
					return rErr(errWrong)
				}
				one += old
				if k != 0 && uint64(i)%k == 0 {
					if one != int64(k) {
						counter++
					}
					one = 0
				}
			}
			if _, ok := f.incrBy(keys[3], counter, now); !ok {
				return rErr(errWrong)
			}
			c, ok := f.incrBy(keys[2], counter, now)
			if !ok {
				return rErr(errWrong)
			}
			return rInt(c)
		}
		res := []reply{}
		for i := 1; i+1 < len(args); i++ {
			b, ok := f.bitGet(keys[0], args[i+1], now)
			if !ok {
				return rErr(errWrong)
			}
			one += b
			if k != 0 && uint64(i)%k == 0 {
				if one == int64(k) {
					res = append(res, rInt(1))
				} else {
					res = append(res, rNil())
				}
				one = 0
			}
		}
		return rArr(res...)
	case "sbfreset":
		if !need(4, 0) {
			return rErr(errWrong)
		}
		if !f.rename(keys[1], keys[0], now) {
			return rErr("ERR no such key")
		}
		if !f.rename(keys[3], keys[2], now) {
			return rErr("ERR no such key")
		}
		f.set(keys[1], "", 0)
		f.set(keys[3], "0", 0)
		return rNil() // the script has no return statement
	case "ratelimit":
		if !need(2, 3) {
			return rErr(errWrong)
		}
		inc, ok1 := parseI(args[0])
		next, ok2 := parseI(args[1])
		cur, ok3 := parseI(args[2])
		if !ok1 || !ok2 || !ok3 {
			return rErr(errWrong)
		}
		expiresAt, have := int64(0), false
		if v := f.look(keys[1], now); v != nil {
			if e, ok := parseI(v.s); ok && v.kind == 's' {
				expiresAt, have = e, true
			}
		}
		if !have || expiresAt < cur {
			if next+1000 <= 0 {
				return rErr("ERR invalid expire time in 'set' command")
			}
			f.set(keys[0], "0", next+1000)
			f.set(keys[1], strconv.FormatInt(next, 10), next+1000)
			expiresAt = next
		}
		c, ok := f.incrBy(keys[0], inc, now)
		if !ok {
			return rErr("ERR increment or decrement would overflow")
		}
		return rArr(rInt(c), rInt(expiresAt))
	}
	return rErr("ERR fake: unknown script")
}

// ---- command dispatch

func (f *fakeServer) exec(ctx context.Context, cmd []string) reply {
	f.mu.Lock()
	defer f.mu.Unlock()
	if len(cmd) == 0 {
		return rErr("ERR empty command")
	}
	now := f.clock()
	// the packages pass strings aliasing pooled buffers that are zeroed after Do returns: copy now
	cp := make([]string, len(cmd))
	for i, x := range cmd {
		cp[i] = strings.Clone(x)
	}
	cmd = cp
	record := func(name string, keys, args []string, r reply) reply {
		f.log = append(f.log, logged{name: name, keys: keys, args: args, rep: r, ctx: ctx, srv: now})
		return r
	}
	switch op := strings.ToUpper(cmd[0]); op {
	case "EVALSHA", "EVALSHA_RO", "EVAL", "EVAL_RO":
		if len(cmd) < 3 {
			return rErr("ERR wrong number of arguments")
		}
		sha := cmd[1]
		if strings.HasPrefix(op, "EVALSHA") {
			if !f.loaded[sha] {
				f.hits["noscript"]++
				return rErr("NOSCRIPT No matching script. Please use EVAL.")
			}
			f.hits["evalsha"]++
		} else {
			sum := sha1.Sum([]byte(cmd[1]))
			sha = hex.EncodeToString(sum[:])
			f.loaded[sha] = true
			scriptTexts.Store(sha, cmd[1])
			f.hits["eval"]++
		}
		nk, err := strconv.Atoi(cmd[2])
		if err != nil || nk < 0 || 3+nk > len(cmd) {
			return rErr("ERR Number of keys can't be greater than number of args")
		}
		name, ok := scriptBySha[sha]
		if !ok {
			// not one of the pinned texts: interpreted; logged under the name of the known script it resembles
			text, _ := scriptTexts.Load(sha)
			label := labelOf(sha, text.(string))
			luaUnknownRuns.Add(1)
			cnt, _ := luaUnknownAs.LoadOrStore(label, new(atomic.Int64))
			cnt.(*atomic.Int64).Add(1)
			return record(label, cmd[3:3+nk], cmd[3+nk:], f.runLua(sha, text.(string), cmd[3:3+nk], cmd[3+nk:]))
		}
		if strings.HasSuffix(op, "_RO") != strings.HasSuffix(name, "ro") {
			f.hits["ro-mismatch"]++
		}
		return record(name, cmd[3:3+nk], cmd[3+nk:], f.runScript(name, cmd[3:3+nk], cmd[3+nk:]))
	case "SCRIPT":
		if len(cmd) == 3 && strings.ToUpper(cmd[1]) == "LOAD" {
			sum := sha1.Sum([]byte(cmd[2]))
			sha := hex.EncodeToString(sum[:])
			f.loaded[sha] = true
			scriptTexts.Store(sha, cmd[2])
			return rStr(sha)
		}
		return rErr("ERR fake: unsupported SCRIPT subcommand")
	case "GET":
		if len(cmd) != 2 {
			return rErr("ERR wrong number of arguments for 'get' command")
		}
		v := f.look(cmd[1], now)
		if v == nil {
			return record("get", cmd[1:2], nil, rNil())
		}
		if v.kind == 'h' {
			return record("get", cmd[1:2], nil, rErr("WRONGTYPE Operation against a key holding the wrong kind of value"))
		}
		return record("get", cmd[1:2], nil, rStr(v.s))
	case "HMGET":
		if len(cmd) < 3 {
			return record("hmget", cmd[1:], nil, rErr("ERR wrong number of arguments for 'hmget' command"))
		}
		v := f.look(cmd[1], now)
		out := make([]reply, 0, len(cmd)-2)
		for _, fld := range cmd[2:] {
			if v != nil && v.kind == 'h' {
				if c, ok := v.h[fld]; ok {
					out = append(out, rStr(strconv.FormatInt(c, 10)))
					continue
				}
			}
			out = append(out, rNil())
		}
		return record("hmget", cmd[1:2], cmd[2:], rArr(out...))
	case "DEL":
		n := int64(0)
		for _, k := range cmd[1:] {
			if f.look(k, now) != nil {
				delete(f.keys, k)
				n++
			}
		}
		return record("del", cmd[1:], nil, rInt(n))
	}
	return rErr("ERR fake: unsupported command " + cmd[0])
}

// dump of a hash key for debugging / state comparison
func (f *fakeServer) hashDump(key string) string {
	f.mu.Lock()
	defer f.mu.Unlock()
	v := f.keys[key]
	if v == nil || v.kind != 'h' {
		return "-"
	}
	ks := make([]string, 0, len(v.h))
	for k := range v.h {
		ks = append(ks, k)
	}
	sort.Slice(ks, func(i, j int) bool {
		a, _ := parseU(ks[i])
		b, _ := parseU(ks[j])
		return a < b
	})
	parts := make([]string, len(ks))
	for i, k := range ks {
		parts[i] = fmt.Sprintf("%s=%d", k, v.h[k])
	}
	return strings.Join(parts, ",")
}

// ---- rueidis.Client on top of the fake server

type fakeClient struct {
	rueidis.Client // nil: any method the packages are not expected to use panics
	srv            *fakeServer
}

func (c *fakeClient) B() rueidis.Builder { return cmds.NewBuilder(cmds.NoSlot) }

// Do consumes the command's arguments only when it gets to execute it — like the real
// pipelining client, whose writer goroutine renders a command some time after Do was entered.
// A call tagged `park` waits at the gate first; a call tagged with a delay sleeps first.
func (c *fakeClient) Do(ctx context.Context, cmd rueidis.Completed) rueidis.RedisResult {
	if t, _ := ctx.Value(ctxTag{}).(*callTag); t != nil {
		if t.park {
			if g := c.srv.gate.Load(); g != nil && g.used.CompareAndSwap(false, true) {
				close(g.parked)
				<-g.release
			}
		}
		if t.delay > 0 {
			time.Sleep(t.delay)
		}
	}
	return mock.Result(c.srv.exec(ctx, cmd.Commands()).msg())
}

func (c *fakeClient) DoMulti(ctx context.Context, multi ...rueidis.Completed) []rueidis.RedisResult {
	out := make([]rueidis.RedisResult, len(multi))
	for i, m := range multi {
		out[i] = c.Do(ctx, m)
	}
	return out
}

func (c *fakeClient) Close() {}

// canonical text of the server calls one glue operation made; "{name}" is shown as "@"
func logText(l []logged, name string) string {
	var b strings.Builder
	for _, e := range l {
		ks := make([]string, len(e.keys))
		for i, k := range e.keys {
			if strings.HasPrefix(k, "{"+name+"}") {
				k = "@" + k[len(name)+2:]
			}
			ks[i] = k
		}
		as := make([]string, len(e.args))
		for i, a := range e.args {
			if strings.HasPrefix(a, "{"+name+"}") {
				a = "@" + a[len(name)+2:]
			}
			as[i] = a
		}
		b.WriteString(" " + e.name + "/" + strings.Join(ks, ",") + "/" + strings.Join(as, ",") + "/" + e.rep.String())
	}
	return b.String()
}

func errClass(err error) string {
	if err == nil {
		return "ok"
	}
	if rueidis.IsRedisNil(err) {
		return "err:nil"
	}
	if _, ok := rueidis.IsRedisErr(err); ok {
		return "err:redis"
	}
	return "err:other"
}
