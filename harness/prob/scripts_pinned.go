package main

// The pinned texts of the known scripts: copies of the literals in lean/Rv/Gen/LuaScripts.lean (which the
// extractor regenerates from the repository on every run and Rv/Props pin). They are only used (1) to
// validate luamini differentially against the Go transcriptions in fake.go and (2) to label a script of
// unknown text with the known script it resembles most. init() checks every text against scriptBySha.

import (
	"crypto/sha1"
	"encoding/hex"
)

type pinnedScript struct {
	pkg, holder, sha, text string
}

var pinnedScripts = []pinnedScript{
	{"rueidisprob", "bloomFilterAddMultiScript", "14c344788bdb0424bcc8b04e5c3961ebdee48b9a", `
local hashIterations = tonumber(ARGV[1])
local numElements = tonumber(#ARGV) - 1
local filterKey = KEYS[1]
local counterKey = KEYS[2]

local counter = 0
local oneBits = 0
for i=1, numElements do
	local bitset = redis.call('BITFIELD', filterKey, 'SET', 'u1', ARGV[i+1], '1')

	oneBits = oneBits + bitset[1]
	if i % hashIterations == 0 then
		if oneBits ~= hashIterations then
			counter = counter + 1
		end

		oneBits = 0
	end
end

return redis.call('INCRBY', counterKey, counter)
`},
	{"rueidisprob", "bloomFilterDeleteScript", "b42d4dd5007b4cf26d83f47f0d092ad19b7ad4d1", `
local filterKey = KEYS[1]
local counterKey = KEYS[2]

redis.call('DEL', filterKey)
redis.call('DEL', counterKey)

return 1
`},
	{"rueidisprob", "bloomFilterExistsMultiReadOnlyScript", "99ec796f6b268a3dfa2c961249b5bfbff1db8019", `
local hashIterations = tonumber(ARGV[1])
local numElements = tonumber(#ARGV) - 1
local filterKey = KEYS[1]

local result = {}
local oneBits = 0
for i=1, numElements do
	local index = tonumber(ARGV[i+1])
	local bitset = redis.call('BITFIELD_RO', filterKey, 'GET', 'u1', index)

	oneBits = oneBits + bitset[1]
	if i % hashIterations == 0 then
		table.insert(result, oneBits == hashIterations)

		oneBits = 0
	end
end

return result
`},
	{"rueidisprob", "bloomFilterExistsMultiScript", "bd9e78ea92147df5b89b750d598d8d133ce56902", `
local hashIterations = tonumber(ARGV[1])
local numElements = tonumber(#ARGV) - 1
local filterKey = KEYS[1]

local result = {}
local oneBits = 0
for i=1, numElements do
	local index = tonumber(ARGV[i+1])
	local bitset = redis.call('BITFIELD', filterKey, 'GET', 'u1', index)

	oneBits = oneBits + bitset[1]
	if i % hashIterations == 0 then
		table.insert(result, oneBits == hashIterations)

		oneBits = 0
	end
end

return result
`},
	{"rueidisprob", "bloomFilterResetScript", "142f9853f707b06b8ba1a8235da6dcc32bf01edb", `
local filterKey = KEYS[1]
local counterKey = KEYS[2]

redis.call('SET', filterKey, "")
redis.call('SET', counterKey, 0)

return 1
`},
	{"rueidisprob", "countingBloomFilterAddMultiScript", "59fa3e57e1f8c3a146dc3f365b1bb757814ada37", `
local itemCount = tonumber(ARGV[1])
local numElements = tonumber(#ARGV) - 1
local filterKey = KEYS[1]
local counterKey = KEYS[2]

for i=2, numElements+1 do
    redis.call('HINCRBY', filterKey, ARGV[i], 1)
end

return redis.call('INCRBY', counterKey, itemCount)
`},
	{"rueidisprob", "countingBloomFilterDeleteScript", "b42d4dd5007b4cf26d83f47f0d092ad19b7ad4d1", `
local filterKey = KEYS[1]
local counterKey = KEYS[2]

redis.call('DEL', filterKey)
redis.call('DEL', counterKey)

return 1
`},
	{"rueidisprob", "countingBloomFilterRemoveMultiScript", "2b81dc53bfa0c9dc8c4d765ecff91662e1a9a6de", `
local function MergeTables(t1, t2)
	for i=1, #t2 do
		table.insert(t1, t2[i])
	end

	return t1
end

local numElements = tonumber(#ARGV) - 1
local hashIterations = tonumber(ARGV[#ARGV])
local filterKey = KEYS[1]
local counterKey = KEYS[2]

local indexCounter = {}
for i=1, numElements do
	local index = ARGV[i]
	local count = redis.call('HGET', filterKey, index)

	if (not indexCounter[index]) then
		if (not count) then
			indexCounter[index] = 0
		else
			indexCounter[index] = tonumber(count)
		end
	end
end

local decreaseIndexes = {}
local deleteItemCount = 0
for i=1, numElements, hashIterations do
	local isAbleToRemove = true
	local temp = {}
	local rollbackIndex = i

	for j=i, i+hashIterations-1 do
		local index = ARGV[j]

		table.insert(temp, index)
		indexCounter[index] = indexCounter[index] - 1
		
		if indexCounter[index] < 0 then
			isAbleToRemove = false
			rollbackIndex = j
			break
		end
	end

	if isAbleToRemove then
		decreaseIndexes = MergeTables(decreaseIndexes, temp)
		deleteItemCount = deleteItemCount + 1
	else
		for j=i, rollbackIndex do
			local index = ARGV[j]
			
			indexCounter[index] = indexCounter[index] + 1
		end
	end
end

for i=1, #decreaseIndexes do
    redis.call('HINCRBY', filterKey, decreaseIndexes[i], -1)
end

return redis.call('DECRBY', counterKey, deleteItemCount)
`},
	{"rueidisprob", "slidingBloomFilterAddMultiScript", "d0705200ae801ce4da16cec865c6aa93f7590b9b", `
local hashIterations = tonumber(ARGV[1])
local windowHalf = tonumber(ARGV[2])
local numElements = tonumber(#ARGV) - 2

local filterKey = KEYS[1]
local nextFilterKey = KEYS[2]
local counterKey = KEYS[3]
local nextCounterKey = KEYS[4]
local lastRotationKey = KEYS[5]

local time = redis.call('TIME')
local current_time = tonumber(time[1]) * 1000 + math.floor(tonumber(time[2])/1000)
local acquiredLock = redis.call('SET', lastRotationKey, tostring(current_time), 'PX', windowHalf, 'NX')

if acquiredLock then
	redis.call('RENAME', nextFilterKey, filterKey)
	redis.call('RENAME', nextCounterKey, counterKey)
	redis.call('SET', nextFilterKey, "")
	redis.call('SET', nextCounterKey, 0)
end

local counter = 0
local oneBits = 0
for i=1, numElements do
	local bitset = redis.call('BITFIELD', filterKey, 'SET', 'u1', ARGV[i+2], '1')
	redis.call('BITFIELD', nextFilterKey, 'SET', 'u1', ARGV[i+2], '1')

	oneBits = oneBits + bitset[1]
	if i % hashIterations == 0 then
		if oneBits ~= hashIterations then
			counter = counter + 1
		end

		oneBits = 0
	end
end

redis.call('INCRBY', nextCounterKey, counter)
return redis.call('INCRBY', counterKey, counter)
`},
	{"rueidisprob", "slidingBloomFilterExistsMultiScript", "9154b3d7b17f2fc868392dbcb79ee3747604dba8", `
local hashIterations = tonumber(ARGV[1])
local windowHalf = tonumber(ARGV[2])
local numElements = tonumber(#ARGV) - 2

local filterKey = KEYS[1]
local nextFilterKey = KEYS[2]
local counterKey = KEYS[3]
local nextCounterKey = KEYS[4]
local lastRotationKey = KEYS[5]

local time = redis.call('TIME')
local current_time = tonumber(time[1]) * 1000 + math.floor(tonumber(time[2])/1000)
local acquiredLock = redis.call('SET', lastRotationKey, tostring(current_time), 'PX', windowHalf, 'NX')

if acquiredLock then
	redis.call('RENAME', nextFilterKey, filterKey)
	redis.call('RENAME', nextCounterKey, counterKey)
	redis.call('SET', nextFilterKey, "")
	redis.call('SET', nextCounterKey, 0)
end

local result = {}
local oneBits = 0
for i=1, numElements do
	local index = tonumber(ARGV[i+2])
	local bitset = redis.call('BITFIELD', filterKey, 'GET', 'u1', index)

	oneBits = oneBits + bitset[1]
	if i % hashIterations == 0 then
		table.insert(result, oneBits == hashIterations)

		oneBits = 0
	end
end

return result
`},
	{"rueidisprob", "slidingBloomFilterExistsReadOnlyMultiScript", "190e6ee31008f772001e276c9728cca30fba0ff1", `
local hashIterations = tonumber(ARGV[1])
local windowHalf = tonumber(ARGV[2])
local numElements = tonumber(#ARGV) - 2

local filterKey = KEYS[1]
local nextFilterKey = KEYS[2]
local counterKey = KEYS[3]
local nextCounterKey = KEYS[4]
local lastRotationKey = KEYS[5]

local time = redis.call('TIME')
local current_time = tonumber(time[1]) * 1000 + math.floor(tonumber(time[2])/1000)
local acquiredLock = redis.call('SET', lastRotationKey, tostring(current_time), 'PX', windowHalf, 'NX')

if acquiredLock then
	redis.call('RENAME', nextFilterKey, filterKey)
	redis.call('RENAME', nextCounterKey, counterKey)
	redis.call('SET', nextFilterKey, "")
	redis.call('SET', nextCounterKey, 0)
end

local result = {}
local oneBits = 0
for i=1, numElements do
	local index = tonumber(ARGV[i+2])
	local bitset = redis.call('BITFIELD_RO', filterKey, 'GET', 'u1', index)

	oneBits = oneBits + bitset[1]
	if i % hashIterations == 0 then
		table.insert(result, oneBits == hashIterations)

		oneBits = 0
	end
end

return result
`},
	{"rueidisprob", "slidingBloomFilterInitializeScript", "c6cb06a6c5f6cc45f11e3c785294e81630d7d400", `
local filterKey = KEYS[1]
local nextFilterKey = KEYS[2]
local counterKey = KEYS[3]
local nextCounterKey = KEYS[4]
local lastRotationKey = KEYS[5]
local windowHalf = tonumber(ARGV[1])

if redis.call('EXISTS', filterKey, nextFilterKey, counterKey, nextCounterKey, lastRotationKey) == 0 then
	local time = redis.call('TIME')
	local current_time = tonumber(time[1]) * 1000 + math.floor(tonumber(time[2]) / 1000)

	redis.call('MSET', filterKey, "", counterKey, 0, nextFilterKey, "", nextCounterKey, 0)
	redis.call('SET', lastRotationKey, tostring(current_time), 'PX', windowHalf, 'NX')
end

return 1
`},
	{"rueidisprob", "slidingBloomFilterResetScript", "1625d5cfc33cfcc790fb0edbec0230a02262cb9d", `
local filterKey = KEYS[1]
local nextFilterKey = KEYS[2]
local counterKey = KEYS[3]
local nextCounterKey = KEYS[4]

redis.call('RENAME', nextFilterKey, filterKey)
redis.call('RENAME', nextCounterKey, counterKey)
redis.call('SET', nextFilterKey, "")
redis.call('SET', nextCounterKey, 0)
`},
	{"rueidislimiter", "rateLimitScript", "1e1bbf02a27d9ef5fb53afd337a22928e4e748f5", `
local rate_limit_key = KEYS[1]
local increment_amount = tonumber(ARGV[1])
local next_expires_at = tonumber(ARGV[2])
local current_time = tonumber(ARGV[3])
local expires_at_key = KEYS[2]
local expires_at = tonumber(redis.call("get", expires_at_key))
if not expires_at or expires_at < current_time then
  redis.call("set", rate_limit_key, 0, "pxat", next_expires_at + 1000)
  redis.call("set", expires_at_key, next_expires_at, "pxat", next_expires_at + 1000)
  expires_at = next_expires_at
end
local current = redis.call("incrby", rate_limit_key, increment_amount)
return { current, expires_at }
`},
}

func init() {
	seen := map[string]bool{}
	for _, p := range pinnedScripts {
		sum := sha1.Sum([]byte(p.text))
		if hex.EncodeToString(sum[:]) != p.sha {
			panic("scripts_pinned.go: text of " + p.holder + " does not have the SHA-1 it is filed under")
		}
		if _, ok := scriptBySha[p.sha]; !ok {
			panic("scripts_pinned.go: " + p.holder + " has no transcription in scriptBySha")
		}
		seen[p.sha] = true
	}
	for sha, name := range scriptBySha {
		if !seen[sha] {
			panic("scripts_pinned.go: no pinned text for the transcription " + name)
		}
	}
}
