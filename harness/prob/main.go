// Command prob is the correspondence harness for rueidisprob and rueidislimiter: it
// calls the real code in-process, writes one operation per line to -ops and
// the implementation's canonical answer per line to -out. The Lean driver is
// fed the same -ops file and the two answer streams are diffed by /verif/check.
package main

import (
	"bufio"
	"encoding/hex"
	"encoding/json"
	"flag"
	"fmt"
	"math/rand/v2"
	"os"
	"sort"
	"strings"
)

// Suite state shared by all suites.
type Ctx struct {
	Rng   *rand.Rand
	N     int
	Tier  string
	ops   *bufio.Writer
	out   *bufio.Writer
	count int
	// meta
	Dist     map[string]int
	Samples  []string
	distinct map[string]struct{}
	Nontriv  int
	// Oracle failures: inputs on which the real code itself violates the property.
	Bad []Bad
}

type Bad struct {
	Line int    `json:"line"`
	Key  string `json:"key"`  // stable witness key (matched against known-findings)
	Op   string `json:"op"`   // the operation line
	What string `json:"what"` // what the real code did
}

// Emit records one operation and the real code's answer. nontrivial says whether
// the case counts towards distinct_nontrivial (by the suite's stated rule).
func (c *Ctx) Emit(op, answer string, nontrivial bool) {
	c.count++
	fmt.Fprintln(c.ops, op)
	fmt.Fprintln(c.out, answer)
	if nontrivial {
		if _, ok := c.distinct[op]; !ok {
			c.distinct[op] = struct{}{}
			c.Nontriv++
		}
	}
	if len(c.Samples) < 6 && (c.count%97 == 1) {
		s := op + " => " + answer
		if len(s) > 300 {
			s = s[:300] + "…"
		}
		c.Samples = append(c.Samples, s)
	}
}

func (c *Ctx) Hit(k string) { c.Dist[k]++ }

func (c *Ctx) Fail(key, op, what string) {
	c.Bad = append(c.Bad, Bad{Line: c.count, Key: key, Op: op, What: what})
}

func hx(s string) string {
	if len(s) == 0 {
		return "-"
	}
	return hex.EncodeToString([]byte(s))
}

func unhx(s string) string {
	if s == "-" {
		return ""
	}
	b, err := hex.DecodeString(s)
	if err != nil {
		panic(err)
	}
	return string(b)
}

type suite struct {
	rule string
	run  func(c *Ctx)
	// replay re-runs explicit op lines (from a replay/corpus file) through the real code
	replay func(c *Ctx, lines []string)
}

var suites = map[string]suite{}

// childHooks let a suite re-exec this binary to run one dangerous input in isolation.
var childHooks []func(args []string) bool

func main() {
	if len(os.Args) > 1 && strings.HasPrefix(os.Args[1], "-child-") {
		for _, h := range childHooks {
			if h(os.Args[1:]) {
				return
			}
		}
		os.Exit(3)
	}
	var (
		seed   = flag.Uint64("seed", 1, "PRNG seed")
		n      = flag.Int("n", 1000, "number of generated cases")
		tier   = flag.String("tier", "quick", "quick|thorough")
		opsF   = flag.String("ops", "ops.txt", "operations file (written)")
		outF   = flag.String("out", "impl.txt", "implementation answers (written)")
		metaF  = flag.String("meta", "meta.json", "meta/evidence file (written)")
		replay = flag.String("replay", "", "replay op lines from this file instead of generating")
	)
	flag.Parse()
	if flag.NArg() != 1 {
		names := []string{}
		for k := range suites {
			names = append(names, k)
		}
		sort.Strings(names)
		fmt.Fprintln(os.Stderr, "usage: core [flags] <suite>; suites:", strings.Join(names, " "))
		os.Exit(2)
	}
	s, ok := suites[flag.Arg(0)]
	if !ok {
		fmt.Fprintln(os.Stderr, "unknown suite", flag.Arg(0))
		os.Exit(2)
	}
	of, err := os.Create(*opsF)
	if err != nil {
		panic(err)
	}
	rf, err := os.Create(*outF)
	if err != nil {
		panic(err)
	}
	c := &Ctx{
		Rng: rand.New(rand.NewPCG(*seed, 0x9e3779b97f4a7c15)), N: *n, Tier: *tier,
		ops: bufio.NewWriterSize(of, 1<<20), out: bufio.NewWriterSize(rf, 1<<20),
		Dist: map[string]int{}, distinct: map[string]struct{}{},
	}
	// trust in the script interpreter is established first: every known script, Go transcription vs luamini
	luaminiSelfCheck(c, *seed)
	if *replay != "" {
		data, err := os.ReadFile(*replay)
		if err != nil {
			panic(err)
		}
		var lines []string
		for _, l := range strings.Split(string(data), "\n") {
			l = strings.TrimSpace(l)
			if l != "" && !strings.HasPrefix(l, "#") {
				lines = append(lines, l)
			}
		}
		if s.replay == nil {
			fmt.Fprintln(os.Stderr, "suite has no replay mode")
			os.Exit(2)
		}
		s.replay(c, lines)
	} else {
		s.run(c)
	}
	luaminiHits(c)
	c.ops.Flush()
	c.out.Flush()
	of.Close()
	rf.Close()
	meta := map[string]any{
		"suite": flag.Arg(0), "seed": *seed, "tier": *tier, "evaluations": c.count,
		"distinct_nontrivial": c.Nontriv, "rule": s.rule, "distribution": c.Dist,
		"samples": c.Samples, "bad": c.Bad,
	}
	mb, _ := json.MarshalIndent(meta, "", " ")
	if err := os.WriteFile(*metaF, mb, 0o644); err != nil {
		panic(err)
	}
}
